import ElvisVerif.Lemmas.ArpTime
/-! What every transition keeps (helper lemmas for C06): machines only grow, frames stay on the
wire, resolvers keep their identity and their answer once they have one. -/
namespace Elvis.Arp
open Elvis.Gen.Arp

/-- `s'` extends `s` -/
structure Ext (s s' : Net) : Prop where
  ms : MsLe s.machines s'.machines
  wire : ∀ (fi : Nat) (f : Frame), s.wire[fi]? = some f →
    ∃ f', s'.wire[fi]? = some f' ∧ f'.pkt = f.pkt ∧ f'.dst = f.dst ∧ f'.smac = f.smac ∧ (f.lost = true → f'.lost = true)
  res : ∀ (i : Nat) (r : Resolver), s.resolvers[i]? = some r →
    ∃ r', s'.resolvers[i]? = some r' ∧ r'.mach = r.mach ∧ r'.dest = r.dest ∧ r'.smac = r.smac ∧
      r'.loc = r.loc ∧ r'.started = r.started ∧ (∀ x, r.result = some x → r'.result = some x)
  neg : s'.negCache = s.negCache
  mtu : s'.mtu = s.mtu
  now : s.now ≤ s'.now

/-- the taps of the machines, in order -/
def Net.taps (s : Net) : List (List Mac) := s.machines.map (·.macs)

theorem MsLe.taps {ms ms' : List Machine} (h : MsLe ms ms') (hl : ms'.length = ms.length) :
    ms'.map (·.macs) = ms.map (·.macs) := by
  apply List.ext_getElem?
  intro k
  simp only [List.getElem?_map]
  cases hk : ms[k]? with
  | none =>
    have : ms'[k]? = none := by
      rw [List.getElem?_eq_none_iff] at hk ⊢; omega
    simp [this]
  | some m =>
    obtain ⟨m', hm', hle⟩ := h k m hk
    simp [hm', hle.1]

theorem Ext.refl (s : Net) : Ext s s :=
  ⟨MsLe.refl _, fun _ f h => ⟨f, h, rfl, rfl, rfl, id⟩, fun _ r h => ⟨r, h, rfl, rfl, rfl, rfl, rfl, fun _ e => e⟩,
   rfl, rfl, Nat.le_refl _⟩

theorem Ext.trans {a b c : Net} (h1 : Ext a b) (h2 : Ext b c) : Ext a c := by
  refine ⟨h1.ms.trans h2.ms, ?_, ?_, h2.neg.trans h1.neg, h2.mtu.trans h1.mtu, Nat.le_trans h1.now h2.now⟩
  · intro fi f hf
    obtain ⟨f', hf', e1, e2, e3, e4⟩ := h1.wire fi f hf
    obtain ⟨f'', hf'', g1, g2, g3, g4⟩ := h2.wire fi f' hf'
    exact ⟨f'', hf'', g1.trans e1, g2.trans e2, g3.trans e3, fun h => g4 (e4 h)⟩
  · intro i r hr
    obtain ⟨r', hr', e1, e2, e3, e4, e5, e6⟩ := h1.res i r hr
    obtain ⟨r'', hr'', g1, g2, g3, g4, g5, g6⟩ := h2.res i r' hr'
    exact ⟨r'', hr'', g1.trans e1, g2.trans e2, g3.trans e3, g4.trans e4, g5.trans e5, fun x h => g6 x (e6 x h)⟩

/-- only the machine list changed, and it grew -/
theorem Ext.ofMachines {s s' : Net} (hm : MsLe s.machines s'.machines) (h1 : s'.wire = s.wire)
    (h2 : s'.resolvers = s.resolvers) (h3 : s'.negCache = s.negCache) (h4 : s'.mtu = s.mtu)
    (h5 : s'.now = s.now) : Ext s s' :=
  ⟨hm, fun _ f h => ⟨f, by rw [h1]; exact h, rfl, rfl, rfl, id⟩,
   fun _ r h => ⟨r, by rw [h2]; exact h, rfl, rfl, rfl, rfl, rfl, fun _ e => e⟩, h3, h4, by rw [h5]; exact Nat.le_refl _⟩

theorem getElem?_append_some {α : Type} {l l' : List α} {i : Nat} {a : α} (h : l[i]? = some a) :
    (l ++ l')[i]? = some a := by
  rw [List.getElem?_append_left (getElem?_lt h)]; exact h

theorem Ext.listen (s : Net) (k : Nat) (ip : Ip) : Ext s (s.listen k ip) := by
  unfold Net.listen; split
  · rename_i m hm
    exact Ext.ofMachines (MsLe.set hm (m.listen_le ip)) rfl rfl rfl rfl rfl
  · exact Ext.refl s

theorem Ext.setSubnet (s : Net) (k : Nat) (ip : Ip) (bits : Nat) (gw : Ip) : Ext s (s.setSubnet k ip bits gw) := by
  unfold Net.setSubnet; split
  · rename_i m hm
    exact Ext.ofMachines (MsLe.set hm (m.setSubnet_le ip _)) rfl rfl rfl rfl rfl
  · exact Ext.refl s

theorem Ext.failMac (s : Net) (k : Nat) (x : Ip) : Ext s (s.failMac k x) := by
  unfold Net.failMac; split
  · rename_i m hm
    exact Ext.ofMachines (MsLe.set hm (Machine.le_of_localIps rfl rfl)) rfl rfl rfl rfl rfl
  · exact Ext.refl s

theorem Ext.tick (s : Net) (dt : Nat) : Ext s (s.tick dt) := by
  unfold Net.tick; split
  · exact ⟨MsLe.refl _, fun _ f h => ⟨f, h, rfl, rfl, rfl, id⟩,
      fun _ r h => ⟨r, h, rfl, rfl, rfl, rfl, rfl, fun _ e => e⟩, rfl, rfl, Nat.le_add_right _ _⟩
  · exact Ext.refl s

theorem Ext.lose (s : Net) (fi : Nat) : Ext s (s.lose fi) := by
  unfold Net.lose; split
  · rename_i f hf
    refine ⟨MsLe.refl _, ?_, fun _ r h => ⟨r, h, rfl, rfl, rfl, rfl, rfl, fun _ e => e⟩, rfl, rfl, Nat.le_refl _⟩
    intro gi g hg
    by_cases hgi : fi = gi
    · subst hgi
      rw [hf] at hg; cases hg
      exact ⟨_, List.getElem?_set_self (getElem?_lt hf), rfl, rfl, rfl, fun _ => rfl⟩
    · exact ⟨g, by show (s.wire.set fi _)[gi]? = _; rw [List.getElem?_set_ne hgi]; exact hg, rfl, rfl, rfl, id⟩
  · exact Ext.refl s

theorem Ext.deliver (s : Net) (fi k slot : Nat) : Ext s (s.deliver fi k slot) := by
  unfold Net.deliver
  split
  · rename_i f m hf hm
    split
    · split
      · refine ⟨MsLe.set hm (by rw [Machine.demux_fst]; exact Machine.le_of_localIps rfl rfl), ?_,
          fun _ r h => ⟨r, h, rfl, rfl, rfl, rfl, rfl, fun _ e => e⟩, rfl, rfl, Nat.le_refl _⟩
        intro gi g hg
        exact ⟨g, getElem?_append_some hg, rfl, rfl, rfl, id⟩
      · exact Ext.refl s
    · exact Ext.refl s
  · exact Ext.refl s

/-- replacing resolver `i` by one with the same identity that keeps an existing answer -/
theorem Ext.setResolver {s : Net} {i : Nat} {r r' : Resolver} (hr : s.resolvers[i]? = some r)
    (h1 : r'.mach = r.mach) (h2 : r'.dest = r.dest) (h3 : r'.smac = r.smac) (h4 : r'.loc = r.loc)
    (h5 : r'.started = r.started) (h6 : ∀ x, r.result = some x → r'.result = some x) :
    Ext s { s with resolvers := s.resolvers.set i r' } := by
  refine ⟨MsLe.refl _, fun _ f h => ⟨f, h, rfl, rfl, rfl, id⟩, ?_, rfl, rfl, Nat.le_refl _⟩
  intro j q hq
  by_cases hij : i = j
  · subst hij
    rw [hr] at hq; cases hq
    exact ⟨r', List.getElem?_set_self (getElem?_lt hr), h1, h2, h3, h4, h5, h6⟩
  · exact ⟨q, by show (s.resolvers.set i r')[j]? = _; rw [List.getElem?_set_ne hij]; exact hq,
      rfl, rfl, rfl, rfl, rfl, fun _ e => e⟩

theorem Ext.wake (s : Net) (i : Nat) : Ext s (s.wake i) := by
  unfold Net.wake
  split
  · rename_i r hr
    split
    · rename_i hres
      split
      · exact Ext.setResolver hr rfl rfl rfl rfl rfl (fun x e => by rw [hres] at e; cases e)
      · exact Ext.refl s
    · exact Ext.refl s
  · exact Ext.refl s

/-- the state part of one retry iteration -/
theorem Ext.roundOrFail (s : Net) (r : Resolver) : Ext s (s.roundOrFail r).1 := by
  unfold Net.roundOrFail
  split
  · split
    · exact ⟨MsLe.refl _, fun _ f h => ⟨f, getElem?_append_some h, rfl, rfl, rfl, id⟩,
        fun _ q h => ⟨q, h, rfl, rfl, rfl, rfl, rfl, fun _ e => e⟩, rfl, rfl, Nat.le_refl _⟩
    · exact Ext.refl s
  · exact Ext.failMac s r.mach r.dest

theorem Ext.timeout (s : Net) (i : Nat) : Ext s (s.timeout i) := by
  unfold Net.timeout
  split
  · rename_i r hr
    split
    · rename_i hc
      obtain ⟨_, _, _, f4, _, f6, f7, f8, f9, f10⟩ := s.roundOrFail_fields r
      have hr' : (s.roundOrFail r).1.resolvers[i]? = some r := by rw [f4]; exact hr
      exact (Ext.roundOrFail s r).trans
        (Ext.setResolver (s := (s.roundOrFail r).1) hr' f7 f8 f9 f10 f6 (fun x e => by rw [hc.1] at e; cases e))
    · exact Ext.refl s
  · exact Ext.refl s

theorem Ext.addResolver (s : Net) (r : Resolver) : Ext s { s with resolvers := s.resolvers ++ [r] } :=
  ⟨MsLe.refl _, fun _ f h => ⟨f, h, rfl, rfl, rfl, id⟩,
   fun _ q h => ⟨q, getElem?_append_some h, rfl, rfl, rfl, rfl, rfl, fun _ e => e⟩, rfl, rfl, Nat.le_refl _⟩

theorem Ext.resolve (s : Net) (k : Nat) (loc remote : Ip) (slot : Nat) : Ext s (s.resolve k loc remote slot) := by
  unfold Net.resolve
  split
  · exact Ext.refl s
  · rename_i m0 hm0
    dsimp only
    have e1 : Ext s { s with machines := s.machines.set k (m0.listen loc) } :=
      Ext.ofMachines (MsLe.set hm0 (m0.listen_le loc)) rfl rfl rfl rfl rfl
    split
    · exact e1.trans (Ext.addResolver _ _)
    · split
      · exact Ext.ofMachines (MsLe.set hm0 (m0.listen_le loc)) rfl rfl rfl rfl rfl
      · exact e1.trans ((Ext.roundOrFail _ _).trans (Ext.addResolver _ _))

theorem Ext.step (s : Net) (l : Label) : Ext s (step s l) := by
  unfold Elvis.Arp.step
  split
  · exact Ext.refl s
  · cases l with
    | listen k ip => exact Ext.listen s k ip
    | setSubnet k ip bits gw => exact Ext.setSubnet s k ip bits gw
    | resolve k loc remote slot => exact Ext.resolve s k loc remote slot
    | deliver fi k slot => exact Ext.deliver s fi k slot
    | lose fi => exact Ext.lose s fi
    | wake i => exact Ext.wake s i
    | timeout i => exact Ext.timeout s i
    | tick dt => exact Ext.tick s dt

theorem Ext.run (s : Net) (ls : List Label) : Ext s (run s ls) := by
  induction ls generalizing s with
  | nil => exact Ext.refl s
  | cons l ls ih => exact (Ext.step s l).trans (ih (Elvis.Arp.step s l))

/-! ### the taps never change -/

theorem Net.failMac_length (s : Net) (k : Nat) (x : Ip) : (s.failMac k x).machines.length = s.machines.length := by
  unfold Net.failMac; split <;> simp

theorem Net.roundOrFail_length (s : Net) (r : Resolver) :
    (s.roundOrFail r).1.machines.length = s.machines.length := by
  unfold Net.roundOrFail
  split
  · split <;> rfl
  · exact s.failMac_length _ _

theorem Net.listen_length (s : Net) (k : Nat) (ip : Ip) : (s.listen k ip).machines.length = s.machines.length := by
  unfold Net.listen; split <;> simp

theorem Net.setSubnet_length (s : Net) (k : Nat) (ip : Ip) (bits : Nat) (gw : Ip) :
    (s.setSubnet k ip bits gw).machines.length = s.machines.length := by
  unfold Net.setSubnet; split <;> simp

theorem Net.resolve_length (s : Net) (k : Nat) (loc remote : Ip) (slot : Nat) :
    (s.resolve k loc remote slot).machines.length = s.machines.length := by
  unfold Net.resolve
  split
  · rfl
  · dsimp only
    split
    · simp
    · split
      · simp
      · show (Net.roundOrFail _ _).1.machines.length = _
        rw [Net.roundOrFail_length]; simp

theorem Net.deliver_length (s : Net) (fi k slot : Nat) : (s.deliver fi k slot).machines.length = s.machines.length := by
  unfold Net.deliver
  split
  · split
    · split
      · simp
      · rfl
    · rfl
  · rfl

theorem Net.lose_length (s : Net) (fi : Nat) : (s.lose fi).machines.length = s.machines.length := by
  unfold Net.lose; split <;> rfl

theorem Net.wake_length (s : Net) (i : Nat) : (s.wake i).machines.length = s.machines.length := by
  unfold Net.wake
  split
  · split
    · split <;> rfl
    · rfl
  · rfl

theorem Net.timeout_length (s : Net) (i : Nat) : (s.timeout i).machines.length = s.machines.length := by
  unfold Net.timeout
  split
  · split
    · show (Net.roundOrFail _ _).1.machines.length = _
      exact Net.roundOrFail_length _ _
    · rfl
  · rfl

theorem Net.tick_length (s : Net) (dt : Nat) : (s.tick dt).machines.length = s.machines.length := by
  unfold Net.tick; split <;> rfl

theorem step_length (s : Net) (l : Label) : (step s l).machines.length = s.machines.length := by
  unfold Elvis.Arp.step
  split
  · rfl
  · cases l with
    | listen k ip => exact s.listen_length k ip
    | setSubnet k ip bits gw => exact s.setSubnet_length k ip bits gw
    | resolve k loc remote slot => exact s.resolve_length k loc remote slot
    | deliver fi k slot => exact s.deliver_length fi k slot
    | lose fi => exact s.lose_length fi
    | wake i => exact s.wake_length i
    | timeout i => exact s.timeout_length i
    | tick dt => exact s.tick_length dt

theorem step_taps (s : Net) (l : Label) : (step s l).taps = s.taps :=
  (Ext.step s l).ms.taps (step_length s l)

theorem run_taps (s : Net) (ls : List Label) : (run s ls).taps = s.taps := by
  induction ls generalizing s with
  | nil => rfl
  | cons l ls ih => exact (ih (step s l)).trans (step_taps s l)

/-- consecutive numbering: the MACs of the taps, machine after machine, are strictly increasing -/
theorem assignMacs_sorted (slots : List Nat) (c : Nat) :
    (assignMacs c slots).flatten.Pairwise (· < ·) ∧ ∀ x ∈ (assignMacs c slots).flatten, c ≤ x := by
  induction slots generalizing c with
  | nil => simp [assignMacs]
  | cons n rest ih =>
    obtain ⟨ih1, ih2⟩ := ih (c + n)
    simp only [assignMacs, List.flatten_cons]
    constructor
    · rw [List.pairwise_append]
      refine ⟨?_, ih1, ?_⟩
      · exact List.Pairwise.map _ (fun a b h => Nat.add_lt_add_left h c) List.pairwise_lt_range
      · intro a ha b hb
        simp only [List.mem_map, List.mem_range] at ha
        obtain ⟨a', ha', rfl⟩ := ha
        have := ih2 b hb
        show c + a' < b
        omega
    · intro x hx
      rcases List.mem_append.mp hx with h | h
      · simp only [List.mem_map, List.mem_range] at h
        obtain ⟨a', _, rfl⟩ := h
        show c ≤ c + a'
        omega
      · have := ih2 x h
        omega

/-- in a list of lists whose concatenation is strictly increasing, an element determines its row -/
theorem row_unique {L : List (List Nat)} (h : L.flatten.Pairwise (· < ·)) {i j : Nat} {li lj : List Nat}
    (hi : L[i]? = some li) (hj : L[j]? = some lj) {x : Nat} (xi : x ∈ li) (xj : x ∈ lj) : i = j := by
  rw [List.pairwise_flatten] at h
  obtain ⟨_, h2⟩ := h
  rw [List.pairwise_iff_getElem] at h2
  have hil := getElem?_lt hi
  have hjl := getElem?_lt hj
  rw [List.getElem?_eq_getElem hil] at hi
  rw [List.getElem?_eq_getElem hjl] at hj
  cases hi; cases hj
  rcases Nat.lt_trichotomy i j with hlt | heq | hgt
  · exact absurd (h2 i j hil hjl hlt x xi x xj) (Nat.lt_irrefl x)
  · exact heq
  · exact absurd (h2 j i hjl hil hgt x xj x xi) (Nat.lt_irrefl x)

theorem init_taps (neg : Bool) (slots : List Nat) (mtu : Nat) : (initWith neg slots mtu).taps = assignMacs 0 slots := by
  simp [Net.taps, initWith, List.map_map, Function.comp_def]

end Elvis.Arp
