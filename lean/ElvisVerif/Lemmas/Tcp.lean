import ElvisVerif.Model.Codec.Tcp
import ElvisVerif.Lemmas.Ipv4
/-!
Helper lemmas for the TCP codec (C08, C14a, C18): closed form and inversion of `from_bytes`,
and the accumulators of decoder and builder tracked against the plain sum of words.
-/
namespace Elvis.Codec.Tcp
open Elvis.Ck Elvis.Codec Elvis.Rfc1071

/-- accumulator of `from_bytes` in code order; `orc` is the 16-bit word holding data offset,
    reserved bits and control bits -/
def accDec (ck : Bool) (sp dp seq ack orc wnd urg : Nat) (rest : List UInt8) (src dst plen : Nat) : Nat :=
  add16 ck (addU8 ck (addWord32 ck (addWord32 ck (accumulateRemainder ck (add16 ck (add16 ck
    (add16 ck (addWord32 ck (addWord32 ck (add16 ck (add16 ck 0 sp) dp) seq) ack) orc) wnd) urg)
    rest) src) dst) 0 6) plen

/-- accumulator of `TcpHeaderBuilder::build` in code order -/
def accBuild (ck : Bool) (sp dp seq ack ctl wnd urg : Nat) (text : List UInt8) (src dst len : Nat) : Nat :=
  add16 ck (add16 ck (addU8 ck (addWord32 ck (addWord32 ck (add16 ck (add16 ck (add16 ck
    (addU8 ck (addWord32 ck (addWord32 ck (accumulateRemainder ck 0 text) src) dst) 0 6) len)
    sp) dp) seq) ack) (5 * 16) ctl) wnd) urg

/-- plain sum of all 16-bit words covered by the TCP checksum except the checksum field -/
def coveredSum (sp dp seq ack orc wnd urg : Nat) (text : List UInt8) (src dst len : Nat) : Nat :=
  (src / 65536 % 65536 + src % 65536) + (dst / 65536 % 65536 + dst % 65536) + 6 + len
    + sp + dp + (seq / 65536 % 65536 + seq % 65536) + (ack / 65536 % 65536 + ack % 65536)
    + orc + wnd + urg + (wordsOf text).sum

theorem accDec_tracks {sp dp orc wnd urg plen : Nat} (seq ack src dst : Nat) (rest : List UInt8)
    (h1 : sp < 65536) (h2 : dp < 65536) (h3 : orc < 65536) (h4 : wnd < 65536) (h5 : urg < 65536)
    (h6 : plen < 65536) :
    Tracks (accDec true sp dp seq ack orc wnd urg rest src dst plen)
      (coveredSum sp dp seq ack orc wnd urg rest src dst plen) := by
  unfold accDec coveredSum
  have t := (((Tracks.zero.add16 h1).add16 h2).addWord32 (v := seq)).addWord32 (v := ack)
  have t := accumulateRemainder_tracks rest (((t.add16 h3).add16 h4).add16 h5)
  have t := (((t.addWord32 (v := src)).addWord32 (v := dst)).addU8 (a := 0) (b := 6)
    (by omega) (by omega)).add16 h6
  exact t.congr (by omega)

theorem accBuild_tracks {sp dp ctl wnd urg len : Nat} (seq ack src dst : Nat) (text : List UInt8)
    (h1 : sp < 65536) (h2 : dp < 65536) (h3 : ctl < 256) (h4 : wnd < 65536) (h5 : urg < 65536)
    (h6 : len < 65536) :
    Tracks (accBuild true sp dp seq ack ctl wnd urg text src dst len)
      (coveredSum sp dp seq ack (80 * 256 + ctl) wnd urg text src dst len) := by
  unfold accBuild coveredSum
  have t := accumulateRemainder_tracks text Tracks.zero
  have t := (((t.addWord32 (v := src)).addWord32 (v := dst)).addU8 (a := 0) (b := 6)
    (by omega) (by omega)).add16 h6
  have t := ((((t.add16 h1).add16 h2).addWord32 (v := seq)).addWord32 (v := ack)).addU8
    (a := 5 * 16) (b := ctl) (by omega) h3
  have t := (t.add16 h4).add16 h5
  exact t.congr (by omega)

theorem acc_off (sp dp seq ack orc wnd urg src dst len : Nat) (bs : List UInt8) :
    accDec false sp dp seq ack orc wnd urg bs src dst len = 0 ∧
    accBuild false sp dp seq ack orc wnd urg bs src dst len = 0 := by
  simp [accDec, accBuild, Ck.add16, Ck.addU8, Ck.addWord32, Ck.addU32, accumulateRemainder_off]

/-- decoder and builder add the same words in different orders: same accumulator -/
theorem accDec_eq_accBuild (ck : Bool) {sp dp ctl wnd urg len : Nat} (seq ack src dst : Nat)
    (text : List UInt8) (h1 : sp < 65536) (h2 : dp < 65536) (h3 : ctl < 256) (h4 : wnd < 65536)
    (h5 : urg < 65536) (h6 : len < 65536) :
    accDec ck sp dp seq ack (80 * 256 + ctl) wnd urg text src dst len =
      accBuild ck sp dp seq ack ctl wnd urg text src dst len := by
  cases ck
  · rw [(acc_off ..).1, (acc_off ..).2]
  · rw [(accDec_tracks seq ack src dst text h1 h2 (by omega) h4 h5 h6).eq,
      (accBuild_tracks seq ack src dst text h1 h2 h3 h4 h5 h6).eq]

/-- `from_bytes` on at least 20 bytes, in closed form -/
theorem fromBytes_cons20 (ck : Bool)
    (b0 b1 b2 b3 b4 b5 b6 b7 b8 b9 b10 b11 b12 b13 b14 b15 b16 b17 b18 b19 : UInt8)
    (rest : List UInt8) (plen src dst : Nat) :
    fromBytes ck (b0 :: b1 :: b2 :: b3 :: b4 :: b5 :: b6 :: b7 :: b8 :: b9 :: b10 :: b11 :: b12 ::
        b13 :: b14 :: b15 :: b16 :: b17 :: b18 :: b19 :: rest) plen src dst =
      if b12.toNat / 16 ≠ 5 then .error (.err .unexpectedOptions)
      else if plen > 65535 then .error (.err .packetTooLong)
      else if matchesField ck (accDec ck (W b0 b1) (W b2 b3) (W4 b4 b5 b6 b7) (W4 b8 b9 b10 b11)
          (W b12 b13) (W b14 b15) (W b18 b19) rest src dst plen) (W b16 b17) then
        .ok { srcPort := W b0 b1, dstPort := W b2 b3, seq := W4 b4 b5 b6 b7, ack := W4 b8 b9 b10 b11,
              dataOffset := b12.toNat / 16, ctl := b13.toNat % 64, wnd := W b14 b15,
              urg := W b18 b19, checksum := W b16 b17 }
      else .error (.err (.checksum (asU16 ck (accDec ck (W b0 b1) (W b2 b3) (W4 b4 b5 b6 b7)
          (W4 b8 b9 b10 b11) (W b12 b13) (W b14 b15) (W b18 b19) rest src dst plen)) (W b16 b17))) := by
  simp only [fromBytes, nextU8, nextU16, nextU32]
  rfl

/-- `from_bytes` returns a header only for at least 20 bytes -/
theorem fromBytes_ok_cons {ck : Bool} {bs : List UInt8} {plen src dst : Nat} {hd : Header}
    (h : fromBytes ck bs plen src dst = .ok hd) :
    ∃ b0 b1 b2 b3 b4 b5 b6 b7 b8 b9 b10 b11 b12 b13 b14 b15 b16 b17 b18 b19 rest,
      bs = b0 :: b1 :: b2 :: b3 :: b4 :: b5 :: b6 :: b7 :: b8 :: b9 :: b10 :: b11 :: b12 :: b13 ::
        b14 :: b15 :: b16 :: b17 :: b18 :: b19 :: rest := by
  rcases bs with _ | ⟨b0, _ | ⟨b1, _ | ⟨b2, _ | ⟨b3, _ | ⟨b4, _ | ⟨b5, _ | ⟨b6, _ | ⟨b7, _ | ⟨b8,
    _ | ⟨b9, _ | ⟨b10, _ | ⟨b11, _ | ⟨b12, _ | ⟨b13, _ | ⟨b14, _ | ⟨b15, _ | ⟨b16, _ | ⟨b17,
    _ | ⟨b18, _ | ⟨b19, rest⟩⟩⟩⟩⟩⟩⟩⟩⟩⟩⟩⟩⟩⟩⟩⟩⟩⟩⟩⟩
  all_goals try (exact ⟨_, _, _, _, _, _, _, _, _, _, _, _, _, _, _, _, _, _, _, _, _, rfl⟩)
  all_goals (simp only [fromBytes, hts, nextU8, nextU16, nextU32] at h)
  all_goals (try (simp at h; done))
  all_goals (repeat' (split at h <;> try (simp at h; done)))

/-- what an accepting `from_bytes` says about the input -/
theorem fromBytes_ok_inv {ck : Bool} {bs : List UInt8} {plen src dst : Nat} {hd : Header}
    (h : fromBytes ck bs plen src dst = .ok hd) :
    ∃ b0 b1 b2 b3 b4 b5 b6 b7 b8 b9 b10 b11 b12 b13 b14 b15 b16 b17 b18 b19 rest,
      bs = b0 :: b1 :: b2 :: b3 :: b4 :: b5 :: b6 :: b7 :: b8 :: b9 :: b10 :: b11 :: b12 :: b13 ::
        b14 :: b15 :: b16 :: b17 :: b18 :: b19 :: rest ∧
      b12.toNat / 16 = 5 ∧ plen ≤ 65535 ∧
      matchesField ck (accDec ck (W b0 b1) (W b2 b3) (W4 b4 b5 b6 b7) (W4 b8 b9 b10 b11)
          (W b12 b13) (W b14 b15) (W b18 b19) rest src dst plen) (W b16 b17) = true ∧
      hd = { srcPort := W b0 b1, dstPort := W b2 b3, seq := W4 b4 b5 b6 b7, ack := W4 b8 b9 b10 b11,
             dataOffset := 5, ctl := b13.toNat % 64, wnd := W b14 b15, urg := W b18 b19,
             checksum := W b16 b17 } := by
  obtain ⟨b0, b1, b2, b3, b4, b5, b6, b7, b8, b9, b10, b11, b12, b13, b14, b15, b16, b17, b18, b19,
    rest, rfl⟩ := fromBytes_ok_cons h
  rw [fromBytes_cons20] at h
  refine ⟨b0, b1, b2, b3, b4, b5, b6, b7, b8, b9, b10, b11, b12, b13, b14, b15, b16, b17, b18, b19,
    rest, rfl, ?_⟩
  split at h
  · simp at h
  · rename_i c1
    split at h
    · simp at h
    · rename_i c2
      split at h
      · rename_i c3
        simp only [Except.ok.injEq] at h
        have e : b12.toNat / 16 = 5 := by omega
        refine ⟨e, by omega, c3, ?_⟩
        rw [← h, e]
      · simp at h

end Elvis.Codec.Tcp
