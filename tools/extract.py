#!/usr/bin/env python3
"""Source -> Lean extraction (run on every check).

Reads /repo's *current* Rust sources and (re)writes lean/ElvisVerif/Generated/*.lean:
numeric constants, the one-expression arithmetic kernels, and structural certificates.
Fails closed: anything it cannot translate is an error (reported by ./check as a broken tie).
Files are rewritten only when their content changes, so Lean's build cache stays valid.
"""
import os, re, sys

REPO = os.environ.get("ELVIS_REPO") or os.path.normpath(os.path.join(os.path.dirname(os.path.abspath(__file__)), "..", "..", "repo"))
CORE = os.path.join(REPO, "sim", "elvis-core", "src")
ELVIS = os.path.join(REPO, "sim", "elvis", "src")
OUT = os.path.join(os.path.dirname(os.path.abspath(__file__)), "..", "lean", "ElvisVerif", "Generated")


class ExtractError(Exception):
    pass


def read(path):
    with open(path) as f:
        return f.read()


def strip_comments(src):
    src = re.sub(r"/\*.*?\*/", "", src, flags=re.S)
    return re.sub(r"//[^\n]*", "", src)


def write_if_changed(name, text):
    p = os.path.join(OUT, name)
    os.makedirs(OUT, exist_ok=True)
    if os.path.exists(p) and read(p) == text:
        return
    with open(p, "w") as f:
        f.write(text)


def check_message_immutability():
    """C07 structural certificate: message/ holds no unsafe code, no in-place mutation of shared
    chunk storage and no interior mutability."""
    bad = []
    files = [os.path.join(CORE, "message.rs")] + [os.path.join(CORE, "message", f) for f in sorted(os.listdir(os.path.join(CORE, "message")))]
    for p in files:
        src = strip_comments(read(p)).split("#[cfg(test)]")[0]
        for tok in ("unsafe", "get_mut(", "make_mut(", "RefCell", "Cell<", "Mutex", "RwLock", "Atomic", "as_mut_ptr", "get_mut_unchecked"):
            if tok in src:
                bad.append(f"{os.path.relpath(p, REPO)}: `{tok}`")
    if bad:
        raise ExtractError("message/ is no longer evidently immutable-by-construction: " + "; ".join(bad))


def fn_body(src, start):
    """text of the brace-balanced block that starts at the first '{' at or after `start`"""
    j = src.index("{", start)
    d = 0
    for k in range(j, len(src)):
        if src[k] == "{":
            d += 1
        elif src[k] == "}":
            d -= 1
            if d == 0:
                return src[j:k + 1]
    raise ExtractError("unbalanced braces")


SEND_LIKE = ["send(", "send_pci(", ".open(", "open_and_listen(", "open_for_sending(", "connect(", "spawn(", "send_message(", "send_to(", "resolve("]


def gen_sim_cert():
    """C13: per `Protocol::start` implementation: number of barrier waits and whether a
    frame-producing call precedes the wait; barrier sizing; shutdown channel capacity; outer
    timeout slack."""
    import glob
    rows = []
    files = sorted(glob.glob(os.path.join(CORE, "**", "*.rs"), recursive=True) + glob.glob(os.path.join(ELVIS, "**", "*.rs"), recursive=True))
    for p in files:
        src = strip_comments(read(p))
        if "impl Protocol for" not in src:
            continue
        for m in re.finditer(r"impl\s+Protocol\s+for\s+([A-Za-z0-9_<>:, ]+?)\s*\{", src):
            impl = fn_body(src, m.end() - 1)
            sm = re.search(r"async\s+fn\s+start\s*\(", impl)
            if not sm:
                raise ExtractError(f"{p}: impl Protocol for {m.group(1)} has no async fn start")
            sig_end = impl.index(")", sm.end())
            # skip to the body: first '{' after the return type
            body = fn_body(impl, impl.index("StartError", sig_end))
            waits = len(re.findall(r"\.wait\(\)\s*\.await", body))
            pre = re.split(r"\.wait\(\)\s*\.await", body)[0] if waits else body
            send_before = any(t in pre for t in SEND_LIKE)
            name = os.path.relpath(p, os.path.join(REPO, "sim")) + "::" + re.sub(r"\s+", "", m.group(1))
            rows.append((name, waits, send_before))
    if len(rows) < 10:
        raise ExtractError("found suspiciously few Protocol implementations: %d" % len(rows))
    inet = re.sub(r"\s+", " ", strip_comments(read(os.path.join(CORE, "internet.rs"))))
    mach = re.sub(r"\s+", " ", strip_comments(read(os.path.join(CORE, "machine.rs"))))
    shut = re.sub(r"\s+", " ", strip_comments(read(os.path.join(CORE, "shutdown.rs"))))
    sized = bool(re.search(r"let total_protocols: usize = machines \.iter\(\) \.map\(\|machine\| machine\.protocol_count\(\)\) \.sum\(\);", inet)) \
        and "Barrier::new(total_protocols)" in inet \
        and bool(re.search(r"for machine in machines \{.*?handles\.spawn\(machine\.start\(shutdown, initialized\)\);", inet))
    per_proto = bool(re.search(r"for protocol in self\.iter\(\) \{.*?\.start\(shutdown_clone, initialized_clone, self_clone\).*?handles\.spawn\(fut\);", mach)) \
        and bool(re.search(r"pub fn protocol_count\(&self\) -> usize \{ self\.protocols\.len\(\) \}", mach)) \
        and bool(re.search(r"pub fn iter\(&self\).*?\{ self\.protocols\.values\(\)", mach))
    mcap = re.search(r"broadcast::channel\((\d+)\)", shut)
    if not mcap:
        raise ExtractError("shutdown.rs: broadcast::channel(<literal>) not found")
    mslack = re.search(r"tokio::time::timeout\(duration \+ Duration::from_secs\((\d+)\), future\)", inet)
    if not mslack:
        raise ExtractError("internet.rs: outer timeout(duration + Duration::from_secs(<literal>)) not found")
    receiver_first = inet.find("shutdown.clone().receiver()") != -1 and inet.find("shutdown.clone().receiver()") < inet.find("handles.spawn(machine.start")
    cell = ("let _ = self.first.set(ExitStatus::Exited);" in shut and "let _ = self.first.set(status.clone());" in shut
            and inet.count("first_status.get().cloned().unwrap_or(result)") >= 2
            and inet.find("let first_status = shutdown.first_status();") != -1
            and inet.find("let first_status = shutdown.first_status();") < inet.find("handles.spawn(machine.start"))
    lines = ["-- GENERATED from /repo sources by tools/extract.py on every check; do not edit",
             "namespace Elvis.Gen",
             "structure StartCert where", "  name : String", "  waits : Nat", "  sendBeforeWait : Bool", "deriving Repr, DecidableEq", "",
             "/-- one row per `impl Protocol for T`: barrier waits in `start`, frame-producing call before the wait -/",
             "def startRoutines : List StartCert := ["]
    lines.append(",\n".join(f'  ⟨"{n}", {w}, {"true" if sb else "false"}⟩' for n, w, sb in rows))
    lines += ["]", "",
              f"def barrierSizedByProtocolCount : Bool := {'true' if sized else 'false'}",
              f"def machineSpawnsStartPerProtocol : Bool := {'true' if per_proto else 'false'}",
              f"def shutdownReceiverCreatedBeforeStart : Bool := {'true' if receiver_first else 'false'}",
              "/-- run_internet returns the set-once first-request status when one exists -/",
              f"def firstStatusCellUsed : Bool := {'true' if cell else 'false'}",
              f"def shutdownChannelCapacity : Nat := {mcap.group(1)}",
              f"def outerTimeoutSlackMs : Nat := {int(mslack.group(1)) * 1000}",
              "end Elvis.Gen", ""]
    write_if_changed("SimCert.lean", "\n".join(lines))


def gen_dns_cert():
    """C20: how the DNS responder reads its request (whole datagram vs. a byte budget), the
    records `DnsServer::start` inserts itself, the well-known server endpoint, the delimiter,
    and that the client resolves on a fresh connected datagram socket and caches the answer."""
    srv = strip_comments(read(os.path.join(CORE, "protocols", "dns", "dns_server.rs"))).split("#[cfg(test)]")[0]
    cli = strip_comments(read(os.path.join(CORE, "protocols", "dns", "dns_client.rs"))).split("#[cfg(test)]")[0]
    par = strip_comments(read(os.path.join(CORE, "protocols", "dns", "dns_parsing.rs"))).split("#[cfg(test)]")[0]
    adr = strip_comments(read(os.path.join(CORE, "protocols", "ipv4", "ipv4_address.rs")))
    m = re.search(r"async\s+fn\s+respond_to_query\s*\(", srv)
    if not m:
        raise ExtractError("dns_server.rs: respond_to_query not found")
    body = re.sub(r"\s+", "", fn_body(srv, srv.index("DnsServerError", m.end())))
    reads = re.findall(r"socket\.(recv_msg\(\)|recv\((\d+)\))\.await", body)
    if len(reads) != 1:
        raise ExtractError("dns_server.rs: respond_to_query should read its socket exactly once, found %d reads" % len(reads))
    whole = reads[0][0] == "recv_msg()"
    budget = 0 if whole else int(reads[0][1])
    sm = re.search(r"impl\s+Protocol\s+for\s+DnsServer\s*\{", srv)
    if not sm:
        raise ExtractError("dns_server.rs: impl Protocol for DnsServer not found")
    start = fn_body(srv, sm.end() - 1)
    calls = re.findall(r'self\.(add_mapping|add_default_mapping)\(\s*"([^"\\]*)"\.to_string\(\)\s*,\s*\[(\d+),\s*(\d+),\s*(\d+),\s*(\d+)\]\.into\(\)\s*\)', start)
    if len(calls) != len(re.findall(r"add_(?:default_)?mapping\(", start)):
        raise ExtractError("dns_server.rs: a mapping inserted by DnsServer::start is not of the literal form")
    kinds = {c[0] for c in calls}
    if len(kinds) > 1:
        raise ExtractError("dns_server.rs: DnsServer::start mixes add_mapping and add_default_mapping")
    overrides = kinds == {"add_mapping"}
    if "add_default_mapping" in kinds:
        dm = re.search(r"fn\s+add_default_mapping\s*\(\s*&self\s*,\s*name\s*:\s*String\s*,\s*ip\s*:\s*Ipv4Address\s*\)", srv)
        if not dm or re.sub(r"\s+", "", fn_body(srv, dm.end())) != "{self.name_to_ip.entry(name).or_insert(ip);}":
            raise ExtractError("dns_server.rs: add_default_mapping is not `self.name_to_ip.entry(name).or_insert(ip);`")
    am_ = re.search(r"pub\s+fn\s+add_mapping\s*\(\s*&self\s*,\s*name\s*:\s*String\s*,\s*ip\s*:\s*Ipv4Address\s*\)", srv)
    if not am_ or re.sub(r"\s+", "", fn_body(srv, am_.end())) != "{self.name_to_ip.insert(name,ip);}":
        raise ExtractError("dns_server.rs: add_mapping is not `self.name_to_ip.insert(name, ip);`")
    builtin = [c[1:] for c in calls]
    pm = re.search(r"let local_port = (\d+);", start)
    cm = re.search(r"Endpoint::new\(Ipv4Address::DNS_AUTH,\s*(\d+)\)", cli)
    am = re.search(r"pub const DNS_AUTH: Self = Self\(\[(\d+)u8, (\d+), (\d+), (\d+)\]\);", adr)
    if not (pm and cm and am):
        raise ExtractError("dns: server port / client remote endpoint / DNS_AUTH literal not found")
    delims = set(re.findall(r"b'(.)'", par))
    if delims != {" "}:
        raise ExtractError("dns_parsing.rs: the name delimiter is no longer the single literal b' ': %r" % sorted(delims))
    flat = re.sub(r"\s+", " ", cli)
    gm = re.search(r"pub async fn get_host_by_name\(", flat)
    if not gm:
        raise ExtractError("dns_client.rs: get_host_by_name not found")
    g = fn_body(flat, gm.end())
    # order of the calls that matter (names of locals are not part of the certificate)
    order = ["self.get_mapping(&name)", "Ok(ip) => Ok(ip)", ".new_socket(", ".connect(", ".send(", ".recv_msg()", "DnsMessage::from_bytes(",
             "self.add_mapping(", "self.get_mapping(&name)"]
    pos = []
    at = 0
    for t in order:
        at = g.find(t, at)
        pos.append(at)
        if at < 0:
            break
        at += len(t)
    shape = all(p >= 0 for p in pos) and g.count(".send(") == 1 and g.count("new_socket(") == 1 and g.count("add_mapping(") == 1 \
        and "SocketType::Datagram" in g
    lines = ["-- GENERATED from /repo sources by tools/extract.py on every check; do not edit",
             "namespace Elvis.Gen",
             "/-- `respond_to_query` reads its request with `recv_msg()` (the whole datagram) -/",
             f"def dnsServerReadsWholeDatagram : Bool := {'true' if whole else 'false'}",
             "/-- byte budget of `recv(n)` when it does not (0 = reads the whole datagram) -/",
             f"def dnsServerRecvBudget : Nat := {budget}",
             "/-- records `DnsServer::start` inserts itself, in order: name (UTF-8 bytes), address bytes: "
             + ", ".join(n for n, *_ in builtin) + " -/",
             "def dnsBuiltinRecords : List (List Nat × (Nat × Nat × Nat × Nat)) := ["
             + ", ".join(f'({list(n.encode("utf-8"))}, ({a}, {b}, {c}, {d}))' for n, a, b, c, d in builtin) + "]",
             "/-- they are inserted with `add_mapping` (replacing a configured record of the same name) -/",
             f"def dnsBuiltinOverrides : Bool := {'true' if overrides else 'false'}",
             f"def dnsServerPort : Nat := {pm.group(1)}",
             f"def dnsClientRemotePort : Nat := {cm.group(1)}",
             f"def dnsAuthAddr : Nat × Nat × Nat × Nat := ({am.group(1)}, {am.group(2)}, {am.group(3)}, {am.group(4)})",
             "/-- `get_host_by_name`: cache lookup first and `Ok(ip)` on a hit without any other call; on a",
             "    miss exactly one new datagram socket, connect, one send, `recv_msg`, parse, cache insert of",
             "    the answer's name, lookup of the requested name — in this order (token-level scan) -/",
             f"def dnsClientShape : Bool := {'true' if shape else 'false'}",
             "end Elvis.Gen", ""]
    write_if_changed("DnsCert.lean", "\n".join(lines))


def main():
    check_message_immutability()
    gen_sim_cert()
    gen_dns_cert()
    consts = ["-- GENERATED from /repo sources by tools/extract.py on every check; do not edit", "namespace Elvis.Gen", "end Elvis.Gen", ""]
    write_if_changed("Consts.lean", "\n".join(consts))


if __name__ == "__main__":
    try:
        main()
    except ExtractError as e:
        print("EXTRACT-ERROR:", e)
        sys.exit(1)
