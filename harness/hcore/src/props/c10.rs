//! C10: IPv4 fragmentation.  Sub-commands `c10` (random datagrams through chains of MTUs) and
//! `c10-sweep` (every MTU of a range x payload lengths around the multiples of the block size).
//!
//! Op lines (the same lines drive the Lean model):
//!   dgram <ihl> <tos> <tl> <ident> <fo> <flags> <ttl> <proto> <cksum> <src> <dst> <body>
//!   frag <mtu>
//! `<body>` = `h:<hex>` or `g:<seed>:<len>`.  `frag` runs the real `fragmentation::fragment` on
//! every current piece (one hop) and prints the whole `Fragments` value per piece.
//!
//! The oracle is the property, written against the ORIGINAL datagram and independent of the
//! fragmenter: after every hop the travelling pieces must fit, concatenate to the original
//! payload, sit at 8-byte aligned offsets recorded in their headers, carry MF on all but the
//! piece that ends the original datagram and keep every other field; fitting datagrams pass
//! through, DF datagrams that do not fit are discarded; no panic.
use elvis_core::protocols::ipv4::fragmentation::{fragment, Fragments};
use elvis_core::protocols::ipv4::ipv4_parsing::Ipv4Header;
use elvis_core::Message;
use hcommon::*;

#[derive(Clone, Copy, PartialEq, Eq, Debug)]
pub struct H {
    ihl: u8,
    tos: u8,
    tl: u16,
    ident: u16,
    fo: u16,
    flags: u8,
    ttl: u8,
    proto: u8,
    ck: u16,
    src: u32,
    dst: u32,
}

impl H {
    fn to_real(self) -> Ipv4Header {
        Ipv4Header {
            ihl: self.ihl,
            type_of_service: self.tos.into(),
            total_length: self.tl,
            identification: self.ident,
            fragment_offset: self.fo,
            flags: self.flags.into(),
            time_to_live: self.ttl,
            protocol: self.proto,
            checksum: self.ck,
            source: self.src.into(),
            destination: self.dst.into(),
        }
    }
    fn from_real(h: &Ipv4Header) -> H {
        H {
            ihl: h.ihl,
            tos: h.type_of_service.as_u8(),
            tl: h.total_length,
            ident: h.identification,
            fo: h.fragment_offset,
            flags: h.flags.as_u8(),
            ttl: h.time_to_live,
            proto: h.protocol,
            ck: h.checksum,
            src: h.source.to_u32(),
            dst: h.destination.to_u32(),
        }
    }
    fn show(&self) -> String {
        format!(
            "{},{},{},{},{},{},{},{},{},{},{}",
            self.ihl, self.tos, self.tl, self.ident, self.fo, self.flags, self.ttl, self.proto, self.ck, self.src, self.dst
        )
    }
    fn df(&self) -> bool {
        self.flags & 2 != 0
    }
    fn mf(&self) -> bool {
        self.flags & 1 != 0
    }
}

pub fn gen_body(seed: u64, len: usize) -> Vec<u8> {
    (0..len as u64).map(|i| (((seed + i).wrapping_mul(2654435761) / 65536) % 256) as u8).collect()
}

pub fn parse_body(s: &str) -> Option<Vec<u8>> {
    let p: Vec<&str> = s.split(':').collect();
    match p.as_slice() {
        ["h", hx] => Some(unhex(hx)),
        ["g", seed, len] => Some(gen_body(seed.parse().ok()?, len.parse().ok()?)),
        _ => None,
    }
}

pub fn fnv(b: &[u8]) -> u64 {
    let mut h: u64 = 0xcbf29ce484222325;
    for x in b {
        h = (h ^ *x as u64).wrapping_mul(0x100000001b3);
    }
    h
}

pub fn digest(b: &[u8]) -> String {
    if b.len() <= 32 {
        format!("{}:{}", b.len(), hex(b))
    } else {
        format!("{}:#{}", b.len(), fnv(b))
    }
}

/// long result lines are cut to head + length + FNV-64 of the whole + tail (same rule in the driver)
pub fn compress(s: &str) -> String {
    if s.len() <= 1200 {
        s.to_string()
    } else {
        format!("{} ...[{}:#{}]... {}", &s[..500], s.len(), fnv(s.as_bytes()), &s[s.len() - 300..])
    }
}

fn show_frag(h: &Ipv4Header, m: &Message) -> String {
    format!("{{{}|{}}}", H::from_real(h).show(), digest(&m.to_vec()))
}

/// Panic class = kind (from the panic message) + site (from tokens of the source line, so that
/// renaming a temporary or splitting an expression does not change the identity).
fn classify(p: &PanicInfo) -> String {
    let text = source_line_text(&p.file, p.line);
    let t = text.as_str();
    if p.file.ends_with("message.rs") && t.starts_with("assert!(len <= self.len)") {
        return "panic:assert:cut".into();
    }
    if !p.file.ends_with("fragmentation.rs") {
        return format!("panic:other:{}:{}", p.file.rsplit('/').next().unwrap_or(""), t.replace(' ', "_"));
    }
    let sub = p.msg.contains("subtract with overflow");
    let add = p.msg.contains("add with overflow");
    if sub && t.contains("mtu") {
        "panic:sub-overflow:fragment_blocks".into()
    } else if sub && t.contains("total_length") {
        "panic:sub-overflow:rest_total_length".into()
    } else if add && t.contains("fragment_offset") {
        "panic:add-overflow:fragment_offset".into()
    } else if add && t.contains("total_length") {
        "panic:add-overflow:first_total_length".into()
    } else {
        format!("panic:other:fragmentation.rs:{}", t.replace(' ', "_"))
    }
}

/// the property's precondition on the original datagram (MTU checked per hop)
fn pre(h: &H, body_len: usize) -> bool {
    h.ihl == 5 && h.tl as usize == 20 + body_len && h.fo <= 8191
}

pub struct Exec {
    orig: Option<(H, Vec<u8>)>,
    /// the oracle applies while the original satisfies Pre and every MTU so far was >= 68
    in_pre: bool,
    cur: Vec<(Ipv4Header, Message)>,
    pub fragmented_hops: u32,
}

impl Exec {
    pub fn new() -> Self {
        Exec { orig: None, in_pre: false, cur: vec![], fragmented_hops: 0 }
    }

    pub fn apply(&mut self, line: &str, out: &mut Out) {
        let w: Vec<&str> = line.split_whitespace().collect();
        match w.as_slice() {
            ["dgram", f @ .., body] if f.len() == 11 => {
                let n: Vec<Option<u64>> = f.iter().map(|s| s.parse::<u64>().ok()).collect();
                let (Some(b), true) = (parse_body(body), n.iter().all(|x| x.is_some())) else {
                    return out.line(line, "bad-op");
                };
                let n: Vec<u64> = n.into_iter().map(|x| x.unwrap()).collect();
                let h = H {
                    ihl: n[0] as u8,
                    tos: n[1] as u8,
                    tl: n[2] as u16,
                    ident: n[3] as u16,
                    fo: n[4] as u16,
                    flags: n[5] as u8,
                    ttl: n[6] as u8,
                    proto: n[7] as u8,
                    ck: n[8] as u16,
                    src: n[9] as u32,
                    dst: n[10] as u32,
                };
                self.in_pre = pre(&h, b.len());
                out.count(if self.in_pre { "dgram.pre" } else { "dgram.outside_pre" });
                out.count(&format!("len.{}", len_class(b.len())));
                out.count(if h.df() { "df.set" } else { "df.clear" });
                self.cur = vec![(h.to_real(), Message::new(b.clone()))];
                out.line(line, &format!("ok {}", digest(&b)));
                self.orig = Some((h, b));
            }
            ["frag", m] => {
                let Ok(mtu) = m.parse::<u16>() else { return out.line(line, "bad-op") };
                if mtu < 68 {
                    self.in_pre = false;
                }
                out.count(if (mtu as i32 - 20) % 8 == 0 { "mtu.aligned" } else { "mtu.unaligned" });
                let mut shown = vec![];
                let mut next: Vec<(Ipv4Header, Message)> = vec![];
                let cur = std::mem::take(&mut self.cur);
                for (ph, pm) in cur.iter() {
                    // the Rust recursion does not terminate for 0 <= mtu - ihl*4 < 8 (stack
                    // overflow aborts the process): never call it there
                    let ihl4 = ph.ihl as u16 * 4;
                    if ph.total_length > mtu && ph.flags.may_fragment() && mtu >= ihl4 && (mtu - ihl4) < 8 {
                        shown.push("P:diverges:Fragmentation::fragment".to_string());
                        out.count("result.diverges_skipped");
                        continue;
                    }
                    let r = catch(|| fragment(*ph, pm.clone(), mtu));
                    match &r {
                        Err(p) => {
                            let c = classify(p);
                            out.count(&format!("result.{}", c));
                            if self.in_pre {
                                out.fail(
                                    &format!("fragment panicked under the precondition: {} ({}) on piece {} mtu {}", c, p.msg, H::from_real(ph).show(), mtu),
                                    &format!("panic fragment {}", source_line_text(&p.file, p.line)),
                                );
                            }
                            shown.push(format!("P:{}", c));
                        }
                        Ok(Fragments::DontFragment((h, m))) => {
                            out.count("result.dont_fragment");
                            shown.push(format!("D{}", show_frag(h, m)));
                            next.push((*h, m.clone()));
                        }
                        Ok(Fragments::Discard) => {
                            out.count("result.discard");
                            shown.push("X".into());
                        }
                        Ok(Fragments::Fragmented(l)) => {
                            out.count("result.fragmented");
                            out.count(&format!("pieces.{}", count_class(l.len())));
                            shown.push(format!("F[{}]", l.iter().map(|(h, m)| show_frag(h, m)).collect::<Vec<_>>().join(",")));
                            next.extend(l.iter().cloned());
                            if l.len() >= 2 {
                                self.fragmented_hops += 1;
                            }
                        }
                    }
                    if self.in_pre {
                        if let Ok(v) = &r {
                            self.oracle_piece(ph, pm, mtu, v, out);
                        }
                    }
                }
                self.cur = next;
                out.line(line, &compress(&format!("{} n={}", shown.join(" "), self.cur.len())));
                if self.in_pre {
                    self.oracle_hop(mtu, cur.is_empty(), out);
                }
            }
            _ => out.line(line, "bad-op"),
        }
    }

    /// passthrough / discard / fragmented decision for one piece
    fn oracle_piece(&self, ph: &Ipv4Header, pm: &Message, mtu: u16, r: &Fragments, out: &mut Out) {
        let p = H::from_real(ph);
        let want = if p.tl <= mtu {
            "passthrough"
        } else if p.df() {
            "discard"
        } else {
            "fragmented"
        };
        let ok = match (want, r) {
            ("passthrough", Fragments::DontFragment((h, m))) => H::from_real(h) == p && m.to_vec() == pm.to_vec(),
            ("discard", Fragments::Discard) => true,
            ("fragmented", Fragments::Fragmented(l)) => l.len() >= 2,
            _ => false,
        };
        if !ok {
            out.fail(
                &format!("piece {} (payload {} octets) at mtu {} should be {} but fragment returned {}", p.show(), pm.len(), mtu, want, kind(r)),
                &format!("decision {}", want),
            );
        }
    }

    /// the travelling pieces relative to the ORIGINAL datagram
    fn oracle_hop(&self, mtu: u16, was_empty: bool, out: &mut Out) {
        let Some((oh, ob)) = &self.orig else { return };
        if was_empty {
            return;
        }
        if oh.df() {
            // a DF datagram either is still whole or was dropped at the first hop it did not fit
            let whole = self.cur.len() == 1 && H::from_real(&self.cur[0].0) == *oh && self.cur[0].1.to_vec() == *ob;
            if !(self.cur.is_empty() || whole) {
                out.fail("a datagram with DF set was altered", "df altered");
            } else if self.cur.is_empty() && oh.tl <= mtu {
                out.fail("a fitting DF datagram was discarded", "df discarded although it fits");
            } else if whole && oh.tl > mtu {
                out.fail("a DF datagram larger than the MTU was forwarded", "df forwarded although too large");
            }
            return;
        }
        if self.cur.is_empty() {
            return out.fail("all pieces of a fragmentable datagram vanished", "pieces vanished");
        }
        let mut pos: usize = 0; // octets of the original payload covered so far
        let n = self.cur.len();
        for (i, (h, m)) in self.cur.iter().enumerate() {
            let g = H::from_real(h);
            let b = m.to_vec();
            let last = i + 1 == n;
            if g.tl > mtu {
                return out.fail(&format!("piece {} has total_length {} > mtu {}", i, g.tl, mtu), "fits");
            }
            if g.tl as usize != 20 + b.len() || m.len() != b.len() {
                return out.fail(&format!("piece {} total_length {} but payload {} octets", i, g.tl, b.len()), "length field");
            }
            if pos % 8 != 0 || g.fo as usize != oh.fo as usize + pos / 8 {
                return out.fail(&format!("piece {} offset field {} but it starts at octet {} of the original (original offset {})", i, g.fo, pos, oh.fo), "offset");
            }
            if pos + b.len() > ob.len() || ob[pos..pos + b.len()] != b[..] {
                return out.fail(&format!("piece {} payload is not octets {}..{} of the original payload", i, pos, pos + b.len()), "content");
            }
            if !last && (b.is_empty() || b.len() % 8 != 0) {
                return out.fail(&format!("non-final piece {} has {} octets (not a positive multiple of 8)", i, b.len()), "block multiple");
            }
            if !last && !g.mf() {
                return out.fail(&format!("piece {} of {} lacks MF", i, n), "mf missing");
            }
            if last && g.mf() != oh.mf() {
                return out.fail(&format!("final piece MF={} but the original datagram had MF={}", g.mf(), oh.mf()), "mf on final piece");
            }
            if g.df() != oh.df() || g.ident != oh.ident || g.tos != oh.tos || g.ttl != oh.ttl || g.proto != oh.proto
                || g.src != oh.src || g.dst != oh.dst || g.ck != oh.ck || g.ihl != oh.ihl
            {
                return out.fail(&format!("piece {} changed a preserved field: {} vs original {}", i, g.show(), oh.show()), "field changed");
            }
            pos += b.len();
        }
        if pos != ob.len() {
            out.fail(&format!("pieces cover {} of {} payload octets", pos, ob.len()), "coverage");
        }
    }
}

fn kind(r: &Fragments) -> &'static str {
    match r {
        Fragments::Fragmented(_) => "Fragmented",
        Fragments::DontFragment(_) => "DontFragment",
        Fragments::Discard => "Discard",
    }
}

fn len_class(n: usize) -> &'static str {
    match n {
        0 => "0",
        1..=9 => "1-9",
        10..=99 => "10-99",
        100..=1499 => "100-1499",
        1500..=9999 => "1500-9999",
        10000..=65514 => "10000-65514",
        65515 => "65515",
        _ => ">65515",
    }
}

fn count_class(n: usize) -> &'static str {
    match n {
        0..=1 => "0-1",
        2 => "2",
        3..=9 => "3-9",
        10..=99 => "10-99",
        _ => ">=100",
    }
}

fn body_spec(rng: &mut Rng, len: usize) -> String {
    if len <= 48 {
        format!("h:{}", hex(&rng.bytes(len)))
    } else {
        format!("g:{}:{}", rng.below(1 << 32), len)
    }
}

fn gen_mtu(rng: &mut Rng) -> u64 {
    match rng.below(10) {
        0 => 68,
        1 => *rng.pick(&[69u64, 70, 75, 76, 77, 576, 1500, 65535, 1280, 1499, 1501]),
        2..=4 => rng.range(68, 300),
        5..=7 => rng.range(68, 2000),
        _ => rng.range(68, 65535),
    }
}

/// one case: a datagram and a chain of 1..4 (mostly decreasing) MTUs
fn gen_case(rng: &mut Rng) -> Vec<String> {
    let hops = rng.range(1, 4) as usize;
    let mut mtus: Vec<u64> = (0..hops).map(|_| gen_mtu(rng)).collect();
    if rng.chance(9, 10) {
        mtus.sort_by(|a, b| b.cmp(a));
        mtus.dedup();
    }
    let m0 = mtus[0] as usize;
    let outside = rng.chance(1, 12);
    // payload length
    let len: usize = match rng.below(20) {
        0 => *rng.pick(&[0usize, 1, 7, 8, 9]),
        1..=3 => (m0 + rng.range(0, 2) as usize).saturating_sub(21).min(65515), // mtu-21 .. mtu-19
        4 => 65515,
        5 => 65515 - rng.below(20) as usize,
        6..=8 => {
            // around a multiple of the block payload of some MTU of the chain
            let m = *rng.pick(&mtus) as usize;
            let blk = (m - 20) / 8 * 8;
            (blk * rng.range(1, 6) as usize + rng.range(0, 2) as usize).saturating_sub(1).min(65515)
        }
        9..=14 => rng.range(0, 3000) as usize,
        15..=17 => rng.range(0, 20000) as usize,
        _ => rng.range(0, 65515) as usize,
    };
    let len = if outside { len.min(4000) } else { len };
    let mut ihl = 5u64;
    let mut tl = 20 + len as u64;
    let mut fo = match rng.below(6) {
        0..=2 => 0,
        3 => 8191,
        _ => rng.range(0, 8191),
    };
    let mut blen = len;
    if outside {
        match rng.below(5) {
            4 => {
                // MTUs below the IPv4 minimum (>= 28 so that the recursion still terminates)
                mtus = mtus.iter().map(|m| 28 + m % 40).collect();
            }
            0 => {
                // other header lengths; keep away from the non-terminating region
                ihl = *rng.pick(&[0u64, 4, 6, 15, 60, 255]);
                mtus = mtus.into_iter().map(|m| if m >= ihl * 4 && m - ihl * 4 < 8 { m + 8 } else { m }).collect();
            }
            1 => blen = if rng.chance(1, 2) { len / 2 } else { len + 9 }, // body shorter / longer than the header says
            2 => fo = 65535 - rng.below(600),                         // not a 13-bit offset: u16 overflow of FO + NFB
            _ => {
                tl = rng.range(0, 65535);
            }
        }
    }
    if ihl == 5 && !outside {
        tl = 20 + blen as u64;
    }
    let flags = if rng.chance(1, 10) { rng.below(256) } else { rng.below(4) };
    let flags = if rng.chance(1, 5) { flags | 2 } else { flags & !2 }; // DF on in ~20 %
    let dgram = format!(
        "dgram {} {} {} {} {} {} {} {} {} {} {} {}",
        ihl,
        rng.below(256),
        tl,
        rng.below(65536),
        fo,
        flags,
        rng.below(256),
        rng.below(256),
        rng.below(65536),
        rng.below(1 << 32),
        rng.below(1 << 32),
        body_spec(rng, blen.min(65600))
    );
    let mut ops = vec![dgram];
    for m in mtus {
        ops.push(format!("frag {}", m));
    }
    ops
}

fn run_case(ops: &[String], out: &mut Out) {
    let mut ex = Exec::new();
    for op in ops {
        ex.apply(op, out);
    }
    if ex.in_pre && ex.fragmented_hops >= 1 {
        out.mark_nontrivial();
    }
    out.count(&format!("pieces_split_in_case.{}", ex.fragmented_hops.min(4)));
}

pub fn run(args: &Args) {
    // deep recursion of the fragmenter for small MTUs: give the worker a large stack
    let a = Args { prop: args.prop.clone(), seed: args.seed, cases: args.cases, out: args.out.clone(), replay: args.replay.clone(), extra: args.extra.clone() };
    std::thread::Builder::new().stack_size(256 << 20).spawn(move || run_inner(&a)).unwrap().join().unwrap();
}

fn run_inner(args: &Args) {
    install_panic_hook();
    let mut out = Out::new(&args.out);
    let rule = "one datagram (payload 0..65515 biased to 0,1,7,8,9, mtu-21..mtu-19, multiples of the block payload +-1, 65515; random fields; DF on ~20%; ~8% outside the precondition: ihl != 5, body/total_length mismatch, 16-bit offsets) through a chain of 1..4 mostly decreasing MTUs 68..65535; every Fragments value compared; a case is non-trivial if the datagram satisfies the precondition and at least one hop split a piece; distinct = hash of its op lines";
    if let Some(rp) = &args.replay {
        out.begin_case(0);
        let ops: Vec<String> = read_ops(rp).into_iter().filter(|l| !l.starts_with("case ")).collect();
        run_case(&ops, &mut out);
        out.mark_nontrivial();
        out.end_case();
        out.finish(rule);
        return;
    }
    let mut rng = Rng::new(args.seed);
    if args.prop == "c10-sweep" {
        // every MTU lo..=hi x payload lengths around k * block payload, then a second hop at 68
        let lo: u64 = args.extra.get("mtu_lo").and_then(|s| s.parse().ok()).unwrap_or(68);
        let hi: u64 = args.extra.get("mtu_hi").and_then(|s| s.parse().ok()).unwrap_or(130);
        let mut c = 0;
        for mtu in lo..=hi {
            let blk = (mtu - 20) / 8 * 8;
            let mut lens: Vec<u64> = vec![mtu - 21, mtu - 20, mtu - 19];
            for k in 1..=3 {
                lens.extend_from_slice(&[k * blk - 1, k * blk, k * blk + 1, k * blk + 7, k * blk + 8]);
            }
            for len in lens {
                let mut r = rng.fork();
                out.begin_case(c);
                let flags = r.below(2);
                let ops = vec![
                    format!(
                        "dgram 5 {} {} {} {} {} {} {} {} {} {} {}",
                        r.below(256), 20 + len, r.below(65536), r.below(8192), flags, r.below(256), r.below(256), r.below(65536),
                        r.below(1 << 32), r.below(1 << 32), body_spec(&mut r, len as usize)
                    ),
                    format!("frag {}", mtu),
                    format!("frag {}", 68 + r.below(mtu - 67)),
                ];
                run_case(&ops, &mut out);
                out.end_case();
                c += 1;
            }
        }
        out.finish("sweep: every MTU of the range x payload lengths mtu-21..mtu-19 and k*block-1..k*block+8 (k=1..3), then a second hop at a smaller MTU");
        return;
    }
    for c in 0..args.cases {
        let mut r = rng.fork();
        out.begin_case(c);
        let ops = gen_case(&mut r);
        run_case(&ops, &mut out);
        out.end_case();
    }
    out.finish(rule);
}
