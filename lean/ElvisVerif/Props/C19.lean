import ElvisVerif.Lemmas.NdlReject
/-!
# C19 — A network description means what it says (parsing and rejection clauses)

Property theorems only; the model is `Model/Ndl.lean` (`parse` = `core_parser` from the file's
text on), helper lemmas are in `Lemmas/Ndl{Total,Lex,Tree,Norm}.lean`.

* `c19_line_roundtrip` — the line lexer returns exactly what `renderLine` wrote, for every type,
  for keys without `=`/`]` that do not begin with a separator and values without `]`, bare `'`
  or stray `\` (`KeyOk`, `valOk`), pairwise distinct keys, any number of trailing newlines.
* `c19_tree_roundtrip` — the indentation-driven builder reads a rendered well-formed tree
  (`SimOk`: ids unique, every network has an `[IP]`, every machine its three non-empty sections)
  back to the same `Sim` (lists in the same order, so in particular equal as maps).
* `c19_parse_render_partial` — the composition, in all three layouts (tabs, 4 spaces, CRLF), for
  descriptions whose keys/values contain no `\r` and no run of four spaces (`CalmSim`).
  The excluded texts are a genuine limit of the code, not of the proof:
  `c19_value_spaces_counterexample` (finding F-C19-1: the normalisation rewrites argument values).
* `c19_rejects_*` — structural errors are answered with `Err`: duplicate argument, unknown
  type tag, a type where it does not belong, wrong nesting depth, missing required section,
  duplicate network id in the same or in another `[Networks]` block.

The run clause of C19 is validated differentially only (`Model/NdlRun.lean`, `hfull c19-run`).
-/
namespace Elvis.Ndl
open Elvis.Gen.Ndl

/-! ## round trips -/

/-- T1: `lex (renderLine l) = ok l` -/
theorem c19_line_roundtrip (dt : DecType) (ps : Params) (hps : LineOk ps) (n : Nat) (rest : Text)
    (hrest : ∀ r, rest ≠ '\n' :: r) (line : Nat) (hb : line + n ≤ i32Max) :
    generalParser (renderLine dt ps ++ (List.replicate n '\n' ++ rest)) line =
      .ok ⟨dt, ps, rest, line + n⟩ :=
  generalParser_render dt ps hps n rest hrest line hb

/-- the classes are not empty: spaces, quotes, `=`, `[`, escapes, non-ASCII, the empty key/value -/
example : LineOk [(['i','d'], ['1']), (['a',' ','\'','b'], ['x','=','[','\\','\'',' ','é']), ([], [])] := by
  refine ⟨?_, by decide⟩
  intro kv hkv
  simp only [List.mem_cons, List.not_mem_nil, or_false] at hkv
  rcases hkv with rfl | rfl | rfl <;> refine ⟨⟨by decide, ?_⟩, by decide⟩ <;> intro c r h <;>
    simp at h <;> (try (obtain ⟨rfl, _⟩ := h; decide))

/-- T1: `build (lines t) = ok t` for well-formed trees -/
theorem c19_tree_roundtrip (s : Sim) (hs : SimOk s) : build (render .tabs s) = .ok s :=
  build_render s hs

/-- T2 (partial): every layout of a well-formed, calm description parses to that description -/
theorem c19_parse_render_partial (s : Sim) (hs : SimOk s) (hc : CalmSim s) (lay : Layout) :
    parse (render lay s) = .ok s := by
  unfold parse
  rw [normalise_render lay s hc]
  exact build_render s hs

/-- all three layouts mean the same thing -/
theorem c19_layouts_agree (s : Sim) (hs : SimOk s) (hc : CalmSim s) (l1 l2 : Layout) :
    parse (render l1 s) = parse (render l2 s) := by
  rw [c19_parse_render_partial s hs hc l1, c19_parse_render_partial s hs hc l2]

/-- `HashMap`-typed fields compared as maps: the result has the same entries whatever order the
    renderer lists the arguments and networks in (it is the list itself) -/
theorem c19_parse_render_maps (s : Sim) (hs : SimOk s) (hc : CalmSim s) (lay : Layout) :
    ∃ s', parse (render lay s) = .ok s' ∧ (∀ id, (s'.networks.find? (·.1 == id)) = s.networks.find? (·.1 == id)) ∧
      s'.machines = s.machines :=
  ⟨s, c19_parse_render_partial s hs hc lay, fun _ => rfl, rfl⟩

/-- a concrete well-formed calm description (non-vacuity of `SimOk`/`CalmSim`) -/
def demoSim : Sim :=
  ⟨[(['5'], ⟨.network, [(['i','d'], ['5'])], [⟨.ip, [(['r','a','n','g','e'], ['1','.','2','.','3','.','4','-','9'])]⟩]⟩)],
   [⟨.machine, [(['n','a','m','e'], ['m',' ','1'])],
     [⟨.network, [(['i','d'], ['5'])]⟩], [⟨.protocol, [(['n','a','m','e'], ['U','D','P'])]⟩],
     [⟨.application, [(['n','a','m','e'], ['c','a','p','t','u','r','e']), (['m','s','g'], ['i','t','\\','\'','s',' ','=',' ','é'])]⟩]⟩]⟩

example : parse (render .tabs demoSim) = .ok demoSim ∧ parse (render .spaces demoSim) = .ok demoSim ∧
    parse (render .crlf demoSim) = .ok demoSim := by decide +kernel

/-- F-C19-1 (known finding): a value with a run of four spaces (or a CR) is *not* read back:
    the whole-file normalisation rewrites it.  Replayed on the real parser by `hfull c19-parse`. -/
theorem c19_value_spaces_counterexample :
    let s : Sim := ⟨[(['1'], ⟨.network, [(['i','d'], ['1']), (['n'], ['a',' ',' ',' ',' ','b'])], [⟨.ip, []⟩]⟩)], []⟩
    parse (render .tabs s) =
      .ok ⟨[(['1'], ⟨.network, [(['i','d'], ['1']), (['n'], ['a','\t','b'])], [⟨.ip, []⟩]⟩)], []⟩ ∧
    parse (render .tabs s) ≠ .ok s := by decide

/-! ## rejection -/

/-- duplicate argument ⇒ `Err` ("duplicate argument"), whatever follows the line -/
theorem c19_rejects_dup_argument (dt : DecType) (ps : Params)
    (hps : ∀ kv ∈ ps, KeyOk kv.1 ∧ valOk kv.2 = true) (hdup : ¬ (ps.map (·.1)).Nodup)
    (after : Text) (line : Nat) :
    generalParser (renderLine dt ps ++ after) line = .error (.err .dupArg line) := by
  unfold generalParser
  rw [sectionP_render dt ps _ hps]
  simp only [getType_render]
  have ha : arguments (renderArgs ps) = ([], ps) := arguments_render ps _ hps (Nat.le_refl _)
  simp [ha, insertAll_dup ps [] hdup]

example : generalParser (renderLine .ip [(['i','p'], ['1']), (['i','p'], ['2'])]) 7 = .error (.err .dupArg 7) := by
  decide

/-- unknown section type ⇒ `Err`: a bracket whose content starts with none of the type tags -/
theorem c19_rejects_unknown_type (inside after : Text) (line : Nat) (hb : ∀ c ∈ inside, c ≠ ']')
    (hun : ∀ t ∈ tagAlt, keyword t inside = none) :
    generalParser ('[' :: (inside ++ ']' :: after)) line = .error (.err .dectype line) := by
  unfold generalParser
  have : sectionP ('[' :: (inside ++ ']' :: after)) = some (inside, after) := by
    simp [sectionP, takeUntil_append ']' inside after hb]
  rw [this]
  simp only [getType, tagMatcher_keyword, getTypeWith_none decTypeTable tagAlt inside line hun]

example : generalParser ['[','R','o','u','t','e','r',' ','i','d','=','\'','1','\'',']','\n'] 3 = .error (.err .dectype 3) := by
  decide

/-- a known type where it does not belong ⇒ `Err`, in every loop of the builder -/
theorem c19_rejects_misplaced_type (dt : DecType) (ps : Params) (hps : LineOk ps) (tail : Text)
    (htail : ∀ r, tail ≠ '\n' :: r) (line fuel : Nat) (hb : line + 1 ≤ i32Max) :
    -- at the top level only Template / Networks / Machines may be declared
    (dt ≠ .template → dt ≠ .networks → dt ≠ .machines → ∀ nets ms,
      coreLoop (fuel + 1) (tabLine 0 dt ps tail) line nets ms = .error (.err .cannotDeclare 0)) ∧
    -- inside [Networks] only Network, inside [Machines] only Machine
    (dt ≠ .network → ∀ seen, networksLoop 1 (fuel + 1) (tabLine 1 dt ps tail) line seen = .error (.err .wrongType 0)) ∧
    (dt ≠ .machine → machinesLoop 1 (fuel + 1) (tabLine 1 dt ps tail) line = .error (.err .wrongType 0)) ∧
    -- inside a leaf list (IPs of a network, a machine's Networks / Protocols / Applications)
    (∀ exp d, dt ≠ exp → leafLoop exp d (fuel + 1) (tabLine d dt ps tail) line = .error (.err .wrongType 0)) ∧
    -- inside a machine only its three sections, each once (`req` = what is still allowed)
    (∀ a, a.req.contains dt = false →
      machineLoop 2 (fuel + 1) (tabLine 2 dt ps tail) line a = .error (.err .unexpected 0)) := by
  have hlex := lex_tabLine dt ps hps tail htail line hb
  refine ⟨?_, ?_, ?_, ?_, ?_⟩
  · intro h1 h2 h3 nets ms
    rw [coreLoop]
    have : generalParser (tabLine 0 dt ps tail) line = .ok ⟨dt, ps, tail, line + 1⟩ := by
      simpa [tabLine] using hlex
    simp only [tabLine_ne_nil, if_false, this]
  · intro h seen
    rw [networksLoop]
    simp only [tabLine_ne_nil, if_false, countTabs_tabLine, Nat.lt_irrefl, gt_iff_lt, byteDrop_tabLine, hlex, h]
  · intro h
    rw [machinesLoop]
    simp only [tabLine_ne_nil, if_false, countTabs_tabLine, Nat.lt_irrefl, gt_iff_lt, byteDrop_tabLine, hlex, h]
  · intro exp d h
    rw [leafLoop]
    simp only [tabLine_ne_nil, if_false, byteDrop_tabLine, hlex, ne_eq, h, not_false_eq_true, if_true]
  · intro a h
    rw [machineLoop]
    simp only [tabLine_ne_nil, if_false, countTabs_tabLine, Nat.lt_irrefl, gt_iff_lt, byteDrop_tabLine, hlex, h,
      Bool.false_eq_true]

/-- wrong nesting depth ⇒ `Err`: a line deeper than its block allows, a block whose first child
    is not exactly one level deeper, an indented line at the top level -/
theorem c19_rejects_depth (s : Text) (hs : s ≠ []) (line fuel : Nat) :
    (∀ nt seen, nt < countTabs s → networksLoop nt (fuel + 1) s line seen = .error (.err .tabs 0)) ∧
    (∀ nt, nt < countTabs s → machinesLoop nt (fuel + 1) s line = .error (.err .tabs 0)) ∧
    (∀ nt a, nt < countTabs s → machineLoop nt (fuel + 1) s line a = .error (.err .tabs 0)) ∧
    (∀ exp first nt, countTabs s ≠ nt → leafList exp first nt s line = .error (.err first 0)) ∧
    (∀ nets ms, 0 < countTabs s → coreLoop (fuel + 1) s line nets ms = .error (.err .section line)) := by
  refine ⟨?_, ?_, ?_, ?_, ?_⟩
  · intro nt seen h
    rw [networksLoop]
    have : ¬ countTabs s < nt := by omega
    simp [hs, this, h]
  · intro nt h
    rw [machinesLoop]
    have : ¬ countTabs s < nt := by omega
    simp [hs, this, h]
  · intro nt a h
    rw [machineLoop]
    have : ¬ countTabs s < nt := by omega
    simp [hs, this, h]
  · intro exp first nt h
    simp [leafList, h]
  · intro nets ms h
    rw [coreLoop]
    cases s with
    | nil => exact absurd rfl hs
    | cons c r =>
      have hc : c = '\t' := by
        by_cases hc : c = '\t'
        · exact hc
        · simp [countTabs, hc] at h
      subst hc
      simp [generalParser, sectionP]

/-- … and a leaf line followed by a deeper line -/
theorem c19_rejects_depth_after_leaf (exp : DecType) (d : Nat) (l : Leaf) (hl : LeafOk exp l)
    (tail : Text) (htail : ∀ r, tail ≠ '\n' :: r) (hdeep : d < countTabs tail) (line fuel : Nat)
    (hb : line + 1 ≤ i32Max) :
    leafLoop exp d (fuel + 1) (tabLine d l.dectype l.options tail) line = .error (.err .tabs 0) := by
  rw [leafLoop_step exp d l hl tail htail line fuel hb]
  have : ¬ countTabs tail < d := by omega
  simp [this, hdeep]

/-- a network without an `[IP]` line, a machine section without entries ⇒ `Err` -/
theorem c19_rejects_empty_block (exp : DecType) (first : ErrKind) (d : Nat) (rest : Text)
    (h : countTabs rest < d) (line : Nat) : leafList exp first d rest line = .error (.err first 0) := by
  have : countTabs rest ≠ d := by omega
  simp [leafList, this]

/-- missing required section ⇒ `Err` ("Failed to include all required types"): a machine that
    lists only two of Networks / Protocols / Applications -/
theorem c19_rejects_missing_section (args : Params) (x y : List Leaf) (rest : Text)
    (hx : x ≠ []) (hy : y ≠ []) (haft : After 2 rest) (line : Nat)
    (hb : line + 2 + x.length + y.length ≤ i32Max) :
    (∀ (_ : ∀ l ∈ x, LeafOk .protocol l) (_ : ∀ l ∈ y, LeafOk .application l),
      machineParser args 2 (tabLine 2 .protocols [] (renderLeaves .tabs 3 x ++
        tabLine 2 .applications [] (renderLeaves .tabs 3 y ++ rest))) line = .error (.err .required 0)) ∧
    (∀ (_ : ∀ l ∈ x, LeafOk .network l) (_ : ∀ l ∈ y, LeafOk .application l),
      machineParser args 2 (tabLine 2 .networks [] (renderLeaves .tabs 3 x ++
        tabLine 2 .applications [] (renderLeaves .tabs 3 y ++ rest))) line = .error (.err .required 0)) ∧
    (∀ (_ : ∀ l ∈ x, LeafOk .network l) (_ : ∀ l ∈ y, LeafOk .protocol l),
      machineParser args 2 (tabLine 2 .networks [] (renderLeaves .tabs 3 x ++
        tabLine 2 .protocols [] (renderLeaves .tabs 3 y ++ rest))) line = .error (.err .required 0)) := by
  have aft3 : ∀ (dt : DecType) (t : Text), After 3 (tabLine 2 dt [] t) :=
    fun dt t => ⟨by rw [countTabs_tabLine]; omega, tabLine_not_nl _ _ _ _⟩
  have aftR : After 3 rest := after_mono (by omega) haft
  have fuel2 : ∀ (d1 d2 : DecType), ∃ f, (tabLine 2 d1 [] (renderLeaves .tabs 3 x ++
      tabLine 2 d2 [] (renderLeaves .tabs 3 y ++ rest))).length + 1 = f + 3 := by
    intro d1 d2
    have l1 := tabLine_length 2 d1 [] (renderLeaves .tabs 3 x ++ tabLine 2 d2 [] (renderLeaves .tabs 3 y ++ rest))
    have l2 := renderLeaves_length 3 x (tabLine 2 d2 [] (renderLeaves .tabs 3 y ++ rest))
    have l3 := tabLine_length 2 d2 [] (renderLeaves .tabs 3 y ++ rest)
    generalize (tabLine 2 d1 [] (renderLeaves .tabs 3 x ++ tabLine 2 d2 [] (renderLeaves .tabs 3 y ++ rest))).length = L at *
    exact ⟨L - 2, by omega⟩
  refine ⟨?_, ?_, ?_⟩
  · intro h1 h2
    obtain ⟨f, hf⟩ := fuel2 .protocols .applications
    unfold machineParser
    rw [hf, requiredSections_eq,
      machineLoop_protocols x _ _ line (f + 2) hx (by omega) 1 (by rfl),
      leafList_render .protocol .formatting 3 (by omega) x _ _ hx h1 (aft3 _ _) (by omega)]
    simp only [List.eraseIdx_cons_zero, List.nil_append]
    rw [machineLoop_applications y _ _ _ (f + 1) hy (by omega) 1 (by rfl),
      leafList_render .application .formatting 3 (by omega) y _ _ hy h2 aftR (by omega)]
    simp only [List.eraseIdx_cons_zero, List.nil_append]
    rw [machineLoop_end rest haft]
    simp
  · intro h1 h2
    obtain ⟨f, hf⟩ := fuel2 .networks .applications
    unfold machineParser
    rw [hf, requiredSections_eq,
      machineLoop_networks x _ _ line (f + 2) hx (by omega) 0 (by rfl),
      leafList_render .network .formatting 3 (by omega) x _ _ hx h1 (aft3 _ _) (by omega)]
    simp only [List.eraseIdx_cons_zero, List.nil_append]
    rw [machineLoop_applications y _ _ _ (f + 1) hy (by omega) 1 (by rfl),
      leafList_render .application .formatting 3 (by omega) y _ _ hy h2 aftR (by omega)]
    simp only [List.eraseIdx_cons_zero, List.nil_append]
    rw [machineLoop_end rest haft]
    simp
  · intro h1 h2
    obtain ⟨f, hf⟩ := fuel2 .networks .protocols
    unfold machineParser
    rw [hf, requiredSections_eq,
      machineLoop_networks x _ _ line (f + 2) hx (by omega) 0 (by rfl),
      leafList_render .network .formatting 3 (by omega) x _ _ hx h1 (aft3 _ _) (by omega)]
    simp only [List.eraseIdx_cons_zero, List.nil_append]
    rw [machineLoop_protocols y _ _ _ (f + 1) hy (by omega) 0 (by rfl),
      leafList_render .protocol .formatting 3 (by omega) y _ _ hy h2 aftR (by omega)]
    simp only [List.eraseIdx_cons_zero, List.nil_append]
    rw [machineLoop_end rest haft]
    simp

/-- duplicate network id inside one `[Networks]` block ⇒ `Err` -/
theorem c19_rejects_dup_id_same_block (nets : List (Text × Network)) (rest : Text)
    (hok : ∀ e ∈ nets, NetworkOk e.1 e.2) (hdup : ¬ (nets.map (·.1)).Nodup) (haft : After 1 rest)
    (hb : 2 + (nets.map (·.2.lines)).sum ≤ i32Max) (nets0 : List (Text × Network)) (ms : List Machine) (fuel : Nat) :
    coreLoop (fuel + 1) (tabLine 0 .networks [] (netsText nets ++ rest)) 1 nets0 ms = .error (.err .dupId 0) := by
  rw [coreLoop]
  have nl : ∀ r, netsText nets ++ rest ≠ '\n' :: r := (netsText_after nets rest haft hok).2
  have top : generalParser (tabLine 0 .networks [] (netsText nets ++ rest)) 1 =
      .ok ⟨.networks, [], netsText nets ++ rest, 2⟩ := by
    have := lex_tabLine .networks [] lineOk_nil _ nl 1 (by omega)
    simpa [tabLine] using this
  simp only [tabLine_ne_nil, if_false, top, networksParser]
  rw [networksLoop_dup nets rest 2 _ [] hok (by simp) (by simpa using hdup) haft (by omega) (Nat.lt_succ_self _)]

/-- duplicate network id in another `[Networks]` block ⇒ `Err` -/
theorem c19_rejects_dup_id_other_block (a b : List (Text × Network)) (id : Text)
    (ha : ∀ e ∈ a, NetworkOk e.1 e.2) (hb : ∀ e ∈ b, NetworkOk e.1 e.2)
    (hna : (a.map (·.1)).Nodup) (hnb : (b.map (·.1)).Nodup)
    (hia : id ∈ a.map (·.1)) (hib : id ∈ b.map (·.1))
    (hl : 3 + (a.map (·.2.lines)).sum + (b.map (·.2.lines)).sum ≤ i32Max) :
    build (tabLine 0 .networks [] (netsText a ++ tabLine 0 .networks [] (netsText b ++ []))) =
      .error (.err .dupId 0) := by
  unfold build
  have aft0 : ∀ (dt : DecType) (t : Text), After 1 (tabLine 0 dt [] t) :=
    fun dt t => ⟨by rw [countTabs_tabLine]; omega, tabLine_not_nl _ _ _ _⟩
  have aftEnd : After 1 ([] : Text) := ⟨by simp [countTabs], by simp⟩
  have top : ∀ (tail : Text) (line : Nat), (∀ r, tail ≠ '\n' :: r) → line + 1 ≤ i32Max →
      generalParser (tabLine 0 .networks [] tail) line = .ok ⟨.networks, [], tail, line + 1⟩ := by
    intro tail line h1 h2
    have := lex_tabLine .networks [] lineOk_nil tail h1 line h2
    simpa [tabLine] using this
  have nl1 := (netsText_after a _ (aft0 .networks (netsText b ++ [])) ha).2
  have nl2 := (netsText_after b _ aftEnd hb).2
  have hlen1 := tabLine_length 0 .networks [] (netsText a ++ tabLine 0 .networks [] (netsText b ++ []))
  have hlen2 := tabLine_length 0 .networks [] (netsText b ++ [])
  have hlen3 : (tabLine 0 .networks [] (netsText b ++ [])).length ≤
      (netsText a ++ tabLine 0 .networks [] (netsText b ++ [])).length := by simp
  generalize hF : (tabLine 0 .networks [] (netsText a ++ tabLine 0 .networks [] (netsText b ++ []))).length + 1 = F
  obtain ⟨f, rfl⟩ : ∃ f, F = f + 2 := ⟨F - 2, by omega⟩
  rw [coreLoop]
  simp only [tabLine_ne_nil, if_false, top _ 1 nl1 (by omega), networksParser]
  rw [networksLoop_render a _ 2 _ [] ha hna (by simp) (aft0 _ _) (by omega) (Nat.lt_succ_self _)]
  simp only [List.nil_append]
  rw [mergeNets_nil_left a [] hna (by simp)]
  simp only [List.nil_append]
  rw [coreLoop]
  have t2 := top (netsText b ++ []) (2 + (a.map (·.2.lines)).sum) nl2 (by omega)
  simp only [tabLine_ne_nil, if_false, t2, networksParser]
  rw [networksLoop_render b [] _ _ [] hb hnb (by simp) aftEnd (by omega) (Nat.lt_succ_self _)]
  simp only [List.nil_append]
  rw [mergeNets_dup b a id hia hib]

end Elvis.Ndl
