import ElvisVerif.Lemmas.TcpFinProc
import ElvisVerif.Lemmas.TcbWindow
/-!
# The stream invariant with `close()`: the API calls

`send`, `receive`, `segments`, `advance_time`, `close` and the LISTEN handler.  `close` and `segments` are
the two places where the FIN is numbered (`finSent` false → true): the FIN is put behind every
submitted byte (`queueFin_eq`: it is formed only when no text is left to segmentize).
-/
namespace Elvis.Tcp.Fin
open Elvis.ModCmp Elvis.Tcp.Tcb Elvis.Tcp.C01

/-- `queue_fin`, evaluated -/
theorem queueFin_eq (s : Tcb) :
    (s.outgoing.text ≠ [] → s.queueFin = .ok s) ∧
    (s.outgoing.text = [] → s.queueFin = .ok ({ s with snd.nxt := s.snd.nxt + 1, outgoing.retransmit := s.outgoing.retransmit ++ [Transmit.new ⟨s.finHdr.built, []⟩] } : Tcb)) := by
  refine ⟨fun h => ?_, fun h => ?_⟩
  · unfold queueFin
    rw [if_neg (by simp [h])]
  · unfold queueFin
    rw [if_pos (by simp [h]), enqueue_eq]
    unfold enqueueBuilt
    rw [if_pos (by simp [finHdr, Hdr.built, Hdr.withFin, Hdr.withAck, Hdr.withWnd])]

section
variable {port : U16} {issX issY : Seq} {subX subY delX : List UInt8} {finY : Bool}

/-- forming the FIN: the flag goes from false to true -/
theorem TInvG.formFin {t : Tcb} (h : TInvG port issX issY subX subY delX false finY t) (ht : t.outgoing.text = []) :
    TInvG port issX issY subX subY delX true finY
      ({ t with snd.nxt := t.snd.nxt + 1, outgoing.retransmit := t.outgoing.retransmit ++ [Transmit.new ⟨t.finHdr.built, []⟩] } : Tcb) := by
  obtain ⟨pre, hpre, hnxt⟩ := h.out
  rw [ht, List.append_nil] at hpre
  simp only [Bool.toNat_false, Nat.add_zero] at hnxt
  have one1 : (1 : Seq) = BitVec.ofNat 32 1 := rfl
  refine ⟨h.lp, h.iss, ⟨pre, (by show subX = pre ++ t.outgoing.text; rw [ht, List.append_nil]; exact hpre), ?_⟩,
    fun g hg => ?_, h.one, h.heap, h.rcv0, h.rcv1, h.eof, h.irs⟩
  · show t.snd.nxt + 1 = _
    rw [hnxt, one1, add_ofNat_assoc]; rfl
  · simp only [List.map_append, List.map_cons, List.map_nil, List.mem_append, List.mem_singleton] at hg
    rcases hg with hg | rfl
    · exact ⟨(h.rtx g hg).1.flag, (h.rtx g hg).2⟩
    · refine ⟨⟨fun _ => ⟨rfl, rfl, rfl, ?_⟩, (fun h0 => by cases h0), fun hne => absurd rfl hne⟩, h.lp⟩
      show t.snd.nxt = _
      rw [hnxt, hpre]

/-- `send`: the ghost log and the outgoing text grow together (only while `send` is accepted) -/
theorem send_invF {t : Tcb} (h : TInvF port issX issY subX subY delX finY t) (m : List UInt8) :
    TInvF port issX issY (subX ++ (if sendAccepts t.state then m else [])) subY delX finY (t.send m) := by
  cases ha : sendAccepts t.state with
  | false =>
    have : t.send m = t := by
      unfold send
      cases hst : t.state <;> rw [hst] at ha <;> first | cases ha | rfl
    rw [this]
    simp only [Bool.false_eq_true, if_false, List.append_nil]
    exact h
  | true =>
    have key : t.send m = { t with outgoing.text := t.outgoing.text ++ m } := by
      unfold send
      cases hst : t.state <;> rw [hst] at ha <;> first | cases ha | rfl
    have hfs : finSent t = false := finSent_accepts ha
    have h' : TInvG port issX issY subX subY delX false finY t := by rw [← hfs]; exact h
    rw [key, if_pos rfl]
    obtain ⟨pre, hpre, hnxt⟩ := h'.out
    refine TInvF.of_g (fx := false) ⟨h'.lp, h'.iss, ⟨pre, ?_, hnxt⟩,
      fun g hg => ⟨(h'.rtx g hg).1.mono m, (h'.rtx g hg).2⟩, h'.one, h'.heap, h'.rcv0, h'.rcv1, h'.eof, h'.irs⟩ ?_
    · show subX ++ m = pre ++ (t.outgoing.text ++ m)
      rw [hpre, List.append_assoc]
    · exact finSent_accepts (t := { t with outgoing.text := t.outgoing.text ++ m }) ha

/-- `receive`: the buffered text moves to the delivered log -/
theorem receive_invF {t : Tcb} (h : TInvF port issX issY subX subY delX finY t) :
    TInvF port issX issY subX subY (delX ++ t.receive.2) finY t.receive.1 := by
  have key : t.receive = ({ t with incoming.text := [] }, t.incoming.text) ∨ t.receive = (t, []) := by
    unfold receive
    cases hst : t.state <;> simp
  rcases key with key | key
  · rw [key]
    refine TInvF.of_g (fx := finSent t) ⟨h.lp, h.iss, h.out, h.rtx, h.one, h.heap, fun hs => ?_, fun hs => ?_,
      fun hr => ?_, h.irs⟩ rfl
    · obtain ⟨a, b⟩ := h.rcv0 hs
      exact ⟨by show delX ++ t.incoming.text = []; rw [a, b]; rfl, rfl⟩
    · obtain ⟨a, b⟩ := h.rcv1 hs
      refine ⟨?_, ?_⟩
      · show t.rcv.nxt = issY + 1 + BitVec.ofNat 32 ((delX ++ t.incoming.text).length + 0 + (finRcvd t.state).toNat)
        rw [a, List.length_append, Nat.add_zero]
      · show (delX ++ t.incoming.text) ++ [] <+: subY
        rw [List.append_nil]; exact b
    · obtain ⟨a, b⟩ := h.eof hr
      exact ⟨by show (delX ++ t.incoming.text) ++ [] = subY; rw [List.append_nil]; exact a, b⟩
  · rw [key]
    show TInvF port issX issY subX subY (delX ++ []) finY t
    rw [List.append_nil]; exact h

theorem receive_finSent (t : Tcb) : finSent t.receive.1 = finSent t := by
  unfold receive
  split <;> first | rfl | exact finSent_congr rfl rfl

/-- the segmentizing loop of `segments()` cuts valid slices off the outgoing text -/
theorem segmentize_invG (maxSeg fuel : Nat) {t t' : Tcb} (qb : Nat)
    (h : TInvG port issX issY subX subY delX false finY t) (e : segmentize maxSeg fuel t qb = .ok t') :
    TInvG port issX issY subX subY delX false finY t' ∧ t'.state = t.state := by
  induction fuel generalizing t qb with
  | zero => unfold segmentize at e; cases e; exact ⟨h, rfl⟩
  | succ n ih =>
    unfold segmentize at e
    dsimp only at e
    split at e
    · cases e; exact ⟨h, rfl⟩
    · split at e
      · cases e
      · rename_i header hb
        have hh := C01.build_some hb
        subst hh
        refine (fun k => ⟨(ih _ k e).1, (ih _ k e).2⟩) ?_
        obtain ⟨pre, hpre, hnxt⟩ := h.out
        generalize min (min maxSeg (t.snd.wnd.toNat - qb)) t.outgoing.text.length = b
        refine ⟨h.lp, h.iss, ⟨pre ++ t.outgoing.text.take b, ?_, ?_⟩, fun g hg => ?_, h.one, h.heap, h.rcv0, h.rcv1,
          h.eof, h.irs⟩
        · show subX = (pre ++ t.outgoing.text.take b) ++ t.outgoing.text.drop b
          rw [List.append_assoc, List.take_append_drop]; exact hpre
        · show t.snd.nxt + BitVec.ofNat 32 (t.outgoing.text.take b).length = _
          rw [hnxt, add_ofNat_assoc, List.length_append]
          congr 2
        · have hg' : g ∈ t.outgoing.retransmit.map (·.segment) ∨ g = ⟨t.ackHdr.built, t.outgoing.text.take b⟩ := by
            simpa [Transmit.new] using hg
          rcases hg' with hg' | rfl
          · exact h.rtx g hg'
          · refine ⟨⟨(fun h0 => by cases h0), (fun h0 => by cases h0), fun _ => ⟨pre.length, ?_, ?_, ?_⟩⟩, h.lp⟩
            · exact hnxt
            · show pre.length + (t.outgoing.text.take b).length ≤ subX.length
              rw [hpre, List.length_append, List.length_take]; omega
            · show t.outgoing.text.take b = (subX.drop pre.length).take (t.outgoing.text.take b).length
              rw [hpre, List.drop_left, take_length_take]

/-- the three closing states that may still hold text -/
def closing3 : State → Bool
  | .FinWait1 | .Closing | .LastAck => true
  | _ => false

theorem finPending_eq (t : Tcb) : t.finPending = (closing3 t.state && !t.outgoing.text.isEmpty) := by
  unfold Tcb.finPending closing3
  cases t.state <;> rfl

/-- the segmentizing part of `segments()`: with the FIN numbered nothing happens -/
theorem segmentizeIfOpen_invF {t s1 : Tcb} (h : TInvF port issX issY subX subY delX finY t)
    (e : segmentizeIfOpen t = .ok s1) :
    TInvG port issX issY subX subY delX (finSent t) finY s1 ∧ s1.state = t.state ∧ (finSent t = true → s1 = t) := by
  cases hfs : finSent t with
  | true =>
    have : s1 = t := by
      unfold segmentizeIfOpen at e
      unfold finSent at hfs
      cases hst : t.state <;> rw [hst] at e hfs <;> dsimp only at e hfs
      all_goals first
        | (cases e; rfl)
        | (cases hfs)
        | (split at e
           · cases e
           · rw [segmentize_nil _ _ _ _ (by simpa using hfs)] at e
             cases e; rfl)
    subst this
    exact ⟨by rw [← hfs]; exact h, rfl, fun _ => rfl⟩
  | false =>
    have h' : TInvG port issX issY subX subY delX false finY t := by rw [← hfs]; exact h
    unfold segmentizeIfOpen at e
    split at e
    all_goals first
      | (split at e
         · cases e
         · obtain ⟨a, b⟩ := segmentize_invG _ _ _ h' e
           exact ⟨a, b, fun h0 => by cases h0⟩)
      | (cases e; exact ⟨h', rfl, fun h0 => by cases h0⟩)

/-- **`segments()` keeps the invariant and emits only valid segments carrying our port**; the FIN
    flag can only go from false to true -/
theorem segments_invF {t t' : Tcb} {out : List Segment}
    (h : TInvF port issX issY subX subY delX finY t) (e : t.segments = .ok (t', out)) :
    TInvF port issX issY subX subY delX finY t' ∧ (finSent t = true → finSent t' = true) ∧
      ∀ g ∈ out, ValidF issX subX (finSent t') g ∧ g.hdr.srcPort = port := by
  unfold segments at e
  dsimp only at e
  have hfs0 : finSent ({ t with outgoing.oneshot := [] } : Tcb) = finSent t := rfl
  have h0 : TInvF port issX issY subX subY delX finY { t with outgoing.oneshot := [] } :=
    ⟨h.lp, h.iss, h.out, h.rtx, (fun x hx => by cases hx), h.heap, h.rcv0, h.rcv1, h.eof, h.irs⟩
  cases hs : segmentizeIfOpen { t with outgoing.oneshot := [] } with
  | error x => rw [hs] at e; cases e
  | ok s1 =>
    rw [hs] at e
    dsimp only at e
    obtain ⟨i1, hst1, hsame⟩ := segmentizeIfOpen_invF h0 hs
    rw [hfs0] at i1 hsame
    have hst1' : s1.state = t.state := hst1
    -- the FIN, if it was waiting for the text
    have k2 : ∀ s2, finIfPending t.finPending s1 = .ok s2 →
        TInvF port issX issY subX subY delX finY s2 ∧ (finSent t = true → finSent s2 = true) := by
      intro s2 e2
      unfold finIfPending at e2
      cases hp : t.finPending with
      | false =>
        rw [hp, if_neg Bool.false_ne_true] at e2
        cases e2
        have hfs1 : finSent s1 = finSent t := by
          cases hft : finSent t with
          | true => rw [hsame hft]; exact hft
          | false =>
            -- not pending and not numbered: the state is not one of the three closing states
            rw [finPending_eq] at hp
            unfold finSent at hft ⊢
            rw [hst1']
            cases hst : t.state <;> rw [hst] at hft hp <;> simp [closing3] at hft hp ⊢
            all_goals (rw [hp] at hft; exact absurd rfl hft)
        exact ⟨TInvF.of_g i1 hfs1, fun h0 => by rw [hfs1]; exact h0⟩
      | true =>
        rw [hp, if_pos rfl] at e2
        have hft : finSent t = false := finSent_of_pending hp
        rw [hft] at i1
        rw [finPending_eq] at hp
        simp only [Bool.and_eq_true] at hp
        have hc3 : closing3 s1.state = true := by rw [hst1']; exact hp.1
        by_cases ht1 : s1.outgoing.text = []
        · rw [(queueFin_eq s1).2 ht1] at e2
          cases e2
          refine ⟨TInvF.of_g (i1.formFin ht1) ?_, fun h0 => by rw [hft] at h0; cases h0⟩
          unfold finSent
          unfold closing3 at hc3
          cases hst : s1.state <;> rw [hst] at hc3 <;> simp at hc3 ⊢
          all_goals exact ht1
        · rw [(queueFin_eq s1).1 ht1] at e2
          cases e2
          refine ⟨TInvF.of_g i1 ?_, fun h0 => by rw [hft] at h0; cases h0⟩
          unfold finSent
          unfold closing3 at hc3
          cases hst : s1.state <;> rw [hst] at hc3 <;> simp at hc3 ⊢
          all_goals exact ht1
    cases hq : finIfPending t.finPending s1 with
    | error x => rw [hq] at e; cases e
    | ok s2 =>
      rw [hq] at e
      dsimp only at e
      obtain ⟨i2, hmono⟩ := k2 s2 hq
      simp only [Except.ok.injEq, Prod.mk.injEq] at e
      obtain ⟨e1, e2⟩ := e
      have i3 : TInvF port issX issY subX subY delX finY
          { s2 with outgoing.retransmit := s2.outgoing.retransmit.map fun t => { t with needsTransmit := false } } := by
        refine TInvF.of_g (fx := finSent s2)
          ⟨i2.lp, i2.iss, i2.out, fun g hg => i2.rtx g ?_, i2.one, i2.heap, i2.rcv0, i2.rcv1, i2.eof, i2.irs⟩ rfl
        simpa [List.map_map, Function.comp_def] using hg
      have hfs' : finSent t' = finSent s2 := by
        rw [← e1]
        split <;> rfl
      refine ⟨?_, fun h0 => by rw [hfs']; exact hmono h0, fun g hg => ?_⟩
      · rw [← e1]
        split
        · exact i3
        · exact TInvF.of_g (fx := finSent s2)
            ⟨i3.lp, i3.iss, i3.out, i3.rtx, i3.one, i3.heap, i3.rcv0, i3.rcv1, i3.eof, i3.irs⟩ rfl
      · rw [hfs']
        rw [← e2, List.mem_append] at hg
        rcases hg with hg | hg
        · rw [List.mem_map] at hg
          obtain ⟨hd, hhd, rfl⟩ := hg
          obtain ⟨a, b, c⟩ := h.one hd hhd
          exact ⟨ValidF.plain hd a b, c⟩
        · exact i2.rtx g (mem_map_filter _ _ _ g hg)

/-- `advance_time` is a frame step -/
theorem advanceTime_frF {t t' : Tcb} {dt : Nat} {r : AdvanceTimeResult}
    (e : t.advanceTime dt = .ok (t', r)) : FrF t t' := by
  unfold advanceTime at e
  have f1 : ∀ s1, t.advanceRetransmission dt = .ok s1 → FrF t s1 := by
    intro s1 h1
    unfold advanceRetransmission at h1
    split at h1
    · cases h1
      refine FrF.of_same rfl rfl rfl rfl rfl rfl rfl (fun g hg => ?_) (fun _ h => Or.inl h)
      simpa [List.map_map, Function.comp_def] using hg
    · first
        | (cases h1; frf_fields)
        | (split at h1
           · cases h1
           · cases h1; frf_fields)
  split at e
  · cases e
  · rename_i s1 h1
    have f := f1 s1 h1
    split at e
    · split at e
      · cases e; exact f
      · first
        | (cases e
           refine f.trans ?_
           frf_fields)
        | (split at e
           · cases e
           · cases e
             refine f.trans ?_
             frf_fields)
    · cases e; exact f

/-- **`close()` keeps the invariant**; the FIN is numbered at once when no text is left to segmentize -/
theorem close_invF {t t' : Tcb} {r : CloseResult}
    (h : TInvF port issX issY subX subY delX finY t) (e : t.close = .ok (t', r)) :
    TInvF port issX issY subX subY delX finY t' ∧ (finSent t = true → finSent t' = true) := by
  -- the state change alone
  have step : ∀ (st' : State), finSent t = false → t.state ≠ .SynSent → st' ≠ .SynSent →
      finRcvd st' = finRcvd t.state → closing3 st' = true →
      ∀ s2, ({ t with state := st' } : Tcb).queueFin = .ok s2 →
      TInvF port issX issY subX subY delX finY s2 := by
    intro st' hft hns hns' hfr hc3 s2 e2
    have h' : TInvG port issX issY subX subY delX false finY t := by rw [← hft]; exact h
    have i1 : TInvG port issX issY subX subY delX false finY { t with state := st' } :=
      ⟨h'.lp, h'.iss, h'.out, h'.rtx, h'.one, h'.heap, fun hs => absurd hs hns',
        fun _ => by show _ = issY + 1 + BitVec.ofNat 32 (_ + _ + (finRcvd st').toNat) ∧ _; rw [hfr]; exact h'.rcv1 hns,
        fun hr => h'.eof (by rw [← hfr]; exact hr), fun _ => h'.irs hns⟩
    by_cases ht1 : t.outgoing.text = []
    · rw [(queueFin_eq { t with state := st' }).2 ht1] at e2
      cases e2
      refine TInvF.of_g (i1.formFin ht1) ?_
      unfold finSent
      unfold closing3 at hc3
      cases st' <;> simp at hc3 ⊢
      all_goals exact ht1
    · rw [(queueFin_eq { t with state := st' }).1 ht1] at e2
      cases e2
      refine TInvF.of_g i1 ?_
      unfold finSent
      unfold closing3 at hc3
      cases st' <;> simp at hc3 ⊢
      all_goals exact ht1
  unfold close at e
  cases hst : t.state <;> rw [hst] at e <;> dsimp only at e
  case SynReceived =>
    have hft : finSent t = false := by unfold finSent; rw [hst]
    cases hq : ({ t with state := .FinWait1 } : Tcb).queueFin with
    | error x => rw [hq] at e; cases e
    | ok s2 =>
      rw [hq] at e; cases e
      exact ⟨step .FinWait1 hft (by rw [hst]; simp) (by simp) (by rw [hst]; rfl) rfl _ hq,
        fun h0 => by rw [hft] at h0; cases h0⟩
  case Established =>
    have hft : finSent t = false := by unfold finSent; rw [hst]
    cases hq : ({ t with state := .FinWait1 } : Tcb).queueFin with
    | error x => rw [hq] at e; cases e
    | ok s2 =>
      rw [hq] at e; cases e
      exact ⟨step .FinWait1 hft (by rw [hst]; simp) (by simp) (by rw [hst]; rfl) rfl _ hq,
        fun h0 => by rw [hft] at h0; cases h0⟩
  case CloseWait =>
    have hft : finSent t = false := by unfold finSent; rw [hst]
    cases hq : ({ t with state := .LastAck } : Tcb).queueFin with
    | error x => rw [hq] at e; cases e
    | ok s2 =>
      rw [hq] at e; cases e
      exact ⟨step .LastAck hft (by rw [hst]; simp) (by simp) (by rw [hst]; rfl) rfl _ hq,
        fun h0 => by rw [hft] at h0; cases h0⟩
  all_goals
    cases e
    exact ⟨h, fun h0 => h0⟩

/-- LISTEN: a valid SYN creates a TCB satisfying the invariant with empty logs; a response is a
    plain header from the port the segment was addressed to -/
theorem listen_invF {g : Segment} {iss : Seq} {mtu : U16} {res : Option ListenResult}
    (hv : ValidF issY subY finY g) (e : segmentArrivesListen g iss mtu = .ok res) :
    (∀ t, res = some (.Tcb t) → TInvF g.hdr.dstPort iss issY [] subY [] finY t ∧ finSent t = false) ∧
    (∀ hd, res = some (.Response hd) → hd.ctl.syn = false ∧ hd.ctl.fin = false ∧ hd.srcPort = g.hdr.dstPort) := by
  unfold segmentArrivesListen at e
  dsimp only at e
  split at e
  · cases e; exact ⟨(fun _ h0 => by cases h0), (fun _ h0 => by cases h0)⟩
  · split at e
    · cases e
      refine ⟨fun t h0 => ?_, fun hd h0 => ?_⟩
      · cases hb : (Hdr.builder g.hdr.dstPort g.hdr.srcPort g.hdr.ack).withRst.build 0 <;> simp [hb] at h0
      · rw [Hdr.build_zero] at h0
        simp only [Option.map_some, Option.some.injEq, ListenResult.Response.injEq] at h0
        subst h0
        exact ⟨rfl, rfl, rfl⟩
    · split at e
      · rename_i hsyn
        obtain ⟨hseq, htext⟩ := hv.syn hsyn
        rw [enqueue_eq] at e
        dsimp only at e
        cases e
        refine ⟨fun t h0 => ?_, (fun _ h0 => by cases h0)⟩
        simp only [Option.some.injEq, ListenResult.Tcb.injEq] at h0
        subst h0
        -- the TCB before the SYN-ACK is queued and the SYN is parked
        have base : TInvG g.hdr.dstPort iss issY [] subY [] false finY
            ({ localPort := g.hdr.dstPort, remotePort := g.hdr.srcPort, mtu, initiation := .Listen,
               state := .SynReceived,
               snd := { iss := iss, una := iss, nxt := iss + 1, wnd := g.hdr.wnd, wl1 := g.hdr.seq, wl2 := iss },
               rcv := { irs := g.hdr.seq, nxt := g.hdr.seq + 1 } } : Tcb) := by
          refine ⟨rfl, rfl, ⟨[], rfl, ?_⟩, (fun x hx => by cases hx), (fun x hx => by cases hx),
            (fun x hx => by cases hx), (fun h0 => by cases h0), fun _ => ⟨?_, List.nil_prefix⟩,
            (fun h0 => by cases h0), fun _ => hseq⟩
          · show iss + 1 = iss + 1 + BitVec.ofNat 32 (0 + 0)
            simp
          · show g.hdr.seq + 1 = issY + 1 + BitVec.ofNat 32 (0 + 0 + 0)
            rw [hseq]; simp
        have i1 := base.enqSyn
          ((((Hdr.builder g.hdr.dstPort g.hdr.srcPort iss).withSyn).withAck (g.hdr.seq + 1)).withWnd ({} : Rcv).wnd).built
          rfl rfl rfl rfl
        have key : ∀ u : Tcb, u.state = .SynReceived → finSent u = false := by
          intro u hu; unfold finSent; rw [hu]
        refine ⟨TInvF.of_g (fx := false)
          ⟨i1.lp, i1.iss, i1.out, i1.rtx, i1.one, fun x hx => ?_, i1.rcv0, i1.rcv1, i1.eof, i1.irs⟩ ?_, ?_⟩
        · rcases LHeap.mem_push.1 hx with rfl | hx
          · refine ⟨fun hf => ?_, (fun h0 => by cases h0), fun hne => absurd htext hne⟩
            have hf' : g.hdr.ctl.fin = true := hf
            have := (hv.fin hf').2.1
            rw [hsyn] at this; cases this
          · exact i1.heap x hx
        · exact key _ (state_enqueueBuilt _ _)
        · exact key _ (state_enqueueBuilt _ _)
      · cases e; exact ⟨(fun _ h0 => by cases h0), (fun _ h0 => by cases h0)⟩

end
end Elvis.Tcp.Fin
