import ElvisVerif.Lemmas.TcpRelFwd2
import ElvisVerif.Lemmas.TcpConvEmit
/-!
# `segments()` in FIN-WAIT-1 while text is still queued: the data, then the FIN

`close()` on an ESTABLISHED endpoint with unsent text only changes the state (`close_pending`: `queue_fin` does nothing
while text is queued; `fin_pending()` holds from then on).  The segmentizing loop does not read the state
(`segmentize_withState`), so the next `segments()` cuts exactly the segments the ESTABLISHED twin would cut; when that
empties `outgoing.text`, `fin_if_pending` numbers the FIN behind the last text byte and it leaves in the same batch:
`segments_twin`.
-/
namespace Elvis.Tcp
open Elvis.ModCmp Elvis.Tcp.Fin
namespace Tcb

/-- the twin in FIN-WAIT-1 -/
def fw (t : Tcb) : Tcb := { t with state := .FinWait1 }

/-- `close()` with text still queued: FIN-WAIT-1, the FIN is not formed yet -/
theorem close_pending (t : Tcb) (hst : t.state = .Established) (ht : t.outgoing.text ≠ []) :
    t.close = .ok (fw t, .Ok) := by
  unfold close
  rw [hst]
  dsimp only
  rw [(Elvis.Tcp.Fin.queueFin_eq ({ t with state := .FinWait1 } : Tcb)).1 ht]
  rfl

theorem segmentize_withState (st : State) (m fuel : Nat) (s : Tcb) (q : Nat) :
    segmentize m fuel ({ s with state := st } : Tcb) q =
      match segmentize m fuel s q with
      | .error e => .error e
      | .ok u => .ok ({ u with state := st } : Tcb) := by
  induction fuel generalizing s q with
  | zero => rfl
  | succ n ih =>
    rw [segmentize_succ, segmentize_succ]
    show (if min (min m (s.snd.wnd.toNat - q)) s.outgoing.text.length = 0 then _ else _) = _
    generalize hb : min (min m (s.snd.wnd.toNat - q)) s.outgoing.text.length = bytes
    by_cases h0 : bytes = 0
    · rw [if_pos h0, if_pos h0]
    · rw [if_neg h0, if_neg h0]
      show (match s.ackHdr.build (List.take bytes s.outgoing.text).length with
        | none => _
        | some header => _) = _
      cases hbuild : s.ackHdr.build (List.take bytes s.outgoing.text).length with
      | none => rfl
      | some header =>
        dsimp only
        exact ih (pushSeg s header (List.take bytes s.outgoing.text) (List.drop bytes s.outgoing.text)) (q + bytes)

/-- what the closing `segments()` adds to the result of the twin's `segments()` -/
structure CloseFx (t1 : Tcb) (fin : Hdr) (t1' : Tcb) : Prop where
  st : t1'.state = .FinWait1
  nxt : t1'.snd.nxt = t1.snd.nxt + 1
  una : t1'.snd.una = t1.snd.una
  iss : t1'.snd.iss = t1.snd.iss
  rcv : t1'.rcv = t1.rcv
  inc : t1'.incoming = t1.incoming
  text : t1'.outgoing.text = []
  one : t1'.outgoing.oneshot = []
  rtx : t1'.outgoing.retransmit = t1.outgoing.retransmit ++ [⟨⟨fin, []⟩, false⟩]
  mtu : t1'.mtu = t1.mtu
  lp : t1'.localPort = t1.localPort
  rp : t1'.remotePort = t1.remotePort
  isfin : IsFin ⟨fin, []⟩ t1.snd.nxt t1.rcv.nxt
  src : fin.srcPort = t1.localPort
  dst : fin.dstPort = t1.remotePort

/-- **the ESTABLISHED endpoint and its FIN-WAIT-1 twin emit**: all unsent text fits into the window -/
theorem segments_twin (t : Tcb) (hst : t.state = .Established) (hmtu : SPACE_FOR_HEADERS < t.mtu.toNat)
    (hfit : t.outgoing.text.length ≤ t.snd.wnd.toNat - rtxBytes t.outgoing.retransmit) :
    ∃ new t1 out t1' fin, t.segments = .ok (t1, out) ∧ EmitFx t new t1 out ∧
      (t.outgoing.text ≠ [] → (fw t).segments = .ok (t1', out ++ [⟨fin, []⟩])) ∧ CloseFx t1 fin t1' := by
  have hok3 : C01.Ok3 t.state := by rw [hst]; trivial
  have hfp : t.finPending = false := C01.Ok3.finPending hok3
  have hm16 := t.mtu.isLt
  obtain ⟨u, e, fx⟩ := segmentize_exact (t.mtu.toNat - SPACE_FOR_HEADERS) (by omega)
    (by show t.mtu.toNat - 50 + 20 ≤ 65535; omega)
    ((clearOneshot t).outgoing.text.length + 1) (clearOneshot t) (clearOneshot t).outgoing.queuedBytes (by omega)
  have hlt : ¬ (clearOneshot t).mtu.toNat < SPACE_FOR_HEADERS := by show ¬ t.mtu.toNat < _; omega
  have hv : segmentizeIfOpen (clearOneshot t) = .ok u := by
    unfold segmentizeIfOpen
    have hs' : (clearOneshot t).state = .Established := hst
    rw [hs']
    dsimp only
    rw [if_neg hlt]
    exact e
  have hv' : segmentizeIfOpen (clearOneshot (fw t)) = .ok ({ u with state := .FinWait1 } : Tcb) := by
    unfold segmentizeIfOpen
    have hs' : (clearOneshot (fw t)).state = .FinWait1 := rfl
    rw [hs']
    dsimp only
    have hlt' : ¬ (clearOneshot (fw t)).mtu.toNat < SPACE_FOR_HEADERS := hlt
    rw [if_neg hlt']
    have := segmentize_withState .FinWait1 (t.mtu.toNat - SPACE_FOR_HEADERS) ((clearOneshot t).outgoing.text.length + 1)
      (clearOneshot t) (clearOneshot t).outgoing.queuedBytes
    rw [e] at this
    exact this
  -- everything is cut
  have hall : min (clearOneshot t).outgoing.text.length
      ((clearOneshot t).snd.wnd.toNat - (clearOneshot t).outgoing.queuedBytes) = t.outgoing.text.length := by
    have : (clearOneshot t).outgoing.queuedBytes = rtxBytes t.outgoing.retransmit := rfl
    rw [this]
    show min t.outgoing.text.length (t.snd.wnd.toNat - rtxBytes t.outgoing.retransmit) = _
    omega
  have hutext : u.outgoing.text = [] := by
    rw [fx.text, hall]
    show List.drop t.outgoing.text.length t.outgoing.text = []
    simp
  obtain ⟨new, r1, r2, r3, r4⟩ := fx.rtx
  have hmk : ∀ (w : Tcb) b, (markSent w b).outgoing.retransmit = w.outgoing.retransmit.map (fun x => { x with needsTransmit := false }) ∧
      (markSent w b).outgoing.oneshot = w.outgoing.oneshot ∧ (markSent w b).outgoing.text = w.outgoing.text ∧
      (markSent w b).snd = w.snd ∧ (markSent w b).rcv = w.rcv ∧ (markSent w b).incoming = w.incoming ∧
      (markSent w b).state = w.state ∧ (markSent w b).mtu = w.mtu ∧ (markSent w b).localPort = w.localPort ∧
      (markSent w b).remotePort = w.remotePort := by
    intro w b; unfold markSent; cases b <;> exact ⟨rfl, rfl, rfl, rfl, rfl, rfl, rfl, rfl, rfl, rfl⟩
  -- the FIN
  let fin : Hdr := ({ u with state := .FinWait1 } : Tcb).finHdr.built
  let u2 : Tcb := ({ u with state := .FinWait1, snd.nxt := u.snd.nxt + 1, outgoing.retransmit := u.outgoing.retransmit ++ [Transmit.new ⟨fin, []⟩] } : Tcb)
  have hq : ({ u with state := .FinWait1 } : Tcb).queueFin = .ok u2 :=
    (Elvis.Tcp.Fin.queueFin_eq ({ u with state := .FinWait1 } : Tcb)).2 hutext
  let outP : List Segment := (t.outgoing.oneshot.map fun h => (⟨h, []⟩ : Segment)) ++
      (u.outgoing.retransmit.filter (·.needsTransmit)).map (·.segment)
  let outC : List Segment := (t.outgoing.oneshot.map fun h => (⟨h, []⟩ : Segment)) ++
      (u2.outgoing.retransmit.filter (·.needsTransmit)).map (·.segment)
  have houtC : outC = outP ++ [⟨fin, []⟩] := by
    show _ ++ ((u.outgoing.retransmit ++ [Transmit.new ⟨fin, []⟩]).filter (·.needsTransmit)).map (·.segment) = _
    rw [List.filter_append, List.map_append, ← List.append_assoc]
    rfl
  refine ⟨new, markSent u outP.isEmpty, outP, markSent u2 outC.isEmpty, fin, ?_, ?_, ?_, ?_⟩
  · rw [segments_eq, hv]
    dsimp only
    rw [hfp]
    unfold finIfPending
    simp only [Bool.false_eq_true, if_false]
    rfl
  · obtain ⟨m1, m2, m3, m4, m5, m6, m7, m8, _, _⟩ := hmk u outP.isEmpty
    exact {
      flagged := r2
      bytes := r3
      run := r4
      out := by show outP = _; show _ ++ _ = _; rw [r1]; rfl
      rtx := by rw [m1, r1]; rfl
      one := by rw [m2, fx.one]; rfl
      text := by rw [m3, fx.text]; rfl
      nxt := by rw [m4, fx.nxt]; rfl
      rcv := by rw [m5, fx.rcv]; rfl
      inc := by rw [m6, fx.inc]; rfl
      st := by rw [m7, fx.st]; rfl
      una := by rw [m4, fx.una]; rfl
      wnd := by rw [m4, fx.wnd]; rfl
      mtu := by rw [m8, fx.mtu]; rfl }
  · intro hne
    have hfp' : (fw t).finPending = true := by
      rw [finPending_eq]
      show (closing3 .FinWait1 && !t.outgoing.text.isEmpty) = true
      cases h : t.outgoing.text with
      | nil => exact (hne h).elim
      | cons a l => rfl
    rw [segments_eq, hv']
    dsimp only
    rw [hfp']
    unfold finIfPending
    rw [if_pos rfl, hq]
    dsimp only
    show Except.ok (markSent u2 outC.isEmpty, outC) = _
    rw [houtC]
  · obtain ⟨m1, m2, m3, m4, m5, m6, m7, m8, m9, m10⟩ := hmk u outP.isEmpty
    obtain ⟨n1, n2, n3, n4, n5, n6, n7, n8, n9, n10⟩ := hmk u2 outC.isEmpty
    exact {
      st := by rw [n7]
      nxt := by rw [n4, m4]
      una := by rw [n4, m4]
      iss := by rw [n4, m4]
      rcv := by rw [n5, m5]
      inc := by rw [n6, m6]
      text := by rw [n3]; exact hutext
      one := by rw [n2]; show u.outgoing.oneshot = []; rw [fx.one]; rfl
      rtx := by
        rw [n1, m1]
        show (u.outgoing.retransmit ++ [Transmit.new ⟨fin, []⟩]).map _ = _
        rw [List.map_append]
        rfl
      mtu := by rw [n8, m8]
      lp := by rw [n9, m9]
      rp := by rw [n10, m10]
      isfin := by
        rw [m4, m5]
        exact ⟨rfl, rfl, rfl, rfl, rfl, rfl, rfl⟩
      src := by rw [m9]; rfl
      dst := by rw [m10]; rfl }

theorem fw_markSent (u : Tcb) (b : Bool) : markSent (fw u) b = fw (markSent u b) := by
  unfold markSent fw
  cases b <;> rfl

/-- the same while text REMAINS queued after the loop: the closer emits exactly what its ESTABLISHED twin emits, no FIN -/
theorem segments_twin_more (t : Tcb) (hst : t.state = .Established) (hmtu : SPACE_FOR_HEADERS < t.mtu.toNat) :
    ∃ new t1 out, t.segments = .ok (t1, out) ∧ EmitFx t new t1 out ∧
      (t1.outgoing.text ≠ [] → (fw t).segments = .ok (fw t1, out)) := by
  have hok3 : C01.Ok3 t.state := by rw [hst]; trivial
  have hfp : t.finPending = false := C01.Ok3.finPending hok3
  have hm16 := t.mtu.isLt
  obtain ⟨u, e, fx⟩ := segmentize_exact (t.mtu.toNat - SPACE_FOR_HEADERS) (by omega)
    (by show t.mtu.toNat - 50 + 20 ≤ 65535; omega)
    ((clearOneshot t).outgoing.text.length + 1) (clearOneshot t) (clearOneshot t).outgoing.queuedBytes (by omega)
  have hlt : ¬ (clearOneshot t).mtu.toNat < SPACE_FOR_HEADERS := by show ¬ t.mtu.toNat < _; omega
  have hv : segmentizeIfOpen (clearOneshot t) = .ok u := by
    unfold segmentizeIfOpen
    have hs' : (clearOneshot t).state = .Established := hst
    rw [hs']
    dsimp only
    rw [if_neg hlt]
    exact e
  have hv' : segmentizeIfOpen (clearOneshot (fw t)) = .ok (fw u) := by
    unfold segmentizeIfOpen
    have hs' : (clearOneshot (fw t)).state = .FinWait1 := rfl
    rw [hs']
    dsimp only
    have hlt' : ¬ (clearOneshot (fw t)).mtu.toNat < SPACE_FOR_HEADERS := hlt
    rw [if_neg hlt']
    have := segmentize_withState .FinWait1 (t.mtu.toNat - SPACE_FOR_HEADERS) ((clearOneshot t).outgoing.text.length + 1)
      (clearOneshot t) (clearOneshot t).outgoing.queuedBytes
    rw [e] at this
    exact this
  obtain ⟨new, r1, r2, r3, r4⟩ := fx.rtx
  have hmk : ∀ (w : Tcb) b, (markSent w b).outgoing.retransmit = w.outgoing.retransmit.map (fun x => { x with needsTransmit := false }) ∧
      (markSent w b).outgoing.oneshot = w.outgoing.oneshot ∧ (markSent w b).outgoing.text = w.outgoing.text ∧
      (markSent w b).snd = w.snd ∧ (markSent w b).rcv = w.rcv ∧ (markSent w b).incoming = w.incoming ∧
      (markSent w b).state = w.state ∧ (markSent w b).mtu = w.mtu := by
    intro w b; unfold markSent; cases b <;> exact ⟨rfl, rfl, rfl, rfl, rfl, rfl, rfl, rfl⟩
  let outP : List Segment := (t.outgoing.oneshot.map fun h => (⟨h, []⟩ : Segment)) ++
      (u.outgoing.retransmit.filter (·.needsTransmit)).map (·.segment)
  obtain ⟨m1, m2, m3, m4, m5, m6, m7, m8⟩ := hmk u outP.isEmpty
  refine ⟨new, markSent u outP.isEmpty, outP, ?_, ?_, ?_⟩
  · rw [segments_eq, hv]
    dsimp only
    rw [hfp]
    unfold finIfPending
    simp only [Bool.false_eq_true, if_false]
    rfl
  · exact {
      flagged := r2
      bytes := r3
      run := r4
      out := by show outP = _; show _ ++ _ = _; rw [r1]; rfl
      rtx := by rw [m1, r1]; rfl
      one := by rw [m2, fx.one]; rfl
      text := by rw [m3, fx.text]; rfl
      nxt := by rw [m4, fx.nxt]; rfl
      rcv := by rw [m5, fx.rcv]; rfl
      inc := by rw [m6, fx.inc]; rfl
      st := by rw [m7, fx.st]; rfl
      una := by rw [m4, fx.una]; rfl
      wnd := by rw [m4, fx.wnd]; rfl
      mtu := by rw [m8, fx.mtu]; rfl }
  · intro hmore
    rw [m3] at hmore
    have hne : t.outgoing.text ≠ [] := by
      intro h0
      apply hmore
      rw [fx.text]
      show List.drop _ t.outgoing.text = []
      rw [h0]; simp
    have hfp' : (fw t).finPending = true := by
      rw [finPending_eq]
      show (closing3 .FinWait1 && !t.outgoing.text.isEmpty) = true
      cases h : t.outgoing.text with
      | nil => exact (hne h).elim
      | cons a l => rfl
    rw [segments_eq, hv']
    dsimp only
    rw [hfp']
    unfold finIfPending
    rw [if_pos rfl, (Elvis.Tcp.Fin.queueFin_eq (fw u)).1 hmore]
    dsimp only
    show Except.ok (markSent (fw u) outP.isEmpty, outP) = _
    rw [fw_markSent]

end Tcb
end Elvis.Tcp
