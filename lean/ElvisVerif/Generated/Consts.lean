-- GENERATED from /repo sources by tools/extract.py on every check; do not edit
namespace Elvis.Gen
end Elvis.Gen
