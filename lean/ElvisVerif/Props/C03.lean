import ElvisVerif.Model.TcpSys
import ElvisVerif.Spec.Rfc9293
import ElvisVerif.Lemmas.TcbPath
import ElvisVerif.Lemmas.TcbIrs
import ElvisVerif.Lemmas.TcbSeq
import ElvisVerif.Lemmas.TcbClose
import ElvisVerif.Lemmas.TcpSysInv
import ElvisVerif.Props.C17
/-!
# C03 — TCP connections open, synchronise and close as RFC 9293 prescribes

Property theorems only.  Helper lemmas: `Lemmas/TcbEdges.lean` (one lemma per block of
`process_segment`), `Lemmas/TcbPath.lean` (compositions).  The specification side is
`Spec/Rfc9293.lean`: `rfcEdges` (Figure 5 plus the edges the text prescribes) and `rfcCause`
(the same edges labelled with the events that may cause them), written from the RFC.
The model (`Model/Tcb.lean`) follows the code after four `fix:` commits (F-C03-1..4, see
`notes/C03.md`); the witnesses of the repaired defects are kept as `c03_regression_*`.
-/
namespace Elvis.Tcp
namespace C03
open Elvis.Rfc9293

/-! ## helpers for concrete runs -/

def tcbOf (x : SideId) (r : Except String (Sys × List Res)) : Option Tcb :=
  match r with
  | .ok (s, _) => (s.side x).tcb
  | .error _ => none

def stateOf (x : SideId) (r : Except String (Sys × List Res)) : Option State := (tcbOf x r).map (·.state)

/-- the segments returned by the last op when it was an `emit` -/
def lastEmit (r : Except String (Sys × List Res)) : Option (List Segment) :=
  match r with
  | .ok (_, rs) => match rs.getLast? with
    | some (.emitted _ segs) => some segs
    | _ => none
  | .error _ => none

/-- three-way handshake: A opens (ISS 1000), B listens (ISS 5000); history 0 = SYN, 1 = SYN-ACK,
    2 = ACK; both ESTABLISHED -/
def handshake : List Op :=
  [.open .A 1000 1500, .listen .B 5000 1500, .emit .A, .deliver .B 0, .emit .B, .deliver .A 1,
   .emit .A, .deliver .B 2]

/-- simultaneous close after the handshake: history 3 = A's FIN, 4 = B's FIN, 5 = A's ACK of
    B's FIN, 6 = B's ACK of A's FIN; both sides end in TIME-WAIT with nothing in flight -/
def simultaneousClose : List Op :=
  handshake ++ [.close .A, .emit .A, .close .B, .emit .B, .deliver .B 3, .deliver .A 4,
    .emit .A, .emit .B, .deliver .B 5, .deliver .A 6]

example : stateOf .A (Sys.run {} simultaneousClose) = some .TimeWait ∧
    stateOf .B (Sys.run {} simultaneousClose) = some .TimeWait := by decide

/-! ## F-C03-1 (fixed): TIME-WAIT answered any ACK-bearing segment; the exchange never stopped -/

/-- one duplicate of B's last ACK (history 6) reaches A in TIME-WAIT -/
def stormStart : List Op := simultaneousClose ++ [.deliver .A 6, .emit .A]

/-- F-C03-1 (fixed, repo 03eeee69).  Both sides are in TIME-WAIT and the network is empty; a
    duplicate ACK arrives.  Before the repair A answered `ACK(SEG.SEQ+1) = 5003` — an
    acknowledgment of something B never sent —, B (TIME-WAIT) answered that, and after every
    round trip both TCBs were exactly what they had been a round trip earlier, 2·MSL timers
    restarted (this theorem was `c03_timewait_ack_storm_counterexample`, proved by `decide` on the
    model of the unrepaired code in commit 6ee4231).  Now the duplicate changes nothing and
    nothing is sent. -/
theorem c03_regression_timewait_quiet :
    lastEmit (Sys.run {} stormStart) = some [] ∧
    tcbOf .A (Sys.run {} (simultaneousClose ++ [.deliver .A 6])) = tcbOf .A (Sys.run {} simultaneousClose) := by
  decide

/-! ## F-C03-2 (fixed): `close()` numbered the FIN before text that was still unsegmentized -/

/-- A writes three bytes and closes before `segments()` ran -/
def strandOps : List Op := handshake ++ [.write .A [1, 2, 3], .close .A, .emit .A]

/-- F-C03-2 (fixed, repo e2119c13).  Before the repair the FIN took `SND.NXT = 1001`, the three
    bytes stayed in `outgoing.text` of a FIN-WAIT-1 endpoint for ever, the peer went to CLOSE-WAIT
    holding none of them and the connection closed "cleanly"
    (`c03_close_strands_text_counterexample` in commit 6ee4231).  Now FIN-WAIT-1 is entered at once,
    the text is segmentized first and the FIN follows it with sequence number 1004; the peer
    holds the three bytes when it shows FIN received. -/
theorem c03_regression_close_after_text :
    (lastEmit (Sys.run {} strandOps)).map (·.map fun s => (s.hdr.ctl.toNat, s.hdr.seq.toNat, s.text))
      = some [(16, 1001, [1, 2, 3]), (17, 1004, [])] ∧
    (tcbOf .A (Sys.run {} strandOps)).map (fun t => (t.state, t.outgoing.text)) = some (.FinWait1, []) ∧
    (tcbOf .B (Sys.run {} (strandOps ++ [.deliver .B 3, .deliver .B 4]))).map (fun t => (t.state, t.incoming.text))
      = some (.CloseWait, [1, 2, 3]) := by
  decide

/-! ## F-C03-3 (fixed): LAST-ACK did no ACK processing: the queue was never cleaned, the window never reopened -/

/-- B's send window is 2 (the third segment of the handshake advertises it); B writes five
    bytes, two go out; A closes, B goes to CLOSE-WAIT and closes: LAST-ACK with three bytes still
    to be segmentized.  A acknowledges the two bytes (history 5) advertising 65535. -/
def lastAckOps : List Op :=
  [.open .A 1000 1500, .listen .B 5000 1500, .emit .A, .deliver .B 0, .emit .B, .deliver .A 1, .emit .A,
   .inject .B (forge .B 16 1001 5001 2 []), .write .B [1, 2, 3, 4, 5], .emit .B, .close .A, .emit .A,
   .deliver .B 4, .close .B, .deliver .A 3, .emit .A, .emit .B, .deliver .B 5, .emit .B]

/-- F-C03-3 (fixed, repo 815f3de2).  Before the repair an acknowledgment arriving in LAST-ACK
    only overwrote `SND.UNA`: with everything sent acknowledged and the peer advertising 65535,
    B still held the acknowledged two bytes on its retransmission queue, counted them against
    the old window of 2, sent nothing, retransmitted the acknowledged segment at every timeout
    and stayed in LAST-ACK — the peer in FIN-WAIT-2 — for ever
    (`c03_lastack_stall_counterexample`, proved by `decide` in commit eaf6dd5 on the model of the
    code with only the first two repairs).  Now the ACK empties the queue and opens the window,
    the three bytes and the FIN (sequence number 5006) go out, the peer delivers all five bytes
    before it sees the FIN, and B is released by the final ACK. -/
theorem c03_regression_lastack_progress :
    (lastEmit (Sys.run {} lastAckOps)).map (·.map fun s => (s.hdr.ctl.toNat, s.hdr.seq.toNat, s.text))
      = some [(16, 5003, [3, 4, 5]), (17, 5006, [])] ∧
    (tcbOf .A (Sys.run {} (lastAckOps ++ [.deliver .A 6, .deliver .A 7, .deliver .A 8]))).map
      (fun t => (t.state, t.incoming.text)) = some (.TimeWait, [1, 2, 3, 4, 5]) ∧
    stateOf .B (Sys.run {} (lastAckOps ++ [.deliver .A 6, .deliver .A 7, .deliver .A 8, .emit .A,
      .deliver .B 9, .deliver .B 10])) = none := by
  decide

/-! ## F-C03-4 (fixed): SYN-SENT was deleted by a RST that carries no ACK -/

/-- F-C03-4 (fixed).  RFC 9293 3.10.7.3, second: "If the ACK was acceptable, then signal …
    connection reset …, enter CLOSED state, delete TCB, and return.  Otherwise (no ACK), drop the
    segment and return."  The code deleted the TCB for every RST that reached the RST check — an
    old duplicate RST, or a blind one with ANY sequence number, killed a connection attempt
    (`c03_synsent_rst_without_ack_counterexample` in commit d266f20).  Now the segment is dropped
    and the TCB is what it was; a RST with an acceptable ACK still resets the attempt. -/
theorem c03_regression_synsent_rst_without_ack :
    tcbOf .A (Sys.run {} [.open .A 1000 1500, .inject .A (forge .A 4 77777 0 0 [])])
      = tcbOf .A (Sys.run {} [.open .A 1000 1500]) ∧
    stateOf .A (Sys.run {} [.open .A 1000 1500, .inject .A (forge .A 20 0 1001 0 [])]) = none ∧
    rfcCause (.segment false true false false) (some .SynSent) none = false ∧
    rfcCause (.segment true true false false) (some .SynSent) none = true := by
  decide

/-! ## the edge table (finite: by `decide`) -/

/-- all twenty events -/
def allEvents : List Event :=
  [.userOpen, .userClose, .userAbort, .timeWaitTimeout] ++
    (List.range 16).map fun n => .segment (n / 8 % 2 == 1) (n / 4 % 2 == 1) (n / 2 % 2 == 1) (n % 2 == 1)

theorem mem_allEvents (ev : Event) : ev ∈ allEvents := by
  cases ev with
  | segment a r sy f => cases a <;> cases r <;> cases sy <;> cases f <;> decide
  | _ => decide

theorem mem_allStates (a : Option State) : a ∈ allStates := by
  cases a with
  | none => decide
  | some x => cases x <;> decide

/-- **every labelled edge is an edge of Figure 5 (as extended by the text)** -/
theorem c03_table_cause_is_edge (ev : Event) (a b : Option State) (h : rfcCause ev a b = true) :
    rfcEdges a b = true := by
  have key : (allEvents.all fun ev => allStates.all fun a => allStates.all fun b =>
      !rfcCause ev a b || rfcEdges a b) = true := by decide
  rw [List.all_eq_true] at key
  have h1 := key ev (mem_allEvents ev)
  rw [List.all_eq_true] at h1
  have h2 := h1 a (mem_allStates a)
  rw [List.all_eq_true] at h2
  have h3 := h2 b (mem_allStates b)
  rw [h] at h3
  simpa using h3

def evSyn : Event → Bool
  | .segment _ _ syn _ => syn
  | _ => false

def evFin : Event → Bool
  | .segment _ _ _ fin => fin
  | _ => false

/-- **two steps for one event collapse to one edge**, except from SYN-SENT to CLOSE-WAIT, which
    needs a segment with SYN and FIN.  (The RFC prescribes that two-edge path for a SYN,ACK,FIN
    segment: 3.10.7.3 fourth — "If there are other controls or text in the segment, then
    continue processing at the sixth step" — and the eighth step then processes the FIN in
    ESTABLISHED.) -/
theorem c03_table_two_steps (ev : Event) (a m b : State)
    (h1 : rfcStepBy ev (some a) (some m) = true) (h2 : rfcStepBy ev (some m) (some b) = true) :
    rfcStep (some a) (some b) = true ∨
      (a = .SynSent ∧ b = .CloseWait ∧ evSyn ev = true ∧ evFin ev = true) := by
  have key : (allEvents.all fun ev => allStates.tail.all fun a => allStates.tail.all fun m =>
      allStates.tail.all fun b =>
      !(rfcStepBy ev a m && rfcStepBy ev m b) || rfcStep a b ||
        (a == some .SynSent && b == some .CloseWait && evSyn ev && evFin ev)) = true := by decide
  have mem : ∀ x : State, some x ∈ allStates.tail := by intro x; cases x <;> decide
  rw [List.all_eq_true] at key
  have k1 := key ev (mem_allEvents ev)
  rw [List.all_eq_true] at k1
  have k2 := k1 (some a) (mem a)
  rw [List.all_eq_true] at k2
  have k3 := k2 (some m) (mem m)
  rw [List.all_eq_true] at k3
  have k4 := k3 (some b) (mem b)
  rw [h1, h2] at k4
  simp only [Bool.and_self, Bool.not_true, Bool.false_or, Bool.or_eq_true, Bool.and_eq_true,
    beq_iff_eq, Option.some.injEq] at k4
  rcases k4 with k | ⟨⟨⟨k5, k6⟩, k7⟩, k8⟩
  · exact Or.inl k
  · exact Or.inr ⟨k5, k6, k7, k8⟩

/-! ## c03_transitions -/

open Tcb

/-- **One segment.**  For EVERY TCB (any state, any field values) and EVERY segment: if
    `process_segment` returns, the connection state afterwards is the state before, one edge of
    the RFC 9293 diagram away, or CLOSE-WAIT reached from SYN-SENT by the RFC's two-edge path
    (a SYN,FIN segment that completes the handshake); each edge taken is one the RFC allows for
    the control bits of this very segment (`rfcCause`); and when the result makes the caller
    delete the TCB, that is an edge to CLOSED for these control bits. -/
theorem c03_transitions_process_segment (s : Tcb) (segment : Segment) (s' : Tcb) (r : ProcessSegmentResult)
    (e : s.processSegment segment = .ok (s', r)) :
    (rfcStep (some s.state) (some s'.state) = true ∨
      (s.state = .SynSent ∧ s'.state = .CloseWait ∧ segment.hdr.ctl.syn = true ∧ segment.hdr.ctl.fin = true)) ∧
    (∃ mid, rfcStepBy (evOf segment.hdr.ctl) (some s.state) (some mid) = true ∧
            rfcStepBy (evOf segment.hdr.ctl) (some mid) (some s'.state) = true) ∧
    (r.shouldDeleteTcb = true →
      rfcCause (evOf segment.hdr.ctl) (some s'.state) none = true ∧ rfcEdges (some s'.state) none = true) := by
  obtain ⟨mid, h1, h2, hd, _⟩ := processSegment_edges s segment s' r e
  refine ⟨?_, ⟨mid, h1, h2⟩, fun h => ⟨hd h, c03_table_cause_is_edge _ _ _ (hd h)⟩⟩
  rcases c03_table_two_steps _ _ _ _ h1 h2 with h | ⟨ha, hb, hsyn, hfin⟩
  · exact Or.inl h
  · exact Or.inr ⟨ha, hb, hsyn, hfin⟩

/-- the events a call stands for -/
def callEvents (s : Tcb) : Call → Event → Prop
  | .segmentArrives seg, ev => ∃ x ∈ seg :: s.incoming.segments, ev = evOf x.hdr.ctl
  | .advanceTime _, ev => ev = .timeWaitTimeout
  | .close, ev => ev = .userClose
  | _, _ => False

/-- **Every call.**  For every TCB satisfying `TwInv` (the 2·MSL timer runs only in TIME-WAIT —
    an invariant: `c03_transitions_start`, and this theorem preserves it) and EVERY call —
    `segment_arrives` with any segment, `advance_time`, `send`, `receive`, `close`, `abort`,
    `segments` — that returns: the connection state moves along a path of edges of the RFC 9293
    diagram, each caused by an event the call stands for (the control bits of the arriving
    segment or of a segment waiting in the reorder queue; the TIME-WAIT timeout; the user's
    CLOSE), to the new state or — when the caller is told to delete the TCB — to CLOSED.
    `send`, `receive`, `segments` and `abort` (after which the caller deletes the TCB) never
    change the state: for them no event is allowed, so the path is empty. -/
theorem c03_transitions (s : Tcb) (ht : TwInv s) (c : Call) (r : Option Tcb) (e : s.call c = .ok r) :
    Path (callEvents s c) (some s.state) (r.map (·.state)) ∧ (∀ s', r = some s' → TwInv s') := by
  cases c with
  | segmentArrives seg =>
    simp only [Tcb.call] at e
    cases h1 : s.segmentArrives seg with
    | error err => rw [h1] at e; simp at e
    | ok p =>
      obtain ⟨s1, r1⟩ := p
      rw [h1] at e
      obtain ⟨pth, tw⟩ := segmentArrives_path s seg s1 r1 h1
      cases r1 with
      | Ok =>
        simp only [Except.ok.injEq] at e; subst e
        exact ⟨pth, fun s' hs => by cases hs; exact tw ht rfl⟩
      | Close =>
        simp only [Except.ok.injEq] at e; subst e
        exact ⟨pth, fun s' hs => by simp at hs⟩
  | advanceTime ms =>
    simp only [Tcb.call] at e
    cases h1 : s.advanceTime ms with
    | error err => rw [h1] at e; simp at e
    | ok p =>
      obtain ⟨s1, r1⟩ := p
      rw [h1] at e
      obtain ⟨hst, tw, hclose⟩ := advanceTime_edges s ms s1 r1 h1
      cases r1 with
      | Ignore =>
        simp only [Except.ok.injEq] at e; subst e
        simp only [Option.map_some]
        rw [hst]
        exact ⟨.refl _, fun s' hs => by cases hs; exact tw ht⟩
      | CloseConnection =>
        simp only [Except.ok.injEq] at e; subst e
        exact ⟨.tail (.refl _) (by simp [callEvents]) (hclose rfl ht), fun s' hs => by simp at hs⟩
  | send bytes =>
    simp only [Tcb.call, Except.ok.injEq] at e; subst e
    have k := send_keep s bytes
    simp only [Option.map_some]; rw [k.state]
    exact ⟨.refl _, fun s' hs => by cases hs; exact k.twInv ht⟩
  | receive =>
    simp only [Tcb.call, Except.ok.injEq] at e; subst e
    have k := receive_keep s
    simp only [Option.map_some]; rw [k.state]
    exact ⟨.refl _, fun s' hs => by cases hs; exact k.twInv ht⟩
  | close =>
    simp only [Tcb.call] at e
    cases h1 : s.close with
    | error err => rw [h1] at e; simp at e
    | ok p =>
      obtain ⟨s1, r1⟩ := p
      rw [h1] at e
      simp only [Except.ok.injEq] at e; subst e
      obtain ⟨st, tw⟩ := close_edges s s1 r1 h1
      exact ⟨Path.of_step (S := callEvents s .close) (by simp [callEvents]) st,
        fun s' hs => by cases hs; exact tw ht⟩
  | abort =>
    simp only [Tcb.call] at e
    cases h1 : s.abort with
    | error err => rw [h1] at e; simp at e
    | ok s1 =>
      rw [h1] at e
      simp only [Except.ok.injEq] at e; subst e
      have k := abort_keep s s1 h1
      simp only [Option.map_some]; rw [k.state]
      exact ⟨.refl _, fun s' hs => by cases hs; exact k.twInv ht⟩
  | segments =>
    simp only [Tcb.call] at e
    cases h1 : s.segments with
    | error err => rw [h1] at e; simp at e
    | ok p =>
      obtain ⟨s1, out⟩ := p
      rw [h1] at e
      simp only [Except.ok.injEq] at e; subst e
      have k := segments_keep s s1 out h1
      simp only [Option.map_some]; rw [k.state]
      exact ⟨.refl _, fun s' hs => by cases hs; exact k.twInv ht⟩

/-- a path of edges of `rfcEdges` (Figure 5 as extended by the text), unlabelled -/
inductive EdgePath : Option State → Option State → Prop
  | refl (a : Option State) : EdgePath a a
  | tail {a b c : Option State} : EdgePath a b → rfcEdges b c = true → EdgePath a c

/-- every hop of a labelled path is an edge of the diagram: what `c03_transitions` says in terms
    of `rfcEdges` alone -/
theorem c03_transitions_unlabelled {S : Event → Prop} {a b : Option State} (p : Path S a b) :
    EdgePath a b := by
  induction p with
  | refl => exact .refl _
  | tail _ _ hc ih => exact .tail ih (c03_table_cause_is_edge _ _ _ hc)

/-- `P` holds for every call along the run (`none` = the TCB was deleted) -/
def walks (P : Tcb → Call → Option Tcb → Prop) : Option Tcb → List Call → Prop
  | none, _ => True
  | some _, [] => True
  | some s, c :: cs => ∀ r, s.call c = .ok r → P s c r ∧ walks P r cs

/-- **All runs.**  From a TCB satisfying `TwInv` (in particular from `open` and from LISTEN,
    `c03_transitions_start`), along EVERY finite sequence of calls — any segments, any API calls
    in any order — every single call moves the connection state along a path of RFC 9293 edges
    caused by the events that call stands for (induction over the sequence). -/
theorem c03_transitions_run (s : Tcb) (ht : TwInv s) (cs : List Call) :
    walks (fun s c r => Path (callEvents s c) (some s.state) (r.map (·.state))) (some s) cs := by
  induction cs generalizing s with
  | nil => trivial
  | cons c cs ih =>
    intro r e
    obtain ⟨p, tw⟩ := c03_transitions s ht c r e
    refine ⟨p, ?_⟩
    cases r with
    | none => cases cs <;> trivial
    | some s' => exact ih s' (tw s' rfl)

/-- **Both ways a TCB comes into existence** are edges out of CLOSED / LISTEN and establish
    `TwInv`: the active OPEN creates SYN-SENT; in LISTEN only a segment with SYN and without RST
    and ACK creates a TCB, in SYN-RECEIVED. -/
theorem c03_transitions_start :
    (∀ lp rp iss mtu s, Tcb.open lp rp iss mtu = .ok s →
      rfcCause .userOpen none (some s.state) = true ∧ TwInv s) ∧
    (∀ seg iss mtu tcb, segmentArrivesListen seg iss mtu = .ok (some (.Tcb tcb)) →
      rfcCause (evOf seg.hdr.ctl) none (some tcb.state) = true ∧ TwInv tcb) := by
  constructor
  · intro lp rp iss mtu s e
    unfold Tcb.open at e
    dsimp only at e
    rw [enqueue_eq] at e
    cases e
    refine ⟨by rw [state_enqueueBuilt]; rfl, ?_⟩
    intro h
    rw [(enqueueBuilt_frame _ _).2.2.2.2.2.1] at h
    simp at h
  · intro seg iss mtu tcb e
    unfold segmentArrivesListen at e
    dsimp only at e
    split at e
    · simp at e
    · rename_i hrst
      split at e
      · cases hb : (Hdr.builder seg.hdr.dstPort seg.hdr.srcPort seg.hdr.ack).withRst.build 0 <;>
          simp [hb] at e
      · rename_i hack
        split at e
        · rename_i hsyn
          rw [enqueue_eq] at e
          dsimp only at e
          simp only [Except.ok.injEq, Option.some.injEq, ListenResult.Tcb.injEq] at e
          subst e
          refine ⟨?_, ?_⟩
          · simp only [state_enqueueBuilt]
            simp [rfcCause, evOf, hsyn, hrst, hack]
          · intro h
            simp only [(enqueueBuilt_frame _ _).2.2.2.2.2.1] at h
            simp at h
        · simp at e

/-! ## old duplicate SYNs never change IRS -/

/-- **Old duplicate SYN.**  Once the peer's SYN has been accepted (every state but SYN-SENT, so
    in particular every synchronised state) NO segment — any control bits, any sequence and
    acknowledgment numbers, e.g. a SYN of an earlier incarnation with a different ISN taken from
    the history — changes `RCV.IRS`, and the endpoint never returns to SYN-SENT. -/
theorem c03_old_duplicate_syn (s : Tcb) (seg : Segment) (h : s.state ≠ .SynSent) (s' : Tcb)
    (e : s.segmentArrives seg = .ok (s', .Ok)) : s'.rcv.irs = s.rcv.irs ∧ s'.state ≠ .SynSent :=
  let k := segmentArrives_irs s seg h s' e
  ⟨k.irs, k.notSynSent⟩

/-- one call of any kind keeps IRS outside SYN-SENT -/
theorem c03_irs_stable (s : Tcb) (hw : Wf s) (h : s.state ≠ .SynSent) (c : Call) (s' : Tcb)
    (e : s.call c = .ok (some s')) : s'.rcv.irs = s.rcv.irs ∧ s'.state ≠ .SynSent := by
  have same : ∀ t : Tcb, Same s t → t.state = s.state → t.rcv.irs = s.rcv.irs ∧ t.state ≠ .SynSent :=
    fun t sm st => ⟨by rw [sm.rcv], by rw [st]; exact h⟩
  cases c with
  | segmentArrives seg =>
    simp only [Tcb.call] at e
    cases h1 : s.segmentArrives seg with
    | error err => rw [h1] at e; simp at e
    | ok p =>
      obtain ⟨s1, r1⟩ := p
      rw [h1] at e
      cases r1 with
      | Ok => simp at e; subst e; exact c03_old_duplicate_syn s seg h _ h1
      | Close => simp at e
  | advanceTime ms =>
    simp only [Tcb.call] at e
    obtain ⟨s1, r1, e1, same1, st1⟩ := advanceTime_spec s ms
    rw [e1] at e
    cases r1 with
    | Ignore => simp at e; subst e; exact same _ same1 st1
    | CloseConnection => simp at e
  | send bytes =>
    simp only [Tcb.call, Except.ok.injEq, Option.some.injEq] at e; subst e
    exact same _ (send_same s bytes).1 (send_same s bytes).2
  | receive =>
    simp only [Tcb.call, Except.ok.injEq, Option.some.injEq] at e; subst e
    refine ⟨?_, by rw [(receive_rx s).2]; exact h⟩
    unfold receive; split <;> rfl
  | close =>
    simp only [Tcb.call] at e
    obtain ⟨s1, r1, e1, same1, st1⟩ := close_spec s
    rw [e1] at e
    simp at e; subst e
    exact ⟨by rw [same1.rcv], fun hx => h (st1 hx)⟩
  | abort =>
    simp only [Tcb.call] at e
    obtain ⟨s1, e1, same1, st1⟩ := abort_spec s
    rw [e1] at e
    simp at e; subst e
    exact same _ same1 st1
  | segments =>
    simp only [Tcb.call] at e
    obtain ⟨s1, out, e1, same1, st1⟩ := segments_spec s hw
    rw [e1] at e
    simp at e; subst e
    exact same _ same1 st1

/-- **IRS along all runs**: from a well-formed TCB that has left SYN-SENT, along every finite
    sequence of valid calls (any segments: old duplicates, forged ones, any API call), `RCV.IRS`
    never changes -/
theorem c03_irs_stable_run (s : Tcb) (hw : Wf s) (hi : HeapIdle s) (h : s.state ≠ .SynSent)
    (cs : List Call) (hcs : ∀ c ∈ cs, c.Valid) :
    walks (fun s0 _ r => ∀ s', r = some s' → s'.rcv.irs = s0.rcv.irs) (some s) cs := by
  induction cs generalizing s with
  | nil => trivial
  | cons c cs ih =>
    intro r e
    cases r with
    | none => exact ⟨fun s' hs => by simp at hs, by cases cs <;> trivial⟩
    | some s1 =>
      obtain ⟨k1, k2⟩ := c03_irs_stable s hw h c s1 e
      obtain ⟨r', e', wf'⟩ := c17_total s hw hi c (hcs c (by simp))
      rw [e] at e'
      cases e'
      obtain ⟨wf1, idle1⟩ := wf' s1 rfl
      exact ⟨fun s' hs => by cases hs; exact k1, ih s1 wf1 idle1 k2 (fun c hc => hcs c (by simp [hc]))⟩

/-! ## synchronisation: RCV.NXT never passes what the peer has sent -/

/-- **The receive half, single endpoint** (every state, every segment).  Let `base` be the
    peer's ISS and `base + N` its `SND.NXT` (`N < 2^31`).  If the arriving segment and every
    segment waiting in the reorder queue occupy sequence numbers below `base + N` only (a SYN
    sits at `base`) — which is what "the peer has sent" means —, then after `segment_arrives`
    `RCV.NXT` is at most `N` ahead of `base`, it has not moved backwards, SYN-SENT has not been
    re-entered, and what is still parked is still below.  No hypothesis on flags, acknowledgment
    numbers, windows, order, duplication or loss. -/
theorem c03_synchronised_receive (s : Tcb) (segment : Segment) (s' : Tcb)
    (e : s.segmentArrives segment = .ok (s', .Ok))
    (base : Seq) (N : Nat) (hN : N < 2147483648)
    (hb : s.state ≠ .SynSent → off base s.rcv.nxt ≤ N)
    (hseg : SegBelow base N segment) (hh : ∀ σ ∈ s.incoming.segments, SegBelow base N σ) :
    (s'.state ≠ .SynSent → off base s'.rcv.nxt ≤ N) ∧
    (s.state ≠ .SynSent → off base s.rcv.nxt ≤ off base s'.rcv.nxt ∧ s'.state ≠ .SynSent) ∧
    (∀ σ ∈ s'.incoming.segments, SegBelow base N σ) := by
  obtain ⟨t, hh'⟩ := segmentArrives_rcv s segment s' e base N hN hb hseg hh
  exact ⟨t.below, fun h => ⟨t.mono h, t.notBack h⟩, hh'⟩

/-- the hypotheses are satisfiable and the statement is not vacuous: the handshake of
    `handshake`, B's SYN-ACK (sequence number 5000 = `base`, one sequence number) arriving at A in
    SYN-SENT with `N = 1`: afterwards `RCV.NXT_A = 5001 = base + 1` -/
example : ∃ s s' : Tcb, ∃ seg : Segment, s.segmentArrives seg = .ok (s', .Ok) ∧
    SegBelow (5000#32) 1 seg ∧ s'.state = .Established ∧ off (5000#32) s'.rcv.nxt = 1 := by
  refine ⟨{ localPort := 0xcafe#16, remotePort := 0xdead#16, mtu := 1500#16, initiation := .Open,
            state := .SynSent, snd := { iss := 1000#32, una := 1000#32, nxt := 1001#32 }, rcv := {} },
          _, forge .A 18 5000 1001 65535 [], rfl, ⟨fun _ => rfl, fun _ => by decide⟩, by decide, by decide⟩

/-- **Synchronisation in the closed two-endpoint system** (`Model/TcpSys.lean`).  Start with an
    active open by A and either a passive open (listen binding) or an active open by B — any
    ISNs, any MTUs.  Then run ANY finite sequence of writes, reads, timer ticks, `segments()`
    calls, closes and deliveries of ANY element of the history of everything ever emitted to the
    side it is addressed to (`Op.Clean`: loss = never delivering, duplication = delivering
    again, reordering / delay = any order, at any later time; LISTEN and CLOSED replies included),
    such that before every step both endpoints have used and queued fewer than 2^31 sequence
    numbers (`RoomOk`, the segment-lifetime assumption H31 of C01).  Whenever both TCBs exist and
    the receiving one has left SYN-SENT — in particular whenever both are synchronised —:

      `RCV.NXT_peer =< SND.NXT_x` for `x` = A and `x` = B,

    in offsets from `ISS_x` (both below 2^31) and therefore also in the code's circular order
    (`mod_gt(RCV.NXT_peer, SND.NXT_x)` is false): no endpoint ever expects a sequence number the
    other has not sent.  Proved by the invariant `Inv` of `Lemmas/TcpSysInv.lean` over `Sys.step`
    (send half `Lemmas/TcbSnd.lean`, receive half `Lemmas/TcbSeq.lean`).

    `_partial`: the other two clauses of the synchronisation property — `SND.UNA_x =< RCV.NXT_peer`
    and `RCV.NXT_peer = SND.NXT_x` once everything emitted has been delivered — are not proved;
    they are evaluated by the native oracle on the real code after every op and at quiescence
    (`synchronised …` idents).  `abort`, `drop`, re-`open` and forged segments are outside
    `Op.Clean` (a second incarnation reuses old sequence space; see `c03_old_duplicate_syn` for
    what an old SYN can and cannot do). -/
theorem c03_synchronised_partial (ia ib : Seq) (ma mb : U16) (simultaneous : Bool) (sys0 sys : Sys)
    (rs : List Res)
    (h0 : Sys.run {} [.open .A ia ma, if simultaneous then .open .B ib mb else .listen .B ib mb] = .ok (sys0, rs))
    (hrun : CleanRun sys0 sys) (hroom : RoomOk sys) (x : SideId) (t u : Tcb)
    (ht : (sys.side x).tcb = some t) (hu : (sys.side x.peer).tcb = some u) (hs : u.state ≠ .SynSent) :
    off t.snd.iss u.rcv.nxt ≤ off t.snd.iss t.snd.nxt ∧ off t.snd.iss t.snd.nxt < 2147483648 ∧
      ModCmp.modGt u.rcv.nxt t.snd.nxt = false := by
  have hi0 : Inv sys0 := by
    cases simultaneous with
    | true => exact inv_init_simultaneous ia ib ma mb sys0 rs h0
    | false => exact inv_init_active_passive ia ib ma mb sys0 rs h0
  exact inv_rcv_le_snd sys (inv_run hi0 hrun) hroom x t u ht hu hs

/-- a concrete clean run: handshake, three bytes from A to B, A's close, everything delivered -/
def exampleRun : Bool :=
  match Sys.run {} [.open .A 1000 1500, .listen .B 5000 1500] with
  | .ok (sys0, _) =>
    match cleanRunB sys0 [.emit .A, .deliver .B 0, .emit .B, .deliver .A 1, .write .A [1, 2, 3],
        .close .A, .emit .A, .deliver .B 2, .deliver .B 3, .deliver .B 4] with
    | some sys =>
      roomB sys && (match sys.a.tcb, sys.b.tcb with
        | some t, some u => u.state == .CloseWait && u.rcv.nxt == t.snd.nxt && t.snd.nxt == 1005#32
        | _, _ => false)
    | none => false
  | .error _ => false

/-- the statement is not vacuous: the run above is clean with room at every step (checked by the
    executable `cleanRunB`, sound by `cleanRunB_sound`); B ends in CLOSE-WAIT with
    `RCV.NXT_B = SND.NXT_A = 1005` (SYN + 3 bytes + FIN) -/
example : ∃ sys0 sys : Sys, ∃ rs : List Res,
    Sys.run {} [.open .A 1000 1500, .listen .B 5000 1500] = .ok (sys0, rs) ∧ CleanRun sys0 sys ∧ RoomOk sys ∧
    ∃ t u, sys.a.tcb = some t ∧ sys.b.tcb = some u ∧ u.state = .CloseWait ∧ u.rcv.nxt = t.snd.nxt ∧
      t.snd.nxt = 1005#32 := by
  have key : exampleRun = true := by decide
  unfold exampleRun at key
  split at key
  · rename_i sys0 rs e0
    split at key
    · rename_i sys e1
      simp only [Bool.and_eq_true] at key
      obtain ⟨hr, hk⟩ := key
      split at hk
      · rename_i t u ht hu
        simp only [Bool.and_eq_true, beq_iff_eq] at hk
        exact ⟨sys0, sys, rs, e0, cleanRunB_sound _ _ _ e1, roomB_sound _ hr, t, u, ht, hu, hk.1.1, hk.1.2, hk.2⟩
      · simp at hk
    · simp at key
  · simp at key

/-! ## the FIN follows the data; release -/

/-- **FIN after data, sender side** (full strength for `close` and `segments`, the only two
    places a FIN is formed).  (1) `close` with text still queued forms no FIN and changes nothing
    but the state.  (2) Whenever `close` or `segments` puts a FIN on the retransmission queue that
    was not there before, it carries no text, its sequence number is the last one used
    (`SND.NXT − 1` afterwards) and no text is left queued: every byte handed to `send` before
    `close` has been given a sequence number below the FIN's.  (Before the repair of F-C03-2 the
    FIN was numbered at once: `c03_regression_close_after_text`.)

    `_partial`: that the PEER delivers every sequence number below its `RCV.NXT` to its
    application in order, so that it holds all the data when its state shows FIN received, is
    C01's stream theorem (not restated here); the native oracle `eof-before-data` evaluates the
    whole clause on the real code whenever an endpoint first shows FIN received. -/
theorem c03_fin_after_data_partial :
    (∀ (s s' : Tcb) (r : CloseResult), s.close = .ok (s', r) → s.outgoing.text ≠ [] →
      s'.outgoing.retransmit = s.outgoing.retransmit ∧ s'.snd.nxt = s.snd.nxt ∧
        s'.outgoing.text = s.outgoing.text) ∧
    (∀ (s s' : Tcb) (r : CloseResult), s.close = .ok (s', r) → ∀ t ∈ s'.outgoing.retransmit, t.segment.hdr.ctl.fin = true →
      t ∈ s.outgoing.retransmit ∨
        (t.segment.text = [] ∧ t.segment.hdr.seq + 1 = s'.snd.nxt ∧ s'.outgoing.text = [])) ∧
    (∀ (s s' : Tcb) (out : List Segment), s.segments = .ok (s', out) → ∀ t ∈ s'.outgoing.retransmit, t.segment.hdr.ctl.fin = true →
      (∃ t0 ∈ s.outgoing.retransmit, t0.segment = t.segment) ∨
        (t.segment.text = [] ∧ t.segment.hdr.seq + 1 = s'.snd.nxt ∧ s'.outgoing.text = [])) := by
  have cl : ∀ (s0 s' : Tcb), s0.queueFin = .ok s' →
      (s0.outgoing.text ≠ [] → s'.outgoing.retransmit = s0.outgoing.retransmit ∧ s'.snd.nxt = s0.snd.nxt ∧
        s'.outgoing.text = s0.outgoing.text) ∧
      (∀ t ∈ s'.outgoing.retransmit, t.segment.hdr.ctl.fin = true → t ∈ s0.outgoing.retransmit ∨
        (t.segment.text = [] ∧ t.segment.hdr.seq + 1 = s'.snd.nxt ∧ s'.outgoing.text = [])) := by
    intro s0 s' e
    rcases queueFin_forms _ _ e with ⟨_, rfl⟩ | ⟨ht, hn, ht', hr, hs, _⟩
    · exact ⟨fun _ => ⟨rfl, rfl, rfl⟩, fun t h _ => Or.inl h⟩
    · refine ⟨fun h => absurd ht h, fun t h _ => ?_⟩
      rw [hr] at h
      rcases List.mem_append.1 h with h | h
      · exact Or.inl h
      · simp only [List.mem_singleton] at h
        subst h
        exact Or.inr ⟨rfl, by rw [hn]; exact congrArg (· + 1) hs, ht'⟩
  refine ⟨?_, ?_, fun s s' out e => segments_fin_last s s' out e⟩
  · intro s s' r e hne
    unfold close at e
    split at e
    all_goals first
      | (cases e; exact ⟨rfl, rfl, rfl⟩)
      | (split at e
         · simp at e
         · rename_i t h1
           cases e
           exact (cl _ _ h1).1 hne)
  · intro s s' r e t ht hfin
    unfold close at e
    split at e
    all_goals first
      | (cases e; exact Or.inl ht)
      | (split at e
         · simp at e
         · rename_i t1 h1
           cases e
           exact (cl _ _ h1).2 t ht hfin)

/-- the total time advanced by a list of calls -/
def ticks : List Call → Nat
  | [] => 0
  | .advanceTime ms :: cs => ms + ticks cs
  | _ :: cs => ticks cs

/-- no segment arrives, and the application does not `abort` -/
def quietCall : Call → Prop
  | .segmentArrives _ => False
  | .abort => False
  | _ => True

/-- **Release** (building blocks, each at full strength for a single endpoint):

    1. LAST-ACK with its FIN formed and outstanding: an acceptable segment whose ACK acknowledges
       everything (`SEG.ACK = SND.NXT`) makes `process_segment` return `FinalizeClose` — the
       TCB is deleted by the final ACK.
    2. TIME-WAIT: a segment with neither FIN nor RST leaves the state and the running 2·MSL
       timer alone (before the repair of F-C03-1 every ACK restarted it).
    3. TIME-WAIT left alone (any sequence of `advance_time`, `send`, `receive`, `close`, `segments`)
       is deleted as soon as more virtual time than is left on the timer — at most 2·MSL — has
       passed.

    `_partial`: the closed two-endpoint statement "once both sides closed and delivery is fair,
    both TCBs are deleted within 2·MSL + RTO" is a liveness property of the whole system; it is
    evaluated on the real code by the release oracle of the harness after every schedule
    (`not-released …`, `no-quiescence`, `not-silent`), not proved. -/
theorem c03_release_partial :
    (∀ (s : Tcb) (segment : Segment), s.state = .LastAck → s.outgoing.text = [] →
      0 < (s.snd.nxt - s.snd.una).toNat → (s.snd.nxt - s.snd.una).toNat < 2147483648 →
      s.isSeqOk (BitVec.ofNat 32 segment.text.length) segment.hdr.seq segment.hdr.ctl.syn
        segment.hdr.ctl.fin = .ok true →
      segment.hdr.ctl.ack = true → segment.hdr.ack = s.snd.nxt →
      ∃ s', s.processSegment segment = .ok (s', .FinalizeClose)) ∧
    (∀ (s : Tcb) (segment : Segment) s' r, s.state = .TimeWait → segment.hdr.ctl.fin = false →
      segment.hdr.ctl.rst = false → s.processSegment segment = .ok (s', r) →
      s'.state = .TimeWait ∧ s'.timeouts.timeWait = s.timeouts.timeWait ∧ r.shouldDeleteTcb = false) ∧
    (∀ (s : Tcb) (tw : Nat) (cs : List Call), Wf s → s.state = .TimeWait →
      s.timeouts.timeWait = some tw → (∀ c ∈ cs, quietCall c) → tw < ticks cs →
      Tcb.run (some s) cs = .ok none) := by
  refine ⟨processSegment_lastAck_release, ?_, ?_⟩
  · intro s segment s' r hst hfin hrst e
    obtain ⟨k, hr⟩ := processSegment_timeWait_quiet s segment hst hfin hrst s' r e
    exact ⟨k.state.trans hst, k.tw, hr⟩
  · intro s tw cs
    induction cs generalizing s tw with
    | nil => intro _ _ _ _ h; simp [ticks] at h
    | cons c cs ih =>
      intro hw hst htw hq hsum
      have hi : HeapIdle s := fun h => by rw [hst] at h; simp at h
      have hqc := hq c (by simp)
      have hq' : ∀ c ∈ cs, quietCall c := fun c hc => hq c (by simp [hc])
      -- a call that keeps state and timer
      have keep : ∀ s1 : Tcb, c.Valid → s.call c = .ok (some s1) → Keep s s1 → ticks (c :: cs) = ticks cs →
          Tcb.run (some s) (c :: cs) = .ok none := by
        intro s1 hv e k ht
        obtain ⟨r', e', wf'⟩ := c17_total s hw hi c hv
        rw [e] at e'; cases e'
        simp only [Tcb.run, e]
        exact ih s1 tw (wf' s1 rfl).1 (k.state.trans hst) (k.tw.trans htw) hq' (by rw [← ht]; exact hsum)
      cases c with
      | segmentArrives seg => exact absurd hqc (by simp [quietCall])
      | abort => exact absurd hqc (by simp [quietCall])
      | advanceTime ms =>
        obtain ⟨hdel, hkeep⟩ := advanceTime_timeWait s ms tw htw
        by_cases h : tw < ms
        · obtain ⟨s1, e1⟩ := hdel h
          simp only [Tcb.run, Tcb.call, e1]
        · obtain ⟨s1, e1, st1, tw1⟩ := hkeep (by omega)
          obtain ⟨r', e', wf'⟩ := c17_total s hw hi (.advanceTime ms) trivial
          simp only [Tcb.call, e1] at e'
          cases e'
          simp only [Tcb.run, Tcb.call, e1]
          exact ih s1 (tw - ms) (wf' s1 rfl).1 (st1.trans hst) tw1 hq'
            (by simp only [ticks] at hsum; omega)
      | send bytes => exact keep _ trivial rfl (send_keep s bytes) rfl
      | receive => exact keep _ trivial rfl (receive_keep s) rfl
      | close =>
        have e : s.close = .ok (s, .ConnectionClosing) := by unfold close; rw [hst]
        exact keep s trivial (by simp only [Tcb.call, e]) (Keep.refl _) rfl
      | segments =>
        obtain ⟨s1, out, e1, _, _⟩ := segments_spec s hw
        exact keep s1 trivial (by simp only [Tcb.call, e1]) (segments_keep s s1 out e1) rfl

end C03
end Elvis.Tcp
