import ElvisVerif.Lemmas.TcpFullUna
/-!
# A delivery that fills a gap, at system level

`er_of_good`: in a state satisfying all invariants, an ESTABLISHED endpoint whose peer is ESTABLISHED and whose receive
buffer has room for everything up to the peer's `SND.NXT` satisfies `ER` (`Lemmas/TcpFullEst.lean`).
`nice_of_hist`: a history element of the peer without SYN is `Nice`.  `deliver_gap`: the delivery, evaluated by
`arrive_est`.
-/
namespace Elvis.Tcp.Full
open Elvis.ModCmp Elvis.Tcp.Tcb

variable {iss : SideId → Seq} {mt : SideId → U16}

theorem er_of_good {s : Sys} (hg : Good iss s) (hf : FInv iss mt s) (y : SideId) (ty tx : Tcb)
    (hty : (s.side y).tcb = some ty) (htx : (s.side y.peer).tcb = some tx)
    (sty : ty.state = .Established) (stx : tx.state = .Established)
    (hroom : ty.incoming.text.length + (tx.sent - off (iss y.peer) ty.rcv.nxt) ≤ 65535) :
    ER (iss y) ty.sent (iss y.peer) tx.sent ty := by
  have hxx : (s.side y.peer.peer).tcb = some ty := by rw [SideId.peer_peer]; exact hty
  have sqX := squeeze_facts hg y.peer tx ty htx hxx sty
  have sqY := squeeze_facts hg y ty tx hty htx stx
  have hissX := hg.iss_eq y.peer tx htx
  have ftY := hf.tcb y ty hty
  have hA := hg.conv.full.ack y
  unfold AckLink at hA
  rw [hty, htx] at hA
  have hnsx : tx.state ≠ .SynSent := by rw [stx]; simp
  have htop : top ty.snd.iss tx = off (iss y) tx.rcv.nxt := by rw [top_of_ne hnsx, hg.iss_eq y ty hty]
  have hsentX := hg.sent_lt y.peer tx htx
  refine ⟨⟨sty, hg.wnd y ty hty, hg.iss_eq y ty hty, rfl, ?_, sqX.2, hroom⟩, ftY.hk, ?_, ftY.ahead sty⟩
  · have := una_le_sent_of_conv hg.conv y ty hty
    rw [hg.iss_eq y ty hty] at this
    exact this
  · intro g hg'
    have hv := (hg.tinv y ty hty).heap g hg'
    have hah := ftY.ahead sty g hg'
    have hsq := hf.heapSeq y.peer tx ty htx hxx g hg'
    refine ⟨(hg.conv.nr.tcb y ty hty).heap g hg', ?_, hv.fin, fun hab => ?_, ?_, hsq, fun hne => ?_⟩
    · cases hsyn : g.hdr.ctl.syn with
      | false => rfl
      | true =>
        exfalso
        have := (hv.syn hsyn).1
        rw [this, off_self] at hah
        omega
    · have := hA.heap ty tx rfl rfl g hg' hab
      rw [htop, hg.iss_eq y ty hty] at this
      exact ⟨this.1, by omega⟩
    · have := (wf_of_sysWf hg.ext.wf y ty hty).heap_text g hg'
      have : MAX_PAYLOAD = 65515 := rfl
      omega
    · have hb := ((hg.conv.full.inv.link y.peer).rcv tx ty htx hxx).2 g hg'
      have hpos : 0 < g.segLen := by
        unfold Segment.segLen
        have := List.length_pos_iff.2 hne
        omega
      have := hb.len hpos
      unfold Segment.segLen at this
      rw [hissX] at this
      omega

/-- a history element of the peer that carries text (hence no SYN) is nice -/
theorem nice_of_hist {s : Sys} (hg : Good iss s) (hf : FInv iss mt s) (y : SideId) (ty tx : Tcb)
    (hty : (s.side y).tcb = some ty) (htx : (s.side y.peer).tcb = some tx) (stx : tx.state = .Established)
    (σ : Segment) (hmem : σ ∈ s.history) (hsrc : σ.hdr.srcPort = y.peer.port) (hsyn : σ.hdr.ctl.syn = false) :
    Nice (iss y) ty.sent (iss y.peer) tx.sent σ := by
  have hval : C01.Valid (iss y.peer) (s.side y.peer).submitted σ := hg.conv.c01.hist σ hmem y.peer hsrc
  have sqY := squeeze_facts hg y ty tx hty htx stx
  have hissX := hg.iss_eq y.peer tx htx
  have hA := hg.conv.full.ack y
  unfold AckLink at hA
  rw [hty, htx] at hA
  have hnsx : tx.state ≠ .SynSent := by rw [stx]; simp
  have htop : top ty.snd.iss tx = off (iss y) tx.rcv.nxt := by rw [top_of_ne hnsx, hg.iss_eq y ty hty]
  refine ⟨hg.conv.nr.hist σ hmem, hsyn, hval.fin, fun hab => ?_, ?_, hf.seq y.peer tx htx σ hmem hsrc, fun hne => ?_⟩
  · have := hA.hist ty tx rfl rfl σ hmem hsrc hab
    rw [htop, hg.iss_eq y ty hty] at this
    exact ⟨this.1, by omega⟩
  · have := hg.ext.wf.hist σ hmem
    have : MAX_PAYLOAD = 65515 := rfl
    omega
  · have hb := (hg.conv.full.inv.link y.peer).hist tx htx σ hmem hsrc
    have hpos : 0 < σ.segLen := by
      unfold Segment.segLen
      have := List.length_pos_iff.2 hne
      omega
    have := hb.len hpos
    unfold Segment.segLen at this
    rw [hissX] at this
    omega

/-- **a delivery to an ESTABLISHED endpoint with any reorder heap** (peer ESTABLISHED, room in the buffer) -/
theorem deliver_gap {s : Sys} (hg : Good iss s) (hf : FInv iss mt s) (y : SideId) (ty tx : Tcb)
    (hty : (s.side y).tcb = some ty) (htx : (s.side y.peer).tcb = some tx)
    (sty : ty.state = .Established) (stx : tx.state = .Established)
    (hroom : ty.incoming.text.length + (tx.sent - off (iss y.peer) ty.rcv.nxt) ≤ 65535)
    (i : Nat) (σ : Segment) (hn : s.nth i = some σ) (hsrc : σ.hdr.srcPort = y.peer.port) (hsyn : σ.hdr.ctl.syn = false) :
    ∃ ty', s.step (.deliver y i) = .ok (s.setSide y { s.side y with tcb := some ty' }, .arrived .Ok) ∧
      ER (iss y) ty.sent (iss y.peer) tx.sent ty' ∧ EK (iss y) (iss y.peer) ty ty' ∧
      (∀ g ∈ ty'.incoming.segments, g = σ ∨ g ∈ ty.incoming.segments) ∧
      (σ.text ≠ [] → off (iss y.peer) σ.hdr.seq ≤ off (iss y.peer) ty.rcv.nxt →
        off (iss y.peer) σ.hdr.seq + σ.text.length ≤ off (iss y.peer) ty'.rcv.nxt ∧ LastAck ty') := by
  have hmem : σ ∈ s.history := nth_mem s i σ hn
  have er := er_of_good hg hf y ty tx hty htx sty stx hroom
  have ng := nice_of_hist hg hf y ty tx hty htx stx σ hmem hsrc hsyn
  obtain ⟨ty', e1, er', k', hs', prog'⟩ := arrive_est (hg.sent_lt y ty hty) (hg.sent_lt y.peer tx htx) ty σ er ng
  refine ⟨ty', ?_, er', k', hs', prog'⟩
  simp only [Sys.step, Op.side, hn, Sys.arrive, hty, e1]

end Elvis.Tcp.Full
