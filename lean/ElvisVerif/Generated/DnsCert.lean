-- GENERATED from /repo sources by tools/extract.py on every check; do not edit
namespace Elvis.Gen
/-- `SocketAPI::get_ephemeral_port` reads and advances the port counter under one write lock
    (false: a read lock, released, then a write lock) -/
def socketEphemeralPortOneLock : Bool := true
/-- the responder task logs the error `respond_to_query` returns; nothing is unwrapped before the reply is built -/
def dnsServerReportsErrors : Bool := true
/-- `get_host_by_name` unwraps nothing after `recv_msg` and checks `rdata.len() < 4` -/
def dnsClientReportsErrors : Bool := true
/-- `respond_to_query` reads its request with `recv_msg()` (the whole datagram) -/
def dnsServerReadsWholeDatagram : Bool := true
/-- byte budget of `recv(n)` when it does not (0 = reads the whole datagram) -/
def dnsServerRecvBudget : Nat := 0
/-- records `DnsServer::start` inserts itself, in order: name (UTF-8 bytes), address bytes: testserver.com, google.com -/
def dnsBuiltinRecords : List (List Nat × (Nat × Nat × Nat × Nat)) := [([116, 101, 115, 116, 115, 101, 114, 118, 101, 114, 46, 99, 111, 109], (123, 45, 67, 15)), ([103, 111, 111, 103, 108, 101, 46, 99, 111, 109], (123, 45, 67, 60))]
/-- they are inserted with `add_mapping` (replacing a configured record of the same name) -/
def dnsBuiltinOverrides : Bool := false
def dnsServerPort : Nat := 53
def dnsClientRemotePort : Nat := 53
def dnsAuthAddr : Nat × Nat × Nat × Nat := (1, 3, 3, 7)
/-- `get_host_by_name`: cache lookup first and `Ok(ip)` on a hit without any other call; on a
    miss exactly one new datagram socket, connect, one send, `recv_msg`, parse, cache insert of
    the answer's name, lookup of the requested name — in this order (token-level scan) -/
def dnsClientShape : Bool := true
end Elvis.Gen
