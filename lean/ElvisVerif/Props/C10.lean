import ElvisVerif.Lemmas.Frag
/-!
# C10 — IPv4 fragmentation produces a faithful partition of the datagram

Property theorems only (helper lemmas: `Lemmas/Frag.lean`; model: `Model/Frag.lean`).

All theorems quantify over **every** header, body and MTU satisfying `Pre` (no enumeration):
basic header (`ihl = 5`), `|body| = total_length − 20`, the fields inside their wire ranges
(`total_length` a u16, `fragment_offset` a 13-bit value) and `68 ≤ mtu`.  The MTU has no upper
bound and `(mtu − 20) % 8` is arbitrary.
-/
namespace Elvis.Frag

/-- the precondition of the property -/
structure Pre (h : Hdr) (body : List UInt8) (mtu : Nat) : Prop where
  ihl : h.ihl = 5
  /-- `|body| = total_length − 20` -/
  tl : h.totalLength = 20 + body.length
  /-- `total_length` is a u16 -/
  tlmax : h.totalLength ≤ 65535
  /-- `fragment_offset` is a 13-bit field on the wire (the parser masks it with `0x1fff`) -/
  fomax : h.fragOffset ≤ 8191
  /-- the IPv4 minimum MTU -/
  mtu : 68 ≤ mtu

theorem Pre.toPreG {h body mtu} (p : Pre h body mtu) : PreG h body :=
  ⟨p.ihl, p.tl, p.tlmax, by have := p.tl; have := p.tlmax; have := p.fomax; omega⟩

/-- `Pre` is satisfiable by a non-trivial datagram that needs three fragments at MTU 68,
    with `(mtu − 20) % 8 ≠ 0` for MTU 70 as well. -/
def exHdr : Hdr :=
  { ihl := 5, tos := 0x10, totalLength := 120, ident := 4711, fragOffset := 0, flags := 0,
    ttl := 64, proto := 17, checksum := 0xbeef, src := 0x0a000001, dst := 0x0a000002 }
def exBody : List UInt8 := (List.range 100).map UInt8.ofNat

example : Pre exHdr exBody 68 := ⟨rfl, rfl, by decide, by decide, by decide⟩
example : Pre exHdr exBody 70 := ⟨rfl, rfl, by decide, by decide, by decide⟩
example : ∃ a b c, fragment exHdr exBody 70 = .ok (.fragmented [a, b, c]) ∧
    a.1.totalLength = 68 ∧ b.1.fragOffset = 6 ∧ c.2.length = 4 ∧ isLast c.1.flags = true ∧
    isLast b.1.flags = false := ⟨_, _, _, rfl, rfl, rfl, rfl, rfl, rfl⟩

/-- the index-by-index reading of a faithful partition of `(h, body)` into `l` -/
structure Faithful (h : Hdr) (body : List UInt8) (l : List Frag) : Prop where
  ne : l ≠ []
  /-- every piece carries as many octets as its header says -/
  lengths : ∀ f ∈ l, f.1.totalLength = 20 + f.2.length
  /-- the payloads, in list order, concatenate to the original payload -/
  concat : payload l = body
  /-- the header offset of piece `i` is the original offset plus the octets before it, in
      units of 8 octets (so those octets are a multiple of 8) -/
  offsets : ∀ i (hi : i < l.length),
    8 * l[i].1.fragOffset = 8 * h.fragOffset + (payload (l.take i)).length
  /-- every non-final piece is a positive number of whole 8-octet blocks -/
  blocks : ∀ i (_ : i + 1 < l.length), 0 < l[i].2.length ∧ l[i].2.length % 8 = 0
  /-- MF is set on all pieces but the last, which carries the *original* flags -/
  mf : ∀ i (hi : i < l.length),
    l[i].1.flags = if i + 1 = l.length then h.flags else setMF h.flags
  /-- identification, TOS, TTL, protocol, addresses, checksum field, IHL and DF are kept -/
  fields : ∀ f ∈ l, SameFields h f.1

theorem Pieces.faithful {h body l} (p : Pieces h body l) : Faithful h body l :=
  ⟨p.ne_nil, p.lengths, p.concat, p.offsets, p.blocks, p.mf, p.fields⟩

/-- what `fragment` returned `Fragmented l` means under `Pre` -/
theorem fragmented_pieces {h body mtu l} (pre : Pre h body mtu)
    (e : fragment h body mtu = .ok (.fragmented l)) :
    Pieces h body l ∧ (∀ f ∈ l, f.1.totalLength ≤ mtu) ∧ mtu < h.totalLength ∧
      mayFragment h.flags = true := by
  unfold fragment at e
  by_cases hfit : h.totalLength ≤ mtu
  · simp [hfit] at e
  · cases hdf : mayFragment h.flags with
    | false => simp [hfit, hdf] at e
    | true =>
      obtain ⟨l', e', p, fits⟩ :=
        fragRec_spec mtu (by have := pre.mtu; omega) (fuelFor h) h body pre.toPreG (by simp [fuelFor])
      simp only [if_neg hfit, hdf, e'] at e
      simp at e
      subst e
      exact ⟨p, fits, by omega, rfl⟩

/-- **Every fragment fits the MTU** and carries exactly the octets its header announces. -/
theorem c10_fits (h : Hdr) (body : List UInt8) (mtu : Nat) (l : List Frag) (pre : Pre h body mtu)
    (e : fragment h body mtu = .ok (.fragmented l)) :
    ∀ f ∈ l, f.1.totalLength ≤ mtu ∧ f.2.length = f.1.totalLength - 20 := by
  obtain ⟨p, fits, _, _⟩ := fragmented_pieces pre e
  intro f hf
  have := p.lengths f hf
  exact ⟨fits f hf, by omega⟩

/-- **The payloads are consecutive, non-overlapping pieces of the original payload**: they
    concatenate to `body`; piece `i` is exactly the octets of `body` starting at
    `8·(FO_i − FO_original)`; piece `i+1` starts where piece `i` ends; every non-final piece is a
    positive multiple of 8 octets long; and (more than one piece) the final one is not empty. -/
theorem c10_partition (h : Hdr) (body : List UInt8) (mtu : Nat) (l : List Frag)
    (pre : Pre h body mtu) (e : fragment h body mtu = .ok (.fragmented l)) :
    payload l = body ∧
    (∀ i (hi : i < l.length),
      l[i].2 = (body.drop (8 * (l[i].1.fragOffset - h.fragOffset))).take l[i].2.length) ∧
    (∀ i (hi : i + 1 < l.length),
      8 * l[i + 1].1.fragOffset = 8 * l[i].1.fragOffset + l[i].2.length) ∧
    (∀ i (_ : i + 1 < l.length), 0 < l[i].2.length ∧ l[i].2.length % 8 = 0) ∧
    2 ≤ l.length ∧ (∀ f ∈ l, 0 < f.2.length) := by
  obtain ⟨p, fits, hbig, _⟩ := fragmented_pieces pre e
  refine ⟨p.concat, ?_, ?_, p.blocks, ?_, ?_⟩
  · intro i hi
    have ho := p.offsets i hi
    have hs := payload_split l i hi
    rw [p.concat] at hs
    have : 8 * (l[i].1.fragOffset - h.fragOffset) = (payload (l.take i)).length := by omega
    rw [this, hs, List.append_assoc, List.drop_left, List.take_left]
  · intro i hi
    have h0 := p.offsets i (by omega)
    have h1 := p.offsets (i + 1) hi
    have : payload (l.take (i + 1)) = payload (l.take i) ++ l[i].2 := by
      rw [List.take_succ_eq_append_getElem (by omega), payload_append]; simp
    rw [this, List.length_append] at h1
    omega
  · -- a single piece would be the datagram itself, which does not fit
    cases p with
    | single _ _ _ => have := fits (h, body) (by simp); simp at this; omega
    | cons _ _ n l' _ _ _ p' =>
      have := p'.ne_nil
      cases l' with
      | nil => simp at this
      | cons a t => simp
  · have := pre.tl
    have := pre.mtu
    exact p.pos (by omega)

/-- **Offsets recorded in the headers are 8-byte aligned positions**: the offset field of piece
    `i` equals the original offset plus (octets before it) / 8, and those octets are a multiple
    of 8. -/
theorem c10_offsets (h : Hdr) (body : List UInt8) (mtu : Nat) (l : List Frag)
    (pre : Pre h body mtu) (e : fragment h body mtu = .ok (.fragmented l)) :
    ∀ i (hi : i < l.length),
      l[i].1.fragOffset = h.fragOffset + (payload (l.take i)).length / 8 ∧
      (payload (l.take i)).length % 8 = 0 := by
  obtain ⟨p, _, _, _⟩ := fragmented_pieces pre e
  intro i hi
  have := p.offsets i hi
  omega

/-- **MF is set on all but the last piece; the last carries the original flags** (so when the
    input is itself a middle fragment with MF set, every output piece has MF set). -/
theorem c10_mf (h : Hdr) (body : List UInt8) (mtu : Nat) (l : List Frag)
    (pre : Pre h body mtu) (e : fragment h body mtu = .ok (.fragmented l)) :
    ∀ i (hi : i < l.length),
      (i + 1 < l.length → isLast l[i].1.flags = false) ∧
      (i + 1 = l.length → l[i].1.flags = h.flags) := by
  obtain ⟨p, _, _, _⟩ := fragmented_pieces pre e
  intro i hi
  have := p.mf i hi
  constructor
  · intro hlt
    rw [this, if_neg (by omega)]
    exact isLast_setMF _
  · intro heq
    rw [this, if_pos heq]

/-- **All other header fields are preserved**, including DF. -/
theorem c10_fields_preserved (h : Hdr) (body : List UInt8) (mtu : Nat) (l : List Frag)
    (pre : Pre h body mtu) (e : fragment h body mtu = .ok (.fragmented l)) :
    ∀ f ∈ l, f.1.ident = h.ident ∧ f.1.tos = h.tos ∧ f.1.ttl = h.ttl ∧ f.1.proto = h.proto ∧
      f.1.src = h.src ∧ f.1.dst = h.dst ∧ f.1.checksum = h.checksum ∧ f.1.ihl = h.ihl ∧
      mayFragment f.1.flags = mayFragment h.flags := by
  obtain ⟨p, _, _, _⟩ := fragmented_pieces pre e
  intro f hf
  obtain ⟨a1, a2, a3, a4, a5, a6, a7, a8, a9⟩ := p.fields f hf
  exact ⟨a3, a2, a4, a5, a7, a8, a6, a1, a9⟩

/-- **A datagram that already fits is passed through unchanged** (and only then). -/
theorem c10_passthrough (h : Hdr) (body : List UInt8) (mtu : Nat) :
    (h.totalLength ≤ mtu → fragment h body mtu = .ok (.dontFragment (h, body))) ∧
    (∀ f, fragment h body mtu = .ok (.dontFragment f) → h.totalLength ≤ mtu ∧ f = (h, body)) := by
  constructor
  · intro hfit; simp [fragment, hfit]
  · intro f e
    unfold fragment at e
    by_cases hfit : h.totalLength ≤ mtu
    · simp [hfit] at e; exact ⟨hfit, e.symm⟩
    · cases hdf : mayFragment h.flags with
      | false => simp [hfit, hdf] at e
      | true =>
        simp only [if_neg hfit, hdf] at e
        cases hr : fragRec mtu (fuelFor h) h body <;> simp [hr] at e

/-- **One that does not fit but forbids fragmentation is discarded** (and only then). -/
theorem c10_discard (h : Hdr) (body : List UInt8) (mtu : Nat) :
    fragment h body mtu = .ok .discard ↔ (mtu < h.totalLength ∧ mayFragment h.flags = false) := by
  unfold fragment
  by_cases hfit : h.totalLength ≤ mtu
  · simp [hfit]; omega
  · cases hdf : mayFragment h.flags with
    | false => simp [hfit]; omega
    | true =>
      simp only [if_neg hfit]
      cases hr : fragRec mtu (fuelFor h) h body <;> simp

/-- **No arithmetic panic**: under `Pre` none of the checked u16 operations overflows, the
    `assert!` in `Message::cut` never fires and the recursion terminates within its fuel. -/
theorem c10_no_arith_panic (h : Hdr) (body : List UInt8) (mtu : Nat) (pre : Pre h body mtu) :
    ∃ r, fragment h body mtu = .ok r := by
  cases hdf : mayFragment h.flags with
  | true =>
    obtain ⟨r, e, _⟩ := fragment_spec h body mtu (by have := pre.mtu; omega) pre.toPreG hdf
    exact ⟨r, e⟩
  | false =>
    by_cases hfit : h.totalLength ≤ mtu
    · exact ⟨_, (c10_passthrough h body mtu).1 hfit⟩
    · exact ⟨_, (c10_discard h body mtu).2 ⟨by omega, hdf⟩⟩

/-- Termination is a theorem, not a convention: with a basic header and `20 ≤ mtu < 28` the Rust
    recursion calls itself with unchanged arguments (`NFB = 0`) — the model runs out of any fuel.
    This is outside the property's range `mtu ≥ 68`. -/
theorem c10_diverges_below_28 (h : Hdr) (body : List UInt8) (mtu : Nat) (hi : h.ihl = 5)
    (h1 : 20 ≤ mtu) (h2 : mtu < 28) (hbig : mtu < h.totalLength) (hfo : h.fragOffset ≤ 65535) :
    ∀ fuel, fragRec mtu fuel h body = .error "diverges:Fragmentation::fragment" := by
  intro fuel
  induction fuel with
  | zero => rfl
  | succ fuel ih =>
    unfold fragRec
    have hn : (mtu - h.ihl * 4) / 8 = 0 := by omega
    have hr : restHdr h 0 = h := by simp [restHdr]
    simp only [hn, Nat.zero_mul, List.drop_zero, hr, ih]
    rw [if_neg (by omega), if_neg (by omega), if_neg (by omega), if_neg (by omega),
      if_neg (by omega), if_neg (by omega)]

/-! ### re-fragmentation along chains of MTUs -/

/-- **Fragmenting fragments again for smaller MTUs preserves all of the above relative to the
    original datagram.**  For *any* chain of MTUs ≥ 68 applied hop after hop to every piece (in
    particular every decreasing chain — monotonicity is not even needed): no hop panics; if DF is
    clear the pieces that arrive are a faithful partition of the *original* datagram (`Faithful`:
    lengths, concatenation, aligned offsets relative to the original offset, MF on all but the
    piece that ends the original datagram, fields preserved) and all fit the last MTU; if DF is
    set the datagram arrives unchanged when it fits every MTU of the chain and is discarded
    otherwise. -/
theorem c10_refragment (h : Hdr) (body : List UInt8) (mtus : List Nat)
    (hihl : h.ihl = 5) (htl : h.totalLength = 20 + body.length) (hmax : h.totalLength ≤ 65535)
    (hfo : h.fragOffset ≤ 8191) (hm : ∀ m ∈ mtus, 68 ≤ m) :
    ∃ l, chain mtus [(h, body)] = .ok l ∧
      (mayFragment h.flags = true →
        Faithful h body l ∧ ∀ m, mtus.getLast? = some m → ∀ f ∈ l, f.1.totalLength ≤ m) ∧
      (mayFragment h.flags = false →
        l = if mtus.all (fun m => decide (h.totalLength ≤ m)) then [(h, body)] else []) := by
  have pre : PreG h body := ⟨hihl, htl, hmax, by omega⟩
  cases hdf : mayFragment h.flags with
  | false =>
    exact ⟨_, chain_df h body hdf mtus, by simp, by simp⟩
  | true =>
    obtain ⟨l, e, p, fits⟩ := chain_pieces h body pre hdf mtus [(h, body)] h.totalLength
      (fun m hmm => by have := hm m hmm; omega) (Pieces.single h body htl) (by simp)
    refine ⟨l, e, ?_, by simp⟩
    intro _
    refine ⟨p.faithful, ?_⟩
    intro m hlast f hf
    have := fits f hf
    simpa [hlast] using this

/-- the chain theorem is not vacuous: 100 octets through MTUs 70 then 68 arrive as
    48 + 48 + 4 octets -/
example : ∃ a b c, chain [70, 68] [(exHdr, exBody)] = .ok [a, b, c] ∧ a.2.length = 48 ∧
    b.2.length = 48 ∧ c.2.length = 4 ∧ b.1.fragOffset = 6 ∧ c.1.fragOffset = 12 :=
  ⟨_, _, _, rfl, rfl, rfl, rfl, rfl, rfl⟩

end Elvis.Frag
