import ElvisVerif.Lemmas.TcpConvBatch2
/-!
# After loss: the first phase after the retransmission timers expired

`CalmX t`: ESTABLISHED, reorder heap, receive buffer and one-shot queue empty, the SYN acknowledged
(`SND.UNA ≠ ISS`), MTU with room for text, retransmission timer at most RTO.  Anything may be on the
retransmission queue and anything may be unsent: segments and acknowledgments may have been lost.

Helpers of this file: the structure of what such an endpoint emits once every queue entry is flagged
(`chain_catchRun`: the whole queue, contiguous, then the new data), and the timer tick that flags them
(`advanceTime_expire`).
-/
namespace Elvis.Tcp
open Tcb Elvis.ModCmp

/-! ## the retransmission queue as a contiguous run -/

theorem catchRun_append (l1 l2 : List Segment) : ∀ seq, CatchRun seq l1 →
    CatchRun (seq + BitVec.ofNat 32 (segBytes l1)) l2 → CatchRun seq (l1 ++ l2) := by
  induction l1 with
  | nil => intro seq _ h; simpa using h
  | cons g rest ih =>
    intro seq h1 h2
    obtain ⟨a, b, c, d, e, f, g', h⟩ := h1
    refine ⟨a, b, c, d, e, f, g', ih _ h ?_⟩
    rw [segBytes_cons, BitVec.ofNat_add, ← BitVec.add_assoc] at h2
    exact h2

theorem catchRun_of_dataRun (lp rp : U16) (ack : Seq) (wnd : U16) (l : List Segment) :
    ∀ seq, DataRun lp rp ack wnd seq l → (∀ g ∈ l, g.text.length ≤ 65535) → CatchRun seq l := by
  induction l with
  | nil => intro _ _ _; trivial
  | cons g rest ih =>
    intro seq h hl
    obtain ⟨h1, h2, h3⟩ := h
    exact ⟨by rw [h1]; rfl, by rw [h1]; rfl, by rw [h1]; rfl, by rw [h1]; rfl, by rw [h1]; rfl, h2,
      hl g List.mem_cons_self, ih _ h3 (fun x hx => hl x (List.mem_cons_of_mem _ hx))⟩

theorem le_segBytes (l : List Segment) (g : Segment) (h : g ∈ l) : g.text.length ≤ segBytes l := by
  induction l with
  | nil => cases h
  | cons x xs ih =>
    rw [segBytes_cons]
    rcases List.mem_cons.1 h with rfl | h
    · omega
    · have := ih h; omega

/-- a `Chain` of text-bearing plain entries is a contiguous run starting `rtxBytes` before `SND.NXT` -/
theorem chain_catchRun (nxt : Seq) (l : List Transmit) (hc : Chain nxt l)
    (hl : ∀ tr ∈ l, tr.segment.text ≠ [] ∧ tr.segment.text.length ≤ 65535 ∧ tr.segment.hdr.ctl.rst = false ∧
      tr.segment.hdr.ctl.ack = true) :
    CatchRun (nxt - BitVec.ofNat 32 (rtxBytes l)) (l.map (·.segment)) := by
  induction l with
  | nil => trivial
  | cons tr rest ih =>
    obtain ⟨h1, h2, h3, h4⟩ := hl tr List.mem_cons_self
    rcases hc.1 with h0 | ⟨hs, hf, he⟩
    · exact absurd h0 h1
    · simp only [List.map_cons, CatchRun]
      have hseq : tr.segment.hdr.seq = nxt - BitVec.ofNat 32 (rtxBytes (tr :: rest)) := by
        rw [rtxBytes_cons, BitVec.ofNat_add, ← he]
        generalize BitVec.ofNat 32 tr.segment.text.length = x
        generalize BitVec.ofNat 32 (rtxBytes rest) = y
        bv_omega
      refine ⟨hseq, h3, hs, hf, h4, h1, h2, ?_⟩
      have := ih hc.2 (fun x hx => hl x (List.mem_cons_of_mem _ hx))
      have e : nxt - BitVec.ofNat 32 (rtxBytes (tr :: rest)) + BitVec.ofNat 32 tr.segment.text.length
          = nxt - BitVec.ofNat 32 (rtxBytes rest) := by
        rw [rtxBytes_cons, BitVec.ofNat_add]
        generalize BitVec.ofNat 32 tr.segment.text.length = x
        generalize BitVec.ofNat 32 (rtxBytes rest) = y
        bv_omega
      rw [e]
      exact this

/-! ## the tick that flags the queue -/

/-- everything but the timers and the retransmission flags is the same; every entry is flagged -/
structure Flagged (t t1 : Tcb) : Prop where
  st : t1.state = t.state
  snd : t1.snd = t.snd
  rcv : t1.rcv = t.rcv
  inc : t1.incoming = t.incoming
  mtu : t1.mtu = t.mtu
  otext : t1.outgoing.text = t.outgoing.text
  one : t1.outgoing.oneshot = t.outgoing.oneshot
  rtx : t1.outgoing.retransmit = t.outgoing.retransmit.map fun x => { x with needsTransmit := true }
  tmo : t1.timeouts.retransmission = RTO

theorem advanceTime_expire (t : Tcb) (dt : Nat) (hdt : dt > t.timeouts.retransmission)
    (htw : t.timeouts.timeWait = none) : ∃ t1, t.advanceTime dt = .ok (t1, .Ignore) ∧ Flagged t t1 := by
  unfold advanceTime advanceRetransmission
  rw [if_pos hdt]
  dsimp only
  rw [htw]
  exact ⟨_, rfl, rfl, rfl, rfl, rfl, rfl, rfl, rfl, rfl, rfl⟩

theorem filter_all_flagged (l new : List Transmit) (hn : ∀ tr ∈ new, tr.needsTransmit = true) :
    ((l.map fun x => ({ x with needsTransmit := true } : Transmit)) ++ new).filter (·.needsTransmit) =
      (l.map fun x => { x with needsTransmit := true }) ++ new := by
  apply List.filter_eq_self.2
  intro tr htr
  rcases List.mem_append.1 htr with h | h
  · obtain ⟨x, _, rfl⟩ := List.mem_map.1 h
    rfl
  · exact hn tr h

theorem map_flag_segment (l : List Transmit) (b : Bool) :
    (l.map fun x => ({ x with needsTransmit := b } : Transmit)).map (·.segment) = l.map (·.segment) := by
  induction l with
  | nil => rfl
  | cons x xs ih => simp [ih]

end Elvis.Tcp
