#!/usr/bin/env python3
"""Source -> Lean extraction (run on every check).

Reads /repo's *current* Rust sources and (re)writes lean/ElvisVerif/Generated/*.lean:
numeric constants, the one-expression arithmetic kernels, and structural certificates.
Fails closed: anything it cannot translate is an error (reported by ./check as a broken tie).
Files are rewritten only when their content changes, so Lean's build cache stays valid.
"""
import os, re, sys

REPO = os.environ.get("ELVIS_REPO") or os.path.normpath(os.path.join(os.path.dirname(os.path.abspath(__file__)), "..", "..", "repo"))
CORE = os.path.join(REPO, "sim", "elvis-core", "src")
ELVIS = os.path.join(REPO, "sim", "elvis", "src")
OUT = os.path.join(os.path.dirname(os.path.abspath(__file__)), "..", "lean", "ElvisVerif", "Generated")


class ExtractError(Exception):
    pass


def read(path):
    with open(path) as f:
        return f.read()


def strip_comments(src):
    src = re.sub(r"/\*.*?\*/", "", src, flags=re.S)
    return re.sub(r"//[^\n]*", "", src)


def write_if_changed(name, text):
    p = os.path.join(OUT, name)
    os.makedirs(OUT, exist_ok=True)
    if os.path.exists(p) and read(p) == text:
        return
    with open(p, "w") as f:
        f.write(text)


def check_message_immutability():
    """C07 structural certificate: message/ holds no unsafe code, no in-place mutation of shared
    chunk storage and no interior mutability."""
    bad = []
    files = [os.path.join(CORE, "message.rs")] + [os.path.join(CORE, "message", f) for f in sorted(os.listdir(os.path.join(CORE, "message")))]
    for p in files:
        src = strip_comments(read(p)).split("#[cfg(test)]")[0]
        for tok in ("unsafe", "get_mut(", "make_mut(", "RefCell", "Cell<", "Mutex", "RwLock", "Atomic", "as_mut_ptr", "get_mut_unchecked"):
            if tok in src:
                bad.append(f"{os.path.relpath(p, REPO)}: `{tok}`")
    if bad:
        raise ExtractError("message/ is no longer evidently immutable-by-construction: " + "; ".join(bad))


def _one(pattern, src, what, path):
    m = re.findall(pattern, src)
    if len(m) != 1:
        raise ExtractError(f"{what}: expected exactly one match of /{pattern}/ in {os.path.relpath(path, REPO)}, found {len(m)}")
    return m[0]


def _int(lit):
    return int(lit.replace("_", ""), 0)


def stack_consts():
    """C04/C05: constants and literal sites of the demux path and of the link."""
    out = []

    def const(lean, value):
        out.append("def %s : Nat := %d" % (lean, value))

    p = os.path.join(CORE, "protocols", "ipv4", "ipv4_address.rs")
    src = strip_comments(read(p))
    for name, lean in (("CURRENT_NETWORK", "ipv4CurrentNetwork"), ("SUBNET", "ipv4SubnetBroadcast")):
        g = _one(r"pub const %s: Self = Self\(\[(\d+)u8, (\d+), (\d+), (\d+)\]\);" % name, src, name, p)
        const(lean, int.from_bytes(bytes(int(x) for x in g), "big"))
    p = os.path.join(CORE, "protocols", "udp", "udp_parsing.rs")
    const("udpHeaderOctets", _int(_one(r"const HEADER_OCTETS: u16 = (\w+);", strip_comments(read(p)), "HEADER_OCTETS", p)))
    p = os.path.join(CORE, "protocols", "udp.rs")
    src = strip_comments(read(p))
    const("udpDemuxStrip", _int(_one(r"message\.remove_front\((\w+)\);", src, "Udp::demux header strip", p)))
    # the wildcard key of Udp::demux is built from CURRENT_NETWORK and the port of the datagram
    _one(r"let any_listen_id = Endpoint \{\s*address: Ipv4Address::(CURRENT_NETWORK),\s*port: endpoints\.local\.port,\s*\};", src, "Udp::demux wildcard key", p)
    _one(r"Endpoint::new\(ipv4_header\.destination, udp_header\.destination\),\s*Endpoint::new\(ipv4_header\.(source), udp_header\.source\),", src, "Udp::demux endpoints from headers", p)
    _one(r"socket\.address,\s*machine,\s*ipv4::ProtocolNumber::(UDP),", src, "Udp::listen -> Ipv4::listen(UDP)", p)
    p = os.path.join(CORE, "protocols", "ipv4.rs")
    src = strip_comments(read(p))
    const("ipv4DemuxStripFactor", _int(_one(r"message\.remove_front\(header\.ihl as usize \* (\w+)\);", src, "Ipv4::demux header strip", p)))
    udp_no = _int(_one(r"UDP = (\d+),", src, "ProtocolNumber::UDP", p))
    const("ipv4ProtoUdp", udp_no)
    if _int(_one(r"(\d+) => ProtocolNumber::UDP,", src, "ProtocolNumber::from UDP", p)) != udp_no:
        raise ExtractError("ProtocolNumber::from(u8) does not map the UDP number to UDP")
    _one(r"\.get\(&\(Ipv4Address::(CURRENT_NETWORK), protocol_no\)\)", src, "Ipv4::demux wildcard key", p)
    p = os.path.join(CORE, "protocols", "ipv4", "ipv4_parsing.rs")
    const("ipv4BaseWords", _int(_one(r"const BASE_WORDS: u8 = (\w+);", strip_comments(read(p)), "BASE_WORDS", p)))
    p = os.path.join(CORE, "network.rs")
    src = strip_comments(read(p))
    const("broadcastMac", _int(_one(r"pub const BROADCAST_MAC: Mac = (\w+);", src, "BROADCAST_MAC", p)))
    bits = {"u8": 8, "u16": 16, "u32": 32, "u64": 64}
    const("mtuBits", bits[_one(r"pub type Mtu = (u\d+);", src, "type Mtu", p)])
    const("macBits", bits[_one(r"pub type Mac = (u\d+);", src, "type Mac", p)])
    _one(r"mtu: mtu\.unwrap_or\(Mtu::(MAX)\),", src, "default MTU", p)
    out.append("def mtuDefault : Nat := 2 ^ mtuBits - 1")
    # transmission time: len * 10^9 / thr + carry nanoseconds, slept in whole milliseconds,
    # remainder carried to the next frame
    const("txNsPerSec", _int(_one(r"let ns = delivery\.message\.len\(\) as u128 \* (\w+) / throughput\.0 as u128\s*\+ \*carry as u128;", src, "throughput transmission time", p)))
    ns_per_ms = _int(_one(r"\*carry = \(ns % (\w+)\) as u64;", src, "throughput carry", p))
    if _int(_one(r"\(ns / (\w+)\) as u64", src, "throughput milliseconds", p)) != ns_per_ms:
        raise ExtractError("throughput wait: divisor of the sleep and modulus of the carry differ")
    const("txNsPerMs", ns_per_ms)
    _one(r"sleep\(Duration::from_(millis)\(ms\)\)\.await;", src, "throughput wait unit", p)
    _one(r"if throughput\.0 > 0 \{\s*self\.throughput_permit\.(notified)\(\)\.await;", src, "permit taken before the transmission", p)
    _one(r"sleep\(Duration::from_millis\(ms\)\)\.await;\s*self\.throughput_permit\.(notify_one)\(\);", src, "permit released after the transmission", p)
    p = os.path.join(CORE, "protocols", "pci", "pci_session.rs")
    _one(r"if message\.len\(\) (>) self\.network\.mtu as usize \{\s*return Err\(SendError::Mtu\(self\.network\.mtu\)\);", strip_comments(read(p)), "send_pci MTU check", p)
    return out


def main():
    check_message_immutability()
    consts = ["-- GENERATED from /repo sources by tools/extract.py on every check; do not edit", "namespace Elvis.Gen"]
    consts += stack_consts()
    consts += ["end Elvis.Gen", ""]
    write_if_changed("Consts.lean", "\n".join(consts))


if __name__ == "__main__":
    try:
        main()
    except ExtractError as e:
        print("EXTRACT-ERROR:", e)
        sys.exit(1)
