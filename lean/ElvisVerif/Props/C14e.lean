import ElvisVerif.Lemmas.DemuxDrop
/-!
# C14, second sentence, for IPv4 / UDP / TCP

"A frame whose headers fail to decode at some layer is dropped at that layer: it reaches no
application, changes no connection, and the simulation keeps running."

Stated over the composed receive path of `Model/RecvPath.lean`
(`PciSession::receive → Ipv4::demux → Ipv4Session::receive → Udp::demux / Tcp::demux` over the
byte-level decoders), for EVERY byte string, every machine state (binding tables, TCP session
table with every TCB and every session's channel), every link context, checksum feature on or
off:

* `c14_ipv4_demux_drop`, `c14_udp_demux_drop`, `c14_tcp_demux_drop`: when the decoder of a layer
  returns an error, that layer's `demux` returns `Err(DemuxError::Header)`, the machine is the
  one it was, nothing is done (no application called, nothing sent, nothing spawned), and no
  `demux` above that layer was entered — also through the whole stack
  (`c14_udp_drop_through_stack`, `c14_tcp_drop_through_stack`), and for the two other drop
  branches the fixes added (`c14_ipv4_fragment_guard_drop`, `c14_missing_context_drop`);
* `c14_err_state_unchanged`: WHATEVER error the path returns, the machine is unchanged and
  the only thing that may have happened is the TCP reset the CLOSED state owes the sender;
* `c14_demux_total`: the path never panics on any frame, provided every IPv4 / UDP binding names
  a protocol of the machine (`BindingsPresent`; the two `expect("No such protocol")` sites — witness
  `c14_demux_panics_without_upstream`).  The `remove_front` preconditions are discharged from what
  an accepting decoder says about its input; they are stated over the strip lengths EXTRACTED from
  the sources, so "strip more than the segment holds" (seeded change C14-2) breaks the proof;
* `c14_dropped_frame_is_forgotten`: every later frame is answered as if the dropped one had never
  come.
-/
namespace Elvis.Recv
open Elvis.Codec Elvis.Demux

/-- the constants of the model are the extracted ones, and the extracted ones are what the
    proofs below need (a change of `remove_front(20)` / `remove_front(8)` / `ihl * 4` or of the
    guard's factors in the sources stops this theorem) -/
theorem c14_recv_consts :
    tcpStrip = 20 ∧ udpStripN = 8 ∧ ipStripFactor = 4 ∧ guardWord = 4 ∧ guardUnit = 8 ∧
    udpStripN = Demux.udpStrip ∧ ipStripFactor = Demux.ipWordOctets ∧
    Elvis.Gen.Recv.ipv4ProtoTcp = 6 := by decide

/-! ## drop at the failing layer -/

/-- IPv4: the decoder rejects ⇒ `Ipv4::demux` returns `Err(Header)`; machine unchanged, nothing
    done, neither `Udp::demux` nor `Tcp::demux` entered -/
theorem c14_ipv4_demux_drop (env : Env) (m : Machine) (lk : Link) (bytes : Bytes)
    (e : Fail Ipv4.ParseError) (h : Ipv4.fromBytes env.ck bytes = .error e) :
    ipv4Demux env m lk bytes =
      .ok { machine := m, ret := .error .header, effects := [], calls := [pidIpv4] } := by
  obtain ⟨k, rfl⟩ := ipv4_error_is_err h
  unfold ipv4Demux
  rw [h]
  rfl

/-- IPv4, fix 2a82fb5c: a fragment whose data would end beyond octet 65535 is dropped the same way -/
theorem c14_ipv4_fragment_guard_drop (env : Env) (m : Machine) (lk : Link) (bytes : Bytes)
    (hd : Ipv4.Header) (h : Ipv4.fromBytes env.ck bytes = .ok hd)
    (hg : hd.fragmentOffset * 8 + (hd.totalLength - 20) > 65515) :
    ipv4Demux env m lk bytes =
      .ok { machine := m, ret := .error .header, effects := [], calls := [pidIpv4] } := by
  obtain ⟨hihl, _, htl, _, _⟩ := ipv4_ok_facts h
  unfold ipv4Demux
  rw [h]
  dsimp only
  have a : ¬ hd.totalLength < hd.ihl * guardWord := by
    rw [hihl]; show ¬ hd.totalLength < 5 * 4; omega
  have b : fragmentBeyondMax hd = true := by
    unfold fragmentBeyondMax
    rw [hihl]
    show decide (hd.fragmentOffset * 8 + (hd.totalLength - 5 * 4) > 65535 - 5 * 4) = true
    simp; omega
  rw [if_neg a, if_pos b]
  rfl

/-- IPv4, fix F-C14-S3: a frame that ends before the total length of its datagram (a datagram cut
    short in transit) is dropped the same way, whatever it carries -/
theorem c14_ipv4_truncated_frame_drop (env : Env) (m : Machine) (lk : Link) (bytes : Bytes)
    (hd : Ipv4.Header) (h : Ipv4.fromBytes env.ck bytes = .ok hd) (hl : bytes.length < hd.totalLength) :
    ipv4Demux env m lk bytes =
      .ok { machine := m, ret := .error .header, effects := [], calls := [pidIpv4] } := by
  obtain ⟨hihl, _, htl, _, _⟩ := ipv4_ok_facts h
  unfold ipv4Demux
  rw [h]
  dsimp only
  have a : ¬ hd.totalLength < hd.ihl * guardWord := by
    rw [hihl]; show ¬ hd.totalLength < 5 * 4; omega
  rw [if_neg a]
  by_cases hg : fragmentBeyondMax hd = true
  · rw [if_pos hg]; rfl
  · rw [if_neg hg, if_pos hl]; rfl

/-- the IPv4 decoder reads the 20 octets of the header and nothing behind them -/
theorem ipv4_fromBytes_append {ck : Bool} {bs : Bytes} {hd : Ipv4.Header} (pad : Bytes)
    (h : Ipv4.fromBytes ck bs = .ok hd) : Ipv4.fromBytes ck (bs ++ pad) = .ok hd := by
  obtain ⟨b0, b1, b2, b3, b4, b5, b6, b7, b8, b9, b10, b11, b12, b13, b14, b15, b16, b17, b18, b19,
    rest, rfl, _⟩ := Ipv4.fromBytes_ok_inv h
  simp only [Ipv4.fromBytes, nextU8, nextU16, nextU32, List.cons_append] at h ⊢
  exact h

/-- IPv4, fix F-C14-S3: link padding behind the datagram never matters — a frame that holds its
    whole datagram is answered exactly as the frame that ends where the total length says (same
    result, same machine, same effects, same payload handed up), whatever follows -/
theorem c14_ipv4_padding_ignored (env : Env) (m : Machine) (lk : Link) (bytes pad : Bytes)
    (hd : Ipv4.Header) (h : Ipv4.fromBytes env.ck bytes = .ok hd) (hl : hd.totalLength ≤ bytes.length) :
    ipv4Demux env m lk (bytes ++ pad) = ipv4Demux env m lk bytes := by
  unfold ipv4Demux
  rw [ipv4_fromBytes_append pad h, h]
  dsimp only
  have t1 : ¬ bytes.length < hd.totalLength := by omega
  have t2 : ¬ (bytes ++ pad).length < hd.totalLength := by rw [List.length_append]; omega
  rw [if_neg t1, if_neg t2, List.take_append_of_le_length hl]

/-- UDP: the decoder rejects ⇒ `Udp::demux` returns `Err(Header)`; machine unchanged, nothing
    done, no application entered -/
theorem c14_udp_demux_drop (env : Env) (m : Machine) (lk : Link) (ih : Ipv4.Header) (msg : Bytes)
    (e : Fail Udp.ParseError)
    (h : Udp.fromBytes env.ck msg msg.length ih.source ih.destination = .error e) :
    udpDemux env m lk (some ih) msg =
      .ok { machine := m, ret := .error .header, effects := [], calls := [pidUdp] } := by
  obtain ⟨k, rfl⟩ := udp_error_is_err h
  unfold udpDemux
  dsimp only
  rw [h]
  rfl

/-- TCP: the decoder rejects ⇒ `Tcp::demux` returns `Err(Header)`; the session table (every TCB,
    every session's channel) and the listen bindings are unchanged, nothing is sent -/
theorem c14_tcp_demux_drop (env : Env) (m : Machine) (lk : Link) (ih : Ipv4.Header) (msg : Bytes)
    (e : Fail Codec.Tcp.ParseError)
    (h : Codec.Tcp.fromBytes env.ck msg msg.length ih.source ih.destination = .error e) :
    tcpDemux env m lk (some ih) msg =
      .ok { machine := m, ret := .error .header, effects := [], calls := [pidTcp] } := by
  obtain ⟨k, rfl⟩ := tcp_error_is_err h
  unfold tcpDemux
  dsimp only
  rw [h]
  rfl

/-- fixes bdf9f0be (UDP) and the TCP twin: a frame that names a transport protocol at the link
    layer carries no IPv4 context and is dropped with `Err(MissingContext)` before any decoding -/
theorem c14_missing_context_drop (env : Env) (m : Machine) (lk : Link) (msg : Bytes) :
    udpDemux env m lk none msg =
      .ok { machine := m, ret := .error .missingContext, effects := [], calls := [pidUdp] } ∧
    tcpDemux env m lk none msg =
      .ok { machine := m, ret := .error .missingContext, effects := [], calls := [pidTcp] } :=
  ⟨rfl, rfl⟩

/-! ## the same, through the whole stack from the tap -/

/-- the IPv4 header decodes, the datagram is whole and bound to a transport protocol of the machine -/
structure ReachesTransport (env : Env) (m : Machine) (bytes : Bytes) (hd : Ipv4.Header) (up : Pid) : Prop where
  hasIp : pidIpv4 ∈ m.dm.protocols
  decodes : Ipv4.fromBytes env.ck bytes = .ok hd
  whole : (Elvis.Frag.isLast hd.flags && hd.fragmentOffset == 0) = true
  bound : ipv4Upstream m.dm hd.destination (protoNumber hd.protocol) = some up
  present : up ∈ m.dm.protocols
  /-- the frame is not shorter than the datagram it announces (fix F-C14-S3) -/
  arrived : hd.totalLength ≤ bytes.length

/-- what `Ipv4::demux` hands up: the octets of the datagram (the first `total length` octets of the
    frame — link padding behind them is cut off, fix F-C14-S3) behind the 20-octet header -/
def datagramBody (hd : Ipv4.Header) (bytes : Bytes) : Bytes := (bytes.take hd.totalLength).drop 20

/-- a frame that is exactly its datagram: nothing is cut off -/
theorem datagramBody_exact (hd : Ipv4.Header) (bytes : Bytes) (h : hd.totalLength = bytes.length) :
    datagramBody hd bytes = bytes.drop 20 := by
  unfold datagramBody
  rw [h, List.take_length]

/-- the part of `Ipv4::demux` in front of the transport protocol, for a whole datagram -/
theorem ipv4Demux_reaches {env : Env} {m : Machine} {lk : Link} {bytes : Bytes} {hd : Ipv4.Header} {up : Pid}
    (r : ReachesTransport env m bytes hd up) :
    ipv4Demux env m lk bytes =
      if up = pidUdp then entered pidIpv4 (udpDemux env m lk (some hd) (datagramBody hd bytes))
      else if up = pidTcp then entered pidIpv4 (tcpDemux env m lk (some hd) (datagramBody hd bytes))
      else .ok { machine := m, ret := .ok (), effects := [.handUp up (datagramBody hd bytes)], calls := [pidIpv4] } := by
  obtain ⟨hihl, hlen, htl, htl2, _⟩ := ipv4_ok_facts r.decodes
  have hw : hd.fragmentOffset = 0 := by
    have := r.whole; simp only [Bool.and_eq_true, beq_iff_eq] at this; exact this.2
  unfold ipv4Demux
  rw [r.decodes]
  dsimp only
  have a : ¬ hd.totalLength < hd.ihl * guardWord := by
    rw [hihl]; show ¬ hd.totalLength < 5 * 4; omega
  have b : fragmentBeyondMax hd = false := by
    unfold fragmentBeyondMax
    rw [hihl, hw]
    show decide (0 * 8 + (hd.totalLength - 5 * 4) > 65535 - 5 * 4) = false
    simp; omega
  have t : ¬ bytes.length < hd.totalLength := by have := r.arrived; omega
  have c : ¬ (bytes.take hd.totalLength).length < hd.ihl * ipStripFactor := by
    rw [hihl, List.length_take]; show ¬ min hd.totalLength bytes.length < 5 * 4; have := r.arrived; omega
  rw [if_neg a, b, if_neg (by simp), if_neg t, if_neg c, r.bound]
  dsimp only
  have hs : hd.ihl * ipStripFactor = 20 := by rw [hihl]; rfl
  rw [hs]
  obtain ⟨rr, hr⟩ := fresh_receive_whole (fragHdr hd) ((bytes.take hd.totalLength).drop 20) r.whole
  rw [hr]
  dsimp only
  rw [if_pos r.present]
  rfl

/-- a frame whose IPv4 header is fine and whose UDP header does not decode: `PciSession::receive`
    returns `Err(Demux(Header))`, the machine is unchanged, nothing is done, and the `demux`
    functions entered are exactly `Ipv4::demux`, `Udp::demux` -/
theorem c14_udp_drop_through_stack (env : Env) (m : Machine) (lk : Link) (bytes : Bytes) (hd : Ipv4.Header)
    (r : ReachesTransport env m bytes hd pidUdp) (e : Fail Udp.ParseError)
    (h : Udp.fromBytes env.ck (datagramBody hd bytes) (datagramBody hd bytes).length hd.source hd.destination = .error e) :
    receive env m lk ⟨pidIpv4, bytes⟩ =
      .ok { machine := m, ret := .error .header, effects := [], calls := [pidIpv4, pidUdp] } := by
  unfold receive
  rw [if_pos r.hasIp, if_pos rfl, ipv4Demux_reaches r, if_pos rfl, c14_udp_demux_drop env m lk hd _ e h]
  rfl

/-- the same for a TCP header that does not decode: no session's channel receives anything, no
    TCB, no binding changes, no reset is sent -/
theorem c14_tcp_drop_through_stack (env : Env) (m : Machine) (lk : Link) (bytes : Bytes) (hd : Ipv4.Header)
    (r : ReachesTransport env m bytes hd pidTcp) (e : Fail Codec.Tcp.ParseError)
    (h : Codec.Tcp.fromBytes env.ck (datagramBody hd bytes) (datagramBody hd bytes).length hd.source hd.destination = .error e) :
    receive env m lk ⟨pidIpv4, bytes⟩ =
      .ok { machine := m, ret := .error .header, effects := [], calls := [pidIpv4, pidTcp] } := by
  unfold receive
  have ne : pidTcp ≠ pidUdp := by decide
  rw [if_pos r.hasIp, if_pos rfl, ipv4Demux_reaches r, if_neg ne, if_pos rfl,
    c14_tcp_demux_drop env m lk hd _ e h]
  rfl

/-- and for the IPv4 header itself, from the tap -/
theorem c14_ipv4_drop_through_stack (env : Env) (m : Machine) (lk : Link) (bytes : Bytes)
    (hp : pidIpv4 ∈ m.dm.protocols) (e : Fail Ipv4.ParseError) (h : Ipv4.fromBytes env.ck bytes = .error e) :
    receive env m lk ⟨pidIpv4, bytes⟩ =
      .ok { machine := m, ret := .error .header, effects := [], calls := [pidIpv4] } := by
  unfold receive
  rw [if_pos hp, if_pos rfl, c14_ipv4_demux_drop env m lk bytes e h]

/-! ## every error return leaves the machine alone -/

/-- the only effect an erroring call can have had: the reset of the CLOSED state -/
def Effect.isReply : Effect → Bool
  | .reply .. => true
  | .loopReply .. => true
  | _ => false

/-- what all error returns have in common -/
def Quiet (m : Machine) (r : Result) : Prop :=
  ∀ e, r.ret = .error e → r.machine = m ∧ ∀ x ∈ r.effects, x.isReply = true

theorem quiet_dropped (m : Machine) (e : Err) (c : List Pid) : Quiet m (dropped m e c) :=
  fun _ _ => ⟨rfl, fun _ hx => by cases hx⟩

theorem quiet_entered {m : Machine} {p : Pid} {x : Except String Result} {r : Result}
    (hq : ∀ r', x = .ok r' → Quiet m r') (h : entered p x = .ok r) : Quiet m r := by
  cases x with
  | error s => simp [entered] at h
  | ok r' =>
    simp only [entered, Except.ok.injEq] at h
    subst h
    exact hq r' rfl

theorem udpDemux_quiet (env : Env) (m : Machine) (lk : Link) (ip : Option Ipv4.Header) (msg : Bytes)
    (r : Result) (h : udpDemux env m lk ip msg = .ok r) : Quiet m r := by
  unfold udpDemux at h
  split at h
  · cases h; exact quiet_dropped _ _ _
  · split at h
    · cases h
    · cases h; exact quiet_dropped _ _ _
    · split at h
      · cases h
      · split at h
        · cases h; intro e he; cases he
        · cases h; exact quiet_dropped _ _ _
        · cases h

theorem tcpDemux_quiet (env : Env) (m : Machine) (lk : Link) (ip : Option Ipv4.Header) (msg : Bytes)
    (r : Result) (h : tcpDemux env m lk ip msg = .ok r) : Quiet m r := by
  unfold tcpDemux at h
  split at h
  · cases h; exact quiet_dropped _ _ _
  · split at h
    · cases h
    · cases h; exact quiet_dropped _ _ _
    · split at h
      · cases h
      · dsimp only at h
        split at h
        · cases h; intro e he; cases he
        · split at h
          · split at h
            · cases h; exact quiet_dropped _ _ _
            · split at h
              · cases h; exact quiet_dropped _ _ _
              · rename_i eff hs
                cases h
                intro e _
                refine ⟨rfl, ?_⟩
                intro x hx
                simp only [List.mem_singleton] at hx
                subst hx
                unfold sendReply at hs
                dsimp only at hs
                repeat' split at hs
                all_goals first | (cases hs; rfl) | cases hs
          · split at h
            · cases h
            · cases h; intro e he; cases he
            · split at h
              · cases h; exact quiet_dropped _ _ _
              · cases h; intro e he; cases he
            · split at h
              · cases h; intro e he; cases he
              · cases h; exact quiet_dropped _ _ _

theorem ipv4Demux_quiet (env : Env) (m : Machine) (lk : Link) (bytes : Bytes)
    (r : Result) (h : ipv4Demux env m lk bytes = .ok r) : Quiet m r := by
  unfold ipv4Demux at h
  split at h
  · cases h
  · cases h; exact quiet_dropped _ _ _
  · dsimp only at h
    split at h
    · cases h
    · split at h
      · cases h; exact quiet_dropped _ _ _
      · split at h
        · cases h; exact quiet_dropped _ _ _
        · split at h
          · cases h
          · split at h
            · cases h; exact quiet_dropped _ _ _
            · split at h
              · cases h
              · cases h; intro e he; cases he
              · split at h
                · split at h
                  · exact quiet_entered (fun r' hr => udpDemux_quiet _ _ _ _ _ r' hr) h
                  · split at h
                    · exact quiet_entered (fun r' hr => tcpDemux_quiet _ _ _ _ _ r' hr) h
                    · cases h; intro e he; cases he
                · cases h

/-- WHATEVER error `PciSession::receive` returns for a frame — unknown protocol, header error at
    any layer, missing context, no binding, no session, failed reply — the machine (all binding
    tables, the session table, every TCB, every session's channel) is exactly what it was, no
    application was called, nothing was handed to another protocol, nothing was spawned; at most
    the reset that RFC 9293 3.10.7.1 prescribes for the CLOSED state went out -/
theorem c14_err_state_unchanged (env : Env) (m : Machine) (lk : Link) (f : Frame) (r : Result) (e : Err)
    (h : receive env m lk f = .ok r) (he : r.ret = .error e) :
    r.machine = m ∧ ∀ x ∈ r.effects, x.isReply = true := by
  have q : Quiet m r := by
    unfold receive at h
    split at h
    · split at h
      · exact ipv4Demux_quiet _ _ _ _ _ h
      · split at h
        · exact udpDemux_quiet _ _ _ _ _ _ h
        · split at h
          · exact tcpDemux_quiet _ _ _ _ _ _ h
          · cases h; intro e he; cases he
    · cases h; exact quiet_dropped _ _ _
  exact q e he

/-! ## the simulation keeps running: no panic -/

/-- every IPv4 binding and every UDP binding names a protocol the machine has (they are made by
    `Ipv4::listen` / `Udp::listen`, which protocols of the machine call with their own id) -/
structure BindingsPresent (m : Machine) : Prop where
  ip : ∀ key up, lookup key m.dm.ip = some up → up ∈ m.dm.protocols
  udp : ∀ e app, lookup e m.dm.udp = some app → app ∈ m.dm.protocols

theorem udpDemux_total (env : Env) (m : Machine) (lk : Link) (ip : Option Ipv4.Header) (msg : Bytes)
    (hb : BindingsPresent m) : ∃ r, udpDemux env m lk ip msg = .ok r := by
  unfold udpDemux
  split
  · exact ⟨_, rfl⟩
  · rename_i ih
    cases hdec : Udp.fromBytes env.ck msg msg.length ih.source ih.destination with
    | error e =>
      obtain ⟨k, rfl⟩ := udp_error_is_err hdec
      exact ⟨_, rfl⟩
    | ok uh =>
      dsimp only
      have hl := udp_ok_len hdec
      have : ¬ msg.length < udpStripN := by show ¬ msg.length < 8; omega
      rw [if_neg this]
      rcases udpDemux_some_cases m.dm (absIp ih) ⟨uh.source, uh.destination⟩ msg lk.slot with
        ⟨d, hd⟩ | hd | ⟨_, e, app, hl', hp⟩
      · rw [hd]; exact ⟨_, rfl⟩
      · rw [hd]; exact ⟨_, rfl⟩
      · exact absurd (hb.udp e app hl') hp

theorem tcpDemux_total (env : Env) (m : Machine) (lk : Link) (ip : Option Ipv4.Header) (msg : Bytes) :
    ∃ r, tcpDemux env m lk ip msg = .ok r := by
  unfold tcpDemux
  split
  · exact ⟨_, rfl⟩
  · rename_i ih
    cases hdec : Codec.Tcp.fromBytes env.ck msg msg.length ih.source ih.destination with
    | error e =>
      obtain ⟨k, rfl⟩ := tcp_error_is_err hdec
      exact ⟨_, rfl⟩
    | ok th =>
      dsimp only
      have hl := (tcp_ok_len hdec).1
      have : ¬ msg.length < tcpStrip := by show ¬ msg.length < 20; omega
      rw [if_neg this]
      split
      · exact ⟨_, rfl⟩
      · split
        · split
          · exact ⟨_, rfl⟩
          · split <;> exact ⟨_, rfl⟩
        · rename_i up _
          obtain ⟨lr, hlr⟩ := listen_ok ⟨toHdr th, msg.drop tcpStrip⟩ env.iss (BitVec.ofNat 16 lk.mtu)
          rw [hlr]
          cases lr with
          | none => exact ⟨_, rfl⟩
          | some v =>
            cases v with
            | Response resp => dsimp only; split <;> exact ⟨_, rfl⟩
            | Tcb tcb => dsimp only; split <;> exact ⟨_, rfl⟩

theorem entered_total {p : Pid} {x : Except String Result} (h : ∃ r, x = .ok r) :
    ∃ r, entered p x = .ok r := by
  obtain ⟨r, rfl⟩ := h
  exact ⟨_, rfl⟩

theorem ipv4Upstream_present {m : Machine} (hb : BindingsPresent m) {a : Addr} {pn : Nat} {up : Pid}
    (h : ipv4Upstream m.dm a pn = some up) : up ∈ m.dm.protocols := by
  unfold ipv4Upstream at h
  split at h
  · rename_i u hl
    cases h
    exact hb.ip _ _ hl
  · exact hb.ip _ _ h

theorem ipv4Demux_total (env : Env) (m : Machine) (lk : Link) (bytes : Bytes) (hb : BindingsPresent m) :
    ∃ r, ipv4Demux env m lk bytes = .ok r := by
  unfold ipv4Demux
  cases hdec : Ipv4.fromBytes env.ck bytes with
  | error e =>
    obtain ⟨k, rfl⟩ := ipv4_error_is_err hdec
    exact ⟨_, rfl⟩
  | ok hd =>
    dsimp only
    obtain ⟨hihl, hlen, htl, htl2, hfo⟩ := ipv4_ok_facts hdec
    have a : ¬ hd.totalLength < hd.ihl * guardWord := by
      rw [hihl]; show ¬ hd.totalLength < 5 * 4; omega
    rw [if_neg a]
    by_cases hg : fragmentBeyondMax hd = true
    · rw [if_pos hg]; exact ⟨_, rfl⟩
    · rw [if_neg hg]
      by_cases ht : bytes.length < hd.totalLength
      · rw [if_pos ht]; exact ⟨_, rfl⟩
      rw [if_neg ht]
      have c : ¬ (bytes.take hd.totalLength).length < hd.ihl * ipStripFactor := by
        rw [hihl, List.length_take]; show ¬ min hd.totalLength bytes.length < 5 * 4; omega
      rw [if_neg c]
      cases hu : ipv4Upstream m.dm hd.destination (protoNumber hd.protocol) with
      | none => exact ⟨_, rfl⟩
      | some up =>
        dsimp only
        have hguard : (fragHdr hd).fragOffset * 8 + ((fragHdr hd).totalLength - 20) ≤ 65515 := by
          unfold fragmentBeyondMax at hg
          rw [hihl] at hg
          have : ¬ (hd.fragmentOffset * 8 + (hd.totalLength - 5 * 4) > 65535 - 5 * 4) := by
            intro hc
            exact hg (decide_eq_true hc)
          show hd.fragmentOffset * 8 + (hd.totalLength - 20) ≤ 65515
          omega
        obtain ⟨rr, res, hr⟩ := fresh_receive_ok (fragHdr hd) ((bytes.take hd.totalLength).drop (hd.ihl * ipStripFactor))
          hihl htl hguard
        rw [hr]
        cases res with
        | incomplete t i ep => exact ⟨_, rfl⟩
        | complete h' body' =>
          dsimp only
          rw [if_pos (ipv4Upstream_present hb hu)]
          split
          · exact entered_total (udpDemux_total env m lk _ _ hb)
          · split
            · exact entered_total (tcpDemux_total env m lk _ _)
            · exact ⟨_, rfl⟩

/-- NO frame makes the receive path panic: for every byte string, every protocol named at the
    link layer, every machine state whose IPv4 / UDP bindings name protocols of the machine, every
    link context, checksum feature on or off, `PciSession::receive` RETURNS (`Ok` or a reported
    error).  Covered panic sites: the three `remove_front` assertions (the decoders guarantee the
    octets are there), the checked subtraction of the fragment guard, every checked u16 operation
    and the `unwrap` of `reassembly/segment.rs` (behind the guard of fix 2a82fb5c), the two
    `expect("No such protocol")` (by `BindingsPresent`), the `unwrap` inside `Tcb::enqueue` on the
    LISTEN path. -/
theorem c14_demux_total (env : Env) (m : Machine) (lk : Link) (f : Frame) (hb : BindingsPresent m) :
    ∃ r, receive env m lk f = .ok r := by
  unfold receive
  split
  · split
    · exact ipv4Demux_total env m lk f.bytes hb
    · split
      · exact udpDemux_total env m lk none f.bytes hb
      · split
        · exact tcpDemux_total env m lk none f.bytes
        · exact ⟨_, rfl⟩
  · exact ⟨_, rfl⟩

/-- and so does every sequence of frames, one after the other (the invariant is kept: the
    receive path never touches the IPv4 / UDP bindings or the protocol list) -/
theorem receive_keeps_dm (env : Env) (m : Machine) (lk : Link) (f : Frame) (r : Result)
    (h : receive env m lk f = .ok r) : r.machine.dm = m.dm := by
  have hu : ∀ ip msg r, udpDemux env m lk ip msg = .ok r → r.machine.dm = m.dm := by
    intro ip msg r h
    unfold udpDemux at h
    repeat' split at h
    all_goals first | (cases h; rfl) | cases h
  have ht : ∀ ip msg r, tcpDemux env m lk ip msg = .ok r → r.machine.dm = m.dm := by
    intro ip msg r h
    unfold tcpDemux at h
    dsimp only at h
    repeat' split at h
    all_goals first | (cases h; rfl) | cases h
  have he : ∀ p x r, (∀ r', x = .ok r' → r'.machine.dm = m.dm) → entered p x = .ok r → r.machine.dm = m.dm := by
    intro p x r hx h
    cases x with
    | error s => simp [entered] at h
    | ok r' => simp only [entered, Except.ok.injEq] at h; subst h; exact hx r' rfl
  unfold receive at h
  split at h
  · split at h
    · unfold ipv4Demux at h
      dsimp only at h
      repeat' split at h
      all_goals first
        | (cases h; rfl)
        | (exact he _ _ _ (fun r' hr => hu _ _ r' hr) h)
        | (exact he _ _ _ (fun r' hr => ht _ _ r' hr) h)
        | cases h
    · split at h
      · exact hu _ _ _ h
      · split at h
        · exact ht _ _ _ h
        · cases h; rfl
  · cases h; rfl

theorem c14_demux_total_run (env : Env) (lk : Link) (fs : List Frame) (m : Machine) (hb : BindingsPresent m) :
    ∃ m' rs, runFrames env lk m fs = .ok (m', rs) := by
  induction fs generalizing m with
  | nil => exact ⟨_, _, rfl⟩
  | cons f fs ih =>
    obtain ⟨r, hr⟩ := c14_demux_total env m lk f hb
    have hdm := receive_keeps_dm env m lk f r hr
    have hb' : BindingsPresent r.machine := ⟨by rw [hdm]; exact hb.ip, by rw [hdm]; exact hb.udp⟩
    obtain ⟨m', rs, hrun⟩ := ih r.machine hb'
    exact ⟨m', r :: rs, by simp [runFrames, hr, hrun]⟩


/-- `BindingsPresent` is not an assumption about the run: a machine without bindings has it, and
    `Udp::listen` (with the `Ipv4::listen` it makes) by a protocol of the machine keeps it -/
theorem c14_bindings_present_init (ps : List Pid) (lis : List (Endpoint × Pid)) (ss : List (Endpoints × Session)) :
    BindingsPresent { dm := Demux.Machine.init ps, tcpListen := lis, tcpSessions := ss } :=
  ⟨(fun _ _ h => by simp [Demux.Machine.init, lookup] at h), (fun _ _ h => by simp [Demux.Machine.init, lookup] at h)⟩

theorem lookup_cons_cases {κ ν : Type} [DecidableEq κ] {k k' : κ} {v v' : ν} {l : List (κ × ν)}
    (h : lookup k ((k', v') :: l) = some v) : v = v' ∨ lookup k l = some v := by
  simp only [lookup] at h
  split at h
  · exact .inl (by cases h; rfl)
  · exact .inr h

/-- the machine after `Udp::listen`: unchanged, or with the UDP binding, or with the UDP and the
    IPv4 binding of UDP -/
theorem udpListen_fst (m : Demux.Machine) (up : Pid) (e : Endpoint) :
    (udpListen m up e).1 = m ∨
    (udpListen m up e).1 = { m with udp := (e, up) :: m.udp } ∨
    (udpListen m up e).1 = { m with udp := (e, up) :: m.udp, ip := ((e.addr, protoUdp), pidUdp) :: m.ip } := by
  unfold udpListen
  cases h1 : lookup e m.udp with
  | some a => exact .inl rfl
  | none =>
    dsimp only
    by_cases h2 : pidIpv4 ∈ m.protocols
    · rw [if_pos h2]
      unfold ipv4Listen
      dsimp only
      cases h3 : lookup (e.addr, protoUdp) m.ip with
      | some u =>
        dsimp only
        by_cases h4 : u = pidUdp
        · rw [if_pos h4]; exact .inr (.inl rfl)
        · rw [if_neg h4]; exact .inr (.inl rfl)
      | none => exact .inr (.inr rfl)
    · rw [if_neg h2]; exact .inr (.inl rfl)

theorem c14_bindings_present_listen (m : Machine) (up : Pid) (e : Endpoint) (hb : BindingsPresent m)
    (hup : up ∈ m.dm.protocols) (hudp : pidUdp ∈ m.dm.protocols) :
    BindingsPresent { m with dm := (udpListen m.dm up e).1 } := by
  rcases udpListen_fst m.dm up e with h | h | h
  · rw [h]; exact hb
  · rw [h]
    refine ⟨hb.ip, ?_⟩
    intro ep app hl
    rcases lookup_cons_cases hl with rfl | hl'
    · exact hup
    · exact hb.udp _ _ hl'
  · rw [h]
    refine ⟨?_, ?_⟩
    · intro key u hl
      rcases lookup_cons_cases hl with rfl | hl'
      · exact hudp
      · exact hb.ip _ _ hl'
    · intro ep app hl
      rcases lookup_cons_cases hl with rfl | hl'
      · exact hup
      · exact hb.udp _ _ hl'

def noUpstreamPanic : String := "panic:expect:Ipv4Session::receive:No such protocol"

/-- the hypothesis is needed: an IPv4 binding whose upstream protocol the machine does not have
    makes `Ipv4Session::receive` panic on a perfectly valid datagram (`expect("No such protocol")`) -/
theorem c14_demux_panics_without_upstream :
    ∃ (env : Env) (m : Machine) (lk : Link) (f : Frame),
      (match receive env m lk f with
       | .error s => s == noUpstreamPanic
       | .ok _ => false) = true := by
  refine ⟨⟨false, 0, true⟩,
    { dm := { protocols := [pidIpv4], udp := [], ip := [((anyAddr, 17), 9)] }, tcpListen := [], tcpSessions := [] },
    ⟨0, 1, 1500⟩,
    ⟨pidIpv4, [0x45, 0, 0, 28, 0, 0, 0, 0, 30, 17, 0, 0, 10, 0, 0, 2, 10, 0, 0, 1,
               0x17, 0x70, 0x13, 0x88, 0, 8, 0, 0]⟩, ?_⟩
  decide +kernel

/-! ## a dropped frame is forgotten -/

/-- the frame was dropped: an error came back and nothing was sent -/
def IsDrop (r : Result) : Prop := (∃ e, r.ret = .error e) ∧ r.effects = []

/-- after a dropped frame every later frame — valid or not — is answered exactly as if the
    dropped one had never arrived (same results, same final machine) -/
theorem c14_dropped_frame_is_forgotten (env : Env) (lk : Link) (m : Machine) (f : Frame) (fs : List Frame)
    (r : Result) (h : receive env m lk f = .ok r) (hd : IsDrop r) :
    runFrames env lk m (f :: fs) =
      (match runFrames env lk m fs with
       | .error e => .error e
       | .ok (m', rs) => .ok (m', r :: rs)) := by
  obtain ⟨⟨e, he⟩, _⟩ := hd
  have hm := (c14_err_state_unchanged env m lk f r e h he).1
  simp only [runFrames, h, hm]
  cases runFrames env lk m fs with
  | error e => rfl
  | ok p => rfl

/-! ## non-vacuity: the theorems speak about frames that exist -/

namespace Example

def env : Env := ⟨false, 7, true⟩
def lk : Link := ⟨0, 1, 1500⟩

/-- a machine with IPv4, UDP, TCP, a recorder (pid 10) bound on 10.0.0.1:5000 and a TCP
    listener (pid 11) on 10.0.0.1:8080 -/
def m : Machine :=
  { dm := { protocols := [pidIpv4, pidUdp, pidTcp, 10, 11],
            udp := [(⟨167772161, 5000⟩, 10)],
            ip := [((167772161, 17), pidUdp), ((167772161, 6), pidTcp)] },
    tcpListen := [(⟨167772161, 8080⟩, 11)], tcpSessions := [] }

theorem m_bindings : BindingsPresent m := by
  constructor
  · intro key up h
    simp only [m, lookup] at h
    split at h
    · cases h; decide
    · split at h
      · cases h; decide
      · cases h
  · intro e app h
    simp only [m, lookup] at h
    split at h
    · cases h; decide
    · cases h

/-- 10.0.0.2 → 10.0.0.1, UDP 6000 → 5000, one payload octet -/
def goodUdp : Bytes :=
  [0x45, 0, 0, 29, 0, 0, 0, 0, 30, 17, 0, 0, 10, 0, 0, 2, 10, 0, 0, 1,
   0x17, 0x70, 0x13, 0x88, 0, 9, 0, 0, 0xab]

/-- the same frame with the UDP length field saying 10 -/
def badUdpLen : Bytes :=
  [0x45, 0, 0, 29, 0, 0, 0, 0, 30, 17, 0, 0, 10, 0, 0, 2, 10, 0, 0, 1,
   0x17, 0x70, 0x13, 0x88, 0, 10, 0, 0, 0xab]

/-- a TCP segment whose data offset says 6 words (options this stack refuses) -/
def badTcpOffset : Bytes :=
  [0x45, 0, 0, 44, 0, 0, 0, 0, 30, 6, 0, 0, 10, 0, 0, 2, 10, 0, 0, 1,
   0x9c, 0x40, 0x1f, 0x90, 0, 0, 0, 1, 0, 0, 0, 0, 0x60, 0x02, 0xff, 0xff, 0, 0, 0, 0, 1, 1, 1, 1]

/-- a SYN for the listening port -/
def goodSyn : Bytes :=
  [0x45, 0, 0, 40, 0, 0, 0, 0, 30, 6, 0, 0, 10, 0, 0, 2, 10, 0, 0, 1,
   0x9c, 0x40, 0x1f, 0x90, 0, 0, 0, 1, 0, 0, 0, 0, 0x50, 0x02, 0xff, 0xff, 0, 0, 0, 0]

/-- a lone last fragment at offset 8191 with total length 65535 (the shape of F-C14-S2) -/
def absurdFragment : Bytes :=
  [0x45, 0, 0xff, 0xff, 0, 0, 0x1f, 0xff, 30, 17, 0, 0, 10, 0, 0, 2, 10, 0, 0, 1, 1, 2, 3]

/-- F-C14-S3 witness: total length 29 (one payload octet), UDP length 10, and a second "payload" octet
    behind the end of the IPv4 datagram.  Before the fix `Ipv4::demux` handed all ten octets up, the
    UDP length matched them and the application received `[0xab, 0xcd]` -/
def udpLenBeyondDatagram : Bytes :=
  [0x45, 0, 0, 29, 0, 0, 0, 0, 30, 17, 0, 0, 10, 0, 0, 2, 10, 0, 0, 1,
   0x17, 0x70, 0x13, 0x88, 0, 10, 0, 0, 0xab, 0xcd]

/-- positive control: the good datagram reaches the recorder, with its payload and endpoints -/
example : (receive env m lk ⟨pidIpv4, goodUdp⟩).toOption.map (fun r => (r.ret, r.calls, r.effects.length)) =
    some (.ok (), [pidIpv4, pidUdp], 1) := by decide

def delivered : Effect → Option Delivered
  | .appDemux d => some d
  | _ => none

example : (receive env m lk ⟨pidIpv4, goodUdp⟩).toOption.map (fun r => r.effects.map delivered) =
    some [some { app := 10, payload := [0xab], loc := ⟨167772161, 5000⟩,
                 rem := ⟨167772162, 6000⟩, slot := 0 }] := by decide +kernel

/-- F-C14-S3 regression: the UDP length field claims an octet beyond the IPv4 datagram: dropped at
    the UDP layer (`Err(Header)`), no application entered -/
theorem c14_udp_length_beyond_datagram_regression :
    (receive env m lk ⟨pidIpv4, udpLenBeyondDatagram⟩).toOption.map (fun r => (r.ret, r.calls, r.effects.length)) =
      some (.error .header, [pidIpv4, pidUdp], 0) := by decide

/-- link padding behind a good datagram is cut off: the recorder gets the datagram's one octet -/
example : (receive env m lk ⟨pidIpv4, goodUdp ++ [0, 0, 0xee]⟩).toOption.map (fun r => r.effects.map delivered) =
    some [some { app := 10, payload := [0xab], loc := ⟨167772161, 5000⟩,
                 rem := ⟨167772162, 6000⟩, slot := 0 }] := by decide +kernel

/-- the good datagram cut short by one octet is dropped by `Ipv4::demux` itself -/
example : (receive env m lk ⟨pidIpv4, goodUdp.take 28⟩).toOption.map (fun r => (r.ret, r.calls)) =
    some (.error .header, [pidIpv4]) := by decide

/-- the UDP decoder rejects the second frame, and the theorem's premises hold for it -/
example : ∃ hd e, ReachesTransport env m badUdpLen hd pidUdp ∧
    Udp.fromBytes env.ck (datagramBody hd badUdpLen) (datagramBody hd badUdpLen).length hd.source hd.destination = .error e := by
  refine ⟨{ ihl := 5, tos := 0, totalLength := 29, identification := 0, fragmentOffset := 0, flags := 0,
            ttl := 30, protocol := 17, checksum := 0, source := 167772162, destination := 167772161 },
          .err .lengthMismatch, ⟨by decide, by decide, by decide, by decide, by decide, by decide⟩, by decide⟩

example : ∃ hd e, ReachesTransport env m badTcpOffset hd pidTcp ∧
    Codec.Tcp.fromBytes env.ck (datagramBody hd badTcpOffset) (datagramBody hd badTcpOffset).length hd.source hd.destination = .error e := by
  refine ⟨{ ihl := 5, tos := 0, totalLength := 44, identification := 0, fragmentOffset := 0, flags := 0,
            ttl := 30, protocol := 6, checksum := 0, source := 167772162, destination := 167772161 },
          .err .unexpectedOptions, ⟨by decide, by decide, by decide, by decide, by decide, by decide⟩, by decide⟩

/-- the SYN creates a session (so `tcpDemux` is not the constant "drop" function) -/
example : (receive env m lk ⟨pidIpv4, goodSyn⟩).toOption.map
    (fun r => (r.ret, r.calls, r.machine.tcpSessions.length)) = some (.ok (), [pidIpv4, pidTcp], 1) := by
  decide +kernel

/-- the absurd fragment is stopped by the guard -/
example : (receive env m lk ⟨pidIpv4, absurdFragment⟩).toOption.map (fun r => (r.ret, r.calls)) =
    some (.error .header, [pidIpv4]) := by decide

end Example

end Elvis.Recv
