import ElvisVerif.Lemmas.RouterRefine
/-! Silence of the concrete system: ARP traffic included, every enabled step that is not an
    application send / crafted frame consumes weight, so every run goes quiet. -/
namespace Elvis.Router

/-- number of taps of the topology (bounds the replies one ARP frame can trigger) -/
def Topo.taps (topo : Topo) : Nat := (topo.nodes.map (fun nd => nd.slots.length)).sum

/-- weight of an ARP request: more than all the replies it can trigger -/
def Topo.reqW (topo : Topo) : Nat := topo.taps + 1
/-- weight of one unit of datagram life: a whole retry budget of requests, and two steps -/
def Topo.lifeW (topo : Topo) : Nat := Elvis.Gen.arpResendTries * (topo.reqW + 1) + 2

def cwF (topo : Topo) (f : Frame) : Nat := lifeOf f.pkt.hdr.ttl * topo.lifeW
def cwT (topo : Topo) (t : Task) : Nat := lifeOf t.p.pkt.hdr.ttl * topo.lifeW + 1 + t.tries * (topo.reqW + 1)
def cwA (topo : Topo) (a : ArpFrame) : Nat := if a.isReq then topo.reqW else 1

def cweight (topo : Topo) (s : CState) : Nat :=
  (s.flight.map (cwF topo)).sum + (s.tasks.map (cwT topo)).sum + (s.arpFlight.map (cwA topo)).sum

def cInputWeight (topo : Topo) : CChoice → Nat
  | .send _ pkt => cwT topo (newTask { node := 0, slot := 0, loc := 0, nextHop := 0, viaRouter := false, pkt := pkt })
  | .inject f => cwF topo f
  | _ => 0

def CChoice.enabled (s : CState) : CChoice → Bool
  | .deliver i => i < s.flight.length
  | .task j => j < s.tasks.length
  | .arp a => a < s.arpFlight.length
  | _ => true

def CChoice.isInput : CChoice → Bool
  | .send _ _ => true
  | .inject _ => true
  | _ => false

theorem sum_map_set {α : Type} (f : α → Nat) : ∀ (l : List α) (i : Nat) (x y : α), l[i]? = some x →
    ((l.set i y).map f).sum + f x = (l.map f).sum + f y
  | [], _, _, _, h => by simp at h
  | a :: l, 0, x, y, h => by simp at h; subst h; simp; omega
  | a :: l, i + 1, x, y, h => by
    simp at h
    have := sum_map_set f l i x y h
    simp only [List.set_cons_succ, List.map_cons, List.sum_cons]
    omega

theorem tapsOnFrom_length (net : NetId) : ∀ (nodes : List Node) (i : Nat),
    (tapsOnFrom i nodes net).length ≤ (nodes.map (fun nd => nd.slots.length)).sum
  | [], _ => by simp [tapsOnFrom]
  | nd :: rest, i => by
    have ih := tapsOnFrom_length net rest (i + 1)
    have hf := List.length_filter_le (fun (s : NetId × Mac) => s.1 == net) nd.slots
    simp only [tapsOnFrom, List.length_append, List.length_map, List.map_cons, List.sum_cons]
    omega

theorem tapsOn_length (topo : Topo) (net : NetId) : (tapsOn topo net).length ≤ topo.taps :=
  tapsOnFrom_length net topo.nodes 0

theorem arpReceive_step (fr : ArpFrame) (acc : List Cache × List ArpFrame) (t : Nat × Node × Mac) :
    (arpReceive fr acc t).2 = acc.2 ∨
      (fr.isReq = true ∧ ∃ r : ArpFrame, r.isReq = false ∧ (arpReceive fr acc t).2 = acc.2 ++ [r]) := by
  obtain ⟨n, nd, mac⟩ := t
  unfold arpReceive
  simp only []
  split
  · rename_i hc
    right
    simp only [Bool.and_eq_true] at hc
    exact ⟨hc.1, _, rfl, rfl⟩
  · left; rfl

theorem foldl_arpReceive_replies (fr : ArpFrame) : ∀ (taps : List (Nat × Node × Mac)) (acc : List Cache × List ArpFrame),
    ((taps.foldl (arpReceive fr) acc).2.length ≤ acc.2.length + (if fr.isReq then taps.length else 0)) ∧
    (∀ r ∈ (taps.foldl (arpReceive fr) acc).2, r ∈ acc.2 ∨ r.isReq = false)
  | [], acc => ⟨by simp, fun r hr => .inl hr⟩
  | t :: taps, acc => by
    have ih := foldl_arpReceive_replies fr taps (arpReceive fr acc t)
    simp only [List.foldl_cons, List.length_cons]
    rcases arpReceive_step fr acc t with e | ⟨hq, r0, hr0, e⟩
    · rw [e] at ih
      refine ⟨?_, ih.2⟩
      have := ih.1
      split at this <;> split <;> simp_all <;> omega
    · rw [e] at ih
      refine ⟨?_, ?_⟩
      · have := ih.1
        simp only [hq, if_true, List.length_append, List.length_singleton] at *
        omega
      · intro r hr
        rcases ih.2 r hr with h | h
        · simp only [List.mem_append, List.mem_singleton] at h
          rcases h with h | rfl
          · exact .inl h
          · exact .inr hr0
        · exact .inr h

theorem cwA_replies (topo : Topo) (l : List ArpFrame) (h : ∀ r ∈ l, r.isReq = false) :
    (l.map (cwA topo)).sum = l.length := by
  induction l with
  | nil => rfl
  | cons a l ih =>
    have ha : a.isReq = false := h a (by simp)
    simp only [List.map_cons, List.sum_cons, List.length_cons, cwA, ha]
    rw [ih (fun r hr => h r (by simp [hr]))]
    simp; omega

theorem cstep_weight (topo : Topo) (s s' : CState) (c : CChoice) (h : cstep topo s c = .ok s') :
    cweight topo s' + (c.enabled s && !c.isInput).toNat ≤ cweight topo s + cInputWeight topo c := by
  cases c with
  | deliver i =>
    simp only [cstep] at h
    split at h
    · cases h
    · rename_i fl ps evs hc
      simp only [Except.ok.injEq] at h
      subst h
      have hb := Bool.toNat_le (decide (i < s.flight.length) && !false)
      simp only [cweight, cInputWeight, CChoice.enabled, CChoice.isInput, List.map_append, List.sum_append]
      have sp := deliverCore_spec hc
      cases sp with
      | noFrame hn =>
        have : ¬ i < s.flight.length := by
          intro hl; rw [List.getElem?_eq_getElem hl] at hn; cases hn
        simp [this]
      | gone f hf =>
        have := sum_map_eraseIdx (cwF topo) s.flight i f hf
        have h1 := lifeOf_pos f.pkt.hdr.ttl
        have h2 : topo.lifeW ≤ cwF topo f := by
          simp only [cwF]; exact Nat.le_mul_of_pos_left _ h1
        have h3 : 2 ≤ topo.lifeW := by simp [Topo.lifeW]
        simp at *; omega
      | app f n nd σ port data hf _ _ =>
        have := sum_map_eraseIdx (cwF topo) s.flight i f hf
        have h1 := lifeOf_pos f.pkt.hdr.ttl
        have h2 : topo.lifeW ≤ cwF topo f := by
          simp only [cwF]; exact Nat.le_mul_of_pos_left _ h1
        have h3 : 2 ≤ topo.lifeW := by simp [Topo.lifeW]
        simp at *; omega
      | hopDrop f n hf =>
        have := sum_map_eraseIdx (cwF topo) s.flight i f hf
        have h1 := lifeOf_pos f.pkt.hdr.ttl
        have h2 : topo.lifeW ≤ cwF topo f := by
          simp only [cwF]; exact Nat.le_mul_of_pos_left _ h1
        have h3 : 2 ≤ topo.lifeW := by simp [Topo.lifeW]
        simp at *; omega
      | hopFwd f n nd σ p hf _ _ hr =>
        have := sum_map_eraseIdx (cwF topo) s.flight i f hf
        obtain ⟨v, hp, h1, h2, _⟩ := routerDemux_some hr
        have hl := lifeOf_withTtl_succ f.pkt v h1 h2
        have e1 : cwF topo f = lifeOf (f.pkt.withTtl v).hdr.ttl * topo.lifeW + topo.lifeW := by
          simp only [cwF, ← hl, Nat.add_mul, Nat.one_mul]
        have e2 : cwT topo (newTask p) = lifeOf (f.pkt.withTtl v).hdr.ttl * topo.lifeW + 1 +
            Elvis.Gen.arpResendTries * (topo.reqW + 1) := by
          simp [cwT, newTask, hp]
        have e3 : topo.lifeW = Elvis.Gen.arpResendTries * (topo.reqW + 1) + 2 := rfl
        simp at *; omega
  | send hh pkt =>
    simp only [cstep, Except.ok.injEq] at h
    subst h
    simp only [cweight, cInputWeight, CChoice.enabled, CChoice.isInput, List.map_append, List.sum_append]
    rcases sendCore_spec topo hh pkt with e | ⟨p, nd, e, _, _, hp, _⟩
    · rw [e]; simp
    · rw [e]
      have : cwT topo (newTask p) = cwT topo (newTask { node := 0, slot := 0, loc := 0, nextHop := 0, viaRouter := false, pkt := pkt }) := by
        simp [cwT, newTask, hp]
      simp [this]; omega
  | inject f =>
    simp only [cstep, Except.ok.injEq] at h
    subst h
    simp [cweight, cInputWeight, CChoice.enabled, CChoice.isInput, List.map_append, List.sum_append]
    omega
  | task j =>
    simp only [cstep] at h
    have hb := Bool.toNat_le (decide (j < s.tasks.length) && !false)
    simp only [cInputWeight, CChoice.enabled, CChoice.isInput]
    split at h
    · rename_i hn
      simp only [Except.ok.injEq] at h; subst h
      have : ¬ j < s.tasks.length := by
        intro hl; rw [List.getElem?_eq_getElem hl] at hn; cases hn
      simp [this]
    · rename_i t ht
      have hsum := sum_map_eraseIdx (cwT topo) s.tasks j t ht
      split at h
      · -- table hit
        split at h
        · cases h
        · rename_i fs evs hc
          simp only [Except.ok.injEq] at h
          subst h
          simp only [cweight, List.map_append, List.sum_append]
          rcases resolveCore_spec hc with ⟨rfl, rfl⟩ | ⟨f, rfl, rfl, he⟩
          · simp only [cwT] at *
            simp at *; omega
          · have hf := (emit_some he).1
            have : cwF topo f + 1 ≤ cwT topo t := by simp [cwF, cwT, hf] <;> omega
            simp at *; omega
      · -- failed entry
        simp only [Except.ok.injEq] at h
        subst h
        simp only [cweight, cwT] at *
        simp at *; omega
      · split at h
        · -- give up
          simp only [Except.ok.injEq] at h
          subst h
          simp only [cweight, cwT] at *
          simp at *; omega
        · rename_i htries
          split at h
          · cases h
          · rename_i net smac _
            simp only [Except.ok.injEq] at h
            subst h
            have hset := sum_map_set (cwT topo) s.tasks j t { t with tries := t.tries - 1, started := true } ht
            have e1 : cwT topo { t with tries := t.tries - 1, started := true } + (topo.reqW + 1) = cwT topo t := by
              simp only [cwT]
              have : t.tries = (t.tries - 1) + 1 := by omega
              conv => rhs; rw [this, Nat.add_mul, Nat.one_mul]
              omega
            simp only [cweight, List.map_append, List.sum_append, List.map_cons, List.map_nil, List.sum_cons,
              List.sum_nil, cwA, if_true]
            omega
  | arp a =>
    simp only [cstep] at h
    have hb := Bool.toNat_le (decide (a < s.arpFlight.length) && !false)
    simp only [cInputWeight, CChoice.enabled, CChoice.isInput]
    split at h
    · rename_i hn
      simp only [Except.ok.injEq] at h; subst h
      have : ¬ a < s.arpFlight.length := by
        intro hl; rw [List.getElem?_eq_getElem hl] at hn; cases hn
      simp [this]
    · rename_i fr hfr
      simp only [Except.ok.injEq] at h
      subst h
      have hsum := sum_map_eraseIdx (cwA topo) s.arpFlight a fr hfr
      simp only [cweight, List.map_append, List.sum_append]
      -- the taps the frame reaches, and the replies they send
      have key : ∀ taps : List (Nat × Node × Mac), taps.length ≤ topo.taps →
          ((taps.foldl (arpReceive fr) (s.caches, [])).2.map (cwA topo)).sum + 1 ≤ cwA topo fr := by
        intro taps hlen
        have hr := foldl_arpReceive_replies fr taps (s.caches, [])
        have hall : ∀ r ∈ (taps.foldl (arpReceive fr) (s.caches, [])).2, r.isReq = false := by
          intro r hr'
          rcases hr.2 r hr' with h | h
          · cases h
          · exact h
        rw [cwA_replies topo _ hall]
        have := hr.1
        simp only [cwA, Topo.reqW]
        split <;> simp_all <;> omega
      cases hd : fr.dmac with
      | none =>
        have := key (tapsOn topo fr.net) (tapsOn_length topo fr.net)
        simp only [hd] at *
        simp at *; omega
      | some m =>
        have hlen : (((tapsOn topo fr.net).filter (fun (t : Nat × Node × Mac) => t.2.2 == m)).take 1).length ≤ topo.taps := by
          have h1 := List.length_filter_le (fun (t : Nat × Node × Mac) => t.2.2 == m) (tapsOn topo fr.net)
          have h2 := tapsOn_length topo fr.net
          simp only [List.length_take]
          omega
        have := key _ hlen
        simp only [hd] at *
        simp at *; omega

/-- steps of a concrete run at which an enabled, non-input choice was taken -/
def cActiveSteps (topo : Topo) : CState → List CChoice → Nat
  | _, [] => 0
  | s, c :: cs =>
    (c.enabled s && !c.isInput).toNat +
      match cstep topo s c with
      | .ok s' => cActiveSteps topo s' cs
      | .error _ => 0

def cInputBudget (topo : Topo) (cs : List CChoice) : Nat := (cs.map (cInputWeight topo)).sum

theorem crun_weight (topo : Topo) : ∀ (cs : List CChoice) (s s' : CState), crun topo s cs = .ok s' →
    cActiveSteps topo s cs + cweight topo s' ≤ cweight topo s + cInputBudget topo cs
  | [], s, s', h => by simp [crun] at h; subst h; simp [cActiveSteps, cInputBudget]
  | c :: cs, s, s', h => by
    simp only [crun] at h
    cases hs : cstep topo s c with
    | error e => rw [hs] at h; cases h
    | ok s1 =>
      rw [hs] at h
      have a := cstep_weight topo s s1 c hs
      have b := crun_weight topo cs s1 s' h
      simp only [cActiveSteps, hs, cInputBudget, List.map_cons, List.sum_cons] at *
      omega

theorem cweight_zero (topo : Topo) (s : CState) (h : cweight topo s = 0) :
    s.flight = [] ∧ s.tasks = [] ∧ s.arpFlight = [] := by
  rcases s with ⟨fl, ts, lg, ca, af, al⟩
  simp only [cweight] at h
  have h3 : 2 ≤ topo.lifeW := by simp [Topo.lifeW]
  refine ⟨?_, ?_, ?_⟩
  · cases fl with
    | nil => rfl
    | cons f _ =>
      have h1 := lifeOf_pos f.pkt.hdr.ttl
      have h2 : topo.lifeW ≤ cwF topo f := by
        simp only [cwF]; exact Nat.le_mul_of_pos_left _ h1
      simp at h; omega
  · cases ts with
    | nil => rfl
    | cons t _ => simp [cwT] at h
  · cases af with
    | nil => rfl
    | cons a _ =>
      have : 1 ≤ cwA topo a := by simp only [cwA, Topo.reqW]; split <;> omega
      simp at h; omega

end Elvis.Router
