import ElvisVerif.Lemmas.TcpConvSteady2
/-!
# Iterating the exchange phase: everything unsent gets through

`Done s ta tb`: steady, and on both sides no unsent text, empty retransmission queue, empty one-shot
queue.  `phases_done`: from a steady state whose unsent texts are at most `65535 · n` bytes, `2n + 1`
phases end in a `Done` state (two phases retire a full window of 65535 bytes: one sends, the next
brings the acknowledgment that reopens the window).  `done_stream`: in a `Done` state everything
submitted has been handed to the peer's application.  `done_phase`: a `Done` state is silent and stays
`Done`.
-/
namespace Elvis.Tcp
open Tcb Elvis.ModCmp

structure DoneX (t : Tcb) : Prop where
  text : t.outgoing.text = []
  rtx : t.outgoing.retransmit = []
  one : t.outgoing.oneshot = []

structure Done (s : Sys) (ta tb : Tcb) : Prop where
  steady : Steady s ta tb
  a : DoneX ta
  b : DoneX tb

theorem phases_add (a b : Nat) (s : Sys) :
    phases (a + b) s = match phases a s with
      | .error e => .error e
      | .ok s' => phases b s' := by
  induction a generalizing s with
  | zero => simp [phases]
  | succ n ih =>
    rw [show n + 1 + b = (n + b) + 1 by omega]
    simp only [phases]
    cases phase s with
    | error e => rfl
    | ok s1 => exact ih s1

section
variable {iss : SideId → Seq}

/-- the amount `segments()` takes off the unsent text of an ESTABLISHED endpoint -/
theorem emitAmount_eq {s : Sys} (hg : Good iss s) (x : SideId) (t : Tcb) (ht : (s.side x).tcb = some t)
    (hst : t.state = .Established) :
    emitAmount t = min t.outgoing.text.length (65535 - rtxBytes t.outgoing.retransmit) := by
  unfold emitAmount
  rw [(hg.ext.tcb x t ht).swnd (by rw [hst]; simp)]
  rfl

/-- with nothing unsent, one phase finishes -/
theorem phase_done (s : Sys) (hg : Good iss s) (ta tb : Tcb) (hs : Steady s ta tb)
    (wa : ta.outgoing.text = []) (wb : tb.outgoing.text = []) :
    ∃ s' ta' tb', phase s = .ok s' ∧ PlainRun s s' ∧ Good iss s' ∧ Done s' ta' tb' := by
  obtain ⟨s', ta', tb', hp, hr, hg', hs', pa, pb⟩ := phase_steady s hg ta tb hs
  have ea : emitAmount ta = 0 := by unfold emitAmount; rw [wa]; simp
  have eb : emitAmount tb = 0 := by unfold emitAmount; rw [wb]; simp
  have hsa' : (s'.side .A).tcb = some ta' := hs'.ha
  have hsb' : (s'.side .B).tcb = some tb' := hs'.hb
  -- everything is acknowledged, so the queues are empty
  have qa : ta'.outgoing.retransmit = [] := by
    refine keepOk_empty ta' (hg'.ext.tcb .A ta' hsa').keep ((hg'.conv.full.inv.link .A).snd ta' hsa').1
      (hg'.sent_lt .A ta' hsa') ?_
    rcases hs'.a.lastack with h | ⟨h, hl, _⟩
    · exact h
    · have := pb.one ea
      rw [this] at hl; cases hl
  have qb : tb'.outgoing.retransmit = [] := by
    refine keepOk_empty tb' (hg'.ext.tcb .B tb' hsb').keep ((hg'.conv.full.inv.link .B).snd tb' hsb').1
      (hg'.sent_lt .B tb' hsb') ?_
    rcases hs'.b.lastack with h | ⟨h, hl, _⟩
    · exact h
    · have := pa.one eb
      rw [this] at hl; cases hl
  exact ⟨s', ta', tb', hp, hr, hg', hs', ⟨by rw [pa.text, wa]; simp, qa, pa.one eb⟩,
    ⟨by rw [pb.text, wb]; simp, qb, pb.one ea⟩⟩

/-- two phases retire a window -/
theorem phase_two (s : Sys) (hg : Good iss s) (ta tb : Tcb) (hs : Steady s ta tb) :
    ∃ s' ta' tb', phases 2 s = .ok s' ∧ PlainRun s s' ∧ Good iss s' ∧ Steady s' ta' tb' ∧
      ta'.outgoing.text.length ≤ ta.outgoing.text.length - min ta.outgoing.text.length 65535 ∧
      tb'.outgoing.text.length ≤ tb.outgoing.text.length - min tb.outgoing.text.length 65535 := by
  obtain ⟨s1, ta1, tb1, hp1, hr1, hg1, hs1, pa1, pb1⟩ := phase_steady s hg ta tb hs
  obtain ⟨s2, ta2, tb2, hp2, hr2, hg2, hs2, pa2, pb2⟩ := phase_steady s1 hg1 ta1 tb1 hs1
  refine ⟨s2, ta2, tb2, by simp only [phases, hp1, hp2], hr1.trans hr2, hg2, hs2, ?_, ?_⟩
  · have e0 := emitAmount_eq hg .A ta hs.ha hs.a.st
    have e1 := emitAmount_eq hg1 .A ta1 hs1.ha hs1.a.st
    have l1 : ta1.outgoing.text.length = ta.outgoing.text.length - emitAmount ta := by
      rw [pa1.text, List.length_drop]
    have l2 : ta2.outgoing.text.length = ta1.outgoing.text.length - emitAmount ta1 := by
      rw [pa2.text, List.length_drop]
    have b1 := pa1.bytes
    omega
  · have e0 := emitAmount_eq hg .B tb hs.hb hs.b.st
    have e1 := emitAmount_eq hg1 .B tb1 hs1.hb hs1.b.st
    have l1 : tb1.outgoing.text.length = tb.outgoing.text.length - emitAmount tb := by
      rw [pb1.text, List.length_drop]
    have l2 : tb2.outgoing.text.length = tb1.outgoing.text.length - emitAmount tb1 := by
      rw [pb2.text, List.length_drop]
    have b1 := pb1.bytes
    omega

/-- **`2n + 1` phases suffice** when at most `65535 · n` bytes are unsent on either side -/
theorem phases_done (n : Nat) : ∀ (s : Sys) (ta tb : Tcb), Good iss s → Steady s ta tb →
    ta.outgoing.text.length ≤ 65535 * n → tb.outgoing.text.length ≤ 65535 * n →
    ∃ s' ta' tb', phases (2 * n + 1) s = .ok s' ∧ PlainRun s s' ∧ Good iss s' ∧ Done s' ta' tb' := by
  induction n with
  | zero =>
    intro s ta tb hg hs wa wb
    obtain ⟨s', ta', tb', hp, hr, hg', hd⟩ := phase_done s hg ta tb hs
      (List.eq_nil_of_length_eq_zero (by omega)) (List.eq_nil_of_length_eq_zero (by omega))
    exact ⟨s', ta', tb', by simp only [phases, hp], hr, hg', hd⟩
  | succ n ih =>
    intro s ta tb hg hs wa wb
    obtain ⟨s2, ta2, tb2, hp2, hr2, hg2, hs2, la, lb⟩ := phase_two s hg ta tb hs
    obtain ⟨s', ta', tb', hp, hr, hg', hd⟩ := ih s2 ta2 tb2 hg2 hs2 (by omega) (by omega)
    refine ⟨s', ta', tb', ?_, hr2.trans hr, hg', hd⟩
    rw [show 2 * (n + 1) + 1 = 2 + (2 * n + 1) by omega, phases_add, hp2]
    exact hp

/-- in a `Done` state the receiver's application has been handed everything the peer submitted -/
theorem done_stream {s : Sys} (hg : Good iss s) (ta tb : Tcb) (hd : Done s ta tb) :
    s.b.delivered = s.a.submitted ∧ s.a.delivered = s.b.submitted := by
  have key : ∀ (x : SideId) (t u : Tcb), (s.side x).tcb = some t → (s.side x.peer).tcb = some u →
      SteadyX t u → SteadyX u t → t.outgoing.text = [] → (s.side x.peer).delivered = (s.side x).submitted := by
    intro x t u ht hu S S' htext
    have tx := hg.tinv x t ht
    have tu := hg.tinv x.peer u hu
    rw [SideId.peer_peer] at tu
    obtain ⟨pre, hsub, hnxt⟩ := tx.out
    rw [htext, List.append_nil] at hsub
    have hns : u.state ≠ .SynSent := by rw [S'.st]; simp
    obtain ⟨hrn, hpre⟩ := tu.rcv1 hns
    rw [S'.buf, List.append_nil] at hpre
    rw [S'.buf] at hrn
    have hb := hg.room.side x
    have hlen := hpre.length_le
    -- compare the two sequence numbers
    have e : iss x + 1 + BitVec.ofNat 32 ((s.side x.peer).delivered.length + ([] : List UInt8).length)
        = iss x + 1 + BitVec.ofNat 32 pre.length := by rw [← hrn, ← hnxt]; exact S.sync
    have e2 : BitVec.ofNat 32 ((s.side x.peer).delivered.length + ([] : List UInt8).length) = BitVec.ofNat 32 pre.length := by
      generalize BitVec.ofNat 32 ((s.side x.peer).delivered.length + ([] : List UInt8).length) = p at e
      generalize BitVec.ofNat 32 pre.length = q at e
      bv_omega
    have e3 := congrArg BitVec.toNat e2
    simp only [BitVec.toNat_ofNat, List.length_nil, Nat.add_zero] at e3
    have hl : pre.length = (s.side x).submitted.length := by rw [hsub]
    exact hpre.eq_of_length (by omega)
  exact ⟨key .A ta tb hd.steady.ha hd.steady.hb hd.steady.a hd.steady.b hd.a.text,
    key .B tb ta hd.steady.hb hd.steady.ha hd.steady.b hd.steady.a hd.b.text⟩

/-! ## timer ticks and silence in quiet states -/

/-- everything but the timers is the same -/
structure TmoOnly (t t1 : Tcb) : Prop where
  st : t1.state = t.state
  snd : t1.snd = t.snd
  rcv : t1.rcv = t.rcv
  out : t1.outgoing = t.outgoing
  inc : t1.incoming = t.incoming
  mtu : t1.mtu = t.mtu

theorem advanceTime_quiet (t : Tcb) (dt : Nat) (hq : t.outgoing.retransmit = []) (htw : t.timeouts.timeWait = none) :
    ∃ t1, t.advanceTime dt = .ok (t1, .Ignore) ∧ TmoOnly t t1 := by
  unfold advanceTime advanceRetransmission
  by_cases h1 : dt > t.timeouts.retransmission
  · rw [if_pos h1]
    dsimp only
    rw [htw]
    refine ⟨_, rfl, rfl, rfl, rfl, ?_, rfl, rfl⟩
    show ({ t.outgoing with retransmit := t.outgoing.retransmit.map _ } : Outgoing) = t.outgoing
    rw [hq]
    cases ho : t.outgoing with
    | mk tx rt os => rw [ho] at hq; simp only at hq; subst hq; rfl
  · rw [if_neg h1, if_neg (by omega)]
    dsimp only
    rw [htw]
    exact ⟨_, rfl, rfl, rfl, rfl, rfl, rfl, rfl⟩

theorem SteadyX.of_tmo_left {t u t1 : Tcb} (S : SteadyX t u) (h : TmoOnly t t1) : SteadyX t1 u :=
  ⟨by rw [h.st]; exact S.st, by rw [h.inc]; exact S.heap, by rw [h.inc]; exact S.buf, by rw [h.snd]; exact S.sync,
    by rw [h.out]; exact S.unflag, by rw [h.snd]; exact S.lastack, by rw [h.mtu]; exact S.mtu⟩

theorem SteadyX.of_tmo_right {t u u1 : Tcb} (S : SteadyX t u) (h : TmoOnly u u1) : SteadyX t u1 :=
  ⟨S.st, S.heap, S.buf, by rw [h.rcv]; exact S.sync, S.unflag, by rw [h.out, h.rcv]; exact S.lastack, S.mtu⟩

/-- a timer tick in a steady state with empty retransmission queues changes nothing but the timer -/
theorem tick_quiet (s : Sys) (hg : Good iss s) (ta tb : Tcb) (hs : Steady s ta tb)
    (qa : ta.outgoing.retransmit = []) (qb : tb.outgoing.retransmit = []) (x : SideId) (dt : Nat) :
    ∃ s1 r ta1 tb1, s.step (.tick x dt) = .ok (s1, r) ∧ PlainRun s s1 ∧ Good iss s1 ∧ Steady s1 ta1 tb1 ∧
      TmoOnly ta ta1 ∧ TmoOnly tb tb1 ∧ s1.historyLen = s.historyLen := by
  have twa : ta.timeouts.timeWait = none := by
    have := (hg.conv.nr.tcb .A ta hs.ha).tw
    cases h : ta.timeouts.timeWait with
    | none => rfl
    | some v =>
      have := this (by rw [h]; rfl)
      rw [hs.a.st] at this; cases this
  have twb : tb.timeouts.timeWait = none := by
    have := (hg.conv.nr.tcb .B tb hs.hb).tw
    cases h : tb.timeouts.timeWait with
    | none => rfl
    | some v =>
      have := this (by rw [h]; rfl)
      rw [hs.b.st] at this; cases this
  have good1 : ∀ s1 r, s.step (.tick x dt) = .ok (s1, r) → (∀ y, (s1.side y).submitted = (s.side y).submitted) →
      PlainRun s s1 ∧ Good iss s1 := by
    intro s1 r e hsub
    have r01 : PlainRun s s1 := .step (op := .tick x dt) (.refl _) trivial e
    have hroom : RoomH s1 := by
      have a := hg.room.1
      have b := hg.room.2
      exact ⟨by show (s1.side .A).submitted.length + 2 < _; rw [hsub .A]; exact a,
        by show (s1.side .B).submitted.length + 2 < _; rw [hsub .B]; exact b⟩
    exact ⟨r01, (ext_run hg.conv hg.ext r01 hroom).1, (ext_run hg.conv hg.ext r01 hroom).2, hroom⟩
  cases x with
  | A =>
    obtain ⟨ta1, e1, k1⟩ := advanceTime_quiet ta dt qa twa
    have hsa : (s.side .A).tcb = some ta := hs.ha
    have e : s.step (.tick .A dt) = .ok (s.setSide .A { s.side .A with tcb := some ta1 }, .tick .Ignore) := by
      simp only [Sys.step, Op.side, hsa, e1]
    obtain ⟨r01, g1⟩ := good1 _ _ e (fun y => by cases y <;> rfl)
    exact ⟨_, _, ta1, tb, e, r01, g1, ⟨rfl, hs.hb, hs.a.of_tmo_left k1, hs.b.of_tmo_right k1⟩, k1,
      ⟨rfl, rfl, rfl, rfl, rfl, rfl⟩, rfl⟩
  | B =>
    obtain ⟨tb1, e1, k1⟩ := advanceTime_quiet tb dt qb twb
    have hsb : (s.side .B).tcb = some tb := hs.hb
    have e : s.step (.tick .B dt) = .ok (s.setSide .B { s.side .B with tcb := some tb1 }, .tick .Ignore) := by
      simp only [Sys.step, Op.side, hsb, e1]
    obtain ⟨r01, g1⟩ := good1 _ _ e (fun y => by cases y <;> rfl)
    exact ⟨_, _, ta, tb1, e, r01, g1, ⟨hs.ha, rfl, hs.a.of_tmo_right k1, hs.b.of_tmo_left k1⟩,
      ⟨rfl, rfl, rfl, rfl, rfl, rfl⟩, k1, rfl⟩

/-- a data run without bytes is empty -/
theorem dataRun_nil (lp rp : U16) (ack : Seq) (wnd : U16) (seq : Seq) (l : List Segment)
    (h : DataRun lp rp ack wnd seq l) (h0 : segBytes l = 0) : l = [] := by
  cases l with
  | nil => rfl
  | cons g rest =>
    exfalso
    have := List.length_pos_iff.2 h.2.1
    rw [segBytes_cons] at h0
    omega

/-- **silence**: in a `Done` state `segments()` returns nothing on either side -/
theorem done_silent {s : Sys} (hg : Good iss s) (ta tb : Tcb) (hd : Done s ta tb) (x : SideId) :
    ∃ s1, s.step (.emit x) = .ok (s1, .emitted s.historyLen []) ∧ s1.history = s.history := by
  have key : ∀ (t : Tcb), (s.side x).tcb = some t → t.state = .Established → SPACE_FOR_HEADERS < t.mtu.toNat →
      DoneX t → ∃ s1, s.step (.emit x) = .ok (s1, .emitted s.historyLen []) ∧ s1.history = s.history := by
    intro t ht hst hm dx
    obtain ⟨new, t1, out, e, f⟩ := segments_fwd t (by rw [hst]; trivial) hm
    have h0 : emitAmount t = 0 := by unfold emitAmount; rw [dx.text]; simp
    have hnew : new = [] := by
      have := dataRun_nil _ _ _ _ _ _ f.run (by rw [f.bytes, h0])
      exact List.map_eq_nil_iff.1 this
    have hout : out = [] := by rw [f.out, dx.one, dx.rtx, hnew]; rfl
    subst hout
    refine ⟨_, sys_emit s x t t1 [] ht e, ?_⟩
    show ([] : List Segment).reverse ++ (s.setSide x _).history = s.history
    rw [history_setSide]; rfl
  cases x with
  | A => exact key ta hd.steady.ha hd.steady.a.st hd.steady.a.mtu hd.a
  | B => exact key tb hd.steady.hb hd.steady.b.st hd.steady.b.mtu hd.b

/-- a `Done` state stays `Done` under a further phase -/
theorem done_phase (s : Sys) (hg : Good iss s) (ta tb : Tcb) (hd : Done s ta tb) :
    ∃ s' ta' tb', phase s = .ok s' ∧ PlainRun s s' ∧ Good iss s' ∧ Done s' ta' tb' :=
  phase_done s hg ta tb hd.steady hd.a.text hd.b.text

/-- a fair round (both timers expire, `k` phases) from a steady state with empty retransmission queues -/
theorem fairRound_done (n : Nat) (s : Sys) (ta tb : Tcb) (hg : Good iss s) (hs : Steady s ta tb)
    (qa : ta.outgoing.retransmit = []) (qb : tb.outgoing.retransmit = [])
    (wa : ta.outgoing.text.length ≤ 65535 * n) (wb : tb.outgoing.text.length ≤ 65535 * n) :
    ∃ s' ta' tb', fairRound (2 * n + 1) s = .ok s' ∧ PlainRun s s' ∧ Good iss s' ∧ Done s' ta' tb' := by
  obtain ⟨s1, r1, ta1, tb1, e1, p1, g1, st1, ka1, kb1, _⟩ := tick_quiet s hg ta tb hs qa qb .A (RTO + 1)
  obtain ⟨s2, r2, ta2, tb2, e2, p2, g2, st2, ka2, kb2, _⟩ := tick_quiet s1 g1 ta1 tb1 st1
    (by rw [ka1.out]; exact qa) (by rw [kb1.out]; exact qb) .B (RTO + 1)
  obtain ⟨s', ta', tb', hp, hr, hg', hd⟩ := phases_done n s2 ta2 tb2 g2 st2
    (by rw [ka2.out, ka1.out]; exact wa) (by rw [kb2.out, kb1.out]; exact wb)
  refine ⟨s', ta', tb', ?_, (p1.trans p2).trans hr, hg', hd⟩
  unfold fairRound
  rw [e1]
  dsimp only
  rw [e2]
  exact hp

/-! ## nothing is emitted from a `Done` state, ever -/

/-- `segments()` of an ESTABLISHED endpoint with nothing to send returns nothing -/
theorem segments_done (t : Tcb) (hst : t.state = .Established) (hm : SPACE_FOR_HEADERS < t.mtu.toNat) (dx : DoneX t) :
    ∃ t1, t.segments = .ok (t1, []) := by
  obtain ⟨new, t1, out, e, f⟩ := segments_fwd t (by rw [hst]; trivial) hm
  have h0 : emitAmount t = 0 := by unfold emitAmount; rw [dx.text]; simp
  have hnew : new = [] := by
    have := dataRun_nil _ _ _ _ _ _ f.run (by rw [f.bytes, h0])
    exact List.map_eq_nil_iff.1 this
  have hout : out = [] := by rw [f.out, dx.one, dx.rtx, hnew]; rfl
  subst hout
  exact ⟨t1, e⟩

/-- a phase from a `Done` state leaves the history as it is -/
theorem done_phase_len (s : Sys) (hg : Good iss s) (ta tb : Tcb) (hd : Done s ta tb) :
    ∃ s' ta' tb', phase s = .ok s' ∧ PlainRun s s' ∧ Good iss s' ∧ Done s' ta' tb' ∧ s'.historyLen = s.historyLen := by
  obtain ⟨s', ta', tb', hp, hr, hg', hd'⟩ := done_phase s hg ta tb hd
  refine ⟨s', ta', tb', hp, hr, hg', hd', ?_⟩
  -- compute the phase: both emits return nothing
  have hsa : (s.side .A).tcb = some ta := hd.steady.ha
  have hsb : (s.side .B).tcb = some tb := hd.steady.hb
  obtain ⟨ta1, eA⟩ := segments_done ta hd.steady.a.st hd.steady.a.mtu hd.a
  obtain ⟨s1, r1, st1, h1a, h1p, _, _, h1len, _, _⟩ := emit_facts s .A ta ta1 [] hsa eA
  have h1b : (s1.side .B).tcb = some tb := by
    have : s1.side .B = s.side .B := h1p
    rw [this]; exact hsb
  obtain ⟨tb1, eB⟩ := segments_done tb hd.steady.b.st hd.steady.b.mtu hd.b
  obtain ⟨s2, r2, st2, h2b, h2p, _, _, h2len, _, _⟩ := emit_facts s1 .B tb tb1 [] h1b eB
  have h2a : (s2.side .A).tcb = some ta1 := by
    have : s2.side .A = s1.side .A := h2p
    rw [this]; exact h1a
  have sta1 : ta1.state = .Established := by
    have := segments_keep ta ta1 [] eA
    rw [this.state]; exact hd.steady.a.st
  have stb1 : tb1.state = .Established := by
    have := segments_keep tb tb1 [] eB
    rw [this.state]; exact hd.steady.b.st
  obtain ⟨s5, r5, st5, _, h5p, _, h5len⟩ := read_facts s2 .A ta1 h2a sta1
  have h5b : (s5.side .B).tcb = some tb1 := by
    have : s5.side .B = s2.side .B := h5p
    rw [this]; exact h2b
  obtain ⟨s6, r6, st6, _, _, _, h6len⟩ := read_facts s5 .B tb1 h5b stb1
  have hph : phase s = .ok s6 := by
    unfold phase
    rw [st1]
    dsimp only
    rw [st2]
    dsimp only
    have l1 : s1.historyLen - s.historyLen = 0 := by simp at h1len; omega
    have l2 : s2.historyLen - s1.historyLen = 0 := by simp at h2len; omega
    rw [l1, l2]
    simp only [deliverRange]
    rw [st5]
    dsimp only
    rw [st6]
  rw [hp] at hph
  cases hph
  simp at h1len h2len
  omega

theorem done_phases (k : Nat) : ∀ (s : Sys) (ta tb : Tcb), Good iss s → Done s ta tb →
    ∃ s' ta' tb', phases k s = .ok s' ∧ PlainRun s s' ∧ Good iss s' ∧ Done s' ta' tb' ∧ s'.historyLen = s.historyLen := by
  induction k with
  | zero => intro s ta tb hg hd; exact ⟨s, ta, tb, rfl, .refl _, hg, hd, rfl⟩
  | succ k ih =>
    intro s ta tb hg hd
    obtain ⟨s1, ta1, tb1, hp, hr, hg1, hd1, hl1⟩ := done_phase_len s hg ta tb hd
    obtain ⟨s', ta', tb', hp', hr', hg', hd', hl'⟩ := ih s1 ta1 tb1 hg1 hd1
    exact ⟨s', ta', tb', by simp only [phases, hp]; exact hp', hr.trans hr', hg', hd', by omega⟩

/-- **silence for ever**: any further fair round from a `Done` state ends in a `Done` state with the
    history unchanged — no `segments()` call and no LISTEN/CLOSED handler returned anything -/
theorem done_fairRound (k : Nat) (s : Sys) (ta tb : Tcb) (hg : Good iss s) (hd : Done s ta tb) :
    ∃ s' ta' tb', fairRound k s = .ok s' ∧ PlainRun s s' ∧ Good iss s' ∧ Done s' ta' tb' ∧
      s'.historyLen = s.historyLen := by
  obtain ⟨s1, r1, ta1, tb1, e1, p1, g1, st1, ka1, kb1, l1⟩ := tick_quiet s hg ta tb hd.steady hd.a.rtx hd.b.rtx .A (RTO + 1)
  obtain ⟨s2, r2, ta2, tb2, e2, p2, g2, st2, ka2, kb2, l2⟩ := tick_quiet s1 g1 ta1 tb1 st1
    (by rw [ka1.out]; exact hd.a.rtx) (by rw [kb1.out]; exact hd.b.rtx) .B (RTO + 1)
  have d2 : Done s2 ta2 tb2 :=
    ⟨st2, ⟨by rw [ka2.out, ka1.out]; exact hd.a.text, by rw [ka2.out, ka1.out]; exact hd.a.rtx,
        by rw [ka2.out, ka1.out]; exact hd.a.one⟩,
      ⟨by rw [kb2.out, kb1.out]; exact hd.b.text, by rw [kb2.out, kb1.out]; exact hd.b.rtx,
        by rw [kb2.out, kb1.out]; exact hd.b.one⟩⟩
  obtain ⟨s', ta', tb', hp, hr, hg', hd', hl⟩ := done_phases k s2 ta2 tb2 g2 d2
  refine ⟨s', ta', tb', ?_, (p1.trans p2).trans hr, hg', hd', by omega⟩
  unfold fairRound
  rw [e1]
  dsimp only
  rw [e2]
  exact hp

end
end Elvis.Tcp
