import ElvisVerif.Lemmas.ShiftCmp
import ElvisVerif.Model.Tcb
/-!
# Offset forms of the kernels extracted from `modular_cmp.rs`, and small `BitVec 32` facts (C12)

Helper lemmas for `Props/C12.lean`.  Discipline of DESIGN.md section 4: one characterisation per
predicate, tiny `bv_omega` cancellation facts with at most three variables, `generalize`, then
`omega` with at most two wrapped terms.
-/
namespace Elvis.Tcp
open Elvis.ModCmp
open Elvis.Gen.ModCmp (mod_lt mod_leq mod_gt mod_geq mod_bounded)

theorem sub_add_cancel_left (a d : BitVec 32) : (a + d) - a = d := by bv_omega
theorem sub_add_left_neg (a d : BitVec 32) : a - (a + d) = -d := by bv_omega
theorem sub_toNat_eq_zero (a b : BitVec 32) : (b - a).toNat = 0 ↔ a = b := by
  constructor
  · intro h
    have h0 : b - a = 0#32 := BitVec.eq_of_toNat_eq (by simpa using h)
    bv_omega
  · intro h; subst h; simp

theorem gen_mod_lt_iff (a b : BitVec 32) :
    mod_lt a b = true ↔ 0 < (b - a).toNat ∧ (b - a).toNat < 2147483648 := by
  rw [← modLt_eq_generated]; exact modLt_iff a b

theorem gen_mod_leq_iff (a b : BitVec 32) :
    mod_leq a b = true ↔ (b - a).toNat < 2147483648 := by
  rw [← modLeq_eq_generated]
  unfold modLeq
  rw [Bool.or_eq_true, beq_iff_eq, modLt_iff, ← sub_toNat_eq_zero]
  omega

theorem gen_mod_gt_iff (a b : BitVec 32) :
    mod_gt a b = true ↔ 0 < (a - b).toNat ∧ (a - b).toNat < 2147483648 := by
  rw [← modGt_eq_generated]; unfold modGt; exact modLt_iff b a

theorem gen_mod_geq_iff (a b : BitVec 32) :
    mod_geq a b = true ↔ (a - b).toNat < 2147483648 := by
  rw [← modGeq_eq_generated]
  unfold modGeq modGt
  rw [Bool.or_eq_true, beq_iff_eq, modLt_iff, eq_comm, ← sub_toNat_eq_zero]
  omega

theorem bnd_lo (a b o : BitVec 32) : b - (a - o) = (b - a) + o := by bv_omega
theorem bnd_t1 (x a o1 : BitVec 32) : x - (a - o1) = x - a + o1 := by bv_omega
theorem bnd_t2 (c o2 a : BitVec 32) : (c + o2) - a = (c - a) + o2 := by bv_omega
theorem bnd_hi (a c o1 o2 : BitVec 32) : (c + o2) - (a - o1) = (c - a) + (o2 + o1) := by
  rw [bnd_t1, bnd_t2, BitVec.add_assoc]

theorem toNat_add_small (y k : BitVec 32) (h : y.toNat + k.toNat < 4294967296) :
    (y + k).toNat = y.toNat + k.toNat := by
  rw [BitVec.toNat_add]; omega

theorem toNat_add_one (x : BitVec 32) :
    (x + (1 : BitVec 32)).toNat = if x.toNat = 4294967295 then 0 else x.toNat + 1 := by
  have h1 : (1 : BitVec 32).toNat = 1 := rfl
  have := x.isLt
  rw [BitVec.toNat_add, h1]
  split <;> omega

theorem sub_sub_sub_cancel (a b c : BitVec 32) : c - b = (c - a) - (b - a) := by bv_omega

theorem sub_sub_sub_cancel' (a b c : BitVec 32) : c - b = (c - a) - (b - a) := by bv_omega
theorem sub_right_inj' (a b c : BitVec 32) : a - c = b - c ↔ a = b := by
  constructor
  · intro h; bv_omega
  · intro h; rw [h]


end Elvis.Tcp
