import ElvisVerif.Model.Codec.BytesExtB
import ElvisVerif.Generated.CodecB
/-
Model of `elvis_core::protocols::dns::dns_parsing`
(sim/elvis-core/src/protocols/dns/dns_parsing.rs): `DnsMessage::from_bytes`,
`DnsMessage::to_message` = `DnsHeader::build ++ DnsQuestion::build ++ DnsResourceRecord::build`,
`DnsQuestion::query_name`; and of the two places that decode a datagram from the network:
`DnsServer::respond_to_query` (dns_server.rs) and the response handling of
`DnsClient::get_host_by_name` (dns_client.rs).
Names are terminated on the wire by the byte `b' '` (0x20); rdata is `rdlength` bytes.
Core-only imports (linked into the native driver) + the generated constants.
-/
namespace Elvis.CodecB.Dns
open Elvis.CodecB

/-- the name delimiter `b' '` used by `from_bytes` and both `build`s: the literal as extracted
    from the source on every check (the extractor fails unless all four sites use one literal) -/
def delim : UInt8 := Elvis.Gen.CodecB.dnsDelim

structure DnsHeader where
  id : Nat
  properties : Nat
  qdcount : Nat
  ancount : Nat
  nscount : Nat
  arcount : Nat
deriving Repr, DecidableEq

structure DnsQuestion where
  qname : Bytes
  qtype : Nat
  qclass : Nat
deriving Repr, DecidableEq

structure DnsResourceRecord where
  name : Bytes
  recType : Nat
  cls : Nat
  ttl : Nat
  rdlength : Nat
  rdata : Bytes
deriving Repr, DecidableEq

structure DnsMessage where
  header : DnsHeader
  question : DnsQuestion
  answer : DnsResourceRecord
deriving Repr, DecidableEq

/-- `let mut i: u16 = 0; while i < rdlength { rdata.push(next().ok_or(HTS)?); i += 1; }`
    `fuel` bounds the number of iterations (called with `rdlength`, which suffices because `i`
    grows by one per iteration); `i += 1` is a checked `u16` addition in the dev profile. -/
def rdataLoop (rdlength : Nat) : Nat → Nat → Bytes → Except DecErr (Bytes × Bytes)
  | 0, _, bs => .ok ([], bs)
  | fuel + 1, i, bs =>
    if i < rdlength then
      match bs with
      | [] => .error .tooShort
      | b :: r =>
        if i + 1 > 65535 then .error (.panic "panic:add-overflow:dns_rdata_counter")
        else match rdataLoop rdlength fuel (i + 1) r with
          | .ok (d, r') => .ok (b :: d, r')
          | .error e => .error e
    else .ok ([], bs)

/-- `DnsMessage::from_bytes`, in code order -/
def fromBytes (bs : Bytes) : Except DecErr (DnsMessage × Bytes) := do
  let (id, bs) ← orShort (nextU16 bs)
  let (properties, bs) ← orShort (nextU16 bs)
  let (qdcount, bs) ← orShort (nextU16 bs)
  let (ancount, bs) ← orShort (nextU16 bs)
  let (nscount, bs) ← orShort (nextU16 bs)
  let (arcount, bs) ← orShort (nextU16 bs)
  let (qname, bs) ← orShort (readUntil delim bs)
  let (qtype, bs) ← orShort (nextU16 bs)
  let (qclass, bs) ← orShort (nextU16 bs)
  let (name, bs) ← orShort (readUntil delim bs)
  let (recType, bs) ← orShort (nextU16 bs)
  let (cls, bs) ← orShort (nextU16 bs)
  let (ttl, bs) ← orShort (nextU32 bs)
  let (rdlength, bs) ← orShort (nextU16 bs)
  let (rdata, bs) ← rdataLoop rdlength rdlength 0 bs
  pure ({ header := { id, properties, qdcount, ancount, nscount, arcount },
          question := { qname, qtype, qclass },
          answer := { name, recType, cls, ttl, rdlength, rdata } }, bs)

/-- `DnsHeader::build` -/
def buildHeader (h : DnsHeader) : Bytes :=
  putU16 h.id ++ putU16 h.properties ++ putU16 h.qdcount ++ putU16 h.ancount
    ++ putU16 h.nscount ++ putU16 h.arcount

/-- `DnsQuestion::build` -/
def buildQuestion (q : DnsQuestion) : Bytes :=
  q.qname ++ [delim] ++ putU16 q.qtype ++ putU16 q.qclass

/-- `DnsResourceRecord::build` -/
def buildAnswer (a : DnsResourceRecord) : Bytes :=
  a.name ++ [delim] ++ putU16 a.recType ++ putU16 a.cls ++ putU32 a.ttl ++ putU16 a.rdlength
    ++ a.rdata

/-- `DnsMessage::to_message` (always `Ok`) -/
def toMessage (m : DnsMessage) : Bytes :=
  buildHeader m.header ++ buildQuestion m.question ++ buildAnswer m.answer

/-- `DnsHeader::new(id, RESPONSE)` / `(id, QUERY)` -/
def newHeader (id : Nat) (response : Bool) : DnsHeader :=
  { id, properties := if response then 0x8000 else 0, qdcount := 0, ancount := 0, nscount := 0,
    arcount := 0 }

/-- `DnsQuestion::new` -/
def newQuestion (name : Bytes) : DnsQuestion := { qname := name, qtype := 1, qclass := 1 }

/-- `DnsResourceRecord::new` (`rdlength = 4`, `rdata` = the address bytes) -/
def newRecord (name : Bytes) (ttl ip : Nat) : DnsResourceRecord :=
  { name, recType := 1, cls := 1, ttl, rdlength := 4, rdata := putU32 ip }

/-- `DnsQuestion::query_name` (current code:
    `String::from_utf8(self.qname.clone()).map_err(|_| ParseError::InvalidName)`) -/
def queryName (q : DnsQuestion) : Except DecErr Bytes :=
  if utf8Valid q.qname then .ok q.qname else .error .invalidName

/-- `DnsQuestion::query_name` as it was: `String::from_utf8(self.qname.clone()).unwrap()` -/
def queryNameV0 (q : DnsQuestion) : Except DecErr Bytes :=
  if utf8Valid q.qname then .ok q.qname else .error (.panic "panic:unwrap:dns_query_name")

/-! ### The two places that decode a DNS datagram from the network

`DnsServer::respond_to_query` (dns_server.rs) and the response handling of
`DnsClient::get_host_by_name` (dns_client.rs), as pure functions of the datagram.
`serverRespond` / `clientHandle` follow the CURRENT code (after the `fix:` commit for F-C14-4);
the `…V0` versions are the code before it (counterexample theorems, `c14-dnssim-v0` stream). -/

/-- the name → address table `DnsServer::start` installs
    ("testserver.com" ↦ 123.45.67.15, "google.com" ↦ 123.45.67.60) -/
def serverTable : List (Bytes × Nat) :=
  [([0x74, 0x65, 0x73, 0x74, 0x73, 0x65, 0x72, 0x76, 0x65, 0x72, 0x2e, 0x63, 0x6f, 0x6d], 2066563855),
   ([0x67, 0x6f, 0x6f, 0x67, 0x6c, 0x65, 0x2e, 0x63, 0x6f, 0x6d], 2066563900)]

/-- `DnsServer::create_response` -/
def createResponse (q : DnsMessage) (ip : Nat) : DnsMessage :=
  { header := newHeader q.header.id true, question := newQuestion q.question.qname,
    answer := newRecord q.answer.name q.answer.ttl ip }

/-- `DnsServer::respond_to_query` on one datagram: `some reply` = the bytes sent back, `none` =
    the task ended with `Err(DnsServerError)` (logged; nothing sent).  `socket.recv(80)` hands the
    parser at most the first 80 bytes of the datagram. -/
def serverRespond (datagram : Bytes) : Except DecErr (Option Bytes) :=
  match fromBytes (datagram.take 80) with
  | .error (.panic s) => .error (.panic s)
  | .error _ => .ok none
  | .ok (m, _) =>
    match queryName m.question with
    | .error (.panic s) => .error (.panic s)
    | .error _ => .ok none
    | .ok name =>
      match serverTable.lookup name with
      | none => .ok none
      | some ip => .ok (some (toMessage (createResponse m ip)))

/-- as it was: `from_bytes(..).unwrap()`, `query_name().unwrap()`, and the spawned task
    `respond_to_query(..).await.unwrap()` (so an unknown name panicked as well) -/
def serverRespondV0 (datagram : Bytes) : Except DecErr (Option Bytes) :=
  -- an empty datagram never completes `recv(80)`; at shutdown its `Err(Shutdown)` was unwrapped
  if datagram = [] then .error (.panic "panic:unwrap:dns_server_recv") else
  match fromBytes (datagram.take 80) with
  | .error (.panic s) => .error (.panic s)
  | .error _ => .error (.panic "panic:unwrap:dns_server_from_bytes")
  | .ok (m, _) =>
    match queryName m.question with
    | .error (.panic s) => .error (.panic s)
    | .error _ => .error (.panic "panic:unwrap:dns_server_query_name")
    | .ok name =>
      match serverTable.lookup name with
      | none => .error (.panic "panic:unwrap:dns_server_task")
      | some ip => .ok (some (toMessage (createResponse m ip)))

/-- the response handling of `DnsClient::get_host_by_name(name)` with an empty cache:
    `some ip` = `Ok(ip)`, `none` = `Err(DnsClientError)` -/
def clientHandle (name resp : Bytes) : Except DecErr (Option Nat) :=
  match fromBytes resp with
  | .error (.panic s) => .error (.panic s)
  | .error _ => .ok none
  | .ok (m, _) =>
    if utf8Valid m.answer.name then
      match m.answer.rdata with
      | a :: b :: c :: d :: _ =>
        if m.answer.name = name then
          .ok (some (((a.toNat * 256 + b.toNat) * 256 + c.toNat) * 256 + d.toNat))
        else .ok none
      | _ => .ok none
    else .ok none

/-- as it was: every step unwrapped / indexed -/
def clientHandleV0 (name resp : Bytes) : Except DecErr (Option Nat) :=
  match fromBytes resp with
  | .error (.panic s) => .error (.panic s)
  | .error _ => .error (.panic "panic:unwrap:dns_client_from_bytes")
  | .ok (m, _) =>
    if utf8Valid m.answer.name then
      match m.answer.rdata with
      | a :: b :: c :: d :: _ =>
        if m.answer.name = name then
          .ok (some (((a.toNat * 256 + b.toNat) * 256 + c.toNat) * 256 + d.toNat))
        else .error (.panic "panic:unwrap:dns_client_get_mapping")
      | _ => .error (.panic "panic:index:dns_client_rdata")
    else .error (.panic "panic:unwrap:dns_client_answer_name")

/-- no answer ever arrives: `recv_msg` ends with `Err(Shutdown)` when the simulation stops.
    Current code: `Err(DnsClientError)`; as it was: unwrapped. -/
def clientNoAnswer : Except DecErr (Option Nat) := .ok none
def clientNoAnswerV0 : Except DecErr (Option Nat) := .error (.panic "panic:unwrap:dns_client_recv")

end Elvis.CodecB.Dns
