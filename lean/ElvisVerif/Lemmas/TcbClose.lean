import ElvisVerif.Lemmas.TcbPath
import ElvisVerif.Lemmas.SeqArith
/-!
# Closing: the final ACK releases LAST-ACK, a quiet TIME-WAIT expires, the FIN follows the text

Single-endpoint building blocks of `c03_release` / `c03_fin_after_data`.
-/
namespace Elvis.Tcp
open Elvis.ModCmp Elvis.Rfc9293
namespace Tcb

/-! ## the FIN is formed only when no text is queued, at SND.NXT -/

theorem queueFin_forms (t t' : Tcb) (e : t.queueFin = .ok t') :
    (t.outgoing.text ≠ [] ∧ t' = t) ∨
    (t.outgoing.text = [] ∧ t'.snd.nxt = t.snd.nxt + 1 ∧ t'.outgoing.text = [] ∧
      t'.outgoing.retransmit = t.outgoing.retransmit ++ [Transmit.new ⟨t.finHdr.built, []⟩] ∧
      t.finHdr.built.seq = t.snd.nxt ∧ t.finHdr.built.ctl.fin = true) := by
  unfold queueFin at e
  split at e
  · rename_i hempty
    rw [enqueue_eq] at e
    dsimp only at e
    cases e
    right
    have ht : t.outgoing.text = [] := by simpa using hempty
    refine ⟨ht, rfl, ?_, ?_, rfl, rfl⟩
    · simp only [(enqueueBuilt_frame _ _).2.2.2.2.2.2.1]; exact ht
    · unfold enqueueBuilt
      rw [if_pos (by simp [finHdr, Hdr.built, Hdr.withFin, Hdr.withAck, Hdr.withWnd])]
  · rename_i hne
    cases e
    exact Or.inl ⟨by intro h; simp [h] at hne, rfl⟩

/-- the segmentization loop appends data segments only (no FIN, no SYN) -/
theorem segmentize_appends (maxSeg fuel : Nat) (s : Tcb) (q : Nat) (s' : Tcb)
    (e : segmentize maxSeg fuel s q = .ok s') :
    ∃ new, s'.outgoing.retransmit = s.outgoing.retransmit ++ new ∧
      ∀ t ∈ new, t.segment.hdr.ctl.fin = false ∧ t.segment.hdr.ctl.syn = false := by
  induction fuel generalizing s q with
  | zero => unfold segmentize at e; cases e; exact ⟨[], by simp, fun _ h => by simp at h⟩
  | succ n ih =>
    unfold segmentize at e
    dsimp only at e
    split at e
    · cases e; exact ⟨[], by simp, fun _ h => by simp at h⟩
    · split at e
      · simp at e
      · rename_i header hb
        obtain ⟨new, hr, hn⟩ := ih _ _ e
        have hh : header = s.ackHdr.built := by
          unfold Hdr.build at hb
          split at hb
          · simp at hb
          · simp only [Option.some.injEq] at hb; exact hb.symm
        refine ⟨_ :: new, hr.trans (by rw [List.append_assoc]; rfl), fun t ht => ?_⟩
        rcases List.mem_cons.1 ht with rfl | ht
        · subst hh; exact ⟨rfl, rfl⟩
        · exact hn t ht

/-- **`segments()` forms a FIN only in a call that leaves no text queued, and numbers it last**:
    every FIN-bearing entry on the retransmission queue afterwards was there before, or carries
    no text, sits at `SND.NXT − 1` of the result, and the result has no text queued -/
theorem segments_fin_last (s s' : Tcb) (out : List Segment) (e : s.segments = .ok (s', out)) :
    ∀ t ∈ s'.outgoing.retransmit, t.segment.hdr.ctl.fin = true →
      (∃ t0 ∈ s.outgoing.retransmit, t0.segment = t.segment) ∨
      (t.segment.text = [] ∧ t.segment.hdr.seq + 1 = s'.snd.nxt ∧ s'.outgoing.text = []) := by
  unfold segments at e
  dsimp only at e
  cases h1 : segmentizeIfOpen { s with outgoing.oneshot := [] } with
  | error err => rw [h1] at e; simp at e
  | ok s1 =>
    rw [h1] at e
    dsimp only at e
    have k1 : ∃ new, s1.outgoing.retransmit = s.outgoing.retransmit ++ new ∧
        ∀ t ∈ new, t.segment.hdr.ctl.fin = false ∧ t.segment.hdr.ctl.syn = false := by
      unfold segmentizeIfOpen at h1
      split at h1
      all_goals first
        | (cases h1; exact ⟨[], by simp, fun _ h => by simp at h⟩)
        | (split at h1
           · simp at h1
           · have := segmentize_appends _ _ _ _ _ h1
             exact this)
    obtain ⟨new, hr1, hn1⟩ := k1
    cases h2 : finIfPending s.finPending s1 with
    | error err => rw [h2] at e; simp at e
    | ok s2 =>
      rw [h2] at e
      dsimp only at e
      have k2 : s2.outgoing.retransmit = s1.outgoing.retransmit ∨
          (s2.outgoing.retransmit = s1.outgoing.retransmit ++ [Transmit.new ⟨s1.finHdr.built, []⟩] ∧
            s1.finHdr.built.seq + 1 = s2.snd.nxt ∧ s2.outgoing.text = []) := by
        unfold finIfPending at h2
        split at h2
        · rcases queueFin_forms _ _ h2 with ⟨_, rfl⟩ | ⟨_, hn, ht, hr, hs, _⟩
          · exact Or.inl rfl
          · exact Or.inr ⟨hr, by rw [hs, hn], ht⟩
        · cases h2; exact Or.inl rfl
      simp only [Except.ok.injEq, Prod.mk.injEq] at e
      obtain ⟨hs', _⟩ := e
      have hq : s'.outgoing.retransmit = s2.outgoing.retransmit.map fun t => { t with needsTransmit := false } := by
        rw [← hs']; split <;> rfl
      have hnx : s'.snd.nxt = s2.snd.nxt ∧ s'.outgoing.text = s2.outgoing.text := by
        rw [← hs']; split <;> exact ⟨rfl, rfl⟩
      intro t ht hfin
      rw [hq] at ht
      obtain ⟨t2, ht2, rfl⟩ := List.mem_map.1 ht
      dsimp only at hfin ⊢
      rcases k2 with k2 | ⟨k2, hseq, htext⟩
      · rw [k2, hr1] at ht2
        rcases List.mem_append.1 ht2 with h | h
        · exact Or.inl ⟨t2, h, rfl⟩
        · rw [(hn1 t2 h).1] at hfin; simp at hfin
      · rw [k2, hr1] at ht2
        rcases List.mem_append.1 ht2 with h | h
        · rcases List.mem_append.1 h with h | h
          · exact Or.inl ⟨t2, h, rfl⟩
          · rw [(hn1 t2 h).1] at hfin; simp at hfin
        · simp only [List.mem_singleton] at h
          subst h
          right
          rw [hnx.1, hnx.2]
          exact ⟨rfl, hseq, htext⟩

/-! ## LAST-ACK: the acknowledgment of our FIN releases the TCB -/

/-- `SND.UNA < SND.NXT` with less than 2^31 outstanding: an ACK of exactly `SND.NXT` is new and
    valid -/
theorem ack_of_nxt (una nxt : Seq) (h1 : 0 < (nxt - una).toNat) (h2 : (nxt - una).toNat < 2147483648) :
    modLeq nxt una = false ∧ modBounded una .Lt nxt .Leq nxt = true := by
  constructor
  · cases h : modLeq nxt una with
    | false => rfl
    | true =>
      exfalso
      unfold modLeq at h
      rw [Bool.or_eq_true, beq_iff_eq, modLt_iff] at h
      rcases h with h | h
      · subst h
        have e : nxt - nxt = 0 := by bv_omega
        rw [e] at h1
        exact absurd h1 (by decide)
      · have e : una - nxt = 0 - (nxt - una) := by bv_omega
        rw [e] at h
        generalize nxt - una = d at h1 h2 h
        have h0' : (0 : BitVec 32).toNat = 0 := rfl
        simp only [BitVec.toNat_sub, h0'] at h
        omega
  · unfold modBounded
    rw [cyc_iff]
    simp only [Cmp.offset]
    have e0 : una - 0 = una := by bv_omega
    have e2 : nxt + 1 - una = (nxt - una) + 1 := by bv_omega
    rw [e0, e2]
    generalize nxt - una = d at h1 h2 ⊢
    have h1' : (1 : BitVec 32).toNat = 1 := rfl
    simp only [BitVec.toNat_add, h1']
    omega

/-- a new, valid acknowledgment: `SND.UNA` becomes `SEG.ACK`; state, `SND.NXT`, queued text as
    they were -/
theorem ackEstablished_valid (s : Tcb) (seg : Hdr) (h1 : modLeq seg.ack s.snd.una = false)
    (h2 : modBounded s.snd.una .Lt seg.ack .Leq s.snd.nxt = true) :
    ∃ s1, s.ackEstablishedProcessing seg = .ok (s1, .Success) ∧ s1.snd.una = seg.ack ∧
      s1.snd.nxt = s.snd.nxt ∧ s1.state = s.state ∧ s1.outgoing.text = s.outgoing.text := by
  unfold ackEstablishedProcessing
  rw [h1, h2]
  simp only [Bool.false_eq_true, if_false, Bool.not_true]
  unfold removeAckedFromRetransmission
  split <;> exact ⟨_, rfl, rfl, rfl, rfl, rfl⟩

/-- **LAST-ACK is released by the final ACK.**  In LAST-ACK with the FIN formed (no text
    queued) and outstanding (`SND.UNA < SND.NXT`, fewer than 2^31 sequence numbers), an acceptable
    segment without RST… whose ACK acknowledges everything (`SEG.ACK = SND.NXT`) makes
    `process_segment` return `FinalizeClose`: the caller deletes the TCB. -/
theorem processSegment_lastAck_release (s : Tcb) (segment : Segment) (hst : s.state = .LastAck)
    (htext : s.outgoing.text = [])
    (hout1 : 0 < (s.snd.nxt - s.snd.una).toNat) (hout2 : (s.snd.nxt - s.snd.una).toNat < 2147483648)
    (hacc : s.isSeqOk (BitVec.ofNat 32 segment.text.length) segment.hdr.seq segment.hdr.ctl.syn
      segment.hdr.ctl.fin = .ok true)
    (hack : segment.hdr.ctl.ack = true) (hval : segment.hdr.ack = s.snd.nxt) :
    ∃ s', s.processSegment segment = .ok (s', .FinalizeClose) := by
  obtain ⟨hle, hb⟩ := ack_of_nxt s.snd.una s.snd.nxt hout1 hout2
  unfold processSegment
  dsimp only
  have e1 : seqCheck s segment.hdr (BitVec.ofNat 32 segment.text.length) = .ok (s, none) := by
    unfold seqCheck; rw [hst, hacc]
  rw [e1, andThen_none]
  have e2 : ∃ s1, ackBlock s segment.hdr = .ok (s1, some .FinalizeClose) := by
    obtain ⟨s1, ea, hu, hn, hs, ht⟩ := ackEstablished_valid s segment.hdr (by rw [hval]; exact hle)
      (by rw [hval]; exact hb)
    have fin : s1.isFinAcked = true := by
      unfold isFinAcked finPending
      rw [hs, hst, ht, htext, hu, hn, hval]; simp
    unfold ackBlock
    rw [if_neg (by simp [hack]), hst]
    dsimp only
    unfold afterAckEstablished
    rw [ea]
    dsimp only
    rw [if_pos fin]
    exact ⟨_, rfl⟩
  obtain ⟨s1, e2⟩ := e2
  rw [e2, andThen_some]
  exact ⟨_, rfl⟩

/-! ## TIME-WAIT: only a FIN restarts the timer; left alone it expires -/

/-- **a segment without FIN and RST changes nothing in TIME-WAIT** but the one-shot queue: the
    state stays TIME-WAIT and the 2·MSL timer keeps running (before the repair of F-C03-1 every
    ACK restarted it) -/
theorem processSegment_timeWait_quiet (s : Tcb) (segment : Segment) (hst : s.state = .TimeWait)
    (hfin : segment.hdr.ctl.fin = false) (hrst : segment.hdr.ctl.rst = false)
    (s' : Tcb) (r : ProcessSegmentResult) (e : s.processSegment segment = .ok (s', r)) :
    Keep s s' ∧ r.shouldDeleteTcb = false := by
  unfold processSegment at e
  dsimp only at e
  cases h1 : seqCheck s segment.hdr (BitVec.ofNat 32 segment.text.length) with
  | error err => rw [h1] at e; simp [B.andThen] at e
  | ok p1 =>
    obtain ⟨s1, r1⟩ := p1
    obtain ⟨k1, nd1⟩ := seqCheck_edges _ _ _ _ _ h1
    rw [h1] at e
    cases r1 with
    | some x => simp only [andThen_some] at e; cases e; exact ⟨k1, nd1 _ rfl⟩
    | none =>
      simp only [andThen_none] at e
      have st1 : s1.state = .TimeWait := k1.state.trans hst
      have e2 : ackBlock s1 segment.hdr = .ok (s1, none) := by
        unfold ackBlock
        split
        · rfl
        · rw [st1]
      rw [e2, andThen_none] at e
      have e3 : rstBlock s1 segment.hdr = .ok (s1, none) := by
        unfold rstBlock; rw [hrst]; rfl
      rw [e3, andThen_none] at e
      cases h4 : synBlock s1 segment.hdr with
      | error err => rw [h4] at e; simp [B.andThen] at e
      | ok p4 =>
        obtain ⟨s4, r4⟩ := p4
        rw [h4] at e
        have k4 : Keep s1 s4 ∧ (∀ x, r4 = some x → x.shouldDeleteTcb = false) := by
          unfold synBlock at h4
          split at h4
          · rw [if_neg (by rw [st1]; simp)] at h4
            cases h4; exact ⟨Keep.refl _, nd_none⟩
          · rw [st1] at h4
            dsimp only at h4
            rw [enqueueThen_eq] at h4
            cases h4
            exact ⟨keep_enqueueBuilt _ _, nd_some rfl⟩
        cases r4 with
        | some x =>
          simp only [andThen_some] at e; cases e
          exact ⟨k1.trans k4.1, k4.2 _ rfl⟩
        | none =>
          simp only [andThen_none] at e
          cases h5 : textBlock s4 segment.hdr segment.text (BitVec.ofNat 32 segment.text.length) with
          | error err => rw [h5] at e; simp [B.andThen] at e
          | ok p5 =>
            obtain ⟨s5, r5⟩ := p5
            obtain ⟨k5, hr5⟩ := textBlock_edges _ _ _ _ _ _ h5
            subst hr5
            rw [h5, andThen_none] at e
            have e6 : finBlock s5 segment.hdr (BitVec.ofNat 32 segment.text.length) = .ok (s5, none) := by
              unfold finBlock; rw [hfin]; rfl
            rw [e6] at e
            cases e
            exact ⟨(k1.trans k4.1).trans k5, rfl⟩

theorem advanceRetransmission_tw (s : Tcb) (dt : Nat) :
    ∃ s1, s.advanceRetransmission dt = .ok s1 ∧ s1.state = s.state ∧
      s1.timeouts.timeWait = s.timeouts.timeWait := by
  unfold advanceRetransmission
  by_cases h : dt > s.timeouts.retransmission
  · rw [if_pos h]; exact ⟨_, rfl, rfl, rfl⟩
  · rw [if_neg h, if_neg (by omega)]; exact ⟨_, rfl, rfl, rfl⟩

/-- `advance_time` in TIME-WAIT: the timer runs down and the TCB is deleted exactly when more
    time than is left has passed -/
theorem advanceTime_timeWait (s : Tcb) (dt tw : Nat) (htw : s.timeouts.timeWait = some tw) :
    (tw < dt → ∃ s', s.advanceTime dt = .ok (s', .CloseConnection)) ∧
    (dt ≤ tw → ∃ s', s.advanceTime dt = .ok (s', .Ignore) ∧ s'.state = s.state ∧
      s'.timeouts.timeWait = some (tw - dt)) := by
  obtain ⟨s1, e1, st1, tw1⟩ := advanceRetransmission_tw s dt
  unfold advanceTime
  rw [e1]
  dsimp only
  rw [tw1, htw]
  dsimp only
  constructor
  · intro h
    rw [if_pos h]; exact ⟨_, rfl⟩
  · intro h
    rw [if_neg (by omega), if_neg (by omega)]
    exact ⟨_, rfl, st1, rfl⟩

end Tcb
end Elvis.Tcp
