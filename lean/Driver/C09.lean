import ElvisVerif.Model.IpTable
import Driver.Common
/-! Line-protocol handlers for C09 (sub-commands `c09` / `c09-*`): subnet arithmetic, CIDR text and
the IP table.  Addresses and masks travel as decimal `u32`, strings as hex of their bytes. -/
namespace Driver.C09
open Elvis.Subnet Elvis.IpTable

def addr (s : String) : Option Addr := do
  let n ← s.toNat?
  if n < 4294967296 then some (BitVec.ofNat 32 n) else none

def str (s : String) : Option Str := (Driver.parseHex s).map fun bs => bs.map (·.toNat)

def strHex (s : Str) : String := Driver.toHex (s.map UInt8.ofNat)

def netTok (s : String) : Option Net :=
  match s.splitOn "/" with
  | [a, l] => do pure (Net.new (← addr a) (Mask.fromBitcount (← l.toNat?)))
  | _ => none

def showOpt : Option Nat → String
  | none => "-"
  | some v => toString v

def showNet (n : Net) : String := s!"{n.id.toNat}/{n.mask.countOnes}"

def dump (t : Table Nat) : String :=
  if t.isEmpty then "-" else ",".intercalate (t.map fun (k, v) => s!"{showNet k}={v}")

def showCidr (s : Str) : String :=
  match cidrToIp s, Net.fromCidr s with
  | .ok (ip, m), .ok n => s!"ok {ip.toNat} {m.bits.toNat} {showNet n}"
  | .error .ipv4, _ => "err ipv4"
  | .error .mask, _ => "err mask"
  | _, _ => "err inconsistent"

def bit (b : Bool) : Char := if b then '1' else '0'

def showOverlaps (a b : Net) : String :=
  match a.overlaps b with
  | .ok r => (bit r).toString
  | .error _ => "P"

def step (t : Table Nat) (ws : List String) : Table Nat × String :=
  let bad := (t, "bad-op")
  match ws with
  | ["case", id] => ([], s!"case {id}")
  | ["add", ip, l, v] =>
    match addr ip, l.toNat?, v.toNat? with
    | some ip, some l, some v =>
      let (old, t') := add t (Net.new ip (Mask.fromBitcount l)) v
      (t', s!"ok old={showOpt old} iter={dump t'}")
    | _, _, _ => bad
  | ["add1", ip, v] =>
    match addr ip, v.toNat? with
    | some ip, some v =>
      let (old, t') := add t (Net.new1 ip) v
      (t', s!"ok old={showOpt old} iter={dump t'}")
    | _, _ => bad
  | ["remove", ip, l] =>
    match addr ip, l.toNat? with
    | some ip, some l =>
      let (old, t') := remove t (Net.new ip (Mask.fromBitcount l))
      (t', s!"ok old={showOpt old} iter={dump t'}")
    | _, _ => bad
  | ["add_direct", ip, v] =>
    match addr ip, v.toNat? with
    | some ip, some v =>
      match Elvis.IpTable.step t (.addDirect ip v) with
      | .ok t' => (t', s!"ok iter={dump t'}")
      | .error e => (t, s!"err {e} iter={dump t}")
    | _, _ => bad
  | ["remove_direct", ip] =>
    match addr ip with
    | some ip =>
      let old := find (Net.new ip (Mask.fromBitcount 32)) t
      match Elvis.IpTable.step t (.removeDirect ip) with
      | .ok t' => (t', s!"ok old={showOpt old} iter={dump t'}")
      | .error e => (t, s!"err {e} iter={dump t}")
    | none => bad
  | ["add_cidr", h, v] =>
    match str h, v.toNat? with
    | some s, some v =>
      match Elvis.IpTable.step t (.addCidr s v) with
      | .ok t' => (t', s!"ok iter={dump t'}")
      | .error e => (t, s!"err {e} iter={dump t}")
    | _, _ => bad
  | ["remove_cidr", h] =>
    match str h with
    | some s =>
      match Elvis.IpTable.step t (.removeCidr s) with
      | .ok t' => (t', s!"ok iter={dump t'}")
      | .error e => (t, s!"err {e} iter={dump t}")
    | none => bad
  | ["gateway", v] =>
    match v.toNat? with
    | some v =>
      match defaultGateway v with
      | .ok t' => (t', s!"ok iter={dump t'}")
      | .error e => (t, s!"err {e} iter={dump t}")
    | none => bad
  | "gets" :: as =>
    match as.mapM addr with
    | some as => (t, " ".intercalate (as.map fun a => showOpt (getRecipient t a)))
    | none => bad
  | ["net", ip, l] =>
    match addr ip, l.toNat? with
    | some ip, some l =>
      let n := Net.newShort ip l
      let bc := match n.broadcast with
        | .ok b => toString b.toNat
        | .error e => e
      (t, s!"id={n.id.toNat} len={n.mask.countOnes} bits={n.mask.toU32.toNat} bc={bc} ips={n.mask.ipsInNet} usable={n.mask.usableIps}")
    | _, _ => bad
  | "contains" :: n :: as =>
    match netTok n, as.mapM addr with
    | some n, some as => (t, String.ofList (as.map fun a => bit (n.contains a)))
    | _, _ => bad
  | "ovl" :: ns =>
    match ns.mapM netTok with
    | some ns => (t, " ".intercalate (ns.map fun a => String.join (ns.map fun b => showOverlaps a b)))
    | none => bad
  | ["range", s, e] =>
    match addr s, addr e with
    | some s, some e =>
      (t, match Net.tryFromRange s e with
        | .ok (.ok n) => s!"ok {showNet n}"
        | .ok (.error .empty) => "err empty"
        | .ok (.error .size) => "err size"
        | .ok (.error .start) => "err start"
        | .error p => s!"err {p}")
    | _, _ => bad
  | ["mask", m] =>
    match addr m with
    | some m =>
      (t, match Mask.tryFrom m with
        | .ok r => s!"ok {r.countOnes} {r.bits.toNat}"
        | .error x => s!"err {x.toNat}")
    | none => bad
  | ["bitcount", n] =>
    match n.toNat? with
    | some n => let m := Mask.fromBitcount n; (t, s!"{m.bits.toNat} {m.countOnes}")
    | none => bad
  | ["cidr", h] =>
    match str h with
    | some s => (t, showCidr s)
    | none => bad
  | ["render", ip, l] =>
    match addr ip, l.toNat? with
    | some ip, some l =>
      let n := Net.newShort ip l
      let s := renderCidr n.id n.mask.countOnes
      (t, s!"{strHex s} {showCidr s}")
    | _, _ => bad
  | _ => bad

def dispatch (sub : String) (i o : IO.FS.Stream) : Option (IO Unit) :=
  if sub == "c09" || sub.startsWith "c09-" then some (Driver.loop i o step []) else none

end Driver.C09
