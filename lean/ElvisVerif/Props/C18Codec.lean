import ElvisVerif.Props.C08
import ElvisVerif.Props.C08Tcp
import ElvisVerif.Lemmas.Verify
/-!
# C18, part 2 — the three codecs with `compute_checksum` on (`ck = true`)

* `c18_emitted_verifies_p`  — what the encoder emits verifies under RFC 1071 (pseudo header and
  odd-length padding included);
* `c18_accepts_reference_p` — a structurally valid packet whose checksum verifies is accepted,
  whichever representation of zero the sender chose (F-C18-1, fixed);
* `c18_detects_p`           — a packet that does not verify is rejected; hence any alteration
  that changes the one's-complement sum (`c18_detects_changed_p`);
* `c18_single_bit_p`, `c18_double_bit_p` — every single-bit corruption is rejected; a double-bit
  corruption is rejected unless the two flips cancel (`c18_double_bit_cancel_iff`: same bit
  position of two 16-bit words, opposite directions).
Property theorems only (helper lemmas: `Lemmas/{Checksum,Flip,Verify}.lean`).
-/
namespace Elvis.Ck
open Elvis.Codec Elvis.Rfc1071

/-- the exact characterisation of undetectable double-bit corruption, on the plain word sum:
    the sum is unchanged modulo 65535 iff both flips move the same power of two (same bit of
    the 16-bit word) in opposite directions -/
theorem c18_double_bit_cancel_iff (bs : List UInt8) (i k j l : Nat) (hi : i < bs.length)
    (hk : k < 8) (hj : j < bs.length) (hl : l < 8) :
    wsum (flipAt (flipAt bs i k) j l) % 65535 = wsum bs % 65535 ↔
      (delta i k = delta j l ∧ bitAt bs i k ≠ bitAt (flipAt bs i k) j l) :=
  double_flip_unchanged_iff bs i k j l hi hk hj hl

/-- a second flip elsewhere reads the original bit: the direction of each flip is that of the
    uncorrupted packet -/
theorem c18_double_bit_directions (bs : List UInt8) (i k j l : Nat) (hk : k < 8) (hl : l < 8)
    (hne : ¬ (i = j ∧ k = l)) : bitAt (flipAt bs i k) j l = bitAt bs j l :=
  bitAt_flipAt_other bs i k j l hk hl hne

/-- single-bit corruption always changes the sum modulo 65535 (`2^k ≢ 0`) -/
theorem c18_single_bit_sum (bs : List UInt8) (i k : Nat) (hi : i < bs.length) (hk : k < 8) :
    wsum (flipAt bs i k) % 65535 ≠ wsum bs % 65535 :=
  single_flip_changes bs i k hi hk

end Elvis.Ck

/-! ## IPv4 -/
namespace Elvis.Codec.Ipv4
open Elvis.Ck Elvis.Codec Elvis.Rfc1071

/-- an accepted header verifies under RFC 1071 -/
theorem c18_accepted_verifies_ipv4 {hdr rest : List UInt8} {h : Header} (hl : hdr.length = 20)
    (ha : fromBytes true (hdr ++ rest) = .ok h) : verifies (wordsOf hdr) := by
  obtain ⟨b0, b1, b2, b3, b4, b5, b6, b7, b8, b9, b10, b11, b12, b13, b14, b15, b16, b17, b18, b19,
    rest', e, h0, _, _, _, hm, _⟩ := fromBytes_ok_inv ha
  rw [hdr_eq_of_append hl e]
  exact (matches_iff_verifies b0 b1 b2 b3 b4 b5 b6 b7 b8 b9 b10 b11 b12 b13 b14 b15 b16 b17 b18 b19
    (by omega)).mp hm

/-- **emitted checksums verify**: the 20 bytes `Ipv4HeaderBuilder::build` emits sum (one's
    complement, checksum field included) to `0xffff` -/
theorem c18_emitted_verifies_ipv4 (b : Builder) (hb : b.Wf) :
    ∃ bytes, build true b = .ok bytes ∧ verifies (wordsOf bytes) := by
  obtain ⟨bytes, e1, e2, e3⟩ := c08_ipv4_build_decode true b hb []
  exact ⟨bytes, e1, c18_accepted_verifies_ipv4 e2 e3⟩

/-- **reference checksums are accepted**: a version-4, IHL-5 header with clear reserved bits and
    `total_length ≥ 20` whose 20 bytes verify under RFC 1071 is accepted — for either
    representation of zero in the checksum field -/
theorem c18_accepts_reference_ipv4
    (b0 b1 b2 b3 b4 b5 b6 b7 b8 b9 b10 b11 b12 b13 b14 b15 b16 b17 b18 b19 : UInt8)
    (rest : List UInt8) (h0 : b0.toNat = 69) (h1 : b1.toNat % 4 = 0) (h2 : 20 ≤ W b2 b3)
    (h3 : b6.toNat / 128 = 0)
    (hv : verifies (wordsOf [b0, b1, b2, b3, b4, b5, b6, b7, b8, b9, b10, b11, b12, b13, b14, b15,
      b16, b17, b18, b19])) :
    ∃ h, fromBytes true (b0 :: b1 :: b2 :: b3 :: b4 :: b5 :: b6 :: b7 :: b8 :: b9 :: b10 :: b11 ::
      b12 :: b13 :: b14 :: b15 :: b16 :: b17 :: b18 :: b19 :: rest) = .ok h ∧ h.checksum = W b10 b11 := by
  have hm := (matches_iff_verifies b0 b1 b2 b3 b4 b5 b6 b7 b8 b9 b10 b11 b12 b13 b14 b15 b16 b17
    b18 b19 (by omega)).mpr hv
  have := b7.toNat_lt
  rw [fromBytes_cons20]
  rw [if_neg (by omega), if_neg (by omega), if_neg (by omega), if_neg (by omega),
    if_neg (by simp only [W]; omega), if_neg (by simp [hm])]
  exact ⟨_, rfl, rfl⟩

/-- the former witness of F-C18-1: the RFC 1071 sender's `0x0000` and the code's own `0xffff`
    are both accepted for a header whose words sum to `0xffff` -/
example :
    (∃ h, fromBytes true [0x45, 0, 0, 20, 0x9e, 0xd7, 0, 0, 0x1e, 0x11, 0, 0, 127, 0, 0, 1, 127, 0, 0, 1] = .ok h) ∧
    (∃ h, fromBytes true [0x45, 0, 0, 20, 0x9e, 0xd7, 0, 0, 0x1e, 0x11, 0xff, 0xff, 127, 0, 0, 1, 127, 0, 0, 1] = .ok h) := by
  constructor
  · exact ⟨_, (c18_accepts_reference_ipv4 _ _ _ _ _ _ _ _ _ _ _ _ _ _ _ _ _ _ _ _ [] (by decide)
      (by decide) (by decide) (by decide) (by decide)).choose_spec.1⟩
  · exact ⟨_, (c18_accepts_reference_ipv4 _ _ _ _ _ _ _ _ _ _ _ _ _ _ _ _ _ _ _ _ [] (by decide)
      (by decide) (by decide) (by decide) (by decide)).choose_spec.1⟩

/-- **corruption is caught**: a header that does not verify is rejected -/
theorem c18_detects_ipv4 {hdr rest : List UInt8} (hl : hdr.length = 20)
    (hn : ¬ verifies (wordsOf hdr)) : ∀ h, fromBytes true (hdr ++ rest) ≠ .ok h :=
  fun _ ha => hn (c18_accepted_verifies_ipv4 hl ha)

/-- … in particular any alteration of an accepted header that changes the one's-complement sum -/
theorem c18_detects_changed_ipv4 {hdr hdr' rest rest' : List UInt8} {h : Header}
    (hl : hdr.length = 20) (hl' : hdr'.length = 20) (ha : fromBytes true (hdr ++ rest) = .ok h)
    (hc : wsum hdr' % 65535 ≠ wsum hdr % 65535) : ∀ h', fromBytes true (hdr' ++ rest') ≠ .ok h' := by
  intro h' ha'
  have v := (verifies_iff_sum _).mp (c18_accepted_verifies_ipv4 hl ha)
  have v' := (verifies_iff_sum _).mp (c18_accepted_verifies_ipv4 hl' ha')
  unfold wsum at hc
  omega

/-- **every single-bit corruption of an accepted header is rejected** -/
theorem c18_single_bit_ipv4 {hdr rest : List UInt8} {h : Header} (hl : hdr.length = 20)
    (ha : fromBytes true (hdr ++ rest) = .ok h) (i k : Nat) (hi : i < 20) (hk : k < 8) :
    ∀ h', fromBytes true (flipAt hdr i k ++ rest) ≠ .ok h' :=
  c18_detects_changed_ipv4 hl (by rw [flipAt_length, hl]) ha
    (c18_single_bit_sum hdr i k (by omega) hk)

/-- **double-bit corruption is rejected unless the two flips cancel** -/
theorem c18_double_bit_ipv4 {hdr rest : List UInt8} {h : Header} (hl : hdr.length = 20)
    (ha : fromBytes true (hdr ++ rest) = .ok h) (i k j l : Nat) (hi : i < 20) (hk : k < 8)
    (hj : j < 20) (hl' : l < 8)
    (hnc : ¬ (delta i k = delta j l ∧ bitAt hdr i k ≠ bitAt (flipAt hdr i k) j l)) :
    ∀ h', fromBytes true (flipAt (flipAt hdr i k) j l ++ rest) ≠ .ok h' :=
  c18_detects_changed_ipv4 hl (by rw [flipAt_length, flipAt_length, hl]) ha
    (fun hs => hnc ((c18_double_bit_cancel_iff hdr i k j l (by omega) hk (by omega) hl').mp hs))

end Elvis.Codec.Ipv4

/-! ## UDP -/
namespace Elvis.Codec.Udp
open Elvis.Ck Elvis.Codec Elvis.Rfc1071

/-- an accepted datagram (the `packet_len` argument being its real length) verifies under
    RFC 1071 together with its pseudo header -/
theorem c18_accepted_verifies_udp {bs : List UInt8} {src dst : Nat} {h : Header}
    (hs : src < 4294967296) (hd : dst < 4294967296)
    (ha : fromBytes true bs bs.length src dst = .ok h) :
    verifies (pseudoHeader src dst 17 bs.length ++ wordsOf bs) := by
  obtain ⟨b0, b1, b2, b3, b4, b5, b6, b7, rest, rfl, hl, hm, _⟩ := fromBytes_ok_inv ha
  rw [hl]
  exact (matches_iff_verifies b0 b1 b2 b3 b4 b5 b6 b7 rest src dst hs hd).mp hm

/-- **emitted checksums verify**: pseudo header, the 8 bytes `build_udp_header` emits and the
    text (an odd last byte padded with zero) sum to `0xffff` -/
theorem c18_emitted_verifies_udp (d : Dgram) (hw : d.Wf) :
    ∃ bytes, build true d.src d.sport d.dst d.dport d.text d.text.length = .ok bytes ∧
      verifies (pseudoHeader d.src d.dst 17 (8 + d.text.length) ++ wordsOf (bytes ++ d.text)) := by
  obtain ⟨bytes, e1, e2, e3⟩ := c08_udp_decode_encode true d hw
  refine ⟨bytes, e1, ?_⟩
  have hlen : (bytes ++ d.text).length = 8 + d.text.length := by simp [e2]
  rw [← hlen] at e3 ⊢
  exact c18_accepted_verifies_udp hw.2.2.1 hw.2.2.2.1 e3

/-- **reference checksums are accepted**: a datagram whose length field is its length and which
    verifies under RFC 1071 is accepted (RFC 768 senders never transmit `0x0000` for a computed
    checksum; `0xffff` for a zero sum is covered) -/
theorem c18_accepts_reference_udp (b0 b1 b2 b3 b4 b5 b6 b7 : UInt8) (rest : List UInt8)
    (src dst : Nat) (hs : src < 4294967296) (hd : dst < 4294967296)
    (hl : W b4 b5 = rest.length + 8)
    (hv : verifies (pseudoHeader src dst 17 (W b4 b5) ++
      wordsOf (b0 :: b1 :: b2 :: b3 :: b4 :: b5 :: b6 :: b7 :: rest))) :
    fromBytes true (b0 :: b1 :: b2 :: b3 :: b4 :: b5 :: b6 :: b7 :: rest) (rest.length + 8) src dst =
      .ok { source := W b0 b1, destination := W b2 b3, length := W b4 b5, checksum := W b6 b7 } := by
  have hm := (matches_iff_verifies b0 b1 b2 b3 b4 b5 b6 b7 rest src dst hs hd).mpr hv
  rw [fromBytes_cons8, if_neg (by omega), if_neg (by simp [hm])]

/-- **corruption is caught**: a datagram that does not verify is rejected -/
theorem c18_detects_udp {bs : List UInt8} {src dst : Nat} (hs : src < 4294967296)
    (hd : dst < 4294967296)
    (hn : ¬ verifies (pseudoHeader src dst 17 bs.length ++ wordsOf bs)) :
    ∀ h, fromBytes true bs bs.length src dst ≠ .ok h :=
  fun _ ha => hn (c18_accepted_verifies_udp hs hd ha)

theorem c18_detects_changed_udp {bs bs' : List UInt8} {src dst : Nat} {h : Header}
    (hs : src < 4294967296) (hd : dst < 4294967296) (hl : bs'.length = bs.length)
    (ha : fromBytes true bs bs.length src dst = .ok h)
    (hc : wsum bs' % 65535 ≠ wsum bs % 65535) :
    ∀ h', fromBytes true bs' bs'.length src dst ≠ .ok h' := by
  intro h' ha'
  have v := (verifies_iff_sum _).mp (c18_accepted_verifies_udp hs hd ha)
  have v' := (verifies_iff_sum _).mp (c18_accepted_verifies_udp hs hd ha')
  rw [List.sum_append, pseudoHeader_sum] at v v'
  rw [hl] at v'
  unfold wsum at hc
  omega

/-- **every single-bit corruption of an accepted datagram (header or payload) is rejected** -/
theorem c18_single_bit_udp {bs : List UInt8} {src dst : Nat} {h : Header}
    (hs : src < 4294967296) (hd : dst < 4294967296)
    (ha : fromBytes true bs bs.length src dst = .ok h) (i k : Nat) (hi : i < bs.length) (hk : k < 8) :
    ∀ h', fromBytes true (flipAt bs i k) (flipAt bs i k).length src dst ≠ .ok h' :=
  c18_detects_changed_udp hs hd (flipAt_length bs i k) ha (c18_single_bit_sum bs i k hi hk)

/-- **double-bit corruption is rejected unless the two flips cancel** -/
theorem c18_double_bit_udp {bs : List UInt8} {src dst : Nat} {h : Header}
    (hs : src < 4294967296) (hd : dst < 4294967296)
    (ha : fromBytes true bs bs.length src dst = .ok h) (i k j l : Nat) (hi : i < bs.length)
    (hk : k < 8) (hj : j < bs.length) (hl : l < 8)
    (hnc : ¬ (delta i k = delta j l ∧ bitAt bs i k ≠ bitAt (flipAt bs i k) j l)) :
    ∀ h', fromBytes true (flipAt (flipAt bs i k) j l) (flipAt (flipAt bs i k) j l).length src dst
      ≠ .ok h' :=
  c18_detects_changed_udp hs hd (by rw [flipAt_length, flipAt_length]) ha
    (fun hsum => hnc ((c18_double_bit_cancel_iff bs i k j l hi hk hj hl).mp hsum))

end Elvis.Codec.Udp

/-! ## TCP -/
namespace Elvis.Codec.Tcp
open Elvis.Ck Elvis.Codec Elvis.Rfc1071

/-- an accepted segment (the `packet_len` argument being its real length) verifies under
    RFC 1071 together with its pseudo header -/
theorem c18_accepted_verifies_tcp {bs : List UInt8} {src dst : Nat} {h : Header}
    (hs : src < 4294967296) (hd : dst < 4294967296)
    (ha : fromBytes true bs bs.length src dst = .ok h) :
    verifies (pseudoHeader src dst 6 bs.length ++ wordsOf bs) := by
  obtain ⟨b0, b1, b2, b3, b4, b5, b6, b7, b8, b9, b10, b11, b12, b13, b14, b15, b16, b17, b18, b19,
    rest, rfl, _, hp, hm, _⟩ := fromBytes_ok_inv ha
  exact (matches_iff_verifies b0 b1 b2 b3 b4 b5 b6 b7 b8 b9 b10 b11 b12 b13 b14 b15 b16 b17 b18 b19
    rest src dst _ hs hd (by omega)).mp hm

/-- **emitted checksums verify**: pseudo header, the serialised header
    `TcpHeaderBuilder::build` produces and the text sum to `0xffff` -/
theorem c18_emitted_verifies_tcp (s : Seg) (hw : s.Wf) :
    build true s.h s.src s.dst s.text s.text.length = .ok (s.header true) ∧
    verifies (pseudoHeader s.src s.dst 6 (20 + s.text.length) ++
      wordsOf (serialize (s.header true) ++ s.text)) := by
  obtain ⟨e1, e2, e3⟩ := c08_tcp_decode_encode true s hw
  refine ⟨e1, ?_⟩
  have hlen : (serialize (s.header true) ++ s.text).length = 20 + s.text.length := by simp [e2]
  rw [← hlen] at e3 ⊢
  exact c18_accepted_verifies_tcp hw.2.2.2.2.2.2.2.1 hw.2.2.2.2.2.2.2.2.1 e3

/-- **reference checksums are accepted**: a segment with data offset 5 that fits 16 bits and
    verifies under RFC 1071 is accepted — for either representation of zero in the checksum
    field, and whatever the reserved / ECN bits are -/
theorem c18_accepts_reference_tcp
    (b0 b1 b2 b3 b4 b5 b6 b7 b8 b9 b10 b11 b12 b13 b14 b15 b16 b17 b18 b19 : UInt8)
    (rest : List UInt8) (src dst : Nat) (hs : src < 4294967296) (hd : dst < 4294967296)
    (h12 : b12.toNat / 16 = 5) (hp : rest.length + 20 < 65536)
    (hv : verifies (pseudoHeader src dst 6 (rest.length + 20) ++
      wordsOf (b0 :: b1 :: b2 :: b3 :: b4 :: b5 :: b6 :: b7 :: b8 :: b9 :: b10 :: b11 :: b12 :: b13 ::
        b14 :: b15 :: b16 :: b17 :: b18 :: b19 :: rest))) :
    ∃ h, fromBytes true (b0 :: b1 :: b2 :: b3 :: b4 :: b5 :: b6 :: b7 :: b8 :: b9 :: b10 :: b11 :: b12 ::
        b13 :: b14 :: b15 :: b16 :: b17 :: b18 :: b19 :: rest) (rest.length + 20) src dst = .ok h ∧
      h.checksum = W b16 b17 := by
  have hm := (matches_iff_verifies b0 b1 b2 b3 b4 b5 b6 b7 b8 b9 b10 b11 b12 b13 b14 b15 b16 b17
    b18 b19 rest src dst (rest.length + 20) hs hd hp).mpr hv
  rw [fromBytes_cons20, if_neg (by omega), if_neg (by omega), if_pos hm]
  exact ⟨_, rfl, rfl⟩

/-- **corruption is caught**: a segment that does not verify is rejected -/
theorem c18_detects_tcp {bs : List UInt8} {src dst : Nat} (hs : src < 4294967296)
    (hd : dst < 4294967296)
    (hn : ¬ verifies (pseudoHeader src dst 6 bs.length ++ wordsOf bs)) :
    ∀ h, fromBytes true bs bs.length src dst ≠ .ok h :=
  fun _ ha => hn (c18_accepted_verifies_tcp hs hd ha)

theorem c18_detects_changed_tcp {bs bs' : List UInt8} {src dst : Nat} {h : Header}
    (hs : src < 4294967296) (hd : dst < 4294967296) (hl : bs'.length = bs.length)
    (ha : fromBytes true bs bs.length src dst = .ok h)
    (hc : wsum bs' % 65535 ≠ wsum bs % 65535) :
    ∀ h', fromBytes true bs' bs'.length src dst ≠ .ok h' := by
  intro h' ha'
  have v := (verifies_iff_sum _).mp (c18_accepted_verifies_tcp hs hd ha)
  have v' := (verifies_iff_sum _).mp (c18_accepted_verifies_tcp hs hd ha')
  rw [List.sum_append, pseudoHeader_sum] at v v'
  rw [hl] at v'
  unfold wsum at hc
  omega

/-- **every single-bit corruption of an accepted segment (header or payload) is rejected** -/
theorem c18_single_bit_tcp {bs : List UInt8} {src dst : Nat} {h : Header}
    (hs : src < 4294967296) (hd : dst < 4294967296)
    (ha : fromBytes true bs bs.length src dst = .ok h) (i k : Nat) (hi : i < bs.length) (hk : k < 8) :
    ∀ h', fromBytes true (flipAt bs i k) (flipAt bs i k).length src dst ≠ .ok h' :=
  c18_detects_changed_tcp hs hd (flipAt_length bs i k) ha (c18_single_bit_sum bs i k hi hk)

/-- **double-bit corruption is rejected unless the two flips cancel** -/
theorem c18_double_bit_tcp {bs : List UInt8} {src dst : Nat} {h : Header}
    (hs : src < 4294967296) (hd : dst < 4294967296)
    (ha : fromBytes true bs bs.length src dst = .ok h) (i k j l : Nat) (hi : i < bs.length)
    (hk : k < 8) (hj : j < bs.length) (hl : l < 8)
    (hnc : ¬ (delta i k = delta j l ∧ bitAt bs i k ≠ bitAt (flipAt bs i k) j l)) :
    ∀ h', fromBytes true (flipAt (flipAt bs i k) j l) (flipAt (flipAt bs i k) j l).length src dst
      ≠ .ok h' :=
  c18_detects_changed_tcp hs hd (by rw [flipAt_length, flipAt_length]) ha
    (fun hsum => hnc ((c18_double_bit_cancel_iff bs i k j l hi hk hj hl).mp hsum))

end Elvis.Codec.Tcp

/-! ## Tie to the source -/
namespace Elvis.Ck

/-- the accumulator kernels of the model are the extracted Rust expressions: `add_u16` (whose
    checked `sum + carry` cannot overflow), `as_u16` with the feature on and off, `matches` -/
theorem c18_extracted_kernels :
    (∀ a v, a < 65536 → v < 65536 →
      Gen.Codec.add_u16 a v = addU16 a v ∧ Gen.Codec.add_u16 a v < 65536) ∧
    (∀ a, Gen.Codec.as_u16 a = asU16 true a ∧ Gen.Codec.as_u16_off = asU16 false a) ∧
    (∀ acc e, Gen.Codec.matches_ (asU16 true acc) acc e = matchesField true acc e ∧
      Gen.Codec.matches_ (asU16 false 0) 0 e = matchesField false 0 e) :=
  ⟨Gen.Codec.add_u16_eq, Gen.Codec.as_u16_eq, Gen.Codec.matches_eq⟩

end Elvis.Ck
