import ElvisVerif.Lemmas.Dhcp
/-!
# C15, DHCP clause — leases are pairwise distinct, clients learn what they were offered,
# released addresses can be leased again

Property theorems only (invariant and its preservation lemmas: `Lemmas/Dhcp.lean`).

The system is `Model/Dhcp.lean`: real `DhcpServer::demux` / `DhcpClient::demux` logic over a bag of
datagrams; the schedule (`List Act`) is arbitrary: any in-flight datagram may be delivered next,
duplicated any number of times, or dropped; clients start in any order, any number of times.

What the histories must respect (`Act.valid`), and why:
* a **Release datagram is not duplicated** — the server has no lease table, `Release(a)` is a plain
  `return_ip(a)`; `c15_dhcp_dup_release_counterexample` shows two clients ending up with the same
  address when the network duplicates a Release (the shipped client never sends Release);
* a client **releases only when no datagram naming its address is in flight** (otherwise a late
  duplicate Ack re-installs the address after it was given back — same cause).
Everything the shipped code sends (Discover, Offer, Request, Ack) may be reordered, duplicated and
lost without restriction.
-/
namespace Elvis.Dhcp
open Elvis.IpGen

/-- the histories the theorem quantifies over -/
def Act.valid (w : World) : Act → Prop
  | .start _ => True
  | .deliver _ => True
  | .dup i => ∀ p, w.net[i]? = some p → p.typ ≠ .release
  | .drop _ => True
  | .release c => ∀ a, w.clients[c]? = some (some a) → ∀ p ∈ w.net, p.typ ≠ .discover → p.yourIp ≠ a

inductive Reach (w0 : World) : World → Prop
  | init : Reach w0 w0
  | step {w w' : World} (a : Act) : Reach w0 w → a.valid w → w.step a = .ok w' → Reach w0 w'

/-- run a schedule (used by the concrete witnesses) -/
def run : World → List Act → Except String World
  | w, [] => .ok w
  | w, a :: as => match w.step a with
    | .error e => .error e
    | .ok w' => run w' as

/-- all actions of a schedule are valid where they are taken -/
def runValid : World → List Act → Prop
  | _, [] => True
  | w, a :: as => a.valid w ∧ match w.step a with
    | .ok w' => runValid w' as
    | .error _ => True

theorem reach_of_run (w0 : World) : ∀ (acts : List Act) (w1 w : World), Reach w0 w1 →
    run w1 acts = .ok w → runValid w1 acts → Reach w0 w := by
  intro acts
  induction acts with
  | nil => intro w1 w hr he _; simp only [run] at he; cases he; exact hr
  | cons a as ih =>
    intro w1 w hr he hv
    simp only [run] at he
    simp only [runValid] at hv
    cases hs : w1.step a with
    | error e => rw [hs] at he; cases he
    | ok w' =>
      rw [hs] at he hv
      exact ih w' w (Reach.step a hr hv.1 hs) he hv.2

theorem c15_dhcp_init_inv (pool : Range) (n : Nat) (hp : pool.1 ≤ U32MAX ∧ pool.2 ≤ U32MAX) :
    DInv pool (World.init pool n) := by
  have h := c15_new_spec pool hp
  refine ⟨h.1, h.2.1, fun a ha => (h.2.2 a).1 ha, List.Pairwise.nil, fun _ he => (by cases he),
    fun _ he => (by cases he), fun _ hp => (by cases hp), fun _ hp => (by cases hp), List.Pairwise.nil, ?_⟩
  intro c a hc
  simp [World.init, List.getElem?_replicate] at hc

/-- one step of a valid history preserves the invariant -/
theorem c15_dhcp_step_inv (pool : Range) (w w' : World) (a : Act) (h : DInv pool w)
    (hv : a.valid w) (he : w.step a = .ok w') : DInv pool w' := by
  cases a with
  | start c =>
    simp only [World.step] at he
    split at he
    · cases he
      exact dinv_app h _ (fun hl => by rcases hl with hl | hl | hl <;> cases hl) (fun hr => by cases hr)
    · cases he
  | deliver i =>
    simp only [World.step] at he
    cases hp : w.net[i]? with
    | none => rw [hp] at he; cases he
    | some p =>
      rw [hp] at he
      obtain ⟨l1, l2, hsplit, herase⟩ := net_split hp
      have hpm : p ∈ w.net := by rw [hsplit]; simp
      have hsub : (w.net.eraseIdx i).Sublist w.net := List.eraseIdx_sublist _ _
      have h1 := dinv_sub h (w.net.eraseIdx i) hsub
      dsimp only at he
      by_cases hts : p.toServer = true
      · rw [if_pos hts] at he
        -- server side
        cases hty : p.typ with
        | discover =>
          rw [hty, serverDemux_discover] at he
          dsimp only at he
          obtain ⟨g', r, hf, hs', hb', hspec⟩ := c15_fetch_ip_spec w.gen h.sorted h.bounded
          rw [hf] at he
          cases r with
          | none => cases he
          | some ip =>
            cases he
            simp only at hspec
            exact dinv_offer h1 p.client ip g' hs' hb' hspec.1 hspec.2.1 hspec.2.2
        | request =>
          rw [hty, serverDemux_request] at he
          cases he
          exact dinv_app h1 _ (fun _ => h.pktLease p hpm (by rw [hty]; exact .inr (.inl rfl)))
            (fun hr => by cases hr)
        | release =>
          rw [hty, serverDemux_release] at he
          dsimp only at he
          have hown := h.pktRelease p hpm hty
          have hlt := (h.ownNotAvail _ hown).2.1
          obtain ⟨g', hr, hs', hb', hg⟩ := c15_return_ip_spec w.gen p.yourIp h.sorted h.bounded hlt
          rw [hr] at he
          cases he
          refine dinv_server_release h1 p.client p.yourIp g' hown ?_ hs' hb' hg
          intro q hq hqr
          have hq' : q ∈ l1 ++ l2 := by rw [← herase]; exact hq
          have hpw := h.relOnce
          rw [hsplit, List.pairwise_append, List.pairwise_cons] at hpw
          rcases List.mem_append.1 hq' with hq1 | hq2
          · exact hpw.2.2 q hq1 p List.mem_cons_self hqr hty
          · exact fun heq => hpw.2.1.1 q hq2 hty hqr heq.symm
        | offer => rw [hty, serverDemux_offer] at he; cases he; exact h1
        | decline => rw [hty, serverDemux_decline] at he; cases he; exact h1
        | ack => rw [hty, serverDemux_ack] at he; cases he; exact h1
        | nack => rw [hty, serverDemux_nack] at he; cases he; exact h1
      · rw [if_neg hts] at he
        cases he
        -- client side
        cases hty : p.typ with
        | offer =>
          exact dinv_app h1 _ (fun _ => h.pktLease p hpm (by rw [hty]; exact .inl rfl)) (fun hr => by cases hr)
        | ack =>
          exact dinv_client_ack h1 p.client p.yourIp (h.pktLease p hpm (by rw [hty]; exact .inr (.inr rfl)))
        | discover => exact h1
        | request => exact h1
        | decline => exact h1
        | nack => exact h1
        | release => exact h1
  | dup i =>
    simp only [World.step] at he
    cases hp : w.net[i]? with
    | none => rw [hp] at he; cases he
    | some p =>
      rw [hp] at he
      cases he
      have hpm : p ∈ w.net := List.mem_of_getElem? hp
      exact dinv_app h p (fun hl => h.pktLease p hpm hl) (fun hr => absurd hr (hv p hp))
  | drop i =>
    simp only [World.step] at he
    cases hp : w.net[i]? with
    | none => rw [hp] at he; cases he
    | some p =>
      rw [hp] at he
      cases he
      exact dinv_sub h _ (List.eraseIdx_sublist _ _)
  | release c =>
    simp only [World.step] at he
    cases hc : w.clients[c]? with
    | none => rw [hc] at he; cases he
    | some o =>
      cases o with
      | none => rw [hc] at he; cases he
      | some a =>
        rw [hc] at he
        cases he
        exact dinv_release h c a hc (hv a hc)

/-- the invariant holds in every world reachable by a valid history -/
theorem c15_dhcp_inv (pool : Range) (n : Nat) (hp : pool.1 ≤ U32MAX ∧ pool.2 ≤ U32MAX) (w : World)
    (hr : Reach (World.init pool n) w) : DInv pool w := by
  induction hr with
  | init => exact c15_dhcp_init_inv pool n hp
  | step a _ hv he ih => exact c15_dhcp_step_inv pool _ _ a ih hv he

/-- **C15, DHCP**: for any number of clients, any interleaving, any duplication and loss of the
    datagrams of the exchange (valid histories, see the header):
    1. two different clients never hold the same address;
    2. the address a client holds was offered to it by the server and lies in the server's pool;
    3. Acks in flight to different clients carry different addresses. -/
theorem c15_dhcp_distinct (pool : Range) (n : Nat) (hp : pool.1 ≤ U32MAX ∧ pool.2 ≤ U32MAX) (w : World)
    (hr : Reach (World.init pool n) w) :
    (∀ (c1 c2 a : Nat), w.clients[c1]? = some (some a) → w.clients[c2]? = some (some a) → c1 = c2) ∧
    (∀ (c a : Nat), w.clients[c]? = some (some a) → (c, a) ∈ w.offered ∧ pool.1 ≤ a ∧ a ≤ pool.2) ∧
    (∀ p ∈ w.net, ∀ q ∈ w.net, p.typ = .ack → q.typ = .ack → p.yourIp = q.yourIp → p.client = q.client) := by
  have h := c15_dhcp_inv pool n hp w hr
  refine ⟨?_, ?_, ?_⟩
  · intro c1 c2 a h1 h2
    have := own_unique h.ownDistinct (h.stored c1 a h1) (h.stored c2 a h2) rfl
    simp at this; exact this
  · intro c a hc
    have hm := h.stored c a hc
    exact ⟨h.ownOffered _ hm, (h.ownNotAvail _ hm).2.2⟩
  · intro p hp q hq hpa hqa heq
    have h1 := h.pktLease p hp (by rw [hpa]; exact .inr (.inr rfl))
    have h2 := h.pktLease q hq (by rw [hqa]; exact .inr (.inr rfl))
    have := own_unique h.ownDistinct h1 h2 heq
    simp at this; exact this.2

/-- the server never offers an address that is still leased (in any reachable world, delivering
    a Discover either panics on an exhausted pool — the `unwrap()` the code marks TODO — or
    offers an address no outstanding lease has). -/
theorem c15_dhcp_offer_fresh (pool : Range) (n : Nat) (hp : pool.1 ≤ U32MAX ∧ pool.2 ≤ U32MAX) (w : World)
    (hr : Reach (World.init pool n) w) (c : Nat) (g' : Gen) (ip : Nat)
    (hf : fetchIp w.gen = .ok (g', some ip)) :
    (∀ e ∈ w.owner, e.1 ≠ ip) ∧ pool.1 ≤ ip ∧ ip ≤ pool.2 ∧
    serverDemux w c .discover 0 =
      .ok { w with gen := g', net := w.net ++ [⟨false, c, .offer, ip⟩], offered := (c, ip) :: w.offered, owner := (ip, c, false) :: w.owner } := by
  have h := c15_dhcp_inv pool n hp w hr
  obtain ⟨g'', r, hf', _, _, hspec⟩ := c15_fetch_ip_spec w.gen h.sorted h.bounded
  rw [hf] at hf'; cases hf'
  simp only at hspec
  refine ⟨fun e he heq => (h.ownNotAvail e he).1 (by rw [heq]; exact hspec.2.1), (h.availPool ip hspec.2.1).1,
    (h.availPool ip hspec.2.1).2, ?_⟩
  rw [serverDemux_discover, hf]

/-- the server runs out (the `unwrap()` panic) only when its generator has nothing left -/
theorem c15_dhcp_exhaustion_iff (pool : Range) (n : Nat) (hp : pool.1 ≤ U32MAX ∧ pool.2 ≤ U32MAX) (w : World)
    (hr : Reach (World.init pool n) w) (c : Nat) :
    serverDemux w c .discover 0 = .error exhaustedPanic ↔ ∀ a, ¬ avail w.gen a := by
  have h := c15_dhcp_inv pool n hp w hr
  rw [← c15_fetch_ip_none_iff w.gen h.bounded]
  obtain ⟨g', r, hf, _, _, hspec⟩ := c15_fetch_ip_spec w.gen h.sorted h.bounded
  rw [serverDemux_discover, hf]
  cases r with
  | none => exact ⟨fun _ => ⟨g', rfl⟩, fun _ => rfl⟩
  | some ip =>
    constructor
    · intro hc; cases hc
    · rintro ⟨g'', hc⟩; cases hc

/-- a released address can be leased again: delivering the Release makes the address available
    in the server's generator (so the next Discover cannot fail for exhaustion, and with
    `fetch_ip` scanning from the lowest free range it is offered as soon as it is the lowest). -/
theorem c15_dhcp_release_reoffer (pool : Range) (n : Nat) (hp : pool.1 ≤ U32MAX ∧ pool.2 ≤ U32MAX) (w : World)
    (hr : Reach (World.init pool n) w) (i : Nat) (p : Packet)
    (hpk : w.net[i]? = some p) (hts : p.toServer = true) (hty : p.typ = .release) :
    ∃ w', w.step (.deliver i) = .ok w' ∧ avail w'.gen p.yourIp ∧
      (∀ c, serverDemux w' c .discover 0 ≠ .error exhaustedPanic) := by
  have h := c15_dhcp_inv pool n hp w hr
  have hpm : p ∈ w.net := List.mem_of_getElem? hpk
  have hown := h.pktRelease p hpm hty
  have hlt := (h.ownNotAvail _ hown).2.1
  obtain ⟨g', hret, _, _, hg⟩ := c15_return_ip_spec w.gen p.yourIp h.sorted h.bounded hlt
  have hstep : w.step (.deliver i) =
      .ok { w with net := w.net.eraseIdx i, gen := g', owner := w.owner.filter (fun e => e.1 != p.yourIp) } := by
    simp only [World.step]; rw [hpk]; dsimp only; rw [if_pos hts, hty, serverDemux_release]; dsimp only; rw [hret]
  have hav : avail g' p.yourIp := (hg _).2 (.inr rfl)
  refine ⟨_, hstep, hav, ?_⟩
  intro c hpanic
  have hreach := Reach.step (.deliver i) hr trivial hstep
  exact (c15_dhcp_exhaustion_iff pool n hp _ hreach c).1 hpanic p.yourIp hav

/-- concrete cycle on a one-address pool: client 0 leases 10.0.0.5, releases it, client 1 is then
    leased the same address — on the model; the harness replays the same schedule on the code. -/
theorem c15_dhcp_release_cycle_example :
    ∃ w, run (World.init (0x0A000005, 0x0A000005) 2)
      [.start 0, .deliver 0, .deliver 0, .deliver 0, .deliver 0,      -- client 0 holds .5
       .release 0, .deliver 0,                                          -- given back
       .start 1, .deliver 0, .deliver 0, .deliver 0, .deliver 0] = .ok w ∧
      w.clients = [none, some 0x0A000005] ∧ w.net = [] := by
  exact ⟨_, rfl, rfl, rfl⟩

/-- why a duplicated Release is excluded from the histories: the server returns the address twice;
    the second return hands client 1's address to client 2.  (`dup 0` duplicates the Release.) -/
theorem c15_dhcp_dup_release_counterexample :
    ∃ w, run (World.init (5, 5) 3)
      [.start 0, .deliver 0, .deliver 0, .deliver 0, .deliver 0, .release 0,
       .dup 0,                                                          -- Release(5) twice in flight
       .deliver 0, .start 1, .deliver 1, .deliver 1, .deliver 1, .deliver 1,
       .deliver 0,                                                      -- the duplicate arrives
       .start 2, .deliver 0, .deliver 0, .deliver 0, .deliver 0] = .ok w ∧
      w.clients = [none, some 5, some 5] := by
  exact ⟨_, rfl, rfl⟩

/-- non-vacuity: a reachable world with two clients holding different addresses -/
example : ∃ w, Reach (World.init (1, 255) 2) w ∧ w.clients = [some 1, some 2] := by
  refine ⟨_, reach_of_run _ [.start 0, .start 1, .deliver 0, .deliver 0, .deliver 0, .deliver 0,
    .deliver 0, .deliver 0, .deliver 0, .deliver 0] _ _ Reach.init rfl ?_, rfl⟩
  repeat (first | trivial | constructor)

end Elvis.Dhcp
