import ElvisVerif.Model.Subnet
/-
Model of `elvis_core::ip_table::IpTable<T>` (sim/elvis-core/src/ip_table.rs).

`BTreeMap<Obm, T>` is a list kept strictly sorted by `Obm::cmp` (mask descending as a `u32`,
then network id ascending); `insert` on an equal key replaces the value and keeps the key, `remove`
deletes, `iter` walks the list (assumed std behaviour, exercised by the correspondence run which
compares the iteration order after every op).
Imports only the Subnet model (core only): linked into the native driver.
-/
namespace Elvis.IpTable
open Elvis.Subnet

/-- `u32::cmp` -/
def cmpU32 (x y : BitVec 32) : Ordering :=
  if x < y then .lt else if x = y then .eq else .gt

/-- `Obm::cmp` : masks compared, `Equal` → ids compared, otherwise the mask order reversed -/
def obmCmp (a b : Net) : Ordering :=
  match cmpU32 a.mask.bits b.mask.bits with
  | .eq => cmpU32 a.id b.id
  | .lt => .gt
  | .gt => .lt

abbrev Table (V : Type) := List (Net × V)

/-- `BTreeMap::insert` -/
def insert {V : Type} (k : Net) (v : V) : Table V → Table V
  | [] => [(k, v)]
  | (k', v') :: t =>
    match obmCmp k k' with
    | .lt => (k, v) :: (k', v') :: t
    | .eq => (k', v) :: t
    | .gt => (k', v') :: insert k v t

/-- `BTreeMap::remove` (the table afterwards) -/
def erase {V : Type} (k : Net) : Table V → Table V
  | [] => []
  | (k', v') :: t =>
    match obmCmp k k' with
    | .lt => (k', v') :: t
    | .eq => t
    | .gt => (k', v') :: erase k t

/-- `BTreeMap::get` (what `insert` / `remove` return as the old value) -/
def find {V : Type} (k : Net) : Table V → Option V
  | [] => none
  | (k', v') :: t =>
    match obmCmp k k' with
    | .lt => none
    | .eq => some v'
    | .gt => find k t

/-- `IpTable::get_recipient` : first entry in iteration order whose net contains the address -/
def getRecipient {V : Type} : Table V → Addr → Option V
  | [], _ => none
  | (n, v) :: t, a => if n.contains a then some v else getRecipient t a

/-- `IpTable::new` -/
def new {V : Type} : Table V := []

/-- `IpTable::add` : (old value, table) -/
def add {V : Type} (t : Table V) (k : Net) (v : V) : Option V × Table V := (find k t, insert k v t)

/-- `IpTable::remove` -/
def remove {V : Type} (t : Table V) (k : Net) : Option V × Table V := (find k t, erase k t)

/-- operations of the public API that change a table -/
inductive Op (V : Type)
  | add (k : Net) (v : V)
  | remove (k : Net)
  | addDirect (ip : Addr) (v : V)
  | removeDirect (ip : Addr)
  | addCidr (s : Str) (v : V)
  | removeCidr (s : Str)

/-- one API call; `remove_cidr` panics (`expect`) on text `from_cidr` rejects, `add_cidr` ignores it -/
def step {V : Type} (t : Table V) : Op V → Except String (Table V)
  | .add k v => .ok (insert k v t)
  | .remove k => .ok (erase k t)
  | .addDirect ip v => .ok (insert (Net.new ip (Mask.fromBitcount 32)) v t)
  | .removeDirect ip => .ok (erase (Net.new ip (Mask.fromBitcount 32)) t)
  | .addCidr s v =>
    match Net.fromCidr s with
    | .ok k => .ok (insert k v t)
    | .error _ => .ok t
  | .removeCidr s =>
    match Net.fromCidr s with
    | .ok k => .ok (erase k t)
    | .error _ => .error "panic:expect:remove_cidr"

/-- a whole history, from `IpTable::new()` -/
def runFrom {V : Type} (t : Table V) : List (Op V) → Except String (Table V)
  | [] => .ok t
  | op :: ops =>
    match step t op with
    | .ok t' => runFrom t' ops
    | .error e => .error e

def run {V : Type} (ops : List (Op V)) : Except String (Table V) := runFrom new ops

/-- `IpTable::default_gateway` : `add(from_cidr("0.0.0.0/0").unwrap(), recipient)` -/
def defaultGateway {V : Type} (recipient : V) : Except String (Table V) :=
  match Net.fromCidr [48, 46, 48, 46, 48, 46, 48, 47, 48] with
  | .ok k => .ok (insert k recipient new)
  | .error _ => .error "panic:unwrap:default_gateway"

/-! ### Specification (what the property says, independent of the list representation) -/
namespace Spec

/-- the abstract map a history denotes: last add wins, remove deletes -/
abbrev AMap (V : Type) := Net → Option V

def update {V : Type} (m : AMap V) (k : Net) (r : Option V) : AMap V :=
  fun x => if x = k then r else m x

def denoteStep {V : Type} (m : AMap V) : Op V → AMap V
  | .add k v => update m k (some v)
  | .remove k => update m k none
  | .addDirect ip v => update m (Net.new ip (Mask.fromBitcount 32)) (some v)
  | .removeDirect ip => update m (Net.new ip (Mask.fromBitcount 32)) none
  | .addCidr s v =>
    match Net.fromCidr s with
    | .ok k => update m k (some v)
    | .error _ => m
  | .removeCidr s =>
    match Net.fromCidr s with
    | .ok k => update m k none
    | .error _ => m

def denoteFrom {V : Type} (m : AMap V) : List (Op V) → AMap V
  | [] => m
  | op :: ops => denoteFrom (denoteStep m op) ops

def denote {V : Type} (ops : List (Op V)) : AMap V := denoteFrom (fun _ => none) ops

/-- mask length of a network -/
def len (k : Net) : Nat := k.mask.countOnes

/-- longest-prefix match, as a relation: `r` is the value of a key that contains `a` and whose
    mask is at least as long as that of every key containing `a`; `none` iff no key contains `a` -/
def IsLpm {V : Type} (m : AMap V) (a : Addr) (r : Option V) : Prop :=
  (r = none ∧ ∀ k v, m k = some v → k.contains a = false) ∨
  (∃ k v, m k = some v ∧ k.contains a = true ∧ r = some v ∧
     ∀ k' v', m k' = some v' → k'.contains a = true → len k' ≤ len k)

/-- longest-prefix match, as a function: try `a/32, a/31, …, a/0` as keys -/
def lpmFrom {V : Type} (m : AMap V) (a : Addr) : Nat → Option V
  | 0 => m (Net.new a (Mask.fromBitcount 0))
  | n + 1 =>
    match m (Net.new a (Mask.fromBitcount (n + 1))) with
    | some v => some v
    | none => lpmFrom m a n

def lpm {V : Type} (m : AMap V) (a : Addr) : Option V := lpmFrom m a 32

end Spec

end Elvis.IpTable
