//! ARP / DNS / DHCP codecs (builder codec-b): sub-commands c14-arp/dns/dhcp, c14-rt-*.
//! Included by hcore (`c14.rs`) and by hfull (`props/c14.rs`).
use elvis_core::protocols::arp::arp_parsing::{ArpPacket, Operation};
use elvis_core::protocols::dhcp::dhcp_client::DhcpClient;
use elvis_core::protocols::dhcp::dhcp_parsing::{DhcpMessage, MessageType, VerifDhcpFields};
use elvis_core::protocols::dns::dns_parsing::{DnsHeader, DnsMessage, DnsQuestion, DnsResourceRecord};
use elvis_core::protocols::ipv4::Ipv4Address;
use elvis_core::protocols::Arp;
use elvis_core::session::SendError;
use elvis_core::{Control, Machine, Message, Protocol, Session};
use hcommon::*;
use std::collections::BTreeMap;
use std::sync::{Arc, Mutex, OnceLock};

pub const SUBS: [&str; 8] = [
    "c14-arp", "c14-dns", "c14-dhcp", "c14-rt-arp", "c14-rt-dns", "c14-rt-dhcp", "c14-dns-v0", "c14-dhcp-v0",
];

#[derive(Clone, Copy, PartialEq, Eq, Debug)]
pub enum Proto {
    Arp,
    Dns,
    Dhcp,
}

// ------------------------------------------------------------------------------------------
// panic sites: file + text of the source line -> the model's site name
// ------------------------------------------------------------------------------------------
pub fn classify(p: &PanicInfo) -> (String, String) {
    let text = source_line_text(&p.file, p.line);
    let file = p.file.rsplit('/').next().unwrap_or("").to_string();
    let site = match (file.as_str(), text.as_str()) {
        ("dhcp_parsing.rs", t) if t.starts_with("let msg_type = MessageType::try_from(") && t.contains(".unwrap()") => {
            "panic:unwrap:dhcp_msg_type".to_string()
        }
        ("dhcp_parsing.rs", t) if t.starts_with("_ => unreachable!()") => "panic:unreachable:dhcp_msg_type".to_string(),
        ("dhcp_parsing.rs", t) if t.starts_with("let server_name = String::from_utf8(server_name).unwrap()") => {
            "panic:unwrap:dhcp_server_name".to_string()
        }
        ("dhcp_parsing.rs", t) if t.starts_with("let boot_file = String::from_utf8(boot_file).unwrap()") => {
            "panic:unwrap:dhcp_boot_file".to_string()
        }
        ("dhcp_client.rs", t) if t.contains("DhcpMessage::from_bytes(message.iter()).unwrap()") => {
            "panic:unwrap:dhcp_client_demux".to_string()
        }
        ("dhcp_server.rs", t) if t.contains("DhcpMessage::from_bytes(message.iter()).unwrap()") => {
            "panic:unwrap:dhcp_server_demux".to_string()
        }
        ("dhcp_server.rs", t) if t.contains("fetch_ip().unwrap()") => "panic:unwrap:dhcp_server_fetch_ip".to_string(),
        ("dns_parsing.rs", t) if t.starts_with("let name = String::from_utf8(self.qname.clone()).unwrap()") => {
            "panic:unwrap:dns_query_name".to_string()
        }
        ("dns_parsing.rs", "i += 1;") => "panic:add-overflow:dns_rdata_counter".to_string(),
        _ => format!("panic:other:{}:{}", file, text.replace(' ', "_")),
    };
    (site, format!("panic {} {}", file, text))
}

// ------------------------------------------------------------------------------------------
// the wire formats, written down independently of the code under test (oracle side)
// ------------------------------------------------------------------------------------------
#[derive(Clone, Debug, PartialEq, Eq)]
pub struct ArpV {
    pub htype: u16,
    pub ptype: u16,
    pub hlen: u8,
    pub plen: u8,
    pub oper: u16,
    pub smac: u64,
    pub sip: u32,
    pub tmac: u64,
    pub tip: u32,
}
#[derive(Clone, Debug, PartialEq, Eq)]
pub struct DnsV {
    pub hdr: [u16; 6],
    pub qname: Vec<u8>,
    pub qtype: u16,
    pub qclass: u16,
    pub name: Vec<u8>,
    pub rtype: u16,
    pub class: u16,
    pub ttl: u32,
    pub rdlength: u16,
    pub rdata: Vec<u8>,
}
#[derive(Clone, Debug, PartialEq, Eq)]
pub struct DhcpV {
    pub op: u8,
    pub htype: u8,
    pub hlen: u8,
    pub hops: u8,
    pub xid: u32,
    pub secs: u16,
    pub flags: u8,
    pub cip: u32,
    pub yip: u32,
    pub sip: u32,
    pub rip: u32,
    pub chaddr: u16,
    pub mtype: u8,
    pub sname: Vec<u8>,
    pub bfile: Vec<u8>,
}

/// The DNS name delimiter / DHCP string terminator are the only parts of the two Elvis-specific wire
/// formats that are a free choice of the code; they are read off the implementation's encoders (empty name,
/// default message) so that a consistent change of the literal is not reported, while an encoder/decoder
/// mismatch still breaks the round trip.
pub fn dl() -> u8 {
    static D: OnceLock<u8> = OnceLock::new();
    *D.get_or_init(|| DnsQuestion::build(DnsQuestion::new(vec![]))[0])
}
pub fn tm() -> u8 {
    static T: OnceLock<u8> = OnceLock::new();
    *T.get_or_init(|| *DhcpMessage::to_message(DhcpMessage::default()).unwrap().to_vec().last().unwrap())
}
/// some byte other than `x`
fn other(x: u8) -> u8 {
    if x == 0x21 {
        0x22
    } else {
        0x21
    }
}

/// RFC 826 packet layout for Ethernet/IPv4: htype, ptype, hlen, plen, oper, sha(6), spa(4), tha(6), tpa(4)
pub fn spec_arp(v: &ArpV) -> Vec<u8> {
    let mut o = vec![];
    o.push((v.htype >> 8) as u8);
    o.push(v.htype as u8);
    o.push((v.ptype >> 8) as u8);
    o.push(v.ptype as u8);
    o.push(v.hlen);
    o.push(v.plen);
    o.push((v.oper >> 8) as u8);
    o.push(v.oper as u8);
    for k in (0..6).rev() {
        o.push((v.smac >> (8 * k)) as u8);
    }
    for k in (0..4).rev() {
        o.push((v.sip >> (8 * k)) as u8);
    }
    for k in (0..6).rev() {
        o.push((v.tmac >> (8 * k)) as u8);
    }
    for k in (0..4).rev() {
        o.push((v.tip >> (8 * k)) as u8);
    }
    o
}
fn be16(o: &mut Vec<u8>, x: u16) {
    o.push((x >> 8) as u8);
    o.push(x as u8);
}
fn be32(o: &mut Vec<u8>, x: u32) {
    be16(o, (x >> 16) as u16);
    be16(o, x as u16);
}
/// Elvis' simplified DNS message: 6 x u16 header, qname SP qtype qclass, name SP type class ttl rdlength rdata
pub fn spec_dns(v: &DnsV) -> Vec<u8> {
    let mut o = vec![];
    for h in v.hdr {
        be16(&mut o, h);
    }
    o.extend_from_slice(&v.qname);
    o.push(dl());
    be16(&mut o, v.qtype);
    be16(&mut o, v.qclass);
    o.extend_from_slice(&v.name);
    o.push(dl());
    be16(&mut o, v.rtype);
    be16(&mut o, v.class);
    be32(&mut o, v.ttl);
    be16(&mut o, v.rdlength);
    o.extend_from_slice(&v.rdata);
    o
}
/// Elvis' simplified DHCP message: op htype hlen hops xid(4) secs(2) flags(1) ciaddr yiaddr siaddr giaddr
/// chaddr(2) type(1) sname NUL file NUL
pub fn spec_dhcp(v: &DhcpV) -> Vec<u8> {
    let mut o = vec![v.op, v.htype, v.hlen, v.hops];
    be32(&mut o, v.xid);
    be16(&mut o, v.secs);
    o.push(v.flags);
    be32(&mut o, v.cip);
    be32(&mut o, v.yip);
    be32(&mut o, v.sip);
    be32(&mut o, v.rip);
    be16(&mut o, v.chaddr);
    o.push(v.mtype);
    o.extend_from_slice(&v.sname);
    o.push(tm());
    o.extend_from_slice(&v.bfile);
    o.push(tm());
    o
}

/// the property's "representable value" predicates (C08 quantifier text)
pub fn wf_arp(v: &ArpV) -> bool {
    v.smac < (1 << 48) && v.tmac < (1 << 48) && (v.oper == 1 || v.oper == 2)
}
pub fn wf_dns(v: &DnsV) -> bool {
    !v.qname.contains(&dl()) && !v.name.contains(&dl()) && v.rdlength as usize == v.rdata.len()
}
pub fn wf_dhcp(v: &DhcpV) -> bool {
    (1..=7).contains(&v.mtype)
        && !v.sname.contains(&tm())
        && !v.bfile.contains(&tm())
        && std::str::from_utf8(&v.sname).is_ok()
        && std::str::from_utf8(&v.bfile).is_ok()
}

// ------------------------------------------------------------------------------------------
// the implementation side: real structs <-> field tuples
// ------------------------------------------------------------------------------------------
pub fn ip(x: u32) -> Ipv4Address {
    Ipv4Address::new(x.to_be_bytes())
}
pub fn ipn(a: Ipv4Address) -> u32 {
    u32::from_be_bytes(a.to_bytes())
}
fn arp_of(v: &ArpV) -> Option<ArpPacket> {
    Some(ArpPacket {
        htype: v.htype,
        ptype: v.ptype,
        hlen: v.hlen,
        plen: v.plen,
        oper: match v.oper {
            1 => Operation::Request,
            2 => Operation::Reply,
            _ => return None,
        },
        sender_mac: v.smac,
        sender_ip: ip(v.sip),
        target_mac: v.tmac,
        target_ip: ip(v.tip),
    })
}
fn arp_to(p: &ArpPacket) -> ArpV {
    ArpV {
        htype: p.htype,
        ptype: p.ptype,
        hlen: p.hlen,
        plen: p.plen,
        oper: p.oper as u16,
        smac: p.sender_mac,
        sip: ipn(p.sender_ip),
        tmac: p.target_mac,
        tip: ipn(p.target_ip),
    }
}
fn dns_of(v: &DnsV) -> DnsMessage {
    DnsMessage {
        header: DnsHeader {
            id: v.hdr[0],
            properties: v.hdr[1],
            qdcount: v.hdr[2],
            ancount: v.hdr[3],
            nscount: v.hdr[4],
            arcount: v.hdr[5],
        },
        question: DnsQuestion::verif_new(v.qname.clone(), v.qtype, v.qclass),
        answer: DnsResourceRecord::verif_new(v.name.clone(), v.rtype, v.class, v.ttl, v.rdlength, v.rdata.clone()),
    }
}
fn dns_to(m: &DnsMessage) -> DnsV {
    let (qtype, qclass) = m.question.verif_private();
    let (class, rdlength) = m.answer.verif_private();
    DnsV {
        hdr: [m.header.id, m.header.properties, m.header.qdcount, m.header.ancount, m.header.nscount, m.header.arcount],
        qname: m.question.qname.clone(),
        qtype,
        qclass,
        name: m.answer.name.clone(),
        rtype: m.answer.rec_type,
        class,
        ttl: m.answer.ttl,
        rdlength,
        rdata: m.answer.rdata.clone(),
    }
}
fn mtype_of(t: u8) -> Option<MessageType> {
    Some(match t {
        1 => MessageType::Discover,
        2 => MessageType::Offer,
        3 => MessageType::Request,
        4 => MessageType::Decline,
        5 => MessageType::Ack,
        6 => MessageType::Nack,
        7 => MessageType::Release,
        _ => return None,
    })
}
fn dhcp_of(v: &DhcpV) -> Option<DhcpMessage> {
    let f = VerifDhcpFields {
        op: v.op,
        htype: v.htype,
        hlen: v.hlen,
        hops: v.hops,
        transaction_id: v.xid,
        seconds: v.secs,
        flags: v.flags,
        client_ip: ip(v.cip),
        your_ip: ip(v.yip),
        server_ip: ip(v.sip),
        router_ip: ip(v.rip),
        client_hardware_address: v.chaddr,
        msg_type: v.mtype,
        server_name: String::from_utf8(v.sname.clone()).ok()?,
        boot_file: String::from_utf8(v.bfile.clone()).ok()?,
    };
    Some(DhcpMessage::verif_new(f, mtype_of(v.mtype)?))
}
fn dhcp_to(m: &DhcpMessage) -> DhcpV {
    let f = m.verif_fields();
    DhcpV {
        op: f.op,
        htype: f.htype,
        hlen: f.hlen,
        hops: f.hops,
        xid: f.transaction_id,
        secs: f.seconds,
        flags: f.flags,
        cip: ipn(f.client_ip),
        yip: ipn(f.your_ip),
        sip: ipn(f.server_ip),
        rip: ipn(f.router_ip),
        chaddr: f.client_hardware_address,
        mtype: f.msg_type,
        sname: f.server_name.into_bytes(),
        bfile: f.boot_file.into_bytes(),
    }
}

fn show_arp(v: &ArpV) -> String {
    format!("{} {} {} {} {} {} {} {} {}", v.htype, v.ptype, v.hlen, v.plen, v.oper, v.smac, v.sip, v.tmac, v.tip)
}
fn show_dns(v: &DnsV) -> String {
    format!(
        "{} {} {} {} {} {} {} {} {} {} {} {} {} {} {}",
        v.hdr[0], v.hdr[1], v.hdr[2], v.hdr[3], v.hdr[4], v.hdr[5],
        hex(&v.qname), v.qtype, v.qclass, hex(&v.name), v.rtype, v.class, v.ttl, v.rdlength, hex(&v.rdata)
    )
}
fn show_dhcp(v: &DhcpV) -> String {
    format!(
        "{} {} {} {} {} {} {} {} {} {} {} {} {} {} {}",
        v.op, v.htype, v.hlen, v.hops, v.xid, v.secs, v.flags, v.cip, v.yip, v.sip, v.rip, v.chaddr, v.mtype,
        hex(&v.sname), hex(&v.bfile)
    )
}

thread_local! {
    /// oracle failures of the op being executed; flushed by `Exec::apply` AFTER the op line has
    /// been written, so that the replay of a failure ends with the failing op
    static PENDING: std::cell::RefCell<Vec<(String, String)>> = std::cell::RefCell::new(vec![]);
}

/// record an oracle failure of the current op
pub fn fail(_out: &mut Out, what: &str, ident: &str) {
    PENDING.with(|p| p.borrow_mut().push((what.to_string(), ident.to_string())));
}

/// at most 3 failures per identity are kept as replayable failures so that one frequent
/// failure cannot crowd the others out of the (bounded) failure list
pub fn flush_failures(out: &mut Out) {
    static SEEN: Mutex<BTreeMap<String, u32>> = Mutex::new(BTreeMap::new());
    let pend: Vec<(String, String)> = PENDING.with(|p| p.borrow_mut().drain(..).collect());
    let mut seen = SEEN.lock().unwrap_or_else(|e| e.into_inner());
    for (what, ident) in pend {
        let n = seen.entry(ident.clone()).or_insert(0);
        *n += 1;
        if *n <= 3 {
            out.fail(&what, &ident);
        } else {
            out.count("oracle_failures");
        }
    }
}

/// what a decoder did with a byte string
pub enum Decoded<V> {
    Ok { v: V, consumed: usize, reenc: Vec<u8> },
    Err(String),
    Panic { site: String, ident: String },
}

fn dec_arp(bs: &[u8]) -> Decoded<ArpV> {
    let r = catch(|| {
        let mut it = bs.iter().cloned();
        let r = ArpPacket::from_bytes(it.by_ref());
        (r.map(|p| (arp_to(&p), p.build())), it.count())
    });
    match r {
        Ok((Ok((v, reenc)), left)) => Decoded::Ok { v, consumed: bs.len() - left, reenc },
        Ok((Err(e), _)) => Decoded::Err(format!("{:?}", e)),
        Err(p) => {
            let (site, ident) = classify(&p);
            Decoded::Panic { site, ident }
        }
    }
}
fn dec_dns(bs: &[u8]) -> Decoded<DnsV> {
    let r = catch(|| {
        let mut it = bs.iter().cloned();
        let r = DnsMessage::from_bytes(it.by_ref());
        let left = it.count();
        (r.map(|m| (dns_to(&m), m.to_message().map(|x| x.to_vec()))), left)
    });
    match r {
        Ok((Ok((v, Ok(reenc))), left)) => Decoded::Ok { v, consumed: bs.len() - left, reenc },
        Ok((Ok((_, Err(e))), _)) => Decoded::Err(format!("to_message:{:?}", e)),
        Ok((Err(e), _)) => Decoded::Err(format!("{:?}", e)),
        Err(p) => {
            let (site, ident) = classify(&p);
            Decoded::Panic { site, ident }
        }
    }
}
pub fn dec_dhcp(bs: &[u8]) -> Decoded<DhcpV> {
    let r = catch(|| {
        let mut it = bs.iter().cloned();
        let r = DhcpMessage::from_bytes(it.by_ref());
        let left = it.count();
        (r.map(|m| (dhcp_to(&m), DhcpMessage::to_message(m).map(|x| x.to_vec()))), left)
    });
    match r {
        Ok((Ok((v, Ok(reenc))), left)) => Decoded::Ok { v, consumed: bs.len() - left, reenc },
        Ok((Ok((_, Err(e))), _)) => Decoded::Err(format!("to_message:{:?}", e)),
        Ok((Err(e), _)) => Decoded::Err(format!("{:?}", e)),
        Err(p) => {
            let (site, ident) = classify(&p);
            Decoded::Panic { site, ident }
        }
    }
}

/// a session that records what is sent through it
#[derive(Default)]
pub struct Recorder(pub Mutex<Vec<Vec<u8>>>);
impl Session for Recorder {
    fn send(&self, message: Message, _machine: Arc<Machine>) -> Result<(), SendError> {
        self.0.lock().unwrap().push(message.to_vec());
        Ok(())
    }
}

pub struct Exec {
    pub proto: Proto,
    pub ok_seen: u64,
    pub err_seen: u64,
    pub rt_ok: u64,
}

impl Exec {
    pub fn new(proto: Proto) -> Self {
        Exec { proto, ok_seen: 0, err_seen: 0, rt_ok: 0 }
    }

    /// `dec`: answer line + the two decoder-side oracles (no panic; re-encoding reproduces the consumed bytes)
    fn dec_line(&mut self, bs: &[u8], out: &mut Out, ctx: &str) -> (String, Option<String>) {
        // returns (answer, Some(shown value) if accepted)
        macro_rules! go {
            ($dec:expr, $show:expr, $name:expr) => {{
                match $dec {
                    Decoded::Ok { v, consumed, reenc } => {
                        self.ok_seen += 1;
                        out.count(&format!("{}.outcome.ok", ctx));
                        // C08 second clause: re-encoding the decoded value reproduces the consumed bytes
                        if consumed > bs.len() || reenc != bs[..consumed] {
                            fail(out, 
                                &format!(
                                    "{} decoder accepted {} (consumed {} bytes) but re-encoding the decoded value gives {}",
                                    $name, hex(bs), consumed, hex(&reenc)
                                ),
                                &format!("reencode-differs {}", $name),
                            );
                        }
                        let s = $show(&v);
                        (format!("ok {} consumed={} reenc={}", s, consumed, hex(&reenc)), Some(s))
                    }
                    Decoded::Err(e) => {
                        self.err_seen += 1;
                        out.count(&format!("{}.outcome.err.{}", ctx, e));
                        (format!("err {}", e), None)
                    }
                    Decoded::Panic { site, ident } => {
                        out.count(&format!("{}.outcome.{}", ctx, site));
                        // C14: no byte string makes a decoder panic
                        fail(out, &format!("{} decoder panicked ({}) on input {}", $name, site, hex(bs)), &ident);
                        (site, None)
                    }
                }
            }};
        }
        match self.proto {
            Proto::Arp => go!(dec_arp(bs), show_arp, "arp"),
            Proto::Dns => go!(dec_dns(bs), show_dns, "dns"),
            Proto::Dhcp => go!(dec_dhcp(bs), show_dhcp, "dhcp"),
        }
    }

    fn enc_line(&mut self, w: &[&str], out: &mut Out) -> Option<String> {
        // parse the value, encode with the real encoder, compare with the independent wire writer,
        // decode encoding ++ rest, compare with the original value
        let num = |s: &str| s.parse::<u64>().ok();
        let (enc, spec, shown, wf, name): (Vec<u8>, Vec<u8>, String, bool, &str);
        let rest: Vec<u8>;
        match self.proto {
            Proto::Arp => {
                if w.len() != 11 {
                    return None;
                }
                let v = ArpV {
                    htype: num(w[1])? as u16,
                    ptype: num(w[2])? as u16,
                    hlen: num(w[3])? as u8,
                    plen: num(w[4])? as u8,
                    oper: num(w[5])? as u16,
                    smac: num(w[6])?,
                    sip: num(w[7])? as u32,
                    tmac: num(w[8])?,
                    tip: num(w[9])? as u32,
                };
                rest = unhex(w[10]);
                let p = arp_of(&v)?;
                enc = p.build();
                spec = spec_arp(&v);
                shown = show_arp(&v);
                wf = wf_arp(&v);
                name = "arp";
            }
            Proto::Dns => {
                if w.len() != 17 {
                    return None;
                }
                let v = DnsV {
                    hdr: [num(w[1])? as u16, num(w[2])? as u16, num(w[3])? as u16, num(w[4])? as u16, num(w[5])? as u16, num(w[6])? as u16],
                    qname: unhex(w[7]),
                    qtype: num(w[8])? as u16,
                    qclass: num(w[9])? as u16,
                    name: unhex(w[10]),
                    rtype: num(w[11])? as u16,
                    class: num(w[12])? as u16,
                    ttl: num(w[13])? as u32,
                    rdlength: num(w[14])? as u16,
                    rdata: unhex(w[15]),
                };
                rest = unhex(w[16]);
                enc = dns_of(&v).to_message().ok()?.to_vec();
                spec = spec_dns(&v);
                shown = show_dns(&v);
                wf = wf_dns(&v);
                name = "dns";
            }
            Proto::Dhcp => {
                if w.len() != 17 {
                    return None;
                }
                let v = DhcpV {
                    op: num(w[1])? as u8,
                    htype: num(w[2])? as u8,
                    hlen: num(w[3])? as u8,
                    hops: num(w[4])? as u8,
                    xid: num(w[5])? as u32,
                    secs: num(w[6])? as u16,
                    flags: num(w[7])? as u8,
                    cip: num(w[8])? as u32,
                    yip: num(w[9])? as u32,
                    sip: num(w[10])? as u32,
                    rip: num(w[11])? as u32,
                    chaddr: num(w[12])? as u16,
                    mtype: num(w[13])? as u8,
                    sname: unhex(w[14]),
                    bfile: unhex(w[15]),
                };
                rest = unhex(w[16]);
                enc = DhcpMessage::to_message(dhcp_of(&v)?).ok()?.to_vec();
                spec = spec_dhcp(&v);
                shown = show_dhcp(&v);
                wf = wf_dhcp(&v);
                name = "dhcp";
            }
        }
        // wire layout (only claimed for representable values: e.g. a 64-bit MAC has no 48-bit encoding)
        if wf && enc != spec {
            fail(out, 
                &format!("{} encoder output {} differs from the wire format {} for value {}", name, hex(&enc), hex(&spec), shown),
                &format!("wire-format-differs {}", name),
            );
        }
        let mut all = enc.clone();
        all.extend_from_slice(&rest);
        let (ans, got) = self.dec_line(&all, out, "enc");
        if wf {
            // C08 first clause: decode (encode v ++ rest) = v, consuming exactly the encoding
            let want = format!("ok {} consumed={} reenc={}", shown, enc.len(), hex(&enc));
            if ans != want {
                fail(out, 
                    &format!("{} round trip: value {} encoded as {} decodes (with {} trailing bytes) to `{}`", name, shown, hex(&enc), rest.len(), ans),
                    &format!("roundtrip-differs {}", name),
                );
            } else {
                self.rt_ok += 1;
                out.count("enc.wf_roundtrip_ok");
            }
        } else {
            out.count("enc.not_wf");
            let _ = got;
        }
        Some(format!("{} {}", hex(&enc), ans))
    }

    fn demux_line(&mut self, bs: &[u8], out: &mut Out) -> Option<String> {
        // what the decoder says about this datagram (for the drop oracle)
        match self.proto {
            Proto::Arp => {
                let accepted = matches!(dec_arp(bs), Decoded::Ok { .. });
                let arp = Arp::new();
                let rec = Arc::new(Recorder::default());
                let r = catch(|| arp.demux(Message::new(bs.to_vec()), rec.clone(), Control::new(), Machine::new().arc()));
                let table = catch(|| arp.verif_table()).unwrap_or_default();
                let sends = rec.0.lock().map(|v| v.len()).unwrap_or(0);
                match r {
                    Err(p) => {
                        let (site, ident) = classify(&p);
                        fail(out, &format!("Arp::demux panicked ({}) on datagram {}", site, hex(bs)), &ident);
                        out.count(&format!("demux.{}", site));
                        Some(site)
                    }
                    Ok(res) => {
                        if !accepted && (!table.is_empty() || sends != 0) {
                            fail(out, 
                                &format!("Arp::demux changed the table / sent {} frames for an undecodable datagram {}", sends, hex(bs)),
                                "demux-not-dropped arp",
                            );
                        }
                        // observable effect only: `Ok(())` and `Err(Header)` are both "dropped"
                        let ans = match (res, table.first()) {
                            (_, None) => "dropped".to_string(),
                            (Ok(()), Some((ipa, Ok(mac)))) if table.len() == 1 => format!("learned {} {}", ipn(*ipa), mac),
                            (r, t) => format!("other {:?} {:?}", r, t),
                        };
                        out.count(&format!("demux.{}", ans.split(' ').next().unwrap_or("")));
                        Some(ans)
                    }
                }
            }
            Proto::Dhcp => {
                let accepted = matches!(dec_dhcp(bs), Decoded::Ok { .. });
                let client = DhcpClient::new(ip(0x7b7b7b7b));
                let rec = Arc::new(Recorder::default());
                let r = catch(|| client.demux(Message::new(bs.to_vec()), rec.clone(), Control::new(), Machine::new().arc()));
                let sends: Vec<Vec<u8>> = rec.0.lock().map(|v| v.clone()).unwrap_or_default();
                let assigned = client.ip_address.read().map(|g| *g).unwrap_or(None);
                match r {
                    Err(p) => {
                        let (site, ident) = classify(&p);
                        fail(out, &format!("DhcpClient::demux panicked ({}) on datagram {}", site, hex(bs)), &ident);
                        out.count(&format!("demux.{}", site));
                        Some(site)
                    }
                    Ok(res) => {
                        if !accepted && (assigned.is_some() || !sends.is_empty()) {
                            fail(out, 
                                &format!("DhcpClient::demux did not drop an undecodable datagram {} (result {:?}, {} sends, address {:?})", hex(bs), res, sends.len(), assigned),
                                "demux-not-dropped dhcp-client",
                            );
                        }
                        // observable effect only: whether a no-effect outcome is `Ok`, `Err(Header)` or `Err(Other)`
                        // is not compared (all of them mean "this datagram did nothing")
                        let ans = match (res, sends.len(), assigned) {
                            (_, 0, None) => "none".to_string(),
                            (Ok(()), 1, None) => format!("sent {}", hex(&sends[0])),
                            (Ok(()), 0, Some(a)) => format!("assigned {}", ipn(a)),
                            (r, n, a) => format!("other {:?} {} {:?}", r, n, a),
                        };
                        out.count(&format!("demux.{}", ans.split(' ').next().unwrap_or("")));
                        Some(ans)
                    }
                }
            }
            Proto::Dns => None,
        }
    }

    fn qname_line(&mut self, bs: &[u8], out: &mut Out) -> Option<String> {
        if self.proto != Proto::Dns {
            return None;
        }
        let q = DnsQuestion::new(bs.to_vec());
        match catch(|| q.query_name()) {
            Ok(Ok(s)) => {
                out.count("qname.ok");
                // independent statement: the name is the same bytes, and they are UTF-8
                if s.as_bytes() != bs || std::str::from_utf8(bs).is_err() {
                    fail(out, &format!("query_name of {} returned {:?}", hex(bs), s), "query-name-differs");
                }
                Some(format!("ok {}", hex(s.as_bytes())))
            }
            Ok(Err(e)) => {
                out.count("qname.err");
                if std::str::from_utf8(bs).is_ok() {
                    fail(out, &format!("query_name rejected the UTF-8 name {}", hex(bs)), "query-name-rejects-utf8");
                }
                Some(format!("err {:?}", e))
            }
            Err(p) => {
                let (site, ident) = classify(&p);
                out.count(&format!("qname.{}", site));
                fail(out, &format!("DnsQuestion::query_name panicked ({}) on the name bytes {}", site, hex(bs)), &ident);
                Some(site)
            }
        }
    }

    /// Execute one op line; emit the (op, answer) pair.
    pub fn apply(&mut self, line: &str, out: &mut Out) {
        let w: Vec<&str> = line.split_whitespace().collect();
        let ans = match w.as_slice() {
            ["dec", h] => Some(self.dec_line(&unhex(h), out, "dec").0),
            ["enc", ..] => self.enc_line(&w, out),
            ["demux", h] => self.demux_line(&unhex(h), out),
            ["qname", h] => self.qname_line(&unhex(h), out),
            _ => None,
        };
        match ans {
            Some(a) => {
                out.count(&format!("op.{}", w[0]));
                out.line(line, &a)
            }
            None => out.line(line, "bad-op"),
        }
        flush_failures(out);
    }
}

// ------------------------------------------------------------------------------------------
// generators
// ------------------------------------------------------------------------------------------
/// boundary-biased value of `bits` bits
pub fn biased(rng: &mut Rng, bits: u32) -> u64 {
    let max: u64 = if bits >= 64 { u64::MAX } else { (1u64 << bits) - 1 };
    let v = match rng.below(12) {
        0 => 0,
        1 => 1,
        2 => max,
        3 => max - 1,
        4 => 1u64 << rng.below(bits as u64),
        5 => (1u64 << rng.below(bits as u64)).wrapping_sub(1),
        6 => max >> 1,
        7 => (max >> 1) + 1,
        8 => 0x20,   // the DNS delimiter as a field byte
        9 => 0x2020, // … in both bytes of a u16
        _ => rng.next(),
    };
    v & max
}

fn gen_arp(rng: &mut Rng, allow_wide_mac: bool) -> ArpV {
    let mac = |rng: &mut Rng| if allow_wide_mac && rng.chance(1, 6) { biased(rng, 64) } else { biased(rng, 48) };
    ArpV {
        htype: if rng.chance(1, 3) { 1 } else { biased(rng, 16) as u16 },
        ptype: if rng.chance(1, 3) { 0x0800 } else { biased(rng, 16) as u16 },
        hlen: if rng.chance(1, 3) { 6 } else { biased(rng, 8) as u8 },
        plen: if rng.chance(1, 3) { 4 } else { biased(rng, 8) as u8 },
        oper: 1 + rng.below(2) as u16,
        smac: mac(rng),
        sip: biased(rng, 32) as u32,
        tmac: mac(rng),
        tip: biased(rng, 32) as u32,
    }
}

fn gen_dns_name(rng: &mut Rng, allow_delim: bool) -> Vec<u8> {
    let len = match rng.below(10) {
        0 => 0,
        1 => 1,
        2 => 63,
        3 => 255,
        4 => rng.range(256, 600) as usize,
        _ => rng.range(1, 30) as usize,
    };
    let style = rng.below(4);
    (0..len)
        .map(|_| {
            let b = match style {
                0 => *rng.pick(b"abcdefghijklmnopqrstuvwxyz0123456789.-"),
                1 => rng.next() as u8,
                2 => *rng.pick(&[0x00u8, 0x1f, 0x21, 0x7f, 0x80, 0xff, 0x2e, 0x61]),
                _ => rng.range(0x21, 0x7e) as u8,
            };
            if b == dl() && !(allow_delim && rng.chance(1, 2)) {
                other(dl())
            } else {
                b
            }
        })
        .collect()
}

fn gen_dns(rng: &mut Rng, wf_only: bool) -> DnsV {
    let rdlen = match rng.below(12) {
        0 => 0,
        1 => 1,
        2 => 255,
        3 => 256,
        4 => rng.range(257, 2000) as usize,
        5 => 16,
        _ => 4,
    };
    let rdata: Vec<u8> = if rng.chance(1, 4) { vec![dl(); rdlen] } else { rng.bytes(rdlen) };
    let rdlength = if wf_only || rng.chance(5, 6) { rdlen as u16 } else { biased(rng, 16) as u16 };
    let qname = gen_dns_name(rng, !wf_only);
    let name = if rng.chance(1, 2) { qname.clone() } else { gen_dns_name(rng, !wf_only) };
    let mut hdr = [0u16; 6];
    for h in hdr.iter_mut() {
        *h = biased(rng, 16) as u16;
    }
    DnsV {
        hdr,
        qname,
        qtype: if rng.chance(1, 2) { 1 } else { biased(rng, 16) as u16 },
        qclass: if rng.chance(1, 2) { 1 } else { biased(rng, 16) as u16 },
        name,
        rtype: if rng.chance(1, 2) { 1 } else { biased(rng, 16) as u16 },
        class: if rng.chance(1, 2) { 1 } else { biased(rng, 16) as u16 },
        ttl: biased(rng, 32) as u32,
        rdlength,
        rdata,
    }
}

/// a valid `String`, with multi-byte characters at every encoded-length boundary
fn gen_string(rng: &mut Rng, allow_nul: bool) -> Vec<u8> {
    const CH: [char; 22] = [
        'a', 'Z', '0', '.', ' ', '\u{1}', '\u{7f}', '\u{80}', '\u{7ff}', '\u{800}', '\u{fff}', '\u{1000}', '\u{d7ff}',
        '\u{e000}', '\u{fffd}', '\u{ffff}', '\u{10000}', '\u{3ffff}', '\u{40000}', '\u{fffff}', '\u{100000}', '\u{10ffff}',
    ];
    let len = match rng.below(8) {
        0 => 0,
        1 => 1,
        2 => rng.range(40, 90) as usize,
        _ => rng.range(1, 12) as usize,
    };
    let ascii_only = rng.chance(1, 2);
    let mut s = String::new();
    for _ in 0..len {
        if allow_nul && rng.chance(1, 12) {
            s.push(if tm() < 0x80 { tm() as char } else { 'a' });
        } else if ascii_only {
            s.push(rng.range(0x21, 0x7e) as u8 as char);
        } else {
            s.push(*rng.pick(&CH));
        }
    }
    if !allow_nul {
        s.retain(|c| c as u32 != tm() as u32);
    }
    s.into_bytes()
}

fn gen_dhcp(rng: &mut Rng, wf_only: bool) -> DhcpV {
    DhcpV {
        op: biased(rng, 8) as u8,
        htype: biased(rng, 8) as u8,
        hlen: biased(rng, 8) as u8,
        hops: biased(rng, 8) as u8,
        xid: biased(rng, 32) as u32,
        secs: biased(rng, 16) as u16,
        flags: biased(rng, 8) as u8,
        cip: biased(rng, 32) as u32,
        yip: biased(rng, 32) as u32,
        sip: biased(rng, 32) as u32,
        rip: biased(rng, 32) as u32,
        chaddr: biased(rng, 16) as u16,
        mtype: rng.range(1, 7) as u8,
        sname: gen_string(rng, !wf_only),
        bfile: gen_string(rng, !wf_only),
    }
}

fn enc_op_arp(v: &ArpV, rest: &[u8]) -> String {
    format!("enc {} {}", show_arp(v), hex(rest))
}
fn enc_op_dns(v: &DnsV, rest: &[u8]) -> String {
    format!("enc {} {}", show_dns(v), hex(rest))
}
fn enc_op_dhcp(v: &DhcpV, rest: &[u8]) -> String {
    format!("enc {} {}", show_dhcp(v), hex(rest))
}

/// byte sequences around every boundary of well-formed UTF-8 (Unicode table 3-7): lead byte x second byte x tail
pub fn utf8_table() -> Vec<Vec<u8>> {
    let mut t = vec![];
    let seconds = [0x00u8, 0x7f, 0x80, 0x8f, 0x90, 0x9f, 0xa0, 0xbf, 0xc0, 0xff];
    let tails: [&[u8]; 7] = [&[], &[0x80], &[0xbf], &[0x80, 0x80], &[0xbf, 0xbf], &[0x80, 0x7f], &[0xc0, 0x80]];
    for lead in 0x80u16..=0xff {
        t.push(vec![lead as u8]);
        for s in seconds {
            for tail in tails {
                let mut v = vec![lead as u8, s];
                v.extend_from_slice(tail);
                t.push(v);
            }
        }
    }
    t
}

/// between `lo` and `hi` random bytes
fn rbytes(rng: &mut Rng, lo: u64, hi: u64) -> Vec<u8> {
    let n = rng.range(lo, hi) as usize;
    rng.bytes(n)
}

fn random_garbage(rng: &mut Rng) -> Vec<u8> {
    let n = match rng.below(6) {
        0 => 0,
        1 => rng.range(1, 8) as usize,
        2 => rng.range(100, 300) as usize,
        _ => rng.range(8, 80) as usize,
    };
    match rng.below(4) {
        0 => vec![0u8; n],
        1 => vec![0xff; n],
        2 => vec![dl(); n],
        _ => rng.bytes(n),
    }
}

/// ops of one malformed-stream case: a valid packet, every truncation, field mutations, extreme lengths,
/// invalid codes, non-UTF-8 strings, random bytes; `demux` on a subset
pub fn malformed_case(proto: Proto, case: u64, rng: &mut Rng) -> Vec<String> {
    let mut ops: Vec<String> = vec![];
    let dec = |b: &[u8]| format!("dec {}", hex(b));
    let demux = |b: &[u8]| format!("demux {}", hex(b));
    let table = utf8_table();
    match proto {
        Proto::Arp => {
            let v = gen_arp(rng, false);
            let b = spec_arp(&v);
            ops.push(dec(&b));
            ops.push(demux(&b));
            for n in 0..b.len() {
                ops.push(dec(&b[..n]));
                if rng.chance(1, 4) {
                    ops.push(demux(&b[..n]));
                }
            }
            // operation codes
            for o in [0u16, 3, 0x0100, 0x0200, 0x0101, 0xffff, biased(rng, 16) as u16] {
                let mut m = b.clone();
                m[6] = (o >> 8) as u8;
                m[7] = o as u8;
                ops.push(dec(&m));
                ops.push(demux(&m));
            }
            // single-field mutations (offset, width)
            for (off, wd) in [(0usize, 2usize), (2, 2), (4, 1), (5, 1), (6, 2), (8, 6), (14, 4), (18, 6), (24, 4)] {
                let mut m = b.clone();
                let val = biased(rng, 8 * wd as u32);
                for k in 0..wd {
                    m[off + k] = (val >> (8 * (wd - 1 - k))) as u8;
                }
                let mut ext = m.clone();
                ext.extend(rbytes(rng, 0, 5));
                ops.push(dec(&ext));
                ops.push(demux(&m));
            }
        }
        Proto::Dns => {
            if case == 0 {
                // every boundary sequence as a query name
                for s in &table {
                    ops.push(format!("qname {}", hex(s)));
                }
                return ops;
            }
            let mut v = gen_dns(rng, true);
            if v.qname.len() > 40 {
                v.qname.truncate(40);
            }
            if v.name.len() > 40 {
                v.name.truncate(40);
            }
            if v.rdata.len() > 20 {
                v.rdata.truncate(20);
                v.rdlength = v.rdata.len() as u16;
            }
            let b = spec_dns(&v);
            ops.push(dec(&b));
            for n in 0..b.len() {
                ops.push(dec(&b[..n]));
            }
            // extreme / inconsistent rdlength
            let rdl_off = b.len() - v.rdata.len() - 2;
            for l in [0u16, 1, v.rdlength.wrapping_sub(1), v.rdlength.wrapping_add(1), 0x00ff, 0x0100, 0x7fff, 0x8000, 0xfffe, 0xffff] {
                let mut m = b.clone();
                m[rdl_off] = (l >> 8) as u8;
                m[rdl_off + 1] = l as u8;
                m.extend(rbytes(rng, 0, 3));
                ops.push(dec(&m));
            }
            // a maximal record now and then: rdlength 65535 / 65534 with exactly / one less than that many bytes
            if case % 40 == 1 {
                for (l, have) in [(0xffffu16, 0xffffusize), (0xffff, 0xfffe), (0xfffe, 0xffff)] {
                    let mut w = v.clone();
                    w.rdlength = l;
                    w.rdata = vec![0xab; have];
                    ops.push(dec(&spec_dns(&w)));
                }
            }
            // delimiter games: none at all, delimiter inside a fixed field, empty names
            let mut nodelim = b.clone();
            for x in nodelim.iter_mut() {
                if *x == dl() {
                    *x = other(dl());
                }
            }
            ops.push(dec(&nodelim));
            let mut w = v.clone();
            w.qname.clear();
            w.name.clear();
            ops.push(dec(&spec_dns(&w)));
            let mut w = v.clone();
            w.qname.insert(w.qname.len() / 2, dl());
            ops.push(dec(&spec_dns(&w)));
            // single-field mutations of the fixed-width fields
            let q_off = 12 + v.qname.len() + 1;
            let a_off = q_off + 4 + v.name.len() + 1;
            let mut fields: Vec<(usize, usize)> = (0..6).map(|i| (2 * i, 2)).collect();
            fields.extend([(q_off, 2), (q_off + 2, 2), (a_off, 2), (a_off + 2, 2), (a_off + 4, 4)]);
            for (off, wd) in fields {
                let mut m = b.clone();
                let val = biased(rng, 8 * wd as u32);
                for k in 0..wd {
                    m[off + k] = (val >> (8 * (wd - 1 - k))) as u8;
                }
                ops.push(dec(&m));
            }
            // names that are not UTF-8: accepted by the decoder, then handed to query_name
            for _ in 0..6 {
                let s = rng.pick(&table).clone();
                ops.push(format!("qname {}", hex(&s)));
                let mut w = v.clone();
                w.qname = s.iter().map(|x| if *x == dl() { other(dl()) } else { *x }).collect();
                ops.push(dec(&spec_dns(&w)));
            }
            ops.push(format!("qname {}", hex(&v.qname)));
        }
        Proto::Dhcp => {
            let mut v = gen_dhcp(rng, true);
            v.sname.truncate(30);
            v.bfile.truncate(30);
            while std::str::from_utf8(&v.sname).is_err() {
                v.sname.pop();
            }
            while std::str::from_utf8(&v.bfile).is_err() {
                v.bfile.pop();
            }
            if case == 0 {
                // every boundary sequence as server name and as boot file
                for s in &table {
                    if s.contains(&tm()) {
                        continue;
                    }
                    let mut w = v.clone();
                    w.sname = s.clone();
                    ops.push(dec(&spec_dhcp(&w)));
                    let mut w = v.clone();
                    w.bfile = s.clone();
                    ops.push(dec(&spec_dhcp(&w)));
                }
                return ops;
            }
            let b = spec_dhcp(&v);
            ops.push(dec(&b));
            ops.push(demux(&b));
            for n in 0..b.len() {
                ops.push(dec(&b[..n]));
                if rng.chance(1, 5) {
                    ops.push(demux(&b[..n]));
                }
            }
            // every message type code class: valid ones through demux, invalid ones
            for t in [0u8, 1, 2, 3, 4, 5, 6, 7, 8, 9, 0x7f, 0x80, 0xff, rng.next() as u8] {
                let mut w = v.clone();
                w.mtype = t;
                let m = spec_dhcp(&w);
                ops.push(dec(&m));
                ops.push(demux(&m));
                // invalid type AND truncated right after it (order of the checks)
                ops.push(dec(&m[..30]));
            }
            // non-UTF-8 strings, in either field, with the other one valid / invalid / unterminated
            for _ in 0..8 {
                let s: Vec<u8> = rng.pick(&table).iter().map(|x| if *x == tm() { other(tm()) } else { *x }).collect();
                let mut w = v.clone();
                let which = rng.below(3);
                if which != 1 {
                    w.sname = s.clone();
                }
                if which != 0 {
                    w.bfile = s.clone();
                }
                let m = spec_dhcp(&w);
                ops.push(dec(&m));
                ops.push(demux(&m));
                // bad server name followed by a truncated boot file: which error comes first
                let cut = 30 + w.sname.len() + 1 + rng.below(w.bfile.len() as u64 + 1) as usize;
                ops.push(dec(&m[..cut.min(m.len())]));
            }
            // no terminator at all
            let mut noterm = b.clone();
            for x in noterm.iter_mut().skip(30) {
                if *x == tm() {
                    *x = other(tm());
                }
            }
            ops.push(dec(&noterm));
            ops.push(demux(&noterm));
            // single-field mutations
            for (off, wd) in [(0usize, 1usize), (1, 1), (2, 1), (3, 1), (4, 4), (8, 2), (10, 1), (11, 4), (15, 4), (19, 4), (23, 4), (27, 2)] {
                let mut m = b.clone();
                let val = biased(rng, 8 * wd as u32);
                for k in 0..wd {
                    m[off + k] = (val >> (8 * (wd - 1 - k))) as u8;
                }
                ops.push(dec(&m));
                if rng.chance(1, 3) {
                    ops.push(demux(&m));
                }
            }
        }
    }
    // random bytes, and a valid prefix followed by random bytes
    for _ in 0..6 {
        let g = random_garbage(rng);
        ops.push(dec(&g));
        if proto != Proto::Dns && rng.chance(1, 2) {
            ops.push(demux(&g));
        }
    }
    ops
}

/// ops of one round-trip case
pub fn roundtrip_case(proto: Proto, rng: &mut Rng) -> Vec<String> {
    let mut ops = vec![];
    for _ in 0..12 {
        let rest = match rng.below(4) {
            0 => vec![],
            1 => vec![dl(), tm()],
            _ => rbytes(rng, 1, 12),
        };
        let wf_only = rng.chance(5, 6);
        match proto {
            Proto::Arp => ops.push(enc_op_arp(&gen_arp(rng, !wf_only), &rest)),
            Proto::Dns => ops.push(enc_op_dns(&gen_dns(rng, wf_only), &rest)),
            Proto::Dhcp => ops.push(enc_op_dhcp(&gen_dhcp(rng, wf_only), &rest)),
        }
    }
    // accepted byte strings that no encoder produced: wire-level random packets
    for _ in 0..8 {
        let b = match proto {
            Proto::Arp => {
                let mut b = rbytes(rng, 28, 32);
                // the 16-bit operation field: mostly the two valid codes, sometimes a value that is
                // valid in one octet only (0x0101, 0xff02, 0x0100, 0x0003 …): a decoder that looks
                // at part of the field accepts those, and re-encoding then differs from the input
                if rng.chance(3, 4) {
                    b[6] = 0;
                    b[7] = 1 + rng.below(2) as u8;
                } else {
                    b[6] = *rng.pick(&[0u8, 1, 2, 0x80, 0xff]);
                    b[7] = *rng.pick(&[0u8, 1, 2, 3, 0xff]);
                }
                b
            }
            Proto::Dns => {
                let mut b = rng.bytes(12);
                let n1 = rng.below(20) as usize;
                b.extend(rng.bytes(n1));
                b.push(dl());
                b.extend(rng.bytes(4));
                let n2 = rng.below(20) as usize;
                b.extend(rng.bytes(n2));
                b.push(dl());
                b.extend(rng.bytes(8));
                let l = rng.below(40) as usize;
                b.push(0);
                b.push(l as u8);
                b.extend(rbytes(rng, l as u64, l as u64 + 3));
                b
            }
            Proto::Dhcp => {
                let mut b = rng.bytes(29);
                b.push(rng.range(1, 7) as u8);
                b.extend(gen_string(rng, false));
                b.push(tm());
                b.extend(gen_string(rng, false));
                b.push(tm());
                b.extend(rbytes(rng, 0, 4));
                b
            }
        };
        ops.push(format!("dec {}", hex(&b)));
    }
    ops
}

pub fn proto_of(sub: &str) -> Proto {
    if sub.contains("arp") {
        Proto::Arp
    } else if sub.contains("dns") {
        Proto::Dns
    } else {
        Proto::Dhcp
    }
}

pub fn run(args: &Args) {
    let proto = proto_of(&args.prop);
    let rt = args.prop.starts_with("c14-rt-");
    let mut out = Out::new(&args.out);
    out.max_failures = 40;
    let rule = if rt {
        "round-trip stream: per case 12 `enc` ops (values with every field drawn boundary-biased from its full range, 5/6 of them representable in the sense of the property, random trailing bytes) and 8 `dec` ops on wire-level random packets no encoder produced; oracles: decode(encode v ++ rest) = v consuming exactly the encoding, encoder output = independently written wire layout, re-encoding an accepted packet = consumed bytes; a case is non-trivial if >= 6 representable values round-tripped and >= 1 wire-level packet was accepted; distinct = hash of the op lines"
    } else {
        "malformed stream: per case one valid packet, every truncation length of it, every single-field mutation, extreme/inconsistent length fields, invalid operation/type codes, non-UTF-8 strings from the table of UTF-8 boundary sequences (case 0 sweeps the whole table), missing delimiters, random bytes; `demux` ops feed the same datagrams to Arp::demux / DhcpClient::demux, `qname` ops to DnsQuestion::query_name; oracles: no panic, an undecodable datagram is dropped without side effect, re-encoding an accepted packet = consumed bytes; a case is non-trivial if it saw >= 1 accepted and >= 3 rejected inputs; distinct = hash of the op lines"
    };
    if let Some(rp) = &args.replay {
        let mut ex = Exec::new(proto);
        out.begin_case(0);
        out.mark_nontrivial();
        for l in read_ops(rp) {
            if l.starts_with("case ") {
                continue;
            }
            ex.apply(&l, &mut out);
        }
        out.end_case();
        out.finish(rule);
        return;
    }
    let mut rng = Rng::new(args.seed ^ ((proto as u64 + 1) << 40) ^ if rt { 1 << 50 } else { 0 });
    for c in 0..args.cases {
        let mut r = rng.fork();
        let mut ex = Exec::new(proto);
        out.begin_case(c);
        let ops = if rt { roundtrip_case(proto, &mut r) } else { malformed_case(proto, c, &mut r) };
        for op in ops {
            ex.apply(&op, &mut out);
        }
        let nontrivial = if rt { ex.rt_ok >= 6 && ex.ok_seen > ex.rt_ok } else { (ex.ok_seen >= 1 && ex.err_seen >= 3) || c == 0 };
        if nontrivial {
            out.mark_nontrivial();
        }
        out.end_case();
    }
    out.finish(rule);
}
