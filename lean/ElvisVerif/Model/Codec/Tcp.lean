import ElvisVerif.Model.Checksum
import ElvisVerif.Model.Codec.Bytes
/-
Model of sim/elvis-core/src/protocols/tcp/tcp_parsing.rs:
`TcpHeader::from_bytes`, `TcpHeader::serialize`, `TcpHeader::bytes`, `TcpHeaderBuilder::build`
(with the builder's setters), `Control::{new, urg, ack, psh, rst, syn, fin, set_*}`.

Code order is kept: `UnexpectedOptions` is decided after the offset/control bytes and before
the window is read; `PacketTooLong` after everything was consumed; the checksum accumulator is
threaded in the order of the `checksum.add_*` calls.  `ck` is the cargo feature
`compute_checksum`.  Only core imports (linked into the driver).
-/
namespace Elvis.Codec.Tcp
open Elvis.Ck Elvis.Codec

/-- `TcpHeader` (`ctl` is the wrapped `u8` of `Control`) -/
structure Header where
  srcPort : Nat
  dstPort : Nat
  seq : Nat
  ack : Nat
  dataOffset : Nat
  ctl : Nat
  wnd : Nat
  urg : Nat
  checksum : Nat
deriving DecidableEq, Repr

/-- `tcp_parsing::ParseError` -/
inductive ParseError where
  | headerTooShort
  | packetTooLong
  | checksum (actual expected : Nat)
  | unexpectedOptions
deriving DecidableEq, Repr

/-- `tcp_parsing::BuildHeaderError` -/
inductive BuildError where
  | overlyLongPayload
deriving DecidableEq, Repr

abbrev hts : Res ParseError Header := .error (.err .headerTooShort)

/-- `TcpHeader::from_bytes(packet, packet_len, src_address, dst_address)` -/
def fromBytes (ck : Bool) (bs : List UInt8) (packetLen src dst : Nat) : Res ParseError Header :=
  match nextU16 bs with
  | none => hts
  | some (srcPort, bs) =>
  let c := add16 ck 0 srcPort
  match nextU16 bs with
  | none => hts
  | some (dstPort, bs) =>
  let c := add16 ck c dstPort
  match nextU32 bs with
  | none => hts
  | some (seq, bs) =>
  let c := addWord32 ck c seq
  match nextU32 bs with
  | none => hts
  | some (ack, bs) =>
  let c := addWord32 ck c ack
  -- packet.next_n::<2>()
  match nextU8 bs with
  | none => hts
  | some (orc0, bs) =>
  match nextU8 bs with
  | none => hts
  | some (orc1, bs) =>
  let c := add16 ck c (orc0 * 256 + orc1)
  -- data_offset = orc[0] >> 4; ctl = Control::from(orc[1] & 0b11_1111)
  let dataOffset := orc0 / 16
  let ctl := orc1 % 64
  if dataOffset ≠ 5 then .error (.err .unexpectedOptions) else
  match nextU16 bs with
  | none => hts
  | some (wnd, bs) =>
  let c := add16 ck c wnd
  match nextU16 bs with
  | none => hts
  | some (expected, bs) =>
  match nextU16 bs with
  | none => hts
  | some (urg, bs) =>
  let c := add16 ck c urg
  let c := accumulateRemainder ck c bs
  -- pseudo header
  let c := addWord32 ck c src
  let c := addWord32 ck c dst
  let c := addU8 ck c 0 6
  -- packet_len.try_into().map_err(|_| PacketTooLong)?
  if packetLen > 65535 then .error (.err .packetTooLong) else
  let c := add16 ck c packetLen
  -- fix of F-C18-1: if checksum.matches(expected_checksum) { Ok(.. checksum: expected_checksum) }
  if matchesField ck c expected then
    .ok { srcPort := srcPort, dstPort := dstPort, seq := seq, ack := ack, dataOffset := dataOffset,
          ctl := ctl, wnd := wnd, urg := urg, checksum := expected }
  else .error (.err (.checksum (asU16 ck c) expected))

/-- `TcpHeader::bytes`: `self.data_offset * 4` on `u8` (checked) -/
def headerBytes (h : Header) : Res Unit Nat :=
  if h.dataOffset * 4 > 255 then .error (.panic "panic:mul-overflow:TcpHeader::bytes") else .ok (h.dataOffset * 4)

/-- `TcpHeader::serialize`; `self.data_offset << 4` on `u8` drops the high bits silently -/
def serialize (h : Header) : List UInt8 :=
  be16 h.srcPort ++ be16 h.dstPort ++ be32 h.seq ++ be32 h.ack
    ++ [n2b (h.dataOffset % 16 * 16), n2b h.ctl]
    ++ be16 h.wnd ++ be16 h.checksum ++ be16 h.urg

/-- `usize::MAX + 1` on the 64-bit targets the harness runs on -/
def usizeLimit : Nat := 18446744073709551616

/-- `TcpHeaderBuilder::build(self, src_address, dst_address, text, text_len)`; `h` is the
    builder's inner header (`data_offset` and `checksum` are overwritten).
    `text_len + BASE_HEADER_OCTETS as usize` is a checked `usize` addition. -/
def build (ck : Bool) (h : Header) (src dst : Nat) (text : List UInt8) (textLen : Nat) :
    Res BuildError Header :=
  if textLen + 20 ≥ usizeLimit then .error (.panic "panic:add-overflow:TcpHeaderBuilder::build") else
  if textLen + 20 > 65535 then .error (.err .overlyLongPayload) else
  let length := textLen + 20
  let c := accumulateRemainder ck 0 text
  let dataOffset := 5
  -- pseudo header
  let c := addWord32 ck c src
  let c := addWord32 ck c dst
  let c := addU8 ck c 0 6
  let c := add16 ck c length
  -- header parts
  let c := add16 ck c h.srcPort
  let c := add16 ck c h.dstPort
  let c := addWord32 ck c h.seq
  let c := addWord32 ck c h.ack
  let c := addU8 ck c (dataOffset * 16) h.ctl
  let c := add16 ck c h.wnd
  let c := add16 ck c h.urg
  .ok { h with dataOffset := dataOffset, checksum := asU16 ck c }

/-- `Control::new(urg, ack, psh, rst, syn, fin)` -/
def ctlNew (urg ack psh rst syn fin : Bool) : Nat :=
  fin.toNat + syn.toNat * 2 + rst.toNat * 4 + psh.toNat * 8 + ack.toNat * 16 + urg.toNat * 32

/-- `Control::bit(bit)`: `(self.0 >> bit) & 0b1 == 1` -/
def ctlBit (c bit : Nat) : Bool := c / 2 ^ bit % 2 == 1
def ctlUrg (c : Nat) : Bool := ctlBit c 5
def ctlAck (c : Nat) : Bool := ctlBit c 4
def ctlPsh (c : Nat) : Bool := ctlBit c 3
def ctlRst (c : Nat) : Bool := ctlBit c 2
def ctlSyn (c : Nat) : Bool := ctlBit c 1
def ctlFin (c : Nat) : Bool := ctlBit c 0

/-- `Control::set_bit(bit, state)`: `(self.0 & !(1 << bit)) | ((state as u8) << bit)` -/
def ctlSetBit (c bit : Nat) (state : Bool) : Nat :=
  (if ctlBit c bit then c - 2 ^ bit else c) + state.toNat * 2 ^ bit

/-- `TcpHeaderBuilder::new(src_port, dst_port, seq)` -/
def builderNew (srcPort dstPort seq : Nat) : Header :=
  { srcPort := srcPort, dstPort := dstPort, seq := seq, ack := 0, dataOffset := 0, ctl := 0,
    wnd := 0, urg := 0, checksum := 0 }
def builderWnd (h : Header) (wnd : Nat) : Header := { h with wnd := wnd }
def builderAck (h : Header) (ack : Nat) : Header := { h with ack := ack, ctl := ctlSetBit h.ctl 4 true }
def builderPsh (h : Header) : Header := { h with ctl := ctlSetBit h.ctl 3 true }
def builderRst (h : Header) : Header := { h with ctl := ctlSetBit h.ctl 2 true }
def builderSyn (h : Header) : Header := { h with ctl := ctlSetBit h.ctl 1 true }
def builderFin (h : Header) : Header := { h with ctl := ctlSetBit h.ctl 0 true }
def builderUrg (h : Header) (urg : Nat) : Header := { h with urg := urg, ctl := ctlSetBit h.ctl 5 true }

end Elvis.Codec.Tcp
