import ElvisVerif.Model.Socket
/-! Helper lemmas for C02 (socket layer). Property theorems live in `Props/C02.lean`. -/
namespace Elvis.Sock

/-! ### recv loop -/

theorem pending_none (q : List Msg) : pending none q = q.flatten := by simp [pending]
theorem pending_some (m : Msg) (q : List Msg) : pending (some m) q = m ++ q.flatten := by simp [pending]

theorem recvLimit_ge (rem : Bool) (n b : Nat) : n ≤ b + recvLimit rem n b := by
  unfold recvLimit; split <;> omega

theorem recvLoop_stream (rem : Bool) (n : Nat) (blocking : Bool) :
    ∀ (q : List Msg) (buf : Bytes) (stored : Option Msg), (stored = none ∨ n ≤ buf.length) →
      (recvLoop rem n blocking buf stored q).out
        ++ pending (recvLoop rem n blocking buf stored q).stored (recvLoop rem n blocking buf stored q).queue
      = buf ++ pending stored q := by
  intro q
  induction q with
  | nil => intro buf stored _; simp [recvLoop]
  | cons m q ih =>
    intro buf stored h
    unfold recvLoop
    by_cases hlt : buf.length < n
    · have hs : stored = none := by
        rcases h with h | h
        · exact h
        · omega
      subst hs
      simp only [hlt, if_true]
      by_cases hm : m.length ≤ recvLimit rem n buf.length
      · simp only [hm, if_true]
        rw [ih (buf ++ m) none (.inl rfl)]
        simp [pending]
      · simp only [hm, if_false]
        have hge := recvLimit_ge rem n buf.length
        rw [ih (buf ++ m.take (recvLimit rem n buf.length)) (some (m.drop (recvLimit rem n buf.length)))
              (.inr (by simp [List.length_take]; omega))]
        simp only [pending_some, pending_none, List.flatten_cons, List.append_assoc]
        rw [← List.append_assoc (m.take _), List.take_append_drop]
    · simp [hlt]

theorem recvLoop_bound_fixed (n : Nat) (blocking : Bool) :
    ∀ (q : List Msg) (buf : Bytes) (stored : Option Msg), buf.length ≤ n →
      (recvLoop true n blocking buf stored q).out.length ≤ n := by
  intro q
  induction q with
  | nil => intro buf stored h; simpa [recvLoop] using h
  | cons m q ih =>
    intro buf stored h
    unfold recvLoop
    by_cases hlt : buf.length < n
    · simp only [hlt, if_true]
      by_cases hm : m.length ≤ recvLimit true n buf.length
      · simp only [hm, if_true]
        apply ih
        simp [recvLimit] at hm
        simp; omega
      · simp only [hm, if_false]
        apply ih
        simp [recvLimit, List.length_take]; omega
    · simpa [hlt] using h

theorem recvLoop_bound_orig (n : Nat) (blocking : Bool) :
    ∀ (q : List Msg) (buf : Bytes) (stored : Option Msg), buf.length ≤ 2 * n - 1 →
      (recvLoop false n blocking buf stored q).out.length ≤ 2 * n - 1 := by
  intro q
  induction q with
  | nil => intro buf stored h; simpa [recvLoop] using h
  | cons m q ih =>
    intro buf stored h
    unfold recvLoop
    by_cases hlt : buf.length < n
    · simp only [hlt, if_true]
      by_cases hm : m.length ≤ recvLimit false n buf.length
      · simp only [hm, if_true]
        apply ih
        simp [recvLimit] at hm
        simp; omega
      · simp only [hm, if_false]
        apply ih
        simp [recvLimit, List.length_take]; omega
    · simpa [hlt] using h

/-- the loop consumes a prefix of the queue -/
theorem recvLoop_queue_suffix (rem : Bool) (n : Nat) (blocking : Bool) :
    ∀ (q : List Msg) (buf : Bytes) (stored : Option Msg),
      ∃ k, (recvLoop rem n blocking buf stored q).queue = q.drop k := by
  intro q
  induction q with
  | nil => intro buf stored; exact ⟨0, by simp [recvLoop]⟩
  | cons m q ih =>
    intro buf stored
    unfold recvLoop
    by_cases hlt : buf.length < n
    · simp only [hlt, if_true]
      by_cases hm : m.length ≤ recvLimit rem n buf.length
      · simp only [hm, if_true]
        obtain ⟨k, hk⟩ := ih (buf ++ m) stored
        exact ⟨k + 1, by simpa using hk⟩
      · simp only [hm, if_false]
        obtain ⟨k, hk⟩ := ih (buf ++ m.take (recvLimit rem n buf.length)) (some (m.drop (recvLimit rem n buf.length)))
        exact ⟨k + 1, by simpa using hk⟩
    · exact ⟨0, by simp [hlt]⟩

/-- the loop stops only when the buffer is full or nothing is left -/
theorem recvLoop_full (rem : Bool) (n : Nat) (blocking : Bool) :
    ∀ (q : List Msg) (buf : Bytes) (stored : Option Msg), (stored = none ∨ n ≤ buf.length) →
      n ≤ (recvLoop rem n blocking buf stored q).out.length
        ∨ ((recvLoop rem n blocking buf stored q).stored = none ∧ (recvLoop rem n blocking buf stored q).queue = []) := by
  intro q
  induction q with
  | nil =>
    intro buf stored h
    rcases h with h | h
    · right; simp [recvLoop, h]
    · left; simpa [recvLoop] using h
  | cons m q ih =>
    intro buf stored h
    unfold recvLoop
    by_cases hlt : buf.length < n
    · have hs : stored = none := by
        rcases h with h | h
        · exact h
        · omega
      subst hs
      simp only [hlt, if_true]
      by_cases hm : m.length ≤ recvLimit rem n buf.length
      · simp only [hm, if_true]
        exact ih (buf ++ m) none (.inl rfl)
      · simp only [hm, if_false]
        have hge := recvLimit_ge rem n buf.length
        exact ih _ _ (.inr (by simp [List.length_take]; omega))
    · left; simp [hlt]; omega

/-! ### SocketSession -/

theorem replayLoop_fits (cap : Nat) : ∀ (pre chan : List Msg), chan.length + pre.length ≤ cap →
    replayLoop cap chan pre = (chan ++ pre, [], true) := by
  intro pre
  induction pre with
  | nil => intro chan _; simp [replayLoop]
  | cons m rest ih =>
    intro chan h
    simp only [List.length_cons] at h
    have hlt : chan.length < cap := by omega
    simp only [replayLoop, hlt, if_true]
    rw [ih (chan ++ [m]) (by simp; omega)]
    simp

theorem replayLoop_true (cap : Nat) : ∀ (pre chan : List Msg), (replayLoop cap chan pre).2.2 = true →
    replayLoop cap chan pre = (chan ++ pre, [], true) := by
  intro pre
  induction pre with
  | nil => intro chan _; simp [replayLoop]
  | cons m rest ih =>
    intro chan h
    unfold replayLoop at h ⊢
    by_cases hlt : chan.length < cap
    · simp only [hlt, if_true] at h ⊢
      rw [ih (chan ++ [m]) h]; simp
    · simp [hlt] at h

/-! ### lists -/

theorem prefix_of_range {a b : List Nat} {n : Nat} (h : a ++ b = List.range n) : a = List.range a.length := by
  have h1 : a = (List.range n).take a.length := by rw [← h]; simp
  have h2 : a.length ≤ n := by
    have := congrArg List.length h
    simp at this; omega
  rw [List.take_range, Nat.min_eq_left h2] at h1
  exact h1

theorem map_getD_range (l : List Bytes) : ∀ (k : Nat), k ≤ l.length →
    (List.range k).map (fun w => l.getD w []) = l.take k := by
  intro k
  induction k with
  | zero => intro _; simp
  | succ k ih =>
    intro hk
    rw [List.range_succ, List.map_append, ih (by omega), List.take_add_one]
    have : l[k]? = some l[k] := List.getElem?_eq_getElem (by omega)
    simp [List.getD, this]

theorem take_add_chunk (l : List UInt8) (a k : Nat) (ha : a ≤ l.length) :
    l.take (a + ((l.drop a).take k).length) = l.take a ++ (l.drop a).take k := by
  have h1 : l = l.take a ++ ((l.drop a).take k ++ (l.drop a).drop k) := by
    rw [List.take_append_drop, List.take_append_drop]
  have hl : (l.take a).length = a := by simp; omega
  conv => lhs; rw [h1]
  rw [← List.append_assoc]
  rw [List.take_append_of_le_length (by simp; omega)]
  rw [List.take_of_length_le (by simp; omega)]

theorem outsOf_mem_lt {tcb chan : List Instr} {n w : Nat} (h : outsOf tcb ++ outsOf chan = List.range n)
    (hw : w ∈ outsOf tcb) : w < n := by
  have : w ∈ List.range n := by rw [← h]; simp [hw]
  simpa using this

/-- one step of the hand-off only ever appends to what the TCB has seen -/
theorem hand_step_tcb (d : Discipline) (h : Hand) (s : HStep) : ∃ x, (h.step d s).tcb = h.tcb ++ x := by
  cases s with
  | write =>
    simp only [Hand.step, Hand.sessionEnqueue, Hand.enqueue]
    refine ⟨[], ?_⟩
    split <;> (try split) <;> (try split) <;> simp
  | runA k =>
    simp only [Hand.step, Hand.sessionEnqueue, Hand.enqueue]
    refine ⟨[], ?_⟩
    split <;> (try split) <;> (try split) <;> simp
  | runB k =>
    simp only [Hand.step, Hand.enqueue]
    refine ⟨[], ?_⟩
    split <;> (try split) <;> simp
  | segment j =>
    simp only [Hand.step, Hand.sessionEnqueue, Hand.enqueue]
    refine ⟨[], ?_⟩
    split <;> (try split) <;> simp
  | tcbTask =>
    simp only [Hand.step]
    cases h.chan with
    | nil => exact ⟨[], by simp⟩
    | cons i rest =>
      cases h.waiters with
      | nil => exact ⟨[i], rfl⟩
      | cons w ws => exact ⟨[i], rfl⟩

/-! ### association list of sessions -/

theorem beq_endpoints_iff (a b : Endpoints) : (a == b) = true ↔ a = b := by simp

theorem find_map_other {id id' : Endpoints} (h : id' ≠ id) (s : Session) :
    ∀ (l : List (Endpoints × Session)),
      (l.map fun e => if e.1 == id then (id, s) else e).find? (·.1 == id') = l.find? (·.1 == id') := by
  intro l
  induction l with
  | nil => rfl
  | cons e l ih =>
    simp only [List.map_cons, List.find?_cons]
    by_cases he : e.1 = id
    · have h1 : (e.1 == id) = true := by simp [he]
      have h2 : (id == id') = false := by simp; exact fun x => h x.symm
      have h3 : (e.1 == id') = false := by simp [he]; exact fun x => h x.symm
      simp only [h1, ↓reduceIte, h2, h3]
      exact ih
    · have h1 : (e.1 == id) = false := by simp [he]
      simp only [h1, Bool.false_eq_true, ↓reduceIte]
      cases h4 : (e.1 == id')
      · exact ih
      · rfl

theorem find_map_self {id : Endpoints} (s : Session) :
    ∀ (l : List (Endpoints × Session)), l.any (·.1 == id) = true →
      (l.map fun e => if e.1 == id then (id, s) else e).find? (·.1 == id) = some (id, s) := by
  intro l
  induction l with
  | nil => intro h; simp at h
  | cons e l ih =>
    intro h
    simp only [List.map_cons, List.find?_cons]
    by_cases he : e.1 = id
    · have h1 : (e.1 == id) = true := by simp [he]
      have h2 : (id == id) = true := by simp
      simp only [h1, ↓reduceIte, h2]
    · have h1 : (e.1 == id) = false := by simp [he]
      simp only [List.any_cons, h1, Bool.false_or] at h
      simp only [h1, Bool.false_eq_true, ↓reduceIte]
      exact ih h

theorem any_false_find_none {id : Endpoints} : ∀ (l : List (Endpoints × Session)),
    l.any (·.1 == id) = false → l.find? (·.1 == id) = none := by
  intro l h
  induction l with
  | nil => rfl
  | cons e l ih =>
    simp only [List.any_cons, Bool.or_eq_false_iff] at h
    simp [h.1, ih h.2]

theorem session_setSession_self (a : Api) (id : Endpoints) (s : Session) :
    (a.setSession id s).session? id = some s := by
  unfold Api.setSession Api.session?
  by_cases h : a.sessions.any (·.1 == id) = true
  · simp only [h, if_true]
    rw [find_map_self s a.sessions h]; rfl
  · have h' : a.sessions.any (·.1 == id) = false := Bool.eq_false_iff.2 h
    simp only [h', Bool.false_eq_true, if_false, List.find?_append, any_false_find_none a.sessions h']
    simp

theorem session_setSession_other (a : Api) {id id' : Endpoints} (h : id' ≠ id) (s : Session) :
    (a.setSession id s).session? id' = a.session? id' := by
  unfold Api.setSession Api.session?
  by_cases ha : a.sessions.any (·.1 == id) = true
  · simp only [ha, if_true]
    rw [find_map_other h s a.sessions]
  · have h' : a.sessions.any (·.1 == id) = false := Bool.eq_false_iff.2 ha
    simp only [h', Bool.false_eq_true, if_false, List.find?_append]
    cases hf : a.sessions.find? (·.1 == id') with
    | some x => simp
    | none =>
      have : (id == id') = false := by simp; exact fun x => h x.symm
      simp [this]

theorem session_setBinding (a : Api) (b : Binding) (id : Endpoints) :
    (a.setBinding b).session? id = a.session? id := rfl

/-! ### hand-off -/

theorem outsOf_append (a b : List Instr) : outsOf (a ++ b) = outsOf a ++ outsOf b := by
  induction a with
  | nil => rfl
  | cons x a ih => cases x <;> simp [outsOf, ih]

theorem outsOf_eraseIdx_nil {l : List Instr} (h : outsOf l = []) (k : Nat) : outsOf (l.eraseIdx k) = [] := by
  induction l generalizing k with
  | nil => simp [outsOf]
  | cons x l ih =>
    cases x with
    | out w => simp [outsOf] at h
    | inc j =>
      cases k with
      | zero => simpa [outsOf] using h
      | succ k => simpa [outsOf] using ih (by simpa [outsOf] using h) k

theorem outsOf_getElem_nil {l : List Instr} (h : outsOf l = []) {k : Nat} {i : Instr} (hk : l[k]? = some i) :
    ∃ j, i = .inc j := by
  induction l generalizing k with
  | nil => simp at hk
  | cons x l ih =>
    cases x with
    | out w => simp [outsOf] at h
    | inc j =>
      cases k with
      | zero => simp at hk; exact ⟨j, hk.symm⟩
      | succ k => exact ih (by simpa [outsOf] using h) (by simpa using hk)

/-! ### UDP header -/

theorem rd16_be16 (v : Nat) (h : v < 65536) :
    rd16 (UInt8.ofNat (v / 256)) (UInt8.ofNat (v % 256)) = v := by
  simp only [rd16, UInt8.toNat_ofNat']
  omega

end Elvis.Sock
