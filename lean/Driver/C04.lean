import ElvisVerif.Model.Demux
import Driver.Common
/-! Line-protocol handler for C04 (sub-command `c04`): replays the configuration and the observed
arrivals of a full-stack scenario through `Elvis.Demux` and prints what the model says must be
delivered where. -/
namespace Driver.C04
open Elvis.Demux

structure St where
  world : World := []
  delivered : List String := []

def fmtAddr (a : Nat) : String :=
  s!"{a / 16777216 % 256}.{a / 65536 % 256}.{a / 256 % 256}.{a % 256}"

def fmtEp (e : Endpoint) : String := s!"{fmtAddr e.addr}:{e.port}"

def hex8 (n : Nat) : String :=
  String.ofList ((List.range 8).reverse.map fun i => Driver.hexDigit (n / 16 ^ i % 16))

def fnv (b : List UInt8) : Nat :=
  (b.foldl (fun (h : UInt32) x => (h ^^^ x.toUInt32) * 0x01000193) 0x811c9dc5).toNat

/-- value of `key=value` among the words -/
def kv (ws : List String) (key : String) : Option String :=
  ws.findSome? fun w => if w.startsWith (key ++ "=") then some ((w.drop (key.length + 1)).toString) else none

def nats (s : String) : Option (List Nat) := (s.splitOn ",").mapM String.toNat?

def parseIp (s : String) : Option (Option IpHdr) :=
  if s == "bad" then some none else
  match nats s with
  | some [ihl, proto, src, dst, last, off] => some (some ⟨ihl, proto, src, dst, last == 1, off⟩)
  | _ => none

def parseUdp (s : String) : Option (Option UdpHdr) :=
  if s == "bad" || s == "-" then some none else
  match nats s with
  | some [sp, dp] => some (some ⟨sp, dp⟩)
  | _ => none

def parseFrame (ws : List String) : Option Frame := do
  let slot ← (← kv ws "slot").toNat?
  let tgt ← (← kv ws "tgt").toNat?
  let ip ← parseIp (← kv ws "ip")
  let udp ← parseUdp (← kv ws "udp")
  let bytes ← Driver.parseHex (← kv ws "bytes")
  pure { target := tgt, slot, ip, udp, bytes }

def dropClass : Drop → String
  | .noProtocol => "no-protocol"
  | .otherTarget => "other"
  | .ipHeader => "header"
  | .ipMissingSession => "missing-session"
  | .otherUpstream => "other"
  | .fragment => "ok"
  | .udpHeader => "header"
  | .udpMissingSession => "missing-session"
  | .panicNoUpstream => "panic"

def listenClass : Except ListenErr Unit → String
  | .ok _ => "ok"
  | .error .existing => "err:existing"
  | .error .ipv4Exists => "err:ipv4-exists"
  | .error .panicNoIpv4 => "panic"

def arrival (st : St) (mi : Nat) (f : Frame) (inject : Bool) : St × String :=
  match (step st.world (.arrive mi f)).2 with
  | .arrived (.ok d) =>
    let line := s!"deliver app={d.app} payload={Driver.toHex d.payload} local={fmtEp d.loc} remote={fmtEp d.rem} slot={d.slot}"
    let rec_ := s!"m{mi}/a{d.app}/{fmtEp d.loc}/{fmtEp d.rem}/{d.payload.length}/{hex8 (fnv d.payload)}"
    ({ st with delivered := rec_ :: st.delivered }, line)
  | .arrived (.error e) => (st, if inject then s!"none:{dropClass e}" else "none")
  | _ => (st, "no-machine")

def step (st : St) (ws : List String) : St × String :=
  match ws with
  | ["case", id] => ({}, s!"case {id}")
  | "cfg" :: "machine" :: _ :: rest =>
    match (kv rest "pids").bind nats with
    | some pids => ({ st with world := st.world ++ [Machine.init pids] }, "cfg")
    | none => (st, "bad-op")
  | "cfg" :: _ => (st, "cfg")
  | ["listen", m, up, addr, port] =>
    match m.toNat?, up.toNat?, addr.toNat?, port.toNat? with
    | some m, some up, some addr, some port =>
      match Elvis.Demux.step st.world (.listen m up ⟨addr, port⟩) with
      | (w, .listened r) => ({ st with world := w }, listenClass r)
      | _ => (st, "no-machine")
    | _, _, _, _ => (st, "bad-op")
  | "arrive" :: m :: rest =>
    match m.toNat?, parseFrame rest with
    | some m, some f => arrival st m f false
    | _, _ => (st, "bad-op")
  | "inject" :: m :: rest =>
    match m.toNat?, parseFrame rest with
    | some m, some f => arrival st m f true
    | _, _ => (st, "bad-op")
  | ["end"] =>
    let l := st.delivered.mergeSort (fun a b => !(b < a))
    (st, s!"end n={l.length} " ++ " ".intercalate l)
  | ["crash"] => (st, "no-crash")
  | _ => (st, "bad-op")

def dispatch (sub : String) (i o : IO.FS.Stream) : Option (IO Unit) :=
  if sub == "c04" then some (Driver.loop i o step {}) else none

end Driver.C04
