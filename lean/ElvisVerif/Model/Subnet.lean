/-
Model of `elvis_core::protocols::arp::subnetting` (sim/elvis-core/src/protocols/arp/subnetting.rs)
and of the parts of `protocols/ipv4/ipv4_address.rs` it uses.

Function by function.  Conventions:
* `Ipv4Address([u8; 4])` is represented by its `to_u32()` value (`u32::from_be_bytes`), a
  `BitVec 32`; `From<u32>` / `to_u32` are the big-endian bijection, and the derived `Ord` on
  `[u8; 4]` (lexicographic) is the numeric order of that value.  (`tools/extract_subnet.py`
  checks that ipv4_address.rs still reads that way.)
* `u32` values are `BitVec 32`; *checked* `+`/`-` (dev profile) are `Except` errors
  `"panic:<kind>:<site>"`; bit operations never panic.
* strings are their UTF-8 bytes as `List Nat` (the std parsers used here work on bytes).
No imports: this file is linked into the native driver.
-/
namespace Elvis.Subnet

/-- `Ipv4Address` through `to_u32` -/
abbrev Addr := BitVec 32

/-- `Ipv4Mask(u32)` (private field: only `from_bitcount` / `try_from` build one) -/
structure Mask where
  bits : BitVec 32
deriving DecidableEq, Repr

/-- the private `const fn clamp`; its `assert!(min <= max)` is only ever called with `(0, 32)`
    (the generated kernel keeps the assert, `Lemmas/SubnetKernels.lean` proves it never fires) -/
def clamp (num min max : Nat) : Nat :=
  if num < min then min else if num > max then max else num

/-- `u32::count_ones` -/
def popcount (x : BitVec 32) : Nat :=
  (List.range 32).foldl (fun acc i => if x.getLsbD i then acc + 1 else acc) 0

namespace Mask

/-- `Ipv4Mask::from_bitcount` (no arithmetic in it can overflow: proved against the generated
    checked kernel) -/
def fromBitcount (size : Nat) : Mask :=
  let size := clamp size 0 32
  if size = 0 then ⟨0⟩
  else if size = 32 then ⟨0xFFFFFFFF⟩
  else ⟨(((1 : BitVec 32) <<< size) - 1) <<< (32 - size)⟩

/-- `Ipv4Mask::count_ones` -/
def countOnes (m : Mask) : Nat := popcount m.bits

/-- `Ipv4Mask::to_u32`, `From<Ipv4Mask> for u32`, `to_ipv4_address` (same value) -/
def toU32 (m : Mask) : BitVec 32 := m.bits

/-- `Ipv4Mask::ips_in_net` : `(!mask as u64) + 1` -/
def ipsInNet (m : Mask) : Nat := (~~~ m.bits).toNat + 1

/-- `Ipv4Mask::usable_ips` : `match !mask { 0 | 1 => 0, other => other - 1 }` -/
def usableIps (m : Mask) : Nat :=
  let w := (~~~ m.bits).toNat
  if w = 0 ∨ w = 1 then 0 else w - 1

/-- `TryFrom<u32> for Ipv4Mask` (`TryFrom<Ipv4Address>` is the same through `to_u32`);
    the error carries the rejected value back -/
def tryFrom (mask : BitVec 32) : Except (BitVec 32) Mask :=
  let count := popcount mask
  let result := fromBitcount count
  if result.bits = mask then .ok result else .error mask

end Mask

/-- `Ipv4Net { network_id, mask }` (private fields) -/
structure Net where
  id : Addr
  mask : Mask
deriving DecidableEq, Repr

/-- `TryFromRangeError` -/
inductive RangeError
  | empty | size | start
deriving DecidableEq, Repr

/-- `CidrParseError` (the `ParseIntError` payload of `Mask` is not observed) -/
inductive CidrError
  | ipv4 | mask
deriving DecidableEq, Repr

namespace Net

/-- `Ipv4Net::new` -/
def new (ip : Addr) (mask : Mask) : Net := { id := ip &&& mask.bits, mask := mask }

/-- `Ipv4Net::new_short` -/
def newShort (ip : Addr) (maskLen : Nat) : Net := new ip (Mask.fromBitcount maskLen)

/-- `Ipv4Net::new_1` -/
def new1 (ip : Addr) : Net := { id := ip, mask := Mask.fromBitcount 32 }

/-- `Ipv4Net::LOOPBACK` -/
def loopback : Net := { id := 0x7F000000, mask := Mask.fromBitcount 8 }

/-- `Ipv4Net::broadcast` : `id + !mask`, a checked `u32` addition -/
def broadcast (n : Net) : Except String Addr :=
  let w := ~~~ n.mask.bits
  if n.id.toNat + w.toNat < 2 ^ 32 then .ok (n.id + w) else .error "panic:add-overflow:broadcast"

/-- `Ipv4Net::range` : `self.id()..=self.broadcast()` -/
def range (n : Net) : Except String (Addr × Addr) := do
  let b ← n.broadcast
  pure (n.id, b)

/-- `Ipv4Net::contains` -/
def contains (n : Net) (address : Addr) : Bool := n.id == (address &&& n.mask.bits)

/-- `Ipv4Net::overlaps` : `self.id() <= other.broadcast() && self.broadcast() >= other.id()`
    (`&&` short-circuits: the second broadcast is computed only when the first test holds) -/
def overlaps (self other : Net) : Except String Bool := do
  let ob ← other.broadcast
  if self.id ≤ ob then
    let sb ← self.broadcast
    pure (decide (sb ≥ other.id))
  else
    pure false

/-- `TryFrom<RangeInclusive<Ipv4Address>> for Ipv4Net`; outer `Except` = panic, inner = the
    `Result` -/
def tryFromRange (s e : Addr) : Except String (Except RangeError Net) :=
  if s > e then .ok (.error .empty)                       -- `value.is_empty()`
  else if e.toNat < s.toNat then .error "panic:sub-overflow:try_from_range"
  else
    let mask := ~~~ (e - s)
    match Mask.tryFrom mask with
    | .error _ => .ok (.error .size)
    | .ok m =>
      let result := new s m
      match result.range with
      | .error p => .error p
      | .ok r => if r = (s, e) then .ok (.ok result) else .ok (.error .start)

end Net

/-! ### CIDR text.  Strings are byte lists. -/

abbrev Str := List Nat

def isDigit (c : Nat) : Bool := 48 ≤ c && c ≤ 57
def digitVal (c : Nat) : Nat := c - 48

/-- `str::split(sep)` : at least one part -/
def splitOn (sep : Nat) : Str → List Str
  | [] => [[]]
  | c :: cs =>
    if c = sep then [] :: splitOn sep cs
    else match splitOn sep cs with
      | p :: ps => (c :: p) :: ps
      | [] => [[c]]

/-- digit loop of `Parser::read_number(10, Some(3), false)` (core::net::parser):
    `none` as soon as a 4th digit is read; stops at the first non-digit -/
def readDigits3 : Nat → Nat → Str → Option (Nat × Nat × Str)
  | acc, count, [] => some (acc, count, [])
  | acc, count, c :: cs =>
    if isDigit c then
      if count + 1 > 3 then none else readDigits3 (acc * 10 + digitVal c) (count + 1) cs
    else some (acc, count, c :: cs)

/-- `read_number::<u8>(10, Some(3), false)` : 1–3 digits, value ≤ 255, no leading zero unless the
    number is the single digit `0` -/
def readOctet (s : Str) : Option (Nat × Str) :=
  let hasLeadingZero := s.head? == some 48
  match readDigits3 0 0 s with
  | none => none
  | some (v, count, rest) =>
    if v > 255 then none
    else if count = 0 then none
    else if hasLeadingZero && count > 1 then none
    else some (v, rest)

/-- `read_given_char('.')` -/
def readDot : Str → Option Str
  | 46 :: cs => some cs
  | _ => none

/-- `Parser::read_ipv4_addr` -/
def readIpv4 (s : Str) : Option (Addr × Str) := do
  let (a, s) ← readOctet s
  let s ← readDot s
  let (b, s) ← readOctet s
  let s ← readDot s
  let (c, s) ← readOctet s
  let s ← readDot s
  let (d, s) ← readOctet s
  pure (BitVec.ofNat 32 (((a * 256 + b) * 256 + c) * 256 + d), s)

/-- `Ipv4Addr::from_str` = `parse_ascii` : at most 15 bytes, whole input consumed -/
def ipv4FromStr (s : Str) : Option Addr :=
  if s.length > 15 then none
  else match readIpv4 s with
    | some (ip, []) => some ip
    | _ => none

/-- all-digits decimal value, `none` on a non-digit -/
def digitsVal : Nat → Str → Option Nat
  | acc, [] => some acc
  | acc, c :: cs => if isDigit c then digitsVal (acc * 10 + digitVal c) cs else none

/-- `u32::from_str` : optional leading `+`, then one or more digits, value < 2^32
    (`none` = any `ParseIntError`: Empty, InvalidDigit, PosOverflow) -/
def u32FromStr (s : Str) : Option Nat :=
  match s with
  | [] => none
  | [43] => none
  | [45] => none
  | c :: cs =>
    let digits := if c = 43 then cs else c :: cs
    match digitsVal 0 digits with
    | none => none
    | some v => if v < 2 ^ 32 then some v else none

/-- `cidr_to_ip` : the first two `/`-separated parts are used, any further part is ignored;
    the length goes through `from_bitcount` (so `n > 32` is clamped to 32) -/
def cidrToIp (cidr : Str) : Except CidrError (Addr × Mask) :=
  match splitOn 47 cidr with
  | ipStr :: maskStr :: _ =>
    match ipv4FromStr ipStr with
    | none => .error .ipv4
    | some ip =>
      match u32FromStr maskStr with
      | none => .error .mask
      | some n => .ok (ip, Mask.fromBitcount n)
  | _ => .error .ipv4

/-- `Ipv4Net::from_cidr` -/
def Net.fromCidr (cidr : Str) : Except CidrError Net :=
  match cidrToIp cidr with
  | .ok (ip, m) => .ok (Net.new ip m)
  | .error e => .error e

/-! ### Rendering (`Display for Ipv4Address`, `{}` of an integer, the `id/len` form used by
`Debug for Ipv4Net` and `Debug for IpTable`) -/

def renderDecFuel : Nat → Nat → Str
  | 0, n => [48 + n % 10]
  | f + 1, n => if n < 10 then [48 + n] else renderDecFuel f (n / 10) ++ [48 + n % 10]

/-- decimal digits of `n`, most significant first -/
def renderDec (n : Nat) : Str := renderDecFuel n n

/-- `Display for Ipv4Address` -/
def renderIp (a : Addr) : Str :=
  let n := a.toNat
  renderDec (n / 16777216) ++ [46] ++ renderDec (n / 65536 % 256) ++ [46] ++
    renderDec (n / 256 % 256) ++ [46] ++ renderDec (n % 256)

/-- `format!("{}/{}", ip, len)` -/
def renderCidr (ip : Addr) (len : Nat) : Str := renderIp ip ++ [47] ++ renderDec len

end Elvis.Subnet
