import ElvisVerif.Lemmas.Tcb
/-!
# C01 — sequence-number and byte-list arithmetic of the text block (staged)

Everything the stream-safety invariant needs about `u32` wrap-around, in offset form
(DESIGN.md section 4, "Proof discipline for modular arithmetic"): cancellation lemmas by
`bv_omega`, then `omega` over `Nat` with at most two `% 2^32` terms.  Plus the pure list facts
about `drop`/`take` slices of the submitted byte string.
-/
namespace Elvis.Tcp.C01
open Elvis.ModCmp

/-! ## `u32` offsets -/

theorem cancel (base x y : Seq) : (base + x) - (base + y) = x - y := by bv_omega

theorem sub_zero_ofNat (x : Seq) : x - BitVec.ofNat 32 (false.toNat) = x := by
  simp only [Bool.toNat_false]
  bv_omega

/-- the heap gate of `segment_arrives` (`mod_gt(SEG.SEQ, RCV.NXT)` false) orders two offsets
    below `2^31` linearly -/
theorem gate_le (base : Seq) (p q : Nat) (hp : p < 2147483648) (hq : q < 2147483648)
    (h : modGt (base + BitVec.ofNat 32 p) (base + BitVec.ofNat 32 q) = false) : p ≤ q := by
  unfold modGt at h
  have h' : ¬ (modLt (base + BitVec.ofNat 32 q) (base + BitVec.ofNat 32 p) = true) := by
    rw [h]; simp
  rw [modLt_iff, cancel] at h'
  simp only [BitVec.toNat_sub, BitVec.toNat_ofNat] at h'
  omega

/-- `RCV.NXT - SEG.SEQ` is the linear distance when `SEG.SEQ` is not ahead -/
theorem dist_toNat (base : Seq) (p q : Nat) (hpq : p ≤ q) (hq : q < 4294967296) :
    ((base + BitVec.ofNat 32 q) - (base + BitVec.ofNat 32 p)).toNat = q - p := by
  rw [cancel]
  simp only [BitVec.toNat_sub, BitVec.toNat_ofNat]
  omega

/-- `.min(text_len)` on `u32` -/
theorem min_toNat (a b : Seq) : (if a ≤ b then a else b).toNat = min a.toNat b.toNat := by
  split
  · rename_i h; rw [BitVec.le_def] at h; omega
  · rename_i h; rw [BitVec.le_def] at h; omega

theorem ofNat_toNat_lt (n : Nat) (h : n < 4294967296) : (BitVec.ofNat 32 n).toNat = n := by
  simp only [BitVec.toNat_ofNat]; omega

theorem add_ofNat_assoc (base : Seq) (a b : Nat) :
    base + BitVec.ofNat 32 a + BitVec.ofNat 32 b = base + BitVec.ofNat 32 (a + b) := by
  rw [BitVec.ofNat_add, BitVec.add_assoc]

theorem add_ofNat_zero (base : Seq) : base + BitVec.ofNat 32 0 = base := by
  simp

/-! ## slices of the submitted bytes -/

variable {α : Type}

/-- extending a prefix by the bytes that follow it keeps it a prefix -/
theorem prefix_extend (l sub : List α) (k : Nat) (h : l <+: sub) :
    l ++ (sub.drop l.length).take k <+: sub := by
  have e := List.prefix_iff_eq_take.1 h
  have : l ++ (sub.drop l.length).take k = sub.take (l.length + k) := by
    rw [List.take_add, ← e]
  rw [this]
  exact List.take_prefix _ _

/-- the accepted part of a retransmitted slice: skipping what was already received
    (`min (q-p) len` bytes) of `submitted[p, p+len)` and keeping at most `acc` of the rest is
    `submitted[q, q+acc)` -/
theorem slice_accept (sub : List α) (p q len acc : Nat) (hpq : p ≤ q)
    (hacc : acc ≤ len - min (q - p) len) :
    (((sub.drop p).take len).drop (min (q - p) len)).take acc = (sub.drop q).take acc := by
  by_cases hc : q - p ≤ len
  · have hm : min (q - p) len = q - p := Nat.min_eq_left hc
    rw [hm] at hacc ⊢
    rw [List.drop_take, List.drop_drop, List.take_take]
    have e1 : p + (q - p) = q := by omega
    have e2 : min acc (len - (q - p)) = acc := Nat.min_eq_left hacc
    rw [e1, e2]
  · have hm : min (q - p) len = len := Nat.min_eq_right (by omega)
    rw [hm] at hacc
    have : acc = 0 := by omega
    subst this
    simp

theorem length_drop_take (sub : List α) (q acc : Nat) (h : q + acc ≤ sub.length) :
    ((sub.drop q).take acc).length = acc := by
  rw [List.length_take, List.length_drop]
  omega

end Elvis.Tcp.C01
