import ElvisVerif.Lemmas.TcpConvInv2
import ElvisVerif.Lemmas.C01Progress
/-!
# Forward evaluation: an ESTABLISHED endpoint with an empty reorder heap takes an in-order segment

Exact effect of `segment_arrives` on an ESTABLISHED TCB whose reorder heap is empty, for the two
kinds of segment a loss-free exchange delivers:

* `arrive_ack_fwd` — a pure ACK numbered `RCV.NXT`: `SND.UNA` moves to `max(SND.UNA, SEG.ACK)`, the
  acknowledged segments leave the retransmission queue, nothing is answered;
* `arrive_data_fwd` — data starting exactly at `RCV.NXT` that fits the receive buffer: the same for its
  ACK field, all of its text is appended to the buffer, `RCV.NXT` advances by its length and one pure
  ACK for the new `RCV.NXT` is queued.
-/
namespace Elvis.Tcp
open Elvis.ModCmp
namespace Tcb

/-- a header without SYN and FIN goes to the end of the one-shot queue -/
theorem enqueueBuilt_plain (s : Tcb) (hd : Hdr) (hs : hd.ctl.syn = false) (hf : hd.ctl.fin = false) :
    s.enqueueBuilt hd = { s with outgoing.oneshot := s.outgoing.oneshot ++ [hd] } := by
  unfold enqueueBuilt
  rw [if_neg (by simp [hs, hf])]

/-- the effect of `ack_established_processing` for an ACK field that is old or acceptable -/
structure AckFx (t : Tcb) (seg : Hdr) (t1 : Tcb) : Prop where
  una : t1.snd.una = if modLeq seg.ack t.snd.una then t.snd.una else seg.ack
  rtx : t1.outgoing.retransmit = if modLeq seg.ack t.snd.una then t.outgoing.retransmit
    else t.outgoing.retransmit.filter (keepFor seg.ack)
  rcv : t1.rcv = t.rcv
  inc : t1.incoming = t.incoming
  st : t1.state = t.state
  otext : t1.outgoing.text = t.outgoing.text
  one : t1.outgoing.oneshot = t.outgoing.oneshot
  nxt : t1.snd.nxt = t.snd.nxt
  mtu : t1.mtu = t.mtu

theorem ackEst_fwd (t : Tcb) (seg : Hdr)
    (hg : modLeq seg.ack t.snd.una = true ∨ modBounded t.snd.una .Lt seg.ack .Leq t.snd.nxt = true) :
    ∃ t1, t.ackEstablishedProcessing seg = .ok (t1, .Success) ∧ AckFx t seg t1 := by
  unfold ackEstablishedProcessing
  by_cases h1 : modLeq seg.ack t.snd.una = true
  · rw [if_pos h1]
    exact ⟨t, rfl, by rw [if_pos h1], by rw [if_pos h1], rfl, rfl, rfl, rfl, rfl, rfl, rfl⟩
  · have h2 : modBounded t.snd.una .Lt seg.ack .Leq t.snd.nxt = true := hg.resolve_left h1
    rw [if_neg h1, if_neg (by simp [h2])]
    dsimp only
    split
    · exact ⟨_, rfl, by rw [if_neg h1]; rfl, by rw [if_neg h1]; rfl, rfl, rfl, rfl, rfl, rfl, rfl, rfl⟩
    · exact ⟨_, rfl, by rw [if_neg h1]; rfl, by rw [if_neg h1]; rfl, rfl, rfl, rfl, rfl, rfl, rfl, rfl⟩

/-- what is asked of the control bits and the ACK field of a segment of the loss-free exchange -/
structure Plain (t : Tcb) (g : Hdr) : Prop where
  rst : g.ctl.rst = false
  syn : g.ctl.syn = false
  fin : g.ctl.fin = false
  ack : g.ctl.ack = true
  good : modLeq g.ack t.snd.una = true ∨ modBounded t.snd.una .Lt g.ack .Leq t.snd.nxt = true

/-- blocks 1–4 on an acceptable plain segment in ESTABLISHED: only the ACK is processed -/
theorem blocks14_fwd (t : Tcb) (g : Segment) (hst : t.state = .Established) (hp : Plain t g.hdr)
    (hok : t.isSeqOk (BitVec.ofNat 32 g.text.length) g.hdr.seq g.hdr.ctl.syn g.hdr.ctl.fin = .ok true) :
    ∃ t1, AckFx t g.hdr t1 ∧ ∀ k : Tcb → B,
      (((((seqCheck t g.hdr (BitVec.ofNat 32 g.text.length)).andThen fun s => ackBlock s g.hdr).andThen fun s =>
        rstBlock s g.hdr).andThen fun s => synBlock s g.hdr).andThen k) = k t1 := by
  obtain ⟨t1, e1, fx⟩ := ackEst_fwd t g.hdr hp.good
  refine ⟨t1, fx, fun k => ?_⟩
  have c1 : seqCheck t g.hdr (BitVec.ofNat 32 g.text.length) = .ok (t, none) :=
    C01.seqCheck_pass (by rw [hst]; simp) hok
  have c2 : ackBlock t g.hdr = .ok (t1, none) := by
    unfold ackBlock
    rw [if_neg (by simp [hp.ack]), hst]
    dsimp only
    unfold afterAckEstablished
    rw [e1]
    simp
  have c3 : rstBlock t1 g.hdr = .ok (t1, none) := by
    unfold rstBlock
    rw [if_pos (by simp [hp.rst])]
  have c4 : synBlock t1 g.hdr = .ok (t1, none) := by
    unfold synBlock
    rw [if_pos (by simp [hp.syn]), if_neg (by rw [fx.st, hst]; simp)]
  rw [c1, andThen_none, c2, andThen_none, c3, andThen_none, c4, andThen_none]

/-- `segment_arrives` with an empty reorder heap, for a segment that is acceptable and not ahead:
    it is processed at once and the heap is empty again -/
theorem arrive_single (t : Tcb) (g : Segment) (hst : t.state ≠ .SynSent) (hheap : t.incoming.segments = [])
    (hok : t.isSeqOk (BitVec.ofNat 32 g.text.length) g.hdr.seq g.hdr.ctl.syn g.hdr.ctl.fin = .ok true)
    (hgate : modGt g.hdr.seq t.rcv.nxt = false) (t' : Tcb) (r : ProcessSegmentResult)
    (hp : t.processSegment g = .ok (t', r)) (hr : r.shouldDeleteTcb = false) :
    t.segmentArrives g = .ok (t', .Ok) := by
  have hinc : ({ t with incoming.segments := [] } : Tcb) = t := by
    cases t with
    | mk lp rp mtu ini st snd rcv out inc tmo =>
      cases inc with
      | mk segs text =>
        simp only at hheap
        subst hheap
        rfl
  have hh' : t'.incoming.segments = [] := by rw [processSegment_heap _ _ _ _ hp, hheap]
  unfold segmentArrives
  dsimp only
  rw [if_neg hst, hok]
  dsimp only
  rw [hheap, C01.push_nil]
  have h2 : [g].length + 1 = 2 := rfl
  rw [h2]
  unfold drain
  dsimp only
  rw [C01.peek_single]
  dsimp only
  rw [hgate, C01.pop_single]
  simp only [Bool.and_false, Bool.false_eq_true, if_false]
  have e' : processSegment
      { t with incoming := { segments := [], text := ({ t with incoming.segments := [g] } : Tcb).incoming.text } } g =
      .ok (t', r) := by
    have : ({ t with incoming := { segments := [], text := ({ t with incoming.segments := [g] } : Tcb).incoming.text } } : Tcb)
        = ({ t with incoming.segments := [] } : Tcb) := rfl
    rw [this, hinc]; exact hp
  rw [e']
  dsimp only
  rw [hr]
  simp only [Bool.false_eq_true, if_false]
  unfold drain
  rw [hh']
  rfl

/-! ## a pure ACK at RCV.NXT -/

theorem arrive_ack_fwd (t : Tcb) (g : Segment) (hst : t.state = .Established) (hw : t.rcv.wnd = 65535#16)
    (hheap : t.incoming.segments = []) (hp : Plain t g.hdr) (htext : g.text = []) (hseq : g.hdr.seq = t.rcv.nxt) :
    ∃ t1, t.segmentArrives g = .ok (t1, .Ok) ∧ AckFx t g.hdr t1 := by
  have h16 : (65535#16 : BitVec 16).toNat = 65535 := rfl
  have hw0 : ¬ t.rcv.wnd = 0 := by rw [hw]; decide
  have hin : t.isInRcvWindow t.rcv.nxt = true := by
    rw [isInRcvWindow_iff, hw, h16]
    left
    have : t.rcv.nxt - t.rcv.nxt = 0 := by bv_omega
    rw [this]; decide
  have hok : t.isSeqOk (BitVec.ofNat 32 g.text.length) g.hdr.seq g.hdr.ctl.syn g.hdr.ctl.fin = .ok true := by
    unfold isSeqOk
    rw [htext, hp.syn, hp.fin, hseq]
    simp only [List.length_nil, BitVec.toNat_ofNat, Nat.zero_mod, Bool.toNat_false, Nat.add_zero]
    rw [if_neg (by omega), if_pos trivial, if_neg hw0, hin]
  obtain ⟨t1, fx, hk⟩ := blocks14_fwd t g hst hp hok
  have e5 : textBlock t1 g.hdr g.text (BitVec.ofNat 32 g.text.length) = .ok (t1, none) := by
    unfold textBlock
    rw [if_pos (by rw [htext]; rfl)]
  have e6 : finBlock t1 g.hdr (BitVec.ofNat 32 g.text.length) = .ok (t1, none) := by
    unfold finBlock
    rw [if_pos (by simp [hp.fin])]
  have hps : t.processSegment g = .ok (t1, .Success) := by
    unfold processSegment
    dsimp only
    rw [hk, e5, andThen_none, e6]
  refine ⟨t1, arrive_single t g (by rw [hst]; simp) hheap hok (by rw [hseq]; exact C01.modGt_self _) t1 _ hps rfl, fx⟩

/-! ## data exactly at RCV.NXT -/

/-- the effect of the text block on an in-order text that fits -/
structure TextFx (t1 : Tcb) (text : List UInt8) (t' : Tcb) : Prop where
  nxt : t'.rcv.nxt = t1.rcv.nxt + BitVec.ofNat 32 text.length
  rwnd : t'.rcv.wnd = t1.rcv.wnd
  text : t'.incoming.text = t1.incoming.text ++ text
  heap : t'.incoming.segments = t1.incoming.segments
  st : t'.state = t1.state
  snd : t'.snd = t1.snd
  otext : t'.outgoing.text = t1.outgoing.text
  rtx : t'.outgoing.retransmit = t1.outgoing.retransmit
  one : ∃ h, t'.outgoing.oneshot = t1.outgoing.oneshot ++ [h] ∧ h.ack = t'.rcv.nxt
  mtu : t'.mtu = t1.mtu

theorem textBlock_inorder (t : Tcb) (seg : Hdr) (text : List UInt8) (hst : t.state = .Established)
    (hw : t.rcv.wnd = 65535#16) (hsyn : seg.ctl.syn = false) (hseq : seg.seq = t.rcv.nxt) (hne : text ≠ [])
    (hfit : t.incoming.text.length + text.length ≤ 65535) :
    ∃ t', textBlock t seg text (BitVec.ofNat 32 text.length) = .ok (t', none) ∧ TextFx t text t' := by
  have h16 : (65535#16 : BitVec 16).toNat = 65535 := rfl
  have hpos : 0 < text.length := List.length_pos_iff.2 hne
  have hemp : text.isEmpty = false := by
    cases text with
    | nil => exact absurd rfl hne
    | cons a l => rfl
  have htl : (BitVec.ofNat 32 text.length).toNat = text.length := C01.ofNat_toNat_lt _ (by omega)
  have hin : t.isInRcvWindow seg.seq = true := by
    rw [isInRcvWindow_iff, hw, h16, hseq]
    left
    have : t.rcv.nxt - t.rcv.nxt = 0 := by bv_omega
    rw [this]; decide
  unfold textBlock
  rw [if_neg (by simp [hemp]), hst]
  dsimp only
  rw [if_neg (by simp [hin]), hsyn, C01.sub_zero_ofNat]
  have hz : t.rcv.nxt - seg.seq = 0 := by rw [hseq]; bv_omega
  rw [hz]
  have hle : (0 : Seq) ≤ BitVec.ofNat 32 text.length := by rw [BitVec.le_def]; simp
  rw [if_pos hle, htl]
  have h0 : (0 : Seq).toNat = 0 := rfl
  rw [h0, hw, h16]
  have hmod : t.incoming.text.length % 4294967296 = t.incoming.text.length := Nat.mod_eq_of_lt (by omega)
  rw [hmod, if_neg (by omega), if_neg (by omega)]
  have hk : min (text.length - 0) (65535 - t.incoming.text.length) = text.length := by omega
  rw [hk]
  rw [if_neg (by omega), if_neg (by omega)]
  simp only [enqueueThen_eq, List.drop_zero, List.take_length]
  rw [enqueueBuilt_plain _ _ rfl rfl]
  refine ⟨_, rfl, ⟨rfl, ?_, rfl, rfl, ?_, rfl, rfl, rfl, ⟨_, rfl, rfl⟩, rfl⟩⟩
  · exact hw.symm
  · exact hst.symm

theorem arrive_data_fwd (t : Tcb) (g : Segment) (hst : t.state = .Established) (hw : t.rcv.wnd = 65535#16)
    (hheap : t.incoming.segments = []) (hp : Plain t g.hdr) (hne : g.text ≠ []) (hseq : g.hdr.seq = t.rcv.nxt)
    (hfit : t.incoming.text.length + g.text.length ≤ 65535) :
    ∃ t1 t', t.segmentArrives g = .ok (t', .Ok) ∧ AckFx t g.hdr t1 ∧ TextFx t1 g.text t' := by
  have hpos : 0 < g.text.length := List.length_pos_iff.2 hne
  have hok : t.isSeqOk (BitVec.ofNat 32 g.text.length) g.hdr.seq g.hdr.ctl.syn g.hdr.ctl.fin = .ok true := by
    rw [hp.syn, hp.fin]
    exact C01.isSeqOk_cover (t := t) (base := t.rcv.nxt) (p := 0) (q := 0) g.hdr.seq hw
      (by rw [hseq]; simp) (by simp) (Nat.le_refl _) (by omega) (by omega)
  obtain ⟨t1, fx, hk⟩ := blocks14_fwd t g hst hp hok
  obtain ⟨t', e5, tx⟩ := textBlock_inorder t1 g.hdr g.text (by rw [fx.st, hst]) (by rw [fx.rcv, hw]) hp.syn
    (by rw [fx.rcv, hseq]) hne (by rw [fx.inc]; exact hfit)
  have e6 : finBlock t' g.hdr (BitVec.ofNat 32 g.text.length) = .ok (t', none) := by
    unfold finBlock
    rw [if_pos (by simp [hp.fin])]
  have hps : t.processSegment g = .ok (t', .Success) := by
    unfold processSegment
    dsimp only
    rw [hk, e5, andThen_none, e6]
  exact ⟨t1, t', arrive_single t g (by rw [hst]; simp) hheap hok (by rw [hseq]; exact C01.modGt_self _) t' _ hps rfl,
    fx, tx⟩

end Tcb
end Elvis.Tcp
