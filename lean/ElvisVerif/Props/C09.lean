import ElvisVerif.Lemmas.Subnet
import ElvisVerif.Lemmas.Cidr
import ElvisVerif.Lemmas.IpTable
import ElvisVerif.Lemmas.SubnetKernels
/-!
# C09 — Route lookup is longest-prefix match over consistent subnet arithmetic

Property theorems only (helper lemmas live in `Lemmas/{Subnet,Cidr,IpTable,SubnetKernels}.lean`).

* Networks: every public constructor yields a well-formed `Ipv4Net` (`Net.WF`: one of the 33 prefix
  masks, id without host bits).  For well-formed networks `contains` is exactly the interval
  `id ..= broadcast`, `broadcast` cannot overflow, `overlaps` is exactly "the ranges intersect",
  a range converts to a network exactly when it is an aligned power-of-two block (with the three
  error kinds characterised and no panic), the 33-row mask table is as expected, and rendering a
  network as CIDR text and parsing it back is the identity.
* Table: for EVERY history of `add/remove/add_direct/remove_direct/add_cidr/remove_cidr` from an empty
  table, `get_recipient` is the longest-prefix match over the abstract map the history denotes
  (`Spec.denote`: last add wins, remove deletes) — `c09_lpm` (relational spec, proved
  deterministic), `c09_lpm_fun` (functional spec) — by the invariant "strictly sorted by
  `Obm::cmp` and equal, as a set of pairs, to the abstract map" (`c09_table_represents`), proved by
  induction over the history.  Hence the table, its iteration order and every lookup depend only
  on the denoted map (`c09_order_independent`) and adding twice replaces (`c09_add_replaces`).
* The small arithmetic kernels are also extracted from the Rust source on every run
  (`Generated/SubnetKernels.lean`); `c09_kernels_match_source` ties the hand model to them.
-/
namespace Elvis.Subnet
open Elvis.IpTable Elvis.IpTable.Spec

/-! ## Networks -/

/-- every public way to obtain an `Ipv4Net` establishes the representation invariant -/
theorem c09_constructors_wf :
    (∀ ip m, Mask.WF m → (Net.new ip m).WF) ∧
    (∀ ip len, (Net.newShort ip len).WF) ∧
    (∀ ip, (Net.new1 ip).WF) ∧
    Net.loopback.WF ∧
    (∀ s n, Net.fromCidr s = .ok n → n.WF) ∧
    (∀ s e n, Net.tryFromRange s e = .ok (.ok n) → n.WF) ∧
    (∀ size, (Mask.fromBitcount size).WF) ∧
    (∀ m r, Mask.tryFrom m = .ok r → r.WF) := by
  refine ⟨Net.wf_new, Net.wf_newShort, Net.wf_new1, Net.wf_loopback, fun _ _ => Net.wf_fromCidr,
    ?_, Mask.wf_fromBitcount, fun _ _ h => (Mask.tryFrom_ok h).1⟩
  intro s e n h
  obtain ⟨_, k, hk, _, hmod, rfl⟩ := (Net.tryFromRange_ok_iff s e n).1 h
  refine ⟨Mask.wf_fromBitcount _, ?_⟩
  apply BitVec.eq_of_toNat_eq
  show (s &&& (Mask.fromBitcount (32 - k)).bits).toNat = s.toNat
  rw [and_mask_toNat s (by omega)]
  have e32 : 32 - (32 - k) = k := by omega
  rw [e32]
  exact Nat.div_mul_cancel (Nat.dvd_of_mod_eq_zero hmod)

example : (Net.newShort 0x0A000077#32 24).WF ∧ (Net.newShort 0x0A000077#32 24).id = 0x0A000000#32 :=
  ⟨Net.wf_newShort _ _, by decide⟩

/-- `broadcast` never overflows on a network; it is `id + 2^(32-len) - 1` -/
theorem c09_broadcast_no_overflow (n : Net) (h : n.WF) :
    ∃ b, n.broadcast = .ok b ∧ b.toNat = n.id.toNat + 2 ^ (32 - len n) - 1 ∧ n.id ≤ b := by
  obtain ⟨b, hb, eb⟩ := Net.broadcast_ok h
  refine ⟨b, hb, eb, ?_⟩
  rw [BitVec.le_def, eb]
  have := h.facts.pos
  unfold Net.size at *
  omega

/-- a network contains exactly the addresses from its id to its broadcast address -/
theorem c09_contains_iff (n : Net) (h : n.WF) :
    ∃ b, n.broadcast = .ok b ∧ ∀ a : Addr, (n.contains a = true ↔ n.id ≤ a ∧ a ≤ b) := by
  obtain ⟨b, hb, eb⟩ := Net.broadcast_ok h
  refine ⟨b, hb, ?_⟩
  intro a
  rw [Net.contains_iff h, BitVec.le_def, BitVec.le_def, eb]

/-- two networks overlap exactly when their address ranges intersect -/
theorem c09_overlaps_iff (a b : Net) (ha : a.WF) (hb : b.WF) :
    ∃ r, a.overlaps b = .ok r ∧
      (r = true ↔ ∃ x : Addr, a.contains x = true ∧ b.contains x = true) := by
  refine ⟨_, Net.overlaps_ok ha hb, ?_⟩
  rw [decide_eq_true_iff]
  have pa := ha.facts.pos
  have pb := hb.facts.pos
  constructor
  · intro ⟨h1, h2⟩
    by_cases hc : a.id.toNat ≤ b.id.toNat
    · refine ⟨b.id, ?_, Net.contains_id hb⟩
      rw [Net.contains_iff ha]; omega
    · refine ⟨a.id, Net.contains_id ha, ?_⟩
      rw [Net.contains_iff hb]; omega
  · intro ⟨x, h1, h2⟩
    rw [Net.contains_iff ha] at h1
    rw [Net.contains_iff hb] at h2
    omega

theorem c09_overlaps_symm (a b : Net) (ha : a.WF) (hb : b.WF) : a.overlaps b = b.overlaps a := by
  rw [Net.overlaps_ok ha hb, Net.overlaps_ok hb ha]
  congr 1
  rw [decide_eq_decide]
  exact And.comm

/-- an address range converts to a network exactly when it is an aligned power-of-two block -/
theorem c09_range_to_net_iff (s e : Addr) (n : Net) :
    Net.tryFromRange s e = .ok (.ok n) ↔
      s ≤ e ∧ ∃ k, k ≤ 32 ∧ e.toNat - s.toNat + 1 = 2 ^ k ∧ s.toNat % 2 ^ k = 0 ∧
        n = { id := s, mask := Mask.fromBitcount (32 - k) } :=
  Net.tryFromRange_ok_iff s e n

/-- … and then the network's range is the range that was converted, and conversely the range of
    any network converts back to it -/
theorem c09_range_roundtrip :
    (∀ s e n, Net.tryFromRange s e = .ok (.ok n) → n.range = .ok (s, e)) ∧
    (∀ n : Net, n.WF → ∃ b, n.range = .ok (n.id, b) ∧ Net.tryFromRange n.id b = .ok (.ok n)) := by
  constructor
  · intro s e n h
    have hwf := c09_constructors_wf.2.2.2.2.2.1 s e n h
    obtain ⟨hle, k, hk, hsz, _, rfl⟩ := (Net.tryFromRange_ok_iff s e n).1 h
    obtain ⟨b, hr, eb⟩ := Net.range_ok hwf
    rw [hr]
    congr 2
    apply BitVec.eq_of_toNat_eq
    rw [eb]
    unfold Net.size
    have : ({ id := s, mask := Mask.fromBitcount (32 - k) } : Net).mask.countOnes = 32 - k :=
      countOnes_fromBitcount (by omega)
    rw [this]
    have e32 : 32 - (32 - k) = k := by omega
    rw [e32]
    rw [BitVec.le_def] at hle
    show s.toNat + 2 ^ k - 1 = e.toNat
    omega
  · intro n h
    obtain ⟨b, hr, eb⟩ := Net.range_ok h
    refine ⟨b, hr, ?_⟩
    have f := h.facts
    obtain ⟨em, lm⟩ := h.1.eq
    rw [Net.tryFromRange_ok_iff]
    have hsz : n.size = 2 ^ (32 - n.mask.countOnes) := rfl
    refine ⟨by rw [BitVec.le_def, eb]; have := f.pos; omega, 32 - n.mask.countOnes, by omega, ?_, ?_, ?_⟩
    · rw [eb, hsz]; have := Nat.two_pow_pos (32 - n.mask.countOnes); omega
    · rw [← hsz]; exact f.idMod
    · have e32 : 32 - (32 - n.mask.countOnes) = n.mask.countOnes := by omega
      rw [e32, ← em]

/-- the conversion never panics and each error kind is characterised:
    `Empty` ⇔ start > end; `Size` ⇔ the length is not a power of two; `Start` ⇔ misaligned -/
theorem c09_range_classify (s e : Addr) :
    (e < s ∧ Net.tryFromRange s e = .ok (.error .empty)) ∨
    (s ≤ e ∧ (¬ ∃ k, k ≤ 32 ∧ e.toNat - s.toNat + 1 = 2 ^ k) ∧
        Net.tryFromRange s e = .ok (.error .size)) ∨
    (s ≤ e ∧ (∃ k, k ≤ 32 ∧ e.toNat - s.toNat + 1 = 2 ^ k ∧ s.toNat % 2 ^ k ≠ 0) ∧
        Net.tryFromRange s e = .ok (.error .start)) ∨
    (s ≤ e ∧ ∃ k, k ≤ 32 ∧ e.toNat - s.toNat + 1 = 2 ^ k ∧ s.toNat % 2 ^ k = 0 ∧
        Net.tryFromRange s e = .ok (.ok { id := s, mask := Mask.fromBitcount (32 - k) })) :=
  Net.tryFromRange_classify s e

example : Net.tryFromRange 0x2D000081#32 0x2D000084#32 = .ok (.error .start) := by decide
example : Net.tryFromRange 0#32 0xFFFFFFFF#32 = .ok (.ok (Net.newShort 0#32 0)) := by decide

/-- the 33 prefix masks: `from_bitcount k` has `k` ones, is the `k` high bits, is accepted by
    `try_from`, the numeric order of masks is the order of lengths, and lengths above 32 clamp -/
theorem c09_mask_table :
    (∀ k, k ≤ 32 → (Mask.fromBitcount k).countOnes = k ∧
        (Mask.fromBitcount k).bits.toNat = 2 ^ 32 - 2 ^ (32 - k) ∧
        Mask.tryFrom (Mask.fromBitcount k).bits = .ok (Mask.fromBitcount k)) ∧
    (∀ i j, i ≤ 32 → j ≤ 32 → ((Mask.fromBitcount i).bits ≤ (Mask.fromBitcount j).bits ↔ i ≤ j)) ∧
    (∀ k, 32 ≤ k → Mask.fromBitcount k = Mask.fromBitcount 32) := by
  refine ⟨fun k hk => ⟨countOnes_fromBitcount hk, fromBitcount_toNat hk, Mask.tryFrom_fromBitcount hk⟩,
    fun i j hi hj => fromBitcount_le_iff hi hj, ?_⟩
  intro k hk
  rw [fromBitcount_clamp]
  congr 1
  omega

/-- `try_from` accepts exactly the 33 prefix masks (and hands the value back otherwise) -/
theorem c09_mask_try_from_iff (m : BitVec 32) :
    (∀ r, Mask.tryFrom m = .ok r ↔ ∃ k, k ≤ 32 ∧ r = Mask.fromBitcount k ∧ r.bits = m) ∧
    (∀ x, Mask.tryFrom m = .error x ↔ x = m ∧ ∀ k, (Mask.fromBitcount k).bits ≠ m) := by
  constructor
  · intro r
    constructor
    · intro h
      obtain ⟨⟨k, hk, rfl⟩, hb⟩ := Mask.tryFrom_ok h
      exact ⟨k, hk, rfl, hb⟩
    · intro ⟨k, hk, hr, hb⟩
      subst hr
      rw [← hb]
      exact Mask.tryFrom_fromBitcount hk
  · intro x
    constructor
    · exact Mask.tryFrom_error
    · intro ⟨hx, hk⟩
      cases h : Mask.tryFrom m with
      | ok r => exact absurd (Mask.tryFrom_ok h).2 (by obtain ⟨⟨k, _, rfl⟩, _⟩ := Mask.tryFrom_ok h; exact hk k)
      | error y => rw [(Mask.tryFrom_error h).1, hx]

/-- sizes: a `/k` network has `2^(32-k)` addresses, `2^(32-k) - 2` usable ones (0 for /31, /32) -/
theorem c09_mask_sizes : ∀ k, k ≤ 32 →
    (Mask.fromBitcount k).ipsInNet = 2 ^ (32 - k) ∧
    (Mask.fromBitcount k).usableIps = 2 ^ (32 - k) - 2 := by
  intro k hk
  have hn : (~~~ (Mask.fromBitcount k).bits).toNat = 2 ^ (32 - k) - 1 := by
    rw [BitVec.toNat_not, fromBitcount_toNat hk]
    have : 2 ^ (32 - k) ≤ 2 ^ 32 := Nat.pow_le_pow_right (by omega) (by omega)
    omega
  have hp := Nat.two_pow_pos (32 - k)
  unfold Mask.ipsInNet Mask.usableIps
  simp only [hn]
  refine ⟨by omega, ?_⟩
  split <;> omega

/-- CIDR text: rendering `ip/len` and parsing it gives back `ip` and the mask of that length
    (lengths above 32 are clamped by `from_bitcount`, as in the code) -/
theorem c09_cidr_roundtrip (ip : Addr) (k : Nat) (hk : k < 2 ^ 32) :
    cidrToIp (renderCidr ip k) = .ok (ip, Mask.fromBitcount k) :=
  cidrToIp_render ip k hk

/-- … and a network rendered as `id/len` (what `Debug` prints) parses back to itself -/
theorem c09_cidr_net_roundtrip (n : Net) (h : n.WF) :
    Net.fromCidr (renderCidr n.id (len n)) = .ok n := by
  obtain ⟨em, lm⟩ := h.1.eq
  unfold Net.fromCidr
  rw [cidrToIp_render n.id (len n) (by unfold len; omega)]
  simp only
  congr 1
  unfold len
  rw [← em]
  cases n with
  | mk id mask =>
    simp only [Net.new]
    congr 1
    exact h.2

example : renderCidr 0x0A000000#32 24 = [49, 48, 46, 48, 46, 48, 46, 48, 47, 50, 52] := by decide  -- "10.0.0.0/24"

/-- what `cidr_to_ip` accepts beyond strict `a.b.c.d/len` notation, and what it rejects (observed
    contract, see notes/C09.md): further `/`-parts are ignored, a `+` sign is allowed, lengths
    above 32 clamp; a missing `/`, leading zeros or 4-digit octets, an empty or overflowing length
    are errors -/
theorem c09_cidr_leniency :
    cidrToIp [49, 46, 50, 46, 51, 46, 52, 47, 56, 47, 57] = .ok (0x01020304#32, Mask.fromBitcount 8) ∧  -- "1.2.3.4/8/9"
    cidrToIp [49, 46, 50, 46, 51, 46, 52, 47, 43, 56] = .ok (0x01020304#32, Mask.fromBitcount 8) ∧      -- "1.2.3.4/+8"
    cidrToIp [49, 46, 50, 46, 51, 46, 52, 47, 51, 51] = .ok (0x01020304#32, Mask.fromBitcount 32) ∧     -- "1.2.3.4/33"
    cidrToIp [49, 46, 50, 46, 51, 46, 52] = .error .ipv4 ∧                                               -- "1.2.3.4"
    cidrToIp [48, 49, 46, 50, 46, 51, 46, 52, 47, 56] = .error .ipv4 ∧                                   -- "01.2.3.4/8"
    cidrToIp [49, 46, 50, 46, 51, 46, 50, 53, 54, 47, 56] = .error .ipv4 ∧                               -- "1.2.3.256/8"
    cidrToIp [49, 46, 50, 46, 51, 46, 52, 47] = .error .mask ∧                                           -- "1.2.3.4/"
    cidrToIp [49, 46, 50, 46, 51, 46, 52, 47, 52, 50, 57, 52, 57, 54, 55, 50, 57, 54] = .error .mask     -- "1.2.3.4/4294967296"
    := by decide

end Elvis.Subnet

/-! ## The table -/
namespace Elvis.IpTable
open Elvis.Subnet Elvis.IpTable.Spec

/-- invariant of every history: the table is strictly sorted by `Obm::cmp` (so `iter()` runs from
    the longest mask to the shortest, ids ascending, no key twice) and holds exactly the pairs of
    the abstract map the history denotes -/
theorem c09_table_represents {V : Type} (ops : List (Op V)) (t : Table V) (h : run ops = .ok t) :
    Sorted t ∧ (∀ k v, (k, v) ∈ t ↔ denote ops k = some v) ∧
      (∀ k, find k t = denote ops k) := by
  have hr := rep_runFrom ops new t _ rep_empty h
  refine ⟨hr.1, hr.2, ?_⟩
  intro k
  cases hd : denote ops k with
  | some v => exact (find_eq_some_iff t hr.1 k v).2 ((hr.2 k v).2 hd)
  | none =>
    cases hf : find k t with
    | none => rfl
    | some v =>
      have : denote ops k = some v := (hr.2 k v).1 ((find_eq_some_iff t hr.1 k v).1 hf)
      rw [hd] at this; cases this

/-- a history panics only in `remove_cidr` on text `from_cidr` rejects (documented) -/
theorem c09_run_ok_iff {V : Type} (ops : List (Op V)) :
    (∃ t, run ops = .ok t) ↔ ∀ s, Op.removeCidr s ∈ ops → ∃ k, Net.fromCidr s = .ok k := by
  unfold run
  generalize (new : Table V) = t0
  induction ops generalizing t0 with
  | nil => simp [runFrom]
  | cons op ops ih =>
    simp only [runFrom]
    cases op with
    | removeCidr s =>
      simp only [step]
      cases hc : Net.fromCidr s with
      | ok k =>
        simp only [ih]
        constructor
        · intro h s' hs'
          rw [List.mem_cons] at hs'
          cases hs' with
          | inl e => injection e with e; subst e; exact ⟨k, hc⟩
          | inr e => exact h s' e
        · intro h s' hs'; exact h s' (List.mem_cons_of_mem _ hs')
      | error e =>
        simp only
        constructor
        · intro ⟨t, ht⟩; cases ht
        · intro h
          obtain ⟨k, hk⟩ := h s List.mem_cons_self
          rw [hc] at hk; cases hk
    | add k v =>
      simp only [step, ih]
      constructor
      · intro h s' hs'
        rw [List.mem_cons] at hs'
        cases hs' with
        | inl e => cases e
        | inr e => exact h s' e
      · intro h s' hs'; exact h s' (List.mem_cons_of_mem _ hs')
    | remove k =>
      simp only [step, ih]
      constructor
      · intro h s' hs'
        rw [List.mem_cons] at hs'
        cases hs' with
        | inl e => cases e
        | inr e => exact h s' e
      · intro h s' hs'; exact h s' (List.mem_cons_of_mem _ hs')
    | addDirect ip v =>
      simp only [step, ih]
      constructor
      · intro h s' hs'
        rw [List.mem_cons] at hs'
        cases hs' with
        | inl e => cases e
        | inr e => exact h s' e
      · intro h s' hs'; exact h s' (List.mem_cons_of_mem _ hs')
    | removeDirect ip =>
      simp only [step, ih]
      constructor
      · intro h s' hs'
        rw [List.mem_cons] at hs'
        cases hs' with
        | inl e => cases e
        | inr e => exact h s' e
      · intro h s' hs'; exact h s' (List.mem_cons_of_mem _ hs')
    | addCidr s v =>
      simp only [step]
      have hcommon : ∀ t1 : Table V, ((∃ t, runFrom t1 ops = .ok t) ↔
          ∀ s', Op.removeCidr s' ∈ Op.addCidr s v :: ops → ∃ k, Net.fromCidr s' = .ok k) := by
        intro t1
        rw [ih]
        constructor
        · intro h s' hs'
          rw [List.mem_cons] at hs'
          cases hs' with
          | inl e => cases e
          | inr e => exact h s' e
        · intro h s' hs'; exact h s' (List.mem_cons_of_mem _ hs')
      cases hc : Net.fromCidr s with
      | ok k => simp only; exact hcommon _
      | error e => simp only; exact hcommon _

/-- the keys of the denoted map are networks (given that the nets handed to add/remove are) -/
theorem c09_keys_wf {V : Type} (ops : List (Op V)) (hops : ∀ op ∈ ops, Op.WF op) :
    MapWF (denote ops) :=
  mapwf_denoteFrom ops _ mapwf_empty hops

/-- **Main theorem.** For every history, looking an address up returns the value attached to the
    most specific network (longest mask) of the denoted map that contains the address, or nothing
    if none does. -/
theorem c09_lpm {V : Type} (ops : List (Op V)) (hops : ∀ op ∈ ops, Op.WF op) (t : Table V)
    (h : run ops = .ok t) (a : Addr) : IsLpm (denote ops) a (getRecipient t a) :=
  getRecipient_isLpm (rep_runFrom ops new t _ rep_empty h) (c09_keys_wf ops hops) a

/-- the specification is deterministic: there is exactly one longest-prefix answer -/
theorem c09_lpm_unique {V : Type} (m : AMap V) (hw : MapWF m) (a : Addr) (r1 r2 : Option V)
    (h1 : IsLpm m a r1) (h2 : IsLpm m a r2) : r1 = r2 :=
  isLpm_unique hw h1 h2

/-- functional form: the lookup is "try `a/32, a/31, …, a/0` as keys of the denoted map" -/
theorem c09_lpm_fun {V : Type} (ops : List (Op V)) (hops : ∀ op ∈ ops, Op.WF op) (t : Table V)
    (h : run ops = .ok t) (a : Addr) : getRecipient t a = lpm (denote ops) a :=
  isLpm_unique (c09_keys_wf ops hops) (c09_lpm ops hops t h a) (lpm_isLpm (c09_keys_wf ops hops) a)

/-- two histories that denote the same map give the same table — same iteration order, same
    answer to every lookup — whatever the order of the adds and removes -/
theorem c09_order_independent {V : Type} (ops1 ops2 : List (Op V)) (t1 t2 : Table V)
    (h1 : run ops1 = .ok t1) (h2 : run ops2 = .ok t2)
    (hd : ∀ k, denote ops1 k = denote ops2 k) :
    t1 = t2 ∧ ∀ a, getRecipient t1 a = getRecipient t2 a := by
  have r1 := rep_runFrom ops1 new t1 _ rep_empty h1
  have r2 := rep_runFrom ops2 new t2 _ rep_empty h2
  have : t1 = t2 := by
    apply sorted_ext t1 t2 r1.1 r2.1
    intro ⟨k, v⟩
    rw [r1.2, r2.2]
    show denote ops1 k = some v ↔ denote ops2 k = some v
    rw [hd]
  exact ⟨this, fun a => by rw [this]⟩

/-- adding a network twice replaces its value (and the second add returns the first value) -/
theorem c09_add_replaces {V : Type} (t : Table V) (k : Net) (v w : V) :
    (add (add t k v).2 k w).2 = (add t k w).2 ∧
    (Sorted t → (add (add t k v).2 k w).1 = some v) := by
  constructor
  · show insert k w (insert k v t) = insert k w t
    induction t with
    | nil => simp [insert, (obm_eq_iff k k).2 rfl]
    | cons hd t ih =>
      obtain ⟨h, hv⟩ := hd
      simp only [insert]
      cases hc : obmCmp k h with
      | lt => simp only [insert, (obm_eq_iff k k).2 rfl]
      | eq => simp only [insert, hc]
      | gt => simp only [insert, hc, ih]
  · intro hs
    show find k (insert k v t) = some v
    rw [find_eq_some_iff _ (sorted_insert k v t hs), mem_insert_iff k v t hs]
    exact Or.inl ⟨rfl, rfl⟩

/-- `IpTable::default_gateway(r)` never panics and answers every lookup with `r` -/
theorem c09_default_gateway {V : Type} (r : V) :
    ∃ t, defaultGateway r = .ok t ∧ ∀ a, getRecipient t a = some r := by
  have hc : Net.fromCidr [48, 46, 48, 46, 48, 46, 48, 47, 48] = .ok (Net.newShort 0#32 0) := by decide
  refine ⟨insert (Net.newShort 0#32 0) r new, ?_, ?_⟩
  · unfold defaultGateway; rw [hc]
  · intro a
    have : (Net.newShort 0#32 0).contains a = true := by
      have hz : (Mask.fromBitcount 0).bits = 0#32 := by decide
      simp [Net.contains, Net.newShort, Net.new, hz]
    simp [insert, new, getRecipient, this]

/-! ### non-vacuity: a concrete history with nested networks, a replacement and a removal -/

def exNet (a : Nat) (l : Nat) : Net := Net.newShort (BitVec.ofNat 32 a) l

def exOps : List (Op Nat) :=
  [.add (exNet 0x01010100 24) 2, .add (exNet 0x01000000 8) 0, .add (exNet 0x01010000 16) 1,
   .addDirect 0x01010102#32 6, .add (exNet 0x010101FF 24) 20, .remove (exNet 0x01010102 32),
   .addCidr [49, 46, 49, 46, 49, 46, 48, 47, 50, 53] 7]  -- "1.1.1.0/25"

example : ∀ op ∈ exOps, Op.WF op := by
  intro op h
  simp only [exOps, List.mem_cons, List.not_mem_nil, or_false] at h
  rcases h with rfl | rfl | rfl | rfl | rfl | rfl | rfl <;>
    first | exact Net.wf_newShort _ _ | trivial

example : MapWF (denote exOps) := c09_keys_wf exOps (by
  intro op h
  simp only [exOps, List.mem_cons, List.not_mem_nil, or_false] at h
  rcases h with rfl | rfl | rfl | rfl | rfl | rfl | rfl <;>
    first | exact Net.wf_newShort _ _ | trivial)

example : ∃ t, run exOps = .ok t ∧
    getRecipient t 0x01010102#32 = some 7 ∧       -- the /25 added last by text is most specific
    getRecipient t 0x01010181#32 = some 20 ∧      -- upper half: the replaced /24
    getRecipient t 0x01017001#32 = some 1 ∧       -- the /16
    getRecipient t 0x01800001#32 = some 0 ∧       -- the /8
    getRecipient t 0x02000001#32 = none ∧
    t.map (fun e => (e.1.id.toNat, len e.1)) =
      [(0x01010100, 25), (0x01010100, 24), (0x01010000, 16), (0x01000000, 8)] := by
  refine ⟨_, rfl, ?_⟩
  decide

end Elvis.IpTable

/-! ## Tie to the source -/
namespace Elvis.Subnet
open Elvis.IpTable

/-- the hand-written model equals the kernels translated from the current Rust source
    (`Generated/SubnetKernels.lean`, every checked `u32` operation able to fail): `from_bitcount`,
    `new`, `new_1`, `id`, `contains`, `Obm::cmp` never panic and compute what the model says;
    `broadcast` / `overlaps` fail exactly where the model does -/
theorem c09_kernels_match_source :
    (∀ size : BitVec 32, Gen.Subnet.Ipv4Mask.from_bitcount size = .ok (Mask.fromBitcount size.toNat).toGen) ∧
    (∀ ip m, Gen.Subnet.Ipv4Net.new ip (Mask.toGen m) = .ok (Net.new ip m).toGen) ∧
    (∀ ip, Gen.Subnet.Ipv4Net.new_1 ip = .ok (Net.new1 ip).toGen) ∧
    (∀ n : Net, Gen.Subnet.Ipv4Net.id n.toGen = .ok n.id) ∧
    (∀ n : Net, Gen.Subnet.Ipv4Net.broadcast n.toGen = n.broadcast) ∧
    (∀ (n : Net) a, Gen.Subnet.Ipv4Net.contains n.toGen a = .ok (n.contains a)) ∧
    (∀ a b : Net, Gen.Subnet.Ipv4Net.overlaps a.toGen b.toGen = a.overlaps b) ∧
    (∀ a b : Net, Gen.Subnet.Obm.cmp ⟨a.toGen⟩ ⟨b.toGen⟩ = .ok (obmCmp a b)) :=
  ⟨gen_from_bitcount, gen_new, gen_new_1, gen_id, gen_broadcast, gen_contains, gen_overlaps, gen_obm_cmp⟩

end Elvis.Subnet
