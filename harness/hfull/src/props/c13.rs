//! C13: simulation start-up barrier and exit status, on the real `run_internet`.
//!
//! A scenario (one op line `scn …`) describes machines built from harness protocols (slow
//! initialisers that send frames after the barrier, sinks, shutdown requesters) optionally
//! mixed with built-in protocols/applications (Udp/Ipv4/Pci/SendMessage/Capture, Forward+Arp).
//! It runs on a paused-clock current_thread runtime (virtual time), every observable event is
//! logged with a global sequence number, and three lines are emitted for the Lean model:
//!   `barrier <size> <prog> <sched>`  -> the effect log the barrier model allows for that schedule
//!   `status <timeout> <reqs>`        -> (time, status) `run_internet` must return
use elvis::applications::{Capture, Forward, SendMessage};
use elvis_core::{
    message::Message,
    network::{VerifFrameEventKind, VerifFramePlan},
    new_machine_arc,
    protocol::{DemuxError, StartError},
    protocols::{
        ipv4::{Ipv4, Ipv4Address, Recipient},
        udp::Udp,
        Arp, Endpoint, Endpoints, Pci,
    },
    run_internet, run_internet_with_timeout, Control, ExitStatus, IpTable, Machine, Network,
    Protocol, Session, Shutdown,
};
use hcommon::*;
use std::any::TypeId;
use std::sync::{Arc, Mutex};
use std::time::Duration;
use tokio::sync::Barrier;
use tokio::time::{sleep, Instant};

#[derive(Clone, Debug)]
enum Ev {
    PreDone(usize),
    Post(usize),
    FrameSend,
    SinkDemux,
    Request(u64, ExitStatus),
}

struct Log {
    t0: Instant,
    events: Vec<(u64, Ev)>,
}

type SharedLog = Arc<Mutex<Log>>;

fn now_ms(log: &SharedLog) -> u64 {
    let l = log.lock().unwrap();
    Instant::now().duration_since(l.t0).as_millis() as u64
}
fn record(log: &SharedLog, ev: Ev) {
    let mut l = log.lock().unwrap();
    let t = Instant::now().duration_since(l.t0).as_millis() as u64;
    l.events.push((t, ev));
}

/// Slow initialiser: sleeps before the barrier (its one `pre` effect), then sends `posts`
/// broadcast frames to the `Sink` protocols.
struct Slow {
    id: usize,
    pre_delay: u64,
    posts: u32,
    gap: u64,
    /// how long the start routine lingers after its last post effect before returning (ms)
    linger: u64,
    log: SharedLog,
}

#[async_trait::async_trait]
impl Protocol for Slow {
    async fn start(&self, _s: Shutdown, initialized: Arc<Barrier>, machine: Arc<Machine>) -> Result<(), StartError> {
        if self.pre_delay > 0 {
            sleep(Duration::from_millis(self.pre_delay)).await;
        }
        record(&self.log, Ev::PreDone(self.id));
        initialized.wait().await;
        let pci = machine.protocol::<Pci>().unwrap().open(0);
        for k in 0..self.posts {
            record(&self.log, Ev::Post(self.id));
            let _ = pci.send_pci(Message::new(vec![self.id as u8, k as u8]), None, TypeId::of::<Sink>());
            if self.gap > 0 {
                sleep(Duration::from_millis(self.gap)).await;
            } else {
                tokio::task::yield_now().await;
            }
        }
        if self.linger > 0 {
            sleep(Duration::from_millis(self.linger)).await;
        }
        Ok(())
    }
    fn demux(&self, _m: Message, _c: Arc<dyn Session>, _ctl: Control, _mc: Arc<Machine>) -> Result<(), DemuxError> {
        Ok(())
    }
}

struct Sink {
    log: SharedLog,
}

#[async_trait::async_trait]
impl Protocol for Sink {
    async fn start(&self, _s: Shutdown, initialized: Arc<Barrier>, _m: Arc<Machine>) -> Result<(), StartError> {
        initialized.wait().await;
        Ok(())
    }
    fn demux(&self, _m: Message, _c: Arc<dyn Session>, _ctl: Control, _mc: Arc<Machine>) -> Result<(), DemuxError> {
        record(&self.log, Ev::SinkDemux);
        Ok(())
    }
}

/// Requests shutdown with a status `at` ms after the barrier.
struct Requester {
    at: u64,
    status: ExitStatus,
    log: SharedLog,
}

#[async_trait::async_trait]
impl Protocol for Requester {
    async fn start(&self, shutdown: Shutdown, initialized: Arc<Barrier>, _m: Arc<Machine>) -> Result<(), StartError> {
        initialized.wait().await;
        let at = self.at;
        let status = self.status.clone();
        let log = self.log.clone();
        tokio::spawn(async move {
            sleep(Duration::from_millis(at)).await;
            let t = now_ms(&log);
            record(&log, Ev::Request(t, status.clone()));
            shutdown.shut_down_with_status(status);
        });
        Ok(())
    }
    fn demux(&self, _m: Message, _c: Arc<dyn Session>, _ctl: Control, _mc: Arc<Machine>) -> Result<(), DemuxError> {
        Ok(())
    }
}

#[derive(Clone, Debug, Default)]
struct Scenario {
    timeout: Option<u64>,
    slows: Vec<(u64, u32, u64, u64)>, // pre_delay, posts, gap, linger
    direct: bool,                     // timeout given to run_internet directly (no outer watchdog)
    reqs: Vec<(u64, Option<u32>)>,    // at, Some(n)=Status(n) / None=Exited
    builtin_pair: bool,               // Udp/Ipv4/Pci + SendMessage -> Capture
    forward_arp: bool,                // Forward on a machine with Arp and a MAC-less route
}

fn status_str(s: &ExitStatus) -> String {
    match s {
        ExitStatus::Status(n) => format!("s{}", n),
        ExitStatus::Exited => "exited".into(),
        ExitStatus::TimedOut => "timedout".into(),
    }
}

impl Scenario {
    fn to_line(&self) -> String {
        let t = self.timeout.map(|d| d.to_string()).unwrap_or("-".into());
        let sl: Vec<String> = self.slows.iter().map(|(d, p, g, l)| if *l > 0 { format!("{}:{}:{}:{}", d, p, g, l) } else { format!("{}:{}:{}", d, p, g) }).collect();
        let rq: Vec<String> = self
            .reqs
            .iter()
            .map(|(a, s)| format!("{}:{}", a, s.map(|n| format!("s{}", n)).unwrap_or("exited".into())))
            .collect();
        format!(
            "scn timeout={}{} slows={} reqs={} builtin={} forward={}",
            t,
            if self.direct { " direct=1" } else { "" },
            if sl.is_empty() { "-".into() } else { sl.join(",") },
            if rq.is_empty() { "-".into() } else { rq.join(",") },
            self.builtin_pair as u8,
            self.forward_arp as u8
        )
    }
    fn parse(line: &str) -> Option<Scenario> {
        let mut s = Scenario::default();
        for w in line.split_whitespace().skip(1) {
            let (k, v) = w.split_once('=')?;
            match k {
                "timeout" => s.timeout = if v == "-" { None } else { Some(v.parse().ok()?) },
                "slows" if v != "-" => {
                    for x in v.split(',') {
                        let p: Vec<&str> = x.split(':').collect();
                        let linger = if p.len() > 3 { p[3].parse().ok()? } else { 0 };
                        s.slows.push((p[0].parse().ok()?, p[1].parse().ok()?, p[2].parse().ok()?, linger));
                    }
                }
                "reqs" if v != "-" => {
                    for x in v.split(',') {
                        let (a, st) = x.split_once(':')?;
                        let st = if st == "exited" { None } else { Some(st[1..].parse().ok()?) };
                        s.reqs.push((a.parse().ok()?, st));
                    }
                }
                "builtin" => s.builtin_pair = v == "1",
                "direct" => s.direct = v == "1",
                "forward" => s.forward_arp = v == "1",
                _ => {}
            }
        }
        Some(s)
    }
}

struct Outcome {
    status: ExitStatus,
    elapsed: u64,
    events: Vec<(u64, Ev)>,
    n_protocols: usize,
}

/// Run a scenario under a real-time watchdog: a run that does not return (e.g. a barrier that
/// never releases on a paused clock) is an observable outcome, not a hang of the check.
fn run_scenario(sc: &Scenario) -> Option<Outcome> {
    let (tx, rx) = std::sync::mpsc::channel();
    let sc2 = sc.clone();
    std::thread::spawn(move || {
        let _ = tx.send(run_scenario_inner(&sc2));
    });
    rx.recv_timeout(Duration::from_secs(20)).ok()
}

fn run_scenario_inner(sc: &Scenario) -> Outcome {
    let rt = tokio::runtime::Builder::new_current_thread().enable_all().start_paused(true).build().unwrap();
    rt.block_on(async {
        let log: SharedLog = Arc::new(Mutex::new(Log { t0: Instant::now(), events: vec![] }));
        let network = Network::basic();
        {
            let log = log.clone();
            network.verif_set_hook(Some(Arc::new(move |ev| {
                if ev.kind == VerifFrameEventKind::Send {
                    record(&log, Ev::FrameSend);
                }
                VerifFramePlan::Deliver
            })));
        }
        let mut machines: Vec<Arc<Machine>> = vec![];
        for (i, (d, p, g, l)) in sc.slows.iter().enumerate() {
            machines.push(new_machine_arc![
                Pci::new([network.clone()]),
                Slow { id: i, pre_delay: *d, posts: *p, gap: *g, linger: *l, log: log.clone() },
                Sink { log: log.clone() },
            ]);
        }
        for (at, st) in sc.reqs.iter() {
            let status = match st {
                Some(n) => ExitStatus::Status(*n),
                None => ExitStatus::Exited,
            };
            machines.push(new_machine_arc![Requester { at: *at, status, log: log.clone() }]);
        }
        if sc.builtin_pair {
            let endpoint = Endpoint { address: [123, 45, 67, 89].into(), port: 0xbeef };
            let local: Ipv4Address = [127, 0, 0, 1].into();
            let table: IpTable<Recipient> = [(local, Recipient::with_mac(0, 1))].into_iter().collect();
            machines.push(new_machine_arc![
                Udp::new(),
                Ipv4::new(table),
                Pci::new([network.clone()]),
                SendMessage::new(vec![Message::new("Hello!"), Message::new("again")], endpoint),
            ]);
            machines.push(new_machine_arc![
                Udp::new(),
                Ipv4::new(Default::default()),
                Pci::new([network.clone()]),
                // expects more messages than are sent: never requests shutdown itself
                Capture::new(endpoint, 100),
            ]);
        }
        if sc.forward_arp {
            let a: Ipv4Address = [10, 0, 0, 1].into();
            let b: Ipv4Address = [10, 0, 0, 2].into();
            let table: IpTable<Recipient> = [("0.0.0.0/0", Recipient::new(0, None))].into_iter().collect();
            machines.push(new_machine_arc![
                Udp::new(),
                Ipv4::new(table.clone()),
                Arp::new(),
                Pci::new([network.clone()]),
                Forward::new(Endpoints { local: Endpoint { address: a, port: 7 }, remote: Endpoint { address: b, port: 7 } }),
            ]);
            machines.push(new_machine_arc![
                Udp::new(),
                Ipv4::new(table),
                Arp::new(),
                Pci::new([network.clone()]),
                Capture::new(Endpoint { address: b, port: 7 }, 100),
            ]);
        }
        let n_protocols = machines.iter().map(|m| m.protocol_count()).sum();
        log.lock().unwrap().t0 = Instant::now();
        let t0 = Instant::now();
        let status = match sc.timeout {
            Some(d) if sc.direct => run_internet(&machines, Some(Duration::from_millis(d))).await,
            Some(d) => run_internet_with_timeout(&machines, Duration::from_millis(d)).await,
            None => run_internet(&machines, None).await,
        };
        let elapsed = Instant::now().duration_since(t0).as_millis() as u64;
        let events = log.lock().unwrap().events.clone();
        network.verif_set_hook(None);
        Outcome { status, elapsed, events, n_protocols }
    })
}

fn gen(rng: &mut Rng) -> Scenario {
    let mut s = Scenario::default();
    let kind = rng.below(100);
    let n_slow = if kind < 8 { 0 } else { rng.range(1, 5) as usize };
    for _ in 0..n_slow {
        // some start routines linger after their last effect (staggered), some never return
        let linger = *rng.pick(&[0u64, 0, 0, 0, 150, 700, 1300, 2200, 4000, 1_000_000_000]);
        s.slows.push((*rng.pick(&[0u64, 0, 1, 5, 40, 300, 2500]), rng.below(4) as u32, *rng.pick(&[0u64, 0, 1, 7]), linger));
    }
    let max_pre = s.slows.iter().map(|x| x.0).max().unwrap_or(0);
    let n_req = match rng.below(10) {
        0 => 0,
        1..=5 => 1,
        6..=7 => rng.range(2, 6) as usize,
        8 => rng.range(7, 16) as usize,
        _ => rng.range(17, 24) as usize,
    };
    let same_instant = rng.chance(1, 2);
    let base_at = *rng.pick(&[0u64, 1, 3, 50, 700, 4000]);
    for i in 0..n_req {
        let at = if same_instant { base_at } else { *rng.pick(&[0u64, 1, 2, 10, 50, 51, 700, 4000, 9000]) };
        let st = if rng.chance(1, 8) { None } else { Some(100 + i as u32) };
        s.reqs.push((at, st));
    }
    // timeouts: absent only if some request exists; never exactly at a request instant
    let need_timeout = n_req == 0 || rng.chance(2, 3);
    if need_timeout {
        let mut d = *rng.pick(&[1u64, 20, 333, 1000, 2600, 6000, 20000]);
        while s.reqs.iter().any(|r| r.0 + max_pre == d) {
            d += 1;
        }
        s.timeout = Some(d);
    }
    s.builtin_pair = rng.chance(1, 3);
    s.direct = s.timeout.is_some() && rng.chance(1, 3);
    s
}

fn exec(line: &str, out: &mut Out) {
    let Some(sc) = Scenario::parse(line) else { return out.line(line, "bad-op") };
    let Some(o) = run_scenario(&sc) else {
        out.line(line, "scn-no-return");
        out.fail(&format!("`{}`: the run did not return within 20 s of real time on a paused clock (start-up never completed or the run never ended)", line), "no-return");
        return;
    };
    out.line(line, "scn");
    out.count(&format!("ret.{}", status_str(&o.status).trim_start_matches('s').chars().all(|c| c.is_ascii_digit()).then(|| "status").unwrap_or(match o.status { ExitStatus::Exited => "exited", _ => "timedout" })));

    // ---------- barrier ----------
    let n_slow = sc.slows.len();
    let mut pre_done = 0usize;
    let mut sched: Vec<usize> = vec![];
    let mut real_log: Vec<String> = vec![];
    let mut early: Option<String> = None;
    for (_, ev) in o.events.iter() {
        match ev {
            Ev::PreDone(i) => {
                pre_done += 1;
                sched.push(*i); // the pre effect
                sched.push(*i); // arrival at the barrier
                real_log.push(format!("p{}", i));
            }
            Ev::Post(i) => {
                if pre_done < n_slow && early.is_none() {
                    early = Some(format!("post effect of routine {} before {} of {} initialisations finished", i, n_slow - pre_done, n_slow));
                }
                sched.push(*i);
                real_log.push(format!("q{}", i));
            }
            Ev::FrameSend => {
                if pre_done < n_slow && early.is_none() {
                    early = Some(format!("a frame was put on the network while {} of {} harness protocols were still initialising", n_slow - pre_done, n_slow));
                }
            }
            Ev::SinkDemux => {
                if pre_done < n_slow && early.is_none() {
                    early = Some("an application received a frame before initialisation finished".into());
                }
            }
            Ev::Request(..) => {}
        }
    }
    if let Some(e) = early {
        let ident = if sc.forward_arp { "frame-before-barrier forward+arp" } else { "frame-before-barrier" };
        out.fail(&format!("{} in `{}`", e, line), ident);
    }
    if n_slow > 0 {
        let prog: Vec<String> = sc.slows.iter().map(|(_, p, _, _)| format!("1:{}", p)).collect();
        let sch: Vec<String> = sched.iter().map(|x| x.to_string()).collect();
        out.line(
            &format!("barrier {} {} {}", n_slow, prog.join(","), if sch.is_empty() { "-".into() } else { sch.join(",") }),
            &format!("log {}", if real_log.is_empty() { "-".into() } else { real_log.join(" ") }),
        );
    }

    // ---------- status ----------
    let reqs: Vec<(u64, ExitStatus)> = o.events.iter().filter_map(|(_, e)| if let Ev::Request(t, s) = e { Some((*t, s.clone())) } else { None }).collect();
    // requests that really were issued (those after the return never happened)
    let rq: Vec<String> = reqs.iter().map(|(t, s)| format!("{}:{}", t, status_str(s))).collect();
    // planned but not yet issued requests (the run returned first) are appended with their planned
    // time so that the model sees the complete request plan
    let max_pre = sc.slows.iter().map(|x| x.0).max().unwrap_or(0);
    let mut planned: Vec<(u64, String)> = vec![];
    if reqs.len() < sc.reqs.len() {
        let mut pl: Vec<(u64, String)> = sc
            .reqs
            .iter()
            .map(|(a, s)| (a + max_pre, s.map(|n| format!("s{}", n)).unwrap_or("exited".into())))
            .collect();
        pl.sort_by_key(|x| x.0);
        let last_t = reqs.last().map(|x| x.0).unwrap_or(0);
        planned = pl.into_iter().filter(|x| x.0 > last_t).collect();
    }
    let mut all = rq.clone();
    all.extend(planned.iter().map(|(t, s)| format!("{}:{}", t, s)));
    out.line(
        &format!("{} {} {}", if sc.direct { "statusd" } else { "status" }, sc.timeout.map(|d| d.to_string()).unwrap_or("-".into()), if all.is_empty() { "-".into() } else { all.join(",") }),
        &format!("ret {} {}", o.elapsed, status_str(&o.status)),
    );
    // oracle: first request before the timeout wins, else TimedOut; bounded return time
    let mut timeline: Vec<(u64, String)> = reqs.iter().map(|(t, s)| (*t, status_str(s))).collect();
    timeline.extend(planned.iter().cloned());
    let first = timeline.first().cloned();
    let expected: Option<String> = match (first.clone(), sc.timeout) {
        (Some((t, s)), Some(d)) if t < d => Some(s),
        (Some((_, s)), None) => Some(s),
        (_, Some(_)) => Some("timedout".into()),
        (None, None) => None,
    };
    if let Some(exp) = expected {
        let got = status_str(&o.status);
        if got != exp {
            let burst = first.as_ref().map(|f| timeline.iter().filter(|x| x.0 == f.0).count()).unwrap_or(0);
            let ident = if burst > 16 { "status-not-first burst>16" } else { "status-not-first" };
            out.fail(&format!("`{}` returned {} but the first shutdown request (or the timeout) prescribes {} (first burst of {} requests)", line, got, exp, burst), ident);
        }
    }
    if let Some(d) = sc.timeout {
        if o.elapsed > d + 1000 {
            out.fail(&format!("`{}` returned after {} ms of simulated time, later than timeout {} + 1000", line, o.elapsed, d), "late-return");
        }
    }
    out.count(&format!("protocols.{}", o.n_protocols.min(20)));
    out.count(&format!("reqs.{}", if sc.reqs.len() > 16 { ">16".to_string() } else { sc.reqs.len().to_string() }));
    if n_slow >= 2 && sc.slows.iter().any(|x| x.1 > 0) && !sc.reqs.is_empty() {
        out.mark_nontrivial();
    }
}

pub fn run(args: &Args) {
    let mut out = Out::new(&args.out);
    let rule = "scenarios: 0..5 slow-initialising harness machines (sleep before the barrier, 0..3 broadcast frames after it) + 0..23 shutdown requesters (distinct statuses, same-instant bursts incl. > 16) + optional built-in Udp/Ipv4/Pci/SendMessage/Capture pair, optional timeout; paused-clock current_thread runtime; non-trivial = >= 2 slow machines, some post-barrier frame and >= 1 requester; distinct = hash of the scenario line";
    if let Some(rp) = &args.replay {
        out.begin_case(0);
        out.mark_nontrivial();
        for l in read_ops(rp) {
            if l.starts_with("scn ") {
                exec(&l, &mut out);
            }
        }
        out.end_case();
        out.finish(rule);
        return;
    }
    let mut rng = Rng::new(args.seed);
    // fixed scenarios first: empty machine set; Forward with ARP (known finding F-C13-2)
    let fixed = [
        "scn timeout=50 slows=- reqs=- builtin=0 forward=0".to_string(),
        "scn timeout=500 slows=300:1:0 reqs=- builtin=0 forward=1".to_string(),
    ];
    let mut c = 0;
    for f in fixed.iter() {
        out.begin_case(c);
        exec(f, &mut out);
        out.end_case();
        c += 1;
    }
    for _ in 0..args.cases {
        let mut r = rng.fork();
        let sc = gen(&mut r);
        out.begin_case(c);
        exec(&sc.to_line(), &mut out);
        out.end_case();
        c += 1;
    }
    out.finish(rule);
}
