import ElvisVerif.Lemmas.TcpConvFwd
/-!
# Forward evaluation of `segments()` on an endpoint nobody closes

`segmentize_exact`: with a maximum segment length of at least one byte the segmentizing loop takes
exactly `Δ = min |unsent text| (SND.WND − queued bytes)` bytes off the unsent text, as a run of
contiguous data segments starting at `SND.NXT`, each carrying `ACK = RCV.NXT` and `WND = RCV.WND`
(`DataRun`).  `segments_fwd`: what `segments()` returns and leaves behind.
-/
namespace Elvis.Tcp
open Elvis.ModCmp
namespace Tcb

/-- the header of a data segment / pure ACK formed at sequence number `seq` -/
def dataHdr (lp rp : U16) (seq ack : Seq) (wnd : U16) : Hdr :=
  (((Hdr.builder lp rp seq).withAck ack).withWnd wnd).built

/-- contiguous data segments starting at `seq`, all acknowledging `ack` and advertising `wnd` -/
def DataRun (lp rp : U16) (ack : Seq) (wnd : U16) : Seq → List Segment → Prop
  | _, [] => True
  | seq, g :: rest => g.hdr = dataHdr lp rp seq ack wnd ∧ g.text ≠ [] ∧
      DataRun lp rp ack wnd (seq + BitVec.ofNat 32 g.text.length) rest

/-- total text of a list of segments -/
def segBytes (l : List Segment) : Nat := (l.map fun g => g.text.length).sum

@[simp] theorem segBytes_nil : segBytes [] = 0 := rfl
@[simp] theorem segBytes_cons (g : Segment) (l : List Segment) : segBytes (g :: l) = g.text.length + segBytes l := by
  simp [segBytes]

theorem rtxBytes_eq_segBytes (l : List Transmit) : rtxBytes l = segBytes (l.map (·.segment)) := by
  induction l with
  | nil => rfl
  | cons t l ih => simp [ih]

/-- what the segmentizing loop does -/
structure SegFx (s : Tcb) (d : Nat) (u : Tcb) : Prop where
  text : u.outgoing.text = s.outgoing.text.drop d
  nxt : u.snd.nxt = s.snd.nxt + BitVec.ofNat 32 d
  rtx : ∃ new : List Transmit, u.outgoing.retransmit = s.outgoing.retransmit ++ new ∧
    (∀ tr ∈ new, tr.needsTransmit = true) ∧ segBytes (new.map (·.segment)) = d ∧
    DataRun s.localPort s.remotePort s.rcv.nxt s.rcv.wnd s.snd.nxt (new.map (·.segment))
  rcv : u.rcv = s.rcv
  inc : u.incoming = s.incoming
  st : u.state = s.state
  una : u.snd.una = s.snd.una
  wnd : u.snd.wnd = s.snd.wnd
  iss : u.snd.iss = s.snd.iss
  one : u.outgoing.oneshot = s.outgoing.oneshot
  mtu : u.mtu = s.mtu
  lp : u.localPort = s.localPort
  rp : u.remotePort = s.remotePort
  tmo : u.timeouts = s.timeouts

theorem segmentize_exact (m : Nat) (hm : 0 < m) (hmb : m + BASE_HEADER_OCTETS ≤ 65535) (fuel : Nat) (s : Tcb) (q : Nat)
    (hfuel : s.outgoing.text.length < fuel) :
    ∃ u, segmentize m fuel s q = .ok u ∧ SegFx s (min s.outgoing.text.length (s.snd.wnd.toNat - q)) u := by
  induction fuel generalizing s q with
  | zero => omega
  | succ n ih =>
    rw [segmentize_succ]
    generalize hb : min (min m (s.snd.wnd.toNat - q)) s.outgoing.text.length = b
    by_cases hb0 : b = 0
    · rw [if_pos hb0]
      have hd : min s.outgoing.text.length (s.snd.wnd.toNat - q) = 0 := by omega
      rw [hd]
      exact ⟨s, rfl, by simp, by simp, ⟨[], by simp, fun _ h => (by cases h), rfl, trivial⟩, rfl, rfl, rfl, rfl, rfl,
        rfl, rfl, rfl, rfl, rfl, rfl⟩
    · rw [if_neg hb0]
      have hble : b ≤ s.outgoing.text.length := by omega
      have hlen : (List.take b s.outgoing.text).length = b := by rw [List.length_take]; omega
      rw [hlen, Hdr.build_eq _ _ (by omega)]
      dsimp only
      obtain ⟨u, e, fx0⟩ := ih (pushSeg s s.ackHdr.built (s.outgoing.text.take b) (s.outgoing.text.drop b)) (q + b)
        (by show (List.drop b s.outgoing.text).length < n; rw [List.length_drop]; omega)
      have fx : SegFx (pushSeg s s.ackHdr.built (s.outgoing.text.take b) (s.outgoing.text.drop b))
          (min (List.drop b s.outgoing.text).length (s.snd.wnd.toNat - (q + b))) u := fx0
      refine ⟨u, e, ?_⟩
      have hd : min s.outgoing.text.length (s.snd.wnd.toNat - q) =
          b + min (List.drop b s.outgoing.text).length (s.snd.wnd.toNat - (q + b)) := by
        rw [List.length_drop]; omega
      rw [hd]
      obtain ⟨new, r1, r2, r3, r4⟩ := fx.rtx
      refine ⟨?_, ?_, ⟨Transmit.new ⟨s.ackHdr.built, s.outgoing.text.take b⟩ :: new, ?_, ?_, ?_, ?_⟩, fx.rcv, fx.inc, fx.st,
        fx.una, fx.wnd, fx.iss, fx.one, fx.mtu, fx.lp, fx.rp, fx.tmo⟩
      · rw [fx.text]
        show List.drop _ (List.drop b s.outgoing.text) = _
        rw [List.drop_drop]
      · rw [fx.nxt]
        show s.snd.nxt + BitVec.ofNat 32 (List.take b s.outgoing.text).length + _ = _
        rw [hlen, BitVec.add_assoc, ← BitVec.ofNat_add]
      · rw [r1]
        show s.outgoing.retransmit ++ [Transmit.new ⟨s.ackHdr.built, s.outgoing.text.take b⟩] ++ new = _
        simp
      · intro tr htr
        rcases List.mem_cons.1 htr with rfl | h
        · rfl
        · exact r2 tr h
      · simp only [List.map_cons, segBytes_cons, Transmit.new, hlen]
        rw [r3]
      · simp only [List.map_cons, DataRun, Transmit.new, hlen]
        refine ⟨rfl, ?_, ?_⟩
        · intro h0
          have := congrArg List.length h0
          rw [hlen] at this
          exact hb0 this
        · have := r4
          show DataRun s.localPort s.remotePort s.rcv.nxt s.rcv.wnd (s.snd.nxt + BitVec.ofNat 32 b) _
          have e2 : (pushSeg s s.ackHdr.built (List.take b s.outgoing.text) (List.drop b s.outgoing.text)).snd.nxt
              = s.snd.nxt + BitVec.ofNat 32 b := by
            show s.snd.nxt + BitVec.ofNat 32 (List.take b s.outgoing.text).length = _
            rw [hlen]
          rw [e2] at this
          exact this

/-- what `segments()` does to an endpoint nobody closes (SYN-SENT / SYN-RECEIVED / ESTABLISHED) whose
    MTU leaves room for at least one byte of text per segment -/
def emitAmount (t : Tcb) : Nat := min t.outgoing.text.length (t.snd.wnd.toNat - rtxBytes t.outgoing.retransmit)

structure EmitFx (t : Tcb) (new : List Transmit) (t' : Tcb) (out : List Segment) : Prop where
  flagged : ∀ tr ∈ new, tr.needsTransmit = true
  bytes : segBytes (new.map (·.segment)) = emitAmount t
  run : DataRun t.localPort t.remotePort t.rcv.nxt t.rcv.wnd t.snd.nxt (new.map (·.segment))
  out : out = (t.outgoing.oneshot.map fun h => (⟨h, []⟩ : Segment)) ++
    (((t.outgoing.retransmit ++ new).filter (·.needsTransmit)).map (·.segment))
  rtx : t'.outgoing.retransmit = (t.outgoing.retransmit ++ new).map fun x => { x with needsTransmit := false }
  one : t'.outgoing.oneshot = []
  text : t'.outgoing.text = t.outgoing.text.drop (emitAmount t)
  nxt : t'.snd.nxt = t.snd.nxt + BitVec.ofNat 32 (emitAmount t)
  rcv : t'.rcv = t.rcv
  inc : t'.incoming = t.incoming
  st : t'.state = t.state
  una : t'.snd.una = t.snd.una
  wnd : t'.snd.wnd = t.snd.wnd
  mtu : t'.mtu = t.mtu

theorem segments_fwd (t : Tcb) (hst : C01.Ok3 t.state) (hmtu : SPACE_FOR_HEADERS < t.mtu.toNat) :
    ∃ new t' out, t.segments = .ok (t', out) ∧ EmitFx t new t' out := by
  have hfp : t.finPending = false := C01.Ok3.finPending hst
  have hm16 := t.mtu.isLt
  obtain ⟨u, e, fx⟩ := segmentize_exact (t.mtu.toNat - SPACE_FOR_HEADERS) (by omega)
    (by show t.mtu.toNat - 50 + 20 ≤ 65535; omega)
    ((clearOneshot t).outgoing.text.length + 1) (clearOneshot t) (clearOneshot t).outgoing.queuedBytes (by omega)
  have hv : segmentizeIfOpen (clearOneshot t) = .ok u := by
    unfold segmentizeIfOpen
    have hlt : ¬ (clearOneshot t).mtu.toNat < SPACE_FOR_HEADERS := by show ¬ t.mtu.toNat < _; omega
    rcases hst.cases with hs | hs | hs
    all_goals
      have hs' : (clearOneshot t).state = _ := hs
      rw [hs']
      dsimp only
      rw [if_neg hlt]
      exact e
  rw [segments_eq, hv]
  dsimp only
  rw [hfp]
  unfold finIfPending
  simp only [Bool.false_eq_true, if_false]
  obtain ⟨new, r1, r2, r3, r4⟩ := fx.rtx
  have hmk : ∀ b, (markSent u b).outgoing.retransmit = u.outgoing.retransmit.map (fun x => { x with needsTransmit := false }) ∧
      (markSent u b).outgoing.oneshot = u.outgoing.oneshot ∧ (markSent u b).outgoing.text = u.outgoing.text ∧
      (markSent u b).snd = u.snd ∧ (markSent u b).rcv = u.rcv ∧ (markSent u b).incoming = u.incoming ∧
      (markSent u b).state = u.state ∧ (markSent u b).mtu = u.mtu := by
    intro b; unfold markSent; cases b <;> exact ⟨rfl, rfl, rfl, rfl, rfl, rfl, rfl, rfl⟩
  refine ⟨new, _, _, rfl, ?_⟩
  obtain ⟨m1, m2, m3, m4, m5, m6, m7, m8⟩ := hmk ((t.outgoing.oneshot.map fun h => (⟨h, []⟩ : Segment)) ++
      (u.outgoing.retransmit.filter (·.needsTransmit)).map (·.segment)).isEmpty
  exact {
    flagged := r2
    bytes := r3
    run := r4
    out := by rw [r1]; rfl
    rtx := by rw [m1, r1]; rfl
    one := by rw [m2, fx.one]; rfl
    text := by rw [m3, fx.text]; rfl
    nxt := by rw [m4, fx.nxt]; rfl
    rcv := by rw [m5, fx.rcv]; rfl
    inc := by rw [m6, fx.inc]; rfl
    st := by rw [m7, fx.st]; rfl
    una := by rw [m4, fx.una]; rfl
    wnd := by rw [m4, fx.wnd]; rfl
    mtu := by rw [m8, fx.mtu]; rfl }

end Tcb
end Elvis.Tcp
