import ElvisVerif.Lemmas.TcpFullEst
import ElvisVerif.Lemmas.TcpFullTmo
import ElvisVerif.Lemmas.TcpHsFwd
/-!
# Invariants of the closed system nobody closes that convergence from ANY reachable state needs

`FInv iss mt s` (over plain steps, on top of `Good`):

* `seq` — **(a)** every history element sent from `x`'s port has `SEG.SEQ − ISS_x ≤ SND.NXT_x − ISS_x`, text-free
  segments included (`C01.Valid` / `SegBelow` say nothing about the sequence number of a pure ACK);
* `heapSeq` — the same for every segment parked in the peer's reorder heap;
* `none` — while a side has no TCB (the passive side before the SYN arrives) nothing in the history comes
  from its port and the peer's reorder heap is empty;
* `tcb` — **(b)** for every TCB: the reorder heap is a binary heap for the offset order (`HeapOk`), at rest in
  ESTABLISHED every parked segment is strictly ahead of `RCV.NXT` (`Ahead`); the retransmission timer is at most
  RTO (so a tick of `RTO + 1` always expires it); the MTU is the one given at `open` / `listen`;
* `lis` — the MTU of the LISTEN binding.

`finv_step`, `finv_run`, `finv_init`.
-/
namespace Elvis.Tcp.Full
open Elvis.ModCmp Elvis.Tcp.Tcb

structure FTcb (base : Seq) (m : U16) (t : Tcb) : Prop where
  hk : HeapOk base t
  ahead : Ahead base t
  tmo : t.timeouts.retransmission ≤ RTO
  mtu : t.mtu = m

structure FInv (iss : SideId → Seq) (mt : SideId → U16) (s : Sys) : Prop where
  seq : ∀ x t, (s.side x).tcb = some t → ∀ σ ∈ s.history, σ.hdr.srcPort = x.port → off (iss x) σ.hdr.seq ≤ t.sent
  none : ∀ x, (s.side x).tcb = none → (∀ σ ∈ s.history, σ.hdr.srcPort ≠ x.port) ∧
    (∀ u, (s.side x.peer).tcb = some u → u.incoming.segments = [])
  heapSeq : ∀ x t u, (s.side x).tcb = some t → (s.side x.peer).tcb = some u →
    ∀ σ ∈ u.incoming.segments, off (iss x) σ.hdr.seq ≤ t.sent
  tcb : ∀ y u, (s.side y).tcb = some u → FTcb (iss y.peer) (mt y) u
  lis : ∀ y i m, (s.side y).listen = some (i, m) → m = mt y

/-! ## TCB-level frames of the local calls -/

theorem send_tmo (t : Tcb) (m : List UInt8) : (t.send m).timeouts = t.timeouts := by
  unfold send; split <;> rfl

theorem receive_tmo (t : Tcb) : t.receive.1.timeouts = t.timeouts := by
  unfold receive; split <;> rfl

theorem advanceTime_tmo (t : Tcb) (dt : Nat) (t' : Tcb) (r : AdvanceTimeResult) (e : t.advanceTime dt = .ok (t', r))
    (h : t.timeouts.retransmission ≤ RTO) : t'.timeouts.retransmission ≤ RTO := by
  unfold advanceTime at e
  cases h1 : t.advanceRetransmission dt with
  | error err => rw [h1] at e; simp at e
  | ok t1 =>
    rw [h1] at e
    dsimp only at e
    have k1 : t1.timeouts.retransmission ≤ RTO := by
      unfold advanceRetransmission at h1
      split at h1
      · cases h1; exact Nat.le_refl _
      · cases h1
        show t.timeouts.retransmission - dt ≤ RTO
        omega
    split at e
    · split at e
      · cases e; exact k1
      · cases e; exact k1
    · cases e; exact k1

theorem segmentize_tmo (m fuel : Nat) (s : Tcb) (q : Nat) (u : Tcb) (e : segmentize m fuel s q = .ok u) :
    u.timeouts = s.timeouts := by
  induction fuel generalizing s q with
  | zero => cases e; rfl
  | succ n ih =>
    rw [segmentize_succ] at e
    split at e
    · cases e; rfl
    · split at e
      · cases e
      · have := ih _ _ e
        exact this

/-- `segments()` in a connection nobody closes: the timer stays at most RTO -/
theorem segments_tmo (t t' : Tcb) (out : List Segment) (e : t.segments = .ok (t', out)) (hst : C01.Ok3 t.state)
    (h : t.timeouts.retransmission ≤ RTO) : t'.timeouts.retransmission ≤ RTO := by
  have key : ∃ v b, segmentizeIfOpen (clearOneshot t) = .ok v ∧ t' = markSent v b := by
    have e' := e
    rw [segments_eq] at e'
    cases hv : segmentizeIfOpen (clearOneshot t) with
    | error err => rw [hv] at e'; cases e'
    | ok v =>
      rw [hv] at e'
      dsimp only at e'
      have hfp : t.finPending = false := C01.Ok3.finPending hst
      rw [hfp] at e'
      unfold finIfPending at e'
      simp only [Bool.false_eq_true, if_false] at e'
      cases e'
      exact ⟨v, _, rfl, rfl⟩
  obtain ⟨v, b, hv, rfl⟩ := key
  have hw0 : v.timeouts = (clearOneshot t).timeouts := by
    unfold segmentizeIfOpen at hv
    split at hv
    all_goals first
      | (split at hv
         · cases hv
         · exact segmentize_tmo _ _ _ _ _ hv)
      | (cases hv; rfl)
  have hw : v.timeouts = t.timeouts := hw0
  unfold markSent
  split
  · show v.timeouts.retransmission ≤ RTO
    rw [hw]; exact h
  · exact Nat.le_refl _

theorem drain_mtu (fuel : Nat) : ∀ (s s' : Tcb) (r : SegmentArrivesResult), Wf s → drain fuel s = .ok (s', r) →
    s'.mtu = s.mtu := by
  induction fuel with
  | zero => intro s s' r _ e; unfold drain at e; cases e; rfl
  | succ n ih =>
    intro s s' r hw e
    unfold drain at e
    split at e
    · cases e; rfl
    · rename_i top hpeek
      split at e
      · cases e; rfl
      · obtain ⟨rest, hpop⟩ := LHeap.pop_of_peek (le := segLe) hpeek
        rw [hpop] at e
        dsimp only at e
        have hmem := LHeap.mem_of_mem_pop hpop
        have hw0 : Wf { s with incoming.segments := rest } :=
          ⟨hw.mtu_ge, hw.rcv_wnd, hw.in_text, fun g hg => hw.heap_text g (hmem.2 g hg)⟩
        obtain ⟨s1', r1', e1', rx⟩ := processSegment_spec _ top hw0 (hw.heap_text top hmem.1)
        rw [e1'] at e
        dsimp only at e
        split at e
        · cases e; exact rx.mtu
        · exact (ih s1' s' r (hw0.of_rx rx) e).trans rx.mtu

theorem segmentArrives_mtu (s : Tcb) (g : Segment) (s' : Tcb) (r : SegmentArrivesResult) (hw : Wf s)
    (hp : g.text.length ≤ MAX_PAYLOAD) (e : s.segmentArrives g = .ok (s', r)) : s'.mtu = s.mtu := by
  unfold segmentArrives at e
  dsimp only at e
  split at e
  · cases e
  · rw [enqueue_eq] at e
    cases e
    exact (enqueueBuilt_frame _ _).1
  · refine drain_mtu _ { s with incoming.segments := LHeap.push segLe s.incoming.segments g } s' r ?_ e
    exact ⟨hw.mtu_ge, hw.rcv_wnd, hw.in_text, fun x hx => by
      rcases LHeap.mem_push.1 hx with rfl | hx
      · exact hp
      · exact hw.heap_text x hx⟩

/-- the TCB LISTEN creates -/
theorem listen_created (σ : Segment) (issl : Seq) (mtu : U16) (tcb : Tcb)
    (h1 : segmentArrivesListen σ issl mtu = .ok (some (.Tcb tcb))) : tcb = listenT σ issl mtu := by
  cases hr : σ.hdr.ctl.rst with
  | true =>
    unfold segmentArrivesListen at h1
    simp [hr] at h1
  | false =>
    cases ha : σ.hdr.ctl.ack with
    | true =>
      unfold segmentArrivesListen at h1
      simp [hr, ha, Hdr.build_zero] at h1
    | false =>
      cases hs : σ.hdr.ctl.syn with
      | false =>
        unfold segmentArrivesListen at h1
        simp [hr, ha, hs] at h1
      | true =>
        rw [listen_eq σ issl mtu hr ha hs] at h1
        cases h1
        rfl

/-! ## a local call on one side -/

variable {iss : SideId → Seq} {mt : SideId → U16}

theorem finv_local (s : Sys) (h : FInv iss mt s) (x : SideId) (t t' : Tcb) (sd' : Side) (new : List Segment)
    (ht : (s.side x).tcb = some t) (hsd : sd'.tcb = some t') (hl : sd'.listen = (s.side x).listen)
    (hsent : t.sent ≤ t'.sent) (hheap : t'.incoming.segments = t.incoming.segments) (hrcv : t'.rcv = t.rcv)
    (hst : t'.state = t.state) (htmo : t'.timeouts.retransmission ≤ RTO) (hmtu : t'.mtu = t.mtu)
    (hnew : ∀ σ ∈ new, σ.hdr.srcPort = x.port ∧ off (iss x) σ.hdr.seq ≤ t'.sent) :
    FInv iss mt ((s.setSide x sd').record new) := by
  have hside : ∀ y, (((s.setSide x sd').record new).side y) = if y = x then sd' else s.side y := by
    intro y
    rw [side_record, side_setSide_if]
  have hhist : ∀ σ, σ ∈ ((s.setSide x sd').record new).history ↔ σ ∈ new ∨ σ ∈ s.history := by
    intro σ; rw [mem_history_record, history_setSide]
  have hpx : x.peer ≠ x := SideId.peer_ne x
  refine ⟨fun y u hu σ hσ hsrc => ?_, fun y hy => ?_, fun y a u ha hu σ hσ => ?_, fun y u hu => ?_, fun y i m hy => ?_⟩
  · rw [hside] at hu
    split at hu
    · rename_i hyx
      subst hyx
      rw [hsd] at hu; cases hu
      rcases (hhist σ).1 hσ with hn | ho
      · exact (hnew σ hn).2
      · exact Nat.le_trans (h.seq y t ht σ ho hsrc) hsent
    · rename_i hyx
      rcases (hhist σ).1 hσ with hn | ho
      · exfalso
        have := (hnew σ hn).1
        rw [hsrc] at this
        rcases side_cases x y with e | e
        · exact hyx e
        · rw [e] at this; exact SideId.port_ne x this
      · exact h.seq y u hu σ ho hsrc
  · rw [hside] at hy
    split at hy
    · rw [hsd] at hy; cases hy
    · rename_i hyx
      have hyp : y = x.peer := (side_cases x y).resolve_left hyx
      obtain ⟨n1, n2⟩ := h.none y hy
      refine ⟨fun σ hσ => ?_, fun u hu => ?_⟩
      · rcases (hhist σ).1 hσ with hn | ho
        · rw [(hnew σ hn).1, hyp]
          exact fun e => SideId.port_ne x e.symm
        · exact n1 σ ho
      · rw [hside, hyp, SideId.peer_peer, if_pos rfl, hsd] at hu
        cases hu
        rw [hheap]
        exact n2 t (by rw [hyp, SideId.peer_peer]; exact ht)
  · rw [hside] at ha hu
    split at ha
    · rename_i hyx
      subst hyx
      rw [hsd] at ha; cases ha
      rw [if_neg hpx] at hu
      exact Nat.le_trans (h.heapSeq y t u ht hu σ hσ) hsent
    · rename_i hyx
      have hyp : y = x.peer := (side_cases x y).resolve_left hyx
      rw [hyp, SideId.peer_peer, if_pos rfl, hsd] at hu
      cases hu
      rw [hheap] at hσ
      exact h.heapSeq y a t ha (by rw [hyp, SideId.peer_peer]; exact ht) σ hσ
  · rw [hside] at hu
    split at hu
    · rename_i hyx
      subst hyx
      rw [hsd] at hu; cases hu
      have f := h.tcb y t ht
      refine ⟨⟨by rw [hheap]; exact f.hk.win, by rw [hheap]; exact f.hk.heap⟩, fun hs g hg => ?_, htmo, hmtu.trans f.mtu⟩
      rw [hheap] at hg
      rw [hrcv]
      exact f.ahead (by rw [← hst]; exact hs) g hg
    · exact h.tcb y u hu
  · rw [hside] at hy
    split at hy
    · rename_i hyx
      subst hyx
      rw [hl] at hy
      exact h.lis y i m hy
    · exact h.lis y i m hy

theorem finv_local0 (s : Sys) (h : FInv iss mt s) (x : SideId) (t t' : Tcb) (sd' : Side)
    (ht : (s.side x).tcb = some t) (hsd : sd'.tcb = some t') (hl : sd'.listen = (s.side x).listen)
    (hsent : t.sent ≤ t'.sent) (hheap : t'.incoming.segments = t.incoming.segments) (hrcv : t'.rcv = t.rcv)
    (hst : t'.state = t.state) (htmo : t'.timeouts.retransmission ≤ RTO) (hmtu : t'.mtu = t.mtu) :
    FInv iss mt (s.setSide x sd') := by
  have := finv_local s h x t t' sd' [] ht hsd hl hsent hheap hrcv hst htmo hmtu (fun σ hσ => by cases hσ)
  rw [record_nil] at this
  exact this

/-! ## one step -/

theorem finv_step (s : Sys) (hg : Good iss s) (h : FInv iss mt s) (op : Op) (hp : Op.Plain s op) (s' : Sys) (r : Res)
    (e : s.step op = .ok (s', r)) (hg' : Good iss s') : FInv iss mt s' := by
  cases op with
  | «open» x i mtu => exact hp.elim
  | listen x i mtu => exact hp.elim
  | inject x seg => exact hp.elim
  | abort x => exact hp.elim
  | drop x => exact hp.elim
  | close x => exact hp.elim
  | write x bytes =>
    simp only [Sys.step, Op.side] at e
    split at e
    · simp only [Except.ok.injEq, Prod.mk.injEq] at e
      rw [← e.1]; exact h
    · rename_i tcb htcb
      simp only [Except.ok.injEq, Prod.mk.injEq] at e
      rw [← e.1]
      obtain ⟨fr, hs, _⟩ := send_local tcb bytes
      exact finv_local0 s h x tcb (tcb.send bytes) _ htcb rfl rfl (by rw [hs]; exact Nat.le_refl _) fr.heap fr.rcv
        (send_keep tcb bytes).state (by rw [send_tmo]; exact (h.tcb x tcb htcb).tmo) (send_same tcb bytes).1.mtu
  | read x =>
    simp only [Sys.step, Op.side] at e
    split at e
    · simp only [Except.ok.injEq, Prod.mk.injEq] at e
      rw [← e.1]; exact h
    · rename_i tcb htcb
      simp only [Except.ok.injEq, Prod.mk.injEq] at e
      rw [← e.1]
      obtain ⟨fr, hs, _⟩ := receive_local tcb
      exact finv_local0 s h x tcb tcb.receive.1 _ htcb rfl rfl (by rw [hs]; exact Nat.le_refl _) fr.heap fr.rcv
        (receive_keep tcb).state (by rw [receive_tmo]; exact (h.tcb x tcb htcb).tmo) (receive_rx tcb).1.mtu
  | tick x ms =>
    simp only [Sys.step, Op.side] at e
    split at e
    · simp only [Except.ok.injEq, Prod.mk.injEq] at e
      rw [← e.1]; exact h
    · rename_i tcb htcb
      split at e
      · simp at e
      · rename_i tcb' h1
        simp only [Except.ok.injEq, Prod.mk.injEq] at e
        rw [← e.1]
        obtain ⟨fr, hs, _⟩ := advanceTime_local tcb ms tcb' h1
        obtain ⟨t2, r2, e2, same, hst⟩ := advanceTime_spec tcb ms
        rw [h1] at e2
        cases e2
        exact finv_local0 s h x tcb tcb' _ htcb rfl rfl (by rw [hs]; exact Nat.le_refl _) fr.heap fr.rcv hst
          (advanceTime_tmo tcb ms tcb' _ h1 (h.tcb x tcb htcb).tmo) same.mtu
      · rename_i tcb' h1
        exfalso
        simp only [Except.ok.injEq, Prod.mk.injEq] at e
        have ha := hg'.conv.nr.alive x
        rw [← e.1, side_setSide_same] at ha
        simp at ha
  | emit x =>
    simp only [Sys.step, Op.side] at e
    split at e
    · simp only [Except.ok.injEq, Prod.mk.injEq] at e
      rw [← e.1]; exact h
    · rename_i tcb htcb
      split at e
      · simp at e
      · rename_i tcb' segs h1
        simp only [Except.ok.injEq, Prod.mk.injEq] at e
        have hs'x : (s'.side x).tcb = some tcb' := by rw [← e.1, side_record, side_setSide_same]
        have hroom := room_of_inv hg.conv.c01 hg.room x tcb htcb
        obtain ⟨sb, lp, rp⟩ := (hg.conv.full.inv.link x).snd tcb htcb
        obtain ⟨hiss', hmono, _, hout, _, _, _⟩ := segments_snd tcb tcb' segs h1 sb hroom
        obtain ⟨rx1, rx2⟩ := segments_rx tcb tcb' segs h1
        obtain ⟨l, hnew⟩ := segments_l tcb tcb' segs h1 (hg.conv.full.fresh x tcb htcb).fresh
        obtain ⟨t2, o2, e2, same, _⟩ := segments_spec tcb (wf_of_sysWf hg.ext.wf x tcb htcb)
        rw [h1] at e2
        cases e2
        have hst3 : C01.Ok3 tcb.state := (hg.tinv x tcb htcb).st
        have hN' := hg'.sent_lt x tcb' hs'x
        have hissx := hg.iss_eq x tcb htcb
        have hissx' := hg'.iss_eq x tcb' hs'x
        rw [← e.1]
        refine finv_local s h x tcb tcb' _ segs htcb rfl rfl hmono (by rw [rx2]) rx1 (segments_keep tcb tcb' segs h1).state
          (segments_tmo tcb tcb' segs h1 hst3 (h.tcb x tcb htcb).tmo) same.mtu (fun σ hσ => ?_)
        refine ⟨by rw [(hout σ hσ).2.1, lp], ?_⟩
        rcases hnew σ hσ with ho | ⟨tr, htr, hts⟩
        · have := ((hg.ext.tcb x tcb htcb).one σ.hdr ho).1
          rw [this]
          have : off (iss x) tcb.snd.nxt = tcb.sent := by unfold sent; rw [hissx]
          rw [this]; exact hmono
        · obtain ⟨hpos, _⟩ := (hg'.ext.tcb x tcb' hs'x).keep tr htr
          have hb := (((hg'.conv.full.inv.link x).snd tcb' hs'x).1.queue tr htr).len hpos
          rw [hissx', hts] at hb
          omega
  | deliver x i =>
    simp only [Sys.step, Op.side] at e
    split at e
    · simp only [Except.ok.injEq, Prod.mk.injEq] at e
      rw [← e.1]; exact h
    · rename_i σ hn
      obtain ⟨hsrc, hdst⟩ := hp σ hn
      have hmem : σ ∈ s.history := nth_mem s i σ hn
      have hval : C01.Valid (iss x.peer) (s.side x.peer).submitted σ := hg.conv.c01.hist σ hmem x.peer hsrc
      -- the peer has a TCB: it has sent something
      obtain ⟨tp, htp⟩ : ∃ tp, (s.side x.peer).tcb = some tp := by
        cases hq : (s.side x.peer).tcb with
        | some tp => exact ⟨tp, rfl⟩
        | none => exact absurd hsrc ((h.none x.peer hq).1 σ hmem)
      have hσseq := h.seq x.peer tp htp σ hmem hsrc
      have hNp := hg.sent_lt x.peer tp htp
      unfold Sys.arrive at e
      dsimp only at e
      split at e
      · rename_i tcb htcb
        split at e
        · simp at e
        · rename_i tcb' h1
          simp only [Except.ok.injEq, Prod.mk.injEq] at e
          rw [← e.1]
          have hsub := segmentArrives_heap_sub tcb σ tcb' .Ok h1
          have k := segmentArrives_snd tcb σ tcb' .Ok h1
          have hsent : tcb'.sent = tcb.sent := sent_congr k.iss k.nxt
          have f := h.tcb x tcb htcb
          have ti := hg.tinv x tcb htcb
          have h31 : (s.side x.peer).submitted.length + 1 < 2147483648 := by
            have := hg.room.side x.peer; omega
          obtain ⟨hk', ha'⟩ := segmentArrives_heapOk ti hval h31 (by unfold InWin; omega) f.hk f.ahead h1
          have hfin : ∀ τ ∈ tcb.incoming.segments, τ.hdr.ctl.fin = false := fun τ hτ => (ti.heap τ hτ).fin
          have hwf := wf_of_sysWf hg.ext.wf x tcb htcb
          have hpay : σ.text.length ≤ MAX_PAYLOAD := by
            have hs := hg.ext.wf
            exact (hs.hist σ hmem)
          have ftcb' : FTcb (iss x.peer) (mt x) tcb' :=
            ⟨hk', ha' rfl, by rw [segmentArrives_tmo tcb σ tcb' .Ok hval.fin hfin h1]; exact f.tmo,
              (segmentArrives_mtu tcb σ tcb' .Ok hwf hpay h1).trans f.mtu⟩
          have hpx : x.peer ≠ x := SideId.peer_ne x
          refine ⟨fun y u hu τ hτ hs => ?_, fun y hy => ?_, fun y a u ha hu τ hτ => ?_, fun y u hu => ?_, fun y i m hy => ?_⟩
          · rw [history_setSide] at hτ
            rw [side_setSide_if] at hu
            split at hu
            · rename_i hyx
              subst hyx
              cases hu
              rw [hsent]; exact h.seq y tcb htcb τ hτ hs
            · exact h.seq y u hu τ hτ hs
          · rw [side_setSide_if] at hy
            split at hy
            · cases hy
            · rename_i hyx
              have hyp : y = x.peer := (side_cases x y).resolve_left hyx
              rw [hyp, htp] at hy; cases hy
          · rw [side_setSide_if] at ha hu
            split at ha
            · rename_i hyx
              subst hyx
              cases ha
              rw [if_neg hpx] at hu
              rw [hsent]; exact h.heapSeq y tcb u htcb hu τ hτ
            · rename_i hyx
              have hyp : y = x.peer := (side_cases x y).resolve_left hyx
              rw [hyp, SideId.peer_peer, if_pos rfl] at hu
              cases hu
              have ha2 : (s.side x.peer).tcb = some a := by rw [← hyp]; exact ha
              rw [htp] at ha2; cases ha2
              rw [hyp]
              rcases List.mem_cons.1 (hsub τ hτ) with rfl | hτ'
              · exact hσseq
              · exact h.heapSeq x.peer tp tcb htp (by rw [SideId.peer_peer]; exact htcb) τ hτ'
          · rw [side_setSide_if] at hu
            split at hu
            · rename_i hyx
              subst hyx
              cases hu
              exact ftcb'
            · exact h.tcb y u hu
          · rw [side_setSide_if] at hy
            split at hy
            · rename_i hyx
              subst hyx
              exact h.lis y i m hy
            · exact h.lis y i m hy
        · rename_i h1
          exfalso
          simp only [Except.ok.injEq, Prod.mk.injEq] at e
          have ha := hg'.conv.nr.alive x
          rw [← e.1, side_setSide_same] at ha
          simp at ha
      · rename_i htcb
        split at e
        · rename_i issl mtu hlis
          split at e
          · simp at e
          · simp only [Except.ok.injEq, Prod.mk.injEq] at e
            rw [← e.1]; exact h
          · rename_i tcb h1
            simp only [Except.ok.injEq, Prod.mk.injEq] at e
            rw [← e.1]
            have hc := listen_created σ issl mtu tcb h1
            have hmt := h.lis x issl mtu hlis
            obtain ⟨n1, n2⟩ := h.none x htcb
            have hpx : x.peer ≠ x := SideId.peer_ne x
            have hheap : tcb.incoming.segments = [parkedSyn σ] := by rw [hc]; rfl
            have hseq0 : (parkedSyn σ).hdr.seq = σ.hdr.seq := rfl
            refine ⟨fun y u hu τ hτ hs => ?_, fun y hy => ?_, fun y a u ha hu τ hτ => ?_, fun y u hu => ?_, fun y i m hy => ?_⟩
            · rw [history_setSide] at hτ
              rw [side_setSide_if] at hu
              split at hu
              · rename_i hyx
                subst hyx
                exact absurd hs (n1 τ hτ)
              · exact h.seq y u hu τ hτ hs
            · rw [side_setSide_if] at hy
              split at hy
              · cases hy
              · rename_i hyx
                have hyp : y = x.peer := (side_cases x y).resolve_left hyx
                rw [hyp, htp] at hy; cases hy
            · rw [side_setSide_if] at ha hu
              split at ha
              · rename_i hyx
                subst hyx
                rw [if_neg hpx] at hu
                rw [n2 u hu] at hτ; cases hτ
              · rename_i hyx
                have hyp : y = x.peer := (side_cases x y).resolve_left hyx
                rw [hyp, SideId.peer_peer, if_pos rfl] at hu
                cases hu
                have ha2 : (s.side x.peer).tcb = some a := by rw [← hyp]; exact ha
                rw [htp] at ha2; cases ha2
                rw [hheap] at hτ
                simp only [List.mem_singleton] at hτ
                rw [hyp, hτ, hseq0]
                exact hσseq
            · rw [side_setSide_if] at hu
              split at hu
              · rename_i hyx
                subst hyx
                cases hu
                refine ⟨⟨fun g hg => ?_, ?_⟩, fun hs => ?_, ?_, ?_⟩
                · rw [hheap] at hg
                  simp only [List.mem_singleton] at hg
                  rw [hg]
                  unfold InWin
                  rw [hseq0]; omega
                · rw [hheap]; exact LHeap.isHeap_single _ _
                · rw [hc] at hs; cases hs
                · rw [hc]; exact Nat.le_refl _
                · rw [hc]; exact hmt
              · exact h.tcb y u hu
            · rw [side_setSide_if] at hy
              split at hy
              · rename_i hyx
                subst hyx
                exact h.lis y i m hy
              · exact h.lis y i m hy
          · rename_i hd h1
            -- LISTEN answers only with a RST
            exfalso
            simp only [Except.ok.injEq, Prod.mk.injEq] at e
            have hr : hd.ctl.rst = true := by
              unfold segmentArrivesListen at h1
              dsimp only at h1
              split at h1
              · cases h1
              · split at h1
                · rw [Hdr.build_zero] at h1
                  simp only [Option.map_some, Except.ok.injEq, Option.some.injEq, ListenResult.Response.injEq] at h1
                  rw [← h1]; rfl
                · split at h1
                  · rw [Tcb.enqueue_eq] at h1
                    simp at h1
                  · cases h1
            have := hg'.conv.nr.hist ⟨hd, []⟩ (by rw [← e.1, mem_history_record]; exact Or.inl (by simp))
            rw [hr] at this; cases this
        · rename_i hlis
          exfalso
          rcases hg.conv.nr.alive x with ha | ha
          · rw [htcb] at ha; cases ha
          · rw [hlis] at ha; cases ha

/-! ## runs -/

theorem finv_run {s s' : Sys} (hc : Conv iss s) (hx : Ext s) (h : FInv iss mt s) (r : PlainRun s s') (hb : RoomH s') :
    FInv iss mt s' := by
  induction r with
  | refl => exact h
  | step r1 hp e ih =>
    have hb1 := RoomH.of_run (.step (.refl _) hp e) hb
    have g1 := ext_run hc hx r1 hb1
    have g2 := ext_run hc hx (.step r1 hp e) hb
    exact finv_step _ ⟨g1.1, g1.2, hb1⟩ (ih hb1) _ hp _ _ e ⟨g2.1, g2.2, hb⟩

/-- the MTUs of the two sides as a function -/
def mtuOf (ma mb : U16) : SideId → U16
  | .A => ma
  | .B => mb

theorem ftcb_open (lp rp : U16) (i : Seq) (m : U16) (base : Seq) (t : Tcb) (e : Tcb.open lp rp i m = .ok t) :
    FTcb base m t ∧ t.incoming.segments = [] := by
  unfold Tcb.open at e
  dsimp only at e
  rw [enqueue_eq] at e
  cases e
  refine ⟨⟨⟨fun g hg => ?_, ?_⟩, fun hs => ?_, ?_, ?_⟩, ?_⟩
  · rw [(enqueueBuilt_frame _ _).2.2.2.1] at hg; cases hg
  · rw [(enqueueBuilt_frame _ _).2.2.2.1]; exact LHeap.isHeap_nil _
  · rw [(enqueueBuilt_frame _ _).2.2.2.2.1] at hs; cases hs
  · rw [(enqueueBuilt_frame _ _).2.2.2.2.2.1]; exact Nat.le_refl _
  · rw [(enqueueBuilt_frame _ _).1]
  · rw [(enqueueBuilt_frame _ _).2.2.2.1]

/-- `open A`, then `listen B` or `open B` -/
theorem finv_init (ia ib : Seq) (ma mb : U16) (simultaneous : Bool) (sys : Sys) (rs : List Res)
    (e : Sys.run {} [.open .A ia ma, if simultaneous then .open .B ib mb else .listen .B ib mb] = .ok (sys, rs)) :
    FInv (issOf ia ib) (mtuOf ma mb) sys := by
  simp only [Sys.run, Sys.step, Op.side] at e
  cases h1 : Tcb.open SideId.A.port SideId.A.peer.port ia ma with
  | error err => rw [h1] at e; simp at e
  | ok ta =>
    rw [h1] at e
    dsimp only at e
    obtain ⟨fa, ha⟩ := ftcb_open _ _ _ _ (issOf ia ib SideId.A.peer) ta h1
    cases simultaneous with
    | false =>
      simp only [Bool.false_eq_true, if_false, Except.ok.injEq, Prod.mk.injEq] at e
      rw [← e.1]
      refine ⟨fun x t ht σ hσ => (by cases hσ), fun x hx => ⟨fun σ hσ => (by cases hσ), fun u hu => ?_⟩,
        fun x t u ht hu σ hσ => ?_, fun y u hu => ?_, fun y i m hy => ?_⟩
      · cases x with
        | A => cases hx
        | B => cases hu; exact ha
      · cases x with
        | A => cases hu
        | B => cases ht
      · cases y with
        | A => cases hu; exact fa
        | B => cases hu
      · cases y with
        | A => cases hy
        | B => cases hy; rfl
    | true =>
      simp only [if_true] at e
      cases h2 : Tcb.open SideId.B.port SideId.B.peer.port ib mb with
      | error err => rw [h2] at e; simp at e
      | ok tb =>
        rw [h2] at e
        simp only [Except.ok.injEq, Prod.mk.injEq] at e
        obtain ⟨fb, hb⟩ := ftcb_open _ _ _ _ (issOf ia ib SideId.B.peer) tb h2
        rw [← e.1]
        refine ⟨fun x t ht σ hσ => (by cases hσ), fun x hx => ?_,
          fun x t u ht hu σ hσ => ?_, fun y u hu => ?_, fun y i m hy => ?_⟩
        · cases x with
          | A => cases hx
          | B => cases hx
        · cases x with
          | A => cases hu; rw [hb] at hσ; cases hσ
          | B => cases hu; rw [ha] at hσ; cases hσ
        · cases y with
          | A => cases hu; exact fa
          | B => cases hu; exact fb
        · cases y with
          | A => cases hy
          | B => cases hy

end Elvis.Tcp.Full
