import ElvisVerif.Lemmas.TcpFullRank
/-!
# The handshake states, TCB level

* `processSegment_sup`: while the TCB stays in SYN-SENT / SYN-RECEIVED nothing leaves its retransmission queue
  (`Sup`): the SYN / SYN-ACK stays queued until the state is ESTABLISHED.
* `processSegment_srkeep`: while it stays in SYN-RECEIVED, `RCV.*` and the receive buffer do not change (a segment with
  text carries the ACK bit, and an acceptable ACK moves the state to ESTABLISHED).
* `proc_trigger`: in SYN-RECEIVED an acceptable segment with an ACK field in `(ISS, SND.NXT]` moves to ESTABLISHED.
* `proc_ss_syn`: in SYN-SENT a SYN-bearing segment without RST leaves SYN-SENT (or a RST is queued).
-/
namespace Elvis.Tcp.Full
open Elvis.ModCmp Elvis.Tcp.Tcb

/-- nothing leaves the retransmission queue -/
def Sup (t t' : Tcb) : Prop := ∀ tr ∈ t.outgoing.retransmit, tr ∈ t'.outgoing.retransmit

theorem Sup.refl (t : Tcb) : Sup t t := fun _ h => h
theorem Sup.trans {a b c : Tcb} (h1 : Sup a b) (h2 : Sup b c) : Sup a c := fun tr h => h2 tr (h1 tr h)

theorem sup_enq (t : Tcb) (hd : Hdr) : Sup t (t.enqueueBuilt hd) := by
  unfold enqueueBuilt
  split
  · intro tr h
    show tr ∈ t.outgoing.retransmit ++ _
    exact List.mem_append_left _ h
  · exact fun _ h => h

theorem seqCheck_sup (s : Tcb) (seg : Hdr) (tl : Seq) (s' : Tcb) (r : Option ProcessSegmentResult)
    (e : seqCheck s seg tl = .ok (s', r)) : Sup s s' := by
  unfold seqCheck at e
  split at e
  · cases e; exact Sup.refl _
  · split at e
    · cases e
    · cases e; exact Sup.refl _
    · rw [enqueueThen_eq] at e; cases e; exact sup_enq _ _

theorem synBlock_sup (s : Tcb) (seg : Hdr) (s' : Tcb) (r : Option ProcessSegmentResult)
    (e : synBlock s seg = .ok (s', r)) : Sup s s' := by
  unfold synBlock at e
  split at e
  · split at e <;> (cases e; exact Sup.refl _)
  · split at e
    · dsimp only at e
      split at e
      · rw [enqueueThen_eq] at e; cases e
        exact fun tr h => sup_enq _ _ tr h
      · rw [enqueueThen_eq] at e; cases e
        exact fun tr h => sup_enq _ _ tr h
    · rw [enqueueThen_eq] at e; cases e; exact sup_enq _ _

theorem textBlock_sup (s : Tcb) (seg : Hdr) (text : List UInt8) (tl : Seq) (s' : Tcb)
    (r : Option ProcessSegmentResult) (e : textBlock s seg text tl = .ok (s', r)) : Sup s s' := by
  unfold textBlock at e
  split at e
  · cases e; exact Sup.refl _
  · split at e
    all_goals first
      | (cases e; exact Sup.refl _)
      | (dsimp only at e
         repeat' (split at e)
         all_goals first
           | (simp at e; done)
           | (rw [enqueueThen_eq] at e
              cases e
              exact fun tr h => sup_enq _ _ tr h))

/-- what block 2 does to the queue: nothing leaves, or (SYN-SENT, SYN-ACK) `SND.UNA := SEG.ACK`, or the state is
    beyond SYN-RECEIVED -/
theorem ackBlock_supx (s : Tcb) (seg : Hdr) (s' : Tcb) (r : Option ProcessSegmentResult)
    (e : ackBlock s seg = .ok (s', r)) :
    Sup s s' ∨
    (s.state = .SynSent ∧ seg.ctl.syn = true ∧ seg.ctl.ack = true ∧ s'.state = .SynSent ∧ s'.snd.una = seg.ack ∧
      s'.snd.iss = s.snd.iss ∧ r = none) ∨
    (s'.state ≠ .SynSent ∧ s'.state ≠ .SynReceived) := by
  unfold ackBlock at e
  split at e
  · cases e; exact Or.inl (Sup.refl _)
  · rename_i hack
    have hack' : seg.ctl.ack = true := by simpa using hack
    have late : ∀ (t s1 : Tcb) (r1 : ProcessSegmentResult), t.ackEstablishedProcessing seg = .ok (s1, r1) →
        s1.state = t.state := fun t s1 r1 e1 => (ackEst_cases t seg s1 r1 e1).1
    split at e
    · -- SYN-SENT
      rename_i hst
      split at e
      · split at e
        · cases e; exact Or.inl (Sup.refl _)
        · rw [enqueueThen_eq] at e; cases e; exact Or.inl (sup_enq _ _)
      · split at e
        · split at e
          · rename_i hsyn
            cases e
            exact Or.inr (Or.inl ⟨hst, hsyn, hack', hst, rfl, rfl, rfl⟩)
          · cases e; exact Or.inl (Sup.refl _)
        · rw [enqueueThen_eq] at e; cases e; exact Or.inl (sup_enq _ _)
    · -- SYN-RECEIVED
      split at e
      · obtain ⟨s1, r1, e1, e2⟩ := afterAck_inv _ _ _ _ e
        have h1 := late _ s1 r1 e1
        have : s' = s1 := by split at e2 <;> (cases e2; rfl)
        rw [this]
        right; right
        have h1' : s1.state = .Established := h1
        rw [h1']; exact ⟨by simp, by simp⟩
      · rw [enqueueThen_eq] at e; cases e; exact Or.inl (sup_enq _ _)
    iterate 3
      · rename_i hst
        obtain ⟨s1, r1, e1, e2⟩ := afterAck_inv _ _ _ _ e
        have h1 := late _ s1 r1 e1
        have : s' = s1 := by split at e2 <;> (cases e2; rfl)
        rw [this]
        right; right
        rw [h1, hst]; exact ⟨by simp, by simp⟩
    · -- FIN-WAIT-1
      rename_i hst
      obtain ⟨s1, r1, e1, e2⟩ := afterAck_inv _ _ _ _ e
      have h1 := late _ s1 r1 e1
      dsimp only at e2
      right; right
      split at e2 <;> split at e2 <;> cases e2
      all_goals refine ⟨?_, ?_⟩
      all_goals first | (intro h; rw [h1, hst] at h; cases h) | (intro h; cases h)
    · -- CLOSING
      rename_i hst
      obtain ⟨s1, r1, e1, e2⟩ := afterAck_inv _ _ _ _ e
      have h1 := late _ s1 r1 e1
      dsimp only at e2
      right; right
      split at e2 <;> split at e2 <;> cases e2
      all_goals refine ⟨?_, ?_⟩
      all_goals first | (intro h; rw [h1, hst] at h; cases h) | (intro h; cases h)
    · -- LAST-ACK
      rename_i hst
      obtain ⟨s1, r1, e1, e2⟩ := afterAck_inv _ _ _ _ e
      have h1 := late _ s1 r1 e1
      have : s' = s1 := by
        split at e2
        · cases e2; rfl
        · split at e2 <;> (cases e2; rfl)
      rw [this]
      right; right
      rw [h1, hst]; exact ⟨by simp, by simp⟩
    · rename_i hst
      cases e
      right; right
      rw [hst]; exact ⟨by simp, by simp⟩

/-- block 4 in SYN-SENT on a SYN with `SND.UNA` past ISS: ESTABLISHED -/
theorem synBlock_ss_est (s : Tcb) (seg : Hdr) (s' : Tcb) (r : Option ProcessSegmentResult)
    (e : synBlock s seg = .ok (s', r)) (hs : s.state = .SynSent) (hsyn : seg.ctl.syn = true)
    (hgt : modGt s.snd.una s.snd.iss = true) : s'.state = .Established := by
  unfold synBlock at e
  rw [if_neg (by simp [hsyn])] at e
  split at e
  · dsimp only at e
    rw [if_pos hgt] at e
    rw [enqueueThen_eq] at e
    cases e
    rw [(enqueueBuilt_frame _ _).2.2.2.2.1]
  · rename_i hns
    exact (hns hs).elim

/-- later blocks keep a state that is neither SYN-SENT nor changes by itself: blocks 3–6 on a segment without RST / FIN -/
theorem blocks36_state (t2 : Tcb) (g : Segment) (s' : Tcb) (r : ProcessSegmentResult)
    (hns : t2.state ≠ .SynSent) (hfin : g.hdr.ctl.fin = false)
    (e : (match ((((rstBlock t2 g.hdr).andThen fun s => synBlock s g.hdr).andThen fun s =>
        textBlock s g.hdr g.text (BitVec.ofNat 32 g.text.length)).andThen fun s =>
        finBlock s g.hdr (BitVec.ofNat 32 g.text.length)) with
      | .error e => .error e
      | .ok (s, some r) => .ok (s, r)
      | .ok (s, none) => .ok (s, .Success) : M ProcessSegmentResult) = .ok (s', r)) :
    s'.state = t2.state := by
  cases h3 : rstBlock t2 g.hdr with
  | error x => rw [h3] at e; simp [B.andThen] at e
  | ok p3 =>
    obtain ⟨t3, r3⟩ := p3
    rw [h3] at e
    have e3 : t3 = t2 := C01.rstBlock_eq h3
    subst e3
    cases r3 with
    | some r3 => simp only [andThen_some, Except.ok.injEq, Prod.mk.injEq] at e; rw [← e.1]
    | none =>
      simp only [andThen_none] at e
      cases h4 : synBlock t3 g.hdr with
      | error x => rw [h4] at e; simp [B.andThen] at e
      | ok p4 =>
        obtain ⟨t4, r4⟩ := p4
        rw [h4] at e
        have st4 : t4.state = t3.state := by
          rcases (synBlock_rcv _ _ _ _ h4).1 with ⟨_, h⟩ | ⟨h, _⟩
          · exact h
          · exact absurd h hns
        cases r4 with
        | some r4 => simp only [andThen_some, Except.ok.injEq, Prod.mk.injEq] at e; rw [← e.1]; exact st4
        | none =>
          simp only [andThen_none] at e
          cases h5 : textBlock t4 g.hdr g.text (BitVec.ofNat 32 g.text.length) with
          | error x => rw [h5] at e; simp [B.andThen] at e
          | ok p5 =>
            obtain ⟨t5, r5⟩ := p5
            rw [h5] at e
            have st5 : t5.state = t4.state := (textBlock_edges _ _ _ _ _ _ h5).1.state
            cases r5 with
            | some r5 =>
              simp only [andThen_some, Except.ok.injEq, Prod.mk.injEq] at e; rw [← e.1]; exact st5.trans st4
            | none =>
              simp only [andThen_none] at e
              cases h6 : finBlock t5 g.hdr (BitVec.ofNat 32 g.text.length) with
              | error x => rw [h6] at e; simp at e
              | ok p6 =>
                obtain ⟨t6, r6⟩ := p6
                rw [h6] at e
                have e6 : t6 = t5 := C01.finBlock_eq hfin h6
                subst e6
                cases r6 <;>
                  (simp only [Except.ok.injEq, Prod.mk.injEq] at e; rw [← e.1]; exact st5.trans st4)

/-- blocks 3–6 do not take anything off the retransmission queue -/
theorem blocks36_sup (t2 : Tcb) (g : Segment) (s' : Tcb) (r : ProcessSegmentResult) (hfin : g.hdr.ctl.fin = false)
    (e : (match ((((rstBlock t2 g.hdr).andThen fun s => synBlock s g.hdr).andThen fun s =>
        textBlock s g.hdr g.text (BitVec.ofNat 32 g.text.length)).andThen fun s =>
        finBlock s g.hdr (BitVec.ofNat 32 g.text.length)) with
      | .error e => .error e
      | .ok (s, some r) => .ok (s, r)
      | .ok (s, none) => .ok (s, .Success) : M ProcessSegmentResult) = .ok (s', r)) :
    Sup t2 s' := by
  cases h3 : rstBlock t2 g.hdr with
  | error x => rw [h3] at e; simp [B.andThen] at e
  | ok p3 =>
    obtain ⟨t3, r3⟩ := p3
    rw [h3] at e
    have e3 : t3 = t2 := C01.rstBlock_eq h3
    subst e3
    cases r3 with
    | some r3 => simp only [andThen_some, Except.ok.injEq, Prod.mk.injEq] at e; rw [← e.1]; exact Sup.refl _
    | none =>
      simp only [andThen_none] at e
      cases h4 : synBlock t3 g.hdr with
      | error x => rw [h4] at e; simp [B.andThen] at e
      | ok p4 =>
        obtain ⟨t4, r4⟩ := p4
        rw [h4] at e
        have u4 := synBlock_sup _ _ _ _ h4
        cases r4 with
        | some r4 => simp only [andThen_some, Except.ok.injEq, Prod.mk.injEq] at e; rw [← e.1]; exact u4
        | none =>
          simp only [andThen_none] at e
          cases h5 : textBlock t4 g.hdr g.text (BitVec.ofNat 32 g.text.length) with
          | error x => rw [h5] at e; simp [B.andThen] at e
          | ok p5 =>
            obtain ⟨t5, r5⟩ := p5
            rw [h5] at e
            have u5 := u4.trans (textBlock_sup _ _ _ _ _ _ h5)
            cases r5 with
            | some r5 => simp only [andThen_some, Except.ok.injEq, Prod.mk.injEq] at e; rw [← e.1]; exact u5
            | none =>
              simp only [andThen_none] at e
              cases h6 : finBlock t5 g.hdr (BitVec.ofNat 32 g.text.length) with
              | error x => rw [h6] at e; simp at e
              | ok p6 =>
                obtain ⟨t6, r6⟩ := p6
                rw [h6] at e
                have e6 : t6 = t5 := C01.finBlock_eq hfin h6
                subst e6
                cases r6 <;> (simp only [Except.ok.injEq, Prod.mk.injEq] at e; rw [← e.1]; exact u5)

/-- blocks 3–6 from SYN-SENT on a SYN (no RST, no FIN) with `SND.UNA` past ISS: ESTABLISHED -/
theorem blocks36_ss_est (t2 : Tcb) (g : Segment) (s' : Tcb) (r : ProcessSegmentResult)
    (hs : t2.state = .SynSent) (hsyn : g.hdr.ctl.syn = true) (hrst : g.hdr.ctl.rst = false)
    (hfin : g.hdr.ctl.fin = false) (hgt : modGt t2.snd.una t2.snd.iss = true)
    (e : (match ((((rstBlock t2 g.hdr).andThen fun s => synBlock s g.hdr).andThen fun s =>
        textBlock s g.hdr g.text (BitVec.ofNat 32 g.text.length)).andThen fun s =>
        finBlock s g.hdr (BitVec.ofNat 32 g.text.length)) with
      | .error e => .error e
      | .ok (s, some r) => .ok (s, r)
      | .ok (s, none) => .ok (s, .Success) : M ProcessSegmentResult) = .ok (s', r)) :
    s'.state = .Established := by
  have h3 : rstBlock t2 g.hdr = .ok (t2, none) := by
    unfold rstBlock
    rw [if_pos (by simp [hrst])]
  rw [h3] at e
  simp only [andThen_none] at e
  cases h4 : synBlock t2 g.hdr with
  | error x => rw [h4] at e; simp [B.andThen] at e
  | ok p4 =>
    obtain ⟨t4, r4⟩ := p4
    rw [h4] at e
    have st4 := synBlock_ss_est _ _ _ _ h4 hs hsyn hgt
    cases r4 with
    | some r4 => simp only [andThen_some, Except.ok.injEq, Prod.mk.injEq] at e; rw [← e.1]; exact st4
    | none =>
      simp only [andThen_none] at e
      cases h5 : textBlock t4 g.hdr g.text (BitVec.ofNat 32 g.text.length) with
      | error x => rw [h5] at e; simp [B.andThen] at e
      | ok p5 =>
        obtain ⟨t5, r5⟩ := p5
        rw [h5] at e
        have st5 : t5.state = .Established := ((textBlock_edges _ _ _ _ _ _ h5).1.state).trans st4
        cases r5 with
        | some r5 => simp only [andThen_some, Except.ok.injEq, Prod.mk.injEq] at e; rw [← e.1]; exact st5
        | none =>
          simp only [andThen_none] at e
          cases h6 : finBlock t5 g.hdr (BitVec.ofNat 32 g.text.length) with
          | error x => rw [h6] at e; simp at e
          | ok p6 =>
            obtain ⟨t6, r6⟩ := p6
            rw [h6] at e
            have e6 : t6 = t5 := C01.finBlock_eq hfin h6
            subst e6
            cases r6 <;> (simp only [Except.ok.injEq, Prod.mk.injEq] at e; rw [← e.1]; exact st5)

/-- **while the TCB stays in SYN-SENT / SYN-RECEIVED nothing leaves its retransmission queue** -/
theorem processSegment_sup {iss : Seq} (t : Tcb) (g : Segment) (t' : Tcb) (r : ProcessSegmentResult)
    (e : t.processSegment g = .ok (t', r)) (hiss : t.snd.iss = iss)
    (ha : g.hdr.ctl.ack = true → 1 ≤ off iss g.hdr.ack ∧ off iss g.hdr.ack < 2147483648)
    (hrst : g.hdr.ctl.rst = false) (hfin : g.hdr.ctl.fin = false)
    (hst : t'.state = .SynSent ∨ t'.state = .SynReceived) : Sup t t' := by
  unfold processSegment at e
  dsimp only at e
  cases h1 : seqCheck t g.hdr (BitVec.ofNat 32 g.text.length) with
  | error x => rw [h1] at e; simp [B.andThen] at e
  | ok p1 =>
    obtain ⟨t1, r1⟩ := p1
    rw [h1] at e
    have u1 := seqCheck_sup _ _ _ _ _ h1
    cases r1 with
    | some r1 => simp only [andThen_some, Except.ok.injEq, Prod.mk.injEq] at e; rw [← e.1]; exact u1
    | none =>
      have e1 : t1 = t := C01.seqCheck_none h1
      subst e1
      simp only [andThen_none] at e
      cases h2 : ackBlock t1 g.hdr with
      | error x => rw [h2] at e; simp [B.andThen] at e
      | ok p2 =>
        obtain ⟨t2, r2⟩ := p2
        rw [h2] at e
        rcases ackBlock_supx _ _ _ _ h2 with u2 | ⟨hs, hsyn, hack, hs2, hu2, hi2, hr2⟩ | ⟨n1, n2⟩
        · cases r2 with
          | some r2 => simp only [andThen_some, Except.ok.injEq, Prod.mk.injEq] at e; rw [← e.1]; exact u2
          | none =>
            simp only [andThen_none] at e
            exact u2.trans (blocks36_sup t2 g t' r hfin e)
        · subst hr2
          simp only [andThen_none] at e
          exfalso
          obtain ⟨a1, a2⟩ := ha hack
          have hgt : modGt t2.snd.una t2.snd.iss = true := by
            rw [hu2, hi2, hiss]
            exact (modGt_iff_off iss g.hdr.ack iss a2 (by rw [off_self]; omega)).2 (by rw [off_self]; omega)
          have := blocks36_ss_est t2 g t' r hs2 hsyn hrst hfin hgt e
          rcases hst with h | h <;> (rw [this] at h; cases h)
        · exfalso
          cases r2 with
          | some r2 =>
            simp only [andThen_some, Except.ok.injEq, Prod.mk.injEq] at e
            rw [← e.1] at hst
            rcases hst with h | h
            · exact n1 h
            · exact n2 h
          | none =>
            simp only [andThen_none] at e
            have := blocks36_state t2 g t' r n1 hfin e
            rw [this] at hst
            rcases hst with h | h
            · exact n1 h
            · exact n2 h

/-! ## SYN-RECEIVED -/

/-- block 2 in SYN-RECEIVED on an ACK field in `(SND.UNA, SND.NXT]`: ESTABLISHED -/
theorem ackBlock_sr_flips (s : Tcb) (seg : Hdr) (s' : Tcb) (r : Option ProcessSegmentResult)
    (e : ackBlock s seg = .ok (s', r)) (hst : s.state = .SynReceived) (hack : seg.ctl.ack = true)
    (hb : modBounded s.snd.una .Lt seg.ack .Leq s.snd.nxt = true) : s'.state = .Established := by
  unfold ackBlock at e
  rw [if_neg (by simp [hack]), hst] at e
  dsimp only at e
  rw [if_pos hb] at e
  obtain ⟨s1, r1, e1, e2⟩ := afterAck_inv _ _ _ _ e
  have h1 := (ackEst_cases _ seg s1 r1 e1).1
  have : s' = s1 := by split at e2 <;> (cases e2; rfl)
  rw [this, h1]

/-- blocks 3–6 on a text-free segment (no FIN) outside SYN-SENT: a frame step -/
theorem blocks36_fr_notext (t2 : Tcb) (g : Segment) (s' : Tcb) (r : ProcessSegmentResult)
    (hns : t2.state ≠ .SynSent) (htxt : g.text = []) (hfin : g.hdr.ctl.fin = false)
    (e : (match ((((rstBlock t2 g.hdr).andThen fun s => synBlock s g.hdr).andThen fun s =>
        textBlock s g.hdr g.text (BitVec.ofNat 32 g.text.length)).andThen fun s =>
        finBlock s g.hdr (BitVec.ofNat 32 g.text.length)) with
      | .error e => .error e
      | .ok (s, some r) => .ok (s, r)
      | .ok (s, none) => .ok (s, .Success) : M ProcessSegmentResult) = .ok (s', r)) :
    C01.Fr t2 s' := by
  cases h3 : rstBlock t2 g.hdr with
  | error x => rw [h3] at e; simp [B.andThen] at e
  | ok p3 =>
    obtain ⟨t3, r3⟩ := p3
    rw [h3] at e
    have e3 : t3 = t2 := C01.rstBlock_eq h3
    subst e3
    cases r3 with
    | some r3 => simp only [andThen_some, Except.ok.injEq, Prod.mk.injEq] at e; rw [← e.1]; exact C01.Fr.refl _
    | none =>
      simp only [andThen_none] at e
      cases h4 : synBlock t3 g.hdr with
      | error x => rw [h4] at e; simp [B.andThen] at e
      | ok p4 =>
        obtain ⟨t4, r4⟩ := p4
        rw [h4] at e
        have f4 := C01.synBlock_fr hns h4
        cases r4 with
        | some r4 => simp only [andThen_some, Except.ok.injEq, Prod.mk.injEq] at e; rw [← e.1]; exact f4
        | none =>
          simp only [andThen_none] at e
          have h5 : textBlock t4 g.hdr g.text (BitVec.ofNat 32 g.text.length) = .ok (t4, none) := by
            unfold textBlock
            rw [if_pos (by rw [htxt]; rfl)]
          rw [h5] at e
          simp only [andThen_none] at e
          cases h6 : finBlock t4 g.hdr (BitVec.ofNat 32 g.text.length) with
          | error x => rw [h6] at e; simp at e
          | ok p6 =>
            obtain ⟨t6, r6⟩ := p6
            rw [h6] at e
            have e6 : t6 = t4 := C01.finBlock_eq hfin h6
            subst e6
            cases r6 <;> (simp only [Except.ok.injEq, Prod.mk.injEq] at e; rw [← e.1]; exact f4)

/-- **while the TCB stays in SYN-RECEIVED the receive side does not move** -/
theorem processSegment_srkeep {iss : Seq} {N : Nat} (hN : N < 2147483648) (t : Tcb) (g : Segment) (t' : Tcb)
    (r : ProcessSegmentResult) (e : t.processSegment g = .ok (t', r)) (hst : t.state = .SynReceived)
    (hiss : t.snd.iss = iss) (hsent : t.sent = N) (hu : t.snd.una = t.snd.iss)
    (ha : g.hdr.ctl.ack = true → 1 ≤ off iss g.hdr.ack ∧ off iss g.hdr.ack ≤ N)
    (hta : g.text ≠ [] → g.hdr.ctl.ack = true) (hfin : g.hdr.ctl.fin = false)
    (hst' : t'.state = .SynReceived) : t'.rcv = t.rcv ∧ t'.incoming = t.incoming := by
  have hns : t.state ≠ .SynSent := by rw [hst]; simp
  unfold processSegment at e
  dsimp only at e
  cases h1 : seqCheck t g.hdr (BitVec.ofNat 32 g.text.length) with
  | error x => rw [h1] at e; simp [B.andThen] at e
  | ok p1 =>
    obtain ⟨t1, r1⟩ := p1
    rw [h1] at e
    have f1 := C01.seqCheck_fr h1
    cases r1 with
    | some r1 =>
      simp only [andThen_some, Except.ok.injEq, Prod.mk.injEq] at e; rw [← e.1]; exact ⟨f1.rcv, f1.inc⟩
    | none =>
      have e1 : t1 = t := C01.seqCheck_none h1
      subst e1
      simp only [andThen_none] at e
      cases hab : g.hdr.ctl.ack with
      | false =>
        have h2 : ackBlock t1 g.hdr = .ok (t1, none) := by
          unfold ackBlock
          rw [if_pos (by simp [hab])]
        rw [h2] at e
        simp only [andThen_none] at e
        have htxt : g.text = [] := by
          cases hl : g.text with
          | nil => rfl
          | cons a l =>
            have := hta (by rw [hl]; simp)
            rw [hab] at this; cases this
        have f := blocks36_fr_notext t1 g t' r hns htxt hfin e
        exact ⟨f.rcv, f.inc⟩
      | true =>
        exfalso
        obtain ⟨a1, a2⟩ := ha hab
        have hsentN : off iss t1.snd.nxt = N := by rw [← hsent, ← hiss]; rfl
        have hb : modBounded t1.snd.una .Lt g.hdr.ack .Leq t1.snd.nxt = true :=
          bounded_of_off iss _ _ _ (by omega) (by rw [hu, hiss, off_self]; omega) (by omega)
        cases h2 : ackBlock t1 g.hdr with
        | error x => rw [h2] at e; simp [B.andThen] at e
        | ok p2 =>
          obtain ⟨t2, r2⟩ := p2
          rw [h2] at e
          have st2 := ackBlock_sr_flips _ _ _ _ h2 hst hab hb
          cases r2 with
          | some r2 =>
            simp only [andThen_some, Except.ok.injEq, Prod.mk.injEq] at e
            rw [← e.1, st2] at hst'; cases hst'
          | none =>
            simp only [andThen_none] at e
            have := blocks36_state t2 g t' r (by rw [st2]; simp) hfin e
            rw [this, st2] at hst'; cases hst'

/-- **in SYN-RECEIVED an acceptable segment with an ACK field in `(ISS, SND.NXT]` moves to ESTABLISHED** -/
theorem proc_trigger {iss : Seq} {N : Nat} (hN : N < 2147483648) (t : Tcb) (g : Segment) (t' : Tcb)
    (r : ProcessSegmentResult) (e : t.processSegment g = .ok (t', r)) (hst : t.state = .SynReceived)
    (hiss : t.snd.iss = iss) (hsent : t.sent = N) (hu : t.snd.una = t.snd.iss)
    (hab : g.hdr.ctl.ack = true) (ha : 1 ≤ off iss g.hdr.ack ∧ off iss g.hdr.ack ≤ N) (hfin : g.hdr.ctl.fin = false)
    (hok : t.isSeqOk (BitVec.ofNat 32 g.text.length) g.hdr.seq g.hdr.ctl.syn g.hdr.ctl.fin = .ok true) :
    t'.state = .Established := by
  have hns : t.state ≠ .SynSent := by rw [hst]; simp
  have h1 := C01.seqCheck_pass (seg := g.hdr) hns hok
  unfold processSegment at e
  dsimp only at e
  rw [h1] at e
  simp only [andThen_none] at e
  obtain ⟨a1, a2⟩ := ha
  have hsentN : off iss t.snd.nxt = N := by rw [← hsent, ← hiss]; rfl
  have hb : modBounded t.snd.una .Lt g.hdr.ack .Leq t.snd.nxt = true :=
    bounded_of_off iss _ _ _ (by omega) (by rw [hu, hiss, off_self]; omega) (by omega)
  cases h2 : ackBlock t g.hdr with
  | error x => rw [h2] at e; simp [B.andThen] at e
  | ok p2 =>
    obtain ⟨t2, r2⟩ := p2
    rw [h2] at e
    have st2 := ackBlock_sr_flips _ _ _ _ h2 hst hab hb
    cases r2 with
    | some r2 =>
      simp only [andThen_some, Except.ok.injEq, Prod.mk.injEq] at e
      rw [← e.1]; exact st2
    | none =>
      simp only [andThen_none] at e
      rw [blocks36_state t2 g t' r (by rw [st2]; simp) hfin e]; exact st2

/-! ## SYN-SENT -/

/-- **in SYN-SENT a SYN-bearing segment without RST leaves SYN-SENT** (or a RST is queued for its ACK field) -/
theorem proc_ss_syn (t : Tcb) (g : Segment) (t' : Tcb) (r : ProcessSegmentResult)
    (e : t.processSegment g = .ok (t', r)) (hst : t.state = .SynSent) (hsyn : g.hdr.ctl.syn = true)
    (hrst : g.hdr.ctl.rst = false) (hfin : g.hdr.ctl.fin = false) :
    t'.state ≠ .SynSent ∨ ∃ h ∈ t'.outgoing.oneshot, h.ctl.rst = true := by
  have h1 : seqCheck t g.hdr (BitVec.ofNat 32 g.text.length) = .ok (t, none) := by
    unfold seqCheck; rw [hst]
  unfold processSegment at e
  dsimp only at e
  rw [h1] at e
  simp only [andThen_none] at e
  -- block 2: falls through in SYN-SENT, or queues a RST and returns
  have key : (∃ t2, ackBlock t g.hdr = .ok (t2, none) ∧ t2.state = .SynSent) ∨
      (∃ x, ackBlock t g.hdr = .ok (t.enqueueBuilt (t.rstForAck g.hdr).built, some x)) := by
    unfold ackBlock
    split
    · exact Or.inl ⟨t, rfl, hst⟩
    · rw [hst]
      dsimp only
      split
      · rw [if_neg (by simp [hrst]), enqueueThen_eq]
        exact Or.inr ⟨_, rfl⟩
      · split
        · exact Or.inl ⟨_, rfl, rfl⟩
        · rw [enqueueThen_eq]
          exact Or.inr ⟨_, rfl⟩
  rcases key with ⟨t2, h2, st2⟩ | ⟨x, h2⟩
  · rw [h2] at e
    simp only [andThen_none] at e
    left
    have h3 : rstBlock t2 g.hdr = .ok (t2, none) := by
      unfold rstBlock
      rw [if_pos (by simp [hrst])]
    rw [h3] at e
    simp only [andThen_none] at e
    cases h4 : synBlock t2 g.hdr with
    | error x => rw [h4] at e; simp [B.andThen] at e
    | ok p4 =>
      obtain ⟨t4, r4⟩ := p4
      rw [h4] at e
      have st4 : t4.state ≠ .SynSent := by
        rcases (synBlock_rcv _ _ _ _ h4).1 with ⟨_, h⟩ | ⟨_, _, _, h⟩
        · -- the state is kept only without SYN
          exfalso
          unfold synBlock at h4
          rw [if_neg (by simp [hsyn]), st2] at h4
          dsimp only at h4
          split at h4 <;> (rw [enqueueThen_eq] at h4; cases h4; rw [(enqueueBuilt_frame _ _).2.2.2.2.1] at h; rw [st2] at h; cases h)
        · exact h
      cases r4 with
      | some r4 => simp only [andThen_some, Except.ok.injEq, Prod.mk.injEq] at e; rw [← e.1]; exact st4
      | none =>
        simp only [andThen_none] at e
        cases h5 : textBlock t4 g.hdr g.text (BitVec.ofNat 32 g.text.length) with
        | error x => rw [h5] at e; simp [B.andThen] at e
        | ok p5 =>
          obtain ⟨t5, r5⟩ := p5
          rw [h5] at e
          have st5 : t5.state = t4.state := (textBlock_edges _ _ _ _ _ _ h5).1.state
          cases r5 with
          | some r5 =>
            simp only [andThen_some, Except.ok.injEq, Prod.mk.injEq] at e; rw [← e.1, st5]; exact st4
          | none =>
            simp only [andThen_none] at e
            cases h6 : finBlock t5 g.hdr (BitVec.ofNat 32 g.text.length) with
            | error x => rw [h6] at e; simp at e
            | ok p6 =>
              obtain ⟨t6, r6⟩ := p6
              rw [h6] at e
              have e6 : t6 = t5 := C01.finBlock_eq hfin h6
              subst e6
              cases r6 <;> (simp only [Except.ok.injEq, Prod.mk.injEq] at e; rw [← e.1, st5]; exact st4)
  · rw [h2] at e
    simp only [andThen_some, Except.ok.injEq, Prod.mk.injEq] at e
    right
    rw [← e.1, enqueueBuilt_plain _ _ rfl rfl]
    exact ⟨(t.rstForAck g.hdr).built, by simp, rfl⟩

end Elvis.Tcp.Full
