import ElvisVerif.Lemmas.TcpFullHsProg
/-!
# What a side emits after its retransmission timer expired, in the handshake states

`batch_syn`: in SYN-SENT / SYN-RECEIVED the batch contains the SYN / SYN-ACK that is still on the queue; in
SYN-RECEIVED the SYN-ACK is a trigger for the peer.  `batch_trig`: an ESTABLISHED side whose peer is in SYN-RECEIVED
emits a trigger (its first unacknowledged data segment, its first new data segment, or a pure ACK — all numbered
`ISS + 1`) unless it emits nothing.  `ne_quiet`: a non-empty one-shot queue stays non-empty under deliveries and reads.
-/
namespace Elvis.Tcp.Full
open Elvis.ModCmp Elvis.Tcp.Tcb

variable {iss : SideId → Seq} {mt : SideId → U16}

/-- flagged queue entries are emitted -/
theorem mem_out_of_rtx {t t' : Tcb} {new : List Transmit} {out : List Segment} (fx : EmitFx t new t' out)
    (tr : Transmit) (htr : tr ∈ t.outgoing.retransmit ++ new) (hf : tr.needsTransmit = true) : tr.segment ∈ out := by
  rw [fx.out]
  exact List.mem_append_right _ (List.mem_map.2 ⟨tr, List.mem_filter.2 ⟨htr, hf⟩, rfl⟩)

theorem emitFx_of_segments {s : Sys} (a : All iss mt s) (hm : ∀ x, SPACE_FOR_HEADERS < (mt x).toNat) (x : SideId)
    (t t' : Tcb) (out : List Segment) (ht : (s.side x).tcb = some t) (es : t.segments = .ok (t', out)) :
    ∃ new, EmitFx t new t' out := by
  obtain ⟨new, t2, out2, e2, fx⟩ := segments_fwd t (a.good.tinv x t ht).st (by rw [(a.f.tcb x t ht).mtu]; exact hm x)
  rw [es] at e2
  cases e2
  exact ⟨new, fx⟩

theorem batch_syn {s : Sys} (a : All iss mt s) (hm : ∀ x, SPACE_FOR_HEADERS < (mt x).toNat) (x : SideId)
    (t t' : Tcb) (out : List Segment) (ht : (s.side x).tcb = some t) (es : t.segments = .ok (t', out))
    (hflag : ∀ tr ∈ t.outgoing.retransmit, tr.needsTransmit = true) :
    ((t.state = .SynSent ∨ t.state = .SynReceived) → ∃ σ ∈ out, σ.hdr.ctl.syn = true) ∧
    (t.state = .SynReceived → ∃ σ ∈ out, Trig (iss x) σ) := by
  obtain ⟨new, fx⟩ := emitFx_of_segments a hm x t t' out ht es
  have f := a.h.tcb x t ht
  refine ⟨fun hs => ?_, fun hs => ?_⟩
  · obtain ⟨g, hg, hsyn⟩ := f.q hs
    obtain ⟨tr, htr, rfl⟩ := List.mem_map.1 hg
    exact ⟨tr.segment, mem_out_of_rtx fx tr (List.mem_append_left _ htr) (hflag tr htr), hsyn⟩
  · obtain ⟨g, hg, hsyn, hack⟩ := f.qa hs
    obtain ⟨tr, htr, rfl⟩ := List.mem_map.1 hg
    refine ⟨tr.segment, mem_out_of_rtx fx tr (List.mem_append_left _ htr) (hflag tr htr), hack, Or.inr ⟨hsyn, ?_⟩⟩
    obtain ⟨v, _⟩ := (a.good.tinv x t ht).rtx tr.segment (List.mem_map.2 ⟨tr, htr, rfl⟩)
    rw [(v.syn hsyn).1, off_self]

theorem batch_trig {s : Sys} (a : All iss mt s) (hm : ∀ x, SPACE_FOR_HEADERS < (mt x).toNat) (x : SideId)
    (t tp t' : Tcb) (out : List Segment) (ht : (s.side x).tcb = some t) (htp : (s.side x.peer).tcb = some tp)
    (hst : t.state = .Established) (hstp : tp.state = .SynReceived) (es : t.segments = .ok (t', out))
    (hflag : ∀ tr ∈ t.outgoing.retransmit, tr.needsTransmit = true) (hne : out ≠ []) :
    ∃ σ ∈ out, Trig (iss x) σ := by
  have hg := a.good
  obtain ⟨new, fx⟩ := emitFx_of_segments a hm x t t' out ht es
  have hissx := hg.iss_eq x t ht
  have hN := hg.sent_lt x t ht
  -- the peer has received nothing but the SYN: `SND.UNA = ISS + 1`
  have hxx : (s.side x.peer.peer).tcb = some t := by rw [SideId.peer_peer]; exact ht
  have hnsp : tp.state ≠ .SynSent := by rw [hstp]; simp
  obtain ⟨r1, _⟩ := (a.h.tcb x.peer tp htp).r hstp
  have hirs := (hg.tinv x.peer tp htp).irs hnsp
  rw [SideId.peer_peer] at hirs
  have hq : off (iss x) tp.rcv.nxt = 1 := by
    rw [r1, hirs, off_add_one _ _ (by rw [off_self]; omega), off_self]
  have hA := hg.conv.full.ack x
  unfold AckLink at hA
  rw [ht, htp] at hA
  have hule := hA.una t tp rfl rfl
  rw [top_of_ne hnsp, hissx, hq] at hule
  have huge := a.u x t ht hst
  have hune := a.u.ne hg x t ht hst
  have huna : off (iss x) t.snd.una = 1 := by omega
  obtain ⟨qsum, qle, qB⟩ := queue_start hg x t ht hst hune
  have factsX := rtx_entry_facts hg x t ht hune
  have siX : SndInv t := (hg.ext.tcb x t ht).snd (seg_of_established hst)
  cases hl : t.outgoing.retransmit with
  | cons tr0 rest =>
    -- the first queue entry starts at or before `SND.UNA`, i.e. at `ISS + 1`
    have hm0 : tr0 ∈ t.outgoing.retransmit := by rw [hl]; exact List.mem_cons_self
    have cr := chain_catchRun t.snd.nxt t.outgoing.retransmit siX.chain factsX
    rw [hl] at cr
    simp only [List.map_cons, CatchRun] at cr
    obtain ⟨v, _⟩ := (hg.tinv x t ht).rtx tr0.segment (List.mem_map.2 ⟨tr0, hm0, rfl⟩)
    obtain ⟨p, hp, _, _⟩ := v.txt (factsX tr0 hm0).1
    have hoff : off (iss x) tr0.segment.hdr.seq = 1 + p := by
      rw [hp]
      have e1 : iss x + 1 + BitVec.ofNat 32 p = iss x + BitVec.ofNat 32 (1 + p) := by
        rw [BitVec.ofNat_add]; bv_omega
      rw [e1, off_add _ _ _ (by rw [off_self]; have := hg.room.side x; omega), off_self]
      omega
    have hstart : off (iss x) tr0.segment.hdr.seq ≤ 1 := by
      rw [cr.1, ← hl]; omega
    refine ⟨tr0.segment, mem_out_of_rtx fx tr0 (List.mem_append_left _ hm0) (hflag tr0 hm0), (factsX tr0 hm0).2.2.2,
      Or.inl ⟨cr.2.2.1, by omega⟩⟩
  | nil =>
    rw [hl] at qsum
    simp only [rtxBytes_nil, BitVec.sub_zero, Nat.add_zero] at qsum
    -- nothing outstanding: `SND.NXT = ISS + 1`
    have hsent1 : off (iss x) t.snd.nxt = 1 := by
      have hc := siX.cover
      have hsp : synPending t = 0 := by unfold synPending; rw [if_neg hune]
      rw [hl, hsp] at hc
      simp only [rtxBytes_nil, Nat.add_zero, Nat.le_zero_eq] at hc
      have : t.snd.nxt = t.snd.una := by
        have h0 : (t.snd.nxt - t.snd.una) = 0 := BitVec.eq_of_toNat_eq (by rw [hc]; rfl)
        bv_omega
      rw [this]; exact huna
    cases hnw : new with
    | cons n0 nrest =>
      have hrun := fx.run
      rw [hnw] at hrun
      simp only [List.map_cons, DataRun] at hrun
      have hm0 : n0 ∈ t.outgoing.retransmit ++ new := by rw [hnw]; exact List.mem_append_right _ List.mem_cons_self
      refine ⟨n0.segment, mem_out_of_rtx fx n0 hm0 (fx.flagged n0 (by rw [hnw]; exact List.mem_cons_self)), ?_,
        Or.inl ⟨?_, ?_⟩⟩
      · rw [hrun.1]; rfl
      · rw [hrun.1]; rfl
      · rw [hrun.1]
        show off (iss x) t.snd.nxt = 1
        exact hsent1
    | nil =>
      -- only the one-shot queue is emitted
      have hout : out = t.outgoing.oneshot.map fun h => (⟨h, []⟩ : Segment) := by
        rw [fx.out, hl, hnw]; simp
      cases ho : t.outgoing.oneshot with
      | nil => rw [hout, ho] at hne; exact absurd rfl hne
      | cons h0 orest =>
        have hm0 : h0 ∈ t.outgoing.oneshot := by rw [ho]; exact List.mem_cons_self
        obtain ⟨e1, e2, e3, _⟩ := (hg.ext.tcb x t ht).one h0 hm0
        refine ⟨⟨h0, []⟩, by rw [hout, ho]; exact List.mem_cons_self, e2, Or.inl ⟨e3, ?_⟩⟩
        show off (iss x) h0.seq = 1
        rw [e1]; exact hsent1

/-! ## a non-empty one-shot queue under deliveries and reads -/

theorem deliver_other (s : Sys) (x : SideId) (i : Nat) (s1 : Sys) (r : Res) (e : s.step (.deliver x i) = .ok (s1, r)) :
    s1.side x.peer = s.side x.peer := by
  simp only [Sys.step, Op.side] at e
  split at e
  · cases e; rfl
  · unfold Sys.arrive at e
    dsimp only at e
    repeat' split at e
    all_goals first
      | (cases e; rfl)
      | (cases e; exact side_setSide_peer _ _ _)
      | (cases e; rw [side_record])
      | cases e

theorem read_other (s : Sys) (x : SideId) (s1 : Sys) (r : Res) (e : s.step (.read x) = .ok (s1, r)) :
    s1.side x.peer = s.side x.peer := by
  simp only [Sys.step, Op.side] at e
  split at e
  · cases e; rfl
  · cases e; exact side_setSide_peer _ _ _

theorem receive_oneshot (t : Tcb) : t.receive.1.outgoing.oneshot = t.outgoing.oneshot := by
  unfold receive; split <;> rfl

theorem ne_quiet {s s' : Sys} (q : QuietRun iss s s') (x : SideId) (h : NE s x) : NE s' x := by
  induction q with
  | refl => exact h
  | del _ e g ih =>
    rename_i s1 s2 z i r _q
    obtain ⟨t, ht, hne⟩ := ih
    rcases side_cases z x with hz | hz
    · subst hz
      cases hn : s1.nth i with
      | none =>
        simp only [Sys.step, Op.side, hn] at e
        cases e
        exact ⟨t, ht, hne⟩
      | some σ =>
        obtain ⟨t', e1, rfl⟩ := deliver_tcb x i σ t ht hn e g
        obtain ⟨L, hL⟩ := oneshot_grows t σ t' .Ok e1
        refine ⟨t', by rw [side_setSide_same], ?_⟩
        rw [hL]
        intro h0
        exact hne (List.append_eq_nil_iff.1 h0).1
    · have := deliver_other s1 z i s2 r e
      rw [← hz] at this
      exact ⟨t, by rw [this]; exact ht, hne⟩
  | rd _ e ih =>
    rename_i s1 s2 z r _q
    obtain ⟨t, ht, hne⟩ := ih
    rcases side_cases z x with hz | hz
    · subst hz
      rw [sys_read s1 x t ht] at e
      cases e
      exact ⟨t.receive.1, by rw [side_setSide_same], by rw [receive_oneshot]; exact hne⟩
    · have := read_other s1 z s2 r e
      rw [← hz] at this
      exact ⟨t, by rw [this]; exact ht, hne⟩

end Elvis.Tcp.Full
