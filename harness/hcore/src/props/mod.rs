pub mod c07;
