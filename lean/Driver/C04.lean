import Driver.Common
/-! Line-protocol handlers for C04 (sub-commands `c04` / `c04-*`). -/
namespace Driver.C04

def dispatch (_sub : String) (_i _o : IO.FS.Stream) : Option (IO Unit) := none

end Driver.C04
