import ElvisVerif.Lemmas.NdlTotal
/-!
# C14, NDL clause — no text presented to the network description parser makes it panic

Property theorems only.  `parse` models `core_parser` from the file's text on (normalisation,
line lexer, tree builder; every `unimplemented!`, `unwrap`, byte-index slice and checked addition
is a `Panic` constructor; the loops' fuel is a `Fail.fuel` constructor).

* `c14_ndl_total`: for every text shorter than 2^31 − 1 characters the outcome is a `Sim` or a
  reported `Err` — no panic site is reachable and the model's loop fuel always suffices.
  The hypothesis is about the `i32` line counter only (`c14_ndl_line_counter_witness`).
* The two defects the first version of this check found are kept as regression theorems over the
  `get_type` of the code *before* the fixes (`fix:` commits 896b36a1 and the `keyword` matcher):
  `c14_ndl_iptype_regression` (F-C14-2) and `c14_ndl_kelvin_regression` (F-C14-2b).
  Both are replayed on the real code by `hfull c14-ndl` (fixed texts `iptype`, `kelvin-*`).
-/
namespace Elvis.Ndl

/-- never a panic, never out of fuel: a value or a reported error -/
theorem c14_ndl_total (text : Text) (h : text.length < i32Max) :
    (∃ sim, parse text = .ok sim) ∨ (∃ k l, parse text = .error (.err k l)) := by
  have hs := build_safe (normalise text) (Nat.lt_of_le_of_lt (normalise_length_le text) h)
  unfold parse
  cases hb : build (normalise text) with
  | ok sim => exact .inl ⟨sim, rfl⟩
  | error e =>
    rw [hb] at hs
    cases e with
    | err k l => exact .inr ⟨k, l, rfl⟩
    | panic p => exact hs.elim
    | fuel => exact hs.elim

/-- the lexer alone: a value (having consumed at least `[]`) or a reported error -/
theorem c14_ndl_lexer_total (s : Text) (line : Nat) (h : line + s.length ≤ i32Max) :
    (∃ r, generalParser s line = .ok r ∧ r.rest.length < s.length) ∨
    (∃ k l, generalParser s line = .error (.err k l)) := by
  have hs := generalParser_safe s line h
  cases hg : generalParser s line with
  | ok r => rw [hg] at hs; exact .inl ⟨r, rfl, hs.1⟩
  | error e =>
    rw [hg] at hs
    cases e with
    | err k l => exact .inr ⟨k, l, rfl⟩
    | panic p => exact hs.elim
    | fuel => exact hs.elim

/-- non-vacuity: a concrete description parses to a value, a broken one to a reported error -/
example : (parse ['[','N','e','t','w','o','r','k','s',']','\n','\t','[','N','e','t','w','o','r','k',' ','i','d','=','\'','1','\'',']','\n','\t','\t','[','I','P',']']).toOption.map (·.networks.length) = some 1 := by
  decide
example : parse ['[','I','P','t','y','p','e',' ','v','=','\'','4','\'',']'] = .error (.err .extraArg 1) := by decide
example : parse ['[','N','e','t','w','o','r',Char.ofNat 0x212A,'s',']'] = .error (.err .dectype 1) := by decide

/-- why `c14_ndl_total` bounds the text: the line counter is an `i32` -/
theorem c14_ndl_line_counter_witness :
    generalParser ['[','T','e','m','p','l','a','t','e',']','\n'] i32Max = .error (.panic .lineOverflow) := by
  decide

/-- the alternatives and the table of `get_type` / `DecType::from` before the fixes -/
def tagAltBefore : List Text :=
  [['T','e','m','p','l','a','t','e'], ['N','e','t','w','o','r','k','s'], ['N','e','t','w','o','r','k'],
   ['I','P','t','y','p','e'], ['I','P'], ['M','a','c','h','i','n','e','s'], ['M','a','c','h','i','n','e'],
   ['P','r','o','t','o','c','o','l','s'], ['P','r','o','t','o','c','o','l'],
   ['A','p','p','l','i','c','a','t','i','o','n','s'], ['A','p','p','l','i','c','a','t','i','o','n']]
def tableBefore : List (Text × Text) := DecType.all.map fun d => (lowerText d.name, d.name)

/-- F-C14-2 (fixed): `[IPtype …]` matched a tag `DecType::from` has no case for → `unimplemented!` -/
theorem c14_ndl_iptype_regression :
    getTypeWith "tag_no_case" tableBefore tagAltBefore ['I','P','t','y','p','e',' ','v','=','\'','4','\''] 1
      = .error (.panic .decTypeFrom) := by decide

/-- F-C14-2b (fixed): nom's `tag_no_case` accepts U+212A KELVIN SIGN for `k` (Unicode lowercase)
    and then splits the input at the tag's *byte* length, inside the 3-byte character → panic -/
theorem c14_ndl_kelvin_regression :
    getTypeWith "tag_no_case" tableBefore tagAltBefore ['N','e','t','w','o','r',Char.ofNat 0x212A,'s'] 1
      = .error (.panic .tagSplit) ∧
    getTypeWith "tag_no_case" tableBefore tagAltBefore ['n','e','t','w','o','r',Char.ofNat 0x212A,' ','i','d','=','\'','1','\''] 1
      = .error (.panic .tagSplit) := by decide

/-- the matcher the source uses now cannot split inside a character: it never panics -/
theorem c14_ndl_keyword_never_panics (tag i : Text) : matchTag "keyword" tag i ≠ .panic := by
  unfold matchTag; simp only [if_true]; split <;> simp

end Elvis.Ndl
