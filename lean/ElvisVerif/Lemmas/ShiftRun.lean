import ElvisVerif.Lemmas.ShiftArrive
import ElvisVerif.Lemmas.ShiftApi
/-!
# Whole runs of the two-endpoint system commute with the shift map (C12)

`Sys.shift ka kb` moves side A's space by `ka` and side B's by `kb` (TCBs, LISTEN bindings, and
every segment of the history according to who emitted it).  One step of the system commutes with
it for every admissible op (`Adm`), hence every admissible run does (`Sys.shift_run`), by induction
on the op list.
-/
namespace Elvis.Tcp
open Elvis.ModCmp
variable (ka kb : Seq)

/-! ## the two-endpoint system -/

/-- a result of `Sys.step` in the shifted world -/
def shiftSR (x : SideId) (ka kb : Seq) (r : Except String (Sys × Res)) : Except String (Sys × Res) :=
  match r with
  | .error e => .error e
  | .ok (s, res) => .ok (s.shift ka kb, res.shift x ka kb)

theorem Sys.shift_side (s : Sys) (x : SideId) : (s.shift ka kb).side x = (s.side x).shift x ka kb := by
  cases x <;> rfl

theorem Sys.shift_setSide (s : Sys) (x : SideId) (sd : Side) :
    (s.shift ka kb).setSide x (sd.shift x ka kb) = (s.setSide x sd).shift ka kb := by
  cases x <;> rfl

theorem Sys.shift_historyLen (s : Sys) : (s.shift ka kb).historyLen = s.historyLen := rfl

theorem Sys.shift_nth (s : Sys) (i : Nat) : (s.shift ka kb).nth i = (s.nth i).map (Segment.shiftHist ka kb) := by
  unfold Sys.nth
  rw [Sys.shift_historyLen]
  split
  · show (s.history.map _)[_]? = _
    rw [List.getElem?_map]
  · rfl

theorem ports_ne : SideId.A.port ≠ SideId.B.port := by decide

/-- a segment whose source port is `x`'s port moves with `x`'s space -/
theorem shiftHist_of_src (x : SideId) (seg : Segment) (h : seg.hdr.srcPort = x.port) :
    seg.shiftHist ka kb = seg.shift (x.own ka kb) (x.peer.own ka kb) := by
  unfold Segment.shiftHist
  cases x
  · rw [if_pos h]; rfl
  · rw [if_neg (by rw [h]; exact fun e => ports_ne e.symm)]; rfl

theorem Sys.shift_record (s : Sys) (x : SideId) (segs : List Segment)
    (h : ∀ seg ∈ segs, seg.hdr.srcPort = x.port) :
    (s.shift ka kb).record (segs.map (Segment.shift (x.own ka kb) (x.peer.own ka kb))) =
      (s.record segs).shift ka kb := by
  unfold Sys.record
  have e : (segs.map (Segment.shift (x.own ka kb) (x.peer.own ka kb))) = segs.map (Segment.shiftHist ka kb) := by
    apply List.map_congr_left
    intro seg hs
    exact (shiftHist_of_src ka kb x seg (h seg hs)).symm
  rw [e]
  simp only [Sys.shift, List.map_append, List.map_reverse, List.length_map]

/-- what an arriving segment must meet at side `x` (see `ArrPre`); outside a connection the
    RFC-mandated `SEQ = 0` reset is excluded -/
def ArrOk (s : Sys) (x : SideId) (seg : Segment) : Prop :=
  seg.hdr.srcPort = x.peer.port ∧ seg.hdr.dstPort = x.port ∧
  match (s.side x).tcb with
  | some t => ArrPre t
  | none =>
    match (s.side x).listen with
    | some _ => True
    | none => seg.hdr.ctl.rst = true ∨ seg.hdr.ctl.ack = true

theorem closed_srcPort (seg : Hdr) (tl : Seq) (h : Hdr) (e : segmentArrivesClosed seg tl = some h) :
    h.srcPort = seg.dstPort := by
  unfold segmentArrivesClosed at e
  simp only [Hdr.build_zero] at e
  repeat' (split at e)
  all_goals first | (cases e; done) | (cases e; rfl)

theorem Sys.shift_arrive (s : Sys) (x : SideId) (seg : Segment) (h : ArrOk s x seg) :
    (s.shift ka kb).arrive x (seg.shift (x.peer.own ka kb) (x.own ka kb)) =
      shiftSR x ka kb (s.arrive x seg) := by
  unfold Sys.arrive
  dsimp only
  rw [Sys.shift_side]
  obtain ⟨hsrc, hdst, hpre⟩ := h
  cases ht : (s.side x).tcb with
  | some t =>
    rw [ht] at hpre
    have e : ((s.side x).shift x ka kb).tcb = some (t.shift (x.own ka kb) (x.peer.own ka kb)) := by
      unfold Side.shift; rw [ht]; rfl
    rw [e]
    dsimp only
    rw [shift_segmentArrives (x.own ka kb) (x.peer.own ka kb) t seg hpre]
    cases t.segmentArrives seg with
    | error e => rfl
    | ok q =>
      obtain ⟨u, r⟩ := q
      cases r with
      | Ok =>
        simp only [M.shift_ok]
        show Except.ok ((s.shift ka kb).setSide x
          (Side.shift x ka kb ⟨some u, (s.side x).listen, (s.side x).submitted, (s.side x).delivered⟩), _) = _
        rw [Sys.shift_setSide]
        rfl
      | Close =>
        simp only [M.shift_ok]
        show Except.ok ((s.shift ka kb).setSide x
          (Side.shift x ka kb ⟨none, none, (s.side x).submitted, (s.side x).delivered⟩), _) = _
        rw [Sys.shift_setSide]
        rfl
  | none =>
    rw [ht] at hpre
    have e : ((s.side x).shift x ka kb).tcb = none := by unfold Side.shift; rw [ht]; rfl
    rw [e]
    dsimp only
    cases hl : (s.side x).listen with
    | some p =>
      obtain ⟨iss, mtu⟩ := p
      have e2 : ((s.side x).shift x ka kb).listen = some (iss + x.own ka kb, mtu) := by
        unfold Side.shift; rw [hl]; rfl
      rw [e2]
      dsimp only
      rw [shift_listen (x.own ka kb) (x.peer.own ka kb) seg iss mtu]
      cases hres : segmentArrivesListen seg iss mtu with
      | error e => rfl
      | ok o =>
        cases o with
        | none => rfl
        | some lr =>
          cases lr with
          | Tcb t =>
            simp only [shiftL, Option.map_some, ListenResult.shift]
            show Except.ok ((s.shift ka kb).setSide x
              (Side.shift x ka kb ⟨some t, some (iss, mtu), (s.side x).submitted, (s.side x).delivered⟩), _) = _
            rw [Sys.shift_setSide]
            rfl
          | Response hd =>
            simp only [shiftL, Option.map_some, ListenResult.shift]
            have hp : hd.srcPort = x.port := by
              unfold segmentArrivesListen at hres
              simp only [Hdr.build_zero, Option.map_some, Tcb.enqueue_eq] at hres
              repeat' (split at hres)
              all_goals first | (cases hres; done) | (cases hres; exact hdst)
            have := Sys.shift_record ka kb s x [⟨hd, []⟩] (by intro sg hsg; simp at hsg; rw [hsg]; exact hp)
            simp only [List.map_cons, List.map_nil] at this
            show Except.ok ((s.shift ka kb).record [⟨hd.shift _ _, []⟩], _) = _
            rw [show (⟨hd.shift (x.own ka kb) (x.peer.own ka kb), []⟩ : Segment) =
              Segment.shift (x.own ka kb) (x.peer.own ka kb) ⟨hd, []⟩ from rfl, this]
            rfl
    | none =>
      rw [hl] at hpre
      have e2 : ((s.side x).shift x ka kb).listen = none := by unfold Side.shift; rw [hl]; rfl
      rw [e2]
      dsimp only
      rw [Segment.shift_hdr, Segment.shift_text, shift_closed (x.own ka kb) (x.peer.own ka kb) seg.hdr _ hpre]
      cases hres : segmentArrivesClosed seg.hdr (BitVec.ofNat 32 seg.text.length) with
      | none => rfl
      | some hd =>
        simp only [Option.map_some]
        have hp : hd.srcPort = x.port := (closed_srcPort _ _ _ hres).trans hdst
        have := Sys.shift_record ka kb s x [⟨hd, []⟩] (by intro sg hsg; simp at hsg; rw [hsg]; exact hp)
        simp only [List.map_cons, List.map_nil] at this
        rw [show (⟨hd.shift (x.own ka kb) (x.peer.own ka kb), []⟩ : Segment) =
          Segment.shift (x.own ka kb) (x.peer.own ka kb) ⟨hd, []⟩ from rfl, this]
        rfl


theorem peer_peer (x : SideId) : x.peer.peer = x := by cases x <;> rfl

/-- every segment `segments()` returns carries `x`'s port as source port -/
def EmitPorts (t : Tcb) (x : SideId) : Prop :=
  ∀ u segs, t.segments = .ok (u, segs) → ∀ sg ∈ segs, sg.hdr.srcPort = x.port

/-- the ops the step theorem covers (everything else is `True`):
    arriving segments come from the peer and meet `ArrOk`; `segments()` is not called on a
    SYN-SENT TCB with a non-zero send window -/
def Adm (s : Sys) (op : Op) : Prop :=
  match op with
  | .deliver x i => ∀ seg, s.nth i = some seg → ArrOk s x seg
  | .inject x seg => ArrOk s x seg
  | .emit x => ∀ t, (s.side x).tcb = some t → (t.state = .SynSent → t.snd.wnd = 0) ∧ EmitPorts t x
  | _ => True

theorem side_shift_tcb (sd : Side) (x : SideId) :
    (sd.shift x ka kb).tcb = sd.tcb.map (Tcb.shift (x.own ka kb) (x.peer.own ka kb)) := rfl

theorem Sys.shift_step (s : Sys) (op : Op) (h : Adm s op) :
    (s.shift ka kb).step (op.shift ka kb) = shiftSR op.side ka kb (s.step op) := by
  cases op with
  | «open» x iss mtu =>
    simp only [Sys.step, Op.shift, Op.side]
    rw [shift_open (x.own ka kb) (x.peer.own ka kb)]
    cases Tcb.open x.port x.peer.port iss mtu with
    | error e => rfl
    | ok t =>
      simp only [shiftE_ok, Sys.shift_side]
      show Except.ok ((s.shift ka kb).setSide x
        (Side.shift x ka kb ⟨some t, (s.side x).listen, (s.side x).submitted, (s.side x).delivered⟩), _) = _
      rw [Sys.shift_setSide]; rfl
  | listen x iss mtu =>
    simp only [Sys.step, Op.shift, Op.side, Sys.shift_side]
    show Except.ok ((s.shift ka kb).setSide x
      (Side.shift x ka kb ⟨(s.side x).tcb, some (iss, mtu), (s.side x).submitted, (s.side x).delivered⟩), _) = _
    rw [Sys.shift_setSide]; rfl
  | deliver x i =>
    simp only [Sys.step, Op.shift, Op.side]
    rw [Sys.shift_nth]
    cases hn : s.nth i with
    | none => rfl
    | some seg =>
      have ok := h seg hn
      simp only [Option.map_some]
      have e := shiftHist_of_src ka kb x.peer seg ok.1
      rw [peer_peer] at e
      rw [e]
      exact Sys.shift_arrive ka kb s x seg ok
  | inject x seg =>
    simp only [Sys.step, Op.shift, Op.side]
    exact Sys.shift_arrive ka kb s x seg h
  | drop x =>
    simp only [Sys.step, Op.shift, Op.side, Sys.shift_side]
    show Except.ok ((s.shift ka kb).setSide x
      (Side.shift x ka kb ⟨none, none, (s.side x).submitted, (s.side x).delivered⟩), _) = _
    rw [Sys.shift_setSide]; rfl
  | write x bytes =>
    simp only [Sys.step, Op.shift, Op.side, Sys.shift_side, side_shift_tcb]
    cases ht : (s.side x).tcb with
    | none => rfl
    | some t =>
      simp only [Option.map_some, shift_send, Tcb.shift_state]
      show Except.ok ((s.shift ka kb).setSide x
        (Side.shift x ka kb ⟨some (t.send bytes), (s.side x).listen, _, (s.side x).delivered⟩), _) = _
      rw [Sys.shift_setSide]; rfl
  | read x =>
    simp only [Sys.step, Op.shift, Op.side, Sys.shift_side, side_shift_tcb]
    cases ht : (s.side x).tcb with
    | none => rfl
    | some t =>
      simp only [Option.map_some, shift_receive]
      show Except.ok ((s.shift ka kb).setSide x
        (Side.shift x ka kb ⟨some t.receive.1, (s.side x).listen, (s.side x).submitted, _⟩), _) = _
      rw [Sys.shift_setSide]; rfl
  | tick x ms =>
    simp only [Sys.step, Op.shift, Op.side, Sys.shift_side, side_shift_tcb]
    cases ht : (s.side x).tcb with
    | none => rfl
    | some t =>
      simp only [Option.map_some, shift_advanceTime]
      cases t.advanceTime ms with
      | error e => rfl
      | ok q =>
        obtain ⟨u, r⟩ := q
        cases r with
        | Ignore =>
          simp only [M.shift_ok]
          show Except.ok ((s.shift ka kb).setSide x
            (Side.shift x ka kb ⟨some u, (s.side x).listen, (s.side x).submitted, (s.side x).delivered⟩), _) = _
          rw [Sys.shift_setSide]; rfl
        | CloseConnection =>
          simp only [M.shift_ok]
          show Except.ok ((s.shift ka kb).setSide x
            (Side.shift x ka kb ⟨none, none, (s.side x).submitted, (s.side x).delivered⟩), _) = _
          rw [Sys.shift_setSide]; rfl
  | emit x =>
    simp only [Sys.step, Op.shift, Op.side, Sys.shift_side, side_shift_tcb]
    cases ht : (s.side x).tcb with
    | none => rfl
    | some t =>
      obtain ⟨hq, hports⟩ := h t ht
      simp only [Option.map_some, shift_segments _ _ t hq]
      cases hsg : t.segments with
      | error e => rfl
      | ok q =>
        obtain ⟨u, segs⟩ := q
        simp only [M.shiftOut]
        have hr := Sys.shift_record ka kb (s.setSide x ⟨some u, (s.side x).listen, (s.side x).submitted, (s.side x).delivered⟩)
          x segs (hports u segs hsg)
        rw [← Sys.shift_setSide] at hr
        show Except.ok (((s.shift ka kb).setSide x
          (Side.shift x ka kb ⟨some u, (s.side x).listen, (s.side x).submitted, (s.side x).delivered⟩)).record _, _) = _
        rw [hr]; rfl
  | close x =>
    simp only [Sys.step, Op.shift, Op.side, Sys.shift_side, side_shift_tcb]
    cases ht : (s.side x).tcb with
    | none => rfl
    | some t =>
      simp only [Option.map_some, shift_close _ _ t]
      cases t.close with
      | error e => rfl
      | ok q =>
        obtain ⟨u, r⟩ := q
        simp only [M.shift_ok]
        show Except.ok ((s.shift ka kb).setSide x
          (Side.shift x ka kb ⟨some u, (s.side x).listen, (s.side x).submitted, (s.side x).delivered⟩), _) = _
        rw [Sys.shift_setSide]; rfl
  | abort x =>
    simp only [Sys.step, Op.shift, Op.side, Sys.shift_side, side_shift_tcb]
    cases ht : (s.side x).tcb with
    | none => rfl
    | some t =>
      simp only [Option.map_some, shift_abort]
      cases t.abort with
      | error e => rfl
      | ok u =>
        simp only [shiftE_ok]
        show Except.ok ((s.shift ka kb).setSide x
          (Side.shift x ka kb ⟨some u, (s.side x).listen, (s.side x).submitted, (s.side x).delivered⟩), _) = _
        rw [Sys.shift_setSide]; rfl


/-! ## runs -/

/-- every op of the run is admissible in the state it meets (evaluated along the ORIGINAL run) -/
def RunAdm : Sys → List Op → Prop
  | _, [] => True
  | s, op :: ops => Adm s op ∧ ∀ s' r, s.step op = .ok (s', r) → RunAdm s' ops

/-- the results of a run in the shifted world -/
def shiftResults (ka kb : Seq) : List Op → List Res → List Res
  | op :: ops, r :: rs => r.shift op.side ka kb :: shiftResults ka kb ops rs
  | _, _ => []

def shiftRun (ka kb : Seq) (ops : List Op) (x : Except String (Sys × List Res)) : Except String (Sys × List Res) :=
  match x with
  | .error e => .error e
  | .ok (s, rs) => .ok (s.shift ka kb, shiftResults ka kb ops rs)

theorem Sys.shift_run (s : Sys) (ops : List Op) (h : RunAdm s ops) :
    (s.shift ka kb).run (ops.map (Op.shift ka kb)) = shiftRun ka kb ops (s.run ops) := by
  induction ops generalizing s with
  | nil => rfl
  | cons op ops ih =>
    obtain ⟨h1, h2⟩ := h
    simp only [List.map_cons, Sys.run]
    rw [Sys.shift_step ka kb s op h1]
    cases hs : s.step op with
    | error e => rfl
    | ok q =>
      obtain ⟨s', r⟩ := q
      simp only [shiftSR]
      rw [ih s' (h2 s' r hs)]
      cases s'.run ops with
      | error e => rfl
      | ok q2 => obtain ⟨s2, rs⟩ := q2; rfl

theorem Sys.shift_init : (({} : Sys).shift ka kb) = {} := rfl

end Elvis.Tcp
