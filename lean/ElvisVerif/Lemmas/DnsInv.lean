import ElvisVerif.Lemmas.Dns
/-!
The invariant of the DNS exchange (`Elvis.Dns.step`) used by the C20 theorems, and its
preservation by every step.  All statements are relative to `hb : sourceBudget = none` (the
responder reads the whole request datagram), which `Props/C20.lean` discharges from the
certificate regenerated from the source.
-/
namespace Elvis.Dns

/-- names the wire format can carry and both sides accept: no delimiter byte, valid UTF-8 (the
    client API takes a Rust `String`) -/
def NameOk (n : Bytes) : Prop := delim ∉ n ∧ utf8Valid n = true

instance (n : Bytes) : Decidable (NameOk n) := by unfold NameOk; exact inferInstance

/-- lookups ask for carriable names and draw a 16-bit transaction id; deliveries are arbitrary -/
def ChoiceOk : Choice → Prop
  | .lookup _ name id => NameOk name ∧ id < 65536
  | .deliver _ => True

/-! ### server and client on the messages of the exchange -/

theorem respondWith_ok {b : Option Nat} {t : Table} {d r : Bytes} (h : respondWith b t d = .ok r) :
    ∃ req a, fromBytes (serverRead b d) = some req ∧ utf8Valid req.question.qname = true ∧
      t.get req.question.qname = some a ∧ r = (createResponse req a).build := by
  unfold respondWith at h
  split at h
  · cases h
  · rename_i req hreq
    split at h
    · rename_i hu
      split at h
      · cases h
      · rename_i a ha
        cases h
        exact ⟨req, a, hreq, hu, ha, rfl⟩
    · cases h

theorem respondWith_query {t : Table} {name : Bytes} {id : Nat} (hn : NameOk name) (hid : id < 65536) :
    respondWith none t (queryBytes name id) =
      match t.get name with
      | none => .error "err:Cache:server_unknown_name"
      | some a => .ok (createResponse (createRequest name id) a).build := by
  have hp : fromBytes (queryBytes name id) = some (createRequest name id) := fromBytes_build' _ (createRequest_wf hn.1 hid)
  have hq : (createRequest name id).question.qname = name := rfl
  unfold respondWith serverRead
  simp only [hp, hq, hn.2, if_true]
  cases t.get name <;> rfl

theorem onReply_response {cache : Table} {name : Bytes} {id : Nat} (a : Addr) (hn : NameOk name) (hid : id < 65536) :
    onReply cache name (createResponse (createRequest name id) a).build =
      (cache.put name a, .ok (createResponse (createRequest name id) a, a)) := by
  have hp := fromBytes_build' _ (createResponse_wf (createRequest_wf hn.1 hid) a)
  have h1 : (createResponse (createRequest name id) a).answer.name = name := rfl
  have h2 : (createResponse (createRequest name id) a).answer.rdata = a.toBytes := rfl
  unfold onReply
  simp only [hp, h1, h2, hn.2, if_true, addrOfRdata_toBytes, Table.get_put]

/-! ### list facts -/

theorem getElem?_set_cases {α : Type} {l : List α} {i j : Nat} {x y : α} (h : (l.set i x)[j]? = some y) :
    (i = j ∧ y = x) ∨ (i ≠ j ∧ l[j]? = some y) := by
  rw [List.getElem?_set] at h
  by_cases hij : i = j
  · left
    simp only [hij, if_true] at h
    split at h
    · cases h; exact ⟨hij, rfl⟩
    · cases h
  · right
    simp only [hij, if_false] at h
    exact ⟨hij, h⟩

theorem getElem?_set_self_of_some {α : Type} {l : List α} {i : Nat} {x y : α} (h : l[i]? = some y) :
    (l.set i x)[i]? = some x := by
  have hi : i < l.length := by
    rcases Nat.lt_or_ge i l.length with h1 | h1
    · exact h1
    · rw [List.getElem?_eq_none h1] at h; cases h
  rw [List.getElem?_set]; simp [hi]

theorem mem_markDone {socks : List Sock} {c p : Nat} {so : Sock} (h : so ∈ markDone socks c p) :
    ∃ so0 ∈ socks, so.client = so0.client ∧ so.port = so0.port ∧ so.name = so0.name ∧ so.id = so0.id := by
  unfold markDone at h
  obtain ⟨so0, h0, rfl⟩ := List.mem_map.1 h
  refine ⟨so0, h0, ?_⟩
  split <;> exact ⟨rfl, rfl, rfl, rfl⟩

/-! ### the invariant -/

structure Inv (s : Sys) : Prop where
  /-- every cache entry is the server's record -/
  cache : ∀ (c : Nat) (cl : ClientSt) (n : Bytes) (a : Addr), s.clients[c]? = some cl → cl.cache.get n = some a → s.table.get n = some a
  /-- ports in use are below the machine's ephemeral counter -/
  fresh : ∀ so ∈ s.socks, ∀ cl, s.clients[so.client]? = some cl → so.port < cl.nextPort
  sock : ∀ so ∈ s.socks, NameOk so.name ∧ so.id < 65536
  /-- a datagram on its way to the server is the query of the socket it left from -/
  netQ : ∀ d ∈ s.net, d.dst = .server →
    ∃ c p so, d.src = .client c p ∧ findSock s.socks c p = some so ∧ d.payload = queryBytes so.name so.id
  /-- a datagram on its way to a socket is the server's answer to that socket's query -/
  netR : ∀ d ∈ s.net, ∀ c p, d.dst = .client c p →
    ∃ so a, findSock s.socks c p = some so ∧ s.table.get so.name = some a ∧
      d.payload = (createResponse (createRequest so.name so.id) a).build
  evRes : ∀ c n a k, Event.resolved c n a k ∈ s.events →
    s.table.get n = some a ∧ ∃ cl, s.clients[c]? = some cl ∧ cl.cache.get n = some a
  evAcc : ∀ c n id m, Event.accepted c n id m ∈ s.events → m.header.id = id ∧ m.question.qname = n ∧ m.answer.name = n
  /-- with the authoritative server no lookup ever returns an error -/
  evFail : ∀ c n e, Event.failed c n e ∉ s.events

theorem init_inv (table : Table) (n : Nat) : Inv (init table n) := by
  refine ⟨?_, ?_, ?_, ?_, ?_, ?_, ?_, ?_⟩
  · intro c cl nm a hc hg
    simp only [init, List.getElem?_replicate] at hc
    split at hc
    · cases hc; simp [Table.get] at hg
    · cases hc
  · intro so hso; simp [init] at hso
  · intro so hso; simp [init] at hso
  · intro d hd; simp [init] at hd
  · intro d hd; simp [init] at hd
  · intro c nm a k he; simp [init] at he
  · intro c nm id m he; simp [init] at he
  · intro c nm e he; simp [init] at he

/-- dropping datagrams (and nothing else) keeps the invariant -/
theorem Inv.drop_net {s : Sys} (h : Inv s) (net' : List Datagram) (cr : Option String)
    (hsub : ∀ d ∈ net', d ∈ s.net) : Inv { s with net := net', crashed := cr } :=
  ⟨h.cache, h.fresh, h.sock, fun d hd => h.netQ d (hsub d hd), fun d hd => h.netR d (hsub d hd), h.evRes, h.evAcc, h.evFail⟩

theorem stepLookup_inv {s : Sys} {c : Nat} {name : Bytes} {id : Nat} (hn : NameOk name) (hid : id < 65536)
    (h : Inv s) : Inv (stepLookup s c name id) := by
  unfold stepLookup
  cases hcl : s.clients[c]? with
  | none => exact h
  | some cl =>
    simp only
    cases hg : cl.cache.get name with
    | some a =>
      simp only
      refine ⟨h.cache, h.fresh, h.sock, h.netQ, h.netR, ?_, ?_, ?_⟩
      · intro c' n' a' k he
        rcases List.mem_append.1 he with he | he
        · exact h.evRes c' n' a' k he
        · simp only [List.mem_singleton, Event.resolved.injEq] at he
          obtain ⟨rfl, rfl, rfl, rfl⟩ := he
          exact ⟨h.cache _ cl _ _ hcl hg, cl, hcl, hg⟩
      · intro c' n' id' m he
        rcases List.mem_append.1 he with he | he
        · exact h.evAcc c' n' id' m he
        · simp at he
      · intro c' n' e he
        rcases List.mem_append.1 he with he | he
        · exact h.evFail c' n' e he
        · simp at he
    | none =>
      simp only
      split
      · exact ⟨h.cache, h.fresh, h.sock, h.netQ, h.netR, h.evRes, h.evAcc, h.evFail⟩
      · rename_i hport
        -- a fresh socket, its query on the network
        have hclients : ∀ (c' : Nat) (cl' : ClientSt), (s.clients.set c { cl with nextPort := cl.nextPort + 1 })[c']? = some cl' →
            ∃ cl0, s.clients[c']? = some cl0 ∧ cl'.cache = cl0.cache ∧ cl0.nextPort ≤ cl'.nextPort ∧
              (c' = c → cl'.nextPort = cl.nextPort + 1) := by
          intro c' cl' hc'
          rcases getElem?_set_cases hc' with ⟨rfl, rfl⟩ | ⟨hne, hc'⟩
          · exact ⟨cl, hcl, rfl, Nat.le_succ _, fun _ => rfl⟩
          · exact ⟨cl', hc', rfl, Nat.le_refl _, fun e => absurd e.symm hne⟩
        have hfreshport : ∀ so ∈ s.socks, so.client = c → so.port ≠ cl.nextPort := by
          intro so hso hc
          have := h.fresh so hso cl (by rw [hc]; exact hcl)
          omega
        refine ⟨?_, ?_, ?_, ?_, ?_, ?_, ?_, ?_⟩
        · intro c' cl' n' a' hc' hg'
          obtain ⟨cl0, h0, hcache, _, _⟩ := hclients c' cl' hc'
          exact h.cache c' cl0 n' a' h0 (by rw [← hcache]; exact hg')
        · intro so hso cl' hc'
          obtain ⟨cl0, h0, _, hle, hnew⟩ := hclients so.client cl' hc'
          rcases List.mem_append.1 hso with hso | hso
          · have := h.fresh so hso cl0 h0
            omega
          · simp only [List.mem_singleton] at hso
            subst hso
            have := hnew rfl
            simp only at this ⊢
            omega
        · intro so hso
          rcases List.mem_append.1 hso with hso | hso
          · exact h.sock so hso
          · simp only [List.mem_singleton] at hso
            subst hso
            exact ⟨hn, hid⟩
        · intro d hd hdst
          rcases List.mem_append.1 hd with hd | hd
          · obtain ⟨c', p', so, h1, h2, h3⟩ := h.netQ d hd hdst
            exact ⟨c', p', so, h1, findSock_append_of_some h2 _, h3⟩
          · simp only [List.mem_singleton] at hd
            subst hd
            exact ⟨c, cl.nextPort, _, rfl, findSock_append_new _ ⟨rfl, rfl⟩ hfreshport, rfl⟩
        · intro d hd c' p' hdst
          rcases List.mem_append.1 hd with hd | hd
          · obtain ⟨so, a, h1, h2, h3⟩ := h.netR d hd c' p' hdst
            exact ⟨so, a, findSock_append_of_some h1 _, h2, h3⟩
          · simp only [List.mem_singleton] at hd
            subst hd
            cases hdst
        · intro c' n' a' k he
          rcases List.mem_append.1 he with he | he
          · obtain ⟨h1, cl0, h2, h3⟩ := h.evRes c' n' a' k he
            refine ⟨h1, ?_⟩
            by_cases hcc : c = c'
            · subst hcc
              rw [hcl] at h2; cases h2
              exact ⟨_, getElem?_set_self_of_some hcl, h3⟩
            · exact ⟨cl0, by rw [List.getElem?_set_ne hcc]; exact h2, h3⟩
          · simp at he
        · intro c' n' id' m he
          rcases List.mem_append.1 he with he | he
          · exact h.evAcc c' n' id' m he
          · simp at he
        · intro c' n' e he
          rcases List.mem_append.1 he with he | he
          · exact h.evFail c' n' e he
          · simp at he

theorem stepDeliver_inv {s : Sys} {k : Nat} (hb : sourceBudget = none) (h : Inv s) : Inv (stepDeliver s k) := by
  unfold stepDeliver
  cases hd : s.net[k]? with
  | none => exact h
  | some d =>
    simp only
    have hdm : d ∈ s.net := List.mem_of_getElem? hd
    have hsub : ∀ x ∈ s.net.eraseIdx k, x ∈ s.net := fun x hx => List.mem_of_mem_eraseIdx hx
    cases hdst : d.dst with
    | server =>
      simp only
      obtain ⟨c, p, so, hsrc, hfind, hpay⟩ := h.netQ d hdm hdst
      have hso := h.sock so (findSock_mem hfind).1
      have hresp : respond s.table d.payload =
          match s.table.get so.name with
          | none => .error "err:Cache:server_unknown_name"
          | some a => .ok (createResponse (createRequest so.name so.id) a).build := by
        unfold respond; rw [hb, hpay]; exact respondWith_query hso.1 hso.2
      rw [hresp]
      cases hget : s.table.get so.name with
      | none =>
        simp only
        refine ⟨h.cache, h.fresh, h.sock, fun d' hd' => h.netQ d' (hsub d' hd'), fun d' hd' => h.netR d' (hsub d' hd'), ?_, ?_, ?_⟩
        · intro c' n' a' k' he
          rcases List.mem_append.1 he with he | he
          · exact h.evRes c' n' a' k' he
          · simp at he
        · intro c' n' id' m he
          rcases List.mem_append.1 he with he | he
          · exact h.evAcc c' n' id' m he
          · simp at he
        · intro c' n' e he
          rcases List.mem_append.1 he with he | he
          · exact h.evFail c' n' e he
          · simp at he
      | some a =>
        simp only
        refine ⟨h.cache, h.fresh, h.sock, ?_, ?_, ?_, ?_, ?_⟩
        · intro d' hd' hdst'
          rcases List.mem_append.1 hd' with hd' | hd'
          · exact h.netQ d' (hsub d' hd') hdst'
          · simp only [List.mem_singleton] at hd'
            subst hd'
            simp only at hdst'
            rw [hsrc] at hdst'; cases hdst'
        · intro d' hd' c' p' hdst'
          rcases List.mem_append.1 hd' with hd' | hd'
          · exact h.netR d' (hsub d' hd') c' p' hdst'
          · simp only [List.mem_singleton] at hd'
            subst hd'
            simp only at hdst'
            rw [hsrc] at hdst'
            cases hdst'
            exact ⟨so, a, hfind, hget, rfl⟩
        · intro c' n' a' k' he
          rcases List.mem_append.1 he with he | he
          · exact h.evRes c' n' a' k' he
          · simp at he
        · intro c' n' id' m he
          rcases List.mem_append.1 he with he | he
          · exact h.evAcc c' n' id' m he
          · simp at he
        · intro c' n' e he
          rcases List.mem_append.1 he with he | he
          · exact h.evFail c' n' e he
          · simp at he
    | client c p =>
      simp only
      cases hfind : findSock s.socks c p with
      | none => simp only; exact h.drop_net _ _ hsub
      | some so =>
        cases hcl : s.clients[c]? with
        | none => simp only; exact h.drop_net _ _ hsub
        | some cl =>
          simp only
          split
          · exact h.drop_net _ _ hsub
          · obtain ⟨so', a, hfind', hget, hpay⟩ := h.netR d hdm c p hdst
            rw [hfind] at hfind'; cases hfind'
            have hso := h.sock so (findSock_mem hfind).1
            rw [hpay, onReply_response a hso.1 hso.2]
            simp only
            have hclients : ∀ (c' : Nat) (cl' : ClientSt), (s.clients.set c { cl with cache := cl.cache.put so.name a })[c']? = some cl' →
                ∃ cl0 : ClientSt, s.clients[c']? = some cl0 ∧ cl'.nextPort = cl0.nextPort ∧
                  (∀ n x, cl'.cache.get n = some x → (so.name = n ∧ x = a) ∨ cl0.cache.get n = some x) ∧
                  (∀ n x, cl0.cache.get n = some x → s.table.get n = some x → cl'.cache.get n = some x) := by
              intro c' cl' hc'
              rcases getElem?_set_cases hc' with ⟨rfl, rfl⟩ | ⟨_, hc'⟩
              · refine ⟨cl, hcl, rfl, ?_, ?_⟩
                · intro n x hx
                  simp only [Table.get_put] at hx
                  split at hx
                  · rename_i e; cases hx; exact .inl ⟨e, rfl⟩
                  · exact .inr hx
                · intro n x hx ht
                  simp only [Table.get_put]
                  split
                  · rename_i e; subst e; rw [hget] at ht; exact ht
                  · exact hx
              · exact ⟨cl', hc', rfl, fun n x hx => .inr hx, fun n x hx _ => hx⟩
            refine ⟨?_, ?_, ?_, ?_, ?_, ?_, ?_, ?_⟩
            · intro c' cl' n' a' hc' hg'
              obtain ⟨cl0, h0, _, hc1, _⟩ := hclients c' cl' hc'
              rcases hc1 n' a' hg' with ⟨rfl, rfl⟩ | hg0
              · exact hget
              · exact h.cache c' cl0 n' a' h0 hg0
            · intro so2 hso2 cl' hc'
              obtain ⟨so0, hso0, e1, e2, _, _⟩ := mem_markDone hso2
              obtain ⟨cl0, h0, hnp, _, _⟩ := hclients so2.client cl' hc'
              have := h.fresh so0 hso0 cl0 (by rw [← e1]; exact h0)
              omega
            · intro so2 hso2
              obtain ⟨so0, hso0, _, _, e3, e4⟩ := mem_markDone hso2
              rw [e3, e4]; exact h.sock so0 hso0
            · intro d' hd' hdst'
              obtain ⟨c', p', so1, h1, h2, h3⟩ := h.netQ d' (hsub d' hd') hdst'
              obtain ⟨so2, g1, g2, g3⟩ := findSock_markDone (c' := c) (p' := p) h2
              exact ⟨c', p', so2, h1, g1, by rw [g2, g3]; exact h3⟩
            · intro d' hd' c' p' hdst'
              obtain ⟨so1, a1, h1, h2, h3⟩ := h.netR d' (hsub d' hd') c' p' hdst'
              obtain ⟨so2, g1, g2, g3⟩ := findSock_markDone (c' := c) (p' := p) h1
              exact ⟨so2, a1, g1, by rw [g2]; exact h2, by rw [g2, g3]; exact h3⟩
            · intro c' n' a' k' he
              rcases List.mem_append.1 he with he | he
              · obtain ⟨h1, cl0, h2, h3⟩ := h.evRes c' n' a' k' he
                refine ⟨h1, ?_⟩
                by_cases hcc : c = c'
                · subst hcc
                  rw [hcl] at h2; cases h2
                  have hs := getElem?_set_self_of_some (x := { cl with cache := cl.cache.put so.name a }) hcl
                  obtain ⟨cl0', h0', _, _, hkeep⟩ := hclients c _ hs
                  rw [hcl] at h0'; cases h0'
                  exact ⟨_, hs, hkeep n' a' h3 h1⟩
                · exact ⟨cl0, by rw [List.getElem?_set_ne hcc]; exact h2, h3⟩
              · simp only [List.mem_cons, List.mem_nil_iff, or_false, reduceCtorEq, false_or, Event.resolved.injEq] at he
                obtain ⟨rfl, rfl, rfl, rfl⟩ := he
                refine ⟨hget, _, getElem?_set_self_of_some hcl, ?_⟩
                simp [Table.get_put]
            · intro c' n' id' m he
              rcases List.mem_append.1 he with he | he
              · exact h.evAcc c' n' id' m he
              · simp only [List.mem_cons, List.mem_nil_iff, or_false, reduceCtorEq, or_false, Event.accepted.injEq] at he
                obtain ⟨rfl, rfl, rfl, rfl⟩ := he
                exact ⟨rfl, rfl, rfl⟩
            · intro c' n' e he
              rcases List.mem_append.1 he with he | he
              · exact h.evFail c' n' e he
              · simp at he

theorem step_inv {s : Sys} {ch : Choice} (hb : sourceBudget = none) (hc : ChoiceOk ch) (h : Inv s) : Inv (step s ch) := by
  unfold step
  split
  · exact h
  · cases ch with
    | lookup c name id => exact stepLookup_inv hc.1 hc.2 h
    | deliver k => exact stepDeliver_inv hb h

theorem run_inv {s : Sys} {cs : List Choice} (hb : sourceBudget = none) (hc : ∀ ch ∈ cs, ChoiceOk ch) (h : Inv s) :
    Inv (run s cs) := by
  induction cs generalizing s with
  | nil => exact h
  | cons ch cs ih =>
    simp only [run, List.foldl_cons]
    exact ih (fun x hx => hc x (List.mem_cons_of_mem _ hx)) (step_inv hb (hc ch List.mem_cons_self) h)

/-! ### the table never changes -/

theorem step_table (s : Sys) (ch : Choice) : (step s ch).table = s.table := by
  unfold step
  split
  · rfl
  · cases ch with
    | lookup c name id =>
      simp only [stepLookup]
      repeat' split
      all_goals rfl
    | deliver k =>
      simp only [stepDeliver]
      repeat' split
      all_goals rfl

theorem run_table (s : Sys) (cs : List Choice) : (run s cs).table = s.table := by
  induction cs generalizing s with
  | nil => rfl
  | cons ch cs ih => simp only [run, List.foldl_cons]; exact (ih _).trans (step_table s ch)

/-- the result log only grows -/
theorem run_events_mono (s0 : Sys) (l : List Choice) (e : Event) (he : e ∈ s0.events) : e ∈ (run s0 l).events := by
  induction l generalizing s0 with
  | nil => exact he
  | cons ch l ih =>
    simp only [run, List.foldl_cons]
    apply ih
    unfold step
    split
    · exact he
    · cases ch with
      | lookup c' nm' id' =>
        simp only [stepLookup]
        repeat' split
        all_goals first | exact he | exact List.mem_append_left _ he
      | deliver k =>
        simp only [stepDeliver]
        repeat' split
        all_goals first | exact he | exact List.mem_append_left _ he

/-- a lookup that hits the cache: the address is returned, nothing else changes -/
theorem step_lookup_hit {s : Sys} {c : Nat} {name : Bytes} {id : Nat} {cl : ClientSt} {a : Addr}
    (hal : s.crashed = none) (hcl : s.clients[c]? = some cl) (hget : cl.cache.get name = some a) :
    step s (.lookup c name id) = { s with events := s.events ++ [.resolved c name a true] } := by
  unfold step stepLookup
  rw [hal]
  simp only [hcl, hget]


/-! ### progress: no lookup is lost -/

/-- datagram `d` belongs to the connection of socket (c, p): its query on the way to the server
    or a datagram on the way back to it -/
def Belongs (d : Datagram) (c p : Nat) : Prop := (d.src = .client c p ∧ d.dst = .server) ∨ d.dst = .client c p

structure Live (s : Sys) : Prop where
  /-- sockets are identified by (client, port) -/
  uniq : ∀ so ∈ s.socks, ∀ so' ∈ s.socks, so.client = so'.client → so.port = so'.port → so = so'
  valid : ∀ so ∈ s.socks, ∃ cl, s.clients[so.client]? = some cl
  /-- unless a panic ended the process, a socket still waiting for a name the server has a record
      of has a datagram in flight -/
  pending : s.crashed = none → ∀ so ∈ s.socks, so.done = false → (∃ a, s.table.get so.name = some a) →
    ∃ d ∈ s.net, Belongs d so.client so.port
  /-- a socket that consumed its reply made its lookup return -/
  doneRes : ∀ so ∈ s.socks, so.done = true → ∃ a, Event.resolved so.client so.name a false ∈ s.events

theorem init_live (table : Table) (n : Nat) : Live (init table n) := by
  refine ⟨?_, ?_, ?_, ?_⟩ <;> intros <;> simp_all [init]

theorem mem_eraseIdx_of_ne {l : List Datagram} {k : Nat} {d x : Datagram} (hk : l[k]? = some d) (hx : x ∈ l) (hne : x ≠ d) :
    x ∈ l.eraseIdx k := by
  obtain ⟨i, hi⟩ := List.mem_iff_getElem?.1 hx
  have hik : i ≠ k := by
    intro e; subst e; rw [hk] at hi; cases hi; exact hne rfl
  rcases Nat.lt_or_ge i k with h1 | h1
  · exact List.mem_iff_getElem?.2 ⟨i, by rw [List.getElem?_eraseIdx]; simp [h1, hi]⟩
  · have h2 : k < i := by omega
    refine List.mem_iff_getElem?.2 ⟨i - 1, ?_⟩
    rw [List.getElem?_eraseIdx]
    have h3 : ¬ (i - 1 < k) := by omega
    have h4 : i - 1 + 1 = i := by omega
    simp [h3, h4, hi]

theorem belongs_key {d : Datagram} {c p c' p' : Nat} (h : Belongs d c p) (h' : Belongs d c' p') : c = c' ∧ p = p' := by
  rcases h with ⟨h1, h2⟩ | h1 <;> rcases h' with ⟨h3, h4⟩ | h3
  · rw [h1] at h3; cases h3; exact ⟨rfl, rfl⟩
  · rw [h2] at h3; cases h3
  · rw [h4] at h1; cases h1
  · rw [h1] at h3; cases h3; exact ⟨rfl, rfl⟩

theorem stepLookup_live {s : Sys} {c : Nat} {name : Bytes} {id : Nat} (hi : Inv s) (h : Live s) :
    Live (stepLookup s c name id) := by
  unfold stepLookup
  cases hcl : s.clients[c]? with
  | none => exact h
  | some cl =>
    simp only
    cases hg : cl.cache.get name with
    | some a =>
      simp only
      refine ⟨h.uniq, h.valid, h.pending, ?_⟩
      intro so hso hd
      obtain ⟨a', ha'⟩ := h.doneRes so hso hd
      exact ⟨a', List.mem_append_left _ ha'⟩
    | none =>
      simp only
      split
      · refine ⟨h.uniq, h.valid, ?_, h.doneRes⟩
        intro hcr; cases hcr
      · have hfreshport : ∀ so ∈ s.socks, so.client = c → so.port ≠ cl.nextPort := by
          intro so hso hc
          have := hi.fresh so hso cl (by rw [hc]; exact hcl)
          omega
        refine ⟨?_, ?_, ?_, ?_⟩
        · intro so hso so' hso' e1 e2
          rcases List.mem_append.1 hso with hso | hso <;> rcases List.mem_append.1 hso' with hso' | hso'
          · exact h.uniq so hso so' hso' e1 e2
          · simp only [List.mem_singleton] at hso'; subst hso'
            exact absurd e2 (hfreshport so hso e1)
          · simp only [List.mem_singleton] at hso; subst hso
            exact absurd e2.symm (hfreshport so' hso' e1.symm)
          · simp only [List.mem_singleton] at hso hso'; rw [hso, hso']
        · intro so hso
          have hv : ∃ cl0, s.clients[so.client]? = some cl0 := by
            rcases List.mem_append.1 hso with hso | hso
            · exact h.valid so hso
            · simp only [List.mem_singleton] at hso; subst hso; exact ⟨cl, hcl⟩
          obtain ⟨cl0, h0⟩ := hv
          by_cases hcc : c = so.client
          · exact ⟨_, by rw [← hcc]; exact getElem?_set_self_of_some hcl⟩
          · exact ⟨cl0, by rw [List.getElem?_set_ne hcc]; exact h0⟩
        · intro hcr so hso hd hreg
          rcases List.mem_append.1 hso with hso | hso
          · obtain ⟨d, hdm, hb⟩ := h.pending hcr so hso hd hreg
            exact ⟨d, List.mem_append_left _ hdm, hb⟩
          · simp only [List.mem_singleton] at hso; subst hso
            exact ⟨_, List.mem_append_right _ (List.mem_singleton.2 rfl), .inl ⟨rfl, rfl⟩⟩
        · intro so hso hd
          rcases List.mem_append.1 hso with hso | hso
          · obtain ⟨a', ha'⟩ := h.doneRes so hso hd
            exact ⟨a', List.mem_append_left _ ha'⟩
          · simp only [List.mem_singleton] at hso; subst hso; cases hd

/-- dropping one datagram that belongs to no waiting socket keeps `Live` -/
theorem Live.drop {s : Sys} {k : Nat} {d : Datagram} (h : Live s) (hk : s.net[k]? = some d)
    (hnone : ∀ so ∈ s.socks, so.done = false → ¬ Belongs d so.client so.port) :
    Live { s with net := s.net.eraseIdx k } := by
  refine ⟨h.uniq, h.valid, ?_, h.doneRes⟩
  intro hcr so hso hd hreg
  obtain ⟨d2, hd2, hb⟩ := h.pending hcr so hso hd hreg
  refine ⟨d2, mem_eraseIdx_of_ne hk hd2 ?_, hb⟩
  intro e; subst e; exact hnone so hso hd hb

theorem stepDeliver_live {s : Sys} {k : Nat} (hb : sourceBudget = none) (hi : Inv s) (h : Live s) :
    Live (stepDeliver s k) := by
  unfold stepDeliver
  cases hd : s.net[k]? with
  | none => exact h
  | some d =>
    simp only
    have hdm : d ∈ s.net := List.mem_of_getElem? hd
    cases hdst : d.dst with
    | server =>
      simp only
      obtain ⟨c, p, so0, hsrc, hfind, hpay⟩ := hi.netQ d hdm hdst
      obtain ⟨hso0m, hso0c, hso0p⟩ := findSock_mem hfind
      have hso := hi.sock so0 hso0m
      have hresp : respond s.table d.payload =
          match s.table.get so0.name with
          | none => .error "err:Cache:server_unknown_name"
          | some a => .ok (createResponse (createRequest so0.name so0.id) a).build := by
        unfold respond; rw [hb, hpay]; exact respondWith_query hso.1 hso.2
      rw [hresp]
      cases hget : s.table.get so0.name with
      | none =>
        simp only
        refine ⟨h.uniq, h.valid, ?_, ?_⟩
        · intro hcr so hso1 hdn hreg
          obtain ⟨d2, hd2, hbl⟩ := h.pending hcr so hso1 hdn hreg
          refine ⟨d2, mem_eraseIdx_of_ne hd hd2 ?_, hbl⟩
          intro e; subst e
          rcases hbl with ⟨h1, _⟩ | h1
          · rw [hsrc] at h1; cases h1
            have := h.uniq so hso1 so0 hso0m hso0c.symm hso0p.symm
            subst this
            obtain ⟨a, ha⟩ := hreg
            rw [hget] at ha; cases ha
          · rw [hdst] at h1; cases h1
        · intro so hso1 hdn
          obtain ⟨a', ha'⟩ := h.doneRes so hso1 hdn
          exact ⟨a', List.mem_append_left _ ha'⟩
      | some a =>
        simp only
        refine ⟨h.uniq, h.valid, ?_, ?_⟩
        · intro hcr so hso1 hdn hreg
          obtain ⟨d2, hd2, hbl⟩ := h.pending hcr so hso1 hdn hreg
          by_cases e : d2 = d
          · subst e
            rcases hbl with ⟨h1, _⟩ | h1
            · exact ⟨_, List.mem_append_right _ (List.mem_singleton.2 rfl), .inr h1⟩
            · rw [hdst] at h1; cases h1
          · exact ⟨d2, List.mem_append_left _ (mem_eraseIdx_of_ne hd hd2 e), hbl⟩
        · intro so hso1 hdn
          obtain ⟨a', ha'⟩ := h.doneRes so hso1 hdn
          exact ⟨a', List.mem_append_left _ ha'⟩
    | client c p =>
      simp only
      have hkey : ∀ c' p', Belongs d c' p' → c' = c ∧ p' = p := by
        intro c' p' hbl
        exact belongs_key hbl (.inr hdst)
      cases hfind : findSock s.socks c p with
      | none =>
        simp only
        refine h.drop hd ?_
        intro so hso _ hbl
        obtain ⟨e1, e2⟩ := hkey _ _ hbl
        have hn : ¬ ((decide (so.client = c) && decide (so.port = p)) = true) := by
          have := List.find?_eq_none.1 (by unfold findSock at hfind; exact hfind) so hso
          exact this
        simp [e1, e2] at hn
      | some so =>
        obtain ⟨hsom, hsc, hsp⟩ := findSock_mem hfind
        obtain ⟨cl, hcl⟩ := h.valid so hsom
        rw [hsc] at hcl
        simp only [hcl]
        split
        · rename_i hdone
          refine h.drop hd ?_
          intro so2 hso2 hnd hbl
          obtain ⟨e1, e2⟩ := hkey _ _ hbl
          have := h.uniq so2 hso2 so hsom (by rw [e1, hsc]) (by rw [e2, hsp])
          subst this
          rw [hdone] at hnd; cases hnd
        · obtain ⟨so', a, hfind', hget, hpay⟩ := hi.netR d hdm c p hdst
          rw [hfind] at hfind'; cases hfind'
          have hsok := hi.sock so hsom
          rw [hpay, onReply_response a hsok.1 hsok.2]
          simp only
          have hmd : ∀ so2 ∈ markDone s.socks c p, ∃ so0 ∈ s.socks,
              (so0.client = c ∧ so0.port = p ∧ so2 = { so0 with done := true }) ∨
              (¬ (so0.client = c ∧ so0.port = p) ∧ so2 = so0) := by
            intro so2 hso2
            unfold markDone at hso2
            obtain ⟨so0, h0, rfl⟩ := List.mem_map.1 hso2
            refine ⟨so0, h0, ?_⟩
            by_cases hk : so0.client = c ∧ so0.port = p
            · left; exact ⟨hk.1, hk.2, by simp [hk.1, hk.2]⟩
            · right; refine ⟨hk, ?_⟩
              have : (decide (so0.client = c) && decide (so0.port = p)) = false := by
                rcases Classical.not_and_iff_not_or_not.1 hk with h1 | h1 <;> simp [h1]
              simp [this]
          refine ⟨?_, ?_, ?_, ?_⟩
          · intro s1 hs1 s2 hs2 e1 e2
            obtain ⟨a1, ha1, hc1⟩ := hmd s1 hs1
            obtain ⟨a2, ha2, hc2⟩ := hmd s2 hs2
            have hk1 : s1.client = a1.client ∧ s1.port = a1.port := by
              rcases hc1 with ⟨_, _, rfl⟩ | ⟨_, rfl⟩ <;> exact ⟨rfl, rfl⟩
            have hk2 : s2.client = a2.client ∧ s2.port = a2.port := by
              rcases hc2 with ⟨_, _, rfl⟩ | ⟨_, rfl⟩ <;> exact ⟨rfl, rfl⟩
            have := h.uniq a1 ha1 a2 ha2 (by rw [← hk1.1, ← hk2.1, e1]) (by rw [← hk1.2, ← hk2.2, e2])
            subst this
            rcases hc1 with ⟨x1, x2, rfl⟩ | ⟨x1, rfl⟩ <;> rcases hc2 with ⟨y1, y2, rfl⟩ | ⟨y1, rfl⟩
            · rfl
            · exact absurd ⟨x1, x2⟩ y1
            · exact absurd ⟨y1, y2⟩ x1
            · rfl
          · intro s1 hs1
            obtain ⟨a1, ha1, hc1⟩ := hmd s1 hs1
            have hk1 : s1.client = a1.client := by
              rcases hc1 with ⟨_, _, rfl⟩ | ⟨_, rfl⟩ <;> rfl
            obtain ⟨cl0, h0⟩ := h.valid a1 ha1
            rw [hk1]
            by_cases hcc : c = a1.client
            · exact ⟨_, by rw [← hcc]; exact getElem?_set_self_of_some hcl⟩
            · exact ⟨cl0, by rw [List.getElem?_set_ne hcc]; exact h0⟩
          · intro hcr s1 hs1 hnd hreg
            obtain ⟨a1, ha1, hc1⟩ := hmd s1 hs1
            rcases hc1 with ⟨_, _, rfl⟩ | ⟨hk, rfl⟩
            · cases hnd
            · obtain ⟨d2, hd2, hbl⟩ := h.pending hcr s1 ha1 hnd hreg
              refine ⟨d2, mem_eraseIdx_of_ne hd hd2 ?_, hbl⟩
              intro e; subst e
              exact hk (hkey _ _ hbl)
          · intro s1 hs1 hdn
            obtain ⟨a1, ha1, hc1⟩ := hmd s1 hs1
            rcases hc1 with ⟨x1, x2, rfl⟩ | ⟨_, rfl⟩
            · have := h.uniq a1 ha1 so hsom (by rw [x1, hsc]) (by rw [x2, hsp])
              subst this
              exact ⟨a, by simp [hsc]⟩
            · obtain ⟨a', ha'⟩ := h.doneRes s1 ha1 hdn
              exact ⟨a', List.mem_append_left _ ha'⟩

theorem run_live {s : Sys} {cs : List Choice} (hb : sourceBudget = none) (hc : ∀ ch ∈ cs, ChoiceOk ch)
    (hi : Inv s) (h : Live s) : Live (run s cs) := by
  induction cs generalizing s with
  | nil => exact h
  | cons ch cs ih =>
    simp only [run, List.foldl_cons]
    refine ih (fun x hx => hc x (List.mem_cons_of_mem _ hx)) (step_inv hb (hc ch List.mem_cons_self) hi) ?_
    unfold step
    split
    · exact h
    · cases ch with
      | lookup c name id => exact stepLookup_live hi h
      | deliver k => exact stepDeliver_live hb hi h

theorem run_append (s : Sys) (a b : List Choice) : run s (a ++ b) = run (run s a) b := by
  simp [run, List.foldl_append]

end Elvis.Dns
