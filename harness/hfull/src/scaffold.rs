//! Full-stack scaffold shared by the `hfull` properties (C02 C04 C05 C06 C13 C16 C20).
//! See `notes/SCAFFOLD.md` for the API summary and an example.
//!
//! * `Scenario` — networks + machines built from the REAL protocols (Pci, Ipv4, Arp, Udp, Tcp,
//!   SocketAPI) plus `Recorder<N>` harness applications; text (de)serialisation as `cfg` op lines
//! * `Recorder<const N: usize>` — harness protocol with a timed script (listen / open+send /
//!   send_pci / raw frame injection / shutdown / custom) that records every `demux` it receives
//! * `Log` — one globally ordered event log (virtual time stamps), fed by recorders and by the
//!   `Network::verif_set_hook` frame hook (every frame at send time and at each tap delivery)
//! * `run_scenario` — fresh tokio runtime per scenario, `start_paused(true)` or multi_thread(k)
//! * `run_cases` / `worker_loop` — scenarios execute in worker CHILD processes because
//!   `elvis_core::run_internet` installs a panic hook that calls `process::exit(1)`
#![allow(dead_code)]
use elvis_core::{
    machine::Machine,
    network::{Baud, Latency, Mac, NetworkBuilder, Throughput, VerifFrameEvent, VerifFrameEventKind, VerifFramePlan},
    protocol::{DemuxError, StartError},
    protocols::{
        ipv4::{ipv4_parsing::Ipv4Header, Ipv4, Ipv4Address, Recipient},
        pci,
        udp::UdpHeader,
        Arp, Endpoint, Endpoints, Pci, SocketAPI, Tcp, Udp,
    },
    subnetting::{Ipv4Mask, Ipv4Net},
    Control, ExitStatus, IpTable, Message, Network, Protocol, Session, Shutdown,
};
use hcommon::{hex, unhex};
use std::any::TypeId;
use std::cell::Cell;
use std::future::Future;
use std::io::{BufRead, Write};
use std::pin::Pin;
use std::sync::{Arc, Mutex, OnceLock};
use std::time::Duration;
use tokio::sync::Barrier;

// ------------------------------------------------------------------------------------------
// small value types
// ------------------------------------------------------------------------------------------

/// (IPv4 address as u32, port)
#[derive(Clone, Copy, Debug, PartialEq, Eq, PartialOrd, Ord, Hash)]
pub struct Ep {
    pub addr: u32,
    pub port: u16,
}
impl Ep {
    pub fn new(addr: u32, port: u16) -> Self {
        Ep { addr, port }
    }
    pub fn endpoint(self) -> Endpoint {
        Endpoint::new(Ipv4Address::from(self.addr), self.port)
    }
    pub fn parse(s: &str) -> Option<Ep> {
        let (a, p) = s.rsplit_once(':')?;
        Some(Ep { addr: parse_addr(a)?, port: p.parse().ok()? })
    }
}
impl std::fmt::Display for Ep {
    fn fmt(&self, f: &mut std::fmt::Formatter<'_>) -> std::fmt::Result {
        write!(f, "{}:{}", fmt_addr(self.addr), self.port)
    }
}
pub fn fmt_addr(a: u32) -> String {
    let b = a.to_be_bytes();
    format!("{}.{}.{}.{}", b[0], b[1], b[2], b[3])
}
pub fn parse_addr(s: &str) -> Option<u32> {
    let p: Vec<&str> = s.split('.').collect();
    if p.len() != 4 {
        return None;
    }
    let mut b = [0u8; 4];
    for i in 0..4 {
        b[i] = p[i].parse().ok()?;
    }
    Some(u32::from_be_bytes(b))
}
pub fn fmt_mac(m: Option<u64>) -> String {
    match m {
        None => "-".into(),
        Some(m) => format!("{}", m),
    }
}
pub fn parse_mac(s: &str) -> Option<Option<u64>> {
    if s == "-" {
        Some(None)
    } else {
        s.parse().ok().map(Some)
    }
}

/// The protocol a frame names (a `TypeId` in the code; a stable name in every printed line).
#[derive(Clone, Copy, Debug, PartialEq, Eq, Hash)]
pub enum Target {
    Ipv4,
    Udp,
    Arp,
    Tcp,
    Pci,
    Sockets,
    Rec(usize),
    /// a `TypeId` no machine carries
    Unknown,
}
struct NobodyHasThis;
impl Target {
    pub fn type_id(self) -> TypeId {
        match self {
            Target::Ipv4 => TypeId::of::<Ipv4>(),
            Target::Udp => TypeId::of::<Udp>(),
            Target::Arp => TypeId::of::<Arp>(),
            Target::Tcp => TypeId::of::<Tcp>(),
            Target::Pci => TypeId::of::<Pci>(),
            Target::Sockets => TypeId::of::<SocketAPI>(),
            Target::Rec(n) => rec_type_id(n),
            Target::Unknown => TypeId::of::<NobodyHasThis>(),
        }
    }
    pub fn name(self) -> String {
        match self {
            Target::Ipv4 => "ipv4".into(),
            Target::Udp => "udp".into(),
            Target::Arp => "arp".into(),
            Target::Tcp => "tcp".into(),
            Target::Pci => "pci".into(),
            Target::Sockets => "sock".into(),
            Target::Rec(n) => format!("rec{}", n),
            Target::Unknown => "unknown".into(),
        }
    }
    pub fn parse(s: &str) -> Option<Target> {
        Some(match s {
            "ipv4" => Target::Ipv4,
            "udp" => Target::Udp,
            "arp" => Target::Arp,
            "tcp" => Target::Tcp,
            "pci" => Target::Pci,
            "sock" => Target::Sockets,
            "unknown" => Target::Unknown,
            _ => Target::Rec(s.strip_prefix("rec")?.parse().ok()?),
        })
    }
    pub fn of(id: TypeId) -> Target {
        for t in [Target::Ipv4, Target::Udp, Target::Arp, Target::Tcp, Target::Pci, Target::Sockets] {
            if t.type_id() == id {
                return t;
            }
        }
        for n in 0..MAX_RECORDERS {
            if rec_type_id(n) == id {
                return Target::Rec(n);
            }
        }
        Target::Unknown
    }
    /// number used for protocols in the Lean models (`Pid`)
    pub fn pid(self) -> u64 {
        match self {
            Target::Ipv4 => 0,
            Target::Udp => 1,
            Target::Arp => 2,
            Target::Tcp => 3,
            Target::Pci => 4,
            Target::Sockets => 5,
            Target::Rec(n) => 10 + n as u64,
            Target::Unknown => 99,
        }
    }
}

// ------------------------------------------------------------------------------------------
// event log
// ------------------------------------------------------------------------------------------

#[derive(Clone, Copy, Debug, PartialEq, Eq)]
pub struct LinkInfo {
    pub slot: u32,
    pub src: u64,
    pub dst: Option<u64>,
    pub mtu: u16,
}

#[derive(Clone, Debug)]
pub enum Ev {
    /// result of `Udp::listen`
    Listen { machine: usize, app: usize, ep: Ep, result: String },
    /// result of `Udp::open_for_sending` / `open_and_listen`
    Open { machine: usize, app: usize, act: usize, local: Ep, remote: Ep, listen: bool, result: String },
    /// result of `Session::send` of payload `idx` of an `Open` action
    Sent { machine: usize, app: usize, act: usize, idx: usize, len: usize, result: String },
    /// result of `PciSession::send_pci`
    PciSend { machine: usize, app: usize, act: usize, slot: u32, dst: Option<u64>, target: Target, len: usize, result: String },
    /// a raw frame handed to a tap with `PciSession::verif_receive` (logged BEFORE the call;
    /// `InjectResult` follows when the call returns)
    Inject { machine: usize, app: usize, act: usize, slot: u32, smac: u64, dst: Option<u64>, target: Target, bytes: Vec<u8> },
    InjectResult { cause: usize, result: String },
    /// frame hook: `to = None` at send time (top of `Network::send`), `Some(mac)` right before
    /// the frame is handed to that tap
    Wire { net: usize, to: Option<u64>, smac: u64, dst: Option<u64>, target: Target, bytes: Vec<u8>, plan: String },
    /// one `demux` call on a recorder; `cause` = id of the `Wire{to:Some}` / `Inject` event whose
    /// synchronous call chain this demux belongs to
    Demux { machine: usize, app: usize, cause: Option<usize>, payload: Vec<u8>, local: Option<Ep>, remote: Option<Ep>, link: Option<LinkInfo> },
    Shutdown { machine: usize, app: usize, status: Option<u32> },
    /// result of the echo `caller.send(ECHO+id)` a recorder made for `Demux` event `demux`
    Echo { demux: usize, result: String },
    Note(String),
}

#[derive(Clone, Debug)]
pub struct Event {
    /// position in the log = global order
    pub id: usize,
    /// virtual microseconds since the scenario started (real ones on a multi_thread runtime)
    pub t_us: u64,
    pub ev: Ev,
}

pub struct Log {
    t0: Mutex<Option<tokio::time::Instant>>,
    events: Mutex<Vec<Event>>,
    /// address of each `Network` value → index
    nets: Mutex<Vec<usize>>,
}

thread_local! {
    /// id of the tap-delivery / injection event whose synchronous call chain runs on this thread
    static CAUSE: Cell<Option<usize>> = Cell::new(None);
}
pub fn set_cause(c: Option<usize>) {
    CAUSE.with(|x| x.set(c));
}
pub fn current_cause() -> Option<usize> {
    CAUSE.with(|x| x.get())
}

impl Log {
    pub fn new() -> Arc<Log> {
        Arc::new(Log { t0: Mutex::new(None), events: Mutex::new(vec![]), nets: Mutex::new(vec![]) })
    }
    pub fn start_clock(&self) {
        *self.t0.lock().unwrap() = Some(tokio::time::Instant::now());
    }
    pub fn now_us(&self) -> u64 {
        match *self.t0.lock().unwrap() {
            Some(t0) => tokio::time::Instant::now().saturating_duration_since(t0).as_micros() as u64,
            None => 0,
        }
    }
    pub fn push(&self, ev: Ev) -> usize {
        let t_us = self.now_us();
        let mut g = self.events.lock().unwrap();
        let id = g.len();
        g.push(Event { id, t_us, ev });
        id
    }
    /// Run `f` and log its event while holding the log lock, so that on a multi_thread runtime
    /// the log order of such operations is their real order (`f` must not log).
    pub fn push_with<R>(&self, f: impl FnOnce() -> (Ev, R)) -> (usize, R) {
        let t_us = self.now_us();
        let mut g = self.events.lock().unwrap();
        let (ev, r) = f();
        let id = g.len();
        g.push(Event { id, t_us, ev });
        (id, r)
    }
    /// Replace the result of an already logged `Listen` event (used by `open_and_listen`, whose
    /// bind happens at the call but whose result is known only after the awaited open).
    pub fn set_listen_result(&self, id: usize, r: String) {
        if let Some(Event { ev: Ev::Listen { result, .. }, .. }) = self.events.lock().unwrap().get_mut(id) {
            *result = r;
        }
    }
    pub fn len(&self) -> usize {
        self.events.lock().unwrap().len()
    }
    pub fn snapshot(&self) -> Vec<Event> {
        self.events.lock().unwrap().clone()
    }
    pub fn count(&self, f: impl Fn(&Ev) -> bool) -> usize {
        self.events.lock().unwrap().iter().filter(|e| f(&e.ev)).count()
    }
    fn net_index(&self, ptr: usize) -> usize {
        self.nets.lock().unwrap().iter().position(|p| *p == ptr).unwrap_or(usize::MAX)
    }
}

/// What the frame hook shows a planner at send time.
pub struct WireSend<'a> {
    pub net: usize,
    pub smac: u64,
    pub dst: Option<u64>,
    pub target: Target,
    pub bytes: &'a [u8],
}
/// Decides the fate of a frame at send time (drop / delay / duplicate); must take its
/// randomness from the harness' seeded `Rng` (wrap it in a `Mutex`).
pub type Planner = Arc<dyn Fn(&WireSend) -> VerifFramePlan + Send + Sync>;

/// (c) frame log: installs the `verif` hook on `network`; every frame is logged at send time and
/// at each tap delivery; `planner` (optional) plans drop/delay/duplicate at send time.
pub fn install_frame_log(net_idx: usize, network: &Arc<Network>, log: &Arc<Log>, planner: Option<Planner>) {
    {
        let mut nets = log.nets.lock().unwrap();
        while nets.len() <= net_idx {
            nets.push(0);
        }
        nets[net_idx] = Arc::as_ptr(network) as usize;
    }
    let log = log.clone();
    network.verif_set_hook(Some(Arc::new(move |e: &VerifFrameEvent| {
        let bytes = e.message.to_vec();
        let target = Target::of(e.protocol);
        let net = log.net_index(e.network);
        match e.kind {
            VerifFrameEventKind::Send => {
                let plan = match &planner {
                    Some(p) => p(&WireSend { net, smac: e.sender, dst: e.destination, target, bytes: &bytes }),
                    None => VerifFramePlan::Deliver,
                };
                let plan_s = match plan {
                    VerifFramePlan::Deliver => "deliver".to_string(),
                    VerifFramePlan::Drop => "drop".to_string(),
                    VerifFramePlan::Delay(d) => format!("delay:{}", d.as_micros()),
                    VerifFramePlan::Duplicate(d) => format!("dup:{}", d.as_micros()),
                };
                set_cause(None);
                log.push(Ev::Wire { net, to: None, smac: e.sender, dst: e.destination, target, bytes, plan: plan_s });
                plan
            }
            VerifFrameEventKind::Deliver(mac) => {
                let id = log.push(Ev::Wire { net, to: Some(mac), smac: e.sender, dst: e.destination, target, bytes, plan: String::new() });
                set_cause(Some(id));
                VerifFramePlan::Deliver
            }
        }
    })));
}

// ------------------------------------------------------------------------------------------
// scenario description
// ------------------------------------------------------------------------------------------

#[derive(Clone, Debug, PartialEq)]
pub struct NetSpec {
    pub mtu: Option<u16>,
    /// latency (base, randomness) in microseconds
    pub lat_us: (u64, u64),
    /// throughput (base, randomness) in bytes per second; base 0 = unlimited
    pub thr: (u64, u64),
}
impl Default for NetSpec {
    fn default() -> Self {
        NetSpec { mtu: None, lat_us: (0, 0), thr: (0, 0) }
    }
}

#[derive(Clone, Debug, PartialEq)]
pub struct Route {
    pub addr: u32,
    pub mask_len: u32,
    pub slot: u32,
    pub mac: Option<u64>,
}

pub type CustomFn = Arc<dyn Fn(Ctx) -> Pin<Box<dyn Future<Output = ()> + Send>> + Send + Sync>;

#[derive(Clone)]
pub enum ActionKind {
    /// `Udp::listen(recorder id, ep)`
    Listen(Ep),
    /// `Udp::open_for_sending` (or `open_and_listen`) then `Session::send` of every payload
    Open { local: Ep, remote: Ep, listen: bool, payloads: Vec<Vec<u8>> },
    /// `Pci::open(slot).send_pci(bytes, dst, target)`
    SendPci { slot: u32, dst: Option<u64>, target: Target, bytes: Vec<u8> },
    /// `Pci::open(slot).verif_receive(bytes, smac, dst, target)` — raw frame injection
    Inject { slot: u32, smac: u64, dst: Option<u64>, target: Target, bytes: Vec<u8> },
    /// `Shutdown::shut_down()` / `shut_down_with_status(Status(n))`
    Shutdown(Option<u32>),
    /// anything else; not serialisable (scenarios using it must be rebuilt by their generator)
    Custom(CustomFn),
}

#[derive(Clone)]
pub struct Action {
    /// virtual microseconds after the start barrier; `None` = in `start()` before the barrier
    pub at: Option<u64>,
    pub kind: ActionKind,
}

#[derive(Clone, Default)]
pub struct AppSpec {
    /// which `Recorder<N>`
    pub n: usize,
    pub script: Vec<Action>,
    /// answer every datagram through the caller session with the 8 bytes `ECHO` + id of the
    /// `Demux` event (makes the session's endpoints observable on the wire); echoes are not echoed
    pub echo: bool,
}

#[derive(Clone, Default)]
pub struct MachineSpec {
    /// network index per PCI slot
    pub nets: Vec<usize>,
    pub arp: bool,
    pub udp: bool,
    pub tcp: bool,
    pub sockets: bool,
    pub routes: Vec<Route>,
    pub apps: Vec<AppSpec>,
}

#[derive(Clone, Copy, Debug, PartialEq, Eq)]
pub enum RtMode {
    /// current_thread runtime, `start_paused(true)`: virtual time, exact and instant
    Paused,
    /// multi_thread runtime with k workers (real time)
    MultiThread(usize),
}

#[derive(Clone)]
pub struct Scenario {
    pub nets: Vec<NetSpec>,
    pub machines: Vec<MachineSpec>,
    pub mode: RtMode,
    /// `run_internet_with_timeout` duration (virtual microseconds in `Paused` mode)
    pub duration_us: u64,
}

impl Scenario {
    /// MAC of every (machine, slot): taps get the network's `next_mac` counter in construction
    /// order (machines in index order, slots in order).
    pub fn macs(&self) -> Vec<Vec<u64>> {
        let mut next = vec![0u64; self.nets.len()];
        self.machines
            .iter()
            .map(|m| {
                m.nets
                    .iter()
                    .map(|n| {
                        let v = next[*n];
                        next[*n] += 1;
                        v
                    })
                    .collect()
            })
            .collect()
    }

    /// `cfg …` op lines (without the `cfg ` prefix) describing the whole scenario
    pub fn to_lines(&self) -> Vec<String> {
        let mut l = vec![];
        for (i, n) in self.nets.iter().enumerate() {
            l.push(format!(
                "net {} mtu={} lat={},{} thr={},{}",
                i,
                n.mtu.map(|m| m.to_string()).unwrap_or("-".into()),
                n.lat_us.0,
                n.lat_us.1,
                n.thr.0,
                n.thr.1
            ));
        }
        for (i, m) in self.machines.iter().enumerate() {
            let nets = if m.nets.is_empty() { "-".to_string() } else { m.nets.iter().map(|x| x.to_string()).collect::<Vec<_>>().join(",") };
            let routes = if m.routes.is_empty() {
                "-".to_string()
            } else {
                m.routes.iter().map(|r| format!("{}/{}/{}/{}", fmt_addr(r.addr), r.mask_len, r.slot, fmt_mac(r.mac))).collect::<Vec<_>>().join(";")
            };
            let mut pids: Vec<u64> = vec![Target::Pci.pid(), Target::Ipv4.pid()];
            if m.arp {
                pids.push(Target::Arp.pid());
            }
            if m.udp {
                pids.push(Target::Udp.pid());
            }
            if m.tcp {
                pids.push(Target::Tcp.pid());
            }
            if m.sockets {
                pids.push(Target::Sockets.pid());
            }
            for a in &m.apps {
                pids.push(Target::Rec(a.n).pid());
            }
            pids.sort();
            l.push(format!(
                "machine {} nets={} arp={} udp={} tcp={} sock={} routes={} pids={}",
                i,
                nets,
                m.arp as u8,
                m.udp as u8,
                m.tcp as u8,
                m.sockets as u8,
                routes,
                pids.iter().map(|x| x.to_string()).collect::<Vec<_>>().join(",")
            ));
            for a in &m.apps {
                l.push(format!("app {} {}{}", i, a.n, if a.echo { " echo=1" } else { "" }));
                for act in &a.script {
                    let t = act.at.map(|t| t.to_string()).unwrap_or("pre".into());
                    let body = match &act.kind {
                        ActionKind::Listen(ep) => format!("listen {}", ep),
                        ActionKind::Open { local, remote, listen, payloads } => format!(
                            "open {} {} listen={} sends={}",
                            local,
                            remote,
                            *listen as u8,
                            if payloads.is_empty() { "none".to_string() } else { payloads.iter().map(|p| hex(p)).collect::<Vec<_>>().join(";") }
                        ),
                        ActionKind::SendPci { slot, dst, target, bytes } => {
                            format!("sendpci slot={} dst={} tgt={} bytes={}", slot, fmt_mac(*dst), target.name(), hex(bytes))
                        }
                        ActionKind::Inject { slot, smac, dst, target, bytes } => {
                            format!("inject slot={} smac={} dst={} tgt={} bytes={}", slot, smac, fmt_mac(*dst), target.name(), hex(bytes))
                        }
                        ActionKind::Shutdown(s) => format!("shutdown {}", s.map(|x| x.to_string()).unwrap_or("-".into())),
                        ActionKind::Custom(_) => "custom".to_string(),
                    };
                    l.push(format!("act {} {} {} {}", i, a.n, t, body));
                }
            }
        }
        l.push(format!(
            "run mode={} dur={}",
            match self.mode {
                RtMode::Paused => "paused".to_string(),
                RtMode::MultiThread(k) => format!("mt:{}", k),
            },
            self.duration_us
        ));
        l
    }

    /// inverse of `to_lines`; lines may carry the `cfg ` prefix; unknown lines are ignored
    pub fn from_lines<'a>(lines: impl IntoIterator<Item = &'a str>) -> Result<Scenario, String> {
        let mut sc = Scenario { nets: vec![], machines: vec![], mode: RtMode::Paused, duration_us: 1_000_000 };
        let kv = |w: &str, k: &str| -> Option<String> { w.strip_prefix(k).and_then(|r| r.strip_prefix('=')).map(|s| s.to_string()) };
        for raw in lines {
            let line = raw.trim().strip_prefix("cfg ").unwrap_or(raw.trim());
            let w: Vec<&str> = line.split_whitespace().collect();
            let bad = || format!("bad cfg line `{}`", line);
            match w.as_slice() {
                ["net", _i, mtu, lat, thr] => {
                    let mtu = kv(mtu, "mtu").ok_or_else(bad)?;
                    let lat = kv(lat, "lat").ok_or_else(bad)?;
                    let thr = kv(thr, "thr").ok_or_else(bad)?;
                    let pair = |s: &str| -> Option<(u64, u64)> {
                        let (a, b) = s.split_once(',')?;
                        Some((a.parse().ok()?, b.parse().ok()?))
                    };
                    sc.nets.push(NetSpec {
                        mtu: if mtu == "-" { None } else { Some(mtu.parse().map_err(|_| bad())?) },
                        lat_us: pair(&lat).ok_or_else(bad)?,
                        thr: pair(&thr).ok_or_else(bad)?,
                    });
                }
                ["machine", _i, nets, arp, udp, tcp, sock, routes, ..] => {
                    let nets = kv(nets, "nets").ok_or_else(bad)?;
                    let routes = kv(routes, "routes").ok_or_else(bad)?;
                    let flag = |s: &str, k: &str| kv(s, k).map(|v| v == "1").unwrap_or(false);
                    let mut m = MachineSpec {
                        nets: if nets == "-" { vec![] } else { nets.split(',').map(|x| x.parse().unwrap_or(0)).collect() },
                        arp: flag(arp, "arp"),
                        udp: flag(udp, "udp"),
                        tcp: flag(tcp, "tcp"),
                        sockets: flag(sock, "sock"),
                        routes: vec![],
                        apps: vec![],
                    };
                    if routes != "-" {
                        for r in routes.split(';') {
                            let p: Vec<&str> = r.split('/').collect();
                            if p.len() != 4 {
                                return Err(bad());
                            }
                            m.routes.push(Route {
                                addr: parse_addr(p[0]).ok_or_else(bad)?,
                                mask_len: p[1].parse().map_err(|_| bad())?,
                                slot: p[2].parse().map_err(|_| bad())?,
                                mac: parse_mac(p[3]).ok_or_else(bad)?,
                            });
                        }
                    }
                    sc.machines.push(m);
                }
                ["app", m, n, rest @ ..] => {
                    let m: usize = m.parse().map_err(|_| bad())?;
                    let n: usize = n.parse().map_err(|_| bad())?;
                    sc.machines.get_mut(m).ok_or_else(bad)?.apps.push(AppSpec { n, script: vec![], echo: rest.contains(&"echo=1") });
                }
                ["act", m, n, t, kind, rest @ ..] => {
                    let m: usize = m.parse().map_err(|_| bad())?;
                    let n: usize = n.parse().map_err(|_| bad())?;
                    let at = if *t == "pre" { None } else { Some(t.parse::<u64>().map_err(|_| bad())?) };
                    let get = |k: &str| -> Option<String> { rest.iter().find_map(|x| kv(x, k)) };
                    let k = match (*kind, rest) {
                        ("listen", [ep]) => ActionKind::Listen(Ep::parse(ep).ok_or_else(bad)?),
                        ("open", [l, r, ..]) => ActionKind::Open {
                            local: Ep::parse(l).ok_or_else(bad)?,
                            remote: Ep::parse(r).ok_or_else(bad)?,
                            listen: get("listen").map(|v| v == "1").unwrap_or(false),
                            payloads: {
                                let s = get("sends").ok_or_else(bad)?;
                                if s == "none" {
                                    vec![]
                                } else {
                                    s.split(';').map(unhex).collect()
                                }
                            },
                        },
                        ("sendpci", _) => ActionKind::SendPci {
                            slot: get("slot").and_then(|v| v.parse().ok()).ok_or_else(bad)?,
                            dst: get("dst").and_then(|v| parse_mac(&v)).ok_or_else(bad)?,
                            target: get("tgt").and_then(|v| Target::parse(&v)).ok_or_else(bad)?,
                            bytes: unhex(&get("bytes").ok_or_else(bad)?),
                        },
                        ("inject", _) => ActionKind::Inject {
                            slot: get("slot").and_then(|v| v.parse().ok()).ok_or_else(bad)?,
                            smac: get("smac").and_then(|v| v.parse().ok()).ok_or_else(bad)?,
                            dst: get("dst").and_then(|v| parse_mac(&v)).ok_or_else(bad)?,
                            target: get("tgt").and_then(|v| Target::parse(&v)).ok_or_else(bad)?,
                            bytes: unhex(&get("bytes").ok_or_else(bad)?),
                        },
                        ("shutdown", [s]) => ActionKind::Shutdown(if *s == "-" { None } else { Some(s.parse().map_err(|_| bad())?) }),
                        _ => return Err(bad()),
                    };
                    let mach = sc.machines.get_mut(m).ok_or_else(bad)?;
                    let app = mach.apps.iter_mut().find(|a| a.n == n).ok_or_else(bad)?;
                    app.script.push(Action { at, kind: k });
                }
                ["run", mode, dur] => {
                    let mode = kv(mode, "mode").ok_or_else(bad)?;
                    sc.mode = if mode == "paused" {
                        RtMode::Paused
                    } else {
                        RtMode::MultiThread(mode.strip_prefix("mt:").and_then(|k| k.parse().ok()).ok_or_else(bad)?)
                    };
                    sc.duration_us = kv(dur, "dur").and_then(|v| v.parse().ok()).ok_or_else(bad)?;
                }
                _ => {}
            }
        }
        if sc.machines.is_empty() {
            return Err("no machine in scenario".into());
        }
        Ok(sc)
    }
}

// ------------------------------------------------------------------------------------------
// Recorder<N>
// ------------------------------------------------------------------------------------------

pub const MAX_RECORDERS: usize = 8;
pub const ECHO_TAG: &[u8] = b"ECHO";

/// Harness application.  `Recorder<0>` … `Recorder<7>` are distinct types (distinct `TypeId`s),
/// so several can sit on one machine.  Runs its script from `start()`, logs every `demux`.
pub struct Recorder<const N: usize> {
    pub machine_idx: usize,
    pub script: Vec<Action>,
    pub echo: bool,
    pub log: Arc<Log>,
    shutdown: OnceLock<Shutdown>,
}

/// What a custom action gets.
#[derive(Clone)]
pub struct Ctx {
    pub machine_idx: usize,
    pub app: usize,
    pub act: usize,
    pub id: TypeId,
    pub machine: Arc<Machine>,
    pub log: Arc<Log>,
    pub shutdown: Shutdown,
}

pub fn rec_type_id(n: usize) -> TypeId {
    match n {
        0 => TypeId::of::<Recorder<0>>(),
        1 => TypeId::of::<Recorder<1>>(),
        2 => TypeId::of::<Recorder<2>>(),
        3 => TypeId::of::<Recorder<3>>(),
        4 => TypeId::of::<Recorder<4>>(),
        5 => TypeId::of::<Recorder<5>>(),
        6 => TypeId::of::<Recorder<6>>(),
        7 => TypeId::of::<Recorder<7>>(),
        _ => panic!("Recorder index {} out of range (MAX_RECORDERS = {})", n, MAX_RECORDERS),
    }
}

impl<const N: usize> Recorder<N> {
    pub fn new(machine_idx: usize, script: Vec<Action>, log: Arc<Log>) -> Self {
        Recorder { machine_idx, script, echo: false, log, shutdown: OnceLock::new() }
    }
    pub fn echo(mut self, on: bool) -> Self {
        self.echo = on;
        self
    }
}

/// Error class of a result: the chain of enum variant names of the `Debug` form
/// (`err:Listen:Existing`, `err:Mtu`), never payload values, `TypeId`s or addresses.
pub fn fmt_err<E: std::fmt::Debug>(r: &Result<(), E>) -> String {
    match r {
        Ok(()) => "ok".into(),
        Err(e) => {
            let s = format!("{:?}", e);
            let mut out = String::from("err");
            let mut rest = s.as_str();
            loop {
                let head: String = rest.chars().take_while(|c| c.is_alphanumeric() || *c == '_').collect();
                if head.is_empty() || head.chars().next().map(|c| !c.is_ascii_uppercase()).unwrap_or(true) {
                    break;
                }
                if ["Endpoint", "Endpoints", "Ipv4Address", "TypeId", "AddressPair"].contains(&head.as_str()) {
                    break;
                }
                out.push(':');
                out.push_str(&head);
                rest = &rest[head.len()..];
                match rest.strip_prefix('(') {
                    Some(r2) => rest = r2,
                    None => break,
                }
            }
            out
        }
    }
}

/// Executes one scripted action (shared by all `Recorder<N>`).
pub async fn perform(ctx: &Ctx, kind: &ActionKind) {
    let (m, a, act) = (ctx.machine_idx, ctx.app, ctx.act);
    match kind {
        ActionKind::Listen(ep) => {
            ctx.log.push_with(|| {
                let r = match ctx.machine.protocol::<Udp>() {
                    Some(udp) => fmt_err(&udp.listen(ctx.id, ep.endpoint(), ctx.machine.clone())),
                    None => "err:no-udp".into(),
                };
                (Ev::Listen { machine: m, app: a, ep: *ep, result: r }, ())
            });
        }
        ActionKind::Open { local, remote, listen, payloads } => {
            let Some(udp) = ctx.machine.protocol::<Udp>() else {
                ctx.log.push(Ev::Open { machine: m, app: a, act, local: *local, remote: *remote, listen: *listen, result: "err:no-udp".into() });
                return;
            };
            let eps = Endpoints::new(local.endpoint(), remote.endpoint());
            // the bind of open_and_listen takes effect now, its result is known after the await
            let listen_id = if *listen { Some(ctx.log.push(Ev::Listen { machine: m, app: a, ep: *local, result: "pending".into() })) } else { None };
            let (session, result): (Option<Arc<dyn Session>>, String) = if *listen {
                match udp.open_and_listen(ctx.id, eps, ctx.machine.clone()).await {
                    Ok(s) => (Some(s), "ok".into()),
                    Err(e) => (None, fmt_err::<_>(&Err::<(), _>(e))),
                }
            } else {
                match udp.open_for_sending(ctx.id, eps, ctx.machine.clone()).await {
                    Ok(s) => (Some(s), "ok".into()),
                    Err(e) => (None, fmt_err::<_>(&Err::<(), _>(e))),
                }
            };
            if let Some(id) = listen_id {
                // the listen half of open_and_listen, for binding bookkeeping
                let lr = if result == "ok" || !result.starts_with("err:Listen") { "ok".to_string() } else { result.clone() };
                ctx.log.set_listen_result(id, lr);
            }
            ctx.log.push(Ev::Open { machine: m, app: a, act, local: *local, remote: *remote, listen: *listen, result });
            if let Some(s) = session {
                for (idx, p) in payloads.iter().enumerate() {
                    set_cause(None);
                    let r = s.send(Message::new(p.clone()), ctx.machine.clone());
                    ctx.log.push(Ev::Sent { machine: m, app: a, act, idx, len: p.len(), result: fmt_err(&r) });
                }
            }
        }
        ActionKind::SendPci { slot, dst, target, bytes } => {
            let pci = ctx.machine.protocol::<Pci>().expect("machine has Pci");
            set_cause(None);
            let r = if (*slot as usize) < pci.slot_count() {
                fmt_err(&pci.open(*slot).send_pci(Message::new(bytes.clone()), *dst, target.type_id()))
            } else {
                "err:no-slot".into()
            };
            ctx.log.push(Ev::PciSend { machine: m, app: a, act, slot: *slot, dst: *dst, target: *target, len: bytes.len(), result: r });
        }
        ActionKind::Inject { slot, smac, dst, target, bytes } => {
            let pci = ctx.machine.protocol::<Pci>().expect("machine has Pci");
            let id = ctx.log.push(Ev::Inject { machine: m, app: a, act, slot: *slot, smac: *smac, dst: *dst, target: *target, bytes: bytes.clone() });
            let r = if (*slot as usize) < pci.slot_count() {
                set_cause(Some(id));
                let r = pci.open(*slot).verif_receive(Message::new(bytes.clone()), *smac as Mac, *dst, target.type_id());
                set_cause(None);
                match r {
                    Ok(()) => "ok".to_string(),
                    Err(pci::pci_session::ReceiveError::Protocol(_)) => "err:Protocol".to_string(),
                    Err(pci::pci_session::ReceiveError::Demux(e)) => format!("err:Demux:{}", fmt_err(&Err::<(), _>(e)).trim_start_matches("err:")),
                }
            } else {
                "err:no-slot".into()
            };
            ctx.log.push(Ev::InjectResult { cause: id, result: r });
        }
        ActionKind::Shutdown(status) => {
            ctx.log.push(Ev::Shutdown { machine: m, app: a, status: *status });
            match status {
                None => ctx.shutdown.shut_down(),
                Some(s) => ctx.shutdown.shut_down_with_status(ExitStatus::Status(*s)),
            }
        }
        ActionKind::Custom(f) => f(ctx.clone()).await,
    }
}

#[async_trait::async_trait]
impl<const N: usize> Protocol for Recorder<N> {
    async fn start(&self, shutdown: Shutdown, initialized: Arc<Barrier>, machine: Arc<Machine>) -> Result<(), StartError> {
        let _ = self.shutdown.set(shutdown.clone());
        let mut ctx = Ctx { machine_idx: self.machine_idx, app: N, act: 0, id: self.id(), machine, log: self.log.clone(), shutdown };
        for (i, a) in self.script.iter().enumerate() {
            if a.at.is_none() {
                ctx.act = i;
                perform(&ctx, &a.kind).await;
            }
        }
        initialized.wait().await;
        let t0 = tokio::time::Instant::now();
        let mut timed: Vec<(usize, &Action)> = self.script.iter().enumerate().filter(|(_, a)| a.at.is_some()).collect();
        timed.sort_by_key(|(i, a)| (a.at.unwrap(), *i));
        for (i, a) in timed {
            tokio::time::sleep_until(t0 + Duration::from_micros(a.at.unwrap())).await;
            ctx.act = i;
            perform(&ctx, &a.kind).await;
        }
        Ok(())
    }

    fn demux(&self, message: Message, caller: Arc<dyn Session>, control: Control, machine: Arc<Machine>) -> Result<(), DemuxError> {
        let ip = control.get::<Ipv4Header>().copied();
        let udp = control.get::<UdpHeader>().copied();
        let link = control.get::<pci::DemuxInfo>().map(|d| LinkInfo { slot: d.slot, src: d.source, dst: d.destination, mtu: d.mtu });
        let (local, remote) = match (ip, udp) {
            (Some(ip), Some(udp)) => (
                Some(Ep::new(ip.destination.to_u32(), udp.destination)),
                Some(Ep::new(ip.source.to_u32(), udp.source)),
            ),
            _ => (None, None),
        };
        let payload = message.to_vec();
        let is_echo = payload.starts_with(ECHO_TAG);
        let id = self.log.push(Ev::Demux { machine: self.machine_idx, app: N, cause: current_cause(), payload, local, remote, link });
        if self.echo && !is_echo && local.is_some() {
            let mut tag = ECHO_TAG.to_vec();
            tag.extend_from_slice(&(id as u32).to_be_bytes());
            let r = caller.send(Message::new(tag), machine);
            self.log.push(Ev::Echo { demux: id, result: fmt_err(&r) });
        }
        Ok(())
    }
}

/// Quiescence controller for real-time (multi_thread) runs, where waiting out the timeout would
/// cost wall-clock time: shuts the simulation down once the log has not grown for
/// `stable_ms` milliseconds.  Add it with the `extra` argument of `run_scenario_with`.
pub struct Quiesce {
    pub log: Arc<Log>,
    pub active: bool,
    pub stable_ms: u64,
}
#[async_trait::async_trait]
impl Protocol for Quiesce {
    async fn start(&self, shutdown: Shutdown, initialized: Arc<Barrier>, _m: Arc<Machine>) -> Result<(), StartError> {
        initialized.wait().await;
        if !self.active {
            return Ok(());
        }
        let mut last = usize::MAX;
        let mut stable = 0;
        loop {
            tokio::time::sleep(Duration::from_millis(5)).await;
            let n = self.log.len();
            if n == last {
                stable += 5;
            } else {
                stable = 0;
                last = n;
            }
            // every frame an application handed down successfully has entered its network
            let handed = self.log.count(|e| matches!(e, Ev::Sent { result, .. } | Ev::PciSend { result, .. } | Ev::Echo { result, .. } if result == "ok"));
            let on_wire = self.log.count(|e| matches!(e, Ev::Wire { to: None, .. }));
            if stable >= self.stable_ms && on_wire >= handed {
                shutdown.shut_down();
                return Ok(());
            }
        }
    }
    fn demux(&self, _m: Message, _c: Arc<dyn Session>, _k: Control, _ma: Arc<Machine>) -> Result<(), DemuxError> {
        Ok(())
    }
}

// ------------------------------------------------------------------------------------------
// (a) building machines from the real protocols
// ------------------------------------------------------------------------------------------

pub fn build_network(spec: &NetSpec) -> Arc<Network> {
    let mut b = NetworkBuilder::new();
    if let Some(m) = spec.mtu {
        b = b.mtu(m);
    }
    if spec.lat_us != (0, 0) {
        b = b.latency(if spec.lat_us.1 == 0 {
            Latency::constant(Duration::from_micros(spec.lat_us.0))
        } else {
            Latency::variable(Duration::from_micros(spec.lat_us.0), Duration::from_micros(spec.lat_us.1))
        });
    }
    if spec.thr != (0, 0) {
        b = b.throughput(if spec.thr.1 == 0 {
            Throughput::constant(Baud::bytes_per_second(spec.thr.0))
        } else {
            Throughput::variable(Baud::bytes_per_second(spec.thr.0), Baud::bytes_per_second(spec.thr.1))
        });
    }
    b.build()
}

pub fn build_ip_table(routes: &[Route]) -> IpTable<Recipient> {
    let mut t = IpTable::new();
    for r in routes {
        t.add(Ipv4Net::new(Ipv4Address::from(r.addr), Ipv4Mask::from_bitcount(r.mask_len)), Recipient::new(r.slot, r.mac));
    }
    t
}

fn with_recorder(m: Machine, n: usize, idx: usize, script: Vec<Action>, echo: bool, log: Arc<Log>) -> Machine {
    match n {
        0 => m.with(Recorder::<0>::new(idx, script, log).echo(echo)),
        1 => m.with(Recorder::<1>::new(idx, script, log).echo(echo)),
        2 => m.with(Recorder::<2>::new(idx, script, log).echo(echo)),
        3 => m.with(Recorder::<3>::new(idx, script, log).echo(echo)),
        4 => m.with(Recorder::<4>::new(idx, script, log).echo(echo)),
        5 => m.with(Recorder::<5>::new(idx, script, log).echo(echo)),
        6 => m.with(Recorder::<6>::new(idx, script, log).echo(echo)),
        7 => m.with(Recorder::<7>::new(idx, script, log).echo(echo)),
        _ => panic!("Recorder index {} out of range", n),
    }
}

/// Build one machine: Pci over the given networks, Ipv4 with its table, optional Arp / Udp /
/// Tcp / SocketAPI, the recorders; `extra` may add more protocols (other builders' applications).
pub fn build_machine(idx: usize, spec: &MachineSpec, networks: &[Arc<Network>], log: &Arc<Log>, extra: &ExtraFn) -> Arc<Machine> {
    let mut m = Machine::new().with(Pci::new(spec.nets.iter().map(|n| networks[*n].clone())));
    m = m.with(Ipv4::new(build_ip_table(&spec.routes)));
    if spec.arp {
        m = m.with(Arp::new());
    }
    if spec.udp {
        m = m.with(Udp::new());
    }
    if spec.tcp {
        m = m.with(Tcp::new());
    }
    if spec.sockets {
        m = m.with(SocketAPI::new(None));
    }
    for a in &spec.apps {
        m = with_recorder(m, a.n, idx, a.script.clone(), a.echo, log.clone());
    }
    extra(idx, m, log).arc()
}

/// adds further protocols to machine `idx` (other builders' applications); gets the shared log
pub type ExtraFn<'a> = dyn Fn(usize, Machine, &Arc<Log>) -> Machine + 'a;

pub struct Built {
    pub networks: Vec<Arc<Network>>,
    pub machines: Vec<Arc<Machine>>,
    /// MAC per (machine, slot), read back from the real `Pci`
    pub macs: Vec<Vec<u64>>,
    pub log: Arc<Log>,
}

pub fn build(sc: &Scenario, planner: Option<Planner>, extra: &ExtraFn) -> Built {
    let log = Log::new();
    let networks: Vec<Arc<Network>> = sc.nets.iter().map(build_network).collect();
    for (i, n) in networks.iter().enumerate() {
        install_frame_log(i, n, &log, planner.clone());
    }
    let machines: Vec<Arc<Machine>> = sc.machines.iter().enumerate().map(|(i, m)| build_machine(i, m, &networks, &log, extra)).collect();
    let macs = machines.iter().map(|m| m.protocol::<Pci>().map(|p| p.mac_addresses().collect()).unwrap_or_default()).collect();
    Built { networks, machines, macs, log }
}

// ------------------------------------------------------------------------------------------
// (d) running one scenario in a fresh runtime
// ------------------------------------------------------------------------------------------

pub fn block_on_mode<F: Future>(mode: RtMode, f: F) -> F::Output {
    let rt = match mode {
        RtMode::Paused => tokio::runtime::Builder::new_current_thread().enable_all().start_paused(true).build().unwrap(),
        RtMode::MultiThread(k) => tokio::runtime::Builder::new_multi_thread().worker_threads(k.max(1)).enable_all().build().unwrap(),
    };
    let out = rt.block_on(f);
    rt.shutdown_background();
    out
}

pub struct RunResult {
    /// `exited`, `timedout`, `status:<n>`
    pub status: String,
    pub events: Vec<Event>,
    pub macs: Vec<Vec<u64>>,
    /// MACs registered on every network (`Network::verif_taps`, sorted)
    pub taps: Vec<Vec<u64>>,
}

pub fn fmt_status(s: &ExitStatus) -> String {
    match s {
        ExitStatus::Exited => "exited".into(),
        ExitStatus::TimedOut => "timedout".into(),
        ExitStatus::Status(n) => format!("status:{}", n),
    }
}

/// Build and run `sc` with `run_internet_with_timeout(duration)` in a fresh runtime.
/// Must be called in a worker child process (see `run_cases`).
pub fn run_scenario(sc: &Scenario, planner: Option<Planner>) -> RunResult {
    run_scenario_with(sc, planner, &|_, m, _| m)
}

pub fn run_scenario_with(sc: &Scenario, planner: Option<Planner>, extra: &ExtraFn) -> RunResult {
    let built = build(sc, planner, extra);
    let dur = Duration::from_micros(sc.duration_us);
    let log = built.log.clone();
    let machines = built.machines.clone();
    let status = block_on_mode(sc.mode, async move {
        log.start_clock();
        elvis_core::run_internet_with_timeout(&machines, dur).await
    });
    let taps = built
        .networks
        .iter()
        .map(|n| {
            let mut t = n.verif_taps();
            t.sort();
            t
        })
        .collect();
    for n in &built.networks {
        n.verif_set_hook(None);
    }
    RunResult { status: fmt_status(&status), events: built.log.snapshot(), macs: built.macs, taps }
}

// ------------------------------------------------------------------------------------------
// (e) worker child processes
// ------------------------------------------------------------------------------------------

/// What one case produced: op/impl line pairs (for `Out::line`), oracle failures, counters.
#[derive(Clone, Default, Debug)]
pub struct CaseReport {
    pub lines: Vec<(String, String)>,
    /// (what, ident)
    pub fails: Vec<(String, String)>,
    pub counts: Vec<(String, u64)>,
    pub nontrivial: bool,
    pub notes: Vec<String>,
}

impl CaseReport {
    pub fn line(&mut self, op: impl Into<String>, res: impl Into<String>) {
        self.lines.push((op.into(), res.into()));
    }
    pub fn fail(&mut self, what: impl Into<String>, ident: impl Into<String>) {
        self.fails.push((what.into(), ident.into()));
    }
    pub fn count(&mut self, k: impl Into<String>) {
        self.count_n(k, 1);
    }
    pub fn count_n(&mut self, k: impl Into<String>, n: u64) {
        let k = k.into();
        if let Some(e) = self.counts.iter_mut().find(|e| e.0 == k) {
            e.1 += n;
        } else {
            self.counts.push((k, n));
        }
    }
    fn encode(&self) -> String {
        let mut parts: Vec<String> = vec![];
        for (a, b) in &self.lines {
            parts.push(format!("L\x1f{}\x1f{}", esc(a), esc(b)));
        }
        for (a, b) in &self.fails {
            parts.push(format!("F\x1f{}\x1f{}", esc(a), esc(b)));
        }
        for (a, b) in &self.counts {
            parts.push(format!("C\x1f{}\x1f{}", esc(a), b));
        }
        for n in &self.notes {
            parts.push(format!("N\x1f{}\x1f", esc(n)));
        }
        parts.push(format!("T\x1f{}\x1f", self.nontrivial as u8));
        parts.join("\x1e")
    }
    fn decode(s: &str) -> CaseReport {
        let mut r = CaseReport::default();
        for part in s.split('\x1e') {
            let f: Vec<&str> = part.split('\x1f').collect();
            if f.len() < 3 {
                continue;
            }
            match f[0] {
                "L" => r.lines.push((unesc(f[1]), unesc(f[2]))),
                "F" => r.fails.push((unesc(f[1]), unesc(f[2]))),
                "C" => r.counts.push((unesc(f[1]), f[2].parse().unwrap_or(0))),
                "N" => r.notes.push(unesc(f[1])),
                "T" => r.nontrivial = f[1] == "1",
                _ => {}
            }
        }
        r
    }
    /// write into the shared `Out` (op lines, impl lines, failures, counters)
    pub fn emit(&self, out: &mut hcommon::Out) {
        for (a, b) in &self.lines {
            out.line(a, b);
        }
        for (k, n) in &self.counts {
            out.count_n(k, *n);
        }
        if self.nontrivial {
            out.mark_nontrivial();
        }
        for (what, ident) in &self.fails {
            out.fail(what, ident);
        }
        for n in &self.notes {
            if out.notes.len() < 20 {
                out.notes.push(n.clone());
            }
        }
    }
}

fn esc(s: &str) -> String {
    s.replace('\\', "\\\\").replace('\n', "\\n").replace('\x1e', "\\r").replace('\x1f', "\\u")
}
fn unesc(s: &str) -> String {
    let mut o = String::new();
    let mut it = s.chars();
    while let Some(c) = it.next() {
        if c == '\\' {
            match it.next() {
                Some('n') => o.push('\n'),
                Some('r') => o.push('\x1e'),
                Some('u') => o.push('\x1f'),
                Some(x) => o.push(x),
                None => {}
            }
        } else {
            o.push(c);
        }
    }
    o
}

pub enum CaseOutcome {
    Done(CaseReport),
    /// the worker died (panic → `process::exit(1)` by run_internet's hook) or hung on this case
    Died { hung: bool, stderr: String, panic_site: Option<(String, u32, String)> },
}

/// `true` when this process was started as a worker (`--worker 1`)
pub fn is_worker(args: &hcommon::Args) -> bool {
    args.extra.contains_key("worker")
}

/// Child side: read one case spec per stdin line, run it, print one flushed result line.
/// Everything else the simulation prints on stdout is ignored by the parent.
pub fn worker_loop(run_case: impl Fn(&str) -> CaseReport) {
    // quiet hook that names the panic site on stderr; run_internet wraps it (and then exits)
    std::panic::set_hook(Box::new(|info| {
        let (file, line) = info.location().map(|l| (l.file().to_string(), l.line())).unwrap_or(("?".into(), 0));
        let msg = if let Some(s) = info.payload().downcast_ref::<&str>() {
            s.to_string()
        } else if let Some(s) = info.payload().downcast_ref::<String>() {
            s.clone()
        } else {
            "?".into()
        };
        eprintln!("@@PANIC {}:{}: {}", file, line, msg.replace('\n', " "));
    }));
    let stdin = std::io::stdin();
    let stdout = std::io::stdout();
    for (i, line) in stdin.lock().lines().enumerate() {
        let Ok(line) = line else { break };
        {
            let mut o = stdout.lock();
            writeln!(o, "@@B {}", i).unwrap();
            o.flush().unwrap();
        }
        let rep = run_case(&unesc(&line));
        let mut o = stdout.lock();
        writeln!(o, "@@R {} {}", i, rep.encode()).unwrap();
        o.flush().unwrap();
    }
}

fn run_batch(sub: &str, specs: &[String], hang_secs: u64) -> (Vec<CaseOutcome>, bool) {
    use std::process::{Command, Stdio};
    let exe = std::env::current_exe().expect("current_exe");
    let mut spawned = None;
    let mut last_err = String::new();
    for attempt in 0..5 {
        match Command::new(&exe).args([sub, "--worker", "1"]).env("RUST_BACKTRACE", "0").stdin(Stdio::piped()).stdout(Stdio::piped()).stderr(Stdio::piped()).spawn() {
            Ok(c) => {
                spawned = Some(c);
                break;
            }
            Err(e) => {
                last_err = format!("cannot start worker process: {}", e);
                std::thread::sleep(Duration::from_millis(200 * (attempt + 1)));
            }
        }
    }
    let Some(mut child) = spawned else {
        return (vec![CaseOutcome::Died { hung: false, stderr: last_err, panic_site: None }], true);
    };
    let mut stdin = child.stdin.take().unwrap();
    let input: String = specs.iter().map(|s| esc(s) + "\n").collect();
    let feeder = std::thread::spawn(move || {
        let _ = stdin.write_all(input.as_bytes());
    });
    let stderr = child.stderr.take().unwrap();
    let err_thread = std::thread::spawn(move || {
        let mut s = String::new();
        for l in std::io::BufReader::new(stderr).lines().map_while(Result::ok) {
            // keep the panic line and the head of everything else (backtraces are long)
            if l.starts_with("@@PANIC") || s.len() < 4000 {
                s.push_str(&l);
                s.push('\n');
            }
        }
        s
    });
    let child = Arc::new(Mutex::new(child));
    let last = Arc::new(Mutex::new(std::time::Instant::now()));
    let done = Arc::new(Mutex::new(false));
    let hung = Arc::new(Mutex::new(false));
    let watchdog = {
        let (child, last, done, hung) = (child.clone(), last.clone(), done.clone(), hung.clone());
        std::thread::spawn(move || loop {
            std::thread::sleep(Duration::from_millis(100));
            if *done.lock().unwrap() {
                break;
            }
            if last.lock().unwrap().elapsed().as_secs() >= hang_secs {
                *hung.lock().unwrap() = true;
                let _ = child.lock().unwrap().kill();
                break;
            }
        })
    };
    let stdout = child.lock().unwrap().stdout.take().unwrap();
    let mut outcomes: Vec<CaseOutcome> = vec![];
    for l in std::io::BufReader::new(stdout).lines().map_while(Result::ok) {
        *last.lock().unwrap() = std::time::Instant::now();
        if let Some(rest) = l.strip_prefix("@@R ") {
            if let Some((_, enc)) = rest.split_once(' ') {
                outcomes.push(CaseOutcome::Done(CaseReport::decode(enc)));
            }
        }
    }
    *done.lock().unwrap() = true;
    let _ = child.lock().unwrap().wait();
    let _ = watchdog.join();
    let _ = feeder.join();
    let stderr = err_thread.join().unwrap_or_default();
    let mut died = false;
    if outcomes.len() < specs.len() {
        died = true;
        let panic_site = stderr.lines().rev().find_map(|l| {
            let r = l.strip_prefix("@@PANIC ")?;
            let (loc, msg) = r.split_once(": ")?;
            let (file, line) = loc.rsplit_once(':')?;
            Some((file.to_string(), line.parse().ok()?, msg.to_string()))
        });
        let was_hung = *hung.lock().unwrap();
        outcomes.push(CaseOutcome::Died { hung: was_hung, stderr, panic_site });
    }
    (outcomes, died)
}

/// Parent side: execute `specs` (one string per case, handed verbatim to the worker's
/// `run_case`) in worker child processes: `workers` processes at a time, `batch` cases per
/// process.  A worker that dies yields `Died` for the case it was running; the rest of its
/// batch resumes in a new worker.  Results come back in the order of `specs`.
pub fn run_cases(sub: &str, specs: &[String], workers: usize, batch: usize, hang_secs: u64) -> Vec<CaseOutcome> {
    let n = specs.len();
    let results: Arc<Mutex<Vec<Option<CaseOutcome>>>> = Arc::new(Mutex::new((0..n).map(|_| None).collect()));
    let next = Arc::new(Mutex::new(0usize));
    let batch = batch.max(1);
    let specs: Arc<Vec<String>> = Arc::new(specs.to_vec());
    let mut threads = vec![];
    for _ in 0..workers.max(1).min(n.max(1)) {
        let (results, next, specs, sub) = (results.clone(), next.clone(), specs.clone(), sub.to_string());
        threads.push(std::thread::spawn(move || loop {
            let (lo, hi) = {
                let mut g = next.lock().unwrap();
                if *g >= n {
                    break;
                }
                let lo = *g;
                let hi = (lo + batch).min(n);
                *g = hi;
                (lo, hi)
            };
            let mut at = lo;
            while at < hi {
                let (outs, _died) = run_batch(&sub, &specs[at..hi], hang_secs);
                let k = outs.len().max(1);
                let mut g = results.lock().unwrap();
                for (i, o) in outs.into_iter().enumerate() {
                    g[at + i] = Some(o);
                }
                at += k;
            }
        }));
    }
    for t in threads {
        let _ = t.join();
    }
    let mut g = results.lock().unwrap();
    g.iter_mut()
        .map(|o| o.take().unwrap_or(CaseOutcome::Died { hung: false, stderr: "worker produced nothing".into(), panic_site: None }))
        .collect()
}

/// Standard panic outcome of a died worker as (impl line, ident): the identity is the text of
/// the panicking source line (never its number).
pub fn died_ident(o: &CaseOutcome) -> (String, String) {
    match o {
        CaseOutcome::Died { hung: true, .. } => ("hang".into(), "hang (no output from the worker)".into()),
        CaseOutcome::Died { panic_site: Some((file, line, msg)), .. } => {
            let text = hcommon::source_line_text(file, *line);
            let f = file.rsplit('/').next().unwrap_or("");
            (format!("panic {} {}", f, text.replace(' ', "_")), format!("panic {} {} :: {}", f, text, msg.chars().take(80).collect::<String>()))
        }
        CaseOutcome::Died { .. } => ("died".into(), "worker died without a panic message".into()),
        CaseOutcome::Done(_) => ("done".into(), String::new()),
    }
}

pub fn default_workers() -> usize {
    std::thread::available_parallelism().map(|n| n.get()).unwrap_or(2).clamp(1, 4)
}

/// `hfull scaffold-demo`: the example of notes/SCAFFOLD.md (prints the event log).
pub fn demo() {
    let a = Ep::new(parse_addr("10.0.0.1").unwrap(), 5000);
    let b = Ep::new(parse_addr("10.0.0.2").unwrap(), 40000);
    let sc = Scenario {
        nets: vec![NetSpec { mtu: Some(1500), lat_us: (2000, 0), thr: (0, 0) }],
        machines: vec![
            MachineSpec { nets: vec![0], udp: true, apps: vec![AppSpec { n: 0, script: vec![Action { at: None, kind: ActionKind::Listen(a) }], echo: true }], ..Default::default() },
            MachineSpec {
                nets: vec![0],
                udp: true,
                routes: vec![Route { addr: 0, mask_len: 0, slot: 0, mac: Some(0) }],
                apps: vec![AppSpec {
                    n: 0,
                    script: vec![
                        Action { at: Some(1000), kind: ActionKind::Open { local: b, remote: a, listen: false, payloads: vec![b"hi".to_vec()] } },
                        Action { at: Some(9000), kind: ActionKind::Shutdown(None) },
                    ],
                    echo: false,
                }],
                ..Default::default()
            },
        ],
        mode: RtMode::Paused,
        duration_us: 1_000_000,
    };
    for l in sc.to_lines() {
        println!("cfg {}", l);
    }
    let back = Scenario::from_lines(sc.to_lines().iter().map(|s| s.as_str())).unwrap();
    assert_eq!(back.to_lines(), sc.to_lines());
    let res = run_scenario(&sc, None);
    println!("status {}", res.status);
    for e in &res.events {
        println!("{:>6} us  #{:<3} {:?}", e.t_us, e.id, e.ev);
    }
}
