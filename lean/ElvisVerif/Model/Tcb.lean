import ElvisVerif.Base.ListHeap
import ElvisVerif.Model.ModCmp
import ElvisVerif.Generated.TcbConsts
/-!
# Model of the TCP control block — `sim/elvis-core/src/protocols/tcp/tcb.rs`

and `tcb/{segment,outgoing,state,send_sequence_space,receive_sequence_space}.rs`,
`tcp_parsing.rs` (`TcpHeader`, `TcpHeaderBuilder`, `Control`).

Function by function, same branches, same order of effects, same arithmetic.
Conventions (DESIGN.md section 4):

* `u32` sequence numbers are `BitVec 32` (`wrapping_add/sub` = `+`/`-`), `u16` fields
  (ports, windows, MTU, urgent pointer, checksum) are `BitVec 16`; `as u32` / `as usize` are
  `BitVec.ofNat 32 x.toNat` / `x.toNat`.
* `Message` is `List UInt8` (justified by the C07 refinement), `VecDeque`/`Vec` are `List`,
  `BinaryHeap<Segment>` is `Elvis.LHeap` over `segLe` (array order kept), `Duration` is `Nat`
  milliseconds (all constants and all harness ticks are whole milliseconds).
* `&mut self` methods return the new value.  Every checked `+`/`-` of the dev profile,
  `assert!`, `expect`, `unwrap` is an `Except String` error `"panic:<kind>:<site>"`;
  after a panic the TCB has no value.
* The TCB's `id: Endpoints` is kept as the two ports only: the addresses are used solely for
  the checksum, which is the constant 0 without the `compute_checksum` feature.

Names follow the Rust names in camelCase (`process_segment` = `processSegment`, field
`outgoing.retransmit` = `s.outgoing.retransmit`, …).  `process_segment` is the pipeline of the
six blocks its body visibly has, in code order:
`seqCheck → ackBlock → rstBlock → synBlock → textBlock → finBlock`; a block returns
`some r` for an early `return r`.

No imports outside core: this file is linked into the native driver.
-/
namespace Elvis.Tcp
open Elvis.ModCmp

abbrev Seq := BitVec 32
abbrev U16 := BitVec 16

/-! ## constants (extracted from the source on every check) -/

/-- `RETRANSMISSION_TIMEOUT` (ms) -/
abbrev RTO : Nat := Elvis.Gen.Tcb.rtoMs
/-- `2 * MSL` (ms) -/
abbrev TIME_WAIT : Nat := Elvis.Gen.Tcb.timeWaitMs
/-- `SPACE_FOR_HEADERS` -/
abbrev SPACE_FOR_HEADERS : Nat := Elvis.Gen.Tcb.spaceForHeaders
/-- `BASE_HEADER_OCTETS` -/
abbrev BASE_HEADER_OCTETS : Nat := Elvis.Gen.Tcb.baseHeaderOctets

/-! ## `tcb/state.rs`, result enums -/

inductive State
  | SynSent | SynReceived | Established | FinWait1 | FinWait2 | CloseWait | Closing | LastAck
  | TimeWait
  deriving DecidableEq, Repr, Inhabited

inductive Initiation
  | Listen | Open
  deriving DecidableEq, Repr, Inhabited

inductive ProcessSegmentResult
  | Success | DiscardSegment | InvalidAck | ReturnToListen | ConnectionReset | ConnectionRefused
  | FinalizeClose | BlindReset
  deriving DecidableEq, Repr, Inhabited

/-- `ProcessSegmentResult::should_delete_tcb` -/
def ProcessSegmentResult.shouldDeleteTcb : ProcessSegmentResult → Bool
  | .ReturnToListen | .ConnectionReset | .ConnectionRefused | .FinalizeClose | .BlindReset => true
  | _ => false

inductive SegmentArrivesResult
  | Ok | Close
  deriving DecidableEq, Repr, Inhabited

inductive CloseResult
  | Ok | ConnectionClosing | CloseConnection
  deriving DecidableEq, Repr, Inhabited

inductive AdvanceTimeResult
  | Ignore | CloseConnection
  deriving DecidableEq, Repr, Inhabited

/-! ## `tcp_parsing.rs`: `Control`, `TcpHeader`, `TcpHeaderBuilder` -/

/-- `Control(u8)`: the six flag bits (bit 5 … bit 0 = URG ACK PSH RST SYN FIN) -/
structure Ctl where
  urg : Bool := false
  ack : Bool := false
  psh : Bool := false
  rst : Bool := false
  syn : Bool := false
  fin : Bool := false
  deriving DecidableEq, Repr, Inhabited

/-- `u8::from(Control)` -/
def Ctl.toNat (c : Ctl) : Nat :=
  c.fin.toNat + 2 * c.syn.toNat + 4 * c.rst.toNat + 8 * c.psh.toNat + 16 * c.ack.toNat
    + 32 * c.urg.toNat

/-- `Control::from(u8)` (low six bits, as the decoder masks them) -/
def Ctl.ofNat (n : Nat) : Ctl :=
  { fin := n % 2 == 1, syn := n / 2 % 2 == 1, rst := n / 4 % 2 == 1, psh := n / 8 % 2 == 1,
    ack := n / 16 % 2 == 1, urg := n / 32 % 2 == 1 }

/-- `TcpHeader` -/
structure Hdr where
  srcPort : U16
  dstPort : U16
  seq : Seq
  ack : Seq
  dataOffset : BitVec 8
  ctl : Ctl
  wnd : U16
  urg : U16
  checksum : U16
  deriving DecidableEq, Repr, Inhabited

/-- `TcpHeaderBuilder::new` -/
def Hdr.builder (srcPort dstPort : U16) (seq : Seq) : Hdr :=
  { srcPort, dstPort, seq, ack := 0, dataOffset := 0, ctl := {}, wnd := 0, urg := 0,
    checksum := 0 }

/-- `TcpHeaderBuilder::wnd` -/
def Hdr.withWnd (h : Hdr) (w : U16) : Hdr := { h with wnd := w }
/-- `TcpHeaderBuilder::ack` -/
def Hdr.withAck (h : Hdr) (a : Seq) : Hdr := { h with ack := a, ctl := { h.ctl with ack := true } }
/-- `TcpHeaderBuilder::rst` -/
def Hdr.withRst (h : Hdr) : Hdr := { h with ctl := { h.ctl with rst := true } }
/-- `TcpHeaderBuilder::syn` -/
def Hdr.withSyn (h : Hdr) : Hdr := { h with ctl := { h.ctl with syn := true } }
/-- `TcpHeaderBuilder::fin` -/
def Hdr.withFin (h : Hdr) : Hdr := { h with ctl := { h.ctl with fin := true } }

/-- `TcpHeaderBuilder::build`: fails (`OverlyLongPayload`) when `text_len + 20` does not fit
    `u16`; sets `data_offset` and the checksum (constant 0 without `compute_checksum`). -/
def Hdr.build (h : Hdr) (textLen : Nat) : Option Hdr :=
  if textLen + BASE_HEADER_OCTETS > 65535 then none
  else some { h with dataOffset := BitVec.ofNat 8 Elvis.Gen.Tcb.baseHeaderWords,
                     checksum := BitVec.ofNat 16 Elvis.Gen.Tcb.checksumWithoutFeature }

/-! ## `tcb/segment.rs`, `tcb/outgoing.rs`, sequence spaces -/

/-- `Segment { header, text }` -/
structure Segment where
  hdr : Hdr
  text : List UInt8
  deriving DecidableEq, Repr, Inhabited

/-- `Segment::seg_len` -/
def Segment.segLen (s : Segment) : Nat := s.text.length + s.hdr.ctl.syn.toNat + s.hdr.ctl.fin.toNat

/-- `a <= b` of `impl Ord for Segment` (default `PartialOrd::le` on `cmp`): `cmp` is `Equal`
    for equal `seq`, `Greater` when `mod_lt(self.seq, other.seq)` (reversed so that the max-heap
    pops low sequence numbers first), `Less` otherwise; `a <= b ⇔ cmp ≠ Greater`. -/
def segLe (a b : Segment) : Bool := a.hdr.seq == b.hdr.seq || !modLt a.hdr.seq b.hdr.seq

/-- `Transmit { segment, needs_transmit }` -/
structure Transmit where
  segment : Segment
  needsTransmit : Bool
  deriving DecidableEq, Repr, Inhabited

/-- `Transmit::new` -/
def Transmit.new (s : Segment) : Transmit := { segment := s, needsTransmit := true }

/-- `Outgoing { text, retransmit, oneshot }` -/
structure Outgoing where
  text : List UInt8 := []
  retransmit : List Transmit := []
  oneshot : List Hdr := []
  deriving DecidableEq, Repr, Inhabited

/-- `Outgoing::queued_bytes` -/
def Outgoing.queuedBytes (o : Outgoing) : Nat :=
  (o.retransmit.map fun t => t.segment.text.length).sum

/-- `Incoming { segments, text }` -/
structure Incoming where
  /-- the reorder heap, in `BinaryHeap`'s internal array order -/
  segments : List Segment := []
  text : List UInt8 := []
  deriving DecidableEq, Repr, Inhabited

/-- `Timeouts { retransmission, time_wait }` (ms) -/
structure Timeouts where
  retransmission : Nat := RTO
  timeWait : Option Nat := none
  deriving DecidableEq, Repr, Inhabited

/-- `SendSequenceSpace` -/
structure Snd where
  una : Seq := 0
  nxt : Seq := 0
  wnd : U16 := 0
  wl1 : Seq := 0
  wl2 : Seq := 0
  iss : Seq := 0
  deriving DecidableEq, Repr, Inhabited

/-- `ReceiveSequenceSpace`; `default()` = `{ irs: 0, nxt: 0, wnd: u16::MAX }` -/
structure Rcv where
  irs : Seq := 0
  nxt : Seq := 0
  wnd : U16 := BitVec.ofNat 16 Elvis.Gen.Tcb.defaultRcvWnd
  deriving DecidableEq, Repr, Inhabited

/-! ## `Tcb` -/

/-- `Tcb` (the `id: Endpoints` kept as the two ports) -/
structure Tcb where
  localPort : U16
  remotePort : U16
  mtu : U16
  initiation : Initiation
  state : State
  snd : Snd
  rcv : Rcv
  outgoing : Outgoing := {}
  incoming : Incoming := {}
  timeouts : Timeouts := {}
  deriving DecidableEq, Repr, Inhabited

/-- the result of one step on a TCB: a new TCB and an output, or a panic -/
abbrev M (α : Type) := Except String (Tcb × α)

namespace Tcb

/-- `Tcb::header_builder` -/
def headerBuilder (s : Tcb) (seq : Seq) : Hdr := Hdr.builder s.localPort s.remotePort seq

/-- `Tcb::enqueue` without the `unwrap`: queue a header for transmission; SYN/FIN go to the
    retransmission queue, everything else is sent once. -/
def enqueueBuilt (s : Tcb) (header : Hdr) : Tcb :=
  if header.ctl.syn || header.ctl.fin then
    { s with outgoing.retransmit := s.outgoing.retransmit ++ [Transmit.new ⟨header, []⟩] }
  else
    { s with outgoing.oneshot := s.outgoing.oneshot ++ [header] }

/-- `Tcb::enqueue`: `header_builder.build(.., 0).unwrap()` then queue -/
def enqueue (s : Tcb) (hb : Hdr) : Except String Tcb :=
  match hb.build 0 with
  | none => .error "panic:unwrap:enqueue.build"
  | some header => .ok (enqueueBuilt s header)

/-- the pure ACK `header_builder(SND.NXT).ack(RCV.NXT).wnd(RCV.WND)` that most blocks enqueue -/
def ackHdr (s : Tcb) : Hdr := ((s.headerBuilder s.snd.nxt).withAck s.rcv.nxt).withWnd s.rcv.wnd

/-- `Tcb::open` (active open) -/
def «open» (localPort remotePort : U16) (iss : Seq) (mtu : U16) : Except String Tcb :=
  let tcb : Tcb :=
    { localPort, remotePort, mtu, initiation := .Open, state := .SynSent,
      snd := { iss := iss, una := iss, nxt := iss + 1 }, rcv := {} }
  tcb.enqueue (((tcb.headerBuilder iss).withSyn).withWnd ({} : Rcv).wnd)

/-- first half of `Tcb::advance_time`: the retransmission timer.  `retransmission -= delta_time`
    is a checked `Duration` subtraction (guarded by the comparison just before it). -/
def advanceRetransmission (s : Tcb) (dt : Nat) : Except String Tcb :=
  if dt > s.timeouts.retransmission then
    .ok { s with timeouts.retransmission := RTO,
                 outgoing.retransmit := s.outgoing.retransmit.map fun t => { t with needsTransmit := true } }
  else if s.timeouts.retransmission < dt then .error "panic:sub-overflow:advance_time.retransmission"
  else .ok { s with timeouts.retransmission := s.timeouts.retransmission - dt }

/-- `Tcb::advance_time` (`time_wait - delta_time` is a checked `Duration` subtraction, guarded) -/
def advanceTime (s : Tcb) (dt : Nat) : M AdvanceTimeResult :=
  match s.advanceRetransmission dt with
  | .error e => .error e
  | .ok s =>
    match s.timeouts.timeWait with
    | some tw =>
      if dt > tw then .ok (s, .CloseConnection)
      else if tw < dt then .error "panic:sub-overflow:advance_time.time_wait"
      else .ok ({ s with timeouts.timeWait := some (tw - dt) }, .Ignore)
    | none => .ok (s, .Ignore)

/-- `Tcb::send` -/
def send (s : Tcb) (message : List UInt8) : Tcb :=
  match s.state with
  | .SynSent | .SynReceived | .Established => { s with outgoing.text := s.outgoing.text ++ message }
  | _ => s

/-- `Tcb::receive` -/
def receive (s : Tcb) : Tcb × List UInt8 :=
  match s.state with
  | .SynSent | .SynReceived | .Established | .FinWait1 | .FinWait2 | .CloseWait =>
    ({ s with incoming.text := [] }, s.incoming.text)
  | .Closing | .LastAck | .TimeWait => (s, [])

/-- the FIN `header_builder(SND.NXT).fin().ack(RCV.NXT).wnd(RCV.WND)` of `close` -/
def finHdr (s : Tcb) : Hdr :=
  (((s.headerBuilder s.snd.nxt).withFin).withAck s.rcv.nxt).withWnd s.rcv.wnd

/-- `Tcb::queue_fin`: form the FIN once all preceding SENDs have been segmentized (3.10.4) -/
def queueFin (s : Tcb) : Except String Tcb :=
  if s.outgoing.text.isEmpty then
    match s.enqueue s.finHdr with
    | .error e => .error e
    | .ok s => .ok { s with snd.nxt := s.snd.nxt + 1 }
  else .ok s

/-- `Tcb::fin_pending`: `close` was called while text was still waiting to be segmentized -/
def finPending (s : Tcb) : Bool :=
  (match s.state with
   | .FinWait1 | .Closing | .LastAck => true
   | _ => false) && !s.outgoing.text.isEmpty

/-- `Tcb::close` -/
def close (s : Tcb) : M CloseResult :=
  match s.state with
  | .SynReceived | .Established =>
    match ({ s with state := .FinWait1 } : Tcb).queueFin with
    | .error e => .error e
    | .ok s => .ok (s, .Ok)
  | .CloseWait =>
    match ({ s with state := .LastAck } : Tcb).queueFin with
    | .error e => .error e
    | .ok s => .ok (s, .Ok)
  | _ => .ok (s, .ConnectionClosing)

/-- `Tcb::abort` (`Outgoing::reset` then an RST) -/
def abort (s : Tcb) : Except String Tcb :=
  match s.state with
  | .SynReceived | .Established | .FinWait1 | .FinWait2 | .CloseWait =>
    let s := { s with outgoing := {} }
    s.enqueue (((s.headerBuilder s.snd.nxt).withRst).withWnd s.rcv.wnd)
  | _ => .ok s

/-- `Tcb::status` -/
def status (s : Tcb) : State := s.state

/-- the `loop { … }` of `Tcb::segments`: cut segments off `outgoing.text` while the peer's
    window (minus what is already queued) and the text allow.  `fuel > |outgoing.text|`
    suffices (every round removes at least one byte). -/
def segmentize (maxSegmentLength : Nat) : Nat → Tcb → Nat → Except String Tcb
  | 0, s, _ => .ok s
  | fuel + 1, s, queuedBytes =>
    -- let max_bytes = (self.snd.wnd as usize).saturating_sub(queued_bytes);
    let maxBytes := s.snd.wnd.toNat - queuedBytes
    let bytes := min (min maxSegmentLength maxBytes) s.outgoing.text.length
    if bytes = 0 then .ok s else
    -- `Message::cut(bytes)`: its `assert!(len <= self.len)` holds by the `min` above
    let text := s.outgoing.text.take bytes
    let rest := s.outgoing.text.drop bytes
    match (s.ackHdr).build text.length with
    | none => .error "panic:expect:segments.build"
    | some header =>
      let s := { s with outgoing.text := rest,
                        snd.nxt := s.snd.nxt + BitVec.ofNat 32 text.length,
                        outgoing.retransmit := s.outgoing.retransmit ++ [Transmit.new ⟨header, text⟩] }
      segmentize maxSegmentLength fuel s (queuedBytes + bytes)

/-- the `match self.state { SynSent | SynReceived | Established | CloseWait | FinWait1 | Closing |
    LastAck => { … loop … } }` part of `Tcb::segments` (in the last three states text is queued
    only while the FIN waits for it) -/
def segmentizeIfOpen (s : Tcb) : Except String Tcb :=
  match s.state with
  | .SynSent | .SynReceived | .Established | .CloseWait | .FinWait1 | .Closing | .LastAck =>
    -- let max_segment_length = (self.mtu - SPACE_FOR_HEADERS) as usize;
    if s.mtu.toNat < SPACE_FOR_HEADERS then .error "panic:sub-overflow:segments.max_segment_length"
    else segmentize (s.mtu.toNat - SPACE_FOR_HEADERS) (s.outgoing.text.length + 1) s
           s.outgoing.queuedBytes
  | _ => .ok s

/-- `if fin_pending { self.queue_fin(); }` of `Tcb::segments` (`fin_pending` was evaluated
    before the segmentization loop) -/
def finIfPending (finPending : Bool) (s : Tcb) : Except String Tcb :=
  if finPending then s.queueFin else .ok s

/-- `Tcb::segments` -/
def segments (s : Tcb) : M (List Segment) :=
  let out0 : List Segment := s.outgoing.oneshot.map fun h => ⟨h, []⟩
  match segmentizeIfOpen { s with outgoing.oneshot := [] } with
  | .error e => .error e
  | .ok s1 =>
    match finIfPending s.finPending s1 with
    | .error e => .error e
    | .ok s =>
      let out := out0 ++ (s.outgoing.retransmit.filter (·.needsTransmit)).map (·.segment)
      let s := { s with outgoing.retransmit :=
                          s.outgoing.retransmit.map fun t => { t with needsTransmit := false } }
      let s := if out.isEmpty then s else { s with timeouts.retransmission := RTO }
      .ok (s, out)

/-- `Tcb::is_in_rcv_window` -/
def isInRcvWindow (s : Tcb) (n : Seq) : Bool :=
  modBounded (s.rcv.nxt - 1) .Leq n .Lt (s.rcv.nxt + BitVec.ofNat 32 s.rcv.wnd.toNat)

/-- `Tcb::is_seq_ok` (`data_len + fin as u32 + syn as u32` is a checked `u32` addition) -/
def isSeqOk (s : Tcb) (dataLen : Seq) (seq : Seq) (syn fin : Bool) : Except String Bool :=
  let segLenN := dataLen.toNat + fin.toNat + syn.toNat
  if segLenN ≥ 4294967296 then .error "panic:add-overflow:is_seq_ok.seg_len" else
  let segLen : Seq := BitVec.ofNat 32 segLenN
  if segLenN = 0 then
    if s.rcv.wnd = 0 then .ok (modBounded (s.rcv.nxt - 1) .Leq seq .Leq s.rcv.nxt)
    else .ok (s.isInRcvWindow seq)
  else if s.rcv.wnd = 0 then .ok false
  else .ok (s.isInRcvWindow seq || s.isInRcvWindow (seq + segLen - 1))

/-- `Tcb::is_fin_acked` -/
def isFinAcked (s : Tcb) : Bool := !s.finPending && s.snd.nxt == s.snd.una

/-- `Tcb::remove_acked_from_retransmission`: keep exactly the entries with
    `mod_lt(snd_una, seq + seg_len)` -/
def removeAckedFromRetransmission (s : Tcb) (sndUna : Seq) : Tcb :=
  { s with outgoing.retransmit := s.outgoing.retransmit.filter fun t =>
      modLt sndUna (t.segment.hdr.seq + BitVec.ofNat 32 t.segment.segLen) }

/-- `Tcb::ack_established_processing` -/
def ackEstablishedProcessing (s : Tcb) (seg : Hdr) : M ProcessSegmentResult :=
  if modLeq seg.ack s.snd.una then .ok (s, .Success)
  else if !modBounded s.snd.una .Lt seg.ack .Leq s.snd.nxt then
    match s.enqueue s.ackHdr with
    | .error e => .error e
    | .ok s => .ok (s, .InvalidAck)
  else
    let s := { s with snd.una := seg.ack }
    let s := s.removeAckedFromRetransmission s.snd.una
    let s :=
      if modLt s.snd.wl1 seg.seq || (s.snd.wl1 == seg.seq && modLeq s.snd.wl2 seg.ack) then
        { s with snd.wnd := seg.wnd, snd.wl1 := seg.seq, snd.wl2 := seg.ack }
      else s
    .ok (s, .Success)

/-! ### `process_segment`, block by block -/

/-- outcome of a block: the TCB and `some r` for an early `return r` -/
abbrev B := Except String (Tcb × Option ProcessSegmentResult)

/-- sequencing of blocks: stop at a panic or an early return -/
def B.andThen (x : B) (f : Tcb → B) : B :=
  match x with
  | .error e => .error e
  | .ok (s, some r) => .ok (s, some r)
  | .ok (s, none) => f s

/-- enqueue then continue with `k` -/
def enqueueThen (s : Tcb) (hb : Hdr) (k : Tcb → B) : B :=
  match s.enqueue hb with
  | .error e => .error e
  | .ok s => k s

/-- the RST `header_builder(SEG.ACK).rst().wnd(RCV.WND)` sent for an unacceptable ACK -/
def rstForAck (s : Tcb) (seg : Hdr) : Hdr := ((s.headerBuilder seg.ack).withRst).withWnd s.rcv.wnd

/-- block 1: "Check that the sequence number is valid" -/
def seqCheck (s : Tcb) (seg : Hdr) (textLen : Seq) : B :=
  match s.state with
  | .SynSent => .ok (s, none)
  | _ =>
    match s.isSeqOk textLen seg.seq seg.ctl.syn seg.ctl.fin with
    | .error e => .error e
    | .ok true => .ok (s, none)
    | .ok false => enqueueThen s s.ackHdr fun s => .ok (s, some .DiscardSegment)

/-- lift the result of `ack_established_processing`: `Success` falls through -/
def afterAckEstablished (r : M ProcessSegmentResult) (k : Tcb → ProcessSegmentResult → B) : B :=
  match r with
  | .error e => .error e
  | .ok (s, res) => k s res

/-- block 2: `if seg.ctl.ack() { match self.state … }` -/
def ackBlock (s : Tcb) (seg : Hdr) : B :=
  if !seg.ctl.ack then .ok (s, none) else
  match s.state with
  | .SynSent =>
    if modBounded s.snd.nxt .Lt seg.ack .Leq s.snd.iss then
      if seg.ctl.rst then .ok (s, some .DiscardSegment)
      else enqueueThen s (s.rstForAck seg) fun s => .ok (s, some .InvalidAck)
    else if modBounded s.snd.una .Lt seg.ack .Leq s.snd.nxt then
      if seg.ctl.syn then
        let s := { s with snd.una := seg.ack }
        .ok (s.removeAckedFromRetransmission s.snd.una, none)
      else .ok (s, none)
    else enqueueThen s (s.rstForAck seg) fun s => .ok (s, some .InvalidAck)
  | .SynReceived =>
    if modBounded s.snd.una .Lt seg.ack .Leq s.snd.nxt then
      let s := { s with state := .Established, snd.wnd := seg.wnd, snd.wl1 := seg.seq,
                        snd.wl2 := seg.ack }
      afterAckEstablished (s.ackEstablishedProcessing seg) fun s r =>
        if r = .Success then .ok (s, none) else .ok (s, some r)
    else enqueueThen s (s.rstForAck seg) fun s => .ok (s, none)
  | .Established | .FinWait2 | .CloseWait =>
    afterAckEstablished (s.ackEstablishedProcessing seg) fun s r =>
      if r = .Success then .ok (s, none) else .ok (s, some r)
  | .FinWait1 =>
    afterAckEstablished (s.ackEstablishedProcessing seg) fun s r =>
      let s := if s.isFinAcked then { s with state := .FinWait2 } else s
      if r = .Success then .ok (s, none) else .ok (s, some r)
  | .Closing =>
    afterAckEstablished (s.ackEstablishedProcessing seg) fun s r =>
      let s := if s.isFinAcked then
          { s with state := .TimeWait, timeouts.timeWait := some TIME_WAIT } else s
      if r = .Success then .ok (s, none) else .ok (s, some r)
  | .LastAck =>
    afterAckEstablished (s.ackEstablishedProcessing seg) fun s r =>
      if s.isFinAcked then .ok (s, some .FinalizeClose)
      else if r = .Success then .ok (s, none) else .ok (s, some r)
  | .TimeWait =>
    -- only a retransmitted FIN is acknowledged and restarts the 2 MSL timeout (in `finBlock`)
    .ok (s, none)

/-- block 3: `if seg.ctl.rst() { match self.state … }` -/
def rstBlock (s : Tcb) (seg : Hdr) : B :=
  if !seg.ctl.rst then .ok (s, none) else
  match s.state with
  | .SynSent =>
    -- 3.10.7.3, second: "Otherwise (no ACK), drop the segment and return."
    if !seg.ctl.ack then .ok (s, some .DiscardSegment)
    else if seg.seq = s.rcv.nxt then .ok (s, some .ConnectionReset) else .ok (s, some .BlindReset)
  | .SynReceived =>
    match s.initiation with
    | .Listen => .ok (s, some .ReturnToListen)
    | .Open => .ok (s, some .ConnectionRefused)
  | .Established | .FinWait1 | .FinWait2 | .CloseWait => .ok (s, some .ConnectionReset)
  | .Closing | .LastAck | .TimeWait => .ok (s, some .FinalizeClose)

/-- block 4: `if self.state == SynSent && !seg.ctl.syn() { return DiscardSegment }` followed by
    `if seg.ctl.syn() { match self.state … }` -/
def synBlock (s : Tcb) (seg : Hdr) : B :=
  if !seg.ctl.syn then
    -- 3.10.7.3, fifth: neither SYN nor RST is set: drop the segment
    if s.state = .SynSent then .ok (s, some .DiscardSegment) else .ok (s, none)
  else
  match s.state with
  | .SynSent =>
    -- `SND.WL2`: the ACK field means something only under the ACK bit; a SYN without ACK
    -- (simultaneous open) acknowledges nothing yet, the window is as of ISS
    let s := { s with rcv.irs := seg.seq, rcv.nxt := seg.seq + 1, snd.wnd := seg.wnd,
                      snd.wl1 := seg.seq, snd.wl2 := if seg.ctl.ack then seg.ack else s.snd.iss }
    if modGt s.snd.una s.snd.iss then
      let s := { s with state := .Established }
      enqueueThen s s.ackHdr fun s => .ok (s, none)
    else
      let s := { s with state := .SynReceived }
      enqueueThen s ((((s.headerBuilder s.snd.iss).withSyn).withAck s.rcv.nxt).withWnd s.rcv.wnd)
        fun s => .ok (s, some .Success)
  | _ => enqueueThen s s.ackHdr fun s => .ok (s, some .DiscardSegment)

/-- block 5: "Queue the segment text for processing".
    Panic sites: the `assert!`, `text_len - already_received`, `rcv.wnd as u32 -
    incoming.text.len() as u32`, `already_received + accept` (all `u32`), and the
    `assert!(start + len <= self.len())` inside `Message::slice`. -/
def textBlock (s : Tcb) (seg : Hdr) (text : List UInt8) (textLen : Seq) : B :=
  if text.isEmpty then .ok (s, none) else
  match s.state with
  | .Established | .SynSent | .SynReceived | .FinWait1 | .FinWait2 =>
    if !(s.isInRcvWindow seg.seq || s.isInRcvWindow (seg.seq + textLen)) then
      .error "panic:assert:process_segment.text_in_window" else
    let alreadyReceived : Seq := s.rcv.nxt - seg.seq - BitVec.ofNat 32 seg.ctl.syn.toNat
    -- .min(text_len)
    let alreadyReceived : Seq := if alreadyReceived ≤ textLen then alreadyReceived else textLen
    if textLen.toNat < alreadyReceived.toNat then .error "panic:sub-overflow:process_segment.unreceived" else
    let unreceived := textLen.toNat - alreadyReceived.toNat
    let inLen := s.incoming.text.length % 4294967296
    if s.rcv.wnd.toNat < inLen then .error "panic:sub-overflow:process_segment.space_available" else
    let spaceAvailable := s.rcv.wnd.toNat - inLen
    let accept := min unreceived spaceAvailable
    let s := { s with rcv.nxt := s.rcv.nxt + BitVec.ofNat 32 accept }
    if alreadyReceived.toNat + accept ≥ 4294967296 then .error "panic:add-overflow:process_segment.slice_end" else
    -- text.slice(already_received .. already_received + accept)
    if alreadyReceived.toNat + accept > text.length then .error "panic:assert:process_segment.slice" else
    let s := { s with incoming.text := s.incoming.text ++ (text.drop alreadyReceived.toNat).take accept }
    enqueueThen s s.ackHdr fun s => .ok (s, none)
  | _ => .ok (s, none)

/-- block 6: `if seg.ctl.fin() { … }` -/
def finBlock (s : Tcb) (seg : Hdr) (textLen : Seq) : B :=
  if !seg.ctl.fin then .ok (s, none) else
  let s1 : Except String Tcb :=
    if s.state ≠ .SynSent then
      let lastTextByte := seg.seq + textLen
      if s.rcv.nxt = lastTextByte || s.rcv.nxt = lastTextByte + 1 then
        let s := { s with rcv.nxt := lastTextByte + 1 }
        s.enqueue s.ackHdr
      else .ok s
    else .ok s
  match s1 with
  | .error e => .error e
  | .ok s =>
    match s.state with
    | .SynReceived | .Established => .ok ({ s with state := .CloseWait }, none)
    | .FinWait1 =>
      if s.isFinAcked then
        .ok ({ s with state := .TimeWait, timeouts.timeWait := some TIME_WAIT }, none)
      else .ok ({ s with state := .Closing }, none)
    | .FinWait2 =>
      .ok ({ s with state := .TimeWait, timeouts.timeWait := some TIME_WAIT,
                    timeouts.retransmission := RTO }, none)
    | .TimeWait => .ok ({ s with timeouts.timeWait := some TIME_WAIT }, none)
    | _ => .ok (s, none)

/-- `Tcb::process_segment` -/
def processSegment (s : Tcb) (segment : Segment) : M ProcessSegmentResult :=
  let seg := segment.hdr
  let text := segment.text
  -- let text_len = text.len() as u32;
  let textLen : Seq := BitVec.ofNat 32 text.length
  let r := (((((seqCheck s seg textLen).andThen fun s => ackBlock s seg).andThen fun s =>
    rstBlock s seg).andThen fun s => synBlock s seg).andThen fun s =>
    textBlock s seg text textLen).andThen fun s => finBlock s seg textLen
  match r with
  | .error e => .error e
  | .ok (s, some r) => .ok (s, r)
  | .ok (s, none) => .ok (s, .Success)

/-- the `while let Some(segment) = self.incoming.segments.peek()` loop of `segment_arrives`.
    `fuel > |heap|` suffices (every round pops one element; nothing is pushed). -/
def drain : Nat → Tcb → M SegmentArrivesResult
  | 0, s => .ok (s, .Ok)
  | fuel + 1, s =>
    match LHeap.peek s.incoming.segments with
    | none => .ok (s, .Ok)
    | some top =>
      if s.state ≠ .SynSent && modGt top.hdr.seq s.rcv.nxt then .ok (s, .Ok) else
      match LHeap.pop segLe s.incoming.segments with
      | (none, _) => .error "panic:unwrap:segment_arrives.pop"
      | (some segment, rest) =>
        match processSegment { s with incoming.segments := rest } segment with
        | .error e => .error e
        | .ok (s, r) => if r.shouldDeleteTcb then .ok (s, .Close) else drain fuel s

/-- `Tcb::segment_arrives`: first the acceptability test on arrival (`self.state != SynSent &&
    !self.is_seq_ok(..)`: acknowledge and drop), then the reorder heap and the gate -/
def segmentArrives (s : Tcb) (segment : Segment) : M SegmentArrivesResult :=
  let acceptable : Except String Bool :=
    if s.state = .SynSent then .ok true
    else s.isSeqOk (BitVec.ofNat 32 segment.text.length) segment.hdr.seq segment.hdr.ctl.syn
           segment.hdr.ctl.fin
  match acceptable with
  | .error e => .error e
  | .ok false =>
    match s.enqueue s.ackHdr with
    | .error e => .error e
    | .ok s => .ok (s, .Ok)
  | .ok true =>
    let s := { s with incoming.segments := LHeap.push segLe s.incoming.segments segment }
    drain (s.incoming.segments.length + 1) s

end Tcb

/-! ## free functions: CLOSED and LISTEN -/

/-- `segment_arrives_closed` (`.build(..).ok()`: a failed build yields `None`) -/
def segmentArrivesClosed (seg : Hdr) (textLen : Seq) : Option Hdr :=
  if seg.ctl.rst then none
  else if seg.ctl.ack then ((Hdr.builder seg.dstPort seg.srcPort seg.ack).withRst).build 0
  else (((Hdr.builder seg.dstPort seg.srcPort 0).withRst).withAck (seg.seq + textLen)).build 0

/-- `ListenResult` -/
inductive ListenResult
  | Tcb (tcb : Tcb)
  | Response (hdr : Hdr)
  deriving Repr

/-- `segment_arrives_listen` -/
def segmentArrivesListen (segment : Segment) (iss : Seq) (mtu : U16) :
    Except String (Option ListenResult) :=
  let seg := segment.hdr
  if seg.ctl.rst then .ok none
  else if seg.ctl.ack then
    .ok ((((Hdr.builder seg.dstPort seg.srcPort seg.ack).withRst).build 0).map .Response)
  else if seg.ctl.syn then
    let rcvNxt := seg.seq + 1
    let tcb : Tcb :=
      { localPort := seg.dstPort, remotePort := seg.srcPort, mtu, initiation := .Listen,
        state := .SynReceived,
        snd := { iss := iss, una := iss, nxt := iss + 1, wnd := seg.wnd, wl1 := seg.seq, wl2 := iss },
        rcv := { irs := seg.seq, nxt := rcvNxt } }
    match tcb.enqueue ((((tcb.headerBuilder iss).withSyn).withAck rcvNxt).withWnd ({} : Rcv).wnd) with
    | .error e => .error e
    | .ok tcb =>
      -- Processing of SYN and ACK should not be repeated.
      let seg' := { seg with ctl := { seg.ctl with syn := false, ack := false } }
      let heap := LHeap.push segLe tcb.incoming.segments ⟨seg', segment.text⟩
      .ok (some (.Tcb { tcb with incoming.segments := heap }))
  else .ok none

end Elvis.Tcp
