import ElvisVerif.Generated.Codec
import ElvisVerif.Model.Codec.Ipv4
import ElvisVerif.Model.Codec.Udp
import ElvisVerif.Model.Codec.Tcp
/-!
Tie between the hand-written codec / checksum models and what `tools/extract.py` reads from the
Rust sources on every check (`Generated/Codec.lean`): the constants the models spell as literals
and the one-expression kernels.  A source edit that changes one of them breaks a proof here.
-/
namespace Elvis.Gen.Codec
open Elvis.Ck Elvis.Codec

/-- every size / shift / mask / protocol number the models use as a literal -/
theorem consts_eq :
    ipv4_BASE_WORDS = 5 ∧ ipv4_BASE_OCTETS = 20 ∧ ipv4_FRAGMENT_OFFSET_MASK = 8191 ∧
    ipv4_version_shift = 4 ∧ ipv4_version = 4 ∧ ipv4_ihl_mask = 15 ∧ ipv4_tos_reserved_mask = 3 ∧
    ipv4_flags_shift = 13 ∧ ipv4_reserved_flag_mask = 4 ∧ ipv4_build_version = 4 ∧
    ipv4_build_flags_shift = 13 ∧ ipv4_tos_precedence_shift = 5 ∧ ipv4_tos_delay_shift = 4 ∧
    ipv4_tos_throughput_shift = 3 ∧ ipv4_tos_reliability_shift = 2 ∧
    ipv4_may_fragment_mask = 2 ∧ ipv4_last_fragment_mask = 1 ∧
    udp_HEADER_OCTETS = 8 ∧ udp_protocol_number = 17 ∧ udp_build_protocol_number = 17 ∧
    tcp_BASE_HEADER_WORDS = 5 ∧ tcp_BASE_HEADER_OCTETS = 20 ∧ tcp_data_offset_shift = 4 ∧
    tcp_control_mask = 63 ∧ tcp_serialize_offset_shift = 4 ∧ tcp_build_offset_shift = 4 ∧
    tcp_protocol_number = 6 ∧ tcp_build_protocol_number = 6 ∧ tcp_bytes_factor = 4 := by
  decide

/-- `Checksum::add_u16` as extracted equals the model, and its checked `sum + carry` never
    overflows a `u16` -/
theorem add_u16_eq (a v : Nat) (ha : a < 65536) (hv : v < 65536) :
    add_u16 a v = addU16 a v ∧ add_u16 a v < 65536 := by
  unfold add_u16 addU16
  simp only
  by_cases h : a + v ≥ 65536
  · simp only [h, decide_true, Bool.toNat_true, if_true]; omega
  · simp only [h, decide_false, Bool.toNat_false, if_false]; omega

theorem as_u16_eq (a : Nat) : as_u16 a = asU16 true a ∧ as_u16_off = asU16 false a := by
  simp [as_u16, as_u16_off, asU16]

theorem matches_eq (acc e : Nat) :
    matches_ (asU16 true acc) acc e = matchesField true acc e ∧
    matches_ (asU16 false 0) 0 e = matchesField false 0 e := by
  simp [matches_, matchesField]

/-- `Control::new`: all 64 flag combinations -/
theorem control_new_eq : ∀ urg ack psh rst syn fin : Bool,
    control_new urg ack psh rst syn fin = Tcp.ctlNew urg ack psh rst syn fin := by
  decide

/-- `ControlFlags::new`: all 4 combinations -/
theorem control_flags_new_eq : ∀ may last : Bool,
    control_flags_new may last = Ipv4.flagsNew may last := by
  decide

/-- `TypeOfService::new`: all 8·2·2·2 combinations of the enum discriminants -/
theorem type_of_service_new_eq : ∀ p, p < 8 → ∀ d, d < 2 → ∀ t, t < 2 → ∀ r, r < 2 →
    type_of_service_new p d t r = Ipv4.tosNew p d t r := by
  decide

end Elvis.Gen.Codec
