//! C07: Message vs. plain byte vectors.  Ops are text lines (the same lines drive the Lean
//! model); after every op the whole pool is dumped (len, bytes, == matrix).
use elvis_core::Message;
use hcommon::*;

pub struct Exec {
    pool: Vec<Message>,
    shadow: Vec<Vec<u8>>,
    /// chunk boundary positions per message (generator guidance only)
    bounds: Vec<Vec<usize>>,
}

fn dump(pool: &[Message]) -> String {
    let mut parts: Vec<String> = vec![];
    for m in pool {
        parts.push(format!("{}:{}", m.len(), hex(&m.to_vec())));
    }
    let mut eqs = String::new();
    for a in pool {
        for b in pool {
            eqs.push(if a == b { '1' } else { '0' });
        }
    }
    format!("{} eq={}", parts.join(" "), eqs)
}

enum Form {
    Range(usize, usize),
    From(usize),
    Full,
    Incl(usize, usize),
    To(usize),
    ToIncl(usize),
}

fn parse_form(w: &[&str]) -> Option<Form> {
    Some(match w {
        ["range", a, b] => Form::Range(a.parse().ok()?, b.parse().ok()?),
        ["from", a] => Form::From(a.parse().ok()?),
        ["full"] => Form::Full,
        ["incl", a, b] => Form::Incl(a.parse().ok()?, b.parse().ok()?),
        ["to", b] => Form::To(b.parse().ok()?),
        ["toincl", b] => Form::ToIncl(b.parse().ok()?),
        _ => return None,
    })
}

/// the specification on plain vectors, written independently of `Message`
fn spec_slice(v: &[u8], f: &Form) -> Result<Vec<u8>, &'static str> {
    let (start, len): (usize, Option<usize>) = match *f {
        Form::Range(a, b) => (a, Some(b.saturating_sub(a))),
        Form::From(a) => (a, None),
        Form::Full => (0, None),
        Form::Incl(a, b) => {
            if b + 1 < a {
                return Err("panic:sub-overflow:slice_range");
            }
            (a, Some(b + 1 - a))
        }
        Form::To(b) => (0, Some(b)),
        Form::ToIncl(b) => (0, Some(b + 1)),
    };
    if start + len.unwrap_or(0) > v.len() {
        return Err("panic:assert:slice_inner");
    }
    let l = len.unwrap_or(v.len() - start);
    Ok(v[start..start + l].to_vec())
}

impl Exec {
    pub fn new() -> Self {
        Exec { pool: vec![], shadow: vec![], bounds: vec![] }
    }

    fn classify(op: &str, p: &PanicInfo) -> String {
        let text = source_line_text(&p.file, p.line);
        if op == "slice" && p.file.ends_with("slice_range.rs") && p.msg.contains("subtract with overflow") {
            "panic:sub-overflow:slice_range".into()
        } else if op == "slice" && text.starts_with("assert!(start + len.unwrap_or(0) <= self.len())") {
            "panic:assert:slice_inner".into()
        } else if op == "cut" && p.file.ends_with("message.rs") && text.starts_with("assert!(len <= self.len)") {
            "panic:assert:cut".into()
        } else if op == "rf" && p.file.ends_with("message.rs") && text.starts_with("assert!(len <= self.len)") {
            "panic:assert:remove_front".into()
        } else {
            format!("panic:other:{}:{}", p.file.rsplit('/').next().unwrap_or(""), text.replace(' ', "_"))
        }
    }

    /// Execute one op line on the implementation and on the shadow vectors; emit the line pair.
    pub fn apply(&mut self, line: &str, out: &mut Out) {
        // `q <op>`: quiet op — applied without flattening any pool member (no dump, no comparison),
        // so that messages derived from one another can diverge before anything is materialised;
        // `dump`: a loud no-op
        let quiet = line.starts_with("q ");
        let body = if quiet { &line[2..] } else { line };
        if body == "dump" {
            let d = match catch(|| dump(&self.pool)) {
                Ok(d) => d,
                Err(p) => format!("dump-panic:{}", source_line_text(&p.file, p.line)),
            };
            out.line(line, &format!("ok {}", d));
            self.compare(line, "dump", out);
            return;
        }
        let w: Vec<&str> = body.split_whitespace().collect();
        let n = self.pool.len();
        let idx = |s: &str| -> Option<usize> { s.parse::<usize>().ok().filter(|i| *i < n) };
        // (impl result, spec result)
        let mut imp_err: Option<String> = None;
        let mut spec_err: Option<&'static str> = None;
        match w.as_slice() {
            ["new", h] => {
                let b = unhex(h);
                self.pool.push(Message::new(b.clone()));
                self.bounds.push(vec![]);
                self.shadow.push(b);
            }
            ["header", i, h] => {
                let (Some(i), b) = (idx(i), unhex(h)) else { return out.line(line, "bad-op") };
                self.pool[i].header(b.clone());
                let mut nb = vec![b.len()];
                nb.extend(self.bounds[i].iter().map(|x| x + b.len()));
                self.bounds[i] = nb;
                let mut v = b;
                v.extend_from_slice(&self.shadow[i]);
                self.shadow[i] = v;
            }
            ["concat", i, j] => {
                let (Some(i), Some(j)) = (idx(i), idx(j)) else { return out.line(line, "bad-op") };
                let other = self.pool[j].clone();
                self.pool[i].concatenate(other);
                let base = self.shadow[i].len();
                let mut nb = self.bounds[i].clone();
                nb.push(base);
                nb.extend(self.bounds[j].iter().map(|x| x + base));
                self.bounds[i] = nb;
                let w2 = self.shadow[j].clone();
                self.shadow[i].extend_from_slice(&w2);
            }
            ["slice", i, rest @ ..] => {
                let (Some(i), Some(f)) = (idx(i), parse_form(rest)) else { return out.line(line, "bad-op") };
                let backup = self.pool[i].clone();
                let m = &mut self.pool[i];
                let r = catch(|| match f {
                    Form::Range(a, b) => m.slice(a..b),
                    Form::From(a) => m.slice(a..),
                    Form::Full => m.slice(..),
                    Form::Incl(a, b) => m.slice(a..=b),
                    Form::To(b) => m.slice(..b),
                    Form::ToIncl(b) => m.slice(..=b),
                });
                if let Err(p) = r {
                    imp_err = Some(Self::classify("slice", &p));
                    self.pool[i] = backup;
                }
                match spec_slice(&self.shadow[i], &f) {
                    Ok(v) => {
                        let start = self.shadow[i].len().min(match f {
                            Form::Range(a, _) | Form::From(a) | Form::Incl(a, _) => a,
                            _ => 0,
                        });
                        let l = v.len();
                        self.bounds[i] = self.bounds[i].iter().filter(|x| **x >= start && **x <= start + l).map(|x| x - start).collect();
                        self.shadow[i] = v;
                    }
                    Err(e) => spec_err = Some(e),
                }
            }
            ["cut", i, k] => {
                let (Some(i), Ok(k)) = (idx(i), k.parse::<usize>()) else { return out.line(line, "bad-op") };
                let backup = self.pool[i].clone();
                let m = &mut self.pool[i];
                match catch(|| m.cut(k)) {
                    Ok(removed) => {
                        self.pool.push(removed);
                    }
                    Err(p) => {
                        imp_err = Some(Self::classify("cut", &p));
                        self.pool[i] = backup;
                    }
                }
                if k <= self.shadow[i].len() {
                    let rest = self.shadow[i].split_off(k);
                    let removed = std::mem::replace(&mut self.shadow[i], rest);
                    self.shadow.push(removed);
                    let b = self.bounds[i].clone();
                    self.bounds.push(b.iter().filter(|x| **x <= k).cloned().collect());
                    self.bounds[i] = b.iter().filter(|x| **x >= k).map(|x| x - k).collect();
                } else {
                    spec_err = Some("panic:assert:cut");
                }
            }
            ["rf", i, k] => {
                let (Some(i), Ok(k)) = (idx(i), k.parse::<usize>()) else { return out.line(line, "bad-op") };
                let backup = self.pool[i].clone();
                let m = &mut self.pool[i];
                if let Err(p) = catch(|| m.remove_front(k)) {
                    imp_err = Some(Self::classify("rf", &p));
                    self.pool[i] = backup;
                }
                if k <= self.shadow[i].len() {
                    self.shadow[i].drain(..k);
                    self.bounds[i] = self.bounds[i].iter().filter(|x| **x >= k).map(|x| x - k).collect();
                } else {
                    spec_err = Some("panic:assert:remove_front");
                }
            }
            ["clone", i] => {
                let Some(i) = idx(i) else { return out.line(line, "bad-op") };
                let c = self.pool[i].clone();
                self.pool.push(c);
                let s = self.shadow[i].clone();
                self.shadow.push(s);
                let b = self.bounds[i].clone();
                self.bounds.push(b);
            }
            _ => return out.line(line, "bad-op"),
        }
        out.count(&format!("op.{}", w[0]));
        if quiet {
            out.count("quiet_ops");
            let res = match &imp_err {
                None => "ok".to_string(),
                Some(e) => format!("err {}", e),
            };
            out.line(line, &res);
            match (&imp_err, spec_err) {
                (None, None) => {}
                (Some(e), Some(s)) if e == s => {}
                (a, b) => {
                    out.fail(&format!("op `{}`: Message outcome {:?} but byte-vector outcome {:?}", line, a, b), &format!("outcome-mismatch {}", w[0]));
                    self.resync();
                }
            }
            return;
        }
        // dump (a corrupted chunk could panic inside to_vec: that is an observable outcome too)
        let d = match catch(|| dump(&self.pool)) {
            Ok(d) => d,
            Err(p) => format!("dump-panic:{}", source_line_text(&p.file, p.line)),
        };
        let res = match &imp_err {
            None => format!("ok {}", d),
            Some(e) => {
                out.count(&format!("err.{}", e));
                format!("err {} {}", e, d)
            }
        };
        out.line(line, &res);
        // ---- property oracle: identical to the same ops on plain vectors ----
        match (&imp_err, spec_err) {
            (None, None) => {}
            (Some(e), Some(s)) if e == s => {}
            (a, b) => {
                let what = format!("op `{}`: Message outcome {:?} but byte-vector outcome {:?}", line, a, b);
                out.fail(&what, &format!("outcome-mismatch {}", w[0]));
                // resynchronise the shadow so later ops are still meaningful
                self.resync();
                return;
            }
        }
        self.compare(line, w[0], out);
    }

    /// every pool member against its shadow vector: bytes, len, is_empty, == matrix
    fn compare(&mut self, line: &str, opname: &str, out: &mut Out) {
        if self.pool.len() != self.shadow.len() {
            out.fail("pool size differs from shadow", "pool-size");
            self.resync();
            return;
        }
        for (k, m) in self.pool.iter().enumerate() {
            let v = catch(|| m.to_vec()).unwrap_or_default();
            if v != self.shadow[k] || m.len() != self.shadow[k].len() || m.is_empty() != self.shadow[k].is_empty() {
                let what = format!(
                    "after `{}` pool[{}] = len {} bytes {} but the byte-vector semantics give len {} bytes {}",
                    line, k, m.len(), hex(&v), self.shadow[k].len(), hex(&self.shadow[k])
                );
                out.fail(&what, &format!("bytes-differ {}", opname));
                self.resync();
                return;
            }
        }
        for a in 0..self.pool.len() {
            for b in 0..self.pool.len() {
                if (self.pool[a] == self.pool[b]) != (self.shadow[a] == self.shadow[b]) {
                    out.fail(&format!("after `{}` pool[{}] == pool[{}] disagrees with byte equality", line, a, b), "eq-differs");
                    return;
                }
            }
        }
    }

    fn resync(&mut self) {
        self.shadow = self.pool.iter().map(|m| catch(|| m.to_vec()).unwrap_or_default()).collect();
        self.bounds = self.shadow.iter().map(|_| vec![]).collect();
    }

    /// next op line, boundary-biased
    pub fn gen(&self, rng: &mut Rng) -> String {
        let n = self.pool.len();
        if n == 0 || (n < 8 && rng.chance(1, 6)) {
            let l = *rng.pick(&[0usize, 0, 1, 2, 3, 5, 8, 13, 21, 40]);
            return format!("new {}", hex(&rng.bytes(l)));
        }
        let i = rng.below(n as u64) as usize;
        let len = self.shadow[i].len();
        // interesting positions: 0, boundaries±1, len, len+1, random
        let pos = |rng: &mut Rng| -> usize {
            let mut c: Vec<usize> = vec![0, len, len + 1, len.saturating_sub(1)];
            for b in &self.bounds[i] {
                c.push(*b);
                c.push(b + 1);
                c.push(b.saturating_sub(1));
            }
            if len > 0 {
                c.push(rng.below(len as u64 + 1) as usize);
                c.push(rng.below(len as u64 + 1) as usize);
            }
            *rng.pick(&c)
        };
        match rng.below(100) {
            0..=17 => {
                let l = *rng.pick(&[0usize, 0, 1, 2, 4, 7, 20]);
                format!("header {} {}", i, hex(&rng.bytes(l)))
            }
            18..=29 if n >= 1 => {
                let j = rng.below(n as u64) as usize;
                if self.shadow[i].len() + self.shadow[j].len() > 200 {
                    format!("rf {} {}", i, pos(rng))
                } else {
                    format!("concat {} {}", i, j)
                }
            }
            30..=64 => {
                let a = pos(rng);
                let b = pos(rng);
                let (a, b) = if rng.chance(4, 5) && a > b { (b, a) } else { (a, b) };
                match rng.below(6) {
                    0 => format!("slice {} range {} {}", i, a, b),
                    1 => format!("slice {} from {}", i, a),
                    2 => format!("slice {} full", i),
                    3 => format!("slice {} incl {} {}", i, a, b),
                    4 => format!("slice {} to {}", i, b),
                    _ => format!("slice {} toincl {}", i, b),
                }
            }
            65..=79 if n < 8 => format!("cut {} {}", i, pos(rng)),
            65..=79 => format!("rf {} {}", i, pos(rng)),
            80..=91 => format!("rf {} {}", i, pos(rng)),
            _ if n < 8 => format!("clone {}", i),
            _ => format!("header {} {}", i, hex(&rng.bytes(3))),
        }
    }
}

pub fn run(args: &Args) {
    let mut out = Out::new(&args.out);
    let rule = "op sequences over a pool of <= 8 Messages (new/header/concat/slice by six range forms/cut/remove_front/clone), endpoints biased to 0, chunk boundaries +-1, len, len+1; a case is non-trivial if it has >= 2 messages with >= 2 chunks or a cut/slice landing strictly inside a chunk; distinct = hash of its op lines";
    if let Some(rp) = &args.replay {
        let mut ex = Exec::new();
        out.begin_case(0);
        out.mark_nontrivial();
        for l in read_ops(rp) {
            if l.starts_with("case ") {
                continue;
            }
            ex.apply(&l, &mut out);
        }
        out.end_case();
        out.finish(rule);
        return;
    }
    let ops_per_case: u64 = args.extra.get("ops").and_then(|s| s.parse().ok()).unwrap_or(30);
    let mut rng = Rng::new(args.seed);
    for c in 0..args.cases {
        let mut r = rng.fork();
        let mut ex = Exec::new();
        out.begin_case(c);
        // dump policy: 0 = after every op; 1 = sparse (most ops quiet); 2 = only at the end
        let policy = r.below(3);
        for k in 0..ops_per_case {
            let op = ex.gen(&mut r);
            let quiet = match policy {
                0 => false,
                1 => !r.chance(1, 6),
                _ => true,
            } && k + 1 < ops_per_case;
            if quiet {
                ex.apply(&format!("q {}", op), &mut out);
            } else {
                ex.apply(&op, &mut out);
            }
        }
        ex.apply("dump", &mut out);
        out.count(&format!("dump_policy.{}", policy));
        let multi = ex.bounds.iter().filter(|b| !b.is_empty()).count();
        if multi >= 2 {
            out.mark_nontrivial();
        }
        out.count(&format!("pool_size.{}", ex.pool.len()));
        out.end_case();
    }
    out.finish(rule);
}
