import ElvisVerif.Lemmas.NdlDoc2
/-!
# NDL: glue between the written descriptions, the rejection paths and the normal form

* a path to an offending line may start after any sequence of blocks (`inFile_after_doc`,
  `dupFile_after_doc`);
* the meaning of the normalised written description is the normalised meaning
  (`normDoc_sim`), so every written form of a description `t` parses to `normSim t` up to the
  order of the map entries;
* every argument list of a well-formed `Sim` is a well-formed line (`simOk_lines`).
-/
namespace Elvis.Ndl
open Elvis.Gen.Ndl

theorem inFile_after_doc {off : Off} {bs s l rest l'} (h : DocAt bs s l rest l') (h2 : InFile off rest l') :
    InFile off s l := by
  induction h with
  | nil => exact h2
  | cons hb _ ih => exact InFile.later hb (ih h2)

theorem dupFile_after_doc {bs s l rest l'} (h : DocAt bs s l rest l') :
    ∀ ids, DupFile (ids ++ bs.flatMap Block.ids) rest l' → DupFile ids s l := by
  induction h with
  | nil => intro ids h2; simpa using h2
  | cons hb _ ih =>
    intro ids h2
    refine DupFile.later hb (ih _ ?_)
    simpa [List.append_assoc] using h2

/-! ### normalising a written description normalises its meaning -/

theorem get?_some_mem (ps : Params) (k v : Text) (h : ps.get? k = some v) : k ∈ ps.map (·.1) := by
  unfold Params.get? at h
  cases hf : ps.find? (fun e => e.1 == k) with
  | none => rw [hf] at h; cases h
  | some e =>
    have h1 := List.find?_some hf
    have h2 := List.mem_of_find?_eq_some hf
    simp only [beq_iff_eq] at h1
    exact List.mem_map.2 ⟨e, h2, h1⟩

/-- a key the rewriting leaves alone is still found, with its value rewritten, as long as the
    rewritten keys are distinct -/
theorem get?_norm (K : Text) (hK : normalise K = K) : ∀ (ps : Params) (v : Text),
    ((normParams ps).map (·.1)).Nodup → ps.get? K = some v → (normParams ps).get? K = some (normalise v)
  | [], v, _, h => by simp [Params.get?] at h
  | (k, w) :: ps, v, hnd, h => by
    simp only [normParams, List.map_cons, List.nodup_cons] at hnd
    by_cases hk : k = K
    · subst hk
      simp only [Params.get?, List.find?_cons, beq_self_eq_true, Option.map_some, Option.some.injEq] at h
      subst h
      simp [Params.get?, normParams, hK]
    · have h' : Params.get? ps K = some v := by
        simpa [Params.get?, List.find?_cons, hk] using h
      have ih := get?_norm K hK ps v hnd.2 h'
      have hmem := get?_some_mem _ _ _ ih
      have hne : normalise k ≠ K := by
        intro he
        apply hnd.1
        rw [he]
        exact hmem
      have : Params.get? (normParams ((k, w) :: ps)) K = Params.get? (normParams ps) K := by
        simp [Params.get?, normParams, hne]
      rw [this, ih]

theorem normalise_id : normalise ['i', 'd'] = ['i', 'd'] := by decide

theorem leaf_norm (exp : DecType) (x : DLine) : x.norm.leaf exp = normLeaf (x.leaf exp) := rfl

theorem DNet.norm_net (n : DNet) (hs : n.Shape) (hnd : ((normParams n.hd.ps).map (·.1)).Nodup) :
    n.norm.net = (normalise n.net.1, normNetwork n.net.2) := by
  obtain ⟨⟨id, hid⟩, _⟩ := hs
  have h2 := get?_norm _ normalise_id n.hd.ps id hnd hid
  simp only [DNet.net, DNet.norm, DLine.norm, h2, hid, Option.getD_some, normNetwork, List.map_map]
  rfl

theorem secLeaves_norm (k : DecType) (secs : List DSec) :
    secLeaves k ((secs.map DSec.norm).map DSec.sec) = (secLeaves k (secs.map DSec.sec)).map normLeaf := by
  induction secs with
  | nil => rfl
  | cons s secs ih =>
    simp only [secLeaves, List.map_cons, List.filter_cons] at ih ⊢
    have hk : (s.norm.sec).1 = (s.sec).1 := rfl
    rw [hk]
    split
    · simp only [List.flatMap_cons, List.map_append, ih]
      congr 1
      simp [DSec.sec, DSec.norm, List.map_map, Function.comp_def, leaf_norm]
    · exact ih

theorem DMach.norm_machine (m : DMach) : m.norm.machine = normMachine m.machine := by
  simp only [DMach.machine, normMachine]
  rw [show m.norm.secs = m.secs.map DSec.norm from rfl, secLeaves_norm, secLeaves_norm, secLeaves_norm]
  rfl

theorem DBlock.norm_machs (b : DBlock) : b.norm.machs' = b.machs'.map normMachine := by
  cases b with
  | template hd => rfl
  | nets hd ns => rfl
  | machs hd ms => simp [DBlock.norm, DBlock.machs', List.map_map, Function.comp_def, DMach.norm_machine]

theorem DBlock.norm_nets (b : DBlock) (hs : b.Shape) (hok : ∀ x ∈ b.norm.lines, x.Ok) :
    b.norm.nets' = b.nets'.map fun e => (normalise e.1, normNetwork e.2) := by
  cases b with
  | template hd => rfl
  | machs hd ms => rfl
  | nets hd ns =>
    simp only [DBlock.norm, DBlock.nets', List.map_map]
    apply List.map_congr_left
    intro n hn
    apply DNet.norm_net n (hs n hn)
    have : n.norm.hd.rl 1 .network ∈ (DBlock.nets hd ns).norm.lines := by
      simp only [DBlock.norm, DBlock.lines, List.mem_cons, List.mem_flatMap]
      exact .inr ⟨n.norm, List.mem_map_of_mem hn, by simp [DNet.lines]⟩
    exact (hok _ this).2.2

theorem flatMap_congr' {α β : Type} {f g : α → List β} : ∀ (l : List α), (∀ a ∈ l, f a = g a) →
    l.flatMap f = l.flatMap g
  | [], _ => rfl
  | a :: l, h => by
    simp only [List.flatMap_cons, h a List.mem_cons_self,
      flatMap_congr' l (fun x hx => h x (List.mem_cons_of_mem _ hx))]

/-- the meaning of the rewritten layout is the rewritten meaning -/
theorem normDoc_sim (doc : Doc) (hs : ∀ b ∈ doc, b.Shape) (hok : ∀ x ∈ (normDoc doc).lines, x.Ok) :
    (normDoc doc).sim = normSim doc.sim := by
  simp only [Doc.sim, normSim, normDoc, Sim.mk.injEq, List.flatMap_map, List.map_flatMap]
  constructor
  · apply flatMap_congr'
    intro b hb
    apply DBlock.norm_nets b (hs b hb)
    intro x hx
    apply hok
    simp only [normDoc, Doc.lines, List.flatMap_map, List.mem_flatMap]
    exact ⟨b, hb, hx⟩
  · apply flatMap_congr'
    intro b _
    exact DBlock.norm_machs b

/-! ### the lines of a well-formed `Sim` -/

theorem simOk_lines (s : Sim) (hs : SimOk s) : ∀ x ∈ s.lineList, LineOk x.2.2 := by
  obtain ⟨hn, _, hm, _⟩ := hs
  intro x hx
  simp only [Sim.lineList, List.mem_cons, List.mem_append, List.mem_flatMap] at hx
  rcases hx with rfl | ⟨e, he, hx⟩ | rfl | ⟨m, hmm, hx⟩
  · exact lineOk_nil
  · obtain ⟨_, ho, _, _, hips⟩ := hn e he
    simp only [Network.lineList, leafLines, List.mem_cons, List.mem_map] at hx
    rcases hx with rfl | ⟨l, hl, rfl⟩
    · exact ho
    · exact (hips l hl).2
  · exact lineOk_nil
  · obtain ⟨_, ho, _, ha, _, hb, _, hc⟩ := hm m hmm
    simp only [Machine.lineList, leafLines, List.mem_cons, List.mem_append, List.mem_map] at hx
    rcases hx with rfl | rfl | ⟨l, hl, rfl⟩ | rfl | ⟨l, hl, rfl⟩ | rfl | ⟨l, hl, rfl⟩
    · exact ho
    · exact lineOk_nil
    · exact (ha l hl).2
    · exact lineOk_nil
    · exact (hb l hl).2
    · exact lineOk_nil
    · exact (hc l hl).2

theorem sim_keysStart (s : Sim) (hs : SimOk (normSim s)) : ∀ x ∈ s.lineList, KeysStart x.2.2 := by
  intro x hx
  apply keysStart_of_lineOk
  have : normSpec x ∈ (normSim s).lineList := by
    rw [lineList_norm]; exact List.mem_map_of_mem hx
  exact simOk_lines _ hs _ this

/-! ### decidable checkers (for the non-vacuity examples) -/

def keyOkB (k : Text) : Bool :=
  k.all (fun c => c != '=' && c != ']') && (match k with | [] => true | c :: _ => !isSep c)

theorem keyOk_of_B (k : Text) (h : keyOkB k = true) : KeyOk k := by
  simp only [keyOkB, Bool.and_eq_true, List.all_eq_true, bne_iff_ne, ne_eq] at h
  refine ⟨fun c hc => h.1 c hc, ?_⟩
  intro c r hk
  subst hk
  simpa using h.2

def lineOkB (ps : Params) : Bool :=
  ps.all (fun kv => keyOkB kv.1 && valOk kv.2) && decide ((ps.map (·.1)).Nodup)

theorem lineOk_of_B (ps : Params) (h : lineOkB ps = true) : LineOk ps := by
  simp only [lineOkB, Bool.and_eq_true, List.all_eq_true, decide_eq_true_eq] at h
  exact ⟨fun kv hkv => ⟨keyOk_of_B _ (h.1 kv hkv).1, (h.1 kv hkv).2⟩, h.2⟩

def RLine.okB (x : RLine) : Bool :=
  decide (x.deco.tag.map Char.toLower = x.dt.name.map Char.toLower) && lineOkB x.ps

theorem RLine.ok_of_B (x : RLine) (h : x.okB = true) : x.Ok := by
  simp only [RLine.okB, Bool.and_eq_true, decide_eq_true_eq] at h
  exact ⟨h.1, lineOk_of_B _ h.2⟩

def DNet.shapeB (n : DNet) : Bool := (n.hd.ps.get? ['i', 'd']).isSome && !n.ips.isEmpty
def DSec.shapeB (s : DSec) : Bool := decide (IsSec s.kind) && !s.leaves.isEmpty
def DMach.shapeB (m : DMach) : Bool := m.secs.all DSec.shapeB && decide ((m.secs.map (·.kind)).Perm secKinds)
def DBlock.shapeB : DBlock → Bool
  | .template _ => true
  | .nets _ ns => ns.all DNet.shapeB
  | .machs _ ms => ms.all DMach.shapeB

theorem DNet.shape_of_B (n : DNet) (h : n.shapeB = true) : n.Shape := by
  simp only [DNet.shapeB, Bool.and_eq_true, Option.isSome_iff_exists, Bool.not_eq_true',
    List.isEmpty_eq_false_iff] at h
  exact h

theorem DSec.shape_of_B (s : DSec) (h : s.shapeB = true) : s.Shape := by
  simp only [DSec.shapeB, Bool.and_eq_true, decide_eq_true_eq, Bool.not_eq_true',
    List.isEmpty_eq_false_iff] at h
  exact h

theorem DMach.shape_of_B (m : DMach) (h : m.shapeB = true) : m.Shape := by
  simp only [DMach.shapeB, Bool.and_eq_true, List.all_eq_true, decide_eq_true_eq] at h
  exact ⟨fun s hs => DSec.shape_of_B s (h.1 s hs), h.2⟩

theorem DBlock.shape_of_B (b : DBlock) (h : b.shapeB = true) : b.Shape := by
  cases b with
  | template hd => trivial
  | nets hd ns =>
    simp only [DBlock.shapeB, List.all_eq_true] at h
    exact fun n hn => DNet.shape_of_B n (h n hn)
  | machs hd ms =>
    simp only [DBlock.shapeB, List.all_eq_true] at h
    exact fun m hm => DMach.shape_of_B m (h m hm)

def Doc.okB (doc : Doc) : Bool :=
  doc.lines.all RLine.okB && doc.all DBlock.shapeB && decide ((doc.sim.networks.map (·.1)).Nodup) &&
    decide (1 + lc doc.lines ≤ i32Max)

theorem Doc.ok_of_B (doc : Doc) (h : doc.okB = true) : doc.Ok := by
  simp only [Doc.okB, Bool.and_eq_true, List.all_eq_true, decide_eq_true_eq] at h
  exact ⟨fun x hx => RLine.ok_of_B x (h.1.1.1 x hx), fun b hb => DBlock.shape_of_B b (h.1.1.2 b hb), h.1.2, h.2⟩

end Elvis.Ndl
