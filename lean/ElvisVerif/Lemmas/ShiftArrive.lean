import ElvisVerif.Lemmas.ShiftProcess
import ElvisVerif.Lemmas.ListHeap
/-!
# `segment_arrives` commutes with the shift map (C12)

Tracking facts about `process_segment` (reorder heap untouched, never back into SYN-SENT), the
processing loop by induction on its fuel, then `segment_arrives`.
-/
namespace Elvis.Tcp
open Elvis.ModCmp
variable (ka kb : Seq)

/-! ## what `process_segment` leaves alone -/

/-- `u` has the reorder heap of `s` and is in SYN-SENT only if `s` was -/
structure Trk (s u : Tcb) : Prop where
  heap : u.incoming.segments = s.incoming.segments
  synsent : u.state = .SynSent → s.state = .SynSent

theorem Trk.refl (s : Tcb) : Trk s s := ⟨rfl, id⟩
theorem Trk.trans {a b c : Tcb} (h1 : Trk a b) (h2 : Trk b c) : Trk a c :=
  ⟨h2.heap.trans h1.heap, fun h => h1.synsent (h2.synsent h)⟩

theorem Trk.of_state {s u : Tcb} (hh : u.incoming.segments = s.incoming.segments) (hs : u.state = s.state) :
    Trk s u := ⟨hh, fun h => by rw [← hs]; exact h⟩

theorem trk_enqueueBuilt (s : Tcb) (h : Hdr) : Trk s (s.enqueueBuilt h) :=
  Trk.of_state (by rw [(Tcb.enqueueBuilt_frame s h).2.2.2.1]) (Tcb.enqueueBuilt_frame s h).2.2.2.2.1

theorem trk_seqCheck (s u : Tcb) (seg : Hdr) (tl : Seq) (r : Option ProcessSegmentResult)
    (h : Tcb.seqCheck s seg tl = .ok (u, r)) : Trk s u := by
  unfold Tcb.seqCheck at h
  simp only [Tcb.enqueueThen_eq] at h
  repeat' (split at h)
  all_goals first
    | (cases h; done)
    | (cases h; exact Trk.refl _)
    | (cases h; exact trk_enqueueBuilt _ _)

theorem removeAcked_heap (s : Tcb) (a : Seq) :
    (s.removeAckedFromRetransmission a).incoming = s.incoming := rfl

theorem ackEstablished_heap (s : Tcb) (seg : Hdr) (u : Tcb) (r : ProcessSegmentResult)
    (h : s.ackEstablishedProcessing seg = .ok (u, r)) : u.incoming.segments = s.incoming.segments := by
  rw [ackEstablished_eq] at h
  split at h
  · cases h; rfl
  · split at h
    · rw [Tcb.enqueue_eq] at h
      cases h
      rw [(Tcb.enqueueBuilt_frame s _).2.2.2.1]
    · dsimp only at h
      cases h
      split <;> rfl

theorem afterAck_inv' (t : Tcb) (seg : Hdr) (k : Tcb → ProcessSegmentResult → Tcb.B) (u : Tcb)
    (r : Option ProcessSegmentResult)
    (h : Tcb.afterAckEstablished (t.ackEstablishedProcessing seg) k = .ok (u, r)) :
    ∃ v r0, v.state = t.state ∧ v.incoming.segments = t.incoming.segments ∧ k v r0 = .ok (u, r) := by
  unfold Tcb.afterAckEstablished at h
  cases hx : t.ackEstablishedProcessing seg with
  | error e => rw [hx] at h; cases h
  | ok q =>
    obtain ⟨v, r0⟩ := q
    rw [hx] at h
    exact ⟨v, r0, ackEstablished_state t seg v r0 hx, ackEstablished_heap t seg v r0 hx, h⟩

theorem ackBlock_heap (s u : Tcb) (seg : Hdr) (r : Option ProcessSegmentResult)
    (h : Tcb.ackBlock s seg = .ok (u, r)) : u.incoming.segments = s.incoming.segments := by
  unfold Tcb.ackBlock at h
  split at h
  · cases h; rfl
  · obtain ⟨lp, rp, mtu, ini, st, snd, rcv, out, inc, tmo⟩ := s
    cases st
    case SynSent =>
      simp only [Tcb.enqueueThen_eq] at h
      repeat' (split at h)
      all_goals first
        | (cases h; rfl)
        | (cases h; rw [(Tcb.enqueueBuilt_frame _ _).2.2.2.1])
    case SynReceived =>
      dsimp only at h
      split at h
      · obtain ⟨v, r0, _, hv, hk⟩ := afterAck_inv' _ _ _ _ _ h
        split at hk <;> (cases hk; exact hv)
      · rw [Tcb.enqueueThen_eq] at h; cases h; rw [(Tcb.enqueueBuilt_frame _ _).2.2.2.1]
    case Established | FinWait2 | CloseWait =>
      obtain ⟨v, r0, _, hv, hk⟩ := afterAck_inv' _ _ _ _ _ h
      split at hk <;> (cases hk; exact hv)
    case FinWait1 | Closing =>
      obtain ⟨v, r0, _, hv, hk⟩ := afterAck_inv' _ _ _ _ _ h
      dsimp only at hk
      repeat' (split at hk)
      all_goals (cases hk; exact hv)
    case LastAck =>
      obtain ⟨v, r0, _, hv, hk⟩ := afterAck_inv' _ _ _ _ _ h
      repeat' (split at hk)
      all_goals (cases hk; exact hv)
    case TimeWait =>
      cases h
      rfl

theorem trk_ackBlock (s u : Tcb) (seg : Hdr) (r : Option ProcessSegmentResult)
    (h : Tcb.ackBlock s seg = .ok (u, r)) : Trk s u := by
  refine ⟨ackBlock_heap s u seg r h, ?_⟩
  intro hu
  rcases ackBlock_state s u seg r h with e | ⟨_, e2⟩ | ⟨_, e2⟩ | ⟨_, e2⟩
  · rw [← e]; exact hu
  all_goals (rw [hu] at e2; cases e2)

theorem rstBlock_same (s u : Tcb) (seg : Hdr) (r : Option ProcessSegmentResult)
    (h : Tcb.rstBlock s seg = .ok (u, r)) : u = s := by
  unfold Tcb.rstBlock at h
  repeat' (split at h)
  all_goals (cases h; rfl)

theorem trk_synBlock (s u : Tcb) (seg : Hdr) (r : Option ProcessSegmentResult)
    (h : Tcb.synBlock s seg = .ok (u, r)) : Trk s u := by
  unfold Tcb.synBlock at h
  simp only [Tcb.enqueueThen_eq] at h
  split at h
  · split at h <;> (cases h; exact Trk.refl _)
  · split at h
    · rename_i hs
      refine ⟨?_, fun _ => hs⟩
      split at h <;> (cases h; rw [(Tcb.enqueueBuilt_frame _ _).2.2.2.1])
    · cases h; exact trk_enqueueBuilt _ _

theorem trk_textBlock (s u : Tcb) (seg : Hdr) (text : List UInt8) (tl : Seq) (r : Option ProcessSegmentResult)
    (h : Tcb.textBlock s seg text tl = .ok (u, r)) : Trk s u := by
  refine Trk.of_state ?_ (textBlock_state s u seg text tl r h)
  unfold Tcb.textBlock at h
  simp only [Tcb.enqueueThen_eq] at h
  repeat' (split at h)
  all_goals first
    | (cases h; done)
    | (cases h; rfl)
    | (cases h; rw [(Tcb.enqueueBuilt_frame _ _).2.2.2.1])

theorem finAdvance_heap (s u : Tcb) (seq tl : Seq) (h : finAdvance s seq tl = .ok u) :
    u.incoming.segments = s.incoming.segments := by
  unfold finAdvance at h
  split at h
  · dsimp only at h
    split at h
    · rw [Tcb.enqueue_eq] at h
      cases h
      rw [(Tcb.enqueueBuilt_frame _ _).2.2.2.1]
    · cases h; rfl
  · cases h; rfl

theorem trk_finState (s u : Tcb) (r : Option ProcessSegmentResult) (h : finState s = .ok (u, r)) : Trk s u := by
  unfold finState at h
  obtain ⟨lp, rp, mtu, ini, st, snd, rcv, out, inc, tmo⟩ := s
  cases st <;> dsimp only at h
  all_goals first
    | (cases h; exact Trk.refl _)
    | (cases h; exact ⟨rfl, (fun hh => by cases hh)⟩)
    | (split at h <;> (cases h; exact ⟨rfl, (fun hh => by cases hh)⟩))

theorem trk_finBlock (s u : Tcb) (seg : Hdr) (tl : Seq) (r : Option ProcessSegmentResult)
    (h : Tcb.finBlock s seg tl = .ok (u, r)) : Trk s u := by
  rw [finBlock_eq] at h
  split at h
  · cases h; exact Trk.refl _
  · cases hx : finAdvance s seg.seq tl with
    | error e => rw [hx] at h; cases h
    | ok v =>
      rw [hx] at h
      exact (Trk.of_state (finAdvance_heap s v _ _ hx) (finAdvance_state s v _ _ hx)).trans (trk_finState v u r h)


theorem andThen_inv_any (x : Tcb.B) (f : Tcb → Tcb.B) (u : Tcb) (r : Option ProcessSegmentResult)
    (h : x.andThen f = .ok (u, r)) : x = .ok (u, r) ∨ ∃ v, x = .ok (v, none) ∧ f v = .ok (u, r) := by
  unfold Tcb.B.andThen at h
  split at h
  · cases h
  · exact Or.inl h
  · exact Or.inr ⟨_, rfl, h⟩

theorem trk_andThen (s : Tcb) (x : Tcb.B) (f : Tcb → Tcb.B)
    (hx : ∀ v r, x = .ok (v, r) → Trk s v) (hf : ∀ v w r, f v = .ok (w, r) → Trk v w)
    (u : Tcb) (r : Option ProcessSegmentResult) (h : x.andThen f = .ok (u, r)) : Trk s u := by
  rcases andThen_inv_any x f u r h with e | ⟨v, e, hv⟩
  · exact hx u r e
  · exact (hx v none e).trans (hf v u r hv)

theorem trk_processSegment (s u : Tcb) (seg : Segment) (r : ProcessSegmentResult)
    (h : Tcb.processSegment s seg = .ok (u, r)) : Trk s u := by
  rw [processSegment_eq] at h
  unfold finish at h
  split at h
  · cases h
  all_goals
    cases h
    rename_i heq
    refine trk_andThen s _ _ (trk_andThen s _ _ (trk_andThen s _ _ (trk_andThen s _ _ (trk_andThen s _ _
      (fun v r h => trk_seqCheck s v _ _ r h) (fun v w r h => trk_ackBlock v w _ r h))
      (fun v w r h => by rw [rstBlock_same v w _ r h]; exact Trk.refl _))
      (fun v w r h => trk_synBlock v w _ r h)) (fun v w r h => trk_textBlock v w _ _ _ r h))
      (fun v w r h => trk_finBlock v w _ _ r h) _ _ heq

/-! ## the processing loop -/

theorem shouldDelete_psNorm (r : ProcessSegmentResult) : (psNorm r).shouldDeleteTcb = r.shouldDeleteTcb := by
  cases r <;> rfl

/-- the loop is entered outside SYN-SENT (in SYN-SENT `segment_arrives` runs exactly one round) -/
def DrainPre (s : Tcb) : Prop := s.state ≠ .SynSent

def setHeap (s : Tcb) (h : List Segment) : Tcb := { s with incoming.segments := h }

theorem shift_setHeap (s : Tcb) (h : List Segment) :
    setHeap (s.shift ka kb) (h.map (Segment.shift kb ka)) = (setHeap s h).shift ka kb := rfl

theorem drain_succ (fuel : Nat) (s : Tcb) :
    Tcb.drain (fuel + 1) s =
      match LHeap.peek s.incoming.segments with
      | none => .ok (s, .Ok)
      | some top =>
        if s.state ≠ .SynSent && modGt top.hdr.seq s.rcv.nxt then .ok (s, .Ok) else
        match LHeap.pop segLe s.incoming.segments with
        | (none, _) => .error "panic:unwrap:segment_arrives.pop"
        | (some segment, rest) =>
          match Tcb.processSegment (setHeap s rest) segment with
          | .error e => .error e
          | .ok (s, r) => if r.shouldDeleteTcb then .ok (s, .Close) else Tcb.drain fuel s := rfl

/-- one `process_segment` inside the loop, on both sides -/
theorem shift_loopBody (fuel : Nat) (t : Tcb) (seg : Segment) (hF : SynSentFresh t)
    (ih : ∀ u r, Tcb.processSegment t seg = .ok (u, r) → r.shouldDeleteTcb = false →
      Tcb.drain fuel (u.shift ka kb) = M.shift ka kb (Tcb.drain fuel u)) :
    (match Tcb.processSegment (t.shift ka kb) (seg.shift kb ka) with
      | .error e => (.error e : M SegmentArrivesResult)
      | .ok (s, r) => if r.shouldDeleteTcb then .ok (s, .Close) else Tcb.drain fuel s) =
    M.shift ka kb (match Tcb.processSegment t seg with
      | .error e => .error e
      | .ok (s, r) => if r.shouldDeleteTcb then .ok (s, .Close) else Tcb.drain fuel s) := by
  have key := shift_processSegment ka kb t seg hF
  cases hp : Tcb.processSegment t seg with
  | error e =>
    rw [hp] at key
    cases hp' : Tcb.processSegment (t.shift ka kb) (seg.shift kb ka) with
    | error e' => rw [hp'] at key; simp only [normM, M.shift] at key; injection key with key; subst key; rfl
    | ok q => rw [hp'] at key; obtain ⟨a, b⟩ := q; cases key
  | ok q =>
    obtain ⟨u, r⟩ := q
    rw [hp] at key
    cases hp' : Tcb.processSegment (t.shift ka kb) (seg.shift kb ka) with
    | error e' => rw [hp'] at key; cases key
    | ok q' =>
      obtain ⟨u', r'⟩ := q'
      rw [hp'] at key
      simp only [normM, M.shift] at key
      injection key with key
      obtain ⟨e1, e2⟩ := Prod.mk.inj key
      subst e1
      have hd : r'.shouldDeleteTcb = r.shouldDeleteTcb := by
        rw [← shouldDelete_psNorm r', ← shouldDelete_psNorm r, e2]
      dsimp only
      rw [hd]
      cases hdel : r.shouldDeleteTcb with
      | true => rfl
      | false =>
        simp only [Bool.false_eq_true, if_false]
        exact ih u r hp hdel

theorem shift_drain (fuel : Nat) (s : Tcb) (h : DrainPre s) :
    Tcb.drain fuel (s.shift ka kb) = M.shift ka kb (Tcb.drain fuel s) := by
  induction fuel generalizing s with
  | zero => rfl
  | succ n ih =>
    rw [drain_succ, drain_succ, Tcb.shift_heap, peek_shift, pop_shift, Tcb.shift_state,
      Tcb.shift_rcvnxt ka kb s h]
    cases hpk : LHeap.peek s.incoming.segments with
    | none => rfl
    | some top =>
      simp only [Option.map_some, Segment.shift_hdr, Hdr.shift_seq, modGt_shift]
      by_cases hg : (s.state ≠ .SynSent && modGt top.hdr.seq s.rcv.nxt) = true
      · rw [if_pos hg, if_pos hg]; rfl
      · rw [if_neg hg, if_neg hg]
        cases hpop : LHeap.pop segLe s.incoming.segments with
        | mk o rest =>
          cases o with
          | none => rfl
          | some seg =>
            simp only [Option.map_some]
            rw [shift_setHeap]
            refine shift_loopBody ka kb n (setHeap s rest) seg (fun hs => absurd hs h) ?_
            intro u r hp _
            have trk := trk_processSegment _ u seg r hp
            exact ih u (fun hu => h (trk.synsent hu))

/-! ## `segment_arrives` -/

/-- what the TCB an arriving segment meets must satisfy: while in SYN-SENT it is fresh and has
    nothing parked (both invariants of TCBs made by `open`).  Nothing is asked of the segment
    (the F-C12-2 exclusion "no FIN while `SND.WL2` is unset" is gone with the repair). -/
structure ArrPre (s : Tcb) : Prop where
  fresh : SynSentFresh s
  idle : s.state = .SynSent → s.incoming.segments = []

theorem segmentArrives_eq (s : Tcb) (segment : Segment) :
    s.segmentArrives segment =
      match (if s.state = .SynSent then (.ok true : Except String Bool)
             else s.isSeqOk (BitVec.ofNat 32 segment.text.length) segment.hdr.seq segment.hdr.ctl.syn
                    segment.hdr.ctl.fin) with
      | .error e => .error e
      | .ok false =>
        match s.enqueue s.ackHdr with
        | .error e => .error e
        | .ok s => .ok (s, .Ok)
      | .ok true =>
        Tcb.drain ((LHeap.push segLe s.incoming.segments segment).length + 1)
          (setHeap s (LHeap.push segLe s.incoming.segments segment)) := rfl

theorem shift_segmentArrives (s : Tcb) (seg : Segment) (h : ArrPre s) :
    (s.shift ka kb).segmentArrives (seg.shift kb ka) = M.shift ka kb (s.segmentArrives seg) := by
  rw [segmentArrives_eq, segmentArrives_eq, Tcb.shift_state, Tcb.shift_heap, push_shift, List.length_map,
    shift_setHeap]
  by_cases hs : s.state = .SynSent
  · rw [if_pos hs, if_pos hs]
    dsimp only
    rw [h.idle hs]
    have hp : LHeap.push segLe [] seg = [seg] := rfl
    rw [hp]
    -- one round on the segment itself, then the heap is empty
    show Tcb.drain 2 ((setHeap s [seg]).shift ka kb) = M.shift ka kb (Tcb.drain 2 (setHeap s [seg]))
    rw [drain_succ, drain_succ]
    have hst : (setHeap s [seg]).state = .SynSent := hs
    have g1 : ((setHeap s [seg]).state ≠ .SynSent && modGt seg.hdr.seq (setHeap s [seg]).rcv.nxt) = false := by
      rw [hst]; rfl
    have g2 : (((setHeap s [seg]).shift ka kb).state ≠ .SynSent &&
        modGt (seg.shift kb ka).hdr.seq ((setHeap s [seg]).shift ka kb).rcv.nxt) = false := by
      rw [Tcb.shift_state, hst]; rfl
    have pk : LHeap.peek (setHeap s [seg]).incoming.segments = some seg := rfl
    have pk' : LHeap.peek ((setHeap s [seg]).shift ka kb).incoming.segments = some (seg.shift kb ka) := rfl
    have pp : LHeap.pop segLe (setHeap s [seg]).incoming.segments = (some seg, []) := rfl
    have pp' : LHeap.pop segLe ((setHeap s [seg]).shift ka kb).incoming.segments = (some (seg.shift kb ka), []) := rfl
    rw [pk, pk', pp, pp']
    dsimp only
    rw [g1, g2]
    simp only [Bool.false_eq_true, if_false]
    have e : setHeap ((setHeap s [seg]).shift ka kb) [] = (setHeap (setHeap s [seg]) []).shift ka kb := rfl
    rw [e]
    refine shift_loopBody ka kb 1 (setHeap (setHeap s [seg]) []) seg h.fresh ?_
    intro u r hp _
    have trk := trk_processSegment _ u seg r hp
    have hu : u.incoming.segments = [] := trk.heap
    rw [drain_succ, drain_succ, Tcb.shift_heap, hu]
    rfl
  · rw [if_neg hs, if_neg hs]
    rw [Segment.shift_hdr, Segment.shift_text, Hdr.shift_seq, Hdr.shift_ctl, Tcb.shift_isSeqOk ka kb s hs]
    cases hok : s.isSeqOk (BitVec.ofNat 32 seg.text.length) seg.hdr.seq seg.hdr.ctl.syn seg.hdr.ctl.fin with
    | error e => rfl
    | ok b =>
      cases b with
      | false =>
        dsimp only
        rw [Tcb.shift_enqueue ka kb s _ _ (Tcb.shift_ackHdr ka kb s hs)]
        cases s.enqueue s.ackHdr <;> rfl
      | true =>
        dsimp only
        exact shift_drain ka kb _ _ hs

end Elvis.Tcp
