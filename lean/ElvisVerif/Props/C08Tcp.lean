import ElvisVerif.Lemmas.Tcp
import ElvisVerif.Lemmas.CodecGen
import ElvisVerif.Spec.Rfc
/-!
# C08 (continued) — TCP (RFC 9293), and the tie of the three codec models to the source

Property theorems only; same conventions as `Props/C08.lean` (IPv4, UDP).
-/
namespace Elvis.Codec.Tcp
open Elvis.Ck Elvis.Codec

/-! ## TCP (RFC 9293) -/

/-- what `TcpHeaderBuilder::build` is given: the builder's header, addresses, text -/
structure Seg where
  h : Header
  src : Nat
  dst : Nat
  text : List UInt8

def Seg.Wf (s : Seg) : Prop :=
  s.h.srcPort < 65536 ∧ s.h.dstPort < 65536 ∧ s.h.seq < 4294967296 ∧ s.h.ack < 4294967296 ∧
  s.h.ctl < 64 ∧ s.h.wnd < 65536 ∧ s.h.urg < 65536 ∧ s.src < 4294967296 ∧ s.dst < 4294967296 ∧
  s.text.length + 20 < 65536

instance (s : Seg) : Decidable s.Wf := by unfold Seg.Wf; infer_instance

def Seg.header (ck : Bool) (s : Seg) : Header :=
  { s.h with dataOffset := 5,
             checksum := asU16 ck (accBuild ck s.h.srcPort s.h.dstPort s.h.seq s.h.ack s.h.ctl s.h.wnd
               s.h.urg s.text s.src s.dst (s.text.length + 20)) }

/-- the builder succeeds on a representable segment, with this header value -/
theorem c08_tcp_build_ok (ck : Bool) (s : Seg) (hw : s.Wf) :
    build ck s.h s.src s.dst s.text s.text.length = .ok (s.header ck) := by
  obtain ⟨h1, h2, h3, h4, h5, h6, h7, h8, h9, h10⟩ := hw
  have e1 : ¬ (s.text.length + 20 ≥ usizeLimit) := by unfold usizeLimit; omega
  have e2 : ¬ (s.text.length + 20 > 65535) := by omega
  simp only [build, e1, e2, if_false, Seg.header, accBuild]

/-- **decode ∘ encode = id** (pseudo header included): the header `TcpHeaderBuilder::build`
    produces for a representable segment, serialised and followed by the text, decodes to itself -/
theorem c08_tcp_decode_encode (ck : Bool) (s : Seg) (hw : s.Wf) :
    build ck s.h s.src s.dst s.text s.text.length = .ok (s.header ck) ∧
    (serialize (s.header ck)).length = 20 ∧
    fromBytes ck (serialize (s.header ck) ++ s.text) (20 + s.text.length) s.src s.dst
      = .ok (s.header ck) := by
  refine ⟨c08_tcp_build_ok ck s hw, by simp [serialize, be16, be32], ?_⟩
  obtain ⟨h1, h2, h3, h4, h5, h6, h7, h8, h9, h10⟩ := hw
  have hc := asU16_lt ck (accBuild ck s.h.srcPort s.h.dstPort s.h.seq s.h.ack s.h.ctl s.h.wnd
    s.h.urg s.text s.src s.dst (s.text.length + 20))
  have a1 : (n2b (5 % 16 * 16)).toNat = 80 := by decide
  have a2 : (n2b s.h.ctl).toNat = s.h.ctl := n2b_toNat_of_lt (by omega)
  simp only [serialize, Seg.header, be16_cons, be32_cons, List.cons_append,
    List.nil_append, fromBytes_cons20, W, W4]
  rw [W_n2b h1, W_n2b h2, W4_n2b h3, W4_n2b h4, W_n2b h6, W_n2b h7, W_n2b hc, a1, a2]
  rw [Nat.add_comm 20 s.text.length,
    accDec_eq_accBuild ck s.h.seq s.h.ack s.src s.dst s.text h1 h2 (by omega) h6 h7 (by omega),
    matchesField_asU16, Nat.mod_eq_of_lt h5]
  rw [if_neg (by decide), if_neg (by omega)]
  simp

/-- reserved bits of byte 12 and the two high bits of byte 13 (RFC 9293: Rsrvd, CWR, ECE) are
    all zero -/
def reservedClear (bs : List UInt8) : Prop :=
  (bs.getD 12 0).toNat % 16 = 0 ∧ (bs.getD 13 0).toNat / 64 = 0

instance (bs : List UInt8) : Decidable (reservedClear bs) := by unfold reservedClear; infer_instance

/-- **encode ∘ decode = id on the consumed bytes — partial**: holds when the reserved / ECN bits
    of the consumed header are zero.  Without `hr` it is false of the current code (F-C08-1,
    `c08_tcp_encode_decode_counterexample`): the decoder masks those bits
    (`>> 4`, `& 0b11_1111`) and the header value has no place for them. -/
theorem c08_tcp_encode_decode_partial {ck : Bool} {bs : List UInt8} {plen src dst : Nat} {hd : Header}
    (h : fromBytes ck bs plen src dst = .ok hd) (hr : reservedClear bs) :
    serialize hd = bs.take 20 := by
  obtain ⟨b0, b1, b2, b3, b4, b5, b6, b7, b8, b9, b10, b11, b12, b13, b14, b15, b16, b17, b18, b19,
    rest, rfl, h0, h1, hm, rfl⟩ := fromBytes_ok_inv h
  simp only [reservedClear, List.getD_cons_succ, List.getD_cons_zero] at hr
  have := b12.toNat_lt; have := b13.toNat_lt
  simp only [serialize, W, W4, be16_of_bytes, be32_of_bytes]
  have e1 : n2b (5 % 16 * 16) = b12 := n2b_eq_byte (by omega)
  have e2 : n2b (b13.toNat % 64) = b13 := n2b_eq_byte (by omega)
  rw [e1, e2]
  simp

/-- F-C08-1: a segment with the ECE bit set is accepted; its re-encoding has the bit cleared
    (replayed on the real code by the harness: ident `tcp reencode differs: reserved/ECN bits
    dropped`) -/
theorem c08_tcp_encode_decode_counterexample :
    ∃ bs plen src dst hd, fromBytes false bs plen src dst = .ok hd ∧ serialize hd ≠ bs.take 20 :=
  ⟨[0, 80, 0, 81, 0, 0, 0, 1, 0, 0, 0, 0, 0x50, 0x42, 1, 0, 0, 0, 0, 0], 20, 1, 2,
   { srcPort := 80, dstPort := 81, seq := 1, ack := 0, dataOffset := 5, ctl := 2, wnd := 256,
     urg := 0, checksum := 0 }, by decide, by decide⟩

/-- the RFC 9293 view of a header value: the control byte split into the eight flag bits of
    figure 1 by their positions in the RFC -/
def Header.rfc (h : Header) : Rfc.Tcp :=
  { sourcePort := h.srcPort, destinationPort := h.dstPort, sequenceNumber := h.seq,
    acknowledgmentNumber := h.ack, dataOffset := h.dataOffset, reserved := 0,
    cwr := h.ctl / 128 % 2, ece := h.ctl / 64 % 2, urg := h.ctl / 32 % 2, ack := h.ctl / 16 % 2,
    psh := h.ctl / 8 % 2, rst := h.ctl / 4 % 2, syn := h.ctl / 2 % 2, fin := h.ctl % 2,
    window := h.wnd, checksum := h.checksum, urgentPointer := h.urg }

/-- field widths of a `TcpHeader` value -/
def Header.InRange (h : Header) : Prop :=
  h.srcPort < 65536 ∧ h.dstPort < 65536 ∧ h.seq < 4294967296 ∧ h.ack < 4294967296 ∧
  h.dataOffset < 16 ∧ h.ctl < 256 ∧ h.wnd < 65536 ∧ h.urg < 65536 ∧ h.checksum < 65536

instance (h : Header) : Decidable h.InRange := by unfold Header.InRange; infer_instance

/-- **bit-for-bit RFC 9293**: `serialize` equals the generic bit packer on the RFC 9293 field
    list, for all field values and all values of the control byte -/
theorem c08_tcp_matches_rfc (h : Header) (hr : h.InRange) :
    serialize h = Rfc.pack h.rfc.fields := by
  obtain ⟨h1, h2, h3, h4, h5, h6, h7, h8, h9⟩ := hr
  simp only [serialize, Header.rfc, Rfc.Tcp.fields]
  simp only [Rfc.pack, Rfc.packFrom, Rfc.emit, Nat.reduceAdd, Nat.reduceDiv, Nat.reduceMod,
    Nat.reduceSub, Nat.reducePow, List.nil_append, List.cons_append, List.append_nil,
    Nat.zero_mul, Nat.zero_add, Nat.mod_one, Nat.div_one, be16, be32, n2b, List.cons.injEq,
    and_true]
  refine ⟨?_, ?_, ?_, ?_, ?_, ?_, ?_, ?_, ?_, ?_, ?_, ?_, ?_, ?b13, ?_, ?_, ?_, ?_, ?_, ?_⟩
  case b13 =>
    -- the eight flag bits reassemble the control byte: a finite table over all 256 values
    apply n2b_congr
    clear h1 h2 h3 h4 h5 h7 h8 h9
    generalize h.ctl = c at h6 ⊢
    revert c
    decide +kernel
  all_goals first | trivial | (apply n2b_congr; omega)

/-- the header the builder produces is in range, so its serialisation is the RFC packing … -/
theorem c08_tcp_header_in_range (ck : Bool) (s : Seg) (hw : s.Wf) : (s.header ck).InRange := by
  obtain ⟨h1, h2, h3, h4, h5, h6, h7, h8, h9, h10⟩ := hw
  have hc := asU16_lt ck (accBuild ck s.h.srcPort s.h.dstPort s.h.seq s.h.ack s.h.ctl s.h.wnd
    s.h.urg s.text s.src s.dst (s.text.length + 20))
  exact ⟨h1, h2, h3, h4, by simp [Seg.header], by simp only [Seg.header]; omega, h6, h7, hc⟩

/-- … and the decoder accepts the RFC packer's output followed by the text, same fields -/
theorem c08_tcp_accepts_rfc (ck : Bool) (s : Seg) (hw : s.Wf) :
    fromBytes ck (Rfc.pack (s.header ck).rfc.fields ++ s.text) (20 + s.text.length) s.src s.dst
      = .ok (s.header ck) := by
  rw [← c08_tcp_matches_rfc _ (c08_tcp_header_in_range ck s hw)]
  exact (c08_tcp_decode_encode ck s hw).2.2

theorem c08_tcp_rfc_width (h : Rfc.Tcp) : Rfc.totalWidth h.fields = 160 := by
  simp [Rfc.totalWidth, Rfc.Tcp.fields]

/-- **all 64 flag combinations**: `Control::new` sets exactly the RFC 9293 bit of each flag
    (URG 32, ACK 16, PSH 8, RST 4, SYN 2, FIN 1), leaves CWR/ECE clear, and the accessors read
    the flags back -/
theorem c08_tcp_control_new : ∀ urg ack psh rst syn fin : Bool,
    let c := ctlNew urg ack psh rst syn fin
    c < 64 ∧ c / 32 % 2 = urg.toNat ∧ c / 16 % 2 = ack.toNat ∧ c / 8 % 2 = psh.toNat ∧
    c / 4 % 2 = rst.toNat ∧ c / 2 % 2 = syn.toNat ∧ c % 2 = fin.toNat ∧
    ctlUrg c = urg ∧ ctlAck c = ack ∧ ctlPsh c = psh ∧ ctlRst c = rst ∧ ctlSyn c = syn ∧
    ctlFin c = fin := by
  decide

/-- the builder's setters (`set_bit`) set one flag and leave the other five alone, from every
    6-bit control value -/
theorem c08_tcp_set_bit : ∀ c, c < 64 → ∀ b, b < 6 → ∀ st : Bool,
    ctlSetBit c b st < 64 ∧ ctlBit (ctlSetBit c b st) b = st ∧
    ∀ b', b' < 6 → b' ≠ b → ctlBit (ctlSetBit c b st) b' = ctlBit c b' := by
  decide

/-- `TcpHeader::bytes` (`data_offset * 4` on `u8`) cannot overflow for a decoded header -/
theorem c08_tcp_header_bytes {ck : Bool} {bs : List UInt8} {plen src dst : Nat} {hd : Header}
    (h : fromBytes ck bs plen src dst = .ok hd) : headerBytes hd = .ok 20 := by
  obtain ⟨b0, b1, b2, b3, b4, b5, b6, b7, b8, b9, b10, b11, b12, b13, b14, b15, b16, b17, b18, b19,
    rest, rfl, h0, h1, hm, rfl⟩ := fromBytes_ok_inv h
  rfl

example : Seg.Wf { h := builderAck (builderSyn (builderWnd (builderNew 0xcafe 0xbabe 123456789) 1024)) 10,
                   src := 0x7f000001, dst := 0xffffffff, text := [72, 105] } := by decide

end Elvis.Codec.Tcp

/-! ## Tie to the source: extracted constants and kernels -/
namespace Elvis.Codec

/-- every header size, shift, mask and protocol number the three models spell as a literal is
    the value `tools/extract.py` reads from the Rust source on this run -/
theorem c08_extracted_constants :
    Gen.Codec.ipv4_BASE_WORDS = 5 ∧ Gen.Codec.ipv4_BASE_OCTETS = 20 ∧
    Gen.Codec.ipv4_FRAGMENT_OFFSET_MASK = 8191 ∧ Gen.Codec.udp_HEADER_OCTETS = 8 ∧
    Gen.Codec.tcp_BASE_HEADER_WORDS = 5 ∧ Gen.Codec.tcp_BASE_HEADER_OCTETS = 20 ∧
    Gen.Codec.tcp_control_mask = 63 ∧ Gen.Codec.tcp_data_offset_shift = 4 ∧
    Gen.Codec.ipv4_flags_shift = 13 ∧ Gen.Codec.udp_protocol_number = 17 ∧
    Gen.Codec.tcp_protocol_number = 6 := by
  have h := Gen.Codec.consts_eq
  simp only [h, and_self]

/-- the flag / TOS constructors of the models are the extracted Rust expressions -/
theorem c08_extracted_kernels :
    (∀ urg ack psh rst syn fin : Bool,
      Gen.Codec.control_new urg ack psh rst syn fin = Tcp.ctlNew urg ack psh rst syn fin) ∧
    (∀ may last : Bool, Gen.Codec.control_flags_new may last = Ipv4.flagsNew may last) ∧
    (∀ p, p < 8 → ∀ d, d < 2 → ∀ t, t < 2 → ∀ r, r < 2 →
      Gen.Codec.type_of_service_new p d t r = Ipv4.tosNew p d t r) :=
  ⟨Gen.Codec.control_new_eq, Gen.Codec.control_flags_new_eq, Gen.Codec.type_of_service_new_eq⟩

end Elvis.Codec
