import ElvisVerif.Lemmas.TcpFinInv
/-!
# The stream invariant with `close()`: block by block, in all eleven states

Blocks 1-4 outside SYN-SENT are frame steps (`FrF`): the state moves SYN-RECEIVED → ESTABLISHED,
FIN-WAIT-1 → FIN-WAIT-2, CLOSING → TIME-WAIT — none of which changes `finSent`, `finRcvd` — acknowledged
queue entries disappear, ACK / RST headers are queued.  Block 5 accepts text only in states that do
not show FIN received.  Block 6 (`finBlock_inv`): a valid FIN that passed the heap gate
(`SEG.SEQ ≤ RCV.NXT`) while the state does not yet show FIN received sits exactly at `RCV.NXT`, and
`RCV.NXT − IRS − 1 = |submitted_peer|`: everything has been received.
-/
namespace Elvis.Tcp.Fin
open Elvis.ModCmp Elvis.Tcp.Tcb Elvis.Tcp.C01

/-- a frame step that only rewrites fields the invariant does not read (same state) -/
macro "frf_fields" : tactic =>
  `(tactic| exact FrF.of_same rfl rfl rfl rfl rfl rfl rfl (fun _ h => h) (fun _ h => Or.inl h))

/-! ## block 1 -/

theorem seqCheck_frF {t t' : Tcb} {seg : Hdr} {tl : Seq} {r : Option ProcessSegmentResult}
    (e : seqCheck t seg tl = .ok (t', r)) : FrF t t' := by
  unfold seqCheck at e
  split at e
  · cases e; exact FrF.refl _
  · split at e
    · cases e
    · cases e; exact FrF.refl _
    · rw [enqueueThen_eq] at e; cases e; exact FrF.enqAck _

/-! ## block 2 -/

theorem removeAcked_frF (t : Tcb) (una : Seq) : FrF t (t.removeAckedFromRetransmission una) := by
  unfold removeAckedFromRetransmission
  exact FrF.of_same rfl rfl rfl rfl rfl rfl rfl (fun g hg => mem_map_filter _ _ _ g hg) (fun _ h => Or.inl h)

theorem removeAcked_state (t : Tcb) (una : Seq) : (t.removeAckedFromRetransmission una).state = t.state := rfl

theorem aep_frF {t t' : Tcb} {seg : Hdr} {r : ProcessSegmentResult}
    (e : t.ackEstablishedProcessing seg = .ok (t', r)) : FrF t t' ∧ t'.state = t.state := by
  unfold ackEstablishedProcessing at e
  split at e
  · cases e; exact ⟨FrF.refl _, rfl⟩
  · split at e
    · rw [enqueue_eq] at e; cases e; exact ⟨FrF.enqAck _, state_enqueueBuilt _ _⟩
    · simp only [Except.ok.injEq, Prod.mk.injEq] at e
      obtain ⟨rfl, _⟩ := e
      have f1 : FrF t { t with snd.una := seg.ack } := by frf_fields
      have f2 := removeAcked_frF { t with snd.una := seg.ack } seg.ack
      split
      · refine ⟨(f1.trans f2).trans ?_, rfl⟩
        frf_fields
      · exact ⟨f1.trans f2, rfl⟩

/-- the tail `if r = Success then (s, none) else (s, some r)` of most ACK arms -/
theorem afterAck_frF {t0 t' : Tcb} {seg : Hdr} {r : Option ProcessSegmentResult}
    (e : afterAckEstablished (t0.ackEstablishedProcessing seg)
      (fun s r => if r = .Success then .ok (s, none) else .ok (s, some r)) = .ok (t', r)) : FrF t0 t' := by
  unfold afterAckEstablished at e
  split at e
  · cases e
  · rename_i s1 r1 h1
    have f := (aep_frF h1).1
    dsimp only at e
    split at e <;> (cases e; exact f)

/-- `is_fin_acked` implies the FIN has been numbered (in the states that ask) -/
theorem finSent_of_finAcked {t : Tcb} (h : t.isFinAcked = true)
    (hs : t.state = .FinWait1 ∨ t.state = .Closing ∨ t.state = .LastAck) : finSent t = true := by
  rw [finSent_eq_not_pending hs]
  unfold isFinAcked at h
  simp only [Bool.and_eq_true, Bool.not_eq_true'] at h
  rw [h.1]; rfl

theorem ackBlock_frF {t t' : Tcb} {seg : Hdr} {r : Option ProcessSegmentResult}
    (e : ackBlock t seg = .ok (t', r)) : FrF t t' := by
  unfold ackBlock at e
  split at e
  · cases e; exact FrF.refl _
  · cases hst : t.state <;> rw [hst] at e <;> dsimp only at e
    case SynSent =>
      split at e
      · split at e
        · cases e; exact FrF.refl _
        · rw [enqueueThen_eq] at e; cases e; exact FrF.enq _ _ (rstForAck_plain _ _)
      · split at e
        · split at e
          · cases e
            have f1 : FrF t { t with state := .SynSent, snd.una := seg.ack } :=
              ⟨rfl, rfl, rfl, rfl, rfl, rfl, by rw [hst], by unfold finSent; rw [hst], by rw [hst],
                fun _ h => h, fun _ h => Or.inl h⟩
            exact f1.trans (removeAcked_frF _ _)
          · cases e; exact FrF.refl _
        · rw [enqueueThen_eq] at e; cases e; exact FrF.enq _ _ (rstForAck_plain _ _)
    case SynReceived =>
      split at e
      · have f1 : FrF t { t with state := .Established, snd.wnd := seg.wnd, snd.wl1 := seg.seq, snd.wl2 := seg.ack } :=
          ⟨rfl, rfl, rfl, rfl, rfl, rfl, by rw [hst]; simp, by unfold finSent; rw [hst], by rw [hst]; rfl,
            fun _ h => h, fun _ h => Or.inl h⟩
        exact f1.trans (afterAck_frF e)
      · rw [enqueueThen_eq] at e; cases e; exact FrF.enq _ _ (rstForAck_plain _ _)
    case Established => exact afterAck_frF e
    case FinWait2 => exact afterAck_frF e
    case CloseWait => exact afterAck_frF e
    case FinWait1 =>
      unfold afterAckEstablished at e
      split at e
      · cases e
      · rename_i s1 r1 h1
        obtain ⟨f, hs1⟩ := aep_frF h1
        dsimp only at e
        have f2 : FrF s1 (if s1.isFinAcked = true then { s1 with state := .FinWait2 } else s1) := by
          split
          · rename_i hfa
            have hs1' : s1.state = .FinWait1 := hs1.trans hst
            have hfs := finSent_of_finAcked hfa (Or.inl hs1')
            exact ⟨rfl, rfl, rfl, rfl, rfl, rfl, by rw [hs1']; simp, by rw [hfs]; rfl, by rw [hs1']; rfl,
              fun _ h => h, fun _ h => Or.inl h⟩
          · exact FrF.refl _
        split at e <;> (cases e; exact f.trans f2)
    case Closing =>
      unfold afterAckEstablished at e
      split at e
      · cases e
      · rename_i s1 r1 h1
        obtain ⟨f, hs1⟩ := aep_frF h1
        dsimp only at e
        have f2 : FrF s1 (if s1.isFinAcked = true then
            { s1 with state := .TimeWait, timeouts.timeWait := some TIME_WAIT } else s1) := by
          split
          · rename_i hfa
            have hs1' : s1.state = .Closing := hs1.trans hst
            have hfs := finSent_of_finAcked hfa (Or.inr (Or.inl hs1'))
            exact ⟨rfl, rfl, rfl, rfl, rfl, rfl, by rw [hs1']; simp, by rw [hfs]; rfl, by rw [hs1']; rfl,
              fun _ h => h, fun _ h => Or.inl h⟩
          · exact FrF.refl _
        split at e <;> (cases e; exact f.trans f2)
    case LastAck =>
      unfold afterAckEstablished at e
      split at e
      · cases e
      · rename_i s1 r1 h1
        have f := (aep_frF h1).1
        dsimp only at e
        split at e
        · cases e; exact f
        · split at e <;> (cases e; exact f)
    case TimeWait => cases e; exact FrF.refl _

/-! ## block 4 -/

theorem synBlock_frF {t t' : Tcb} {seg : Hdr} {r : Option ProcessSegmentResult} (hns : t.state ≠ .SynSent)
    (e : synBlock t seg = .ok (t', r)) : FrF t t' := by
  unfold synBlock at e
  split at e
  · first
      | (cases e; exact FrF.refl _)
      | (split at e <;> (cases e; exact FrF.refl _))
  · split at e
    · rename_i hst; exact absurd hst hns
    · rw [enqueueThen_eq] at e; cases e; exact FrF.enqAck _

section
variable {port : U16} {issX issY : Seq} {subX subY delX : List UInt8} {finY : Bool}

/-- queueing a valid SYN of ours (the SYN-ACK of a simultaneous open) keeps the invariant -/
theorem TInvG.enqSyn {fx : Bool} {t : Tcb} (h : TInvG port issX issY subX subY delX fx finY t) (hd : Hdr)
    (hsyn : hd.ctl.syn = true) (hfin : hd.ctl.fin = false) (hseq : hd.seq = issX) (hp : hd.srcPort = port) :
    TInvG port issX issY subX subY delX fx finY (t.enqueueBuilt hd) := by
  unfold enqueueBuilt
  rw [if_pos (by simp [hsyn])]
  refine ⟨h.lp, h.iss, h.out, fun g hg => ?_, h.one, h.heap, h.rcv0, h.rcv1, h.eof, h.irs⟩
  simp only [List.map_append, List.map_cons, List.map_nil, List.mem_append, List.mem_singleton] at hg
  rcases hg with hg | rfl
  · exact h.rtx g hg
  · exact ⟨⟨(fun hf => by have hf' : hd.ctl.fin = true := hf; rw [hfin] at hf'; cases hf'), fun _ => ⟨hseq, rfl⟩,
      fun hne => absurd rfl hne⟩, hp⟩

/-- block 4 in SYN-SENT: a valid SYN establishes the receive facts with `q = 0`; without SYN the
    segment is dropped -/
theorem synBlock_synSentF {t t' : Tcb} {seg : Hdr} {text : List UInt8} {r : Option ProcessSegmentResult}
    (h : TInvF port issX issY subX subY delX finY t) (hs : t.state = .SynSent)
    (hv : ValidF issY subY finY ⟨seg, text⟩) (e : synBlock t seg = .ok (t', r)) :
    TInvF port issX issY subX subY delX finY t' ∧ finSent t' = finSent t ∧
      (r = none → t'.state ≠ .SynSent ∧ text = [] ∧ seg.ctl.syn = true) := by
  obtain ⟨hdel, hin⟩ := h.rcv0 hs
  have hfs : finSent t = false := by unfold finSent; rw [hs]
  have h' : TInvG port issX issY subX subY delX false finY t := by rw [← hfs]; exact h
  unfold synBlock at e
  split at e
  · first
      | (cases e; exact ⟨h, rfl, fun h0 => by simp at h0⟩)
      | (rw [if_pos hs] at e; cases e; exact ⟨h, rfl, fun h0 => by simp at h0⟩)
  · rename_i hsyn
    have hsyn' : seg.ctl.syn = true := by simpa using hsyn
    obtain ⟨hseq, htext⟩ := hv.syn hsyn'
    simp only at hseq htext
    -- the TCB after the SYN was taken in, in state `st`
    have base : ∀ (st : State) (w2 : Seq), Ok3 st → st ≠ .SynSent →
        TInvG port issX issY subX subY delX false finY
          { t with rcv.irs := seg.seq, rcv.nxt := seg.seq + 1, snd.wnd := seg.wnd, snd.wl1 := seg.seq,
                   snd.wl2 := w2, state := st } := by
      intro st w2 h3 hne
      refine ⟨h'.lp, h'.iss, h'.out, h'.rtx, h'.one, h'.heap, fun h0 => absurd h0 hne, fun _ => ⟨?_, ?_⟩,
        (fun hr => by rw [finRcvd_of_ok3 h3] at hr; cases hr), fun _ => hseq⟩
      · show seg.seq + 1 = _
        rw [hdel, hin, hseq, finRcvd_of_ok3 h3]
        simp
      · show delX ++ t.incoming.text <+: subY
        rw [hdel, hin]
        exact List.nil_prefix
    split at e
    · dsimp only at e
      split at e
      · rw [enqueueThen_eq] at e
        cases e
        refine ⟨TInvF.of_g ((base .Established _ trivial (by simp)).of_fr (FrF.enqAck _)) ?_, ?_,
          fun _ => ⟨?_, htext, hsyn'⟩⟩
        · unfold finSent; rw [state_enqueueBuilt]
        · rw [hfs]; unfold finSent; rw [state_enqueueBuilt]
        · rw [state_enqueueBuilt]; simp
      · rw [enqueueThen_eq] at e
        cases e
        refine ⟨TInvF.of_g ((base .SynReceived _ trivial (by simp)).enqSyn _ rfl rfl ?_ ?_) ?_, ?_,
          fun h0 => by simp at h0⟩
        · exact h'.iss
        · exact h'.lp
        · unfold finSent; rw [state_enqueueBuilt]
        · rw [hfs]; unfold finSent; rw [state_enqueueBuilt]
    all_goals (rename_i hst _; exact absurd hs (by first | exact hst | simp_all))

/-! ## block 5 -/

/-- block 5 does nothing once the state shows FIN received -/
theorem textBlock_rcvd {t t' : Tcb} {seg : Hdr} {text : List UInt8} {tl : Seq} {r : Option ProcessSegmentResult}
    (hr : finRcvd t.state = true) (e : textBlock t seg text tl = .ok (t', r)) : t' = t := by
  unfold textBlock at e
  split at e
  · cases e; rfl
  · cases hst : t.state <;> rw [hst] at hr e <;> first | (exact absurd hr (by decide)) | (dsimp only at e; cases e; rfl)

theorem textBlock_invF {fx : Bool} {t t' : Tcb} {seg : Hdr} {text : List UInt8} {r : Option ProcessSegmentResult}
    (h : TInvG port issX issY subX subY delX fx finY t) (hns : t.state ≠ .SynSent)
    (hv : ValidF issY subY finY ⟨seg, text⟩) (h31 : subY.length < 2147483648)
    (hgate : text ≠ [] → modGt seg.seq t.rcv.nxt = false)
    (e : textBlock t seg text (BitVec.ofNat 32 text.length) = .ok (t', r)) :
    TInvG port issX issY subX subY delX fx finY t' ∧ (text = [] → t' = t) ∧ finSent t' = finSent t := by
  cases hfr : finRcvd t.state with
  | true =>
    have := textBlock_rcvd hfr e
    subst this
    exact ⟨h, fun _ => rfl, rfl⟩
  | false =>
  unfold textBlock at e
  split at e
  · cases e; exact ⟨h, fun _ => rfl, rfl⟩
  · rename_i hne
    have hne' : text ≠ [] := by intro h0; simp [h0] at hne
    obtain ⟨p, hseq, hlen, htext⟩ := hv.txt hne'
    simp only at hseq hlen htext
    have hsyn : seg.ctl.syn = false := by
      cases hs : seg.ctl.syn
      · rfl
      · exact absurd (hv.syn hs).2 hne'
    obtain ⟨hnxt, hpre⟩ := h.rcv1 hns
    rw [hfr] at hnxt
    simp only [Bool.toNat_false, Nat.add_zero] at hnxt
    generalize hq : delX.length + t.incoming.text.length = q at hnxt
    have hqle : q ≤ subY.length := by
      have := hpre.length_le
      rw [List.length_append] at this; omega
    have hg := hgate hne'
    rw [hseq, hnxt] at hg
    have hpq : p ≤ q := gate_le (issY + 1) p q (by omega) (by omega) hg
    split at e
    all_goals first
      | (cases e; exact ⟨h, fun _ => rfl, rfl⟩)
      | skip
    all_goals (split at e; first | cases e | skip)
    all_goals (rw [hsyn, sub_zero_ofNat] at e; dsimp only at e)
    all_goals (
      generalize hA : (if t.rcv.nxt - seg.seq ≤ BitVec.ofNat 32 text.length then t.rcv.nxt - seg.seq
          else BitVec.ofNat 32 text.length) = a at e
      have htl : (BitVec.ofNat 32 text.length).toNat = text.length := ofNat_toNat_lt _ (by omega)
      have ha : a.toNat = min (q - p) text.length := by
        rw [← hA, min_toNat, htl, hnxt, hseq, dist_toNat _ _ _ hpq (by omega)]
      rw [htl] at e
      generalize hacc : min (text.length - a.toNat) (t.rcv.wnd.toNat - t.incoming.text.length % 4294967296) = acc at e
      have hacc' : acc ≤ text.length - min (q - p) text.length := by rw [← hacc, ha]; exact Nat.min_le_left _ _
      split at e
      · cases e
      split at e
      · cases e
      split at e
      · cases e
      split at e
      · cases e
      rw [enqueueThen_eq] at e
      simp only [Except.ok.injEq, Prod.mk.injEq] at e
      obtain ⟨rfl, _⟩ := e
      refine ⟨TInvG.of_fr ?_ (FrF.enqAck _), fun h0 => absurd h0 hne', ?_⟩
      · have hslice := slice_accept subY p q text.length acc hpq hacc'
        rw [← htext, ← ha] at hslice
        refine ⟨h.lp, h.iss, h.out, h.rtx, h.one, h.heap, fun hs => absurd hs hns, fun _ => ⟨?_, ?_⟩,
          (fun hr => by rw [hfr] at hr; cases hr), h.irs⟩
        · show t.rcv.nxt + BitVec.ofNat 32 acc = _
          rw [hnxt, add_ofNat_assoc, hfr]
          congr 2
          show q + acc = delX.length + (t.incoming.text ++ List.take acc (List.drop a.toNat text)).length + 0
          rw [hslice, List.length_append, length_drop_take subY q acc (by omega)]
          omega
        · show delX ++ (t.incoming.text ++ List.take acc (List.drop a.toNat text)) <+: subY
          rw [hslice, ← List.append_assoc]
          have := prefix_extend (delX ++ t.incoming.text) subY acc hpre
          rw [List.length_append, hq] at this
          exact this
      · rw [finSent_enqueueBuilt]; rfl)

end
end Elvis.Tcp.Fin
