//! C14: correspondence + oracle runs (sub-commands `c14` / `c14-*`).
use hcommon::*;

// ---- decoder totality for IPv4 / UDP / TCP (builder codec-a) --------------------------------
// malformed stream: random bytes, every truncation of valid packets, single-field mutations,
// extreme length fields; generators/executor/oracle shared with C08 (`c08.rs`, `c08_exec.rs`).

fn run_c14_ipv4(args: &Args) {
    super::c08::run_proto(args, "ipv4", super::c08::Mode::C14)
}

fn run_c14_udp(args: &Args) {
    super::c08::run_proto(args, "udp", super::c08::Mode::C14)
}

fn run_c14_tcp(args: &Args) {
    super::c08::run_proto(args, "tcp", super::c08::Mode::C14)
}

// ---- end of the IPv4 / UDP / TCP part --------------------------------------------------------

pub fn run(args: &Args) {
    match args.prop.as_str() {
        "c14-ipv4" => run_c14_ipv4(args),
        "c14-udp" => run_c14_udp(args),
        "c14-tcp" => run_c14_tcp(args),
        _ => {
            eprintln!("hcore: {} not implemented yet", args.prop);
            std::process::exit(2);
        }
    }
}
