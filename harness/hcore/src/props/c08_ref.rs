//! Independent reference for C08/C14/C18 (IPv4, UDP, TCP): a generic big-endian bit packer /
//! unpacker working bit by bit on the RFC 791 / 768 / 9293 field lists, and the RFC 1071
//! checksum in wide arithmetic.  Written from the RFCs, shares nothing with the code under test.

/// widths of the RFC 791 header (figure 4) in diagram order:
/// version ihl precedence D T R reserved total-length identification reserved-flag DF MF
/// fragment-offset ttl protocol checksum source destination
pub const IPV4_WIDTHS: [u32; 18] = [4, 4, 3, 1, 1, 1, 2, 16, 16, 1, 1, 1, 13, 8, 8, 16, 32, 32];
/// RFC 768: source port, destination port, length, checksum
pub const UDP_WIDTHS: [u32; 4] = [16, 16, 16, 16];
/// RFC 9293 figure 1: sport dport seq ack data-offset reserved CWR ECE URG ACK PSH RST SYN FIN
/// window checksum urgent-pointer
pub const TCP_WIDTHS: [u32; 17] = [16, 16, 32, 32, 4, 4, 1, 1, 1, 1, 1, 1, 1, 1, 16, 16, 16];

/// generic big-endian bit packer: most significant bit of every field first
pub fn pack(widths: &[u32], values: &[u64]) -> Vec<u8> {
    let mut bits: Vec<bool> = vec![];
    for (w, v) in widths.iter().zip(values.iter()) {
        for i in (0..*w).rev() {
            bits.push((v >> i) & 1 == 1);
        }
    }
    bits.chunks(8)
        .filter(|c| c.len() == 8)
        .map(|c| c.iter().fold(0u8, |a, b| (a << 1) | (*b as u8)))
        .collect()
}

/// inverse of `pack`; `None` when the bytes are too short
pub fn unpack(widths: &[u32], bytes: &[u8]) -> Option<Vec<u64>> {
    let total: u32 = widths.iter().sum();
    if (bytes.len() as u64) * 8 < total as u64 {
        return None;
    }
    let mut pos = 0usize;
    let mut out = vec![];
    for w in widths {
        let mut v = 0u64;
        for _ in 0..*w {
            let bit = (bytes[pos / 8] >> (7 - pos % 8)) & 1;
            v = (v << 1) | bit as u64;
            pos += 1;
        }
        out.push(v);
    }
    Some(out)
}

/// plain sum of the big-endian 16-bit words of `data` (odd last byte padded with zero)
pub fn word_sum(data: &[u8]) -> u64 {
    let mut s = 0u64;
    let mut i = 0;
    while i < data.len() {
        let hi = data[i] as u64;
        let lo = if i + 1 < data.len() { data[i + 1] as u64 } else { 0 };
        s += (hi << 8) | lo;
        i += 2;
    }
    s
}

/// fold the carries back in (RFC 1071 section 4.1)
pub fn fold(mut s: u64) -> u16 {
    while s >> 16 != 0 {
        s = (s & 0xffff) + (s >> 16);
    }
    s as u16
}

/// RFC 1071 checksum of `data` (the checksum field inside must be zero)
pub fn checksum(data: &[u8]) -> u16 {
    !fold(word_sum(data))
}

/// RFC 1071 verification: the folded sum over everything, checksum included, is all ones
pub fn verifies(data: &[u8]) -> bool {
    fold(word_sum(data)) == 0xffff
}

/// pseudo header of RFC 768 / RFC 9293 followed by the segment
pub fn with_pseudo(src: u32, dst: u32, proto: u8, len: u16, segment: &[u8]) -> Vec<u8> {
    let mut v = Vec::with_capacity(12 + segment.len());
    v.extend_from_slice(&src.to_be_bytes());
    v.extend_from_slice(&dst.to_be_bytes());
    v.push(0);
    v.push(proto);
    v.extend_from_slice(&len.to_be_bytes());
    v.extend_from_slice(segment);
    v
}

/// the same one's-complement value (0x0000 and 0xffff both denote zero)
pub fn same_value(a: u16, b: u16) -> bool {
    a as u32 % 65535 == b as u32 % 65535
}

/// flip bit `i` of `bytes` (bit 0 = most significant bit of byte 0); out of range = no-op
pub fn flip(bytes: &mut [u8], i: usize) {
    if i / 8 < bytes.len() {
        bytes[i / 8] ^= 0x80 >> (i % 8);
    }
}
