import Driver.Common
/-! Line-protocol handlers for C20 (sub-commands `c20` / `c20-*`). -/
namespace Driver.C20

def dispatch (_sub : String) (_i _o : IO.FS.Stream) : Option (IO Unit) := none

end Driver.C20
