import ElvisVerif.Lemmas.TcpFullRound
/-!
# The clean-up round: from ANY reachable state with both endpoints ESTABLISHED to a rough state

`est_stays`: a segment without RST and FIN arriving at an ESTABLISHED TCB whose reorder heap holds no RST and no FIN
leaves it ESTABLISHED (no edge of the RFC 9293 diagram leaves ESTABLISHED for such control bits).
`deliver_est` / `deliverRange_est`: deliveries to an ESTABLISHED endpoint of the closed system succeed (`Wf`), keep
both endpoints ESTABLISHED with their SYN acknowledged, and do not touch the unsent text.
`cleanup_round`: `fairRound 1` (both timers expire, both sides emit, everything emitted is delivered, both
applications read) from any such state — receive buffers full or not, heaps and queues arbitrary — succeeds and
ends rough: both receive buffers are empty.
-/
namespace Elvis.Tcp.Full
open Elvis.ModCmp Elvis.Tcp.Tcb Elvis.Rfc9293

theorem est_edge (a s : Bool) (c : Option State)
    (h : rfcCause (.segment a false s false) (some .Established) c = true) : c = some .Established := by
  revert h
  cases a <;> cases s <;> cases c <;> (try rename_i st; cases st) <;> decide

theorem path_est {S : Event → Prop} (hS : ∀ ev, S ev → ∃ a s, ev = .segment a false s false) {a b : Option State}
    (p : Path S a b) : a = some .Established → b = some .Established := by
  induction p with
  | refl => exact id
  | tail _ hs hc ih =>
    intro ha
    obtain ⟨x, y, rfl⟩ := hS _ hs
    rw [ih ha] at hc
    exact est_edge x y _ hc

/-- ESTABLISHED is not left without RST / FIN -/
theorem est_stays (t : Tcb) (σ : Segment) (t' : Tcb) (e : t.segmentArrives σ = .ok (t', .Ok))
    (hst : t.state = .Established)
    (h : ∀ g ∈ σ :: t.incoming.segments, g.hdr.ctl.rst = false ∧ g.hdr.ctl.fin = false) :
    t'.state = .Established := by
  obtain ⟨p, _⟩ := segmentArrives_path t σ t' .Ok e
  have := path_est (fun ev ⟨g, hg, hev⟩ => by
    obtain ⟨h1, h2⟩ := h g hg
    exact ⟨g.hdr.ctl.ack, g.hdr.ctl.syn, by rw [hev]; unfold evOf; rw [h1, h2]⟩) p (by rw [hst])
  unfold endState at this
  simpa using this

variable {iss : SideId → Seq} {mt : SideId → U16}

/-- side `x` is ESTABLISHED with its SYN acknowledged and at most `L` bytes unsent -/
def EstX (s : Sys) (x : SideId) (L : Nat) : Prop :=
  ∃ t, (s.side x).tcb = some t ∧ t.state = .Established ∧ t.snd.una ≠ t.snd.iss ∧ t.outgoing.text.length ≤ L

theorem room_setSide_tcb (s : Sys) (h : RoomH s) (x : SideId) (t' : Tcb) :
    RoomH (s.setSide x { s.side x with tcb := some t' }) := by
  have a := h.1
  have b := h.2
  cases x
  · exact ⟨a, b⟩
  · exact ⟨a, b⟩

/-- one delivery to an ESTABLISHED endpoint whose peer is ESTABLISHED -/
theorem deliver_est (s : Sys) (hg : Good iss s) (x : SideId) (i : Nat) (σ : Segment) (L L' : Nat)
    (hn : s.nth i = some σ) (ha : σ.hdr.srcPort = x.peer.port ∧ σ.hdr.dstPort = x.port)
    (hx : EstX s x L) (hp : EstX s x.peer L') :
    ∃ s1, s.step (.deliver x i) = .ok (s1, .arrived .Ok) ∧ PlainRun s s1 ∧ Good iss s1 ∧
      EstX s1 x L ∧ EstX s1 x.peer L' ∧ s1.historyLen = s.historyLen ∧ (∀ j, s1.nth j = s.nth j) := by
  obtain ⟨t, ht, hst, hu, hL⟩ := hx
  obtain ⟨tp, htp, hstp, hup, hLp⟩ := hp
  have hmem : σ ∈ s.history := nth_mem s i σ hn
  have hval : C01.Valid (iss x.peer) (s.side x.peer).submitted σ := hg.conv.c01.hist σ hmem x.peer ha.1
  have hσr := hg.conv.nr.hist σ hmem
  have hwf := wf_of_sysWf hg.ext.wf x t ht
  have hpay : σ.text.length ≤ MAX_PAYLOAD := hg.ext.wf.hist σ hmem
  obtain ⟨t', r, e1, _, _⟩ := segmentArrives_spec t σ hwf (fun h => by rw [hst] at h; cases h) hpay
  have ti := hg.tinv x t ht
  have nt := hg.conv.nr.tcb x t ht
  have h31 : (s.side x.peer).submitted.length < 2147483648 := by have := hg.room.side x.peer; omega
  have hr : r = .Ok := segmentArrives_ok ti hval h31 hσr nt.heap e1
  subst hr
  have hstep : s.step (.deliver x i) = .ok (s.setSide x { s.side x with tcb := some t' }, .arrived .Ok) := by
    simp only [Sys.step, Op.side, hn, Sys.arrive, ht, e1]
  have hplain : Op.Plain s (.deliver x i) := by
    intro g hg'
    rw [hn] at hg'
    cases hg'
    exact ha
  have r01 : PlainRun s (s.setSide x { s.side x with tcb := some t' }) := .step (.refl _) hplain hstep
  have hg1 := good_of_run hg r01 (room_setSide_tcb s hg.room x t')
  have k := segmentArrives_snd t σ t' .Ok e1
  have hst' : t'.state = .Established := est_stays t σ t' e1 hst (fun g hg' => by
    rcases List.mem_cons.1 hg' with rfl | h
    · exact ⟨hσr, hval.fin⟩
    · exact ⟨nt.heap g h, (ti.heap g h).fin⟩)
  have hroom := room_of_inv hg.conv.c01 hg.room
  have a := (arrive_both s hg.conv.full.inv hg.conv.full.fresh hg.conv.full.ack hroom x t t' σ ht hmem ha.1 e1 tp htp).1
  have hu' : t'.snd.una ≠ t'.snd.iss := by
    rw [k.iss]
    rcases a.q.una with h | h
    · rw [h]; exact hu
    · intro h0
      rw [h0, off_self] at h
      omega
  refine ⟨_, hstep, r01, hg1, ⟨t', by rw [side_setSide_same], hst', hu', by rw [k.text]; exact hL⟩,
    ⟨tp, by rw [side_setSide_peer]; exact htp, hstp, hup, hLp⟩, by rw [historyLen_setSide], fun j => by rw [nth_setSide]⟩

/-- a range of deliveries -/
theorem deliverRange_est (n : Nat) : ∀ (s : Sys) (x : SideId) (lo : Nat) (L L' : Nat), Good iss s →
    (∀ j, j < n → ∃ σ, s.nth (lo + j) = some σ ∧ σ.hdr.srcPort = x.peer.port ∧ σ.hdr.dstPort = x.port) →
    EstX s x L → EstX s x.peer L' →
    ∃ s1, deliverRange s x lo n = .ok s1 ∧ PlainRun s s1 ∧ Good iss s1 ∧ EstX s1 x L ∧ EstX s1 x.peer L' ∧
      s1.historyLen = s.historyLen ∧ (∀ j, s1.nth j = s.nth j) := by
  induction n with
  | zero =>
    intro s x lo L L' hg _ hx hp
    exact ⟨s, rfl, .refl _, hg, hx, hp, rfl, fun _ => rfl⟩
  | succ n ih =>
    intro s x lo L L' hg hn hx hp
    obtain ⟨σ, h0, ha⟩ := hn 0 (by omega)
    obtain ⟨s1, e1, r1, g1, x1, p1, l1, n1⟩ := deliver_est s hg x lo σ L L' (by simpa using h0) ha hx hp
    obtain ⟨s2, e2, r2, g2, x2, p2, l2, n2⟩ := ih s1 x (lo + 1) L L' g1 (fun j hj => by
      obtain ⟨τ, h1, h2⟩ := hn (j + 1) (by omega)
      exact ⟨τ, by rw [n1, show lo + 1 + j = lo + (j + 1) by omega]; exact h1, h2⟩) x1 p1
    refine ⟨s2, ?_, r1.trans r2, g2, x2, p2, l2.trans l1, fun j => (n2 j).trans (n1 j)⟩
    simp only [deliverRange, e1]
    exact e2

/-- a tick of `RTO + 1` -/
theorem tick_est (s : Sys) (hg : Good iss s) (hf : FInv iss mt s) (x : SideId) (L L' : Nat)
    (hx : EstX s x L) (hp : EstX s x.peer L') :
    ∃ s1 r, s.step (.tick x (RTO + 1)) = .ok (s1, r) ∧ PlainRun s s1 ∧ Good iss s1 ∧ EstX s1 x L ∧ EstX s1 x.peer L' := by
  obtain ⟨t, ht, hst, hu, hL⟩ := hx
  obtain ⟨tp, htp, hstp, hup, hLp⟩ := hp
  have tw : t.timeouts.timeWait = none := by
    have := (hg.conv.nr.tcb x t ht).tw
    cases h : t.timeouts.timeWait with
    | none => rfl
    | some v =>
      have := this (by rw [h]; rfl)
      rw [hst] at this; cases this
  obtain ⟨t1, e1, k1⟩ := advanceTime_expire t (RTO + 1) (by have := (hf.tcb x t ht).tmo; omega) tw
  have e : s.step (.tick x (RTO + 1)) = .ok (s.setSide x { s.side x with tcb := some t1 }, .tick .Ignore) := by
    simp only [Sys.step, Op.side, ht, e1]
  have r01 : PlainRun s (s.setSide x { s.side x with tcb := some t1 }) := .step (op := .tick x (RTO + 1)) (.refl _) trivial e
  refine ⟨_, _, e, r01, good_of_run hg r01 (room_setSide_tcb s hg.room x t1),
    ⟨t1, by rw [side_setSide_same], by rw [k1.st]; exact hst, by rw [k1.snd]; exact hu, by rw [k1.otext]; exact hL⟩,
    ⟨tp, by rw [side_setSide_peer]; exact htp, hstp, hup, hLp⟩⟩

/-- `segments()` on an ESTABLISHED side -/
theorem emit_est (s : Sys) (hg : Good iss s) (x : SideId) (L L' : Nat) (hx : EstX s x L) (hp : EstX s x.peer L')
    (hm : ∀ t, (s.side x).tcb = some t → SPACE_FOR_HEADERS < t.mtu.toNat) :
    ∃ (s1 : Sys) (r : Res) (out : List Segment), s.step (.emit x) = .ok (s1, r) ∧ PlainRun s s1 ∧ Good iss s1 ∧ EstX s1 x L ∧ EstX s1 x.peer L' ∧
      s1.historyLen = s.historyLen + out.length ∧
      (∀ j, j < out.length → ∃ σ, s1.nth (s.historyLen + j) = some σ ∧ σ.hdr.srcPort = x.port ∧ σ.hdr.dstPort = x.peer.port) ∧
      (∀ i, i < s.historyLen → s1.nth i = s.nth i) := by
  obtain ⟨t, ht, hst, hu, hL⟩ := hx
  obtain ⟨tp, htp, hstp, hup, hLp⟩ := hp
  obtain ⟨new, t1, out, eA, fA⟩ := segments_fwd t (by rw [hst]; trivial) (hm t ht)
  obtain ⟨s1, r1, st1, h1a, h1p, h1sub, _, h1len, h1new, h1old⟩ := emit_facts s x t t1 out ht eA
  have r01 : PlainRun s s1 := .step (op := .emit x) (.refl _) trivial st1
  have hroom1 : RoomH s1 := by
    have hs := hg.room
    have e2 : (s1.side x.peer).submitted = (s.side x.peer).submitted := by rw [h1p]
    cases x
    · exact ⟨by show (s1.side .A).submitted.length + 2 < _; rw [h1sub]; exact hs.1,
        by show (s1.side .B).submitted.length + 2 < _; rw [show (s1.side .B) = s1.side SideId.A.peer from rfl, e2]; exact hs.2⟩
    · exact ⟨by show (s1.side .A).submitted.length + 2 < _; rw [show (s1.side .A) = s1.side SideId.B.peer from rfl, e2]; exact hs.1,
        by show (s1.side .B).submitted.length + 2 < _; rw [h1sub]; exact hs.2⟩
  have hg1 := good_of_run hg r01 hroom1
  have hshape := out_shape_rough hg x t t1 new out ht fA
  refine ⟨s1, r1, out, st1, r01, hg1, ⟨t1, h1a, by rw [fA.st]; exact hst, ?_, ?_⟩,
    ⟨tp, by rw [h1p]; exact htp, hstp, hup, hLp⟩, h1len, fun j hj => ⟨out[j], h1new j hj, hshape _ (List.getElem_mem hj)⟩,
    h1old⟩
  · rw [fA.una, hg1.iss_eq x t1 h1a, ← hg.iss_eq x t ht]; exact hu
  · rw [fA.text, List.length_drop]; omega

/-- `receive()` on an ESTABLISHED side empties its buffer -/
theorem read_est (s : Sys) (hg : Good iss s) (x : SideId) (L L' : Nat) (hx : EstX s x L) (hp : EstX s x.peer L') :
    ∃ s1 r, s.step (.read x) = .ok (s1, r) ∧ PlainRun s s1 ∧ Good iss s1 ∧ EstX s1 x L ∧ EstX s1 x.peer L' ∧
      (∀ t, (s1.side x).tcb = some t → t.incoming.text = []) ∧ s1.side x.peer = s.side x.peer := by
  obtain ⟨t, ht, hst, hu, hL⟩ := hx
  obtain ⟨tp, htp, hstp, hup, hLp⟩ := hp
  obtain ⟨s1, r1, st1, h1a, h1p, h1sub, _⟩ := read_facts s x t ht hst
  have r01 : PlainRun s s1 := .step (op := .read x) (.refl _) trivial st1
  have hroom1 : RoomH s1 := by
    have hs := hg.room
    have e2 : (s1.side x.peer).submitted = (s.side x.peer).submitted := by rw [h1p]
    cases x
    · exact ⟨by show (s1.side .A).submitted.length + 2 < _; rw [h1sub]; exact hs.1,
        by show (s1.side .B).submitted.length + 2 < _; rw [show (s1.side .B) = s1.side SideId.A.peer from rfl, e2]; exact hs.2⟩
    · exact ⟨by show (s1.side .A).submitted.length + 2 < _; rw [show (s1.side .A) = s1.side SideId.B.peer from rfl, e2]; exact hs.1,
        by show (s1.side .B).submitted.length + 2 < _; rw [h1sub]; exact hs.2⟩
  refine ⟨s1, r1, st1, r01, good_of_run hg r01 hroom1, ⟨_, h1a, hst, hu, hL⟩,
    ⟨tp, by rw [h1p]; exact htp, hstp, hup, hLp⟩, fun t' ht' => ?_, h1p⟩
  rw [h1a] at ht'
  cases ht'
  rfl

/-- **the clean-up round**: `fairRound 1` from any state with both endpoints ESTABLISHED ends rough -/
theorem cleanup_round (s : Sys) (hg : Good iss s) (hf : FInv iss mt s) (hm : ∀ x, SPACE_FOR_HEADERS < (mt x).toNat)
    (La Lb : Nat) (hA : EstX s .A La) (hB : EstX s .B Lb) :
    ∃ s' ta tb, fairRound 1 s = .ok s' ∧ PlainRun s s' ∧ Good iss s' ∧ Rough s' ta tb ∧
      ta.outgoing.text.length ≤ La ∧ tb.outgoing.text.length ≤ Lb := by
  -- FInv along the way
  have fi : ∀ s1, PlainRun s s1 → Good iss s1 → FInv iss mt s1 := fun s1 r g => finv_run hg.conv hg.ext hf r g.room
  have hmtu : ∀ s1, FInv iss mt s1 → ∀ x t, (s1.side x).tcb = some t → SPACE_FOR_HEADERS < t.mtu.toNat :=
    fun s1 f x t ht => by rw [(f.tcb x t ht).mtu]; exact hm x
  obtain ⟨s1, r1, e1, p1, g1, a1, b1⟩ := tick_est s hg hf .A La Lb hA hB
  obtain ⟨s2, r2, e2, p2, g2, b2, a2⟩ := tick_est s1 g1 (fi s1 p1 g1) .B Lb La b1 a1
  have p02 := p1.trans p2
  obtain ⟨s3, r3, outA, e3, p3, g3, a3, b3, l3, n3, o3⟩ := emit_est s2 g2 .A La Lb a2 b2 (hmtu s2 (fi s2 p02 g2) .A)
  have p03 := p02.trans p3
  obtain ⟨s4, r4, outB, e4, p4, g4, b4, a4, l4, n4, o4⟩ := emit_est s3 g3 .B Lb La b3 a3 (hmtu s3 (fi s3 p03 g3) .B)
  have p04 := p03.trans p4
  obtain ⟨s5, e5, p5, g5, b5, a5, l5, n5⟩ := deliverRange_est outA.length s4 .B s2.historyLen Lb La g4 (fun j hj => by
    obtain ⟨σ, h1, h2, h3⟩ := n3 j hj
    exact ⟨σ, by rw [o4 _ (by omega)]; exact h1, h2, h3⟩) b4 a4
  have p05 := p04.trans p5
  obtain ⟨s6, e6, p6, g6, a6, b6, l6, n6⟩ := deliverRange_est outB.length s5 .A s3.historyLen La Lb g5 (fun j hj => by
    obtain ⟨σ, h1, h2, h3⟩ := n4 j hj
    exact ⟨σ, by rw [n5]; exact h1, h2, h3⟩) a5 b5
  have p06 := p05.trans p6
  obtain ⟨s7, r7, e7, p7, g7, a7, b7, ba7, _⟩ := read_est s6 g6 .A La Lb a6 b6
  have p07 := p06.trans p7
  obtain ⟨s8, r8, e8, p8, g8, b8, a8, bb8, hp8⟩ := read_est s7 g7 .B Lb La b7 a7
  have p08 := p07.trans p8
  have f8 := fi s8 p08 g8
  obtain ⟨ta, hta, sta, uta, lta⟩ := a8
  obtain ⟨tb, htb, stb, utb, ltb⟩ := b8
  have hbufA : ta.incoming.text = [] := by
    have h8a : s8.side .A = s7.side .A := hp8
    exact ba7 ta (by rw [← h8a]; exact hta)
  refine ⟨s8, ta, tb, ?_, p08, g8, ⟨hta, htb,
    ⟨sta, hbufA, uta, hmtu s8 f8 .A ta hta, (f8.tcb .A ta hta).tmo⟩,
    ⟨stb, bb8 tb htb, utb, hmtu s8 f8 .B tb htb, (f8.tcb .B tb htb).tmo⟩⟩, lta, ltb⟩
  unfold fairRound
  rw [e1]
  dsimp only
  rw [e2]
  dsimp only
  simp only [phases, phase, e3, e4]
  have l1 : s3.historyLen - s2.historyLen = outA.length := by omega
  have l2 : s4.historyLen - s3.historyLen = outB.length := by omega
  rw [l1, e5]
  dsimp only
  rw [l2, e6]
  dsimp only
  rw [e7]
  dsimp only
  rw [e8]

end Elvis.Tcp.Full
