import ElvisVerif.Lemmas.TcpFullHsRound
import ElvisVerif.Props.C01Converge
/-!
# C01 — convergence from (almost) any reachable state of the closed system nobody closes

System, ops and quantification as in `Props/C01Converge.lean`: `PlainRun` from `open A` + (`listen B` | `open B`),
any ISNs, MTUs ≥ 100: any finite interleaving of `write`, `read`, `tick`, `emit` and deliveries of ANY element of
the history of everything ever emitted (loss, duplication, reordering, arbitrary delay) to the side it is
addressed to; H31 as `RoomH`.
-/
namespace Elvis.Tcp
open Tcb Full

/-- every invariant of `Lemmas/TcpFullInv.lean` holds in every reachable state -/
theorem finv_of_reach (ia ib : Seq) (ma mb : U16) (simultaneous : Bool) (sys0 s : Sys) (rs : List Res)
    (hma : SPACE_FOR_HEADERS ≤ ma.toNat) (hmb : SPACE_FOR_HEADERS ≤ mb.toNat)
    (h0 : Sys.run {} [.open .A ia ma, if simultaneous then .open .B ib mb else .listen .B ib mb] = .ok (sys0, rs))
    (hrun : PlainRun sys0 s) (h31 : RoomH s) : FInv (issOf ia ib) (mtuOf ma mb) s :=
  finv_run (conv_init ia ib ma mb simultaneous sys0 rs h0) (ext_init ia ib ma mb simultaneous sys0 rs hma hmb h0)
    (finv_init ia ib ma mb simultaneous sys0 rs h0) hrun h31

/-- **(a) `SEG.SEQ ≤ SND.NXT` for every segment ever emitted, text-free ones included.**  In every reachable
    state, for side `x` with TCB `t`: every history element sent from `x`'s port — data, SYN, and pure ACKs, whose
    sequence number no earlier invariant constrained — and every segment parked in the peer's reorder heap has
    `SEG.SEQ − ISS_x ≤ SND.NXT_x − ISS_x` (< 2^31); and while a side has no TCB yet, nothing in the history comes
    from its port. -/
theorem c01_seq_le_snd_nxt (ia ib : Seq) (ma mb : U16) (simultaneous : Bool) (sys0 s : Sys) (rs : List Res)
    (hma : SPACE_FOR_HEADERS ≤ ma.toNat) (hmb : SPACE_FOR_HEADERS ≤ mb.toNat)
    (h0 : Sys.run {} [.open .A ia ma, if simultaneous then .open .B ib mb else .listen .B ib mb] = .ok (sys0, rs))
    (hrun : PlainRun sys0 s) (h31 : RoomH s) :
    (∀ x t, (s.side x).tcb = some t → t.sent < 2147483648 ∧
      (∀ σ ∈ s.history, σ.hdr.srcPort = x.port → off (issOf ia ib x) σ.hdr.seq ≤ t.sent) ∧
      (∀ u, (s.side x.peer).tcb = some u → ∀ σ ∈ u.incoming.segments, off (issOf ia ib x) σ.hdr.seq ≤ t.sent)) ∧
    (∀ x, (s.side x).tcb = none → ∀ σ ∈ s.history, σ.hdr.srcPort ≠ x.port) := by
  have hg := good_of_reach ia ib ma mb simultaneous sys0 s rs hma hmb h0 hrun h31
  have hf := finv_of_reach ia ib ma mb simultaneous sys0 s rs hma hmb h0 hrun h31
  exact ⟨fun x t ht => ⟨hg.sent_lt x t ht, hf.seq x t ht, fun u hu => hf.heapSeq x t u ht hu⟩,
    fun x hx => (hf.none x hx).1⟩

/-- **(b) the reorder-heap invariant over `Sys.step`.**  In every reachable state, for every TCB `u` (peer's ISS
    `base`): the reorder heap is a binary heap for the offset order `leK base`, on which `Segment::cmp` agrees
    with it (every parked segment is less than 2^31 ahead of `base`), so its root has the least sequence number;
    at rest in ESTABLISHED every parked segment is strictly ahead of `RCV.NXT`; every parked segment is valid
    (`C01.Valid`); the retransmission timer is at most RTO and the MTU is the configured one. -/
theorem c01_reorder_heap_invariant (ia ib : Seq) (ma mb : U16) (simultaneous : Bool) (sys0 s : Sys) (rs : List Res)
    (hma : SPACE_FOR_HEADERS ≤ ma.toNat) (hmb : SPACE_FOR_HEADERS ≤ mb.toNat)
    (h0 : Sys.run {} [.open .A ia ma, if simultaneous then .open .B ib mb else .listen .B ib mb] = .ok (sys0, rs))
    (hrun : PlainRun sys0 s) (h31 : RoomH s) :
    ∀ y u, (s.side y).tcb = some u →
      HeapOk (issOf ia ib y.peer) u ∧ Ahead (issOf ia ib y.peer) u ∧
      (∀ g ∈ u.incoming.segments, C01.Valid (issOf ia ib y.peer) (s.side y.peer).submitted g) ∧
      (∀ top, LHeap.peek u.incoming.segments = some top → ∀ g ∈ u.incoming.segments,
        off (issOf ia ib y.peer) top.hdr.seq ≤ off (issOf ia ib y.peer) g.hdr.seq) ∧
      u.timeouts.retransmission ≤ RTO ∧ u.mtu = mtuOf ma mb y := by
  intro y u hu
  have hg := good_of_reach ia ib ma mb simultaneous sys0 s rs hma hmb h0 hrun h31
  have hf := finv_of_reach ia ib ma mb simultaneous sys0 s rs hma hmb h0 hrun h31
  have f := hf.tcb y u hu
  refine ⟨f.hk, f.ahead, (hg.tinv y u hu).heap, fun top hpeek g hg' => ?_, f.tmo, f.mtu⟩
  have := LHeap.peek_max (leK_tp (issOf ia ib y.peer)) _ top hpeek f.hk.heap g hg'
  unfold leK at this
  simpa using this

/-- **ESTABLISHED implies the SYN has been acknowledged**: in every reachable state a TCB in ESTABLISHED has
    `1 ≤ SND.UNA − ISS`, i.e. `SND.UNA ≠ ISS` and no SYN waits on its retransmission queue.  (Both ways into ESTABLISHED
    establish it — SYN-RECEIVED → ESTABLISHED moves `SND.UNA` to an ACK number with `SND.UNA < SEG.ACK`, SYN-SENT →
    ESTABLISHED tests `mod_gt(SND.UNA, ISS)` —, afterwards `SND.UNA` moves only to ACK numbers in `[ISS + 1, SND.NXT]`;
    `Lemmas/TcpFullUna.lean`.) -/
theorem c01_established_syn_acked (ia ib : Seq) (ma mb : U16) (simultaneous : Bool) (sys0 s : Sys) (rs : List Res)
    (hma : SPACE_FOR_HEADERS ≤ ma.toNat) (hmb : SPACE_FOR_HEADERS ≤ mb.toNat)
    (h0 : Sys.run {} [.open .A ia ma, if simultaneous then .open .B ib mb else .listen .B ib mb] = .ok (sys0, rs))
    (hrun : PlainRun sys0 s) (h31 : RoomH s) :
    ∀ x t, (s.side x).tcb = some t → t.state = .Established →
      1 ≤ off (issOf ia ib x) t.snd.una ∧ t.snd.una ≠ t.snd.iss ∧
      ∀ tr ∈ t.outgoing.retransmit, tr.segment.hdr.ctl.syn = false ∧ tr.segment.text ≠ [] := by
  intro x t ht hst
  have hg := good_of_reach ia ib ma mb simultaneous sys0 s rs hma hmb h0 hrun h31
  have hu : UInv (issOf ia ib) s :=
    uinv_run (conv_init ia ib ma mb simultaneous sys0 rs h0) (ext_init ia ib ma mb simultaneous sys0 rs hma hmb h0)
      (uinv_init ia ib ma mb simultaneous sys0 rs h0) hrun h31
  have hne := hu.ne hg x t ht hst
  refine ⟨hu x t ht hst, hne, fun tr htr => ?_⟩
  have f := rtx_entry_facts hg x t ht hne tr htr
  refine ⟨?_, f.1⟩
  cases hs : tr.segment.hdr.ctl.syn with
  | false => rfl
  | true =>
    exfalso
    obtain ⟨v, _⟩ := (hg.tinv x t ht).rtx tr.segment (List.mem_map.2 ⟨tr, htr, rfl⟩)
    exact f.1 (v.syn hs).2

/-- **C01 convergence from a rough state** (`_partial`: the handshake must be over and the applications must have
    read what is buffered; `c01_converges_established_partial` removes the second restriction).

    Starting state `s`: any reachable state (file header) in which both endpoints are ESTABLISHED (hence their SYN
    acknowledged: `c01_established_syn_acked`) and both receive buffers are empty.  NOTHING else is assumed: the reorder
    heaps may hold any segments parked after loss or reordering (data behind a gap, pure ACKs that overtook data,
    duplicates), the one-shot queues any ACKs not yet emitted, the retransmission queues anything — received by
    the peer or not, acknowledged or not: data and ACKs may have been lost in any number in both directions —,
    any amount of text may be unsent, the timers are anywhere.

    With `unsent ≤ 65535 · n` on both sides, ONE fair round of `2n + 2` phases ends `Done`: everything submitted has
    been delivered to the peer's application (both directions), all queues, heaps, buffers and unsent texts are
    empty, `segments()` returns `[]` on both sides, and every further fair round ends `Done` again with the history
    unchanged.  (The ticks flag every queue entry; in the first phase each side emits `oneshot ++ queue ++ new`;
    delivered in order, the first data segment starts at or before `RCV.NXT` — `c03_synchronised` —, so the drain
    progress lemma `Full.drain_est` moves `RCV.NXT` over it and over every contiguous parked segment, whatever the
    heap holds; by (a) nothing parked lies beyond the peer's `SND.NXT`, by (b) what stays parked is ahead of
    `RCV.NXT`: the heap ends empty; then `phases_done`.) -/
theorem c01_converges_rough_partial (ia ib : Seq) (ma mb : U16) (simultaneous : Bool) (sys0 s : Sys) (rs : List Res)
    (hma : 100 ≤ ma.toNat) (hmb : 100 ≤ mb.toNat)
    (h0 : Sys.run {} [.open .A ia ma, if simultaneous then .open .B ib mb else .listen .B ib mb] = .ok (sys0, rs))
    (hrun : PlainRun sys0 s) (h31 : RoomH s) (ta tb : Tcb) (hta : s.a.tcb = some ta) (htb : s.b.tcb = some tb)
    (ea : ta.state = .Established) (eb : tb.state = .Established)
    (ba : ta.incoming.text = []) (bb : tb.incoming.text = [])
    (n : Nat) (wa : ta.outgoing.text.length ≤ 65535 * n) (wb : tb.outgoing.text.length ≤ 65535 * n) :
    ∃ s' ta' tb', fairRound (2 * n + 2) s = .ok s' ∧ PlainRun s s' ∧ Done s' ta' tb' ∧
      s'.b.delivered = s'.a.submitted ∧ s'.a.delivered = s'.b.submitted ∧
      s.a.submitted <+: s'.a.submitted ∧ s.b.submitted <+: s'.b.submitted ∧
      (∀ x, ∃ s1, s'.step (.emit x) = .ok (s1, .emitted s'.historyLen []) ∧ s1.history = s'.history) ∧
      (∀ k, ∃ s'' ta'' tb'', fairRound k s' = .ok s'' ∧ Done s'' ta'' tb'' ∧ s''.historyLen = s'.historyLen ∧
        s''.b.delivered = s''.a.submitted ∧ s''.a.delivered = s''.b.submitted) := by
  have h50 : SPACE_FOR_HEADERS = 50 := rfl
  have hg := good_of_reach ia ib ma mb simultaneous sys0 s rs (by omega) (by omega) h0 hrun h31
  have hf := finv_of_reach ia ib ma mb simultaneous sys0 s rs (by omega) (by omega) h0 hrun h31
  have fa := hf.tcb .A ta hta
  have fb := hf.tcb .B tb htb
  have ua := (c01_established_syn_acked ia ib ma mb simultaneous sys0 s rs (by omega) (by omega) h0 hrun h31 .A ta hta ea).2.1
  have ub := (c01_established_syn_acked ia ib ma mb simultaneous sys0 s rs (by omega) (by omega) h0 hrun h31 .B tb htb eb).2.1
  have hc : Rough s ta tb :=
    ⟨hta, htb, ⟨ea, ba, ua, by rw [fa.mtu]; show 50 < ma.toNat; omega, fa.tmo⟩,
      ⟨eb, bb, ub, by rw [fb.mtu]; show 50 < mb.toNat; omega, fb.tmo⟩⟩
  obtain ⟨s', ta', tb', hfr, hr, hg', hd⟩ := fairRound_rough n s ta tb hg hf hc wa wb
  obtain ⟨d1, d2⟩ := done_stream hg' ta' tb' hd
  refine ⟨s', ta', tb', hfr, hr, hd, d1, d2, hr.sub .A, hr.sub .B, fun x => done_silent hg' ta' tb' hd x, fun k => ?_⟩
  obtain ⟨s'', ta'', tb'', hf', _, hg'', hd', hl⟩ := done_fairRound k s' ta' tb' hg' hd
  obtain ⟨e1, e2⟩ := done_stream hg'' ta'' tb'' hd'
  exact ⟨s'', ta'', tb'', hf', hd', hl, e1, e2⟩

/-! ### non-vacuity: a non-empty reorder heap, lost data, a lost ACK, a non-empty one-shot queue -/

/-- handshake completed; A writes [1,2,3] and emits them (history element 3) — LOST; A writes [4,5] and emits them
    (element 4), delivered to B TWICE: parked in B's reorder heap behind the gap (two copies); B writes [9,8] and
    emits them (element 5), A receives and reads them and emits its ACK (element 6) — LOST; element 5 is delivered to
    A once more (a duplicate: A queues another ACK, which waits on its one-shot queue); A writes one more byte. -/
def roughOps : List Op :=
  [.emit .A, .deliver .B 0, .emit .B, .deliver .A 1, .emit .A, .deliver .B 2,
   .write .A [1, 2, 3], .emit .A, .write .A [4, 5], .emit .A, .deliver .B 4, .deliver .B 4,
   .write .B [9, 8], .emit .B, .deliver .A 5, .read .A, .emit .A, .deliver .A 5, .write .A [6]]

def roughCheck : Bool :=
  match Sys.run {} [.open .A 1000 1500, .listen .B 5000 1500] with
  | .ok (sys0, _) =>
    match plainRunB sys0 roughOps with
    | some s =>
      decide (s.a.submitted.length + 2 < 2147483648) && decide (s.b.submitted.length + 2 < 2147483648) &&
      (match s.a.tcb, s.b.tcb with
        | some ta, some tb => ta.state == .Established && tb.state == .Established &&
            ta.snd.una != ta.snd.iss && tb.snd.una != tb.snd.iss &&
            ta.incoming.text.isEmpty && tb.incoming.text.isEmpty &&
            tb.incoming.segments.length == 2 && ta.outgoing.oneshot.length == 1 &&
            ta.outgoing.retransmit.length == 2 && tb.outgoing.retransmit.length == 1 &&
            ta.outgoing.text == [6] && tb.outgoing.text == [] &&
            s.b.delivered == [] && s.a.delivered == [9, 8]
        | _, _ => false) &&
      (match fairRound 4 s with
        | .ok s' => s'.b.delivered == [1, 2, 3, 4, 5, 6] && s'.a.delivered == [9, 8]
        | .error _ => false)
    | none => false
  | .error _ => false

/-- the hypotheses of `c01_converges_rough_partial` hold in that reachable state (`n = 1`): two segments are parked
    in B's reorder heap, B has received nothing in order, an ACK waits on A's one-shot queue, both retransmission
    queues are non-empty; the promised round, evaluated, completes both streams -/
example : ∃ sys0 s : Sys, ∃ rs, ∃ ta tb : Tcb,
    Sys.run {} [.open .A 1000 1500, if false then .open .B 5000 1500 else .listen .B 5000 1500] = .ok (sys0, rs) ∧
    PlainRun sys0 s ∧ RoomH s ∧ s.a.tcb = some ta ∧ s.b.tcb = some tb ∧
    ta.state = .Established ∧ tb.state = .Established ∧ ta.snd.una ≠ ta.snd.iss ∧ tb.snd.una ≠ tb.snd.iss ∧
    ta.incoming.text = [] ∧ tb.incoming.text = [] ∧
    tb.incoming.segments.length = 2 ∧ ta.outgoing.oneshot.length = 1 ∧
    ta.outgoing.retransmit.length = 2 ∧ tb.outgoing.retransmit.length = 1 ∧ s.b.delivered = [] ∧
    ta.outgoing.text.length ≤ 65535 * 1 ∧ tb.outgoing.text.length ≤ 65535 * 1 ∧
    ∃ s', fairRound (2 * 1 + 2) s = .ok s' ∧ s'.b.delivered = [1, 2, 3, 4, 5, 6] ∧ s'.a.delivered = [9, 8] := by
  have key : roughCheck = true := by decide
  unfold roughCheck at key
  split at key
  · rename_i sys0 rs e0
    split at key
    · rename_i s e1
      simp only [Bool.and_eq_true, decide_eq_true_eq] at key
      obtain ⟨⟨⟨r1, r2⟩, k1⟩, k2⟩ := key
      split at k1
      · rename_i ta tb hta htb
        simp only [Bool.and_eq_true, beq_iff_eq, bne_iff_ne, ne_eq, List.isEmpty_iff] at k1
        obtain ⟨⟨⟨⟨⟨⟨⟨⟨⟨⟨⟨⟨⟨x1, x2⟩, x3⟩, x4⟩, x5⟩, x6⟩, x7⟩, x8⟩, x9⟩, x10⟩, x11⟩, x12⟩, x13⟩, x14⟩ := k1
        split at k2
        · rename_i s' e2
          simp only [Bool.and_eq_true, beq_iff_eq] at k2
          exact ⟨sys0, s, rs, ta, tb, e0, plainRunB_sound _ _ _ e1, ⟨r1, r2⟩, hta, htb, x1, x2, x3, x4, x5, x6,
            x7, x8, x9, x10, x13, by rw [x11]; decide, by rw [x12]; decide, s', e2, k2.1, k2.2⟩
        · simp at k2
      · simp at k1
    · simp at key
  · simp at key

/-! ## (c) a delivery that fills a gap drains the reorder heap -/

/-- **(c) the drain progress lemma through a NON-empty reorder heap, at system level.**  In every reachable state in
    which both endpoints are ESTABLISHED: let `t` be `x`'s TCB (ANY reorder heap), `u` the peer's, and let `x`'s receive
    buffer have room for everything the peer has numbered (`|buffered| + (SND.NXT_peer − RCV.NXT) ≤ 65535`; e.g. the
    buffer is empty).  Delivering history element `i` — a text-bearing segment `σ` of the peer that starts at or before
    `RCV.NXT` (a retransmission, or the segment that fills the gap) — succeeds, and afterwards
    * `RCV.NXT ≥ SEG.SEQ + SEG.LEN`: the segment is consumed whatever was parked (the root of the heap is the least,
      so the processing loop cannot stop while it is parked; junk popped before it only moves `RCV.NXT` forward);
    * every segment still parked is one that was parked before (or `σ`) and is STRICTLY AHEAD of the new `RCV.NXT`:
      every contiguous parked segment has been drained in the same call;
    * nothing is lost: the buffer grew by exactly as many bytes as `RCV.NXT` advanced;
    * the endpoint is still ESTABLISHED and the last header on its one-shot queue acknowledges the new `RCV.NXT`.
    (`Full.drain_est`, `Full.arrive_est`; TCB level: `Lemmas/TcpFullEst.lean`.) -/
theorem c01_gap_fill_partial (ia ib : Seq) (ma mb : U16) (simultaneous : Bool) (sys0 s : Sys) (rs : List Res)
    (hma : SPACE_FOR_HEADERS ≤ ma.toNat) (hmb : SPACE_FOR_HEADERS ≤ mb.toNat)
    (h0 : Sys.run {} [.open .A ia ma, if simultaneous then .open .B ib mb else .listen .B ib mb] = .ok (sys0, rs))
    (hrun : PlainRun sys0 s) (h31 : RoomH s) (x : SideId) (t u : Tcb)
    (ht : (s.side x).tcb = some t) (hu : (s.side x.peer).tcb = some u)
    (et : t.state = .Established) (eu : u.state = .Established)
    (hroom : t.incoming.text.length + (u.sent - off (issOf ia ib x.peer) t.rcv.nxt) ≤ 65535)
    (i : Nat) (σ : Segment) (hn : s.nth i = some σ) (hsrc : σ.hdr.srcPort = x.peer.port) (htxt : σ.text ≠ [])
    (hle : off (issOf ia ib x.peer) σ.hdr.seq ≤ off (issOf ia ib x.peer) t.rcv.nxt) :
    ∃ s' t', s.step (.deliver x i) = .ok (s', .arrived .Ok) ∧ (s'.side x).tcb = some t' ∧
      s'.side x.peer = s.side x.peer ∧ t'.state = .Established ∧
      off (issOf ia ib x.peer) σ.hdr.seq + σ.text.length ≤ off (issOf ia ib x.peer) t'.rcv.nxt ∧
      (∀ g ∈ t'.incoming.segments, (g = σ ∨ g ∈ t.incoming.segments) ∧
        off (issOf ia ib x.peer) t'.rcv.nxt < off (issOf ia ib x.peer) g.hdr.seq) ∧
      t'.incoming.text.length + off (issOf ia ib x.peer) t.rcv.nxt =
        t.incoming.text.length + off (issOf ia ib x.peer) t'.rcv.nxt ∧
      (∃ h, t'.outgoing.oneshot.getLast? = some h ∧ h.ack = t'.rcv.nxt) := by
  have hg := good_of_reach ia ib ma mb simultaneous sys0 s rs hma hmb h0 hrun h31
  have hf := finv_of_reach ia ib ma mb simultaneous sys0 s rs hma hmb h0 hrun h31
  have hmem : σ ∈ s.history := nth_mem s i σ hn
  have hval : C01.Valid (issOf ia ib x.peer) (s.side x.peer).submitted σ := hg.conv.c01.hist σ hmem x.peer hsrc
  have hsyn : σ.hdr.ctl.syn = false := by
    cases h : σ.hdr.ctl.syn with
    | false => rfl
    | true => exact absurd (hval.syn h).2 htxt
  obtain ⟨t', e1, er', k', hs', prog'⟩ := deliver_gap hg hf x t u ht hu et eu hroom i σ hn hsrc hsyn
  obtain ⟨p1, p2⟩ := prog' htxt hle
  exact ⟨_, t', e1, by rw [side_setSide_same], by rw [side_setSide_peer], er'.el.st, p1,
    fun g hg' => ⟨hs' g hg', er'.ahead g hg'⟩, k'.bufq, p2⟩

/-! ## (e) the clean-up round -/

/-- **(e) the clean-up round.**  From every reachable state in which both endpoints are ESTABLISHED — receive buffers
    full or not, reorder heaps, queues and timers arbitrary — `fairRound 1` (both timers expire; both sides emit;
    everything emitted is delivered in order; both applications read) succeeds, is a run of plain ops, and ends with
    both endpoints ESTABLISHED, BOTH RECEIVE BUFFERS EMPTY, and no more unsent text than before. -/
theorem c01_cleanup_round_partial (ia ib : Seq) (ma mb : U16) (simultaneous : Bool) (sys0 s : Sys) (rs : List Res)
    (hma : 100 ≤ ma.toNat) (hmb : 100 ≤ mb.toNat)
    (h0 : Sys.run {} [.open .A ia ma, if simultaneous then .open .B ib mb else .listen .B ib mb] = .ok (sys0, rs))
    (hrun : PlainRun sys0 s) (h31 : RoomH s) (ta tb : Tcb) (hta : s.a.tcb = some ta) (htb : s.b.tcb = some tb)
    (ea : ta.state = .Established) (eb : tb.state = .Established) :
    ∃ s' ta' tb', fairRound 1 s = .ok s' ∧ PlainRun s s' ∧ RoomH s' ∧ s'.a.tcb = some ta' ∧ s'.b.tcb = some tb' ∧
      ta'.state = .Established ∧ tb'.state = .Established ∧ ta'.incoming.text = [] ∧ tb'.incoming.text = [] ∧
      ta'.outgoing.text.length ≤ ta.outgoing.text.length ∧ tb'.outgoing.text.length ≤ tb.outgoing.text.length := by
  have h50 : SPACE_FOR_HEADERS = 50 := rfl
  have hg := good_of_reach ia ib ma mb simultaneous sys0 s rs (by omega) (by omega) h0 hrun h31
  have hf := finv_of_reach ia ib ma mb simultaneous sys0 s rs (by omega) (by omega) h0 hrun h31
  have hm : ∀ x, SPACE_FOR_HEADERS < (mtuOf ma mb x).toNat := by
    intro x
    cases x
    · show 50 < ma.toNat; omega
    · show 50 < mb.toNat; omega
  have ua := (c01_established_syn_acked ia ib ma mb simultaneous sys0 s rs (by omega) (by omega) h0 hrun h31 .A ta hta ea).2.1
  have ub := (c01_established_syn_acked ia ib ma mb simultaneous sys0 s rs (by omega) (by omega) h0 hrun h31 .B tb htb eb).2.1
  obtain ⟨s1, ta1, tb1, hf1, hr1, hg1, hc1, la, lb⟩ := cleanup_round s hg hf hm _ _
    ⟨ta, hta, ea, ua, Nat.le_refl _⟩ ⟨tb, htb, eb, ub, Nat.le_refl _⟩
  exact ⟨s1, ta1, tb1, hf1, hr1, hg1.room, hc1.ha, hc1.hb, hc1.a.st, hc1.b.st, hc1.a.buf, hc1.b.buf, la, lb⟩

/-! ## from any reachable state with both endpoints ESTABLISHED -/

/-- **C01 convergence from ANY reachable state in which both endpoints are ESTABLISHED** (`_partial`: everything but
    the handshake after loss, see `C01HandshakeAfterLossStatement`).

    Starting state `s`: any reachable state (file header: any interleaving of writes, reads, ticks, emits and
    deliveries of any history element to its addressee — loss, duplication, reordering, delay —; MTUs ≥ 100; H31) in
    which both TCBs are ESTABLISHED.  NOTHING else is assumed: receive
    buffers may be full, reorder heaps may hold anything that was parked, one-shot and retransmission queues
    anything, any amount of text may be unsent, the timers are anywhere.

    With `n = ⌈max (unsent_A, unsent_B) / 65535⌉` (given as `unsent ≤ 65535 · n`) TWO fair rounds — a clean-up round of
    one phase, `fairRound 1`, then `fairRound (2n + 2)`: `2⌈max unsent / 65535⌉ + 3` exchange phases and four timer
    expiries in all, a bound that depends on the unsent text only (one phase re-sends a whole retransmission queue, at most
    65535 bytes, and drains a whole reorder heap) — end in a `Done` state: `delivered = submitted` in both directions, all queues,
    heaps, buffers and unsent texts empty, `segments()` returns `[]` on both sides, and every further fair round
    ends `Done` again with the history unchanged.

    The clean-up round (`Full.cleanup_round`) is total by `Wf` (`segment_arrives` never panics on a well-formed TCB),
    keeps both sides ESTABLISHED (no RFC 9293 edge leaves ESTABLISHED without RST / FIN) and ends with both
    applications having read: the state is rough, and `c01_converges_rough_partial` applies. -/
theorem c01_converges_established_partial (ia ib : Seq) (ma mb : U16) (simultaneous : Bool) (sys0 s : Sys)
    (rs : List Res) (hma : 100 ≤ ma.toNat) (hmb : 100 ≤ mb.toNat)
    (h0 : Sys.run {} [.open .A ia ma, if simultaneous then .open .B ib mb else .listen .B ib mb] = .ok (sys0, rs))
    (hrun : PlainRun sys0 s) (h31 : RoomH s) (ta tb : Tcb) (hta : s.a.tcb = some ta) (htb : s.b.tcb = some tb)
    (ea : ta.state = .Established) (eb : tb.state = .Established)
    (n : Nat) (wa : ta.outgoing.text.length ≤ 65535 * n) (wb : tb.outgoing.text.length ≤ 65535 * n) :
    ∃ s1 s' ta' tb', fairRound 1 s = .ok s1 ∧ fairRound (2 * n + 2) s1 = .ok s' ∧
      ([1, 2 * n + 2].foldlM (fun st k => fairRound k st) s = .ok s') ∧ PlainRun s s' ∧ Done s' ta' tb' ∧
      s'.b.delivered = s'.a.submitted ∧ s'.a.delivered = s'.b.submitted ∧
      s.a.submitted <+: s'.a.submitted ∧ s.b.submitted <+: s'.b.submitted ∧
      (∀ x, ∃ s2, s'.step (.emit x) = .ok (s2, .emitted s'.historyLen []) ∧ s2.history = s'.history) ∧
      (∀ k, ∃ s'' ta'' tb'', fairRound k s' = .ok s'' ∧ Done s'' ta'' tb'' ∧ s''.historyLen = s'.historyLen ∧
        s''.b.delivered = s''.a.submitted ∧ s''.a.delivered = s''.b.submitted) := by
  have h50 : SPACE_FOR_HEADERS = 50 := rfl
  have hg := good_of_reach ia ib ma mb simultaneous sys0 s rs (by omega) (by omega) h0 hrun h31
  have hf := finv_of_reach ia ib ma mb simultaneous sys0 s rs (by omega) (by omega) h0 hrun h31
  have hm : ∀ x, SPACE_FOR_HEADERS < (mtuOf ma mb x).toNat := by
    intro x
    cases x
    · show 50 < ma.toNat; omega
    · show 50 < mb.toNat; omega
  have ua := (c01_established_syn_acked ia ib ma mb simultaneous sys0 s rs (by omega) (by omega) h0 hrun h31 .A ta hta ea).2.1
  have ub := (c01_established_syn_acked ia ib ma mb simultaneous sys0 s rs (by omega) (by omega) h0 hrun h31 .B tb htb eb).2.1
  obtain ⟨s1, ta1, tb1, hf1, hr1, hg1, hc1, la, lb⟩ := cleanup_round s hg hf hm _ _
    ⟨ta, hta, ea, ua, Nat.le_refl _⟩ ⟨tb, htb, eb, ub, Nat.le_refl _⟩
  have hfi1 : FInv (issOf ia ib) (mtuOf ma mb) s1 := finv_run hg.conv hg.ext hf hr1 hg1.room
  obtain ⟨s', ta', tb', hfr, hr, hg', hd⟩ := fairRound_rough n s1 ta1 tb1 hg1 hfi1 hc1 (by omega) (by omega)
  obtain ⟨d1, d2⟩ := done_stream hg' ta' tb' hd
  have hrr := hr1.trans hr
  refine ⟨s1, s', ta', tb', hf1, hfr, ?_, hrr, hd, d1, d2, hrr.sub .A, hrr.sub .B,
    fun x => done_silent hg' ta' tb' hd x, fun k => ?_⟩
  · simp only [List.foldlM, hf1, hfr, bind, Except.bind, pure, Except.pure]
  · obtain ⟨s'', ta'', tb'', hf', _, hg'', hd', hl⟩ := done_fairRound k s' ta' tb' hg' hd
    obtain ⟨e1, e2⟩ := done_stream hg'' ta'' tb'' hd'
    exact ⟨s'', ta'', tb'', hf', hd', hl, e1, e2⟩

/-- the same with the bound computed from the state: `n = ⌈max (unsent_A, unsent_B) / 65535⌉` -/
theorem c01_converges_established_bound_partial (ia ib : Seq) (ma mb : U16) (simultaneous : Bool) (sys0 s : Sys)
    (rs : List Res) (hma : 100 ≤ ma.toNat) (hmb : 100 ≤ mb.toNat)
    (h0 : Sys.run {} [.open .A ia ma, if simultaneous then .open .B ib mb else .listen .B ib mb] = .ok (sys0, rs))
    (hrun : PlainRun sys0 s) (h31 : RoomH s) (ta tb : Tcb) (hta : s.a.tcb = some ta) (htb : s.b.tcb = some tb)
    (ea : ta.state = .Established) (eb : tb.state = .Established)
    :
    ∃ s' ta' tb',
      ([1, 2 * ((max ta.outgoing.text.length tb.outgoing.text.length + 65534) / 65535) + 2].foldlM
        (fun st k => fairRound k st) s = .ok s') ∧ Done s' ta' tb' ∧
      s'.b.delivered = s'.a.submitted ∧ s'.a.delivered = s'.b.submitted := by
  obtain ⟨_, s', ta', tb', _, _, hfold, _, hd, d1, d2, _⟩ := c01_converges_established_partial ia ib ma mb simultaneous
    sys0 s rs hma hmb h0 hrun h31 ta tb hta htb ea eb
    ((max ta.outgoing.text.length tb.outgoing.text.length + 65534) / 65535) (by omega) (by omega)
  exact ⟨s', ta', tb', hfold, hd, d1, d2⟩

/-- **(f) the handshake after loss** (proved below: `c01_handshake_after_loss`).  From every reachable state some fair
    rounds (SYN / SYN-ACK retransmission: every tick of a fair round flags the SYN on the retransmission queue, the next
    phase re-sends and delivers it) lead — by plain ops, within H31 — to a state in which both endpoints are
    ESTABLISHED. -/
def C01HandshakeAfterLossStatement : Prop :=
  ∀ (ia ib : Seq) (ma mb : U16) (simultaneous : Bool) (sys0 s : Sys) (rs : List Res),
    100 ≤ ma.toNat → 100 ≤ mb.toNat →
    Sys.run {} [.open .A ia ma, if simultaneous then .open .B ib mb else .listen .B ib mb] = .ok (sys0, rs) →
    PlainRun sys0 s → RoomH s →
    ∃ (rounds : List Nat) (s1 : Sys) (ta tb : Tcb),
      (rounds.foldlM (fun st k => fairRound k st) s = .ok s1) ∧ PlainRun s s1 ∧ RoomH s1 ∧
      s1.a.tcb = some ta ∧ s1.b.tcb = some tb ∧ ta.state = .Established ∧ tb.state = .Established

theorem foldlM_fairRound_append (r1 r2 : List Nat) (s s1 : Sys)
    (h1 : r1.foldlM (fun st k => fairRound k st) s = .ok s1) :
    (r1 ++ r2).foldlM (fun st k => fairRound k st) s = r2.foldlM (fun st k => fairRound k st) s1 := by
  rw [List.foldlM_append, h1]
  rfl

/-- **the full statement, modulo (f)**: `C01ConvergesFullStatement` (`Props/C01Converge.lean`: from ANY reachable state
    some fair rounds end `Done`) follows from the handshake after loss alone -/
theorem c01_converges_full_of_handshake (h : C01HandshakeAfterLossStatement) : C01ConvergesFullStatement := by
  intro ia ib ma mb simultaneous sys0 s rs hma hmb h0 hrun h31
  obtain ⟨rounds, s1, ta, tb, hfold, hr1, h31', hta, htb, ea, eb⟩ :=
    h ia ib ma mb simultaneous sys0 s rs hma hmb h0 hrun h31
  obtain ⟨s', ta', tb', hf, hd, _⟩ := c01_converges_established_bound_partial ia ib ma mb simultaneous sys0 s1 rs hma hmb
    h0 (hrun.trans hr1) h31' ta tb hta htb ea eb
  exact ⟨rounds ++ [1, 2 * ((max ta.outgoing.text.length tb.outgoing.text.length + 65534) / 65535) + 2], s', ta', tb',
    by rw [foldlM_fairRound_append _ _ _ _ hfold]; exact hf, hd⟩

/-! ## the handshake after loss, and the full statement -/

/-- all invariants of the development hold in every reachable state -/
theorem all_of_reach (ia ib : Seq) (ma mb : U16) (simultaneous : Bool) (sys0 s : Sys) (rs : List Res)
    (hma : SPACE_FOR_HEADERS ≤ ma.toNat) (hmb : SPACE_FOR_HEADERS ≤ mb.toNat)
    (h0 : Sys.run {} [.open .A ia ma, if simultaneous then .open .B ib mb else .listen .B ib mb] = .ok (sys0, rs))
    (hrun : PlainRun sys0 s) (h31 : RoomH s) : All (issOf ia ib) (mtuOf ma mb) s :=
  have hc := conv_init ia ib ma mb simultaneous sys0 rs h0
  have hx := ext_init ia ib ma mb simultaneous sys0 rs hma hmb h0
  have hf0 := finv_init ia ib ma mb simultaneous sys0 rs h0
  ⟨good_of_reach ia ib ma mb simultaneous sys0 s rs hma hmb h0 hrun h31, finv_run hc hx hf0 hrun h31,
    uinv_run hc hx (uinv_init ia ib ma mb simultaneous sys0 rs h0) hrun h31,
    hsinv_run hc hx hf0 (hsinv_init ia ib ma mb simultaneous sys0 rs h0) hrun h31⟩

/-- **every fair round is defined, from every reachable state**: `fairRound k` never panics, is a run of plain ops (so its
    result is reachable again, within H31: the `submitted` logs do not change), for every `k` -/
theorem c01_fair_round_total (ia ib : Seq) (ma mb : U16) (simultaneous : Bool) (sys0 s : Sys) (rs : List Res)
    (hma : SPACE_FOR_HEADERS ≤ ma.toNat) (hmb : SPACE_FOR_HEADERS ≤ mb.toNat)
    (h0 : Sys.run {} [.open .A ia ma, if simultaneous then .open .B ib mb else .listen .B ib mb] = .ok (sys0, rs))
    (hrun : PlainRun sys0 s) (h31 : RoomH s) (k : Nat) :
    ∃ s', fairRound k s = .ok s' ∧ PlainRun s s' ∧ RoomH s' ∧ s'.a.submitted = s.a.submitted ∧
      s'.b.submitted = s.b.submitted := by
  have a := all_of_reach ia ib ma mb simultaneous sys0 s rs hma hmb h0 hrun h31
  obtain ⟨s', e, p, g, sub⟩ := fairRound_any k s a.good a.f
  exact ⟨s', e, p, g.room, sub .A, sub .B⟩

/-- **(f) the handshake completes after any loss.**  From EVERY reachable state (file header) — TCBs in SYN-SENT,
    SYN-RECEIVED or ESTABLISHED in any reachable combination, the passive side possibly still without TCB, SYNs, SYN-ACKs,
    ACKs and data lost, duplicated or reordered in any way, any reorder heaps — at most `meas s ≤ 13` fair rounds of ONE
    phase each lead to a state in which both endpoints are ESTABLISHED; the rounds are plain runs and do not touch the
    `submitted` logs.  (`Full.handshake_rounds`: the rank none < SYN-SENT < SYN-RECEIVED < ESTABLISHED of a side never
    decreases; in every round the rank of some side increases — the expired timer re-sends the SYN / SYN-ACK that the
    invariants keep on the queue, a SYN-bearing segment moves a listening or SYN-SENT side on, an acceptable ACK-bearing
    segment at `IRS + 1` moves SYN-RECEIVED to ESTABLISHED whatever the reorder heap holds — or, when an ESTABLISHED side has
    nothing at all to send, the peer's retransmitted SYN-ACK makes it queue an ACK, which the next round delivers.) -/
theorem c01_handshake_after_loss : C01HandshakeAfterLossStatement := by
  intro ia ib ma mb simultaneous sys0 s rs hma hmb h0 hrun h31
  have h50 : SPACE_FOR_HEADERS = 50 := rfl
  have a := all_of_reach ia ib ma mb simultaneous sys0 s rs (by omega) (by omega) h0 hrun h31
  have hm : ∀ x, SPACE_FOR_HEADERS < (mtuOf ma mb x).toNat := by
    intro x
    cases x
    · show 50 < ma.toNat; omega
    · show 50 < mb.toNat; omega
  obtain ⟨rounds, s1, hfold, p, a1, h1, h2, sub, _, _⟩ := handshake_rounds hm (meas s) s a (Nat.le_refl _)
  have est : ∀ x, rk s1 x = 3 → ∃ t, (s1.side x).tcb = some t ∧ t.state = .Established := by
    intro x hx
    cases ht : (s1.side x).tcb with
    | none => rw [rk_none ht] at hx; cases hx
    | some t => exact ⟨t, rfl, ((state_of_rk a1.good ht).2.2).1 hx⟩
  obtain ⟨ta, hta, ea⟩ := est .A h1
  obtain ⟨tb, htb, eb⟩ := est .B h2
  exact ⟨rounds, s1, ta, tb, hfold, p, a1.good.room, hta, htb, ea, eb⟩

/-- **C01 convergence from ANY reachable state** — `C01ConvergesFullStatement` of `Props/C01Converge.lean`: from every
    reachable state of the closed system nobody closes (any interleaving of writes, reads, ticks, emits and deliveries
    of any history element to its addressee: loss, duplication, reordering, delay; MTUs ≥ 100; H31) some fair rounds end
    in a `Done` state. -/
theorem c01_converges_full : C01ConvergesFullStatement :=
  c01_converges_full_of_handshake c01_handshake_after_loss

/-- **the same with everything explicit**: from any reachable state `s` there are at most 15 fair rounds — at most 13 of
    one phase for the handshake, the clean-up round of one phase, and one round of `2n + 2` phases,
    `n ≤ ⌈max (|submitted_A|, |submitted_B|) / 65535⌉` — after which: `Done` (all queues, heaps, buffers and unsent texts
    empty, both sides ESTABLISHED and silent), `delivered = submitted` in both directions, the `submitted` logs are those
    of `s`, `segments()` returns `[]` on both sides, and every further fair round ends `Done` again with the history
    unchanged.  In all at most `16 + 2⌈max submitted / 65535⌉` exchange phases. -/
theorem c01_converges_full_bound (ia ib : Seq) (ma mb : U16) (simultaneous : Bool) (sys0 s : Sys) (rs : List Res)
    (hma : 100 ≤ ma.toNat) (hmb : 100 ≤ mb.toNat)
    (h0 : Sys.run {} [.open .A ia ma, if simultaneous then .open .B ib mb else .listen .B ib mb] = .ok (sys0, rs))
    (hrun : PlainRun sys0 s) (h31 : RoomH s) :
    ∃ (rounds : List Nat) (s' : Sys) (ta' tb' : Tcb),
      (rounds.foldlM (fun st k => fairRound k st) s = .ok s') ∧ PlainRun s s' ∧ Done s' ta' tb' ∧
      s'.b.delivered = s'.a.submitted ∧ s'.a.delivered = s'.b.submitted ∧
      s'.a.submitted = s.a.submitted ∧ s'.b.submitted = s.b.submitted ∧
      rounds.length ≤ 15 ∧
      rounds.sum ≤ 16 + 2 * ((max s.a.submitted.length s.b.submitted.length + 65534) / 65535) ∧
      (∀ x, ∃ s2, s'.step (.emit x) = .ok (s2, .emitted s'.historyLen []) ∧ s2.history = s'.history) ∧
      (∀ k, ∃ s'' ta'' tb'', fairRound k s' = .ok s'' ∧ Done s'' ta'' tb'' ∧ s''.historyLen = s'.historyLen ∧
        s''.b.delivered = s''.a.submitted ∧ s''.a.delivered = s''.b.submitted) := by
  have h50 : SPACE_FOR_HEADERS = 50 := rfl
  have a := all_of_reach ia ib ma mb simultaneous sys0 s rs (by omega) (by omega) h0 hrun h31
  have hm : ∀ x, SPACE_FOR_HEADERS < (mtuOf ma mb x).toNat := by
    intro x
    cases x
    · show 50 < ma.toNat; omega
    · show 50 < mb.toNat; omega
  obtain ⟨r1, s1, hfold1, p1, a1, h1, h2, sub1, hl1, hone1⟩ := handshake_rounds hm (meas s) s a (Nat.le_refl _)
  have hmeas : meas s ≤ 13 := by unfold meas; split <;> omega
  have est : ∀ x, rk s1 x = 3 → ∃ t, (s1.side x).tcb = some t ∧ t.state = .Established := by
    intro x hx
    cases ht : (s1.side x).tcb with
    | none => rw [rk_none ht] at hx; cases hx
    | some t => exact ⟨t, rfl, ((state_of_rk a1.good ht).2.2).1 hx⟩
  obtain ⟨ta, hta, ea⟩ := est .A h1
  obtain ⟨tb, htb, eb⟩ := est .B h2
  -- unsent text is part of what was submitted
  have hua : ta.outgoing.text.length ≤ s.a.submitted.length := by
    obtain ⟨pre, hsub, _⟩ := (a1.good.tinv .A ta hta).out
    have : (s1.side .A).submitted = s.a.submitted := sub1 .A
    rw [← this, hsub, List.length_append]; omega
  have hub : tb.outgoing.text.length ≤ s.b.submitted.length := by
    obtain ⟨pre, hsub, _⟩ := (a1.good.tinv .B tb htb).out
    have : (s1.side .B).submitted = s.b.submitted := sub1 .B
    rw [← this, hsub, List.length_append]; omega
  let n := (max s.a.submitted.length s.b.submitted.length + 65534) / 65535
  obtain ⟨s2, s', ta', tb', hf1, hf2, hfold2, p2, hd, d1, d2, _, _, hsil, hstay⟩ :=
    c01_converges_established_partial ia ib ma mb simultaneous sys0 s1 rs hma hmb h0 (hrun.trans p1) a1.good.room ta tb
      hta htb ea eb n (by show _ ≤ 65535 * ((max _ _ + 65534) / 65535); omega)
      (by show _ ≤ 65535 * ((max _ _ + 65534) / 65535); omega)
  -- the convergence rounds do not touch the logs
  obtain ⟨s2', e2', _, g2', sub2⟩ := fairRound_any 1 s1 a1.good a1.f
  rw [hf1] at e2'
  cases e2'
  have a2 : All (issOf ia ib) (mtuOf ma mb) s2 := all_run a1 (by
    obtain ⟨_, e, p, _, _⟩ := fairRound_any 1 s1 a1.good a1.f
    rw [hf1] at e; cases e; exact p) g2'.room
  obtain ⟨s3', e3', _, _, sub3⟩ := fairRound_any (2 * n + 2) s2 a2.good a2.f
  rw [hf2] at e3'
  cases e3'
  refine ⟨r1 ++ [1, 2 * n + 2], s', ta', tb', by rw [foldlM_fairRound_append _ _ _ _ hfold1]; exact hfold2,
    p1.trans p2, hd, d1, d2, ?_, ?_, ?_, ?_, hsil, hstay⟩
  · have := sub3 .A; have := sub2 .A; have := sub1 .A
    show (s'.side .A).submitted = (s.side .A).submitted
    simp_all
  · have := sub3 .B; have := sub2 .B; have := sub1 .B
    show (s'.side .B).submitted = (s.side .B).submitted
    simp_all
  · simp only [List.length_append, List.length_cons, List.length_nil]
    omega
  · have hs1 : ∀ l : List Nat, (∀ k ∈ l, k = 1) → l.sum ≤ l.length := by
      intro l
      induction l with
      | nil => intro _; simp
      | cons x xs ih =>
        intro h
        have hx : x = 1 := h x List.mem_cons_self
        have := ih (fun k hk => h k (List.mem_cons_of_mem _ hk))
        simp only [List.sum_cons, List.length_cons]
        omega
    have := hs1 r1 hone1
    simp only [List.sum_append, List.sum_cons, List.sum_nil]
    omega

/-! ### non-vacuity: receive buffers NOT read, parked segments, lost data, a lost ACK -/

/-- as `roughOps`, but nobody reads: A's receive buffer holds [9, 8] -/
def dirtyOps : List Op :=
  [.emit .A, .deliver .B 0, .emit .B, .deliver .A 1, .emit .A, .deliver .B 2,
   .write .A [1, 2, 3], .emit .A, .write .A [4, 5], .emit .A, .deliver .B 4, .deliver .B 4,
   .write .B [9, 8], .emit .B, .deliver .A 5, .emit .A, .deliver .A 5, .write .A [6]]

def dirtyCheck : Bool :=
  match Sys.run {} [.open .A 1000 1500, .listen .B 5000 1500] with
  | .ok (sys0, _) =>
    match plainRunB sys0 dirtyOps with
    | some s =>
      decide (s.a.submitted.length + 2 < 2147483648) && decide (s.b.submitted.length + 2 < 2147483648) &&
      (match s.a.tcb, s.b.tcb with
        | some ta, some tb => ta.state == .Established && tb.state == .Established &&
            ta.snd.una != ta.snd.iss && tb.snd.una != tb.snd.iss &&
            ta.incoming.text == [9, 8] && tb.incoming.segments.length == 2 &&
            ta.outgoing.text == [6] && tb.outgoing.text == [] && s.b.delivered == [] && s.a.delivered == []
        | _, _ => false) &&
      (match [1, 4].foldlM (fun st k => fairRound k st) s with
        | .ok s' => s'.b.delivered == [1, 2, 3, 4, 5, 6] && s'.a.delivered == [9, 8]
        | .error _ => false)
    | none => false
  | .error _ => false

/-- the hypotheses of `c01_converges_established_partial` hold in that reachable state (`n = 1`) — A's receive buffer is
    not empty, two segments are parked in B's reorder heap —, and the two rounds it promises, evaluated, complete
    both streams -/
example : ∃ sys0 s : Sys, ∃ rs, ∃ ta tb : Tcb,
    Sys.run {} [.open .A 1000 1500, if false then .open .B 5000 1500 else .listen .B 5000 1500] = .ok (sys0, rs) ∧
    PlainRun sys0 s ∧ RoomH s ∧ s.a.tcb = some ta ∧ s.b.tcb = some tb ∧
    ta.state = .Established ∧ tb.state = .Established ∧ ta.snd.una ≠ ta.snd.iss ∧ tb.snd.una ≠ tb.snd.iss ∧
    ta.incoming.text = [9, 8] ∧ tb.incoming.segments.length = 2 ∧ s.b.delivered = [] ∧ s.a.delivered = [] ∧
    ta.outgoing.text.length ≤ 65535 * 1 ∧ tb.outgoing.text.length ≤ 65535 * 1 ∧
    ∃ s', [1, 2 * 1 + 2].foldlM (fun st k => fairRound k st) s = .ok s' ∧
      s'.b.delivered = [1, 2, 3, 4, 5, 6] ∧ s'.a.delivered = [9, 8] := by
  have key : dirtyCheck = true := by decide
  unfold dirtyCheck at key
  split at key
  · rename_i sys0 rs e0
    split at key
    · rename_i s e1
      simp only [Bool.and_eq_true, decide_eq_true_eq] at key
      obtain ⟨⟨⟨r1, r2⟩, k1⟩, k2⟩ := key
      split at k1
      · rename_i ta tb hta htb
        simp only [Bool.and_eq_true, beq_iff_eq, bne_iff_ne, ne_eq] at k1
        obtain ⟨⟨⟨⟨⟨⟨⟨⟨⟨x1, x2⟩, x3⟩, x4⟩, x5⟩, x6⟩, x7⟩, x8⟩, x9⟩, x10⟩ := k1
        split at k2
        · rename_i s' e2
          simp only [Bool.and_eq_true, beq_iff_eq] at k2
          exact ⟨sys0, s, rs, ta, tb, e0, plainRunB_sound _ _ _ e1, ⟨r1, r2⟩, hta, htb, x1, x2, x3, x4, x5, x6, x9, x10,
            by rw [x7]; decide, by rw [x8]; decide, s', e2, k2.1, k2.2⟩
        · simp at k2
      · simp at k1
    · simp at key
  · simp at key

/-! ### non-vacuity of (c) and (e) -/

/-- handshake; A's [1,2,3] (history element 3) is NOT delivered; A's [4,5] (element 4) is delivered to B twice: two copies
    are parked behind the gap -/
def gapOps : List Op :=
  [.emit .A, .deliver .B 0, .emit .B, .deliver .A 1, .emit .A, .deliver .B 2,
   .write .A [1, 2, 3], .emit .A, .write .A [4, 5], .emit .A, .deliver .B 4, .deliver .B 4]

def gapCheck : Bool :=
  match Sys.run {} [.open .A 1000 1500, .listen .B 5000 1500] with
  | .ok (sys0, _) =>
    match plainRunB sys0 gapOps with
    | some s =>
      decide (s.a.submitted.length + 2 < 2147483648) && decide (s.b.submitted.length + 2 < 2147483648) &&
      (match s.a.tcb, s.b.tcb, s.nth 3 with
        | some ta, some tb, some σ => ta.state == .Established && tb.state == .Established &&
            decide (tb.incoming.text.length + (ta.sent - off 1000 tb.rcv.nxt) ≤ 65535) &&
            σ.hdr.srcPort == SideId.A.port && σ.text == [1, 2, 3] &&
            decide (off 1000 σ.hdr.seq ≤ off 1000 tb.rcv.nxt) && tb.incoming.segments.length == 2 &&
            decide (off 1000 tb.rcv.nxt = 1)
        | _, _, _ => false) &&
      (match s.step (.deliver .B 3) with
        | .ok (s', _) =>
          (match s'.b.tcb with
            | some tb' => tb'.incoming.segments.isEmpty && decide (off 1000 tb'.rcv.nxt = 6) &&
                tb'.incoming.text == [1, 2, 3, 4, 5]
            | none => false)
        | .error _ => false)
    | none => false
  | .error _ => false

/-- the hypotheses of `c01_gap_fill_partial` hold in that reachable state for `x = B`, `i = 3` (the lost segment [1,2,3]):
    two segments are parked, `RCV.NXT − ISS_A = 1`; the delivery, evaluated, moves `RCV.NXT − ISS_A` to 6, empties the
    heap and leaves [1,2,3,4,5] in the buffer -/
example : ∃ sys0 s : Sys, ∃ rs, ∃ ta tb : Tcb, ∃ σ : Segment,
    Sys.run {} [.open .A 1000 1500, if false then .open .B 5000 1500 else .listen .B 5000 1500] = .ok (sys0, rs) ∧
    PlainRun sys0 s ∧ RoomH s ∧ (s.side .B).tcb = some tb ∧ (s.side SideId.B.peer).tcb = some ta ∧
    tb.state = .Established ∧ ta.state = .Established ∧
    tb.incoming.text.length + (ta.sent - off (issOf 1000 5000 SideId.B.peer) tb.rcv.nxt) ≤ 65535 ∧
    s.nth 3 = some σ ∧ σ.hdr.srcPort = SideId.B.peer.port ∧ σ.text ≠ [] ∧
    off (issOf 1000 5000 SideId.B.peer) σ.hdr.seq ≤ off (issOf 1000 5000 SideId.B.peer) tb.rcv.nxt ∧
    tb.incoming.segments.length = 2 ∧
    ∃ s' tb', s.step (.deliver .B 3) = .ok (s', .arrived .Ok) ∧ s'.b.tcb = some tb' ∧ tb'.incoming.segments = [] ∧
      off 1000 tb'.rcv.nxt = 6 ∧ tb'.incoming.text = [1, 2, 3, 4, 5] := by
  have key : gapCheck = true := by decide
  unfold gapCheck at key
  split at key
  · rename_i sys0 rs e0
    split at key
    · rename_i s e1
      simp only [Bool.and_eq_true, decide_eq_true_eq] at key
      obtain ⟨⟨⟨r1, r2⟩, k1⟩, k2⟩ := key
      split at k1
      · rename_i ta tb σ hta htb hσ
        simp only [Bool.and_eq_true, beq_iff_eq, decide_eq_true_eq] at k1
        obtain ⟨⟨⟨⟨⟨⟨⟨x1, x2⟩, x3⟩, x4⟩, x5⟩, x6⟩, x7⟩, x8⟩ := k1
        split at k2
        · rename_i s' r' e2
          split at k2
          · rename_i tb' htb'
            simp only [Bool.and_eq_true, beq_iff_eq, decide_eq_true_eq, List.isEmpty_iff] at k2
            have hr : r' = .arrived .Ok := by
              have hg := good_of_reach 1000 5000 1500 1500 false sys0 s rs (by decide) (by decide) e0
                (plainRunB_sound _ _ _ e1) ⟨r1, r2⟩
              have hf := finv_of_reach 1000 5000 1500 1500 false sys0 s rs (by decide) (by decide) e0
                (plainRunB_sound _ _ _ e1) ⟨r1, r2⟩
              have hsyn : σ.hdr.ctl.syn = false := by
                cases h : σ.hdr.ctl.syn with
                | false => rfl
                | true =>
                  have hv : C01.Valid (issOf 1000 5000 SideId.B.peer) (s.side SideId.B.peer).submitted σ :=
                    hg.conv.c01.hist σ (nth_mem s 3 σ hσ) SideId.B.peer x4
                  have := (hv.syn h).2
                  rw [x5] at this; cases this
              obtain ⟨ty', e3, _⟩ := deliver_gap hg hf .B tb ta htb hta x2 x1 x3 3 σ hσ x4 hsyn
              rw [e2] at e3
              cases e3
              rfl
            subst hr
            exact ⟨sys0, s, rs, ta, tb, σ, e0, plainRunB_sound _ _ _ e1, ⟨r1, r2⟩, htb, hta, x2, x1, x3, hσ, x4,
              by rw [x5]; simp, x6, x7, s', tb', e2, htb', k2.1.1, k2.1.2, k2.2⟩
          · simp at k2
        · simp at k2
      · simp at k1
    · simp at key
  · simp at key

/-- `c01_cleanup_round_partial` on the state of `dirtyOps` (A's receive buffer holds [9, 8], two segments are parked in
    B's heap): the round, evaluated, leaves both buffers empty and both sides ESTABLISHED -/
def cleanCheck : Bool :=
  match Sys.run {} [.open .A 1000 1500, .listen .B 5000 1500] with
  | .ok (sys0, _) =>
    match plainRunB sys0 dirtyOps with
    | some s =>
      (match s.a.tcb with
        | some ta => ta.incoming.text == [9, 8]
        | none => false) &&
      (match fairRound 1 s with
        | .ok s' =>
          (match s'.a.tcb, s'.b.tcb with
            | some ta', some tb' => ta'.incoming.text.isEmpty && tb'.incoming.text.isEmpty &&
                ta'.state == .Established && tb'.state == .Established && s'.a.delivered == [9, 8]
            | _, _ => false)
        | .error _ => false)
    | none => false
  | .error _ => false

example : cleanCheck = true := by decide

/-! ### non-vacuity of the full statement: states before ESTABLISHED, after loss -/

def runRounds (s : Sys) : List Nat → Except String Sys
  | [] => .ok s
  | k :: ks =>
    match fairRound k s with
    | .ok s' => runRounds s' ks
    | .error e => .error e

def quietB (s : Sys) : Bool :=
  match s.a.tcb, s.b.tcb with
  | some ta, some tb => ta.state == .Established && tb.state == .Established &&
      ta.outgoing.retransmit.isEmpty && tb.outgoing.retransmit.isEmpty && ta.outgoing.text.isEmpty &&
      tb.outgoing.text.isEmpty && ta.outgoing.oneshot.isEmpty && tb.outgoing.oneshot.isEmpty &&
      ta.incoming.segments.isEmpty && tb.incoming.segments.isEmpty
  | _, _ => false

/-- (1) the SYN is lost (emitted, never delivered) and A's application has written [1,2,3]: A is in SYN-SENT, B has no TCB;
    (2) passive open, the third segment of the handshake (A's ACK) is lost, A is idle, B has written [7]: A ESTABLISHED,
    B in SYN-RECEIVED; (3) simultaneous open, both crossing SYNs lost, data written on both sides: SYN-SENT / SYN-SENT -/
def hsCheck : Bool :=
  (match Sys.run {} [.open .A 1000 1500, .listen .B 5000 1500] with
    | .ok (sys0, _) =>
      (match plainRunB sys0 [.emit .A, .write .A [1, 2, 3]] with
        | some s => s.b.tcb.isNone && decide (meas s = 11) &&
            (match runRounds s [1, 1, 1, 1, 4] with
              | .ok s' => quietB s' && s'.b.delivered == [1, 2, 3]
              | .error _ => false)
        | none => false) &&
      (match plainRunB sys0 [.emit .A, .deliver .B 0, .emit .B, .deliver .A 1, .emit .A, .write .B [7]] with
        | some s => decide (rk s .A = 3) && decide (rk s .B = 2) &&
            (match runRounds s [1, 1, 1, 4] with
              | .ok s' => quietB s' && s'.a.delivered == [7]
              | .error _ => false)
        | none => false)
    | .error _ => false) &&
  (match Sys.run {} [.open .A 1000 1500, .open .B 5000 1500] with
    | .ok (sys0, _) =>
      (match plainRunB sys0 [.emit .A, .emit .B, .write .A [1], .write .B [2]] with
        | some s => decide (rk s .A = 1) && decide (rk s .B = 1) &&
            (match runRounds s [1, 1, 1, 1, 4] with
              | .ok s' => quietB s' && s'.b.delivered == [1] && s'.a.delivered == [2]
              | .error _ => false)
        | none => false)
    | .error _ => false)

/-- in these three reachable pre-ESTABLISHED states rounds as `c01_converges_full_bound` promises them (handshake rounds of
    one phase, the clean-up round, one round of `2·1 + 2` phases) end with both sides ESTABLISHED, everything empty and the
    streams complete -/
example : hsCheck = true := by decide

end Elvis.Tcp
