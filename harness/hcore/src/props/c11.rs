//! C11: correspondence + oracle runs (sub-commands `c11` / `c11-*`).
use hcommon::*;

pub fn run(args: &Args) {
    eprintln!("hcore: {} not implemented yet", args.prop);
    std::process::exit(2);
}
