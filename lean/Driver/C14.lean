import Driver.Common
import Driver.C08
/-! Line-protocol handlers for C14 (sub-commands `c14` / `c14-*`). -/
namespace Driver.C14

/-- decoder totality for IPv4 / UDP / TCP (`c14-ipv4`, `c14-udp`, `c14-tcp`): the decode ops of
    `Driver/C08.lean` on the malformed stream -/
def dispatchCodecA (sub : String) (i o : IO.FS.Stream) : Option (IO Unit) :=
  if sub == "c14-ipv4" || sub == "c14-udp" || sub == "c14-tcp" then
    some (Driver.loop i o Driver.C08.step false)
  else none

def dispatch (sub : String) (i o : IO.FS.Stream) : Option (IO Unit) :=
  dispatchCodecA sub i o

end Driver.C14
