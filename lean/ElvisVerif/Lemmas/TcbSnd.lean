import ElvisVerif.Lemmas.TcbSeq
import ElvisVerif.Lemmas.TcbClose
/-!
# Everything an endpoint queues for (re)transmission lies below its SND.NXT

The send half of C03's synchronisation clause.  `SndBelow s`: at least the SYN has been
numbered, and every entry of the retransmission queue occupies sequence numbers below
`SND.NXT` only (a SYN sits at ISS).  Segment processing never touches ISS / SND.NXT and adds only
a SYN,ACK at ISS (`SndKeep`); `segments()` and `close()` advance SND.NXT by exactly what they
append (`SndGrow`), provided fewer than 2^31 sequence numbers are used (`Room`).
-/
namespace Elvis.Tcp
open Elvis.ModCmp
namespace Tcb

/-- sequence numbers consumed so far -/
def sent (s : Tcb) : Nat := off s.snd.iss s.snd.nxt

structure SndBelow (s : Tcb) : Prop where
  pos : 1 ≤ s.sent
  queue : ∀ t ∈ s.outgoing.retransmit, SegBelow s.snd.iss s.sent t.segment
  /-- headers waiting on the one-shot queue carry neither SYN nor FIN -/
  plain : ∀ h ∈ s.outgoing.oneshot, h.ctl.syn = false ∧ h.ctl.fin = false
  /-- everything queued carries our ports -/
  qports : ∀ t ∈ s.outgoing.retransmit, t.segment.hdr.srcPort = s.localPort ∧ t.segment.hdr.dstPort = s.remotePort
  oports : ∀ h ∈ s.outgoing.oneshot, h.srcPort = s.localPort ∧ h.dstPort = s.remotePort

/-- room for all queued text and a FIN below 2^31 sequence numbers -/
def Room (s : Tcb) : Prop := s.sent + s.outgoing.text.length + 1 < 2147483648

/-- `SndBelow` reads ISS, SND.NXT and the retransmission queue only -/
theorem SndBelow.congr {s s' : Tcb} (h : SndBelow s) (h1 : s'.snd.iss = s.snd.iss)
    (h2 : s'.snd.nxt = s.snd.nxt) (h3 : ∀ t ∈ s'.outgoing.retransmit, t ∈ s.outgoing.retransmit)
    (h4 : ∀ x ∈ s'.outgoing.oneshot, x ∈ s.outgoing.oneshot)
    (h5 : s'.localPort = s.localPort) (h6 : s'.remotePort = s.remotePort) :
    SndBelow s' := by
  have hs : s'.sent = s.sent := by unfold sent; rw [h1, h2]
  exact ⟨by rw [hs]; exact h.pos, fun t ht => by rw [hs, h1]; exact h.queue t (h3 t ht),
    fun x hx => h.plain x (h4 x hx), fun t ht => by rw [h5, h6]; exact h.qports t (h3 t ht),
    fun x hx => by rw [h5, h6]; exact h.oports x (h4 x hx)⟩

/-- ISS and SND.NXT untouched, the invariant carried over -/
structure SndKeep (s s' : Tcb) : Prop where
  iss : s'.snd.iss = s.snd.iss
  nxt : s'.snd.nxt = s.snd.nxt
  text : s'.outgoing.text = s.outgoing.text
  below : SndBelow s → SndBelow s'
  lp : s'.localPort = s.localPort
  rp : s'.remotePort = s.remotePort

theorem SndKeep.refl (s : Tcb) : SndKeep s s := ⟨rfl, rfl, rfl, id, rfl, rfl⟩

theorem SndKeep.trans {a b c : Tcb} (h1 : SndKeep a b) (h2 : SndKeep b c) : SndKeep a c :=
  ⟨h2.iss.trans h1.iss, h2.nxt.trans h1.nxt, h2.text.trans h1.text, fun h => h2.below (h1.below h),
    h2.lp.trans h1.lp, h2.rp.trans h1.rp⟩

/-- fields `SndBelow` reads are literally the same -/
theorem SndKeep.of_eq {s s' : Tcb} (h1 : s'.snd.iss = s.snd.iss) (h2 : s'.snd.nxt = s.snd.nxt)
    (h3 : s'.outgoing.retransmit = s.outgoing.retransmit) (h4 : s'.outgoing.text = s.outgoing.text)
    (h5 : s'.outgoing.oneshot = s.outgoing.oneshot)
    (h6 : s'.localPort = s.localPort) (h7 : s'.remotePort = s.remotePort) :
    SndKeep s s' :=
  ⟨h1, h2, h4, fun h => h.congr h1 h2 (fun t ht => by rw [h3] at ht; exact ht)
    (fun x hx => by rw [h5] at hx; exact hx) h6 h7, h6, h7⟩

/-- a header without SYN and FIN goes to the one-shot queue -/
theorem sndKeep_enqueue_plain (s : Tcb) (hd : Hdr) (hs : hd.ctl.syn = false) (hf : hd.ctl.fin = false)
    (hp : hd.srcPort = s.localPort ∧ hd.dstPort = s.remotePort) :
    SndKeep s (s.enqueueBuilt hd) := by
  unfold enqueueBuilt
  rw [if_neg (by simp [hs, hf])]
  refine ⟨rfl, rfl, rfl, fun h => ⟨h.pos, h.queue, fun x hx => ?_, h.qports, fun x hx => ?_⟩, rfl, rfl⟩
  · simp only [List.mem_append, List.mem_singleton] at hx
    rcases hx with hx | rfl
    · exact h.plain x hx
    · exact ⟨hs, hf⟩
  · simp only [List.mem_append, List.mem_singleton] at hx
    rcases hx with hx | rfl
    · exact h.oports x hx
    · exact hp

/-- a SYN (no FIN) at ISS joins the retransmission queue below SND.NXT -/
theorem sndKeep_enqueue_syn (s : Tcb) (hd : Hdr) (hs : hd.ctl.syn = true) (hf : hd.ctl.fin = false)
    (hseq : hd.seq = s.snd.iss) (hp : hd.srcPort = s.localPort ∧ hd.dstPort = s.remotePort) :
    SndKeep s (s.enqueueBuilt hd) := by
  unfold enqueueBuilt
  rw [if_pos (by simp [hs])]
  refine ⟨rfl, rfl, rfl, fun h => ⟨h.pos, fun t ht => ?_, h.plain, fun t ht => ?_, h.oports⟩, rfl, rfl⟩
  rotate_left
  · simp only [List.mem_append, List.mem_singleton] at ht
    rcases ht with ht | rfl
    · exact h.qports t ht
    · exact hp
  simp only [List.mem_append, List.mem_singleton] at ht
  rcases ht with ht | rfl
  · exact h.queue t ht
  · refine ⟨fun _ => hseq, fun _ => ?_⟩
    have : (Transmit.new ⟨hd, []⟩).segment.segLen = 1 := by
      simp [Transmit.new, Segment.segLen, hs, hf]
    rw [this]
    have h0 : off s.snd.iss (Transmit.new ⟨hd, []⟩).segment.hdr.seq = 0 := by
      simp only [Transmit.new]; rw [hseq]; exact off_self _
    rw [h0]
    exact h.pos

/-- a state that differs from `s` in fields `SndBelow` does not read, then a plain header -/
theorem sndKeep_then_plain {s t : Tcb} (h1 : t.snd.iss = s.snd.iss) (h2 : t.snd.nxt = s.snd.nxt)
    (h3 : t.outgoing.retransmit = s.outgoing.retransmit) (h4 : t.outgoing.text = s.outgoing.text)
    (h5 : t.outgoing.oneshot = s.outgoing.oneshot)
    (h6 : t.localPort = s.localPort) (h7 : t.remotePort = s.remotePort)
    (hd : Hdr) (hs : hd.ctl.syn = false) (hf : hd.ctl.fin = false)
    (hp : hd.srcPort = t.localPort ∧ hd.dstPort = t.remotePort) : SndKeep s (t.enqueueBuilt hd) :=
  (SndKeep.of_eq h1 h2 h3 h4 h5 h6 h7).trans (sndKeep_enqueue_plain t hd hs hf hp)

theorem sndKeep_then_syn {s t : Tcb} (h1 : t.snd.iss = s.snd.iss) (h2 : t.snd.nxt = s.snd.nxt)
    (h3 : t.outgoing.retransmit = s.outgoing.retransmit) (h4 : t.outgoing.text = s.outgoing.text)
    (h5 : t.outgoing.oneshot = s.outgoing.oneshot)
    (h6 : t.localPort = s.localPort) (h7 : t.remotePort = s.remotePort)
    (hd : Hdr) (hs : hd.ctl.syn = true) (hf : hd.ctl.fin = false) (hseq : hd.seq = t.snd.iss)
    (hp : hd.srcPort = t.localPort ∧ hd.dstPort = t.remotePort) :
    SndKeep s (t.enqueueBuilt hd) :=
  (SndKeep.of_eq h1 h2 h3 h4 h5 h6 h7).trans (sndKeep_enqueue_syn t hd hs hf hseq hp)

/-- carry over along a state that differs in fields `SndBelow` does not read -/
theorem SndKeep.of_eq_left {s t u : Tcb} (h1 : t.snd.iss = s.snd.iss) (h2 : t.snd.nxt = s.snd.nxt)
    (h3 : t.outgoing.retransmit = s.outgoing.retransmit) (h4 : t.outgoing.text = s.outgoing.text)
    (h5 : t.outgoing.oneshot = s.outgoing.oneshot)
    (h6 : t.localPort = s.localPort) (h7 : t.remotePort = s.remotePort)
    (h : SndKeep t u) : SndKeep s u := (SndKeep.of_eq h1 h2 h3 h4 h5 h6 h7).trans h

theorem sndKeep_removeAcked (s : Tcb) (una : Seq) : SndKeep s (s.removeAckedFromRetransmission una) :=
  ⟨rfl, rfl, rfl, fun h => h.congr rfl rfl (fun t ht => (List.mem_filter.1 ht).1) (fun _ hx => hx) rfl rfl, rfl, rfl⟩

/-! ## the blocks of `process_segment` -/

theorem ackHdr_plain (s : Tcb) : s.ackHdr.built.ctl.syn = false ∧ s.ackHdr.built.ctl.fin = false :=
  ⟨rfl, rfl⟩

theorem rstForAck_plain (s : Tcb) (seg : Hdr) :
    (s.rstForAck seg).built.ctl.syn = false ∧ (s.rstForAck seg).built.ctl.fin = false := ⟨rfl, rfl⟩

theorem seqCheck_snd (s : Tcb) (seg : Hdr) (tl : Seq) (s' : Tcb) (r : Option ProcessSegmentResult)
    (e : seqCheck s seg tl = .ok (s', r)) : SndKeep s s' := by
  unfold seqCheck at e
  split at e
  · cases e; exact SndKeep.refl _
  · split at e
    · simp at e
    · cases e; exact SndKeep.refl _
    · rw [enqueueThen_eq] at e
      cases e
      exact sndKeep_enqueue_plain _ _ rfl rfl ⟨rfl, rfl⟩

theorem ackEstablished_snd (s : Tcb) (seg : Hdr) :
    ∃ s' r, s.ackEstablishedProcessing seg = .ok (s', r) ∧ SndKeep s s' := by
  unfold ackEstablishedProcessing
  split
  · exact ⟨_, _, rfl, SndKeep.refl _⟩
  · split
    · rw [enqueue_eq]
      exact ⟨_, _, rfl, sndKeep_enqueue_plain _ _ rfl rfl ⟨rfl, rfl⟩⟩
    · dsimp only
      have base : SndKeep s (({ s with snd.una := seg.ack } : Tcb).removeAckedFromRetransmission seg.ack) :=
        SndKeep.of_eq_left (t := { s with snd.una := seg.ack }) rfl rfl rfl rfl rfl rfl rfl (sndKeep_removeAcked _ _)
      split
      · exact ⟨_, _, rfl, base.trans (SndKeep.of_eq rfl rfl rfl rfl rfl rfl rfl)⟩
      · exact ⟨_, _, rfl, base⟩

theorem afterAck_snd (t : Tcb) (seg : Hdr) (k : Tcb → ProcessSegmentResult → B) (P : B → Prop)
    (h : ∀ s1 r1, SndKeep t s1 → P (k s1 r1)) : P (afterAckEstablished (t.ackEstablishedProcessing seg) k) := by
  obtain ⟨s1, r1, h1, hs1⟩ := ackEstablished_snd t seg
  unfold afterAckEstablished
  rw [h1]
  exact h s1 r1 hs1

theorem ackBlock_snd (s : Tcb) (seg : Hdr) : ∃ s' r, ackBlock s seg = .ok (s', r) ∧ SndKeep s s' := by
  unfold ackBlock
  split
  · exact ⟨_, _, rfl, SndKeep.refl _⟩
  · split
    · -- SYN-SENT
      split
      · split
        · exact ⟨_, _, rfl, SndKeep.refl _⟩
        · simp only [enqueueThen_eq]
          exact ⟨_, _, rfl, sndKeep_enqueue_plain _ _ rfl rfl ⟨rfl, rfl⟩⟩
      · split
        · split
          · exact ⟨_, _, rfl, SndKeep.of_eq_left (t := { s with snd.una := seg.ack }) rfl rfl rfl rfl rfl rfl rfl
              (sndKeep_removeAcked _ _)⟩
          · exact ⟨_, _, rfl, SndKeep.refl _⟩
        · simp only [enqueueThen_eq]
          exact ⟨_, _, rfl, sndKeep_enqueue_plain _ _ rfl rfl ⟨rfl, rfl⟩⟩
    · -- SYN-RECEIVED
      split
      · dsimp only
        refine afterAck_snd _ seg _ (fun x => ∃ s' r, x = .ok (s', r) ∧ SndKeep s s') ?_
        intro s1 r1 hs1
        have hp : SndKeep s s1 := by refine SndKeep.of_eq_left ?_ ?_ ?_ ?_ ?_ ?_ ?_ hs1 <;> rfl
        split <;> exact ⟨_, _, rfl, hp⟩
      · simp only [enqueueThen_eq]
        exact ⟨_, _, rfl, sndKeep_enqueue_plain _ _ rfl rfl ⟨rfl, rfl⟩⟩
    iterate 3
      · refine afterAck_snd _ seg _ (fun x => ∃ s' r, x = .ok (s', r) ∧ SndKeep s s') ?_
        intro s1 r1 hs1
        split <;> exact ⟨_, _, rfl, hs1⟩
    iterate 2
      · refine afterAck_snd _ seg _ (fun x => ∃ s' r, x = .ok (s', r) ∧ SndKeep s s') ?_
        intro s1 r1 hs1
        dsimp only
        split <;> split <;> exact ⟨_, _, rfl, hs1.trans (SndKeep.of_eq rfl rfl rfl rfl rfl rfl rfl)⟩
    · refine afterAck_snd _ seg _ (fun x => ∃ s' r, x = .ok (s', r) ∧ SndKeep s s') ?_
      intro s1 r1 hs1
      split
      · exact ⟨_, _, rfl, hs1⟩
      · split <;> exact ⟨_, _, rfl, hs1⟩
    · exact ⟨_, _, rfl, SndKeep.refl _⟩

theorem synBlock_snd (s : Tcb) (seg : Hdr) : ∃ s' r, synBlock s seg = .ok (s', r) ∧ SndKeep s s' := by
  unfold synBlock
  split
  · split <;> exact ⟨_, _, rfl, SndKeep.refl _⟩
  · split
    · dsimp only
      split
      · simp only [enqueueThen_eq]
        exact ⟨_, _, rfl, by refine sndKeep_then_plain ?_ ?_ ?_ ?_ ?_ ?_ ?_ _ ?_ ?_ ⟨?_, ?_⟩ <;> rfl⟩
      · simp only [enqueueThen_eq]
        exact ⟨_, _, rfl, by refine sndKeep_then_syn ?_ ?_ ?_ ?_ ?_ ?_ ?_ _ ?_ ?_ ?_ ⟨?_, ?_⟩ <;> rfl⟩
    · simp only [enqueueThen_eq]
      exact ⟨_, _, rfl, sndKeep_enqueue_plain _ _ rfl rfl ⟨rfl, rfl⟩⟩

theorem textBlock_snd (s : Tcb) (seg : Hdr) (text : List UInt8) (tl : Seq) (s' : Tcb)
    (r : Option ProcessSegmentResult) (e : textBlock s seg text tl = .ok (s', r)) : SndKeep s s' := by
  unfold textBlock at e
  split at e
  · cases e; exact SndKeep.refl _
  · split at e
    all_goals first
      | (cases e; exact SndKeep.refl _)
      | (dsimp only at e
         repeat' (split at e)
         all_goals first
           | (simp at e; done)
           | (rw [enqueueThen_eq] at e
              cases e
              refine sndKeep_then_plain ?_ ?_ ?_ ?_ ?_ ?_ ?_ _ ?_ ?_ ⟨?_, ?_⟩ <;> rfl))

theorem finBlock_snd (s : Tcb) (seg : Hdr) (tl : Seq) (s' : Tcb) (r : Option ProcessSegmentResult)
    (e : finBlock s seg tl = .ok (s', r)) : SndKeep s s' := by
  unfold finBlock at e
  split at e
  · cases e; exact SndKeep.refl _
  · dsimp only at e
    have key : ∀ s1, (if s.state ≠ .SynSent then
          if (decide (s.rcv.nxt = seg.seq + tl) || decide (s.rcv.nxt = seg.seq + tl + 1)) = true then
            ({ s with rcv.nxt := seg.seq + tl + 1 } : Tcb).enqueue
              ({ s with rcv.nxt := seg.seq + tl + 1 } : Tcb).ackHdr
          else Except.ok s
        else Except.ok s) = .ok s1 → SndKeep s s1 := by
      intro s1 h1
      split at h1
      · split at h1
        · rw [enqueue_eq] at h1
          cases h1
          refine sndKeep_then_plain ?_ ?_ ?_ ?_ ?_ ?_ ?_ _ ?_ ?_ ⟨?_, ?_⟩ <;> rfl
        · cases h1; exact SndKeep.refl _
      · cases h1; exact SndKeep.refl _
    split at e
    · simp at e
    · rename_i s1 h1
      have k := key s1 h1
      split at e
      all_goals first
        | (cases e; exact k)
        | (cases e; exact k.trans (SndKeep.of_eq rfl rfl rfl rfl rfl rfl rfl))
        | (split at e <;> (cases e; exact k.trans (SndKeep.of_eq rfl rfl rfl rfl rfl rfl rfl)))

theorem processSegment_snd (s : Tcb) (segment : Segment) (s' : Tcb) (r : ProcessSegmentResult)
    (e : s.processSegment segment = .ok (s', r)) : SndKeep s s' := by
  unfold processSegment at e
  dsimp only at e
  cases h1 : seqCheck s segment.hdr (BitVec.ofNat 32 segment.text.length) with
  | error err => rw [h1] at e; simp [B.andThen] at e
  | ok p1 =>
    obtain ⟨s1, r1⟩ := p1
    have k1 := seqCheck_snd _ _ _ _ _ h1
    rw [h1] at e
    cases r1 with
    | some x => simp only [andThen_some] at e; cases e; exact k1
    | none =>
      simp only [andThen_none] at e
      obtain ⟨s2, r2, e2, k2⟩ := ackBlock_snd s1 segment.hdr
      rw [e2] at e
      cases r2 with
      | some x => simp only [andThen_some] at e; cases e; exact k1.trans k2
      | none =>
        simp only [andThen_none] at e
        obtain ⟨r3, e3⟩ := rstBlock_spec s2 segment.hdr
        rw [e3] at e
        cases r3 with
        | some x => simp only [andThen_some] at e; cases e; exact k1.trans k2
        | none =>
          simp only [andThen_none] at e
          obtain ⟨s4, r4, e4, k4⟩ := synBlock_snd s2 segment.hdr
          rw [e4] at e
          cases r4 with
          | some x => simp only [andThen_some] at e; cases e; exact (k1.trans k2).trans k4
          | none =>
            simp only [andThen_none] at e
            cases h5 : textBlock s4 segment.hdr segment.text (BitVec.ofNat 32 segment.text.length) with
            | error err => rw [h5] at e; simp [B.andThen] at e
            | ok p5 =>
              obtain ⟨s5, r5⟩ := p5
              have k5 := textBlock_snd _ _ _ _ _ _ h5
              rw [h5] at e
              cases r5 with
              | some x => simp only [andThen_some] at e; cases e; exact ((k1.trans k2).trans k4).trans k5
              | none =>
                simp only [andThen_none] at e
                cases h6 : finBlock s5 segment.hdr (BitVec.ofNat 32 segment.text.length) with
                | error err => rw [h6] at e; simp at e
                | ok p6 =>
                  obtain ⟨s6, r6⟩ := p6
                  have k6 := finBlock_snd _ _ _ _ _ h6
                  rw [h6] at e
                  cases r6 <;> (cases e; exact (((k1.trans k2).trans k4).trans k5).trans k6)

theorem drain_snd (fuel : Nat) (s s' : Tcb) (r : SegmentArrivesResult) (e : drain fuel s = .ok (s', r)) :
    SndKeep s s' := by
  induction fuel generalizing s with
  | zero => unfold drain at e; cases e; exact SndKeep.refl _
  | succ n ih =>
    unfold drain at e
    split at e
    · cases e; exact SndKeep.refl _
    · split at e
      · cases e; exact SndKeep.refl _
      · split at e
        · simp at e
        · rename_i segment rest hpop
          cases hp : processSegment { s with incoming.segments := rest } segment with
          | error err => rw [hp] at e; simp at e
          | ok p1 =>
            obtain ⟨s1, r1⟩ := p1
            rw [hp] at e
            dsimp only at e
            have k0 := processSegment_snd _ _ _ _ hp
            have k1 : SndKeep s s1 := by refine SndKeep.of_eq_left ?_ ?_ ?_ ?_ ?_ ?_ ?_ k0 <;> rfl
            split at e
            · cases e; exact k1
            · exact k1.trans (ih s1 e)

theorem segmentArrives_snd (s : Tcb) (segment : Segment) (s' : Tcb) (r : SegmentArrivesResult)
    (e : s.segmentArrives segment = .ok (s', r)) : SndKeep s s' := by
  unfold segmentArrives at e
  dsimp only at e
  split at e
  · simp at e
  · rw [enqueue_eq] at e
    cases e
    exact sndKeep_enqueue_plain _ _ rfl rfl ⟨rfl, rfl⟩
  · have k := drain_snd _ _ _ _ e
    refine SndKeep.of_eq_left ?_ ?_ ?_ ?_ ?_ ?_ ?_ k <;> rfl

/-! ## `segments()` and `close()` advance SND.NXT by what they append -/

/-- ISS kept, SND.NXT not backwards, invariant carried over when there is room -/
structure SndGrow (s s' : Tcb) : Prop where
  iss : s'.snd.iss = s.snd.iss
  mono : Room s → s.sent ≤ s'.sent
  below : SndBelow s → Room s → SndBelow s'
  room : Room s → s'.sent + s'.outgoing.text.length ≤ s.sent + s.outgoing.text.length + 1
  lp : s'.localPort = s.localPort
  rp : s'.remotePort = s.remotePort

theorem SndKeep.grow {s s' : Tcb} (h : SndKeep s s') : SndGrow s s' := by
  have hs : s'.sent = s.sent := by unfold sent; rw [h.iss, h.nxt]
  exact ⟨h.iss, fun _ => by rw [hs]; exact Nat.le_refl _, fun hb _ => h.below hb, fun _ => by rw [hs, h.text]; omega,
    h.lp, h.rp⟩

theorem segmentize_snd (maxSeg fuel : Nat) (s : Tcb) (q : Nat) (s' : Tcb)
    (e : segmentize maxSeg fuel s q = .ok s') (hb : SndBelow s) (hr : Room s) :
    s'.snd.iss = s.snd.iss ∧ s.sent ≤ s'.sent ∧ SndBelow s' ∧
      s'.sent + s'.outgoing.text.length = s.sent + s.outgoing.text.length ∧
      s'.localPort = s.localPort ∧ s'.remotePort = s.remotePort := by
  induction fuel generalizing s q with
  | zero => unfold segmentize at e; cases e; exact ⟨rfl, Nat.le_refl _, hb, rfl, rfl, rfl⟩
  | succ n ih =>
    unfold segmentize at e
    dsimp only at e
    split at e
    · cases e; exact ⟨rfl, Nat.le_refl _, hb, rfl, rfl, rfl⟩
    · generalize hbytes : min (min maxSeg (s.snd.wnd.toNat - q)) s.outgoing.text.length = bytes at e
      split at e
      · simp at e
      · rename_i header hbuild
        have hlen : (List.take bytes s.outgoing.text).length = bytes := by
          rw [List.length_take]; omega
        have hle : bytes ≤ s.outgoing.text.length := by omega
        unfold Room at hr
        -- the state after one round
        have hsent : off s.snd.iss (s.snd.nxt + BitVec.ofNat 32 (List.take bytes s.outgoing.text).length)
            = s.sent + bytes := by
          rw [hlen]; exact off_add _ _ _ (by unfold sent at hr; omega)
        have step := ih _ _ e
          (by
            refine ⟨?_, fun t ht => ?_, hb.plain, fun t ht => ?_, hb.oports⟩
            rotate_right
            · simp only [List.mem_append, List.mem_singleton] at ht
              rcases ht with ht | rfl
              · exact hb.qports t ht
              · have hh : header = s.ackHdr.built := by
                  unfold Hdr.build at hbuild
                  split at hbuild
                  · simp at hbuild
                  · simp only [Option.some.injEq] at hbuild; exact hbuild.symm
                subst hh
                exact ⟨rfl, rfl⟩
            · show 1 ≤ off s.snd.iss (s.snd.nxt + BitVec.ofNat 32 (List.take bytes s.outgoing.text).length)
              rw [hsent]; have := hb.pos; omega
            · show SegBelow s.snd.iss
                (off s.snd.iss (s.snd.nxt + BitVec.ofNat 32 (List.take bytes s.outgoing.text).length)) t.segment
              rw [hsent]
              simp only [List.mem_append, List.mem_singleton] at ht
              rcases ht with ht | rfl
              · exact (hb.queue t ht).mono (Nat.le_add_right _ _)
              · have hh : header = s.ackHdr.built := by
                  unfold Hdr.build at hbuild
                  split at hbuild
                  · simp at hbuild
                  · simp only [Option.some.injEq] at hbuild; exact hbuild.symm
                subst hh
                refine ⟨fun h => by simp [Transmit.new, ackHdr, Hdr.built, Hdr.withAck, Hdr.withWnd, headerBuilder, Hdr.builder] at h, fun _ => ?_⟩
                have h1 : (Transmit.new ⟨s.ackHdr.built, List.take bytes s.outgoing.text⟩).segment.segLen = bytes := by
                  simp [Transmit.new, Segment.segLen, hlen, ackHdr, Hdr.built, Hdr.withAck, Hdr.withWnd,
                    headerBuilder, Hdr.builder]
                have h2 : (Transmit.new ⟨s.ackHdr.built, List.take bytes s.outgoing.text⟩).segment.hdr.seq = s.snd.nxt := rfl
                rw [h1, h2]
                exact Nat.le_refl _)
          (by
            show off s.snd.iss (s.snd.nxt + BitVec.ofNat 32 (List.take bytes s.outgoing.text).length) +
              (List.drop bytes s.outgoing.text).length + 1 < 2147483648
            rw [hsent, List.length_drop]; unfold sent at hr ⊢; omega)
        obtain ⟨i1, m1, b1, r1, p1, p2⟩ := step
        refine ⟨i1, ?_, b1, ?_, p1, p2⟩
        · have : s.sent ≤ off s.snd.iss (s.snd.nxt + BitVec.ofNat 32 (List.take bytes s.outgoing.text).length) := by
            rw [hsent]; omega
          exact Nat.le_trans this m1
        · rw [r1]
          show off s.snd.iss (s.snd.nxt + BitVec.ofNat 32 (List.take bytes s.outgoing.text).length) +
              (List.drop bytes s.outgoing.text).length = s.sent + s.outgoing.text.length
          rw [hsent, List.length_drop]; omega

theorem queueFin_snd (s s' : Tcb) (e : s.queueFin = .ok s') : SndGrow s s' := by
  rcases queueFin_forms _ _ e with ⟨_, rfl⟩ | ⟨ht, hn, ht', hr, hs, hf⟩
  · exact (SndKeep.refl _).grow
  · have hports0 : s'.localPort = s.localPort ∧ s'.remotePort = s.remotePort := by
      unfold queueFin at e
      rw [if_pos (by simp [ht]), enqueue_eq] at e
      dsimp only at e
      cases e
      exact ⟨(enqueueBuilt_frame _ _).2.2.2.2.2.2.2.2.1, (enqueueBuilt_frame _ _).2.2.2.2.2.2.2.2.2⟩
    have hiss : s'.snd.iss = s.snd.iss := by
      unfold queueFin at e
      rw [if_pos (by simp [ht]), enqueue_eq] at e
      dsimp only at e
      cases e
      simp only [(enqueueBuilt_frame _ _).2.2.1]
    have hsent : Room s → s'.sent = s.sent + 1 := by
      intro hroom
      unfold sent
      rw [hiss, hn]
      exact off_add_one _ _ (by unfold Room sent at hroom; omega)
    refine ⟨hiss, fun hroom => by rw [hsent hroom]; omega, fun hb hroom => ?_, fun hroom => by rw [hsent hroom, ht', ht]; simp,
      hports0.1, hports0.2⟩
    have hone : s'.outgoing.oneshot = s.outgoing.oneshot := by
      unfold queueFin at e
      rw [if_pos (by simp [ht]), enqueue_eq] at e
      dsimp only at e
      cases e
      unfold enqueueBuilt
      rw [if_pos (by simp [finHdr, Hdr.built, Hdr.withFin, Hdr.withAck, Hdr.withWnd])]
    have hports : s'.localPort = s.localPort ∧ s'.remotePort = s.remotePort := by
      unfold queueFin at e
      rw [if_pos (by simp [ht]), enqueue_eq] at e
      dsimp only at e
      cases e
      exact ⟨(enqueueBuilt_frame _ _).2.2.2.2.2.2.2.2.1, (enqueueBuilt_frame _ _).2.2.2.2.2.2.2.2.2⟩
    refine ⟨by rw [hsent hroom]; omega, fun t hmem => ?_, fun x hx => hb.plain x (by rw [hone] at hx; exact hx),
      fun t hmem => ?_, fun x hx => by rw [hports.1, hports.2]; exact hb.oports x (by rw [hone] at hx; exact hx)⟩
    rotate_left
    · rw [hports.1, hports.2]
      rw [hr] at hmem
      simp only [List.mem_append, List.mem_singleton] at hmem
      rcases hmem with hmem | rfl
      · exact hb.qports t hmem
      · exact ⟨rfl, rfl⟩
    rw [hsent hroom, hiss]
    rw [hr] at hmem
    simp only [List.mem_append, List.mem_singleton] at hmem
    rcases hmem with hmem | rfl
    · exact (hb.queue t hmem).mono (Nat.le_add_right _ _)
    · refine ⟨fun h => by simp [Transmit.new, finHdr, Hdr.built, Hdr.withFin, Hdr.withAck, Hdr.withWnd, headerBuilder, Hdr.builder] at h, fun _ => ?_⟩
      have h1 : (Transmit.new ⟨s.finHdr.built, []⟩).segment.segLen = 1 := by
        simp [Transmit.new, Segment.segLen, finHdr, Hdr.built, Hdr.withFin, Hdr.withAck, Hdr.withWnd,
          headerBuilder, Hdr.builder]
      have h2 : (Transmit.new ⟨s.finHdr.built, []⟩).segment.hdr.seq = s.snd.nxt := hs
      rw [h1, h2]
      exact Nat.le_refl _

theorem sent_congr {s s' : Tcb} (h1 : s'.snd.iss = s.snd.iss) (h2 : s'.snd.nxt = s.snd.nxt) :
    s'.sent = s.sent := by unfold sent; rw [h1, h2]

/-- **`segments()`**: ISS kept, SND.NXT only forward, the invariant carried over, and every
    segment handed to the network lies below the new SND.NXT -/
theorem segments_snd (s s' : Tcb) (out : List Segment) (e : s.segments = .ok (s', out))
    (hb : SndBelow s) (hr : Room s) :
    s'.snd.iss = s.snd.iss ∧ s.sent ≤ s'.sent ∧ SndBelow s' ∧
      (∀ σ ∈ out, SegBelow s.snd.iss s'.sent σ ∧ σ.hdr.srcPort = s.localPort ∧ σ.hdr.dstPort = s.remotePort) ∧
      s'.sent + s'.outgoing.text.length ≤ s.sent + s.outgoing.text.length + 1 ∧
      s'.localPort = s.localPort ∧ s'.remotePort = s.remotePort := by
  unfold segments at e
  dsimp only at e
  cases h1 : segmentizeIfOpen { s with outgoing.oneshot := [] } with
  | error err => rw [h1] at e; simp at e
  | ok s1 =>
    rw [h1] at e
    dsimp only at e
    have hb0 : SndBelow ({ s with outgoing.oneshot := [] } : Tcb) :=
      ⟨hb.pos, hb.queue, fun x hx => by simp at hx, hb.qports, fun x hx => by simp at hx⟩
    have k1 : s1.snd.iss = s.snd.iss ∧ s.sent ≤ s1.sent ∧ SndBelow s1 ∧
        s1.sent + s1.outgoing.text.length = s.sent + s.outgoing.text.length ∧
        s1.localPort = s.localPort ∧ s1.remotePort = s.remotePort := by
      unfold segmentizeIfOpen at h1
      split at h1
      all_goals first
        | (cases h1; exact ⟨rfl, Nat.le_refl _, hb0, rfl, rfl, rfl⟩)
        | (split at h1
           · simp at h1
           · have g := segmentize_snd _ _ _ _ _ h1 hb0 hr
             exact g)
    obtain ⟨i1, m1, b1, r1, lp1, rp1⟩ := k1
    have hr1 : Room s1 := by unfold Room at hr ⊢; omega
    cases h2 : finIfPending s.finPending s1 with
    | error err => rw [h2] at e; simp at e
    | ok s2 =>
      rw [h2] at e
      dsimp only at e
      have k2 : SndGrow s1 s2 := by
        unfold finIfPending at h2
        split at h2
        · exact queueFin_snd _ _ h2
        · cases h2; exact (SndKeep.refl _).grow
      have b2 := k2.below b1 hr1
      have i2 : s2.snd.iss = s.snd.iss := k2.iss.trans i1
      simp only [Except.ok.injEq, Prod.mk.injEq] at e
      obtain ⟨hs', hout⟩ := e
      have hq : s'.snd = s2.snd ∧ s'.outgoing.text = s2.outgoing.text ∧ s'.outgoing.oneshot = s2.outgoing.oneshot ∧
          s'.outgoing.retransmit = s2.outgoing.retransmit.map fun t => { t with needsTransmit := false } := by
        rw [← hs']; split <;> exact ⟨rfl, rfl, rfl, rfl⟩
      have hpt : s'.localPort = s2.localPort ∧ s'.remotePort = s2.remotePort := by
        rw [← hs']; split <;> exact ⟨rfl, rfl⟩
      have hsent : s'.sent = s2.sent := by unfold sent; rw [hq.1]
      have hiss : s'.snd.iss = s.snd.iss := by rw [hq.1]; exact i2
      have b' : SndBelow s' := by
        refine ⟨by rw [hsent]; exact b2.pos, fun t ht => ?_, fun x hx => b2.plain x (by rw [hq.2.2.1] at hx; exact hx),
          fun t ht => ?_, fun x hx => by rw [hpt.1, hpt.2]; exact b2.oports x (by rw [hq.2.2.1] at hx; exact hx)⟩
        · rw [hq.2.2.2] at ht
          obtain ⟨t0, ht0, rfl⟩ := List.mem_map.1 ht
          rw [hsent, hq.1]
          exact b2.queue t0 ht0
        · rw [hq.2.2.2] at ht
          obtain ⟨t0, ht0, rfl⟩ := List.mem_map.1 ht
          rw [hpt.1, hpt.2]
          exact b2.qports t0 ht0
      have lp2 : s2.localPort = s.localPort := k2.lp.trans lp1
      have rp2 : s2.remotePort = s.remotePort := k2.rp.trans rp1
      refine ⟨hiss, by rw [hsent]; exact Nat.le_trans m1 (k2.mono hr1), b', ?_, ?_, hpt.1.trans lp2, hpt.2.trans rp2⟩
      · intro σ hσ
        rw [← hout] at hσ
        rcases List.mem_append.1 hσ with h | h
        · obtain ⟨hd, hhd, rfl⟩ := List.mem_map.1 h
          have hp := hb.plain hd hhd
          refine ⟨⟨fun hsyn => by rw [hp.1] at hsyn; simp at hsyn, fun hl => ?_⟩, hb.oports hd hhd⟩
          simp [Segment.segLen, hp.1, hp.2] at hl
        · obtain ⟨t, ht, rfl⟩ := List.mem_map.1 h
          have := b2.queue t (List.mem_filter.1 ht).1
          have hp := b2.qports t (List.mem_filter.1 ht).1
          rw [lp2, rp2] at hp
          rw [hsent, ← i2]
          exact ⟨this, hp⟩
      · rw [hsent, hq.2.1]
        have := k2.room hr1
        omega

/-- **`close()`** -/
theorem close_snd (s s' : Tcb) (r : CloseResult) (e : s.close = .ok (s', r)) : SndGrow s s' := by
  have lift : ∀ t : Tcb, t.snd = s.snd → t.outgoing = s.outgoing → t.localPort = s.localPort →
      t.remotePort = s.remotePort → ∀ t', SndGrow t t' → SndGrow s t' := by
    intro t h1 h2 h3 h4 t' g
    have hs : t.sent = s.sent := by unfold sent; rw [h1]
    have hroom : Room s → Room t := by unfold Room; rw [hs, h2]; exact id
    have hbel : SndBelow s → SndBelow t := fun hb =>
      ⟨by rw [hs]; exact hb.pos, fun x hx => by rw [hs, h1]; exact hb.queue x (by rw [h2] at hx; exact hx),
        fun x hx => hb.plain x (by rw [h2] at hx; exact hx),
        fun x hx => by rw [h3, h4]; exact hb.qports x (by rw [h2] at hx; exact hx),
        fun x hx => by rw [h3, h4]; exact hb.oports x (by rw [h2] at hx; exact hx)⟩
    exact ⟨by rw [g.iss, h1], fun hr => by rw [← hs]; exact g.mono (hroom hr),
      fun hb hr => g.below (hbel hb) (hroom hr), fun hr => by rw [← hs, ← h2]; exact g.room (hroom hr),
      g.lp.trans h3, g.rp.trans h4⟩
  unfold close at e
  split at e
  all_goals first
    | (cases e; exact (SndKeep.refl _).grow)
    | (split at e
       · simp at e
       · rename_i t h1
         cases e
         have g := queueFin_snd _ _ h1
         refine lift _ ?_ ?_ ?_ ?_ _ g <;> rfl)

/-- a fresh TCB (only its SYN numbered, empty queues) after queueing its SYN -/
theorem sndBelow_fresh (t0 : Tcb) (hd : Hdr) (iss : Seq) (h1 : t0.snd.iss = iss) (h2 : t0.snd.nxt = iss + 1)
    (h3 : t0.outgoing.retransmit = []) (h4 : t0.outgoing.oneshot = [])
    (hs : hd.ctl.syn = true) (hf : hd.ctl.fin = false) (hseq : hd.seq = iss)
    (hp1 : hd.srcPort = t0.localPort) (hp2 : hd.dstPort = t0.remotePort) :
    SndBelow (t0.enqueueBuilt hd) ∧ (t0.enqueueBuilt hd).snd.iss = iss ∧ (t0.enqueueBuilt hd).sent = 1 := by
  have hsent : t0.sent = 1 := by
    unfold sent; rw [h1, h2, off_add_one iss iss (by rw [off_self]; omega), off_self]
  have k := sndKeep_enqueue_syn t0 hd hs hf (by rw [hseq, h1]) ⟨hp1, hp2⟩
  have b0 : SndBelow t0 := ⟨by rw [hsent]; exact Nat.le_refl _, fun t ht => by rw [h3] at ht; simp at ht,
    fun x hx => by rw [h4] at hx; simp at hx, fun t ht => by rw [h3] at ht; simp at ht,
    fun x hx => by rw [h4] at hx; simp at hx⟩
  exact ⟨k.below b0, by rw [k.iss, h1], by rw [sent_congr k.iss k.nxt, hsent]⟩

/-- an actively opened TCB satisfies the invariant and carries our ports -/
theorem open_snd (lp rp : U16) (iss : Seq) (mtu : U16) (s : Tcb) (e : Tcb.open lp rp iss mtu = .ok s) :
    SndBelow s ∧ s.snd.iss = iss ∧ s.sent = 1 ∧ s.localPort = lp ∧ s.remotePort = rp ∧
      s.state = .SynSent ∧ s.incoming.segments = [] := by
  unfold Tcb.open at e
  dsimp only at e
  rw [enqueue_eq] at e
  cases e
  refine ⟨?_, ?_, ?_, ?_, ?_, ?_, ?_⟩
  · refine (sndBelow_fresh _ _ iss ?_ ?_ ?_ ?_ ?_ ?_ ?_ ?_ ?_).1 <;> rfl
  · refine (sndBelow_fresh _ _ iss ?_ ?_ ?_ ?_ ?_ ?_ ?_ ?_ ?_).2.1 <;> rfl
  · refine (sndBelow_fresh _ _ iss ?_ ?_ ?_ ?_ ?_ ?_ ?_ ?_ ?_).2.2 <;> rfl
  · exact (enqueueBuilt_frame _ _).2.2.2.2.2.2.2.2.1
  · exact (enqueueBuilt_frame _ _).2.2.2.2.2.2.2.2.2
  · exact (enqueueBuilt_frame _ _).2.2.2.2.1
  · rw [(enqueueBuilt_frame _ _).2.2.2.1]

end Tcb
end Elvis.Tcp
