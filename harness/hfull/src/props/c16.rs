//! C16: correspondence + oracle runs (sub-commands `c16` / `c16-*`).
use hcommon::*;

pub fn run(args: &Args) {
    eprintln!("hfull: {} not implemented yet", args.prop);
    std::process::exit(2);
}
