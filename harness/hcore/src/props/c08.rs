//! C08: correspondence + oracle runs (sub-commands `c08` / `c08-*`).
use hcommon::*;

pub fn run(args: &Args) {
    eprintln!("hcore: {} not implemented yet", args.prop);
    std::process::exit(2);
}
