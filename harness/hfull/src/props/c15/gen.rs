//! `c15`: op histories on the real `IpGenerator`.  Every op line is answered by the real code
//! (-> impl.out, diffed against the Lean model) and checked by an oracle that knows nothing about
//! ranges-in-a-BTreeSet: it keeps the *sets* of addresses the property talks about (pool, free,
//! blocked, held) as merged interval sets and checks what `fetch_*` hands out against them.
use elvis::ip_generator::{IpGenerator, IpRange};
use elvis_core::protocols::{
    arp::subnetting::{Ipv4Mask, Ipv4Net},
    ipv4::Ipv4Address,
};
use hcommon::*;

const MAX: u64 = 0xFFFF_FFFF;

/// set of addresses as sorted, disjoint, merged inclusive intervals
#[derive(Clone, Default, Debug)]
pub struct ISet(pub Vec<(u64, u64)>);

impl ISet {
    pub fn add(&mut self, a: u64, b: u64) {
        if a > b {
            return;
        }
        let mut v = std::mem::take(&mut self.0);
        v.push((a, b));
        v.sort();
        let mut out: Vec<(u64, u64)> = vec![];
        for (s, e) in v {
            if let Some(l) = out.last_mut() {
                if s <= l.1 + 1 {
                    l.1 = l.1.max(e);
                    continue;
                }
            }
            out.push((s, e));
        }
        self.0 = out;
    }
    pub fn sub(&mut self, a: u64, b: u64) {
        if a > b {
            return;
        }
        let mut out = vec![];
        for &(s, e) in &self.0 {
            if e < a || s > b {
                out.push((s, e));
                continue;
            }
            if s < a {
                out.push((s, a - 1));
            }
            if e > b {
                out.push((b + 1, e));
            }
        }
        self.0 = out;
    }
    pub fn covers(&self, a: u64, b: u64) -> bool {
        self.0.iter().any(|&(s, e)| s <= a && b <= e)
    }
    pub fn intersects(&self, a: u64, b: u64) -> bool {
        self.0.iter().any(|&(s, e)| s <= b && a <= e)
    }
    pub fn has(&self, a: u64) -> bool {
        self.covers(a, a)
    }
    pub fn count(&self) -> u64 {
        self.0.iter().map(|&(s, e)| e - s + 1).sum()
    }
    pub fn is_empty(&self) -> bool {
        self.0.is_empty()
    }
    /// is there an aligned block of 2^k addresses inside the set?
    pub fn has_aligned(&self, k: u32) -> bool {
        let sz = 1u64 << k;
        self.0.iter().any(|&(s, e)| {
            let id = (s + sz - 1) / sz * sz;
            id + sz - 1 <= e
        })
    }
}

fn net_bounds(ip: u32, len: u32) -> (u64, u64) {
    let len = len.min(32);
    let k = 32 - len;
    let sz = 1u64 << k;
    let id = (ip as u64) / sz * sz;
    (id, id + sz - 1)
}

const RESERVED: [([u8; 4], u32); 17] = [
    ([0, 0, 0, 0], 8),
    ([10, 0, 0, 0], 8),
    ([100, 64, 0, 0], 10),
    ([127, 0, 0, 0], 8),
    ([169, 254, 0, 0], 16),
    ([172, 16, 0, 0], 12),
    ([192, 0, 0, 0], 24),
    ([192, 0, 2, 0], 24),
    ([192, 88, 99, 0], 24),
    ([192, 168, 0, 0], 16),
    ([198, 18, 0, 0], 15),
    ([198, 51, 100, 0], 24),
    ([203, 0, 113, 0], 24),
    ([224, 0, 0, 0], 4),
    ([233, 252, 0, 0], 24),
    ([240, 0, 0, 0], 4),
    ([255, 255, 255, 255], 32),
];

pub struct Exec {
    gen: Option<IpGenerator>,
    ctor: String,
    pool: ISet,
    free: ISet,
    blocked: ISet,
    held: Vec<(u64, u64, u32)>, // (first, last, len)
    returned: bool,
    /// after an oracle failure the shadow no longer describes the generator: stop judging this case
    desynced: bool,
    fetched_some: u32,
    fetched_none: u32,
    returns: u32,
    blocks: u32,
    pending: Vec<(String, String)>,
}

fn ip(a: u32) -> Ipv4Address {
    Ipv4Address::from(a)
}

fn show_net(n: Ipv4Net) -> String {
    format!("net {}/{}", n.id().to_u32(), n.mask().count_ones())
}

fn panic_text(p: &PanicInfo) -> String {
    let text = source_line_text(&p.file, p.line);
    format!("panic:other:{}:{}", p.file.rsplit('/').next().unwrap_or(""), text.replace(' ', "_"))
}

impl Exec {
    pub fn new() -> Self {
        Exec {
            gen: None,
            ctor: String::new(),
            pool: ISet::default(),
            free: ISet::default(),
            blocked: ISet::default(),
            held: vec![],
            returned: false,
            desynced: false,
            fetched_some: 0,
            fetched_none: 0,
            returns: 0,
            blocks: 0,
            pending: vec![],
        }
    }

    /// record an oracle failure; it is reported after the op line has been written so that the
    /// replay contains the failing op
    fn fail(&mut self, _out: &mut Out, what: String, ident: &str) {
        if !self.desynced {
            self.pending.push((what, ident.to_string()));
        }
        self.desynced = true;
    }

    pub fn apply(&mut self, line: &str, out: &mut Out) {
        self.apply_inner(line, out);
        for (w, i) in std::mem::take(&mut self.pending) {
            out.fail(&w, &i);
        }
    }

    fn set_pool(&mut self, a: u64, b: u64) {
        self.pool = ISet::default();
        self.pool.add(a, b);
        self.free = self.pool.clone();
        self.blocked = ISet::default();
        self.held.clear();
        self.returned = false;
        self.desynced = false;
    }

    /// judge a handed-out block against the sets of the property
    fn judge_fetch(&mut self, out: &mut Out, line: &str, what: &str, first: u64, last: u64) {
        if self.desynced {
            return;
        }
        if !self.free.covers(first, last) {
            let (reason, ident) = if self.held.iter().any(|h| h.0 <= last && first <= h.1) {
                ("overlaps a net/address that is still held", "double-allocation")
            } else if !self.pool.covers(first, last) {
                ("is not inside the configured pool", "outside-pool")
            } else if self.blocked.intersects(first, last) {
                ("contains blocked addresses", "blocked-handed-out")
            } else {
                ("is not free", "not-free")
            };
            self.fail(
                out,
                format!("`{}` ({}) handed out {}..={} which {}", line, self.ctor, first, last, reason),
                &format!("{} {}", ident, what),
            );
        }
    }

    fn apply_inner(&mut self, line: &str, out: &mut Out) {
        let w: Vec<&str> = line.split_whitespace().collect();
        let num = |s: &str| s.parse::<u32>().ok();
        // ---- constructors ----
        let made: Option<Result<IpGenerator, PanicInfo>> = match w.as_slice() {
            ["new", a, b] => match (num(a), num(b)) {
                (Some(a), Some(b)) => {
                    self.set_pool(a as u64, b as u64);
                    if a > b {
                        self.pool = ISet::default();
                        self.free = ISet::default();
                    }
                    Some(catch(|| IpGenerator::new(IpRange::new(ip(a), ip(b)))))
                }
                _ => return out.line(line, "bad-op"),
            },
            ["newsub", a, l] => match (num(a), num(l)) {
                (Some(a), Some(l)) => {
                    let (f, t) = net_bounds(a, l);
                    self.set_pool(f, t);
                    Some(catch(|| IpGenerator::new_sub(Ipv4Net::new_short(ip(a), l))))
                }
                _ => return out.line(line, "bad-op"),
            },
            ["newsubne", a, l] => match (num(a), num(l)) {
                (Some(a), Some(l)) => {
                    // the property: "offers exactly the host addresses of that subnet"
                    let (f, t) = net_bounds(a, l);
                    self.set_pool(f, t);
                    self.pool = ISet::default();
                    if t >= 1 {
                        self.pool.add(f + 1, t - 1);
                    }
                    self.free = self.pool.clone();
                    Some(catch(|| IpGenerator::new_sub_no_ends(Ipv4Net::new_short(ip(a), l))))
                }
                _ => return out.line(line, "bad-op"),
            },
            ["all"] => {
                self.set_pool(0, MAX);
                Some(catch(IpGenerator::all))
            }
            ["none"] => {
                self.set_pool(1, 0);
                Some(catch(IpGenerator::none))
            }
            ["blockedout"] => {
                self.set_pool(0, MAX);
                for (b, l) in RESERVED.iter() {
                    let (f, t) = net_bounds(u32::from_be_bytes(*b), *l);
                    self.free.sub(f, t);
                    self.blocked.add(f, t);
                }
                Some(catch(IpGenerator::blocked_out))
            }
            _ => None,
        };
        if let Some(r) = made {
            self.ctor = w[0].to_string();
            out.count(&format!("ctor.{}", w[0]));
            match r {
                Ok(g) => {
                    self.gen = Some(g);
                    out.line(line, "ok");
                }
                Err(p) => {
                    let t = panic_text(&p);
                    out.line(line, &format!("err {}", t));
                    self.fail(out, format!("`{}` panicked: {}", line, p.msg), &format!("panic {} {}", w[0], source_line_text(&p.file, p.line)));
                }
            }
            return;
        }
        let Some(gen) = self.gen.as_mut() else { return out.line(line, "bad-op") };
        let backup = gen.clone();
        out.count(&format!("op.{}", w[0]));
        let res: Result<String, PanicInfo> = match w.as_slice() {
            ["block", a, l] => {
                let (Some(a), Some(l)) = (num(a), num(l)) else { return out.line(line, "bad-op") };
                let r = catch(|| gen.block_subnet(Ipv4Net::new_short(ip(a), l)));
                let (f, t) = net_bounds(a, l);
                self.free.sub(f, t);
                self.blocked.add(f, t);
                self.blocks += 1;
                r.map(|_| "ok".to_string())
            }
            ["blockres"] => {
                let r = catch(|| gen.block_reserved_ips());
                for (b, l) in RESERVED.iter() {
                    let (f, t) = net_bounds(u32::from_be_bytes(*b), *l);
                    self.free.sub(f, t);
                    self.blocked.add(f, t);
                }
                self.blocks += 1;
                r.map(|_| "ok".to_string())
            }
            ["retnet", ..] | ["retip", ..] => {
                let is_ip = w[0] == "retip";
                let Some(a) = w.get(1).and_then(|s| num(s)) else { return out.line(line, "bad-op") };
                let l: u32 = if is_ip {
                    32
                } else {
                    match w.get(2).and_then(|s| num(s)) {
                        Some(l) => l,
                        None => return out.line(line, "bad-op"),
                    }
                };
                let r = if is_ip { catch(|| gen.return_ip(ip(a))) } else { catch(|| gen.return_subnet(Ipv4Net::new_short(ip(a), l))) };
                let (f, t) = if is_ip { (a as u64, a as u64) } else { net_bounds(a, l) };
                if let Some(i) = self.held.iter().position(|h| h.0 == f && h.1 == t) {
                    // a held net comes back
                    self.held.remove(i);
                    out.count("return.held");
                } else {
                    // nobody holds exactly this: a donation to the pool; holdings it overlaps are revoked
                    let before = self.held.len();
                    self.held.retain(|h| !(h.0 <= t && f <= h.1));
                    if self.held.len() != before {
                        out.count("return.revoking");
                    } else {
                        out.count("return.donation");
                    }
                    self.pool.add(f, t);
                }
                self.free.add(f, t);
                self.blocked.sub(f, t);
                self.returned = true;
                self.returns += 1;
                r.map(|_| "ok".to_string())
            }
            ["fetchip"] => match catch(|| gen.fetch_ip()) {
                Ok(Some(a)) => {
                    let a = a.to_u32() as u64;
                    self.judge_fetch(out, line, "fetch_ip", a, a);
                    self.free.sub(a, a);
                    self.held.push((a, a, 32));
                    self.fetched_some += 1;
                    Ok(format!("ip {}", a))
                }
                Ok(None) => {
                    if !self.free.is_empty() && !self.desynced {
                        let n = self.free.count();
                        let first = self.free.0[0].0;
                        self.fail(
                            out,
                            format!("`fetchip` ({}) reported exhaustion although {} addresses are free (e.g. {})", self.ctor, n, first),
                            "exhaustion-wrong fetch_ip",
                        );
                    }
                    self.fetched_none += 1;
                    out.count("fetch.none");
                    Ok("none".into())
                }
                Err(p) => Err(p),
            },
            ["fetchnet", l] => {
                let Some(l) = num(l) else { return out.line(line, "bad-op") };
                match catch(|| gen.fetch_net(Ipv4Mask::from_bitcount(l))) {
                    Ok(Some(n)) => {
                        let lc = l.min(32);
                        let id = n.id().to_u32() as u64;
                        let sz = 1u64 << (32 - lc);
                        if n.mask().count_ones() != lc && !self.desynced {
                            self.fail(out, format!("`{}` returned a /{} net", line, n.mask().count_ones()), "wrong-mask fetch_net");
                        }
                        if id % sz != 0 && !self.desynced {
                            self.fail(out, format!("`{}` returned net id {} not aligned to its mask", line, id), "misaligned fetch_net");
                        }
                        self.judge_fetch(out, line, "fetch_net", id, id + sz - 1);
                        self.free.sub(id, id + sz - 1);
                        self.held.push((id, id + sz - 1, lc));
                        self.fetched_some += 1;
                        Ok(show_net(n))
                    }
                    Ok(None) => {
                        let k = 32 - l.min(32);
                        if self.free.has_aligned(k) {
                            if self.returned {
                                // free ranges are never merged: legitimate only after returns
                                out.count("fetch.none_fragmented");
                            } else if !self.desynced {
                                self.fail(
                                    out,
                                    format!("`{}` ({}) reported exhaustion although an aligned free /{} exists and nothing was ever returned", line, self.ctor, l.min(32)),
                                    "exhaustion-wrong fetch_net",
                                );
                            }
                        }
                        self.fetched_none += 1;
                        out.count("fetch.none");
                        Ok("none".into())
                    }
                    Err(p) => Err(p),
                }
            }
            ["avail", a, l] => {
                let (Some(a), Some(l)) = (num(a), num(l)) else { return out.line(line, "bad-op") };
                catch(|| gen.is_available(Ipv4Net::new_short(ip(a), l))).map(|b| b.to_string())
            }
            ["probe"] => catch(|| {
                (0..=32u32)
                    .map(|l| match gen.clone().fetch_net(Ipv4Mask::from_bitcount(l)) {
                        Some(n) => n.id().to_u32().to_string(),
                        None => "-".to_string(),
                    })
                    .collect::<Vec<_>>()
                    .join(" ")
            }),
            ["audit", lim] => {
                let Some(lim) = num(lim) else { return out.line(line, "bad-op") };
                let r = catch(|| {
                    let mut c = gen.clone();
                    let mut got: Vec<u64> = vec![];
                    let mut ended = false;
                    for _ in 0..lim {
                        match c.fetch_ip() {
                            Some(a) => got.push(a.to_u32() as u64),
                            None => {
                                ended = true;
                                break;
                            }
                        }
                    }
                    (got, ended)
                });
                match r {
                    Ok((got, ended)) => {
                        if !self.desynced {
                            let mut seen = std::collections::HashSet::new();
                            let dup = got.iter().find(|a| !seen.insert(**a)).cloned();
                            let stray = got.iter().find(|a| !self.free.has(**a)).cloned();
                            let total = self.free.count();
                            let what = if let Some(a) = dup {
                                Some(format!("offers address {} twice", a))
                            } else if let Some(a) = stray {
                                Some(format!("offers address {} which is not free (pool/blocked/held say so)", a))
                            } else if ended && (got.len() as u64) != total {
                                Some(format!("offers {} of the {} addresses that should be on offer", got.len(), total))
                            } else {
                                None
                            };
                            if let Some(wh) = what {
                                let c = self.ctor.clone();
                                self.fail(out, format!("after `{}`…: the generator {}", c, wh), &format!("audit offered-set-differs {}", c));
                            }
                        }
                        let sum = got.iter().fold(0u64, |s, a| s.wrapping_add(*a));
                        Ok(format!("n={} sum={} {}", got.len(), sum, if ended { "end" } else { "more" }))
                    }
                    Err(p) => Err(p),
                }
            }
            _ => return out.line(line, "bad-op"),
        };
        match res {
            Ok(s) => out.line(line, &s),
            Err(p) => {
                *self.gen.as_mut().unwrap() = backup;
                out.line(line, &format!("err {}", panic_text(&p)));
                let id = format!("panic {} {}", w[0], source_line_text(&p.file, p.line));
                self.fail(out, format!("`{}` panicked: {} at {}:{}", line, p.msg, p.file, p.line), &id);
            }
        }
    }

    // ------------------------------------------------------------------ generator
    fn points(&self, rng: &mut Rng) -> u32 {
        let mut c: Vec<u64> = vec![0, MAX, 1, MAX - 1];
        for &(s, e) in self.pool.0.iter().take(4) {
            c.extend_from_slice(&[s, e, s.saturating_sub(1), (e + 1).min(MAX), (s + e) / 2]);
            c.push(s + rng.below(e - s + 1));
            c.push(s + rng.below(e - s + 1));
        }
        for &(s, e) in self.free.0.iter().take(6) {
            c.extend_from_slice(&[s, e, (e + 1).min(MAX), s.saturating_sub(1)]);
        }
        for h in self.held.iter().take(6) {
            c.extend_from_slice(&[h.0, h.1, (h.1 + 1).min(MAX)]);
        }
        *rng.pick(&c) as u32
    }

    /// prefix lengths whose block size is in the order of the pool
    fn lens(&self, rng: &mut Rng) -> u32 {
        let n = self.pool.count().max(1);
        let bits = 64 - n.leading_zeros(); // ~log2(n)+1
        let around = 32u32.saturating_sub(bits.min(32));
        let c = [32, 32, 31, 30, 29, around, around + 1, around + 2, around.saturating_sub(1), rng.below(33) as u32];
        (*rng.pick(&c)).min(32)
    }

    pub fn gen_ctor(&self, rng: &mut Rng) -> String {
        let bases: [u32; 8] = [0, 0x0A00_0000, 0xFFFF_FF00, 0xFFFF_FFFF, 0x7FFF_FFF0, 0xC0A8_0100, 0x0000_00F0, 0x8000_0000];
        let base = *rng.pick(&bases);
        let jitter = rng.below(300) as u32;
        let b = if rng.chance(1, 2) { base } else { base.wrapping_add(jitter) };
        match rng.below(100) {
            0..=24 => format!("newsub {} {}", b, rng.range(24, 32)),
            25..=44 => format!("newsubne {} {}", b, rng.range(23, 32)),
            45..=69 => {
                // small explicit range, sometimes touching the ends of the address space
                let len = *rng.pick(&[0u64, 1, 2, 3, 7, 8, 15, 16, 40, 100, 255, 256, 300]);
                let s = match rng.below(4) {
                    0 => 0u64,
                    1 => MAX - len,
                    _ => (b as u64).min(MAX - len),
                };
                if rng.chance(1, 25) {
                    format!("new {} {}", s + len, s) // reversed = empty (unless len = 0)
                } else {
                    format!("new {} {}", s, s + len)
                }
            }
            70..=79 => format!("newsub {} {}", b, rng.range(0, 23)),
            80..=84 => format!("newsubne {} {}", b, rng.range(0, 22)),
            85..=89 => "all".into(),
            90..=93 => "blockedout".into(),
            _ => "none".into(),
        }
    }

    pub fn gen_op(&self, rng: &mut Rng) -> String {
        let r = rng.below(100);
        match r {
            0..=24 => "fetchip".into(),
            25..=41 => format!("fetchnet {}", self.lens(rng)),
            42..=59 if !self.held.is_empty() => {
                let h = *rng.pick(&self.held);
                if h.2 == 32 && rng.chance(2, 3) {
                    format!("retip {}", h.0)
                } else {
                    format!("retnet {} {}", h.0, h.2)
                }
            }
            42..=59 => "fetchip".into(),
            60..=71 => {
                let a = self.points(rng);
                format!("block {} {}", a, self.lens(rng))
            }
            72..=79 => {
                // donation: something nobody holds (adjacent pieces create un-merged neighbours)
                for _ in 0..8 {
                    let a = self.points(rng);
                    let l = self.lens(rng).max(8);
                    let (f, t) = net_bounds(a, l);
                    if !self.held.iter().any(|h| h.0 <= t && f <= h.1) {
                        return if l == 32 && rng.chance(1, 2) { format!("retip {}", f) } else { format!("retnet {} {}", a, l) };
                    }
                }
                "probe".into()
            }
            80..=86 => {
                let a = self.points(rng);
                format!("avail {} {}", a, self.lens(rng))
            }
            87..=93 => "probe".into(),
            _ => "audit 300".into(),
        }
    }
}

fn fixed_cases() -> Vec<Vec<String>> {
    let mut v = vec![];
    // the design-phase witness of F-C15-1 first
    v.push(vec!["newsubne 167772160 24".to_string(), "audit 300".into(), "fetchip".into(), "probe".into()]);
    for base in [0u32, 0x0A00_0000, 0xFFFF_FFFF, 0x7FFF_FFFF, 0xC0A8_01C8] {
        for len in 0..=33u32 {
            for ctor in ["newsubne", "newsub"] {
                v.push(vec![
                    format!("{} {} {}", ctor, base, len),
                    "audit 300".into(),
                    "probe".into(),
                    "fetchip".into(),
                    format!("fetchnet {}", (len + 1).min(32)),
                    "audit 300".into(),
                ]);
            }
        }
    }
    for (a, b) in [(0u64, 0u64), (MAX, MAX), (0, MAX), (0, 1), (MAX - 1, MAX), (5, 3), (MAX, 0)] {
        v.push(vec![
            format!("new {} {}", a, b),
            "audit 300".into(),
            "probe".into(),
            "block 0 32".into(),
            format!("block {} 32", MAX),
            "fetchnet 31".into(),
            "fetchip".into(),
            "fetchip".into(),
            "fetchip".into(),
            "audit 300".into(),
            "probe".into(),
        ]);
    }
    v.push(vec!["blockedout".into(), "probe".into(), "fetchip".into(), "fetchnet 8".into(), "fetchnet 1".into(), "probe".into(), "audit 300".into()]);
    v.push(vec!["all".into(), "blockres".into(), "probe".into(), "block 0 0".into(), "fetchip".into(), "retnet 0 0".into(), "fetchip".into(), "probe".into()]);
    v
}

pub fn run(args: &Args) {
    let mut out = Out::new(&args.out);
    let rule = "histories on one IpGenerator: constructor (new range / new_sub / new_sub_no_ends of every mask / all / none / blocked_out; pools touching 0.0.0.0 and 255.255.255.255, empty and reversed ranges) then block / fetch_ip / fetch_net(mask) / return of held nets / donating returns / is_available / 33-mask probe / drain audit; a case is non-trivial if it has >= 1 successful fetch, >= 1 return and (>= 1 block or >= 1 exhaustion answer); distinct = hash of its op lines; the first ~700 cases are a fixed boundary enumeration (every mask x 5 bases x new_sub/new_sub_no_ends)";
    if let Some(rp) = &args.replay {
        let mut ex = Exec::new();
        out.begin_case(0);
        out.mark_nontrivial();
        for l in read_ops(rp) {
            if l.starts_with("case ") {
                continue;
            }
            ex.apply(&l, &mut out);
        }
        out.end_case();
        out.finish(rule);
        return;
    }
    let ops_per_case: u64 = args.extra.get("ops").and_then(|s| s.parse().ok()).unwrap_or(40);
    let mut rng = Rng::new(args.seed);
    let mut c = 0u64;
    for fc in fixed_cases() {
        let mut ex = Exec::new();
        out.begin_case(c);
        for l in fc {
            ex.apply(&l, &mut out);
        }
        out.count("cases.fixed");
        out.end_case();
        c += 1;
    }
    for _ in 0..args.cases {
        let mut r = rng.fork();
        let mut ex = Exec::new();
        out.begin_case(c);
        let ctor = ex.gen_ctor(&mut r);
        ex.apply(&ctor, &mut out);
        if r.chance(1, 3) {
            ex.apply("audit 300", &mut out);
        }
        for _ in 0..ops_per_case {
            let op = ex.gen_op(&mut r);
            ex.apply(&op, &mut out);
        }
        ex.apply("audit 300", &mut out);
        ex.apply("probe", &mut out);
        if ex.fetched_some >= 1 && ex.returns >= 1 && (ex.blocks >= 1 || ex.fetched_none >= 1) {
            out.mark_nontrivial();
        }
        out.count(&format!("held_at_end.{}", ex.held.len().min(9)));
        if ex.fetched_none > 0 {
            out.count("cases.with_exhaustion");
        }
        out.end_case();
        c += 1;
    }
    out.finish(rule);
}
