import ElvisVerif.Lemmas.Message
/-!
# C07 — Message behaves as an immutable byte string under all operations

Property theorems only (helper lemmas live in `Lemmas/Message.lean`).
Refinement: `toBytes : Msg → List UInt8` maps every `Message` operation to the same operation
on a plain byte vector (`Spec`), including *when* it panics.  `c07_history` lifts this to every
operation sequence over a pool of messages by induction on the sequence.
-/
namespace Elvis.Msg

/-- representation invariant of `Message` -/
def Msg.WF (m : Msg) : Prop := AllWF m.chunks ∧ m.len = total m.chunks
def PoolWF (pool : List Msg) : Prop := ∀ m ∈ pool, m.WF

theorem c07_len (m : Msg) (h : m.WF) : m.len = (toBytes m).length := by
  have := flat_length m.chunks h.1
  unfold toBytes; unfold flat at this; rw [this, h.2]

theorem c07_new (b : List UInt8) : (new b).WF ∧ toBytes (new b) = b := by
  refine ⟨⟨?_, ?_⟩, ?_⟩
  · intro c hc; simp [new] at hc; subst hc; exact Chunk.new_WF b
  · simp [new, Chunk.new_len]
  · simp [toBytes, new, Chunk.new_view]

theorem c07_header (m : Msg) (h : List UInt8) (hm : m.WF) :
    (header m h).WF ∧ toBytes (header m h) = h ++ toBytes m := by
  refine ⟨⟨?_, ?_⟩, ?_⟩
  · exact AllWF_cons.2 ⟨Chunk.new_WF h, hm.1⟩
  · simp [header, Chunk.new_len, hm.2]; omega
  · simp [toBytes, header, Chunk.new_view]

theorem c07_concat (m o : Msg) (hm : m.WF) (ho : o.WF) :
    (concatenate m o).WF ∧ toBytes (concatenate m o) = toBytes m ++ toBytes o := by
  refine ⟨⟨?_, ?_⟩, ?_⟩
  · exact AllWF_append.2 ⟨hm.1, ho.1⟩
  · simp [concatenate, hm.2, ho.2]
  · simp [toBytes, concatenate]

/-- `slice` by any of the six range forms: same bytes as on a vector, same panic condition. -/
theorem c07_slice (m : Msg) (f : RangeForm) (hm : m.WF) :
    match slice m f with
    | .ok m' => m'.WF ∧ Spec.slice (toBytes m) f = .ok (toBytes m')
    | .error e => Spec.slice (toBytes m) f = .error e := by
  have hl := c07_len m hm
  unfold slice Spec.slice
  cases hr : f.toSliceRange with
  | error e => simp
  | ok r =>
    simp only [sliceInner, ← hl]
    by_cases hle : r.start + r.len.getD 0 ≤ m.len
    · have hb : r.start + r.len.getD (m.len - r.start) ≤ total m.chunks := by
        rw [← hm.2]; cases hlen : r.len with
        | none => simp; omega
        | some l => simp [hlen] at hle ⊢; omega
      obtain ⟨w, e, t⟩ := slice_refines m.chunks r.start (r.len.getD (m.len - r.start)) hm.1 hb
      simp only [if_pos hle]
      refine ⟨⟨w, t.symm⟩, ?_⟩
      simp only [toBytes]; unfold flat at e; rw [e]
    · simp only [if_neg hle]

theorem c07_cut (m : Msg) (n : Nat) (hm : m.WF) :
    match cut m n with
    | .ok (rest, removed) => rest.WF ∧ removed.WF ∧ n ≤ (toBytes m).length ∧
        toBytes removed = (toBytes m).take n ∧ toBytes rest = (toBytes m).drop n
    | .error _ => (toBytes m).length < n := by
  have hl := c07_len m hm
  unfold cut
  by_cases hle : n ≤ m.len
  · obtain ⟨a1, a2, a3, a4, a5, a6⟩ := cutChunks_spec m.chunks n hm.1 (by rw [← hm.2]; exact hle)
    simp only [if_pos hle]
    refine ⟨⟨a2, ?_⟩, ⟨a1, a5.symm⟩, by omega, ?_, ?_⟩
    · simp [a6, hm.2]
    · unfold toBytes; unfold flat at a3; exact a3
    · unfold toBytes; unfold flat at a4; exact a4
  · simp only [if_neg hle]; omega

theorem c07_remove_front (m : Msg) (n : Nat) (hm : m.WF) :
    match removeFront m n with
    | .ok m' => m'.WF ∧ n ≤ (toBytes m).length ∧ toBytes m' = (toBytes m).drop n
    | .error _ => (toBytes m).length < n := by
  have hl := c07_len m hm
  unfold removeFront
  by_cases hle : n ≤ m.len
  · obtain ⟨a1, a2, a3⟩ := removeFrontChunks_spec m.chunks n hm.1 (by rw [← hm.2]; exact hle)
    simp only [if_pos hle]
    refine ⟨⟨a1, ?_⟩, by omega, ?_⟩
    · simp [a3, hm.2]
    · unfold toBytes; unfold flat at a2; exact a2
  · simp only [if_neg hle]; omega

/-- `==` on messages is equality of the byte strings -/
theorem c07_eq_iff (a b : Msg) : beq a b = true ↔ toBytes a = toBytes b := by
  simp [beq]

/-- What each range form denotes (for endpoints inside the message).  Note `a..b` with `b < a`
    denotes the empty string at `a` (Rust `Vec` indexing would panic; `Message::slice` does not). -/
theorem c07_ranges (v : List UInt8) (a b : Nat) :
    (a ≤ b → b ≤ v.length → Spec.slice v (.range a b) = .ok ((v.drop a).take (b - a))) ∧
    (b < a → a ≤ v.length → Spec.slice v (.range a b) = .ok []) ∧
    (a ≤ v.length → Spec.slice v (.rangeFrom a) = .ok (v.drop a)) ∧
    (Spec.slice v .rangeFull = .ok v) ∧
    (a ≤ b + 1 → b + 1 ≤ v.length → Spec.slice v (.rangeIncl a b) = .ok ((v.drop a).take (b + 1 - a))) ∧
    (b ≤ v.length → Spec.slice v (.rangeTo b) = .ok (v.take b)) ∧
    (b + 1 ≤ v.length → Spec.slice v (.rangeToIncl b) = .ok (v.take (b + 1))) ∧
    (v.length < a → ∃ e, Spec.slice v (.rangeFrom a) = .error e) ∧
    (v.length < b → ∃ e, Spec.slice v (.rangeTo b) = .error e) := by
  refine ⟨?_, ?_, ?_, ?_, ?_, ?_, ?_, ?_, ?_⟩
  · intro h1 h2; simp [Spec.slice, RangeForm.toSliceRange]; omega
  · intro h1 h2
    have : b - a = 0 := by omega
    simp [Spec.slice, RangeForm.toSliceRange, this, h2]
  · intro h; simp [Spec.slice, RangeForm.toSliceRange, h, List.take_of_length_le]
  · simp [Spec.slice, RangeForm.toSliceRange]
  · intro h1 h2
    have : ¬ (b + 1 < a) := by omega
    simp [Spec.slice, RangeForm.toSliceRange, this]; omega
  · intro h; simp [Spec.slice, RangeForm.toSliceRange, h]
  · intro h; simp [Spec.slice, RangeForm.toSliceRange]; omega
  · intro h; refine ⟨"panic:assert:slice_inner", ?_⟩
    simp only [Spec.slice, RangeForm.toSliceRange]; rw [if_neg]; simp; omega
  · intro h; refine ⟨"panic:assert:slice_inner", ?_⟩
    simp only [Spec.slice, RangeForm.toSliceRange]; rw [if_neg]; simp; omega

theorem PoolWF_append {p : List Msg} {m : Msg} (hp : PoolWF p) (hm : m.WF) : PoolWF (p ++ [m]) := by
  intro x hx; simp at hx; rcases hx with hx | rfl
  · exact hp x hx
  · exact hm

theorem PoolWF_set {p : List Msg} {m : Msg} {i : Nat} (hp : PoolWF p) (hm : m.WF) : PoolWF (p.set i m) := by
  intro x hx
  rcases List.mem_or_eq_of_mem_set hx with hx | rfl
  · exact hp x hx
  · exact hm

theorem PoolWF_get {p : List Msg} {m : Msg} {i : Nat} (hp : PoolWF p) (h : p[i]? = some m) : m.WF :=
  hp m (List.mem_of_getElem? h)

/-- **One step of the pool machine refines one step on plain vectors** — result bytes of every
    pool member, and which ops panic, coincide. -/
theorem c07_step (pool : List Msg) (op : Op) (hp : PoolWF pool) :
    match step pool op with
    | .ok p' => PoolWF p' ∧ Spec.step (pool.map toBytes) op = .ok (p'.map toBytes)
    | .error e => Spec.step (pool.map toBytes) op = .error e := by
  cases op with
  | new b =>
    simp only [step, Spec.step]
    exact ⟨PoolWF_append hp (c07_new b).1, by simp [(c07_new b).2]⟩
  | header i h =>
    simp only [step, Spec.step, List.getElem?_map]
    cases hi : pool[i]? with
    | none => simp
    | some m =>
      have := c07_header m h (PoolWF_get hp hi)
      simp only [Option.map_some]
      exact ⟨PoolWF_set hp this.1, by simp [List.map_set, this.2]⟩
  | concat i j =>
    simp only [step, Spec.step, List.getElem?_map]
    cases hi : pool[i]? with
    | none => simp
    | some m =>
      cases hj : pool[j]? with
      | none => simp
      | some o =>
        have := c07_concat m o (PoolWF_get hp hi) (PoolWF_get hp hj)
        simp only [Option.map_some]
        exact ⟨PoolWF_set hp this.1, by simp [List.map_set, this.2]⟩
  | slice i f =>
    simp only [step, Spec.step, List.getElem?_map]
    cases hi : pool[i]? with
    | none => simp
    | some m =>
      have := c07_slice m f (PoolWF_get hp hi)
      simp only [Option.map_some]
      cases hs : slice m f with
      | error e => simp only [hs] at this ⊢; simp [this]
      | ok m' =>
        simp only [hs] at this ⊢
        exact ⟨PoolWF_set hp this.1, by simp [this.2, List.map_set]⟩
  | cut i n =>
    simp only [step, Spec.step, List.getElem?_map]
    cases hi : pool[i]? with
    | none => simp
    | some m =>
      have := c07_cut m n (PoolWF_get hp hi)
      simp only [Option.map_some]
      cases hs : cut m n with
      | error e =>
        simp only [hs] at this ⊢
        have hne : ¬ n ≤ (toBytes m).length := by omega
        have he : e = "panic:assert:cut" := by
          unfold cut at hs; split at hs <;> simp at hs; exact hs.symm
        simp [hne, he]
      | ok r =>
        obtain ⟨rest, removed⟩ := r
        simp only [hs] at this ⊢
        obtain ⟨w1, w2, hle, e1, e2⟩ := this
        exact ⟨PoolWF_append (PoolWF_set hp w1) w2, by simp [hle, e1, e2, List.map_set]⟩
  | removeFront i n =>
    simp only [step, Spec.step, List.getElem?_map]
    cases hi : pool[i]? with
    | none => simp
    | some m =>
      have := c07_remove_front m n (PoolWF_get hp hi)
      simp only [Option.map_some]
      cases hs : removeFront m n with
      | error e =>
        simp only [hs] at this ⊢
        have hne : ¬ n ≤ (toBytes m).length := by omega
        have he : e = "panic:assert:remove_front" := by
          unfold removeFront at hs; split at hs <;> simp at hs; exact hs.symm
        simp [hne, he]
      | ok m' =>
        simp only [hs] at this ⊢
        obtain ⟨w1, hle, e1⟩ := this
        exact ⟨PoolWF_set hp w1, by simp [hle, e1, List.map_set]⟩
  | clone i =>
    simp only [step, Spec.step, List.getElem?_map]
    cases hi : pool[i]? with
    | none => simp
    | some m =>
      simp only [Option.map_some]
      exact ⟨PoolWF_append hp (PoolWF_get hp hi), by simp⟩

/-- **C07, all histories**: for every operation sequence from any well-formed pool (in
    particular the empty one) the bytes of *every* pool member equal those obtained by running
    the same sequence on plain byte vectors.  Unbounded: induction on the sequence. -/
theorem c07_history (ops : List Op) (pool : List Msg) (hp : PoolWF pool) :
    PoolWF (run pool ops) ∧ (run pool ops).map toBytes = Spec.run (pool.map toBytes) ops := by
  induction ops generalizing pool with
  | nil => exact ⟨hp, rfl⟩
  | cons op ops ih =>
    have h := c07_step pool op hp
    unfold run Spec.run
    cases hs : step pool op with
    | error e => simp only [hs] at h ⊢; rw [h]; exact ih pool hp
    | ok p' => simp only [hs] at h ⊢; rw [h.2]; exact ih p' h.1

theorem c07_history_from_empty (ops : List Op) :
    (run [] ops).map toBytes = Spec.run [] ops :=
  (c07_history ops [] (by intro m hm; cases hm)).2

/-- Independence of derived messages: an op aimed at pool slot `i` leaves every other existing
    slot's value untouched (clone/cut/new only append). -/
def Op.target : Op → Option Nat
  | .new _ => none | .header i _ => some i | .concat i _ => some i | .slice i _ => some i
  | .cut i _ => some i | .removeFront i _ => some i | .clone _ => none

theorem c07_independent (pool p' : List Msg) (op : Op) (j : Nat) (hj : j < pool.length)
    (hne : op.target ≠ some j) (hs : step pool op = .ok p') : p'[j]? = pool[j]? := by
  cases op <;> simp only [step] at hs
  case new b => cases hs; simp [List.getElem?_append_left hj]
  case header i h =>
    split at hs <;> cases hs
    have : i ≠ j := by intro e; subst e; simp [Op.target] at hne
    simp [List.getElem?_set_ne this]
  case concat i k =>
    split at hs <;> cases hs
    have : i ≠ j := by intro e; subst e; simp [Op.target] at hne
    simp [List.getElem?_set_ne this]
  case slice i f =>
    split at hs
    · split at hs <;> cases hs
      have : i ≠ j := by intro e; subst e; simp [Op.target] at hne
      simp [List.getElem?_set_ne this]
    · cases hs
  case cut i n =>
    split at hs
    · split at hs <;> cases hs
      have : i ≠ j := by intro e; subst e; simp [Op.target] at hne
      rw [List.getElem?_append_left (by simpa using hj)]
      simp [List.getElem?_set_ne this]
    · cases hs
  case removeFront i n =>
    split at hs
    · split at hs <;> cases hs
      have : i ≠ j := by intro e; subst e; simp [Op.target] at hne
      simp [List.getElem?_set_ne this]
    · cases hs
  case clone i =>
    split at hs <;> cases hs
    simp [List.getElem?_append_left hj]

/-! non-vacuity: a concrete multi-chunk, partly sliced message is well-formed -/
example : (header (new [1, 2, 3]) [9, 8]).WF := (c07_header _ _ (c07_new _).1).1
example : toBytes (header (new [1, 2, 3]) [9, 8]) = [9, 8, 1, 2, 3] := by decide

end Elvis.Msg
