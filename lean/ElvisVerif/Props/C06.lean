import ElvisVerif.Lemmas.ArpAgree
import ElvisVerif.Lemmas.ArpCodec
import ElvisVerif.Lemmas.ArpProgress
import ElvisVerif.Lemmas.ArpMask
/-!
# C06 — ARP resolves an IP address to its owner's (or the gateway's) MAC

Property theorems over the transition system of `Model/Arp.lean`.  A state is *reachable* when it
is `run (initWith neg slots mtu) ls` for some machine layout and some label list `ls`; the label
list carries every choice: claims, resolve calls, which frame is delivered to which tap next,
which frame is lost, when a woken waiter runs, which time-out is served next, how time passes.
So "for every reachable state" = for all configurations, all delivery orders, all loss patterns,
all schedules.
-/
namespace Elvis.Arp
open Elvis.Gen.Arp

/-- reachable from an initial LAN by some sequence of transitions -/
def Reach (s : Net) : Prop :=
  ∃ (neg : Bool) (slots : List Nat) (mtu : Nat) (ls : List Label), s = run (initWith neg slots mtu) ls

/-- the claimed addresses are pairwise distinct across machines -/
def Distinct (s : Net) : Prop :=
  ∀ (i j : Nat) (mi mj : Machine) (x : Ip), s.machines[i]? = some mi → s.machines[j]? = some mj →
    mi.owns x = true → mj.owns x = true → i = j

/-- machine `j` is THE machine claiming `x`, and `mac` is the MAC of one of its taps -/
def OwnerMac (s : Net) (x : Ip) (mac : Mac) : Prop :=
  ∃ (j : Nat) (o : Machine), s.machines[j]? = some o ∧ o.owns x = true ∧ mac ∈ o.macs ∧
    ∀ (j' : Nat) (o' : Machine), s.machines[j']? = some o' → o'.owns x = true → j' = j

theorem Reach.inv {s : Net} (h : Reach s) : Inv s := by
  obtain ⟨neg, slots, mtu, ls, rfl⟩ := h
  exact (Inv.init neg slots mtu).run ls

theorem Reach.tinv {s : Net} (h : Reach s) : TInv s := by
  obtain ⟨neg, slots, mtu, ls, rfl⟩ := h
  exact (TInv.init neg slots mtu).run ls

theorem Reach.step {s : Net} (h : Reach s) (l : Label) : Reach (step s l) := by
  obtain ⟨neg, slots, mtu, ls, rfl⟩ := h
  exact ⟨neg, slots, mtu, ls ++ [l], by simp [run, List.foldl_append]⟩

theorem Reach.run {s : Net} (h : Reach s) (ls : List Label) : Reach (run s ls) := by
  induction ls generalizing s with
  | nil => exact h
  | cons l ls ih => exact ih (h.step l)

theorem Owned.ownerMac {s : Net} (hd : Distinct s) {x : Ip} {mac : Mac} (h : Owned s.machines x mac) :
    OwnerMac s x mac := by
  obtain ⟨j, o, hj, hx, hm⟩ := h
  exact ⟨j, o, hj, hx, hm, fun j' o' hj' hx' => hd j' j o' o x hj' hj hx' hx⟩

/-! ## wire form -/

/-- `ArpPacket::from_bytes (build p) = p` for every packet whose fields fit their wire widths
    (MAC 48 bits, IP 32 bits); so the structured frames of the transition system and the bytes on
    the wire carry the same information.  The wire form is 28 bytes. -/
theorem c06_codec_roundtrip (p : Packet) (h : p.WF) (rest : List UInt8) :
    fromBytes (build p ++ rest) = .ok p ∧ (build p).length = 28 :=
  ⟨fromBytes_build p h rest, build_length p⟩

/-! ## c06_reply_only_owner -/

/-- `Arp::demux` answers iff the packet is a request for an address in `local_ips` (and the reply
    fits the MTU); the reply names the receiving tap and the requested address, and goes to the
    requester only.  Every parsed packet's sender mapping is learned. -/
theorem c06_reply_iff (m : Machine) (tapMac : Mac) (mtu : Nat) (p : Packet) :
    ((m.demux tapMac mtu p).2 = some ⟨tapMac, some p.smac, newReply tapMac p.tip p.smac p.sip, false⟩ ↔
      (p.oper = .request ∧ m.owns p.tip = true ∧ packetSize ≤ mtu)) ∧
    ((m.demux tapMac mtu p).2 = none ↔ ¬ (p.oper = .request ∧ m.owns p.tip = true ∧ packetSize ≤ mtu)) ∧
    alookup p.sip (m.demux tapMac mtu p).1.table = some (.ok p.smac) := by
  rw [Machine.demux_snd, Machine.demux_fst]
  refine ⟨?_, ?_, alookup_ainsert_same _ _ _⟩
  · by_cases h : p.oper = .request ∧ m.owns p.tip = true ∧ packetSize ≤ mtu
    · simp [h, replyFrame]
    · simp [h]
  · by_cases h : p.oper = .request ∧ m.owns p.tip = true ∧ packetSize ≤ mtu
    · simp [h]
    · simp [h]

/-- In every reachable state every ARP frame that was ever put on the wire — request or reply —
    carries an (IP, MAC) pair of its sender: the IP is claimed by a machine one of whose taps has
    that MAC, and the frame's link-level sender is that MAC.  With distinct claims that machine is
    THE owner: nobody but the owner of `x` ever answers for `x`. -/
theorem c06_reply_only_owner {s : Net} (hr : Reach s) (hd : Distinct s) (f : Frame) (hf : f ∈ s.wire) :
    OwnerMac s f.pkt.sip f.pkt.smac ∧ f.smac = f.pkt.smac :=
  ⟨(hr.inv.frames f hf).1.ownerMac hd, (hr.inv.frames f hf).2⟩

/-! ## c06_resolve_sound -/

/-- Under "claimed addresses are pairwise distinct", in EVERY reachable state (all delivery
    orders, all loss patterns, all schedules): every `Ok m` entry for address `x` in any machine's
    ARP table, and every `Ok m` ever returned by a resolution whose (gateway-substituted)
    destination is `x`, has `m` = the MAC of a tap of the one machine claiming `x`. -/
theorem c06_resolve_sound {s : Net} (hr : Reach s) (hd : Distinct s) :
    (∀ (k : Nat) (m : Machine) (x : Ip) (mac : Mac), s.machines[k]? = some m →
      alookup x m.table = some (.ok mac) → OwnerMac s x mac) ∧
    (∀ r ∈ s.resolvers, ∀ (mac : Mac) (t : Nat), r.result = some (.ok mac, t) → OwnerMac s r.dest mac) :=
  ⟨fun k m x mac hk hx => (hr.inv.table k m x mac hk hx).ownerMac hd,
   fun r hmem mac t e => ((hr.inv.resolvers r hmem).1 mac t e).ownerMac hd⟩

/-- the address a resolution asks for: the default gateway exactly when the resolver's subnet
    configuration for `local` puts `remote` outside (`id(local,mask) ≠ id(remote,mask)`) -/
theorem c06_dest_gateway (m : Machine) (loc remote : Ip) (sn : Subnet)
    (h : alookup loc m.localIps = some (some sn)) (hne : netId loc sn.mask ≠ netId remote sn.mask) :
    destOf m loc remote = sn.gateway := by
  simp [destOf, h, hne]

theorem c06_dest_same_subnet (m : Machine) (loc remote : Ip) (sn : Subnet)
    (h : alookup loc m.localIps = some (some sn)) (heq : netId loc sn.mask = netId remote sn.mask) :
    destOf m loc remote = remote := by
  simp [destOf, h, heq]

theorem c06_dest_no_subnet (m : Machine) (loc remote : Ip)
    (h : alookup loc m.localIps = none ∨ alookup loc m.localIps = some none) :
    destOf m loc remote = remote := by
  rcases h with h | h <;> simp [destOf, h]

/-- what the gateway decision compares: with a mask of `b` leading ones (every `Ipv4Mask` is one),
    `id(local,mask) = id(remote,mask)` iff the two 32-bit addresses agree above the `32 - b` host bits -/
theorem c06_same_subnet_iff (a c b : Nat) (ha : a < 2 ^ 32) (hc : c < 2 ^ 32) (hb : b ≤ 32) :
    netId a (maskFromBitcount b) = netId c (maskFromBitcount b) ↔ a / 2 ^ (32 - b) = c / 2 ^ (32 - b) :=
  netId_eq_iff a c b ha hc hb

/-- the resolver started by a `resolve` transition asks for `destOf` of the machine after it has
    listened on `local` -/
theorem c06_resolve_dest (s : Net) (k : Nat) (loc remote : Ip) (slot : Nat) (m0 : Machine)
    (hm : s.machines[k]? = some m0) (hp : (step s (.resolve k loc remote slot)).panic = none) :
    ∃ r, (step s (.resolve k loc remote slot)).resolvers = s.resolvers ++ [r] ∧
      r.mach = k ∧ r.loc = loc ∧ r.dest = destOf (m0.listen loc) loc remote ∧ r.started = s.now := by
  unfold Elvis.Arp.step at hp ⊢
  by_cases hpanic : s.panic.isSome = true
  · simp only [hpanic, if_true] at hp
    rw [hp] at hpanic; cases hpanic
  · simp only [hpanic] at hp ⊢
    simp only [Bool.false_eq_true, if_false] at hp ⊢
    unfold Net.resolve at hp ⊢
    simp only [hm] at hp ⊢
    split
    · exact ⟨_, rfl, rfl, rfl, rfl, rfl⟩
    · rename_i hmiss
      simp only [hmiss] at hp
      split
      · rename_i hslot
        simp only [hslot] at hp
        cases hp
      · rename_i mac hmac
        obtain ⟨_, _, _, f4, _, f6, f7, f8, _, f10⟩ :=
          Net.roundOrFail_fields { s with machines := s.machines.set k (m0.listen loc) }
            ⟨k, mac, loc, destOf (m0.listen loc) loc remote, s.now, 0, s.now, none⟩
        refine ⟨_, ?_, f7, f10, f8, f6⟩
        show _ ++ [_] = _
        rw [f4]

/-! ## c06_agreement (values) -/

/-- Any two resolutions of one address — on any machines, at any times, concurrent or not — that
    return `Ok` return MACs of the same machine, the one claiming the address; when that machine
    has a single tap they return the same MAC. -/
theorem c06_agreement {s : Net} (hr : Reach s) (hd : Distinct s) (r1 r2 : Resolver)
    (h1 : r1 ∈ s.resolvers) (h2 : r2 ∈ s.resolvers) (hdest : r1.dest = r2.dest)
    (m1 m2 : Mac) (t1 t2 : Nat) (e1 : r1.result = some (.ok m1, t1)) (e2 : r2.result = some (.ok m2, t2)) :
    ∃ (j : Nat) (o : Machine), s.machines[j]? = some o ∧ o.owns r1.dest = true ∧ m1 ∈ o.macs ∧ m2 ∈ o.macs ∧
      (o.macs.length = 1 → m1 = m2) := by
  obtain ⟨j, o, hj, hx, hm1, huniq⟩ := (c06_resolve_sound hr hd).2 r1 h1 m1 t1 e1
  obtain ⟨j', o', hj', hx', hm2, _⟩ := (c06_resolve_sound hr hd).2 r2 h2 m2 t2 e2
  rw [← hdest] at hx'
  have : j' = j := huniq j' o' hj' hx'
  subst this
  rw [hj] at hj'; cases hj'
  refine ⟨j', o, hj, hx, hm1, hm2, fun hl => ?_⟩
  match hmac : o.macs, hl with
  | [a], _ =>
    rw [hmac] at hm1 hm2
    simp only [List.mem_singleton] at hm1 hm2
    rw [hm1, hm2]

theorem Reach.ainv {s : Net} (h : Reach s) : AInv s := by
  obtain ⟨neg, slots, mtu, ls, rfl⟩ := h
  exact (AInv.init neg slots mtu).run (TInv.init neg slots mtu) ls

/-- Concurrent resolvers of one address on one machine that both succeed do so in the same
    virtual instant: once one of them has its answer the table keeps an `Ok` entry, every other
    waiter is runnable, and the clock cannot advance before it has run.  ("Concurrent": each call
    started no later than the other returned.)  Together with `c06_agreement` — equal MACs — they
    obtain the same answer at the same time, whatever the wake-up order. -/
theorem c06_agreement_time {s : Net} (hr : Reach s) (r1 r2 : Resolver)
    (h1 : r1 ∈ s.resolvers) (h2 : r2 ∈ s.resolvers) (hm : r1.mach = r2.mach) (hdest : r1.dest = r2.dest)
    (m1 m2 : Mac) (t1 t2 : Nat) (e1 : r1.result = some (.ok m1, t1)) (e2 : r2.result = some (.ok m2, t2))
    (c1 : r1.started ≤ t2) (c2 : r2.started ≤ t1) : t1 = t2 := by
  rcases hr.ainv.same r1 h1 r2 h2 ⟨hm, hdest⟩ m1 t1 m2 t2 e1 e2 with h | h | h
  · exact h
  · omega
  · omega

/-- while a resolver is still waiting for an address another resolver of the same machine already
    has an answer for, time stands still: it is served in the same instant -/
theorem c06_waiter_served_at_once {s : Net} (hr : Reach s) (r1 r2 : Resolver)
    (h1 : r1 ∈ s.resolvers) (h2 : r2 ∈ s.resolvers) (hm : r1.mach = r2.mach) (hdest : r1.dest = r2.dest)
    (m1 : Mac) (t1 : Nat) (e1 : r1.result = some (.ok m1, t1)) (e2 : r2.result = none) :
    s.now = t1 ∧ ∀ dt, s.canTick dt = false := by
  refine ⟨hr.ainv.frozen r1 h1 r2 h2 ⟨hm, hdest⟩ m1 t1 e1 e2, fun dt => ?_⟩
  obtain ⟨mac', hh⟩ := (hr.ainv.stable r1 h1 m1 t1 e1).hit
  unfold Net.canTick
  rw [List.all_eq_false]
  refine ⟨r2, h2, ?_⟩
  rw [← hm, ← hdest]
  simp [e2, hh]

/-! ## c06_fail_bounded -/

/-- the retry budget in virtual microseconds -/
def budgetUs : Nat := resendTries * resendDelayUs

/-- Never hangs: while a resolution is waiting, virtual time cannot pass the end of its retry
    budget (time only advances through `tick`, and `tick` is refused while a time-out is due);
    a resolution that has returned did so within the budget. -/
theorem c06_never_hangs {s : Net} (hr : Reach s) (r : Resolver) (hmem : r ∈ s.resolvers) :
    (r.result = none → s.now ≤ r.started + budgetUs) ∧
    (∀ (st : Status) (t : Nat), r.result = some (st, t) → r.started ≤ t ∧ t ≤ r.started + budgetUs) := by
  have h := hr.tinv r hmem
  unfold TimeOk at h
  obtain ⟨h0, h1⟩ := h
  constructor
  · intro hres
    simp only [hres] at h1
    have := mul_le_budget h1.2.2.2
    unfold budgetUs; omega
  · intro st t hres
    simp only [hres] at h1
    exact ⟨h1.1, h1.2.2.1⟩

/-- the source no longer treats a cached failure as an answer (fix of F-C06-1); if the fix is
    reverted the extractor flips the flag and this theorem — and the exact-time claim below, for
    the code as it then is — no longer hold -/
theorem c06_failure_not_cached : cachedFailureIsAnswer = false := by decide

/-- Nobody claims `x` ⇒ every resolution of `x` fails: it never returns `Ok`, it is never left
    waiting beyond its budget, and (cached failures not being answers, MTU admitting an ARP
    packet) it returns `Err` after exactly `RESEND_TRIES · RESEND_DELAY` of virtual time, having
    sent exactly `RESEND_TRIES` requests. -/
theorem c06_fail_bounded {s : Net} (hr : Reach s) (r : Resolver) (hmem : r ∈ s.resolvers)
    (hun : ∀ (j : Nat) (o : Machine), s.machines[j]? = some o → o.owns r.dest = false) :
    (r.result = none → s.now ≤ r.started + budgetUs) ∧
    (∀ (st : Status) (t : Nat), r.result = some (st, t) →
      st = .err ∧ t ≤ r.started + budgetUs ∧
      (s.negCache = false → packetSize ≤ s.mtu → t = r.started + budgetUs ∧ r.sent = resendTries)) := by
  refine ⟨(c06_never_hangs hr r hmem).1, fun st t hres => ?_⟩
  have hst : st = .err := by
    cases st with
    | err => rfl
    | ok mac =>
      obtain ⟨j, o, hj, hx, _⟩ := (hr.inv.resolvers r hmem).1 mac t hres
      rw [hun j o hj] at hx; cases hx
  refine ⟨hst, ((c06_never_hangs hr r hmem).2 st t hres).2, fun hn hm => ?_⟩
  have h := hr.tinv r hmem
  unfold TimeOk at h
  simp only [hres] at h
  exact h.2.2.2.2 hst hn hm

/-! ## c06_success_if_one_exchange -/

/-- a frame whose sender mapping is `(x, mo)` handed to a tap of machine `a`: the table of `a`
    then answers `Ok mo` for `x` -/
theorem deliver_learns {s : Net} {gi a sa : Nat} {g : Frame} {ma : Machine} {tap : Mac}
    (hpan : s.panic = none) (hg : s.wire[gi]? = some g) (hl : g.lost = false)
    (hma : s.machines[a]? = some ma) (hsa : ma.macs[sa]? = some tap)
    (hdst : g.dst = none ∨ g.dst = some broadcastMac ∨ g.dst = some tap) :
    (step s (.deliver gi a sa)).hit a g.pkt.sip = some (.ok g.pkt.smac) ∧
    (step s (.deliver gi a sa)).resolvers = s.resolvers ∧ (step s (.deliver gi a sa)).now = s.now ∧
    (step s (.deliver gi a sa)).panic = none := by
  have hstep : step s (.deliver gi a sa) =
      { s with machines := s.machines.set a (ma.demux tap s.mtu g.pkt).1,
               wire := s.wire ++ (ma.demux tap s.mtu g.pkt).2.toList } := by
    have hp : s.panic.isSome = false := by rw [hpan]; rfl
    unfold Elvis.Arp.step
    simp only [hp, Bool.false_eq_true, if_false]
    unfold Net.deliver
    simp only [hg, hma, hsa, hl, hdst, and_self, if_true]
  rw [hstep]
  refine ⟨?_, rfl, rfl, hpan⟩
  unfold Net.hit
  simp only [List.getElem?_set_self (getElem?_lt hma), Machine.demux_fst, alookup_ainsert_same, tableHit]

/-- Success whenever one request/reply exchange gets through while the resolver is still in its
    retry loop.  `s`: any state in which resolver `i` is waiting for `r.dest`, one of its requests
    (`fi`) is on the wire, machine `j` claims `r.dest` and has a tap `slot` with MAC `mo`.
    (1) Delivering the request to that tap puts the reply `(r.dest, mo) → r.smac` on the wire.
    (2) After ANY further transitions `ls` (other deliveries, losses, retries, time): if the
    reply has not been lost and the resolver is still waiting (its budget is not exhausted and
    nothing else completed it), then delivering the reply to the resolver's tap freezes the clock
    until the resolver has run, and the resolver returns `Ok mo` at that very instant. -/
theorem c06_success_if_one_exchange (s : Net) (i fi j slot sa : Nat) (r : Resolver) (o ma : Machine) (mo : Mac)
    (hpan : s.panic = none) (hri : s.resolvers[i]? = some r)
    (hf : s.wire[fi]? = some (requestFrame r.smac r.loc r.dest))
    (ho : s.machines[j]? = some o) (hown : o.owns r.dest = true) (hmo : o.macs[slot]? = some mo)
    (hma : s.machines[r.mach]? = some ma) (hsa : ma.macs[sa]? = some r.smac)
    (hmtu : packetSize ≤ s.mtu) (ls : List Label) :
    (step s (.deliver fi j slot)).wire[s.wire.length]? =
        some ⟨mo, some r.smac, newReply mo r.dest r.smac r.loc, false⟩ ∧
    ((run (step s (.deliver fi j slot)) ls).panic = none →
     (∀ g, (run (step s (.deliver fi j slot)) ls).wire[s.wire.length]? = some g → g.lost = false) →
     (∀ r2, (run (step s (.deliver fi j slot)) ls).resolvers[i]? = some r2 → r2.result = none) →
     (∀ dt, (step (run (step s (.deliver fi j slot)) ls) (.deliver s.wire.length r.mach sa)).canTick dt = false) ∧
     ∃ r3, (step (step (run (step s (.deliver fi j slot)) ls) (.deliver s.wire.length r.mach sa)) (.wake i)).resolvers[i]?
              = some r3 ∧
           r3.result = some (.ok mo, (run (step s (.deliver fi j slot)) ls).now)) := by
  -- (1) the reply
  have h1 : (step s (.deliver fi j slot)).wire[s.wire.length]? =
      some ⟨mo, some r.smac, newReply mo r.dest r.smac r.loc, false⟩ := by
    unfold Elvis.Arp.step
    simp only [hpan, Option.isSome_none, Bool.false_eq_true, if_false]
    unfold Net.deliver
    simp only [hf, ho, hmo, requestFrame, true_or, and_self, if_true]
    rw [Machine.demux_snd]
    simp only [newRequest, hown, hmtu, and_self, if_true, Option.toList_some, replyFrame]
    simp
  refine ⟨h1, fun hp2 hlost hpend => ?_⟩
  -- (2) what persists along `ls`
  let s1 := step s (.deliver fi j slot)
  let s2 := run s1 ls
  have e01 : Ext s s1 := Ext.step s _
  have e12 : Ext s1 s2 := Ext.run s1 ls
  obtain ⟨g, hg, gp, gd, _, _⟩ := e12.wire _ _ h1
  have hgl : g.lost = false := hlost g hg
  obtain ⟨r2, hr2, rm, rd, _, _, _, _⟩ := (e01.trans e12).res i r hri
  have hr2n : r2.result = none := hpend r2 hr2
  obtain ⟨ma2, hma2, hle⟩ := (e01.trans e12).ms _ ma hma
  have hsa2 : ma2.macs[sa]? = some r.smac := by rw [hle.1]; exact hsa
  have hdst : g.dst = none ∨ g.dst = some broadcastMac ∨ g.dst = some r.smac := by
    rw [gd]; exact Or.inr (Or.inr rfl)
  obtain ⟨k1, k2, k3, k4⟩ := deliver_learns (s := s2) (gi := s.wire.length) (a := r.mach) (sa := sa) hp2 hg hgl hma2 hsa2 hdst
  rw [gp] at k1
  simp only [newReply] at k1
  let s3 := step s2 (.deliver s.wire.length r.mach sa)
  have hr3 : s3.resolvers[i]? = some r2 := by show (step s2 _).resolvers[i]? = _; rw [k2]; exact hr2
  have hhit : s3.hit r2.mach r2.dest = some (.ok mo) := by rw [rm, rd]; exact k1
  constructor
  · intro dt
    show s3.canTick dt = false
    unfold Net.canTick
    rw [List.all_eq_false]
    refine ⟨r2, List.mem_of_getElem? hr3, ?_⟩
    simp [hr2n, hhit]
  · refine ⟨{ r2 with result := some (.ok mo, s3.now) }, ?_, by show some (Status.ok mo, s3.now) = some (Status.ok mo, s2.now); rw [k3]⟩
    show (step s3 (.wake i)).resolvers[i]? = _
    have k4' : s3.panic = none := k4
    unfold Elvis.Arp.step
    simp only [k4', Option.isSome_none, Bool.false_eq_true, if_false]
    unfold Net.wake
    simp only [hr3, hr2n, hhit, if_true]
    exact List.getElem?_set_self (getElem?_lt hr3)

/-! ## never another machine's MAC -/

/-- taps of different machines never share a MAC (`Network::next_mac` numbers them consecutively) -/
theorem c06_macs_unique {s : Net} (hr : Reach s) (i j : Nat) (mi mj : Machine) (mac : Mac)
    (hi : s.machines[i]? = some mi) (hj : s.machines[j]? = some mj) (h1 : mac ∈ mi.macs) (h2 : mac ∈ mj.macs) :
    i = j := by
  obtain ⟨neg, slots, mtu, ls, rfl⟩ := hr
  have ht : (run (initWith neg slots mtu) ls).taps = assignMacs 0 slots := by
    rw [run_taps, init_taps]
  have hs := (assignMacs_sorted slots 0).1
  rw [← ht] at hs
  refine row_unique hs (i := i) (j := j) (li := mi.macs) (lj := mj.macs) ?_ ?_ h1 h2
  · simp [Net.taps, hi]
  · simp [Net.taps, hj]

/-- A resolution never yields another machine's address: the MAC it returns belongs to a tap of
    the machine claiming the destination and to no tap of any other machine. -/
theorem c06_never_other_machine {s : Net} (hr : Reach s) (hd : Distinct s) (r : Resolver) (hmem : r ∈ s.resolvers)
    (mac : Mac) (t : Nat) (e : r.result = some (.ok mac, t)) (j' : Nat) (o' : Machine)
    (hj' : s.machines[j']? = some o') (hmac : mac ∈ o'.macs) : o'.owns r.dest = true := by
  obtain ⟨j, o, hj, hx, hm, _⟩ := (c06_resolve_sound hr hd).2 r hmem mac t e
  have : j' = j := c06_macs_unique hr j' j o' o mac hj' hj hmac hm
  subst this
  rw [hj] at hj'; cases hj'
  exact hx

/-! ## regression witnesses of F-C06-1 (fixed) -/

/-- `n` further rounds without any delivery (time-out of resolver 0 every `RESEND_DELAY`) -/
def rounds (n : Nat) : List Label :=
  (List.range n).flatMap fun _ => [Label.tick resendDelayUs, Label.timeout 0]

/-- a resolution of address 2 fails for want of an owner; the owner appears 0.5 s later; 0.5 s
    after that the address is resolved again on a loss-free network -/
def staleWitness : List Label :=
  [.listen 0 1, .resolve 0 1 2 0] ++ rounds resendTries ++
  [.tick 500000, .listen 1 2, .tick 500000, .resolve 0 1 2 0,
   .deliver resendTries 1 0, .deliver (resendTries + 1) 0 0, .wake 1]

/-- a second resolver joins half a `RESEND_DELAY` before the first one gives up; its request is
    answered a quarter of a `RESEND_DELAY` after that -/
def joinWitness : List Label :=
  [.listen 0 1, .listen 1 2, .resolve 0 1 2 0] ++ rounds (resendTries - 1) ++
  [.tick (resendDelayUs / 2), .resolve 0 1 2 0, .tick (resendDelayUs - resendDelayUs / 2), .timeout 0, .wake 1,
   .tick (resendDelayUs / 4), .deliver resendTries 1 0, .deliver (resendTries + 1) 0 0, .wake 1]

def resultOf (s : Net) (i : Nat) : Option (Status × Nat) := (s.resolvers[i]?).bind (·.result)

/-- With the cached failure treated as an answer (the code before the fix) the second resolution
    returns `Err` at once although the address is claimed and nothing is lost; with the fix it
    returns the owner's MAC. -/
theorem c06_stale_failure_regression :
    resultOf (run (initWith true [1, 1] 65535) staleWitness) 0 = some (.err, budgetUs) ∧
    resultOf (run (initWith true [1, 1] 65535) staleWitness) 1 = some (.err, budgetUs + 1000000) ∧
    resultOf (run (initWith false [1, 1] 65535) staleWitness) 1 = some (.ok 1, budgetUs + 1000000) := by
  refine ⟨?_, ?_, ?_⟩ <;> decide

/-- With the cached failure waking waiters (before the fix) the resolver that joined half a
    `RESEND_DELAY` before the end of the first one's budget fails together with it, having used
    a fraction of its own budget; with the fix it gets the owner's answer a quarter of a
    `RESEND_DELAY` later. -/
theorem c06_early_failure_regression :
    resultOf (run (initWith true [1, 1] 65535) joinWitness) 1 = some (.err, budgetUs) ∧
    resultOf (run (initWith false [1, 1] 65535) joinWitness) 1 = some (.ok 1, budgetUs + resendDelayUs / 4) := by
  constructor <;> decide

/-- No time-lock: from every reachable state (of the code as it is: cached failures are not
    answers), serving resolvers `0, 1, …` in turn — `wake i` lets a runnable waiter read the table,
    `timeout i` serves a due time-out; finitely many transitions, no time passing — leads to a state
    in which the clock may advance.  So "time cannot pass a waiting resolver's deadline"
    (`c06_never_hangs`) is never satisfied by the model freezing time for ever: the resolver does
    return. -/
theorem c06_time_can_pass {s : Net} (hr : Reach s) (hn : s.negCache = false) (hp : s.panic = none) :
    (run s (serveAll s.resolvers.length)).now = s.now ∧
    (run s (serveAll s.resolvers.length)).canTick 1 = true := by
  obtain ⟨h1, _, _, h4, _, h6⟩ := serveAll_spec hp hn hr.tinv (by decide) s.resolvers.length
  refine ⟨h1, canTick_of_unblocked fun r hmem => ?_⟩
  obtain ⟨i, hi⟩ := List.getElem?_of_mem hmem
  exact h6 i (by rw [← h4]; exact getElem?_lt hi) r hi

/-- the extracted retry budget is a real budget (whatever its values: the theorems above are
    stated over the extracted constants, not over 10 × 200 ms) -/
theorem c06_budget_positive : 0 < resendTries ∧ 0 < resendDelayUs ∧ 0 < budgetUs := by decide

/-! ## non-vacuity: a concrete reachable state satisfying the hypotheses above -/

/-- the state after `staleWitness` on the fixed code: machine 0 (MAC 0) claims address 1,
    machine 1 (MAC 1) claims address 2, the first resolution failed, the second returned MAC 1 -/
def exampleState : Net := run (initWith false [1, 1] 65535) staleWitness

theorem exampleState_reach : Reach exampleState := ⟨false, [1, 1], 65535, staleWitness, rfl⟩

theorem exampleState_machines :
    exampleState.machines =
      [⟨[0], [(1, none)], [(2, .ok 1)]⟩, ⟨[1], [(2, none)], [(1, .ok 0)]⟩] := by decide

theorem exampleState_distinct : Distinct exampleState := by
  intro i j mi mj x hi hj oi oj
  rw [exampleState_machines] at hi hj
  have own0 : ∀ y, Machine.owns ⟨[0], [(1, none)], [(2, .ok 1)]⟩ y = true → y = 1 := by
    intro y h
    simp only [Machine.owns, alookup] at h
    by_cases hy : 1 = y
    · exact hy.symm
    · simp [hy] at h
  have own1 : ∀ y, Machine.owns ⟨[1], [(2, none)], [(1, .ok 0)]⟩ y = true → y = 2 := by
    intro y h
    simp only [Machine.owns, alookup] at h
    by_cases hy : 2 = y
    · exact hy.symm
    · simp [hy] at h
  match i, j with
  | 0, 0 => rfl
  | 1, 1 => rfl
  | 0, 1 =>
    simp only [List.getElem?_cons_zero, List.getElem?_cons_succ, Option.some.injEq] at hi hj
    subst hi; subst hj
    have h1 := own0 x oi; have h2 := own1 x oj
    rw [h1] at h2; cases h2
  | 1, 0 =>
    simp only [List.getElem?_cons_zero, List.getElem?_cons_succ, Option.some.injEq] at hi hj
    subst hi; subst hj
    have h1 := own1 x oi; have h2 := own0 x oj
    rw [h1] at h2; cases h2
  | 0, j + 2 => simp at hj
  | 1, j + 2 => simp at hj
  | i + 2, _ => simp at hi

example : (exampleState.resolvers.map (·.result)) = [some (.err, budgetUs), some (.ok 1, budgetUs + 1000000)] := by decide

/-- the soundness theorem applied to the concrete state: the second resolution's MAC 1 is a tap
    of the machine claiming address 2 -/
example : OwnerMac exampleState 2 1 := by
  have h := (c06_resolve_sound exampleState_reach exampleState_distinct).1 0
    ⟨[0], [(1, none)], [(2, .ok 1)]⟩ 2 1 (by rw [exampleState_machines]; rfl) (by decide)
  exact h

/-- gateway substitution on concrete values: 10.0.0.1/24 → 10.0.1.3 goes to the gateway 10.0.0.2;
    → 10.0.0.77 stays -/
example : destOf ⟨[0], [(0x0A000001, some ⟨maskFromBitcount 24, 0x0A000002⟩)], []⟩ 0x0A000001 0x0A000103 = 0x0A000002 := by decide
example : destOf ⟨[0], [(0x0A000001, some ⟨maskFromBitcount 24, 0x0A000002⟩)], []⟩ 0x0A000001 0x0A00004D = 0x0A00004D := by decide
example : (List.range 34).map maskFromBitcount =
    [0, 0x80000000, 0xC0000000, 0xE0000000, 0xF0000000, 0xF8000000, 0xFC000000, 0xFE000000, 0xFF000000,
     0xFF800000, 0xFFC00000, 0xFFE00000, 0xFFF00000, 0xFFF80000, 0xFFFC0000, 0xFFFE0000, 0xFFFF0000,
     0xFFFF8000, 0xFFFFC000, 0xFFFFE000, 0xFFFFF000, 0xFFFFF800, 0xFFFFFC00, 0xFFFFFE00, 0xFFFFFF00,
     0xFFFFFF80, 0xFFFFFFC0, 0xFFFFFFE0, 0xFFFFFFF0, 0xFFFFFFF8, 0xFFFFFFFC, 0xFFFFFFFE, 0xFFFFFFFF, 0xFFFFFFFF] := by decide

end Elvis.Arp
