//! C02: socket I/O across the full stack is intact, ordered and bounded.
//!
//! Two sub-commands (runs of tools/props/C02.json):
//!
//! * `c02` — `Socket::recv` / `recv_msg` correspondence.  Two machines with a connected UDP socket
//!   each, loss-free network, paused current_thread runtime: the harness knows exactly which
//!   datagrams sit in B's queue (and sees the outcome of `SocketSession::receive` through the
//!   `socket_api::verif` observer), then issues `recv(n)` / `recv_msg` with n around the message
//!   boundaries, blocking and non-blocking.  Every call is one op line; the Lean model
//!   (`Model/Socket.lean` (i),(ii)) must print the same result.
//! * `c02-stack` — full-stack runs: 1..N clients and one listening server over a `Network` with a
//!   seeded fault planner (MTU >= 100, jitter, drops with bounded consecutive loss, duplicates),
//!   k writes of 1 B .. 100 KB back-to-back or spaced, reader asking random n, on the paused
//!   current_thread runtime AND on multi_thread with 2/4/16 workers.  On the paused runtime the
//!   complete socket-layer event sequence of the server (listen / new connection / chunk arrival
//!   with its outcome / accept activation / accept replay / recv) is replayed through the Lean
//!   model of the session table; on every runtime the order in which the writes reach `Tcb::send`
//!   is checked against the hand-off model (`reachable`).
//!
//! Oracle (the property, independent of the code): per connection the bytes read are the
//! concatenation of that client's writes in program order; every `recv(n)` returns at most n
//! bytes; a datagram read is exactly one datagram sent by the connected peer.
use crate::scaffold::*;
use elvis_core::{
    machine::Machine,
    message::Message,
    network::VerifFramePlan,
    protocol::{DemuxError, StartError},
    protocols::{
        ipv4::Ipv4Address,
        socket_api::{
            socket::{ProtocolFamily, Socket, SocketType},
            verif as sv,
        },
        Arp, Endpoint, Endpoints, SocketAPI, TcpListener, TcpStream,
    },
    Control, Protocol, Session, Shutdown,
};
use hcommon::*;
use std::cell::Cell;
use std::collections::HashMap;
use std::sync::atomic::{AtomicUsize, Ordering};
use std::sync::{Arc, Mutex};
use std::time::Duration;
use tokio::sync::Barrier;
use tokio::time::sleep;

// ------------------------------------------------------------------------------------------
// payload pattern and digest shared with the Lean driver
// ------------------------------------------------------------------------------------------

fn pat_byte(c: u64, o: u64) -> u8 {
    ((o * 131 + (o / 256) * 29 + (o / 65536) * 7 + c * 53 + 11) % 256) as u8
}
fn pat_range(c: u64, off: u64, len: u64) -> Vec<u8> {
    (0..len).map(|i| pat_byte(c, off + i)).collect()
}
/// FNV-1a, 32 bit
fn digest(b: &[u8]) -> u32 {
    let mut h: u64 = 2166136261;
    for x in b {
        h = ((h ^ (*x as u64)) * 16777619) % 4294967296;
    }
    h as u32
}

// ------------------------------------------------------------------------------------------
// socket-layer event log (process-wide: one scenario at a time per worker process)
// ------------------------------------------------------------------------------------------

#[derive(Clone, Debug)]
enum SEv {
    Listen { ep: Ep, backlog: usize },
    Write { client: usize, idx: usize, len: usize },
    SendFailed { client: usize, idx: usize },
    TcbSend { local: Ep, bytes: Vec<u8> },
    NewConn { local: Ep, remote: Ep },
    /// `SocketAPI::demux` entered
    Demux { local: Ep, remote: Ep, bytes: Vec<u8> },
    /// `SocketSession::receive` finished for the demux event with this index
    Rx { demux: usize, outcome: sv::ReceiveOutcome },
    AcceptGap { local: Ep, remote: Ep },
    Accepted { local: Ep, remote: Ep },
    GapInject { completed_in_gap: bool },
    Read { local: Ep, remote: Ep, n: usize, bytes: Vec<u8> },
    ReadMsg { local: Ep, remote: Ep, bytes: Vec<u8> },
    /// a read future of the reader of `remote` was dropped before it completed
    Cancel { remote: Ep },
    /// the server closed (`how` = close) or dropped its listening socket
    CloseListen { ep: Ep, how: &'static str },
    /// an accepted (server side) or connected (client side) socket was closed by its owner
    CloseSock { local: Ep, remote: Ep },
    Note(String),
}

static SLOG: Mutex<Vec<SEv>> = Mutex::new(Vec::new());
static SERVER_MACHINE: Mutex<Option<Arc<Machine>>> = Mutex::new(None);
/// completion signal of the thread that injects a chunk during accept() (F-C02-4 replay)
static GAP_DONE: Mutex<Option<std::sync::mpsc::Receiver<()>>> = Mutex::new(None);

thread_local! {
    static PENDING_DEMUX: Cell<Option<usize>> = Cell::new(None);
    static LAST_ACCEPT: Cell<Option<(Ep, Ep)>> = Cell::new(None);
}

fn slog(ev: SEv) -> usize {
    let mut g = SLOG.lock().unwrap();
    g.push(ev);
    g.len() - 1
}
fn ep_of(e: Endpoint) -> Ep {
    Ep::new(e.address.to_u32(), e.port)
}

struct NullSession;
impl Session for NullSession {
    fn send(&self, _m: Message, _mc: Arc<Machine>) -> Result<(), elvis_core::session::SendError> {
        Ok(())
    }
}

/// bytes injected between activation and replay of `accept()` (F-C02-4 replay)
const GAP_MARK: &[u8] = b"<<GAP>>";

fn install_observer(gap_inject: bool) {
    SLOG.lock().unwrap().clear();
    *SERVER_MACHINE.lock().unwrap() = None;
    *GAP_DONE.lock().unwrap() = None;
    let injected = Arc::new(AtomicUsize::new(0));
    sv::set_observer(Some(Arc::new(move |e: &sv::Event| match e {
        sv::Event::Demux { id, message } => {
            let i = slog(SEv::Demux { local: ep_of(id.local), remote: ep_of(id.remote), bytes: message.to_vec() });
            PENDING_DEMUX.with(|p| p.set(Some(i)));
        }
        sv::Event::Receive(o) => {
            if let Some(i) = PENDING_DEMUX.with(|p| p.take()) {
                slog(SEv::Rx { demux: i, outcome: *o });
            }
        }
        sv::Event::NewConnection { id } => {
            slog(SEv::NewConn { local: ep_of(id.local), remote: ep_of(id.remote) });
        }
        sv::Event::AcceptGap { local, remote } => {
            slog(SEv::AcceptGap { local: ep_of(*local), remote: ep_of(*remote) });
            if gap_inject && injected.fetch_add(1, Ordering::SeqCst) == 0 {
                // What the TCP session task of this connection does when it runs on another
                // worker thread right now: hand the next chunk to SocketAPI::demux.
                let m = SERVER_MACHINE.lock().unwrap().clone();
                if let Some(m) = m {
                    let api = m.protocol::<SocketAPI>().unwrap();
                    let (tx, rx) = std::sync::mpsc::channel();
                    let (l, r) = (*local, *remote);
                    std::thread::spawn(move || {
                        let mut c = Control::new();
                        c.insert(Endpoints::new(l, r));
                        let _ = api.demux(Message::new(GAP_MARK.to_vec()), Arc::new(NullSession), c, m);
                        let _ = tx.send(());
                    });
                    let done = rx.recv_timeout(Duration::from_millis(200)).is_ok();
                    slog(SEv::GapInject { completed_in_gap: done });
                    if !done {
                        // excluded by a lock: the server waits for it right after accept()
                        // (virtual time must not run away from the real thread)
                        *GAP_DONE.lock().unwrap() = Some(rx);
                    }
                }
            }
        }
        sv::Event::AcceptReplayed { local, remote } => {
            slog(SEv::Accepted { local: ep_of(*local), remote: ep_of(*remote) });
            LAST_ACCEPT.with(|p| p.set(Some((ep_of(*local), ep_of(*remote)))));
        }
        sv::Event::TcbSend { id, message } => {
            slog(SEv::TcbSend { local: ep_of(id.local), bytes: message.to_vec() });
        }
    })));
}

// ------------------------------------------------------------------------------------------
// scenario of a full-stack run
// ------------------------------------------------------------------------------------------

const SERVER_ADDR: [u8; 4] = [10, 0, 0, 1];
const SERVER_PORT: u16 = 7000;
fn client_addr(i: usize) -> [u8; 4] {
    [10, 0, 0, 10 + i as u8]
}
const INTRUDER_ADDR: [u8; 4] = [10, 0, 0, 200];

#[derive(Clone, Debug, PartialEq)]
struct Scn {
    tcp: bool,
    mode: RtMode,
    mtu: u16,
    lat: u64,
    jit: u64,
    drop: u64,
    dup: u64,
    maxloss: u64,
    seed: u64,
    /// microseconds between two writes of a client (0 = back-to-back)
    gap: u64,
    /// client i connects at i * start microseconds
    start: u64,
    /// server calls accept() this long after the barrier
    adelay: u64,
    /// a reader starts reading this long after its accept
    rdelay: u64,
    /// pause between two reads
    rgap: u64,
    /// largest read size asked for (0 = whole range)
    maxread: u64,
    /// smallest read size asked for (0 = whole range)
    minread: u64,
    gapinject: bool,
    /// UDP only: a third machine sends datagrams to client 0's socket
    intruder: bool,
    dur: u64,
    backlog: usize,
    /// reader discipline of the server-side readers (see `Rd`)
    rd: Rd,
    /// which call the server-side readers use (see `RApi`)
    rapi: RApi,
    /// lifecycle: the server closes its LISTENING socket this long after the barrier, once every
    /// early client is accepted (0 = never)
    lclose: u64,
    /// ... by `Socket::close` (true) or by dropping it (false; with `rapi=stream`: the `TcpListener`)
    lhow_close: bool,
    /// ... and listens again on the same port this long after the close (0 = never); the last
    /// `late` clients connect only after that and are accepted through the second listener
    relisten: u64,
    late: usize,
    /// the server-side reader of client `.0` closes its accepted socket once it has read `.1` bytes
    sclose: Option<(usize, u64)>,
    /// client `c` closes its socket right after its last write instead of keeping it to the end
    cclose: Option<usize>,
    /// write sizes per client
    writes: Vec<Vec<u64>>,
}

/// Reader disciplines: how a server-side reader waits for its next read.  Everything but `Plain`
/// DROPS read futures that have not completed; the property says such a read has consumed nothing.
#[derive(Clone, Debug, PartialEq)]
enum Rd {
    /// every read is awaited to completion
    Plain,
    /// `tokio::time::timeout(d, read)`, d cycling through the list (microseconds; 0 = one poll)
    Timeout(Vec<u64>),
    /// `select! { biased; read, other }` where `other` becomes ready the n-th time it is polled
    /// (it wakes itself): the read is dropped at its n-th suspension, n cycling through the list
    Poll(Vec<u32>),
    /// `select! { biased; read, tick }` where a ticker task sends on a channel every `period` us
    Tick(u64),
}

/// Which call a server-side reader uses
#[derive(Clone, Copy, Debug, PartialEq)]
enum RApi {
    /// `Socket::recv(n)`
    Recv,
    /// `Socket::recv_msg()`
    Msg,
    /// `TcpStream::read()` (server side through `TcpListener::bind` / `accept`)
    Stream,
}

impl Rd {
    fn show(&self) -> String {
        let j = |v: Vec<String>| v.join("/");
        match self {
            Rd::Plain => "plain".into(),
            Rd::Timeout(d) => format!("to:{}", j(d.iter().map(|x| x.to_string()).collect())),
            Rd::Poll(n) => format!("poll:{}", j(n.iter().map(|x| x.to_string()).collect())),
            Rd::Tick(p) => format!("tick:{}", p),
        }
    }
    fn parse(v: &str) -> Option<Rd> {
        if v == "plain" {
            return Some(Rd::Plain);
        }
        let (k, rest) = v.split_once(':')?;
        match k {
            "to" => Some(Rd::Timeout(rest.split('/').map(|x| x.parse().ok()).collect::<Option<Vec<u64>>>().filter(|l| !l.is_empty())?)),
            "poll" => Some(Rd::Poll(rest.split('/').map(|x| x.parse().ok()).collect::<Option<Vec<u32>>>().filter(|l| !l.is_empty())?)),
            "tick" => Some(Rd::Tick(rest.parse().ok()?)),
            _ => None,
        }
    }
}

impl Scn {
    fn to_line(&self) -> String {
        // write sizes, run-length encoded: `<size>x<count>` for four or more equal sizes in a row
        let w: Vec<String> = self
            .writes
            .iter()
            .map(|c| {
                let mut items: Vec<String> = vec![];
                let mut i = 0;
                while i < c.len() {
                    let mut j = i;
                    while j < c.len() && c[j] == c[i] {
                        j += 1;
                    }
                    if j - i >= 4 {
                        items.push(format!("{}x{}", c[i], j - i));
                    } else {
                        items.extend((i..j).map(|_| c[i].to_string()));
                    }
                    i = j;
                }
                items.join(",")
            })
            .collect();
        format!(
            "scn kind={} mode={} mtu={} lat={} jit={} drop={} dup={} maxloss={} seed={} gap={} start={} adelay={} rdelay={} rgap={} maxread={} minread={} gapinject={} intruder={} dur={} backlog={}{} writes={}",
            if self.tcp { "tcp" } else { "udp" },
            match self.mode {
                RtMode::Paused => "paused".to_string(),
                RtMode::MultiThread(k) => format!("mt:{}", k),
            },
            self.mtu,
            self.lat,
            self.jit,
            self.drop,
            self.dup,
            self.maxloss,
            self.seed,
            self.gap,
            self.start,
            self.adelay,
            self.rdelay,
            self.rgap,
            self.maxread,
            self.minread,
            self.gapinject as u8,
            self.intruder as u8,
            self.dur,
            self.backlog,
            self.extra_fields(),
            w.join(";")
        )
    }
    /// reader-discipline and lifecycle fields, printed only when they differ from the defaults
    /// (scenario lines of earlier versions stay byte-identical)
    fn extra_fields(&self) -> String {
        let mut f = String::new();
        if self.rd != Rd::Plain {
            f.push_str(&format!(" rd={}", self.rd.show()));
        }
        if self.rapi != RApi::Recv {
            f.push_str(&format!(" rapi={}", if self.rapi == RApi::Msg { "msg" } else { "stream" }));
        }
        if self.lclose > 0 {
            f.push_str(&format!(" lclose={} lhow={}", self.lclose, if self.lhow_close { "close" } else { "drop" }));
        }
        if self.relisten > 0 {
            f.push_str(&format!(" relisten={} late={}", self.relisten, self.late));
        }
        if let Some((c, b)) = self.sclose {
            f.push_str(&format!(" sclose={}:{}", c, b));
        }
        if let Some(c) = self.cclose {
            f.push_str(&format!(" cclose={}", c));
        }
        f
    }
    fn defaults() -> Scn {
        Scn {
            tcp: true,
            mode: RtMode::Paused,
            mtu: 1500,
            lat: 1000,
            jit: 0,
            drop: 0,
            dup: 0,
            maxloss: 1,
            seed: 1,
            gap: 0,
            start: 0,
            adelay: 0,
            rdelay: 0,
            rgap: 0,
            maxread: 0,
            minread: 0,
            gapinject: false,
            intruder: false,
            dur: 30_000_000,
            backlog: 64,
            rd: Rd::Plain,
            rapi: RApi::Recv,
            lclose: 0,
            lhow_close: false,
            relisten: 0,
            late: 0,
            sclose: None,
            cclose: None,
            writes: vec![],
        }
    }
    fn parse(line: &str) -> Option<Scn> {
        let mut s = Scn::defaults();
        for w in line.split_whitespace().skip(1) {
            let (k, v) = w.split_once('=')?;
            match k {
                "kind" => s.tcp = v == "tcp",
                "mode" => s.mode = if v == "paused" { RtMode::Paused } else { RtMode::MultiThread(v.strip_prefix("mt:")?.parse().ok()?) },
                "mtu" => s.mtu = v.parse().ok()?,
                "lat" => s.lat = v.parse().ok()?,
                "jit" => s.jit = v.parse().ok()?,
                "drop" => s.drop = v.parse().ok()?,
                "dup" => s.dup = v.parse().ok()?,
                "maxloss" => s.maxloss = v.parse().ok()?,
                "seed" => s.seed = v.parse().ok()?,
                "gap" => s.gap = v.parse().ok()?,
                "start" => s.start = v.parse().ok()?,
                "adelay" => s.adelay = v.parse().ok()?,
                "rdelay" => s.rdelay = v.parse().ok()?,
                "rgap" => s.rgap = v.parse().ok()?,
                "maxread" => s.maxread = v.parse().ok()?,
                "minread" => s.minread = v.parse().ok()?,
                "gapinject" => s.gapinject = v == "1",
                "intruder" => s.intruder = v == "1",
                "dur" => s.dur = v.parse().ok()?,
                "backlog" => s.backlog = v.parse().ok()?,
                "rd" => s.rd = Rd::parse(v)?,
                "rapi" => {
                    s.rapi = match v {
                        "recv" => RApi::Recv,
                        "msg" => RApi::Msg,
                        "stream" => RApi::Stream,
                        _ => return None,
                    }
                }
                "lclose" => s.lclose = v.parse().ok()?,
                "lhow" => s.lhow_close = v == "close",
                "relisten" => s.relisten = v.parse().ok()?,
                "late" => s.late = v.parse().ok()?,
                "sclose" => {
                    let (c, b) = v.split_once(':')?;
                    s.sclose = Some((c.parse().ok()?, b.parse().ok()?));
                }
                "cclose" => s.cclose = Some(v.parse().ok()?),
                "writes" => {
                    for c in v.split(';') {
                        let mut ws: Vec<u64> = vec![];
                        for x in c.split(',').filter(|x| !x.is_empty()) {
                            match x.split_once('x') {
                                Some((size, count)) => {
                                    let (size, count): (u64, usize) = (size.parse().ok()?, count.parse().ok()?);
                                    if count > 1_000_000 {
                                        return None;
                                    }
                                    ws.extend(std::iter::repeat(size).take(count));
                                }
                                None => ws.push(x.parse().unwrap_or(0)),
                            }
                        }
                        s.writes.push(ws);
                    }
                }
                _ => {}
            }
        }
        if s.writes.is_empty() || s.late > s.writes.len() || (s.late > 0 && s.relisten == 0) {
            return None;
        }
        Some(s)
    }
    fn n_clients(&self) -> usize {
        self.writes.len()
    }
    /// clients that connect only after the server listens for the second time
    fn is_late(&self, c: usize) -> bool {
        self.relisten > 0 && c + self.late >= self.n_clients()
    }
    fn total(&self, c: usize) -> u64 {
        self.writes[c].iter().sum()
    }
    /// bytes of write `i` of client `c` (stream pattern for TCP; for UDP each datagram carries
    /// the pattern at its own offset, so datagrams are pairwise distinct)
    fn write_bytes(&self, c: usize, i: usize) -> Vec<u8> {
        let off: u64 = self.writes[c][..i].iter().sum();
        pat_range(c as u64, off, self.writes[c][i])
    }
    /// UDP: does datagram `i` of client `c` fit into one frame (IPv4 + UDP headers = 28 bytes)?
    /// `UdpSession::send` does not fragment: a larger datagram is refused with a send error.
    fn fits(&self, c: usize, i: usize) -> bool {
        self.writes[c][i] + 28 <= self.mtu as u64
    }
    fn stream(&self, c: usize) -> Vec<u8> {
        pat_range(c as u64, 0, self.total(c))
    }
}

// ------------------------------------------------------------------------------------------
// applications
// ------------------------------------------------------------------------------------------

struct ClientApp {
    idx: usize,
    scn: Arc<Scn>,
}

#[async_trait::async_trait]
impl Protocol for ClientApp {
    async fn start(&self, shutdown: Shutdown, initialized: Arc<Barrier>, machine: Arc<Machine>) -> Result<(), StartError> {
        let sockets = machine.protocol::<SocketAPI>().unwrap();
        let kind = if self.scn.tcp { SocketType::Stream } else { SocketType::Datagram };
        let mut sock = sockets.new_socket(ProtocolFamily::INET, kind, machine.clone()).await.unwrap();
        let mut rx = shutdown.receiver();
        initialized.wait().await;
        if self.scn.start > 0 {
            sleep(Duration::from_micros(self.scn.start * self.idx as u64)).await;
        }
        if self.scn.is_late(self.idx) {
            // connects only once the server listens again (second listener)
            sleep(Duration::from_micros(self.scn.lclose + self.scn.relisten + 4 * self.scn.lat + 5000)).await;
        }
        let server = Endpoint::new(Ipv4Address::from(SERVER_ADDR), SERVER_PORT);
        if sock.connect(server).await.is_err() {
            slog(SEv::Note(format!("client {} connect failed", self.idx)));
            return Ok(());
        }
        for i in 0..self.scn.writes[self.idx].len() {
            let bytes = self.scn.write_bytes(self.idx, i);
            slog(SEv::Write { client: self.idx, idx: i, len: bytes.len() });
            if sock.send(bytes).is_err() {
                slog(SEv::SendFailed { client: self.idx, idx: i });
            }
            if self.scn.gap > 0 {
                sleep(Duration::from_micros(self.scn.gap)).await;
            }
        }
        if !self.scn.tcp {
            // datagram clients also read: only the server's reply may ever arrive here
            sock.set_blocking(true);
            loop {
                tokio::select! {
                    _ = rx.recv() => break,
                    m = sock.recv_msg() => match m {
                        Ok(m) => {
                            let me = Ep::new(u32::from_be_bytes(client_addr(self.idx)), 0);
                            slog(SEv::ReadMsg { local: me, remote: Ep::new(0, 0), bytes: m.to_vec() });
                        }
                        Err(_) => break,
                    }
                }
            }
        } else if self.scn.cclose == Some(self.idx) {
            // a client that is done closes its socket while the others go on
            let me = Ep::new(u32::from_be_bytes(client_addr(self.idx)), 0);
            slog(SEv::CloseSock { local: me, remote: ep_of(server) });
            sock.close();
            let _ = rx.recv().await;
            return Ok(());
        } else {
            // keep the socket (and with it the session) alive until the simulation ends
            let _ = rx.recv().await;
        }
        drop(sock);
        Ok(())
    }
    fn demux(&self, _m: Message, _c: Arc<dyn Session>, _k: Control, _mc: Arc<Machine>) -> Result<(), DemuxError> {
        Ok(())
    }
}

/// UDP only: sends datagrams from its own address to client 0's connected socket
struct IntruderApp {
    scn: Arc<Scn>,
}

#[async_trait::async_trait]
impl Protocol for IntruderApp {
    async fn start(&self, shutdown: Shutdown, initialized: Arc<Barrier>, machine: Arc<Machine>) -> Result<(), StartError> {
        let sockets = machine.protocol::<SocketAPI>().unwrap();
        let mut sock = sockets.new_socket(ProtocolFamily::INET, SocketType::Datagram, machine.clone()).await.unwrap();
        let mut rx = shutdown.receiver();
        initialized.wait().await;
        // same source port as the server, other address; target: first ephemeral port of client 0
        let _ = sock.bind(Endpoint::new(Ipv4Address::from(INTRUDER_ADDR), SERVER_PORT));
        sleep(Duration::from_micros(self.scn.lat * 4 + 2000)).await;
        let target = Endpoint::new(Ipv4Address::from(client_addr(0)), 49152);
        if sock.connect(target).await.is_ok() {
            for k in 0..3u8 {
                let _ = sock.send(vec![0xEE, 0xEE, k]);
                sleep(Duration::from_micros(self.scn.lat + 500)).await;
            }
        }
        let _ = rx.recv().await;
        drop(sock);
        Ok(())
    }
    fn demux(&self, _m: Message, _c: Arc<dyn Session>, _k: Control, _mc: Arc<Machine>) -> Result<(), DemuxError> {
        Ok(())
    }
}

struct ServerApp {
    scn: Arc<Scn>,
}

fn read_sizes(scn: &Scn) -> Vec<usize> {
    let all = [1usize, 2, 3, 7, 16, 61, 100, 536, 1000, 1460, 4096, 20000, 70000, 200000];
    all.iter().copied().filter(|x| (scn.maxread == 0 || *x as u64 <= scn.maxread) && *x as u64 >= scn.minread).collect()
}

/// "Other work" of a reading task: becomes ready the n-th time it is polled and wakes itself until
/// then, so the `select!` around it is polled again and again and the read next to it is dropped
/// at its n-th suspension point
struct OtherWork(u32);
impl std::future::Future for OtherWork {
    type Output = ();
    fn poll(mut self: std::pin::Pin<&mut Self>, cx: &mut std::task::Context<'_>) -> std::task::Poll<()> {
        self.0 = self.0.saturating_sub(1);
        if self.0 == 0 {
            std::task::Poll::Ready(())
        } else {
            cx.waker().wake_by_ref();
            std::task::Poll::Pending
        }
    }
}

/// Executes reads under a reader discipline (`Rd`)
struct Waiter {
    rd: Rd,
    round: usize,
    tick: Option<tokio::sync::mpsc::Receiver<()>>,
    /// consecutive dropped reads (pause between attempts grows with it, so a reader that waits
    /// for data that never comes does not spin through the whole simulated time)
    dropped_in_a_row: u32,
    last_progress: tokio::time::Instant,
}

impl Waiter {
    fn new(rd: &Rd) -> Waiter {
        let tick = if let Rd::Tick(period) = rd {
            let (tx, rx) = tokio::sync::mpsc::channel(1);
            let period = Duration::from_micros((*period).max(1));
            tokio::spawn(async move {
                loop {
                    sleep(period).await;
                    if let Err(tokio::sync::mpsc::error::TrySendError::Closed(_)) = tx.try_send(()) {
                        break;
                    }
                }
            });
            Some(rx)
        } else {
            None
        };
        Waiter { rd: rd.clone(), round: 0, tick, dropped_in_a_row: 0, last_progress: tokio::time::Instant::now() }
    }
    /// `Some(output)` when `fut` completed, `None` when it was dropped before completing
    async fn run<F: std::future::Future>(&mut self, fut: F) -> Option<F::Output> {
        let k = self.round;
        self.round += 1;
        let r = match &self.rd {
            Rd::Plain => Some(fut.await),
            Rd::Timeout(ds) => tokio::time::timeout(Duration::from_micros(ds[k % ds.len()]), fut).await.ok(),
            Rd::Poll(ns) => {
                let other = OtherWork(ns[k % ns.len()].max(1));
                tokio::select! {
                    biased;
                    r = fut => Some(r),
                    _ = other => None,
                }
            }
            Rd::Tick(_) => {
                let rx = self.tick.as_mut().unwrap();
                tokio::select! {
                    biased;
                    r = fut => Some(r),
                    _ = rx.recv() => None,
                }
            }
        };
        r
    }
    fn progressed(&mut self) {
        self.dropped_in_a_row = 0;
        self.last_progress = tokio::time::Instant::now();
    }
    /// after a dropped read: "do the other work".  Under the poll-count discipline that means
    /// letting some time pass (nothing else would, on the paused clock).  Under a time-out or a
    /// ticker time passes by itself, and a pause longer than the tick period would let a tick
    /// pile up before every attempt: every read would be dropped at its first poll, for ever.
    async fn pause(&mut self) {
        self.dropped_in_a_row += 1;
        if let Rd::Poll(_) = self.rd {
            let us = (100u64 << (self.dropped_in_a_row - 1).min(8)).min(20_000);
            sleep(Duration::from_micros(us)).await;
        } else {
            tokio::task::yield_now().await;
        }
    }
    /// has nothing arrived for so long that the reader gives up (and drains the socket)?
    fn starved(&self, scn: &Scn) -> bool {
        let limit = if scn.mode == RtMode::Paused { 30_000_000 } else { 6_000_000 };
        self.rd != Rd::Plain && self.last_progress.elapsed() > Duration::from_micros(limit)
    }
}

async fn read_once(stream: &mut TcpStream, api: RApi, n: usize) -> Result<Vec<u8>, elvis_core::protocols::socket_api::socket::SocketError> {
    match api {
        RApi::Recv => stream.local_socket.recv(n).await,
        RApi::Msg => stream.local_socket.recv_msg().await.map(|m| m.to_vec()),
        RApi::Stream => stream.read().await,
    }
}

fn log_read(api: RApi, local: Ep, remote: Ep, n: usize, bytes: Vec<u8>) {
    match api {
        RApi::Recv => slog(SEv::Read { local, remote, n, bytes }),
        _ => slog(SEv::ReadMsg { local, remote, bytes }),
    };
}

async fn stream_reader(mut stream: TcpStream, local: Ep, remote: Ep, scn: Arc<Scn>, done: Arc<AtomicUsize>, shutdown: Shutdown, accepted: Arc<AtomicUsize>) {
    let client = (remote.addr & 0xff) as usize - 10;
    if scn.rdelay > 0 {
        sleep(Duration::from_micros(scn.rdelay)).await;
    }
    let total = if client < scn.n_clients() { scn.total(client) as usize } else { 0 };
    let extra = if scn.gapinject { GAP_MARK.len() } else { 0 };
    let stop_at = match scn.sclose {
        Some((c, b)) if c == client => (b as usize).min(total),
        _ => total + extra,
    };
    let sizes = read_sizes(&scn);
    let mut rng = Rng::new(scn.seed ^ (0x5151 + client as u64));
    let mut got = 0usize;
    let mut waiter = Waiter::new(&scn.rd);
    while got < stop_at && !waiter.starved(&scn) {
        let n = *rng.pick(&sizes);
        match waiter.run(read_once(&mut stream, scn.rapi, n)).await {
            Some(Ok(b)) => {
                if !b.is_empty() {
                    waiter.progressed();
                }
                got += b.len();
                log_read(scn.rapi, local, remote, n, b);
            }
            Some(Err(_)) => break,
            None => {
                slog(SEv::Cancel { remote });
                waiter.pause().await;
            }
        }
        if scn.rgap > 0 {
            sleep(Duration::from_micros(scn.rgap)).await;
        }
    }
    if scn.rd != Rd::Plain && got < stop_at {
        // the reader gave up: whatever still sits in the socket counts as delivered
        stream.local_socket.set_blocking(false);
        if let Ok(b) = stream.local_socket.recv(1 << 30).await {
            if !b.is_empty() {
                slog(SEv::Read { local, remote, n: 1 << 30, bytes: b });
            }
        }
    }
    if matches!(scn.sclose, Some((c, _)) if c == client) {
        // this reader has seen enough: it closes its socket while the other connections go on --
        // once the server has accepted everybody (what the peer sends to a closed socket is taken
        // for a new connection request, and the accept loop would pick that up instead of a client)
        for _ in 0..40_000 {
            if accepted.load(Ordering::SeqCst) >= scn.n_clients() {
                break;
            }
            sleep(Duration::from_micros(500)).await;
        }
        slog(SEv::CloseSock { local, remote });
        stream.local_socket.close();
        finish(&scn, &done, &shutdown).await;
        return;
    }
    finish(&scn, &done, &shutdown).await;
    // keep the socket open: dropping it removes the session
    let mut rx = shutdown.receiver();
    let _ = rx.recv().await;
    drop(stream);
}

async fn dgram_reader(mut sock: Socket, local: Ep, remote: Ep, scn: Arc<Scn>, done: Arc<AtomicUsize>, shutdown: Shutdown) {
    let client = (remote.addr & 0xff) as usize - 10;
    let expect = if client < scn.n_clients() { (0..scn.writes[client].len()).filter(|i| scn.fits(client, *i)).count() } else { 0 };
    // one reply so that the client's socket has a legitimate sender
    let _ = sock.send(b"reply".to_vec());
    let mut got = 0usize;
    let mut rx = shutdown.receiver();
    let mut waiter = Waiter::new(&scn.rd);
    loop {
        let r = tokio::select! {
            _ = rx.recv() => break,
            r = waiter.run(sock.recv_msg()) => r,
        };
        match r {
            Some(Ok(m)) => {
                got += 1;
                waiter.progressed();
                slog(SEv::ReadMsg { local, remote, bytes: m.to_vec() });
                if got == expect && scn.drop == 0 && scn.dup == 0 {
                    finish(&scn, &done, &shutdown).await;
                }
            }
            Some(Err(_)) => break,
            None => {
                slog(SEv::Cancel { remote });
                waiter.pause().await;
                if waiter.starved(&scn) && scn.drop == 0 && scn.dup == 0 {
                    // give up on a loss-free network: the missing datagrams are reported
                    finish(&scn, &done, &shutdown).await;
                    break;
                }
            }
        }
    }
    drop(sock);
}

/// logged right before the simulation is told to shut down: `SocketAPI::shutdown` then empties the
/// session table, so what still arrives (the peer of a closed socket may still be writing) is no
/// longer part of the event sequence that is replayed through the model
const SHUTDOWN_MARK: &str = "<<shutdown requested>>";

async fn finish(scn: &Scn, done: &AtomicUsize, shutdown: &Shutdown) {
    if done.fetch_add(1, Ordering::SeqCst) + 1 == scn.n_clients() {
        // let acknowledgements and stray frames settle
        sleep(Duration::from_micros(4 * (scn.lat + scn.jit) + 20_000)).await;
        slog(SEv::Note(SHUTDOWN_MARK.to_string()));
        shutdown.shut_down();
    }
}

/// the server's listening socket: a plain `Socket`, or (reader API `stream`) a `TcpListener`
enum Listener {
    Sock(Socket),
    Tcp(TcpListener),
}

async fn open_listener(scn: &Scn, machine: &Arc<Machine>) -> Option<Listener> {
    let lep = Endpoint::new(Ipv4Address::CURRENT_NETWORK, SERVER_PORT);
    if scn.tcp && scn.rapi == RApi::Stream {
        let l = TcpListener::bind(lep, machine.clone()).await.ok()?;
        slog(SEv::Listen { ep: ep_of(lep), backlog: 5000 });
        return Some(Listener::Tcp(l));
    }
    let sockets = machine.protocol::<SocketAPI>().unwrap();
    let kind = if scn.tcp { SocketType::Stream } else { SocketType::Datagram };
    let mut lsock = sockets.new_socket(ProtocolFamily::INET, kind, machine.clone()).await.ok()?;
    lsock.bind(lep).ok()?;
    lsock.listen(scn.backlog).ok()?;
    slog(SEv::Listen { ep: ep_of(lep), backlog: scn.backlog });
    Some(Listener::Sock(lsock))
}

/// accept `k` connections and give each its reader task
async fn accept_loop(lst: &mut Listener, k: usize, scn: &Arc<Scn>, done: &Arc<AtomicUsize>, shutdown: &Shutdown, accepted: &Arc<AtomicUsize>) {
    for _ in 0..k {
        let sock = match lst {
            Listener::Sock(l) => match l.accept().await {
                Ok(s) => s,
                Err(_) => break,
            },
            Listener::Tcp(l) => match l.accept().await {
                Ok(s) => s.local_socket,
                Err(_) => break,
            },
        };
        let Some((local, remote)) = LAST_ACCEPT.with(|p| p.take()) else { break };
        if let Some(rx) = GAP_DONE.lock().unwrap().take() {
            let _ = rx.recv_timeout(Duration::from_secs(5));
        }
        accepted.fetch_add(1, Ordering::SeqCst);
        let (scn, done, sd) = (scn.clone(), done.clone(), shutdown.clone());
        if scn.tcp {
            tokio::spawn(stream_reader(TcpStream { local_socket: sock }, local, remote, scn, done, sd, accepted.clone()));
        } else {
            tokio::spawn(dgram_reader(sock, local, remote, scn, done, sd));
        }
    }
}

#[async_trait::async_trait]
impl Protocol for ServerApp {
    async fn start(&self, shutdown: Shutdown, initialized: Arc<Barrier>, machine: Arc<Machine>) -> Result<(), StartError> {
        let scn = &self.scn;
        let mut lst = open_listener(scn, &machine).await.expect("the server can listen");
        *SERVER_MACHINE.lock().unwrap() = Some(machine.clone());
        initialized.wait().await;
        let t0 = tokio::time::Instant::now();
        if scn.adelay > 0 {
            sleep(Duration::from_micros(scn.adelay)).await;
        }
        let done = Arc::new(AtomicUsize::new(0));
        let accepted = Arc::new(AtomicUsize::new(0));
        let late = if scn.relisten > 0 { scn.late } else { 0 };
        accept_loop(&mut lst, scn.n_clients() - late, scn, &done, &shutdown, &accepted).await;
        let mut rx = shutdown.receiver();
        if scn.lclose == 0 {
            let _ = rx.recv().await;
            drop(lst);
            return Ok(());
        }
        // lifecycle: the listening socket goes away while the accepted connections carry data
        tokio::time::sleep_until(t0 + Duration::from_micros(scn.lclose)).await;
        let lep = Ep::new(0, SERVER_PORT);
        match lst {
            Listener::Sock(l) if scn.lhow_close => {
                slog(SEv::CloseListen { ep: lep, how: "close" });
                l.close();
            }
            l => {
                slog(SEv::CloseListen { ep: lep, how: "drop" });
                drop(l);
            }
        }
        if scn.relisten > 0 {
            sleep(Duration::from_micros(scn.relisten)).await;
            match open_listener(scn, &machine).await {
                Some(mut l2) => {
                    accept_loop(&mut l2, late, scn, &done, &shutdown, &accepted).await;
                    let _ = rx.recv().await;
                    drop(l2);
                    return Ok(());
                }
                None => {
                    slog(SEv::Note("relisten-refused".to_string()));
                }
            }
        }
        let _ = rx.recv().await;
        Ok(())
    }
    fn demux(&self, _m: Message, _c: Arc<dyn Session>, _k: Control, _mc: Arc<Machine>) -> Result<(), DemuxError> {
        Ok(())
    }
}

// ------------------------------------------------------------------------------------------
// running one full-stack scenario
// ------------------------------------------------------------------------------------------

fn make_planner(scn: &Scn) -> Option<Planner> {
    if scn.jit == 0 && scn.drop == 0 && scn.dup == 0 {
        return None;
    }
    let rng = Mutex::new(Rng::new(scn.seed ^ 0xfa17));
    let losses: Mutex<HashMap<(u64, Option<u64>), u64>> = Mutex::new(HashMap::new());
    let (jit, drop, dup, maxloss) = (scn.jit, scn.drop, scn.dup, scn.maxloss);
    Some(Arc::new(move |w: &WireSend| {
        let mut r = rng.lock().unwrap();
        // ARP frames are left alone: address resolution under loss is C06's subject
        if w.target == Target::Arp {
            return VerifFramePlan::Deliver;
        }
        let key = (w.smac, w.dst);
        let mut l = losses.lock().unwrap();
        let lost = l.entry(key).or_insert(0);
        if drop > 0 && r.below(1000) < drop && *lost < maxloss {
            *lost += 1;
            return VerifFramePlan::Drop;
        }
        *lost = 0;
        if dup > 0 && r.below(1000) < dup {
            return VerifFramePlan::Duplicate(Duration::from_micros(r.below(jit.max(1) * 2 + 1)));
        }
        if jit > 0 {
            return VerifFramePlan::Delay(Duration::from_micros(r.below(jit + 1)));
        }
        VerifFramePlan::Deliver
    }))
}

fn scaffold_scenario(scn: &Scn) -> Scenario {
    let n_machines = 1 + scn.n_clients() + scn.intruder as usize;
    let machines = (0..n_machines)
        .map(|_| MachineSpec {
            nets: vec![0],
            arp: false, // added by `extra` together with the SocketAPI (needs the local address)
            udp: true,
            tcp: true,
            sockets: false,
            routes: vec![Route { addr: 0, mask_len: 0, slot: 0, mac: None }],
            apps: vec![],
        })
        .collect();
    Scenario { nets: vec![NetSpec { mtu: Some(scn.mtu), lat_us: (scn.lat, 0), thr: (0, 0) }], machines, mode: scn.mode, duration_us: scn.dur }
}

struct StackRun {
    status: String,
    events: Vec<SEv>,
    wire_frames: usize,
    wire_dropped: usize,
    wire_dup: usize,
}

fn run_stack(scn: &Scn) -> StackRun {
    install_observer(scn.gapinject);
    let sc = scaffold_scenario(scn);
    let planner = make_planner(scn);
    let scn_arc = Arc::new(scn.clone());
    let n = scn.n_clients();
    let extra = move |idx: usize, m: Machine, _log: &Arc<Log>| -> Machine {
        let addr: [u8; 4] = if idx == 0 {
            SERVER_ADDR
        } else if idx <= n {
            client_addr(idx - 1)
        } else {
            INTRUDER_ADDR
        };
        let m = m.with(Arp::new()).with(SocketAPI::new(Some(Ipv4Address::from(addr))));
        if idx == 0 {
            m.with(ServerApp { scn: scn_arc.clone() })
        } else if idx <= n {
            m.with(ClientApp { idx: idx - 1, scn: scn_arc.clone() })
        } else {
            m.with(IntruderApp { scn: scn_arc.clone() })
        }
    };
    let res = run_scenario_with(&sc, planner, &extra);
    sv::set_observer(None);
    let events = SLOG.lock().unwrap().clone();
    let mut frames = 0;
    let mut dropped = 0;
    let mut dupd = 0;
    for e in &res.events {
        if let Ev::Wire { to: None, plan, .. } = &e.ev {
            frames += 1;
            if plan == "drop" {
                dropped += 1;
            }
            if plan.starts_with("dup") {
                dupd += 1;
            }
        }
    }
    StackRun { status: res.status, events, wire_frames: frames, wire_dropped: dropped, wire_dup: dupd }
}

fn outcome_str(o: sv::ReceiveOutcome) -> &'static str {
    match o {
        sv::ReceiveOutcome::Queued => "queued",
        sv::ReceiveOutcome::Stored => "stored",
        sv::ReceiveOutcome::Full => "full",
        sv::ReceiveOutcome::Closed => "closed",
    }
}

/// chunk as an op argument: `p:<client>:<off>:<len>` when it is the pattern, else `x:<hex>`
fn chunk_arg(scn: &Scn, remote: Ep, bytes: &[u8], offs: &mut HashMap<Ep, u64>) -> String {
    let c = (remote.addr & 0xff) as i64 - 10;
    if scn.tcp && c >= 0 && (c as usize) < scn.n_clients() && !bytes.is_empty() {
        let off = *offs.get(&remote).unwrap_or(&0);
        if pat_range(c as u64, off, bytes.len() as u64) == bytes {
            offs.insert(remote, off + bytes.len() as u64);
            return format!("p:{}:{}:{}", c, off, bytes.len());
        }
    }
    if !scn.tcp && c >= 0 && (c as usize) < scn.n_clients() && !bytes.is_empty() {
        // a datagram: the pattern at the offset of one of the client's writes
        for i in 0..scn.writes[c as usize].len() {
            if scn.writes[c as usize][i] == bytes.len() as u64 && scn.write_bytes(c as usize, i) == bytes {
                let off: u64 = scn.writes[c as usize][..i].iter().sum();
                return format!("p:{}:{}:{}", c, off, bytes.len());
            }
        }
    }
    if bytes.len() <= 64 {
        format!("x:{}", hex(bytes))
    } else {
        // long non-pattern chunk (only ever seen when TCP itself misdelivers): digest only
        format!("d:{}:{}", bytes.len(), digest(bytes))
    }
}

/// the order in which the writes reached `Tcb::send`; long ones are cut around the first write
/// that is out of program order
fn show_perm(p: &[usize]) -> String {
    if p.len() <= 48 {
        return format!("{:?}", p);
    }
    match p.iter().enumerate().position(|(k, w)| k != *w) {
        None => format!("[0..{} in program order]", p.len()),
        Some(k) => {
            let out_of_place = p.iter().enumerate().filter(|(k, w)| k != *w).count();
            let a = k.saturating_sub(2);
            let b = (k + 14).min(p.len());
            format!("[{} writes; in program order up to #{}; from #{}: {:?} ...; {} writes out of place]", p.len(), k, a, &p[a..b], out_of_place)
        }
    }
}

fn exec_stack(line: &str, rep: &mut CaseReport) {
    let Some(scn) = Scn::parse(line) else {
        rep.line(line, "bad-op");
        return;
    };
    let run = run_stack(&scn);
    rep.line(line, "scn");
    let paused = scn.mode == RtMode::Paused;
    rep.count(format!("mode.{}", if paused { "paused".to_string() } else { format!("{:?}", scn.mode) }));
    rep.count(if scn.tcp { "kind.tcp" } else { "kind.udp" });
    rep.count_n("wire.frames", run.wire_frames as u64);
    rep.count_n("wire.dropped", run.wire_dropped as u64);
    rep.count_n("wire.duplicated", run.wire_dup as u64);
    rep.count(format!("status.{}", run.status));
    let most_writes = scn.writes.iter().map(|w| w.len()).max().unwrap_or(0);
    if scn.tcp && scn.gap == 0 && most_writes >= 250 {
        rep.count(format!("burst.{}", match most_writes { 0..=1023 => "250-1023", 1024..=2047 => "1024-2047", 2048..=4095 => "2048-4095", _ => "4096+" }));
    }

    // ---------- model lines: the server's socket-layer event sequence (paused runtime only) ----------
    let server_addr = u32::from_be_bytes(SERVER_ADDR);
    let mut n_full = 0u64;
    let mut gap_completed: Option<bool> = None;
    if paused {
        let mut offs: HashMap<Ep, u64> = HashMap::new();
        let has_rx: std::collections::HashSet<usize> = run.events.iter().filter_map(|e| if let SEv::Rx { demux, .. } = e { Some(*demux) } else { None }).collect();
        for (i, e) in run.events.iter().enumerate() {
            match e {
                SEv::Note(s) if s == SHUTDOWN_MARK => break,
                SEv::Listen { ep, backlog } => rep.line(format!("listen {} {}", ep, backlog), "ok"),
                SEv::NewConn { local, remote } if local.addr == server_addr => rep.line(format!("notify {} {}", local, remote), "ok"),
                SEv::Demux { local, remote, bytes } if local.addr == server_addr && !has_rx.contains(&i) => {
                    // no SocketSession::receive: new session through the listen binding, or refused
                    let arg = chunk_arg(&scn, *remote, bytes, &mut offs);
                    rep.line(format!("arr {} {} {}", local, remote, arg), "norx");
                }
                SEv::Rx { demux, outcome } => {
                    if let SEv::Demux { local, remote, bytes } = &run.events[*demux] {
                        if local.addr == server_addr {
                            let arg = chunk_arg(&scn, *remote, bytes, &mut offs);
                            rep.line(format!("arr {} {} {}", local, remote, arg), outcome_str(*outcome));
                        }
                    }
                }
                SEv::AcceptGap { local, remote } => rep.line(format!("activate {} {}", Ep::new(0, local.port), fmt_addr(local.addr)), format!("activated {}", remote)),
                SEv::Accepted { local, remote } => rep.line(format!("replay {} {}", local, remote), "replayed ok"),
                SEv::Read { local, remote, n, bytes } => rep.line(format!("recv {} {} {}", local, remote, n), format!("r {} {}", bytes.len(), digest(bytes))),
                SEv::ReadMsg { local, remote, bytes } if local.addr == server_addr => rep.line(format!("recvmsg {} {}", local, remote), format!("m {} {}", bytes.len(), digest(bytes))),
                SEv::CloseListen { ep, .. } => rep.line(format!("closel {}", ep), "closed"),
                SEv::CloseSock { local, remote } if local.addr == server_addr => rep.line(format!("close {} {}", local, remote), "closed"),
                _ => {}
            }
        }
    }
    for e in &run.events {
        match e {
            SEv::Rx { outcome: sv::ReceiveOutcome::Full, .. } => n_full += 1,
            SEv::GapInject { completed_in_gap } => gap_completed = Some(*completed_in_gap),
            _ => {}
        }
    }
    rep.count_n("session.full", n_full);
    let n_cancel = run.events.iter().filter(|e| matches!(e, SEv::Cancel { .. })).count() as u64;
    if scn.rd != Rd::Plain {
        rep.count(format!("reader.{}.{}", match scn.rd { Rd::Timeout(_) => "timeout", Rd::Poll(_) => "poll", Rd::Tick(_) => "tick", Rd::Plain => "plain" }, match scn.rapi { RApi::Recv => "recv", RApi::Msg => "recv_msg", RApi::Stream => "TcpStream::read" }));
        rep.count_n("reads.dropped-before-completion", n_cancel);
    }
    let listener_closed_at = run.events.iter().position(|e| matches!(e, SEv::CloseListen { .. }));
    if let Some(at) = listener_closed_at {
        rep.count(format!("lifecycle.listener-{}", if scn.lhow_close { "closed" } else { "dropped" }));
        // chunks that reached the server's socket layer after its listening socket was gone
        let after = run.events[at..].iter().filter(|e| matches!(e, SEv::Demux { local, .. } if local.addr == server_addr)).count() as u64;
        rep.count_n("lifecycle.chunks-after-listener-close", after);
        if scn.relisten > 0 {
            rep.count("lifecycle.relisten");
        }
    }
    if scn.sclose.is_some() {
        rep.count("lifecycle.accepted-socket-closed");
    }
    if scn.cclose.is_some() {
        rep.count("lifecycle.client-socket-closed");
    }
    let relisten_refused = run.events.iter().any(|e| matches!(e, SEv::Note(s) if s == "relisten-refused"));
    if relisten_refused {
        rep.count("lifecycle.relisten-refused");
    }
    // what went on around the streams (part of the identity of a stream failure)
    let context = {
        let mut c = String::new();
        if scn.rd != Rd::Plain && n_cancel > 0 {
            c.push_str(" reads-dropped-before-completion");
        }
        if listener_closed_at.is_some() {
            c.push_str(" listener-closed");
        }
        if scn.sclose.is_some() || scn.cclose.is_some() {
            c.push_str(" another-socket-closed");
        }
        c
    };
    // identity of a channel overrun: how many chunks were waiting, unread, when the first one
    // was dropped (the capacity, if the reader had not started yet)
    let full_ident: String = {
        let mut waiting: HashMap<Ep, usize> = HashMap::new();
        let mut reading: std::collections::HashSet<Ep> = Default::default();
        let mut id = String::from("stream-hole channel-full");
        for e in &run.events {
            match e {
                SEv::Rx { demux, outcome } => {
                    let SEv::Demux { remote, .. } = &run.events[*demux] else { continue };
                    match outcome {
                        sv::ReceiveOutcome::Queued | sv::ReceiveOutcome::Stored => *waiting.entry(*remote).or_insert(0) += 1,
                        sv::ReceiveOutcome::Full => {
                            id = if reading.contains(remote) {
                                "stream-hole channel-full reader-active".to_string()
                            } else {
                                format!("stream-hole channel-full first-drop-after-{}-unread", waiting.get(remote).copied().unwrap_or(0))
                            };
                            break;
                        }
                        _ => {}
                    }
                }
                SEv::Read { remote, .. } => {
                    reading.insert(*remote);
                }
                _ => {}
            }
        }
        id
    };
    if let Some(g) = gap_completed {
        rep.count(if g { "accept.gap.demux-ran-inside" } else { "accept.gap.demux-excluded" });
    }

    // ---------- hand-off order: which write reached Tcb::send when ----------
    let mut perms: Vec<Vec<usize>> = vec![vec![]; scn.n_clients()];
    let mut any_permuted = false;
    if scn.tcp {
        // writes of one client with identical bytes are indistinguishable: the earliest not yet
        // seen one is taken
        let mut by_bytes: HashMap<(usize, Vec<u8>), std::collections::VecDeque<usize>> = HashMap::new();
        for c in 0..scn.n_clients() {
            for i in 0..scn.writes[c].len() {
                by_bytes.entry((c, scn.write_bytes(c, i))).or_default().push_back(i);
            }
        }
        for e in &run.events {
            if let SEv::TcbSend { local, bytes } = e {
                let c = (local.addr & 0xff) as i64 - 10;
                if c >= 0 && (c as usize) < scn.n_clients() {
                    if let Some(i) = by_bytes.get_mut(&(c as usize, bytes.clone())).and_then(|q| q.pop_front()) {
                        perms[c as usize].push(i);
                    }
                }
            }
        }
        for c in 0..scn.n_clients() {
            let p = &perms[c];
            if p.iter().enumerate().any(|(k, w)| k != *w) {
                any_permuted = true;
            }
            let ps = if p.is_empty() { "-".to_string() } else { p.iter().map(|x| x.to_string()).collect::<Vec<_>>().join(",") };
            rep.line(format!("handoff {} {}", scn.writes[c].len(), ps), "reachable");
        }
    }

    // ---------- oracle ----------
    let mut ok = true;
    // (1) every recv(n) returns at most n bytes
    for e in &run.events {
        if let SEv::Read { n, bytes, .. } = e {
            rep.count("reads");
            if bytes.len() > *n {
                ok = false;
                rep.fail(format!("recv({}) returned {} bytes in `{}`", n, bytes.len(), line), "recv-exceeds-n");
                break;
            }
        }
    }
    if scn.tcp {
        // (2) per connection: bytes read = concatenation of the client's writes in program order
        for c in 0..scn.n_clients() {
            let caddr = u32::from_be_bytes(client_addr(c));
            if relisten_refused && scn.is_late(c) {
                // the second listen on the port was refused: nobody accepted this client
                continue;
            }
            let mut got: Vec<u8> = vec![];
            for e in &run.events {
                match e {
                    SEv::Read { remote, bytes, .. } | SEv::ReadMsg { remote, bytes, .. } if remote.addr == caddr => got.extend_from_slice(bytes),
                    _ => {}
                }
            }
            let mut want = scn.stream(c);
            if let Some((sc, b)) = scn.sclose {
                if sc == c {
                    // this reader closed its socket after `b` bytes: what it read until then is
                    // the beginning of the stream, at least `b` bytes of it
                    let upto = got.len().max((b as usize).min(want.len())).min(want.len());
                    want.truncate(upto);
                }
            }
            if scn.gapinject {
                // the injected chunk was handed over after everything stored before accept():
                // it must come out after those bytes (here: after the whole stream, since the
                // client finished writing long before the delayed accept)
                want.extend_from_slice(GAP_MARK);
            }
            rep.count_n("stream.bytes", got.len() as u64);
            if got != want {
                ok = false;
                let first = got.iter().zip(want.iter()).position(|(a, b)| a != b).unwrap_or(got.len().min(want.len()));
                let in_tcb_order: Vec<u8> = perms[c].iter().flat_map(|i| scn.write_bytes(c, *i)).collect();
                let (what, ident) = if scn.gapinject && gap_completed == Some(true) {
                    ("a chunk delivered between activation and replay of accept() overtook the stored ones", "accept-replay-reordered")
                } else if any_permuted && got == in_tcb_order[..got.len().min(in_tcb_order.len())] && got.len() == want.len() {
                    ("the stream is the concatenation of the writes in the permuted order in which they reached Tcb::send", "stream-reordered handoff")
                } else if any_permuted {
                    ("writes reached Tcb::send out of program order", "stream-reordered handoff")
                } else if n_full > 0 {
                    ("a chunk found the socket's channel full and was dropped (slow reader)", full_ident.as_str())
                } else if (run.status == "timedout" || scn.rd != Rd::Plain || listener_closed_at.is_some()) && got.len() < want.len() && got[..] == want[..got.len()] {
                    ("the stream stopped short (a correct prefix arrived)", "stream-incomplete")
                } else {
                    ("the stream differs", "stream-mismatch")
                };
                let ident = if ident.starts_with("stream-incomplete") || ident.starts_with("stream-mismatch") { format!("{}{}", ident, context) } else { ident.to_string() };
                let lost_after_close = match listener_closed_at {
                    Some(_) if got.len() < want.len() && got[..] == want[..got.len()] => "; the connection was accepted before the server closed its listening socket and stopped delivering afterwards",
                    _ => "",
                };
                rep.fail(
                    format!("client {}: read {} bytes, expected {}, first difference at offset {} — {}{}; {} reads dropped before completion; order at Tcb::send {}; channel-full drops {}; run {} `{}`", c, got.len(), want.len(), first, what, lost_after_close, n_cancel, show_perm(&perms[c]), n_full, run.status, line),
                    ident,
                );
            }
        }
    } else {
        // (3) datagrams: each message read by the server-side socket of client c is exactly one
        // datagram client c sent; clients only ever read the server's reply
        let mut sent: Vec<std::collections::HashSet<Vec<u8>>> = vec![Default::default(); scn.n_clients()];
        for c in 0..scn.n_clients() {
            for i in 0..scn.writes[c].len() {
                sent[c].insert(scn.write_bytes(c, i));
            }
        }
        for e in &run.events {
            if let SEv::SendFailed { client, idx } = e {
                rep.count("dgram.send-refused");
                if scn.fits(*client, *idx) {
                    ok = false;
                    rep.fail(format!("send of datagram {} of client {} ({} bytes, MTU {}) was refused in `{}`", idx, client, scn.writes[*client][*idx], scn.mtu, line), "dgram-send-refused");
                }
            }
            if let SEv::ReadMsg { local, remote, bytes } = e {
                rep.count("dgram.read");
                if local.addr == server_addr {
                    let c = (remote.addr & 0xff) as usize - 10;
                    if c < scn.n_clients() && sent[c].contains(bytes) {
                        // exactly one datagram of the connected peer
                    } else if let Some(sc) = (0..scn.n_clients()).find(|x| sent[*x].contains(bytes)) {
                        ok = false;
                        rep.fail(format!("socket connected to client {} read a datagram only client {} sent in `{}`", c, sc, line), "dgram-wrong-peer");
                    } else {
                        ok = false;
                        rep.fail(format!("socket connected to client {} read {} bytes that are no datagram anybody sent (fragment or concatenation) in `{}`", c, bytes.len(), line), "dgram-not-intact");
                    }
                } else if bytes != b"reply" {
                    ok = false;
                    rep.fail(format!("a client socket connected to the server read a datagram that the server did not send ({} bytes, {}) in `{}`", bytes.len(), hex(&bytes[..bytes.len().min(8)]), line), "dgram-wrong-peer");
                }
            }
        }
        if scn.drop == 0 && scn.dup == 0 {
            // loss-free: every datagram arrives exactly once
            for c in 0..scn.n_clients() {
                let caddr = u32::from_be_bytes(client_addr(c));
                if relisten_refused && scn.is_late(c) {
                    continue;
                }
                let k = run.events.iter().filter(|e| matches!(e, SEv::ReadMsg { local, remote, .. } if local.addr == server_addr && remote.addr == caddr)).count();
                let want = (0..scn.writes[c].len()).filter(|i| scn.fits(c, *i)).count();
                if k != want && n_full == 0 {
                    ok = false;
                    rep.fail(format!("client {}: {} of {} sendable datagrams arrived on a loss-free network ({} reads dropped before completion) in `{}`", c, k, want, n_cancel, line), format!("dgram-missing{}", context));
                }
            }
        }
    }
    for e in &run.events {
        if let SEv::Note(s) = e {
            if s != SHUTDOWN_MARK {
                rep.notes.push(s.clone());
            }
        }
    }
    if ok {
        rep.count("oracle.ok");
    }
    let big = scn.writes.iter().any(|w| w.len() >= 2);
    rep.nontrivial = big;
}

// ------------------------------------------------------------------------------------------
// generator of full-stack scenarios
// ------------------------------------------------------------------------------------------

fn gen_sizes(rng: &mut Rng, k: usize, budget: u64) -> Vec<u64> {
    let mut v = vec![];
    let mut left = budget;
    for _ in 0..k {
        let s = match rng.below(10) {
            0 => 1,
            1 => rng.range(2, 10),
            2 | 3 => rng.range(11, 200),
            4 | 5 => rng.range(201, 1500),
            6 | 7 => rng.range(1501, 9000),
            8 => rng.range(9001, 40000),
            _ => rng.range(40001, 100000),
        }
        .min(left.max(1));
        left = left.saturating_sub(s);
        v.push(s);
    }
    v
}

/// `flavour_set`: fault-free and small enough to run in real time on the multi_thread runtimes too
fn gen_stack(rng: &mut Rng, mode: RtMode, tcp: bool, flavour_set: bool) -> Scn {
    let paused = !flavour_set;
    let n = match rng.below(6) {
        0..=2 => 1,
        3 | 4 => rng.range(2, 3) as usize,
        _ => rng.range(4, 6) as usize,
    };
    let faults = if paused { rng.below(3) } else { 0 };
    let mtu = *rng.pick(&[100u16, 120, 300, 576, 1500, 1500, 9000]);
    let budget: u64 = if paused { 160_000 } else { 60_000 };
    let writes: Vec<Vec<u64>> = (0..n)
        .map(|_| {
            let k = match rng.below(4) {
                0 => 1,
                1 => rng.range(2, 4),
                2 => rng.range(5, 20),
                _ => rng.range(21, 40),
            } as usize;
            if tcp {
                gen_sizes(rng, k, budget / n as u64)
            } else {
                // datagrams: up to a few fragments
                (0..k).map(|_| *rng.pick(&[0u64, 1, 9, 60, 72, 200, 1000, 2500])).collect()
            }
        })
        .collect();
    Scn {
        tcp,
        mode,
        mtu,
        lat: *rng.pick(&[200u64, 1000, 5000]),
        jit: if faults >= 1 { *rng.pick(&[0u64, 300, 3000]) } else { 0 },
        drop: if faults == 2 { *rng.pick(&[10u64, 50, 150]) } else { 0 },
        dup: if faults == 2 && tcp { *rng.pick(&[0u64, 30]) } else { 0 },
        maxloss: rng.range(1, 3),
        seed: rng.next() % 1_000_000,
        gap: if rng.chance(1, 2) { 0 } else { *rng.pick(&[100u64, 3000, 20000]) },
        start: *rng.pick(&[0u64, 0, 700, 15000]),
        adelay: *rng.pick(&[0u64, 0, 0, 30000]),
        rdelay: *rng.pick(&[0u64, 0, 0, 20000]),
        rgap: *rng.pick(&[0u64, 0, 0, 500]),
        maxread: *rng.pick(&[0u64, 0, 100, 1460]),
        minread: 0,
        gapinject: false,
        intruder: !tcp && rng.chance(1, 2),
        dur: if paused { 60_000_000 } else { 6_000_000 },
        backlog: 64,
        writes,
        ..Scn::defaults()
    }
}

/// Burst family: clients issuing N back-to-back small writes on one stream socket (no await
/// between two writes), N beyond every plausible queue bound between the socket and the TCB
/// (a few hundred .. a few thousand, and sizes around powers of two), the reader draining
/// concurrently with large reads.  A hand-off that is in order only while some bounded queue has
/// room (try_send + a spawned / deferred fallback, a batch limit, a ring buffer) reorders or loses
/// writes only beyond its bound, and -- when the fallback is a spawned task -- only on a
/// multi-thread runtime: the family runs on multi_thread(4), multi_thread(16) and on the paused
/// current_thread runtime.  Writes are 3..9 bytes: the whole stream stays below the 65535-byte
/// send window and arrives in a few dozen chunks (the sender coalesces), far from the 255-slot
/// socket channel (F-C02-3/7).
fn gen_burst(rng: &mut Rng, i: u64) -> Scn {
    const NS: [usize; 4] = [300, 1100, 2500, 5000];
    const EDGES: [usize; 12] = [255, 256, 257, 511, 513, 1023, 1024, 1025, 2047, 2049, 4095, 4097];
    let (n, mode, clients) = match i {
        0 => (5000, RtMode::MultiThread(4), 1),
        1 => (*rng.pick(&[1100usize, 2500, 1025, 2049, 4097]), RtMode::MultiThread(16), 1),
        2 => (*rng.pick(&NS), RtMode::Paused, 1),
        _ => {
            let n = if rng.chance(1, 2) { *rng.pick(&NS) } else { *rng.pick(&EDGES) };
            let mode = match rng.below(6) {
                0 => RtMode::Paused,
                1 => RtMode::MultiThread(2),
                2 | 3 => RtMode::MultiThread(4),
                _ => RtMode::MultiThread(16),
            };
            // several clients bursting at once keep the workers busy
            (n, mode, if rng.chance(1, 3) { rng.range(2, 4) as usize } else { 1 })
        }
    };
    let writes: Vec<Vec<u64>> = (0..clients)
        .map(|c| {
            let n = if c == 0 { n } else { *rng.pick(&NS).min(&2500) };
            let base = rng.range(3, 6);
            (0..n as u64).map(|k| base + (k / 97) % 4).collect()
        })
        .collect();
    let paused = mode == RtMode::Paused;
    Scn {
        tcp: true,
        mode,
        mtu: *rng.pick(&[1500u16, 9000]),
        lat: 200,
        jit: 0,
        drop: 0,
        dup: 0,
        maxloss: 1,
        seed: rng.next() % 1_000_000,
        gap: 0,
        start: 0,
        adelay: 0,
        rdelay: 0,
        rgap: 0,
        maxread: 0,
        minread: 4096,
        gapinject: false,
        intruder: false,
        dur: if paused { 60_000_000 } else { 8_000_000 },
        backlog: 8,
        writes,
        ..Scn::defaults()
    }
}

/// write sizes for the discipline / lifecycle families: small enough that a connection never has
/// more than ~150 chunks in flight (far from the 255-slot socket channel, F-C02-3/7)
fn gen_small_writes(rng: &mut Rng, k: usize, mtu: u16) -> Vec<u64> {
    let budget = 150 * (mtu as u64 - 40);
    let mut left = budget;
    (0..k)
        .map(|_| {
            let s = match rng.below(6) {
                0 => 1,
                1 => rng.range(2, 9),
                2 | 3 => rng.range(10, 120),
                4 => rng.range(121, 1200),
                _ => rng.range(1201, 3000),
            }
            .min(left.max(1));
            left = left.saturating_sub(s);
            s
        })
        .collect()
}

fn gen_rd(rng: &mut Rng, which: u64, gap: u64, lat: u64) -> Rd {
    match which % 3 {
        0 => {
            // time-outs from "one poll" to generous; some equal to the rhythm of the writes, so
            // that (on the paused clock) a deadline falls into the very instant data arrives
            let pool = [0u64, 1, 50, 200, 1000, 5000, 50_000, gap, gap.max(1) * 2, gap / 2, lat, lat + gap, 2_000_000];
            let mut v: Vec<u64> = (0..rng.range(2, 5)).map(|_| *rng.pick(&pool)).collect();
            v.push(*rng.pick(&[1000u64, 5000, 50_000, 2_000_000]));
            Rd::Timeout(v)
        }
        1 => {
            // the read is dropped at its n-th suspension point: every small n in turn (a shuffled
            // sweep of 1..6, cut to four or more), now and then a later one
            let mut v: Vec<u32> = (1..=6).collect();
            for i in (1..v.len()).rev() {
                let j = rng.below(i as u64 + 1) as usize;
                v.swap(i, j);
            }
            v.truncate(rng.range(4, 6) as usize);
            if rng.chance(1, 3) {
                v.push(*rng.pick(&[8u32, 20, 50, 300]));
            }
            Rd::Poll(v)
        }
        _ => Rd::Tick(*rng.pick(&[100u64, 500, 1000, 3000, gap.max(100), (gap / 2).max(100), lat.max(100), (gap + lat).max(100)])),
    }
}

/// Reader-discipline family: the server-side readers wait for their reads inside
/// `tokio::time::timeout` / `select!` and therefore DROP read futures that have not completed --
/// on `Socket::recv`, `Socket::recv_msg` and `TcpStream::read`, stream and datagram sockets,
/// paused clock and real multi-thread runtimes.  A read that did not return has consumed nothing:
/// the oracle is the unchanged one (everything read, plus what a final drain of the socket
/// returns, is the peer's stream).
fn gen_cancel(rng: &mut Rng, i: u64) -> Scn {
    let tcp = i % 5 != 4;
    let mode = if i % 4 == 3 { RtMode::MultiThread(*rng.pick(&[2usize, 4, 16])) } else { RtMode::Paused };
    let paused = mode == RtMode::Paused;
    let mtu = *rng.pick(&[300u16, 576, 1500]);
    let lat = *rng.pick(&[200u64, 1000]);
    let gap = *rng.pick(&[0u64, 100, 1000, 3000, 3000]);
    let n = rng.range(1, 3) as usize;
    let faults = paused && tcp && rng.chance(1, 4);
    let writes: Vec<Vec<u64>> = (0..n)
        .map(|_| {
            let k = rng.range(5, 40) as usize;
            if tcp {
                gen_small_writes(rng, k, mtu)
            } else {
                (0..k).map(|_| *rng.pick(&[1u64, 9, 60, 72, 200])).collect()
            }
        })
        .collect();
    Scn {
        tcp,
        mode,
        mtu,
        lat,
        jit: if faults { 300 } else { 0 },
        drop: if faults { *rng.pick(&[10u64, 50]) } else { 0 },
        maxloss: 2,
        seed: rng.next() % 1_000_000,
        gap,
        start: *rng.pick(&[0u64, 700]),
        maxread: *rng.pick(&[0u64, 0, 100, 1460]),
        rd: gen_rd(rng, i / 5 + i, gap, lat),
        rapi: if tcp { [RApi::Stream, RApi::Recv, RApi::Msg][(i % 3) as usize] } else { RApi::Msg },
        dur: if paused { 120_000_000 } else { 12_000_000 },
        backlog: 8,
        writes,
        ..Scn::defaults()
    }
}

/// Lifecycle family: sockets are closed / dropped while OTHER connections of the same machine and
/// port carry data -- the listening socket after its clients are accepted (dropped, closed with
/// `Socket::close`, a dropped `TcpListener`), the same followed by a second listen on the port
/// with late clients, one accepted socket closed by its reader, one client closing after its
/// last write.  Oracle unchanged: every accepted connection delivers exactly its peer's writes.
fn gen_lifecycle(rng: &mut Rng, i: u64) -> Scn {
    let kind = i % 5;
    let tcp = kind == 3 || i % 4 != 3;
    let mode = if i % 7 == 6 { RtMode::MultiThread(*rng.pick(&[2usize, 4, 16])) } else { RtMode::Paused };
    let paused = mode == RtMode::Paused;
    let mtu = *rng.pick(&[300u16, 576, 1500]);
    let lat = *rng.pick(&[200u64, 1000]);
    let gap = *rng.pick(&[1000u64, 3000, 10_000]);
    let late = if kind == 2 { rng.range(1, 2) as usize } else { 0 };
    let n = rng.range(2, 4) as usize + late;
    let counts: Vec<usize> = (0..n).map(|_| rng.range(10, 40) as usize).collect();
    let writes: Vec<Vec<u64>> = counts
        .iter()
        .map(|k| if tcp { gen_small_writes(rng, *k, mtu) } else { (0..*k).map(|_| *rng.pick(&[1u64, 9, 60, 72, 200])).collect() })
        .collect();
    // the early clients write for `span` microseconds: the listener goes away in the middle
    let span = counts[..n - late].iter().map(|k| *k as u64 * gap).min().unwrap_or(gap);
    let rapi = if !tcp { RApi::Msg } else { *rng.pick(&[RApi::Recv, RApi::Msg, RApi::Stream]) };
    let mut scn = Scn {
        tcp,
        mode,
        mtu,
        lat,
        seed: rng.next() % 1_000_000,
        gap,
        start: *rng.pick(&[0u64, 700]),
        maxread: *rng.pick(&[0u64, 0, 1460]),
        rapi,
        rd: if rng.chance(1, 3) { gen_rd(rng, i, gap, lat) } else { Rd::Plain },
        dur: if paused { 120_000_000 } else { 15_000_000 },
        backlog: 8,
        writes,
        ..Scn::defaults()
    };
    let mid = 8 * lat + 3000 + span / 4 + rng.below(span / 2 + 1);
    match kind {
        0 | 1 | 2 => {
            scn.lclose = mid;
            scn.lhow_close = kind == 1 && rapi != RApi::Stream;
            if kind == 2 {
                scn.relisten = *rng.pick(&[1u64, 1000, 20_000]);
                scn.late = late;
            }
        }
        3 => {
            let c = rng.below(n as u64) as usize;
            scn.sclose = Some((c, scn.total(c) / 3));
            if rng.chance(1, 2) {
                scn.lclose = mid;
            }
        }
        _ => {
            // the client with the fewest writes is done first and closes
            let c = (0..n).min_by_key(|c| counts[*c]).unwrap_or(0);
            scn.cclose = Some(c);
            if rng.chance(1, 2) {
                scn.lclose = mid;
                scn.lhow_close = rapi != RApi::Stream;
            }
        }
    }
    scn
}

/// fixed scenarios of the two families (every run starts its generated ones after these)
fn fixed_disciplines() -> Vec<String> {
    let base = "mtu=1500 lat=1000 jit=0 drop=0 dup=0 maxloss=1 start=0 adelay=0 rdelay=0 rgap=0 maxread=0 gapinject=0 intruder=0 backlog=8";
    vec![
        // a reader polling TcpStream::read next to other work that wins at the 1st..4th poll
        format!("scn kind=tcp mode=paused {} seed=11 gap=3000 dur=60000000 rd=poll:1/2/3/4 rapi=stream writes=25x40", base),
        // reads inside a time-out equal to the rhythm of the writes, and one-poll time-outs
        format!("scn kind=tcp mode=paused {} seed=12 gap=3000 dur=60000000 rd=to:0/3000/1000/100000 rapi=stream writes=25x40", base),
        format!("scn kind=tcp mode=paused {} seed=13 gap=1000 dur=60000000 rd=tick:1000 rapi=recv writes=7x30;300x12", base),
        // the same sweep of suspension points on Socket::recv (reads smaller than the chunks, so
        // the stored remainder of a chunk is in play) and on Socket::recv_msg
        format!("scn kind=tcp mode=paused {} seed=20 gap=3000 dur=60000000 rd=poll:1/2/3/4/5 rapi=recv writes=25x40;300x12", base).replace("maxread=0", "maxread=7"),
        format!("scn kind=tcp mode=paused {} seed=21 gap=0 dur=60000000 rd=poll:2/1/3/2/4 rapi=recv writes=25x40;300x12", base).replace("maxread=0", "maxread=100"),
        format!("scn kind=tcp mode=paused {} seed=22 gap=3000 dur=60000000 rd=poll:1/2/3/4 rapi=msg writes=25x40", base),
        format!("scn kind=udp mode=paused {} seed=14 gap=1000 dur=60000000 rd=poll:1/2/3 rapi=msg writes=9x20", base),
        // the listening socket is dropped / closed while three accepted connections carry data
        format!("scn kind=tcp mode=paused {} seed=15 gap=2000 dur=60000000 lclose=40000 lhow=drop writes=50x30;7x30;300x30", base),
        format!("scn kind=tcp mode=paused {} seed=16 gap=2000 dur=60000000 rapi=stream lclose=40000 lhow=drop relisten=5000 late=1 writes=50x30;7x30;20x10", base),
        format!("scn kind=udp mode=paused {} seed=17 gap=2000 dur=60000000 rapi=msg lclose=30000 lhow=close writes=9x30;60x30", base),
        // one accepted socket closed by its reader, one client closing after its last write
        format!("scn kind=tcp mode=paused {} seed=18 gap=2000 dur=60000000 sclose=0:300 writes=50x30;7x30", base),
        format!("scn kind=tcp mode=paused {} seed=19 gap=2000 dur=60000000 cclose=1 writes=50x30;7x5", base),
    ]
}

/// scenarios that every run starts with (design-phase candidates and their regressions)
fn fixed_stack() -> Vec<String> {
    let twenty = vec!["10"; 20].join(",");
    vec![
        // F-C02-2: 20 back-to-back writes, multi_thread with 4 workers
        format!("scn kind=tcp mode=mt:4 mtu=1500 lat=200 jit=0 drop=0 dup=0 maxloss=1 seed=1 gap=0 start=0 adelay=0 rdelay=0 rgap=0 maxread=0 gapinject=0 intruder=0 dur=4000000 backlog=8 writes={}", twenty),
        // same on the paused current_thread runtime
        format!("scn kind=tcp mode=paused mtu=1500 lat=200 jit=0 drop=0 dup=0 maxloss=1 seed=1 gap=0 start=0 adelay=0 rdelay=0 rgap=0 maxread=0 gapinject=0 intruder=0 dur=20000000 backlog=8 writes={}", twenty),
        // F-C02-1: small reads across chunk boundaries
        "scn kind=tcp mode=paused mtu=1500 lat=1000 jit=0 drop=0 dup=0 maxloss=1 seed=3 gap=3000 start=0 adelay=0 rdelay=40000 rgap=0 maxread=7 gapinject=0 intruder=0 dur=20000000 backlog=8 writes=6,6,6,6,6,6".to_string(),
        // F-C02-4: a chunk handed over between activation and replay of accept()
        "scn kind=tcp mode=paused mtu=1500 lat=1000 jit=0 drop=0 dup=0 maxloss=1 seed=4 gap=0 start=0 adelay=50000 rdelay=0 rgap=0 maxread=0 gapinject=1 intruder=0 dur=20000000 backlog=8 writes=5,5".to_string(),
        // F-C02-3: slow reader, 300 spaced small writes -> more than 255 chunks wait in the channel
        format!("scn kind=tcp mode=paused mtu=1500 lat=200 jit=0 drop=0 dup=0 maxloss=1 seed=5 gap=2000 start=0 adelay=0 rdelay=1500000 rgap=0 maxread=0 gapinject=0 intruder=0 dur=20000000 backlog=8 writes={}", vec!["3"; 300].join(",")),
        // F-C02-3 / accept(): more than 255 chunks stored before accept()
        format!("scn kind=tcp mode=paused mtu=1500 lat=200 jit=0 drop=0 dup=0 maxloss=1 seed=6 gap=2000 start=0 adelay=1500000 rdelay=0 rgap=0 maxread=0 gapinject=0 intruder=0 dur=20000000 backlog=8 writes={}", vec!["3"; 300].join(",")),
        // datagrams with an intruder
        "scn kind=udp mode=paused mtu=300 lat=1000 jit=0 drop=0 dup=0 maxloss=1 seed=7 gap=3000 start=0 adelay=0 rdelay=0 rgap=0 maxread=0 gapinject=0 intruder=1 dur=20000000 backlog=8 writes=5,700,0,60;9,9".to_string(),
    ]
}

// ------------------------------------------------------------------------------------------
// (a) recv / recv_msg unit correspondence over a connected UDP pair
// ------------------------------------------------------------------------------------------

#[derive(Clone, Debug)]
enum UOp {
    Snd(Vec<u8>),
    Recv(usize, bool),
    RecvMsg(bool),
}

fn uop_line(o: &UOp) -> String {
    match o {
        UOp::Snd(b) => format!("snd {}", hex(b)),
        UOp::Recv(n, b) => format!("recv {} {}", n, *b as u8),
        UOp::RecvMsg(b) => format!("recvmsg {}", *b as u8),
    }
}
fn uop_parse(l: &str) -> Option<UOp> {
    let w: Vec<&str> = l.split_whitespace().collect();
    match w.as_slice() {
        ["snd", h] => Some(UOp::Snd(unhex(h))),
        ["recv", n, b] => Some(UOp::Recv(n.parse().ok()?, *b == "1")),
        ["recvmsg", b] => Some(UOp::RecvMsg(*b == "1")),
        _ => None,
    }
}

struct PairApp {
    /// 0 = A (sender), 1 = B (reader and driver of the script)
    side: usize,
    ops: Arc<Vec<UOp>>,
    a_sock: Arc<Mutex<Option<Socket>>>,
    results: Arc<Mutex<Vec<String>>>,
}

const PAIR_A: ([u8; 4], u16) = ([10, 0, 0, 1], 5000);
const PAIR_B: ([u8; 4], u16) = ([10, 0, 0, 2], 6000);
const PAIR_LAT_US: u64 = 1000;

#[async_trait::async_trait]
impl Protocol for PairApp {
    async fn start(&self, shutdown: Shutdown, initialized: Arc<Barrier>, machine: Arc<Machine>) -> Result<(), StartError> {
        let sockets = machine.protocol::<SocketAPI>().unwrap();
        let mut sock = sockets.new_socket(ProtocolFamily::INET, SocketType::Datagram, machine.clone()).await.unwrap();
        initialized.wait().await;
        let a = Endpoint::new(Ipv4Address::from(PAIR_A.0), PAIR_A.1);
        let b = Endpoint::new(Ipv4Address::from(PAIR_B.0), PAIR_B.1);
        if self.side == 0 {
            sock.bind(a).unwrap();
            sock.connect(b).await.unwrap();
            *self.a_sock.lock().unwrap() = Some(sock);
            let mut rx = shutdown.receiver();
            let _ = rx.recv().await;
            return Ok(());
        }
        sock.bind(b).unwrap();
        sock.connect(a).await.unwrap();
        // wait for A's socket
        let a_sock = loop {
            if let Some(s) = self.a_sock.lock().unwrap().take() {
                break s;
            }
            sleep(Duration::from_micros(100)).await;
        };
        for op in self.ops.iter() {
            let res = match op {
                UOp::Snd(bytes) => {
                    let before = SLOG.lock().unwrap().len();
                    let _ = a_sock.send(bytes.clone());
                    sleep(Duration::from_micros(3 * PAIR_LAT_US)).await;
                    let g = SLOG.lock().unwrap();
                    let mut r = "lost".to_string();
                    for e in g[before..].iter() {
                        if let SEv::Rx { outcome, .. } = e {
                            r = outcome_str(*outcome).to_string();
                        }
                    }
                    r
                }
                UOp::Recv(n, blocking) => {
                    sock.set_blocking(*blocking);
                    match tokio::time::timeout(Duration::from_millis(20), sock.recv(*n)).await {
                        Ok(Ok(v)) => format!("r {}", hex(&v)),
                        Ok(Err(_)) => "error".to_string(),
                        Err(_) => "blocked".to_string(),
                    }
                }
                UOp::RecvMsg(blocking) => {
                    sock.set_blocking(*blocking);
                    match tokio::time::timeout(Duration::from_millis(20), sock.recv_msg()).await {
                        Ok(Ok(m)) => format!("m {}", hex(&m.to_vec())),
                        Ok(Err(_)) => "error".to_string(),
                        Err(_) => "blocked".to_string(),
                    }
                }
            };
            self.results.lock().unwrap().push(res);
        }
        shutdown.shut_down();
        drop(a_sock);
        drop(sock);
        Ok(())
    }
    fn demux(&self, _m: Message, _c: Arc<dyn Session>, _k: Control, _mc: Arc<Machine>) -> Result<(), DemuxError> {
        Ok(())
    }
}

fn run_pair(ops: &[UOp]) -> Vec<String> {
    install_observer(false);
    let sc = Scenario {
        nets: vec![NetSpec { mtu: Some(1500), lat_us: (PAIR_LAT_US, 0), thr: (0, 0) }],
        machines: (0..2)
            .map(|_| MachineSpec { nets: vec![0], arp: false, udp: true, tcp: false, sockets: false, routes: vec![Route { addr: 0, mask_len: 0, slot: 0, mac: None }], apps: vec![] })
            .collect(),
        mode: RtMode::Paused,
        duration_us: 600_000_000,
    };
    let ops = Arc::new(ops.to_vec());
    let a_sock: Arc<Mutex<Option<Socket>>> = Arc::new(Mutex::new(None));
    let results: Arc<Mutex<Vec<String>>> = Arc::new(Mutex::new(vec![]));
    let (o2, a2, r2) = (ops.clone(), a_sock.clone(), results.clone());
    let extra = move |idx: usize, m: Machine, _log: &Arc<Log>| -> Machine {
        let addr = if idx == 0 { PAIR_A.0 } else { PAIR_B.0 };
        m.with(Arp::new()).with(SocketAPI::new(Some(Ipv4Address::from(addr)))).with(PairApp { side: idx, ops: o2.clone(), a_sock: a2.clone(), results: r2.clone() })
    };
    let _ = run_scenario_with(&sc, None, &extra);
    sv::set_observer(None);
    let r = results.lock().unwrap().clone();
    r
}

fn gen_pair(rng: &mut Rng) -> Vec<UOp> {
    let mut ops = vec![];
    let flood = rng.chance(1, 25);
    if flood {
        // more datagrams than the channel holds, then drain
        let k = rng.range(250, 262);
        for i in 0..k {
            ops.push(UOp::Snd(vec![(i % 251) as u8; 1 + (i % 3) as usize]));
        }
        for _ in 0..6 {
            ops.push(UOp::Recv(*rng.pick(&[1usize, 100, 1000]), false));
        }
        ops.push(UOp::Snd(vec![0xAB, 0xCD]));
        ops.push(UOp::Recv(100000, false));
        ops.push(UOp::Recv(5, true));
        return ops;
    }
    // shadow of what is pending, to aim read sizes at the boundaries
    let mut pending: Vec<usize> = vec![];
    let steps = rng.range(4, 30);
    for _ in 0..steps {
        let roll = rng.below(10);
        if roll < 4 || pending.is_empty() && roll < 7 {
            let len = *rng.pick(&[0usize, 1, 2, 3, 4, 5, 8, 13, 40]);
            ops.push(UOp::Snd(rng.bytes(len)));
            pending.push(len);
        } else if roll < 9 {
            let head = pending.first().copied().unwrap_or(4);
            let all: usize = pending.iter().sum();
            let n = *rng.pick(&[0usize, 1, head.saturating_sub(1), head, head + 1, 2 * head, head + 2, all, all + 1, 1000]);
            let blocking = rng.chance(1, 2);
            ops.push(UOp::Recv(n, blocking));
            // conservative shadow update (exact for the corrected recv): consume n bytes
            let mut left = n;
            while left > 0 && !pending.is_empty() {
                if pending[0] <= left {
                    left -= pending[0];
                    pending.remove(0);
                } else {
                    pending[0] -= left;
                    left = 0;
                }
            }
        } else {
            ops.push(UOp::RecvMsg(rng.chance(1, 2)));
            if !pending.is_empty() {
                pending.remove(0);
            }
        }
    }
    ops
}

fn exec_pair(ops: &[UOp], rep: &mut CaseReport) {
    let res = run_pair(ops);
    rep.line("cfg udp-pair", "cfg");
    // oracle: shadow byte stream of everything that was queued, FIFO
    let mut shadow: std::collections::VecDeque<u8> = Default::default();
    let mut boundaries = 0usize;
    for (i, op) in ops.iter().enumerate() {
        let r = res.get(i).cloned().unwrap_or_else(|| "missing".into());
        rep.line(uop_line(op), r.clone());
        match op {
            UOp::Snd(b) => {
                rep.count(format!("snd.{}", r));
                if r == "queued" {
                    shadow.extend(b.iter());
                }
            }
            UOp::Recv(n, _) => {
                if let Some(h) = r.strip_prefix("r ") {
                    let v = unhex(h);
                    rep.count(if v.len() == *n { "recv.full" } else if v.is_empty() { "recv.empty" } else { "recv.short" });
                    if v.len() > *n {
                        rep.fail(format!("recv({}) returned {} bytes (op {} of `{}`)", n, v.len(), i, ops.iter().map(uop_line).collect::<Vec<_>>().join(" ; ")), "recv-exceeds-n");
                    }
                    let exp: Vec<u8> = shadow.iter().take(v.len()).copied().collect();
                    if exp != v {
                        rep.fail(format!("recv({}) returned bytes that are not the next pending ones (op {})", n, i), "recv-stream-broken");
                    }
                    for _ in 0..v.len().min(shadow.len()) {
                        shadow.pop_front();
                    }
                    if !v.is_empty() && v.len() < *n {
                        boundaries += 1;
                    }
                } else {
                    rep.count(format!("recv.{}", r));
                }
            }
            UOp::RecvMsg(_) => {
                if let Some(h) = r.strip_prefix("m ") {
                    let v = unhex(h);
                    rep.count("recvmsg.msg");
                    let exp: Vec<u8> = shadow.iter().take(v.len()).copied().collect();
                    if exp != v {
                        rep.fail(format!("recv_msg returned bytes that are not the next pending ones (op {})", i), "recv-stream-broken");
                    }
                    for _ in 0..v.len().min(shadow.len()) {
                        shadow.pop_front();
                    }
                } else {
                    rep.count(format!("recvmsg.{}", r));
                }
            }
        }
    }
    rep.nontrivial = boundaries > 0 || ops.len() > 8;
}

// ------------------------------------------------------------------------------------------
// entry points
// ------------------------------------------------------------------------------------------

fn run_one_case(spec: &str) -> CaseReport {
    let mut rep = CaseReport::default();
    let mut lines = spec.lines();
    let head = lines.next().unwrap_or("");
    let w: Vec<&str> = head.split_whitespace().collect();
    match w.as_slice() {
        ["pair", seed] => {
            let mut rng = Rng::new(seed.parse().unwrap_or(1));
            let ops = gen_pair(&mut rng);
            exec_pair(&ops, &mut rep);
        }
        ["stack", ..] => {
            let line = head.strip_prefix("stack ").unwrap_or("");
            exec_stack(line, &mut rep);
        }
        ["replay"] => {
            let rest: Vec<&str> = lines.collect();
            if let Some(scn) = rest.iter().find(|l| l.starts_with("scn ")) {
                exec_stack(scn, &mut rep);
            } else {
                let ops: Vec<UOp> = rest.iter().filter_map(|l| uop_parse(l)).collect();
                exec_pair(&ops, &mut rep);
            }
        }
        _ => rep.line(head, "bad-spec"),
    }
    rep
}

const RULE_PAIR: &str = "connected UDP socket pair on a loss-free network, paused current_thread runtime; 4..30 ops per case: datagrams of 0..40 bytes, recv(n) with n in {0,1,len-1,len,len+1,2*len,len+2,all,all+1,1000} (len = head message, all = everything pending) blocking and non-blocking, recv_msg; 1 in 25 cases floods 250..262 datagrams into the 255-slot channel before reading; non-trivial = some read ended inside the pending data or more than 8 ops; distinct = hash of the op lines";
const RULE_STACK: &str = "full stack (SocketAPI, Tcp/Udp, Ipv4, Arp, Pci, Network): 1..6 clients against one listening server; per client 1..40 writes of 1 B..100 KB back-to-back or spaced (UDP: 1..40 datagrams of 0..2500 B), MTU in {100,120,300,576,1500,9000}, latency 0.2..5 ms, jitter up to 3 ms, drop 1..15 % with at most 1..3 consecutive losses per direction, duplicates 3 % on the paused runtime (thorough tier: jitter 0.3 ms + 1 % drop also on multi_thread); delayed accept, delayed/slow reader, read sizes 1..200000; burst family: 1..4 clients each issuing N back-to-back writes of 3..9 bytes, N in {300, 1100, 2500, 5000} or next to a power of two (255..4097), reader draining concurrently with reads >= 4096, on multi_thread(4) (N = 5000), multi_thread(16), the paused runtime, then random flavours incl. multi_thread(2); runtimes: paused current_thread and multi_thread with 2/4/16 workers; reader-discipline family (the server-side readers wait for each read inside tokio::time::timeout with time-outs from one poll to seconds, inside select! next to work that wins at the n-th poll for n = 1..6 and later, or next to a ticking channel, and so DROP reads that have not completed, on Socket::recv, Socket::recv_msg and TcpStream::read, stream and datagram sockets, paused and multi_thread(2/4/16); a reader that starves drains its socket at the end); lifecycle family (the listening socket -- Socket or TcpListener -- dropped or closed while 2..4 accepted connections carry data, optionally a second listen on the port with late clients, one accepted socket closed by its reader, one client closing after its last write; stream and datagram); fixed scenarios first (20 back-to-back writes on mt:4 and paused, small reads, accept-gap injection, slow reader beyond 255 chunks, late accept beyond 255 chunks, datagrams with intruder); non-trivial = some client issues at least 2 writes; distinct = hash of the scenario line";

pub fn run(args: &Args) {
    if is_worker(args) {
        worker_loop(|spec| run_one_case(spec));
        return;
    }
    let stack = args.prop.ends_with("-stack");
    let mut out = Out::new(&args.out);
    let mut specs: Vec<String> = vec![];
    if let Some(rp) = &args.replay {
        let ops = read_ops(rp);
        specs.push(format!("replay\n{}", ops.join("\n")));
    } else if stack {
        for f in fixed_stack() {
            specs.push(format!("stack {}", f));
        }
        let mut rng = Rng::new(args.seed);
        let mt_every: u64 = args.extra.get("mt_every").and_then(|v| v.parse().ok()).unwrap_or(6).max(1);
        let reps: u64 = args.extra.get("reps").and_then(|v| v.parse().ok()).unwrap_or(1);
        let mt_faults = args.extra.get("mt_faults").map(|v| v == "1").unwrap_or(false);
        let bursts: u64 = args.extra.get("bursts").and_then(|v| v.parse().ok()).unwrap_or(3);
        {
            let mut r = Rng::new(args.seed ^ 0xb0257);
            for i in 0..bursts {
                specs.push(format!("stack {}", gen_burst(&mut r, i).to_line()));
            }
        }
        let cancels: u64 = args.extra.get("cancels").and_then(|v| v.parse().ok()).unwrap_or(0);
        let lifecycles: u64 = args.extra.get("lifecycles").and_then(|v| v.parse().ok()).unwrap_or(0);
        if cancels + lifecycles > 0 {
            for f in fixed_disciplines() {
                specs.push(format!("stack {}", f));
            }
        }
        {
            let mut r = Rng::new(args.seed ^ 0xca9ce1);
            for i in 0..cancels {
                specs.push(format!("stack {}", gen_cancel(&mut r, i).to_line()));
            }
            let mut r = Rng::new(args.seed ^ 0x11fec7c1e);
            for i in 0..lifecycles {
                specs.push(format!("stack {}", gen_lifecycle(&mut r, i).to_line()));
            }
        }
        for i in 0..args.cases {
            let mut r = rng.fork();
            let tcp = !r.chance(1, 5);
            if i % mt_every == 0 {
                // a flavour set: the same fault-free scenario on the paused current_thread runtime
                // and on multi_thread with 2, 4 and 16 workers (`reps` times each)
                let mut scn = gen_stack(&mut r, RtMode::Paused, tcp, true);
                if mt_faults && tcp && r.chance(1, 3) {
                    // light faults on the real-time runtimes too (RTO = 100 ms of real time per loss)
                    scn.jit = 300;
                    scn.drop = 10;
                    scn.maxloss = 2;
                }
                specs.push(format!("stack {}", scn.to_line()));
                for k in [2usize, 4, 16] {
                    for _ in 0..reps {
                        let mut s2 = scn.clone();
                        s2.mode = RtMode::MultiThread(k);
                        s2.dur = if s2.drop > 0 { 25_000_000 } else { 8_000_000 };
                        specs.push(format!("stack {}", s2.to_line()));
                    }
                }
            } else {
                let scn = gen_stack(&mut r, RtMode::Paused, tcp, false);
                specs.push(format!("stack {}", scn.to_line()));
            }
        }
    } else {
        let mut rng = Rng::new(args.seed);
        for _ in 0..args.cases {
            specs.push(format!("pair {}", rng.next() % 1_000_000_000));
        }
    }
    let workers = args.extra.get("workers").and_then(|v| v.parse().ok()).unwrap_or_else(default_workers);
    let outcomes = run_cases(&args.prop, &specs, workers, if stack { 4 } else { 25 }, 120);
    for (c, o) in outcomes.iter().enumerate() {
        out.begin_case(c as u64);
        match o {
            CaseOutcome::Done(rep) => rep.emit(&mut out),
            died => {
                let (line, ident) = died_ident(died);
                // the scenario goes first so that a replay file re-executes it
                let spec = &specs[c];
                if let Some(scn) = spec.lines().find_map(|l| l.strip_prefix("stack ").or(if l.starts_with("scn ") { Some(l) } else { None })) {
                    out.line(scn, "scn");
                }
                let cl = format!("crash {}", line);
                out.line(&cl, &cl);
                out.mark_nontrivial();
                out.fail(&format!("the simulation process died: {} (case `{}`)", ident, spec.lines().next().unwrap_or("")), &ident);
            }
        }
        out.end_case();
    }
    out.finish(if stack { RULE_STACK } else { RULE_PAIR });
}
