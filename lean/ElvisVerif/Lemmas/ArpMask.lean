import ElvisVerif.Model.Arp
/-! Arithmetic meaning of the subnet mask kernel (helper lemmas for C06). -/
namespace Elvis.Arp
open Elvis.Gen.Arp

theorem maskFromBitcount_eq (b : Nat) (hb : b ≤ 32) : maskFromBitcount b = (2 ^ b - 1) <<< (32 - b) := by
  unfold maskFromBitcount clamp
  have h1 : ¬ b < 0 := Nat.not_lt_zero b
  have h2 : ¬ b > 32 := by omega
  simp only [h1, h2, if_false]
  by_cases h0 : b = 0
  · subst h0; simp
  · by_cases h32 : b = 32
    · subst h32; decide
    · simp [h0, h32, Nat.one_shiftLeft]

theorem netId_mask (x b : Nat) (hx : x < 2 ^ 32) (hb : b ≤ 32) :
    netId x (maskFromBitcount b) = x / 2 ^ (32 - b) * 2 ^ (32 - b) := by
  rw [maskFromBitcount_eq b hb]
  unfold netId
  apply Nat.eq_of_testBit_eq
  intro i
  rw [Nat.testBit_and, Nat.testBit_shiftLeft, Nat.testBit_two_pow_sub_one, Nat.testBit_mul_two_pow, Nat.testBit_div_two_pow]
  by_cases hi : 32 - b ≤ i
  · have e : i - (32 - b) + (32 - b) = i := by omega
    simp only [hi, decide_true, Bool.true_and, e, ge_iff_le]
    by_cases h32 : i < 32
    · have : i - (32 - b) < b := by omega
      simp [this]
    · have hxi : x.testBit i = false := Nat.testBit_lt_two_pow (Nat.lt_of_lt_of_le hx (Nat.pow_le_pow_right (by decide) (by omega)))
      simp [hxi]
  · simp [hi]

/-- two addresses are in the same subnet of prefix length `b` iff they agree above the host bits -/
theorem netId_eq_iff (a c b : Nat) (ha : a < 2 ^ 32) (hc : c < 2 ^ 32) (hb : b ≤ 32) :
    netId a (maskFromBitcount b) = netId c (maskFromBitcount b) ↔ a / 2 ^ (32 - b) = c / 2 ^ (32 - b) := by
  rw [netId_mask a b ha hb, netId_mask c b hc hb]
  constructor
  · intro h
    exact Nat.eq_of_mul_eq_mul_right (Nat.pow_pos (by decide)) h
  · intro h; rw [h]

end Elvis.Arp
