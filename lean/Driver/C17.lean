import Driver.Common
/-! Line-protocol handlers for C17 (sub-commands `c17` / `c17-*`). -/
namespace Driver.C17

def dispatch (_sub : String) (_i _o : IO.FS.Stream) : Option (IO Unit) := none

end Driver.C17
