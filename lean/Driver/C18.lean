import Driver.C08
/-! Line-protocol handlers for C18 (sub-commands `c18-ipv4`, `c18-udp`, `c18-tcp`): the op set of
`Driver/C08.lean`; the harness (built with `compute_checksum`) announces `ck 1`. -/
namespace Driver.C18

def dispatch (sub : String) (i o : IO.FS.Stream) : Option (IO Unit) :=
  if sub == "c18-ipv4" || sub == "c18-udp" || sub == "c18-tcp" then
    some (Driver.loop i o Driver.C08.step true)
  else none

end Driver.C18
